(* One-time credentials over WHOLE HISTORIES: the "never again" halves of C07 (remember cookie) and
   C05 (confirmation / recovery token).

   Part 0: a Hoare logic [tk] over the handler monad for invariants of the form
     - every stored record and the context user carry a confirm selector in a class [t_cs] and a
       recover selector in a class [t_rs],
     - the remember-token list of every pid is in a class [t_gl],
     - every unread random chunk of the request is in a class [t_gc],
   under closure conditions ([tk_ok]) that say what the classes must tolerate: a selector may be
   cleared or become base64(sha(first half of a FRESH 64-byte chunk)); a token list may lose a
   token, be emptied, or gain base64(sha(pid ; FRESH 32-byte chunk)).  Proved for every primitive,
   hook, handler, middleware, the error handler, [serve] and the administrative operations other
   than the harness's direct seed, then lifted to [step].
   Part A: the remember cookie.   Part B: confirmation and recovery tokens. *)
From AB Require Import World.Step World.Exec Base.Base64Proofs Proofs.EvLogic Proofs.Neutral Proofs.HandlerEvents
  Proofs.ServeEvents Proofs.StepUid Proofs.MonadInv Proofs.Guards Proofs.Guards2 Proofs.Guards3 Proofs.StoreLogic
  Proofs.StepGuard Proofs.StepAll Proofs.TwoFactorProofs Proofs.OneTimeProofs Proofs.TokenProofs Proofs.FlowProofs
  Proofs.OnceProofs Proofs.StoreShape Proofs.Wrapped Proofs.HistoryProofs Proofs.StepLift2 Proofs.MwProofs.
Open Scope Z_scope.

(* ================================================================================================ *)
(* Part 0: the logic                                                                                *)
(* ================================================================================================ *)
Record tkspec := mkSpec {
  t_cs : bytes -> Prop;                    (* confirm selectors *)
  t_rs : bytes -> Prop;                    (* recover selectors *)
  t_gl : bytes -> list bytes -> Prop;      (* pid, its remember-token list *)
  t_gc : bytes -> Prop                     (* random chunks *)
}.

Record tk_ok (C : crypto) (S : tkspec) : Prop := mkOk {
  ok_zero : forall n, t_gc S (repeat x00 n);
  ok_cs_nil : t_cs S [];
  ok_rs_nil : t_rs S [];
  ok_cs_sel : forall raw, length raw = 64%nat -> t_gc S raw -> t_cs S (b64std_enc (sha C (firstn 32 raw)));
  ok_rs_sel : forall raw, length raw = 64%nat -> t_gc S raw -> t_rs S (b64std_enc (sha C (firstn 32 raw)));
  ok_gl_rem : forall p l t, t_gl S p l -> t_gl S p (remove_first t l);
  ok_gl_nil : forall p, t_gl S p [];
  ok_gl_add : forall p l c, length c = 32%nat -> t_gc S c -> t_gl S p l ->
                t_gl S p (l ++ [b64std_enc (sha C (p ++ ";"%byte :: c))])
}.

Definition gu (S : tkspec) (u : user) : Prop := t_cs S (u_csel u) /\ t_rs S (u_rsel u).

Record tinv (S : tkspec) (h : hst) : Prop := mkTinv {
  ti_users : forall k u, In (k, u) (s_users (h_st h)) -> gu S u;
  ti_cuser : forall u, h_cuser h = Some u -> gu S u;
  ti_rm : forall p, t_gl S p (rmlookup p (s_rm (h_st h)));
  ti_fresh : forall c, In c (h_fresh h) -> t_gc S c
}.

Definition tk (S : tkspec) {A} (Q : A -> Prop) (m : M A) : Prop :=
  forall h r h', tinv S h -> m h = (r, h') -> tinv S h' /\ forall a, r = Ok a -> Q a.

Lemma take_chunk_incl n l c t : take_chunk n l = Some (c, t) -> forall x, In x t -> In x l.
Proof.
  revert c t. induction l as [|y l IH]; simpl; intros c t Eq x Hx; [discriminate|].
  destruct (Nat.eqb (length y) n).
  - inversion Eq; subst. right. exact Hx.
  - destruct (take_chunk n l) as [[z t']|]; [|discriminate]. inversion Eq; subst.
    destruct Hx as [Hx|Hx]; [left; exact Hx|right; eapply IH; eauto].
Qed.

Section TK0.
Variable S : tkspec.
Notation TK := (tk S).

Lemma tinv_same h h' :
  h_st h' = h_st h -> h_cuser h' = h_cuser h -> h_fresh h' = h_fresh h -> tinv S h -> tinv S h'.
Proof. intros A1 A2 A3 [I1 I2 I3 I4]. split; rewrite ?A1, ?A2, ?A3; assumption. Qed.

Lemma tk_post {A} (Q Q' : A -> Prop) (m : M A) : (forall a, Q a -> Q' a) -> TK Q m -> TK Q' m.
Proof.
  intros HQ Hm h r h' Hi Eq. destruct (Hm _ _ _ Hi Eq) as (I1 & R1). split; [exact I1|].
  intros a Ha. apply HQ. apply R1. exact Ha.
Qed.
Lemma tk_top {A} (Q : A -> Prop) (m : M A) : TK Q m -> TK anyq m.
Proof. apply tk_post. intros; exact I. Qed.

Lemma tk_ret {A} (Q : A -> Prop) (a : A) : Q a -> TK Q (ret a).
Proof.
  intros HQ h r h' Hi Eq. inversion Eq; subst. split; [exact Hi|].
  intros a0 Ha. inversion Ha; subst. exact HQ.
Qed.
Lemma tk_fail {A} (Q : A -> Prop) e : TK Q (@fail A e).
Proof. intros h r h' Hi Eq. inversion Eq; subst. split; [exact Hi|intros a Ha; discriminate Ha]. Qed.
Lemma tk_panic {A} (Q : A -> Prop) : TK Q (@panic A).
Proof. intros h r h' Hi Eq. inversion Eq; subst. split; [exact Hi|intros a Ha; discriminate Ha]. Qed.

Lemma tk_bind {A B} (Q : A -> Prop) (Q' : B -> Prop) (m : M A) (f : A -> M B) :
  TK Q m -> (forall a, Q a -> TK Q' (f a)) -> TK Q' (bind m f).
Proof.
  intros Hm Hf h r h' Hi Eq. destruct (bind_inv _ _ _ _ _ Eq) as [(a & h1 & E1 & E2)|[(e & E1 & ->)|(E1 & ->)]].
  - destruct (Hm _ _ _ Hi E1) as (I1 & R1). exact (Hf a (R1 a eq_refl) _ _ _ I1 E2).
  - destruct (Hm _ _ _ Hi E1) as (I1 & _). split; [exact I1|intros a Ha; discriminate Ha].
  - destruct (Hm _ _ _ Hi E1) as (I1 & _). split; [exact I1|intros a Ha; discriminate Ha].
Qed.
Lemma tk_try {A B} (Q : A -> Prop) (Q' : B -> Prop) (m : M A) (f : res A -> M B) :
  TK Q m -> (forall a, Q a -> TK Q' (f (Ok a))) -> (forall e, TK Q' (f (Err e))) -> TK Q' (try m f).
Proof.
  intros Hm Hok Herr h r h' Hi Eq. destruct (try_inv _ _ _ _ _ Eq) as [(x & h1 & E1 & NP & E2)|(E1 & ->)].
  - destruct (Hm _ _ _ Hi E1) as (I1 & R1).
    destruct x as [a|e|]; [exact (Hok a (R1 a eq_refl) _ _ _ I1 E2)|exact (Herr e _ _ _ I1 E2)|congruence].
  - destruct (Hm _ _ _ Hi E1) as (I1 & _). split; [exact I1|intros a Ha; discriminate Ha].
Qed.

Lemma tk_get_h_bind {B} (Q : B -> Prop) (f : hst -> M B) :
  (forall h0, tinv S h0 -> TK Q (f h0)) -> TK Q (bind get_h f).
Proof. intros Hf h r h' Hi Eq. unfold bind, get_h in Eq. eapply Hf; eauto. Qed.

(* computations that leave storage, the context user and the unread randomness alone *)
Definition keep {A} (m : M A) : Prop :=
  forall h r h', m h = (r, h') -> h_st h' = h_st h /\ h_cuser h' = h_cuser h /\ h_fresh h' = h_fresh h.

Lemma tk_keep {A} (m : M A) : keep m -> TK anyq m.
Proof.
  intros Hk h r h' Hi Eq. destruct (Hk _ _ _ Eq) as (A1 & A2 & A3).
  split; [exact (tinv_same _ _ A1 A2 A3 Hi)|intros; exact I].
Qed.
Lemma keep_modify f :
  (forall h, h_st (f h) = h_st h /\ h_cuser (f h) = h_cuser h /\ h_fresh (f h) = h_fresh h) -> keep (modify f).
Proof. intros H h r h' Eq. inversion Eq; subst. apply H. Qed.
Lemma tk_modify (Q : unit -> Prop) f :
  (forall h, h_st (f h) = h_st h /\ h_cuser (f h) = h_cuser h /\ h_fresh (f h) = h_fresh h) -> Q tt -> TK Q (modify f).
Proof.
  intros H HQ h r h' Hi Eq. inversion Eq; subst. destruct (H h) as (A1 & A2 & A3).
  split; [exact (tinv_same _ _ A1 A2 A3 Hi)|intros [] _; exact HQ].
Qed.
Lemma tk_write_resp (Q : unit -> Prop) rp : Q tt -> TK Q (write_resp rp).
Proof.
  intros HQ. unfold write_resp. apply tk_modify; [|exact HQ]. intros h. destruct (h_out h); auto.
Qed.

Lemma tk_backend O {A} (Q : A -> Prop) k (body : M A) : TK Q body -> TK Q (backend O k body).
Proof.
  intros Hb h r h' Hi Eq. unfold backend in Eq.
  destruct (fault_at (h_ncalls h) (o_faults O)) as [[|]|].
  - inversion Eq; subst. split; [apply (tinv_same h); auto|intros a Ha; discriminate Ha].
  - inversion Eq; subst. split; [apply (tinv_same h); auto|intros a Ha; discriminate Ha].
  - eapply Hb in Eq; [exact Eq|apply (tinv_same h); auto].
Qed.

Lemma tk_set_cuser (Q : unit -> Prop) u : gu S u -> Q tt -> TK Q (set_cuser u).
Proof.
  intros Hu HQ h r h' [I1 I2 I3 I4] Eq. inversion Eq; subst. split; [|intros [] _; exact HQ].
  split; try assumption. intros u0 H0. simpl in H0. inversion H0; subst. exact Hu.
Qed.

Lemma tk_st_load O pid : TK (gu S) (st_load O pid).
Proof.
  unfold st_load. apply tk_backend. intros h r h' Hi Eq.
  destruct (ulookup pid (s_users (h_st h))) as [u|] eqn:L; inversion Eq; subst.
  - split; [exact Hi|]. intros a Ha. inversion Ha; subst. apply ulookup_in in L. exact (ti_users _ _ Hi _ _ L).
  - split; [exact Hi|intros a Ha; discriminate Ha].
Qed.
Lemma tk_st_load_by_csel O sel : TK (gu S) (st_load_by_csel O sel).
Proof.
  unfold st_load_by_csel. apply tk_backend. intros h r h' Hi Eq.
  destruct (ufind _ (s_users (h_st h))) as [u|] eqn:L; inversion Eq; subst.
  - split; [exact Hi|]. intros a Ha. inversion Ha; subst. apply ufind_in in L as (k & L). exact (ti_users _ _ Hi _ _ L).
  - split; [exact Hi|intros a Ha; discriminate Ha].
Qed.
Lemma tk_st_load_by_rsel O sel : TK (gu S) (st_load_by_rsel O sel).
Proof.
  unfold st_load_by_rsel. apply tk_backend. intros h r h' Hi Eq.
  destruct (ufind _ (s_users (h_st h))) as [u|] eqn:L; inversion Eq; subst.
  - split; [exact Hi|]. intros a Ha. inversion Ha; subst. apply ufind_in in L as (k & L). exact (ti_users _ _ Hi _ _ L).
  - split; [exact Hi|intros a Ha; discriminate Ha].
Qed.
Lemma tk_save_body (Q : unit -> Prop) u : gu S u -> Q tt ->
  TK Q (modify (fun h => h <| h_st := h_st h <| s_users := uput (u_pid u) u (s_users (h_st h)) |> |>)).
Proof.
  intros Hu HQ h r h' [I1 I2 I3 I4] Eq. inversion Eq; subst. split; [|intros [] _; exact HQ].
  split; cbn [h_st h_cuser h_fresh set s_users s_rm]; simpl.
  - intros k v Hin. apply uput_in in Hin as [Hin|Hin]; [inversion Hin; subst; exact Hu|exact (I1 _ _ Hin)].
  - exact I2.
  - exact I3.
  - exact I4.
Qed.
Lemma tk_st_save O (Q : unit -> Prop) u : gu S u -> Q tt -> TK Q (st_save O u).
Proof. intros Hu HQ. unfold st_save. apply tk_backend. apply tk_save_body; assumption. Qed.
Lemma tk_st_create O (Q : unit -> Prop) u : gu S u -> Q tt -> TK Q (st_create O u).
Proof.
  intros Hu HQ. unfold st_create. apply tk_backend. intros h r h' [I1 I2 I3 I4] Eq.
  destruct (ulookup (u_pid u) (s_users (h_st h))) eqn:L; inversion Eq; subst.
  - split; [split; assumption|intros a Ha; discriminate Ha].
  - split; [|intros [] _; exact HQ]. split; simpl.
    + intros k v Hin. apply in_app_or in Hin as [Hin|[Hin|[]]]; [exact (I1 _ _ Hin)|inversion Hin; subst; exact Hu].
    + exact I2.
    + exact I3.
    + exact I4.
Qed.
Lemma tk_rm_body (Q : unit -> Prop) p (g : list bytes -> list bytes) :
  (forall old, t_gl S p old -> t_gl S p (g old)) -> Q tt ->
  TK Q (modify (fun h => h <| h_st := h_st h <| s_rm := rmput p (g (rmlookup p (s_rm (h_st h)))) (s_rm (h_st h)) |> |>)).
Proof.
  intros Hg HQ h r h' [I1 I2 I3 I4] Eq. inversion Eq; subst. split; [|intros [] _; exact HQ].
  split; simpl; try assumption.
  intros q. destruct (bytes_dec q p) as [->|N].
  - rewrite rmlookup_rmput_eq. apply Hg. apply I3.
  - rewrite rmlookup_rmput_neq by exact N. apply I3.
Qed.
Lemma tk_st_add_rm O (Q : unit -> Prop) p t :
  (forall l, t_gl S p l -> t_gl S p (l ++ [t])) -> Q tt -> TK Q (st_add_rm O p t).
Proof.
  intros Ht HQ. unfold st_add_rm. apply tk_backend. apply (tk_rm_body Q p (fun old => old ++ [t])); assumption.
Qed.
End TK0.

Section TK1.
Variable C : crypto.
Variable S : tkspec.
Hypothesis OK : tk_ok C S.
Notation TK := (tk S).

Lemma tk_fresh n : TK (fun c => length c = n /\ t_gc S c) (fresh n).
Proof.
  intros h r h' [I1 I2 I3 I4] Eq. unfold fresh in Eq.
  destruct (take_chunk n (h_fresh h)) as [[c t]|] eqn:Tk; inversion Eq; subst.
  - split.
    + split; simpl; try assumption. intros x Hx. apply I4. exact (take_chunk_incl _ _ _ _ Tk x Hx).
    + intros a Ha. inversion Ha; subst. split; [exact (take_chunk_length _ _ _ _ Tk)|].
      apply I4. exact (take_chunk_in _ _ _ _ Tk).
  - split; [split; simpl; assumption|]. intros a Ha. inversion Ha; subst.
    split; [apply repeat_length|apply (ok_zero _ _ OK)].
Qed.

Lemma tk_st_del_rm O (Q : unit -> Prop) p : Q tt -> TK Q (st_del_rm O p).
Proof.
  intros HQ. unfold st_del_rm. apply tk_backend. apply (tk_rm_body S Q p (fun _ => [])); [|exact HQ].
  intros old _. apply (ok_gl_nil _ _ OK).
Qed.
Lemma tk_st_use_rm O (Q : unit -> Prop) p t : Q tt -> TK Q (st_use_rm O p t).
Proof.
  intros HQ. unfold st_use_rm. apply tk_backend. intros h r h' Hi Eq. cbv zeta in Eq.
  destruct (bmem t (rmlookup p (s_rm (h_st h)))).
  - change (modify (fun h => h <| h_st := h_st h <| s_rm := rmput p ((fun old => remove_first t old) (rmlookup p (s_rm (h_st h)))) (s_rm (h_st h)) |> |>) h = (r, h')) in Eq.
    revert Eq. apply (tk_rm_body S Q p (fun old => remove_first t old)); [|exact HQ|exact Hi].
    intros old Ho. apply (ok_gl_rem _ _ OK). exact Ho.
  - inversion Eq; subst. split; [exact Hi|intros a Ha; discriminate Ha].
Qed.
Lemma tk_lookup_or pid d : gu S d ->
  TK (gu S) (fun h => match ulookup pid (s_users (h_st h)) with Some u => (Ok u, h) | None => (Ok d, h) end).
Proof.
  intros Hd h r h' Hi Eq. destruct (ulookup pid (s_users (h_st h))) as [u|] eqn:L; inversion Eq; subst.
  - split; [exact Hi|]. intros a Ha. inversion Ha; subst. apply ulookup_in in L. exact (ti_users _ _ Hi _ _ L).
  - split; [exact Hi|]. intros a Ha. inversion Ha; subst. exact Hd.
Qed.
End TK1.

(* ---- syntax-directed prover (after StoreShape's) ------------------------------------------------ *)
Ltac tk_unfold :=
  unfold respond, render, redirect, ro_plain, ro_ok, ro_fail, ro_follow_redir, current_user_id,
         store_back, bcrypt_codes, update_locked_state, lock_apply, invalid_confirm_token, invalid_recover_token,
         selector_of, verifier_of, half1, half2, send_mail, read_values, mw_fail, send_code_to_user,
         generate_recovery_codes.

Ltac tk_cuser_fact Hd :=
  try match type of Hd with
      | h_cuser ?h = Some ?u =>
          match goal with Hx : tinv _ h |- _ => pose proof (ti_cuser _ _ Hx _ Hd) end
      end.

Ltac gu_field :=
  match goal with
  | OK : tk_ok _ _ |- _ =>
      first
      [ assumption
      | match goal with H : gu _ _ |- _ => first [exact (proj1 H) | exact (proj2 H)] end
      | exact (ok_cs_nil _ _ OK) | exact (ok_rs_nil _ _ OK)
      | (apply (ok_cs_sel _ _ OK); assumption) | (apply (ok_rs_sel _ _ OK); assumption) ]
  end.
Ltac gu_tac := first [ assumption | split; gu_field ].

Ltac tk_side :=
  repeat match goal with
  | |- _ => assumption
  | |- anyq _ => exact I
  | |- True => exact I
  | |- gu _ _ => gu_tac
  | |- tk _ _ _ => assumption
  | |- forall _, _ => intro
  end.

Ltac keep_leaf :=
  apply tk_keep; let h := fresh in let r := fresh in let h' := fresh in let Eq := fresh in
  intros h r h' Eq; inversion Eq; subst; repeat split; reflexivity.

Ltac tk_prim :=
  match goal with
  | |- tk _ _ (ret _) => apply tk_ret
  | |- tk _ _ (fail _) => apply tk_fail
  | |- tk _ _ panic => apply tk_panic
  | |- tk _ _ (set_cuser _) => apply tk_set_cuser
  | |- tk _ _ (st_load _ _) => eapply tk_top; apply tk_st_load
  | |- tk _ _ (st_save _ _) => apply tk_st_save
  | |- tk _ _ (st_create _ _) => apply tk_st_create
  | OK : tk_ok _ _ |- tk _ _ (st_del_rm _ _) => apply (tk_st_del_rm _ _ OK)
  | OK : tk_ok _ _ |- tk _ _ (st_use_rm _ _ _) => apply (tk_st_use_rm _ _ OK)
  | |- tk _ _ (st_add_rm _ _ _) => apply tk_st_add_rm
  | OK : tk_ok _ _ |- tk _ _ (fresh _) => eapply tk_top; apply (tk_fresh _ _ OK)
  | |- tk _ _ (write_resp _) => apply tk_write_resp
  | |- tk _ _ (put_session _ _) => keep_leaf
  | |- tk _ _ (del_session _) => keep_leaf
  | |- tk _ _ (delall_session _) => keep_leaf
  | |- tk _ _ (put_cookie _ _) => keep_leaf
  | |- tk _ _ (del_cookie _) => keep_leaf
  | |- tk _ _ (log _) => keep_leaf
  | |- tk _ _ (set_cpid _) => keep_leaf
  | |- tk _ _ (modify (fun h => h <| h_st := h_st h <| s_users := uput _ _ _ |> |>)) => apply tk_save_body
  | |- tk _ _ (modify _) => apply tk_modify; [intros; repeat split; reflexivity|]
  | |- tk _ _ (backend _ _ _) => apply tk_backend
  end.

Ltac tk_step ext :=
  match goal with
  | |- tk _ _ (bind get_h _) =>
      let h0 := fresh "h0" in let Hx := fresh "Hx" in apply tk_get_h_bind; intros h0 Hx
  | |- tk _ _ (bind (st_load _ _) _) =>
      let u := fresh "u" in let Hq := fresh "Hq" in
      eapply tk_bind; [apply tk_st_load | intros u Hq]
  | |- tk _ _ (try (st_load _ _) _) =>
      let u := fresh "u" in let Hq := fresh "Hq" in
      eapply tk_try; [apply tk_st_load | intros u Hq | intros ?]
  | |- tk _ _ (try (st_load_by_csel _ _) _) =>
      let u := fresh "u" in let Hq := fresh "Hq" in
      eapply tk_try; [apply tk_st_load_by_csel | intros u Hq | intros ?]
  | |- tk _ _ (try (st_load_by_rsel _ _) _) =>
      let u := fresh "u" in let Hq := fresh "Hq" in
      eapply tk_try; [apply tk_st_load_by_rsel | intros u Hq | intros ?]
  | |- _ => ext
  | |- tk _ _ (bind _ _) => eapply (tk_bind _ anyq); [|intros ? _]
  | |- tk _ _ (try _ _) => eapply (tk_try _ anyq); [|intros ? _|intros ?]
  | |- tk _ _ (if ?c then _ else _) => destruct c eqn:?
  | |- tk _ _ (match ?x with _ => _ end) => let Hd := fresh "Hd" in destruct x eqn:Hd; tk_cuser_fact Hd
  | |- tk _ _ (let '(_, _) := ?x in _) => destruct x eqn:?
  | |- _ => tk_prim
  end.

Ltac tk_noext := fail.
Ltac tk_go0 := repeat (tk_unfold; cbn beta iota zeta; tk_step tk_noext).

Section CU.
Variable E : env.
Variable S : tkspec.
Hypothesis OK : tk_ok (e_C E) S.
Notation TK := (tk S).

Lemma tk_current_user : TK (fun p => gu S (fst p)) (current_user E).
Proof using OK. unfold current_user. tk_go0; tk_side. Qed.

Lemma tk_load_current_user : TK (gu S) (load_current_user E).
Proof using OK. unfold load_current_user. tk_go0; tk_side. Qed.

Lemma tk_generate_token :
  TK (fun t => exists raw, length raw = 64%nat /\ t_gc S raw /\ t = (selector_of E raw, verifier_of E raw, b64url_enc raw))
     (generate_token E).
Proof using OK.
  unfold generate_token. eapply tk_bind; [apply (tk_fresh _ _ OK)|].
  intros raw [Ln Gc]. apply tk_ret. exists raw. auto.
Qed.

Lemma tk_rm_generate pid :
  TK (fun p => forall l, t_gl S pid l -> t_gl S pid (l ++ [fst p])) (rm_generate E pid).
Proof using OK.
  unfold rm_generate. eapply tk_bind; [apply (tk_fresh _ _ OK)|].
  intros nonce [Ln Gc]. apply tk_ret. cbn [fst]. intros l Hl. apply (ok_gl_add _ _ OK); assumption.
Qed.
End CU.

Ltac tk_ext1 :=
  idtac; match goal with
  | OK : tk_ok _ _ |- tk _ _ (bind (current_user _) _) =>
      let u := fresh "u" in let sh := fresh "sh" in let Hq := fresh "Hq" in
      eapply tk_bind; [apply (tk_current_user _ _ OK) | intros [u sh] Hq; cbn [fst] in Hq]
  | OK : tk_ok _ _ |- tk _ _ (try (current_user _) _) =>
      let u := fresh "u" in let sh := fresh "sh" in let Hq := fresh "Hq" in
      eapply tk_try; [apply (tk_current_user _ _ OK) | intros [u sh] Hq; cbn [fst] in Hq | intros ?]
  | OK : tk_ok _ _ |- tk _ _ (try (load_current_user _) _) =>
      let u := fresh "u" in let Hq := fresh "Hq" in
      eapply tk_try; [apply (tk_load_current_user _ _ OK) | intros u Hq | intros ?]
  | OK : tk_ok _ _ |- tk _ _ (bind (generate_token _) _) =>
      let raw := fresh "raw" in let Ln := fresh "Ln" in let Gc := fresh "Gc" in
      eapply tk_bind; [apply (tk_generate_token _ _ OK) | intros ? (raw & Ln & Gc & ->)]
  | OK : tk_ok _ _ |- tk _ _ (bind (rm_generate _ _) _) =>
      let hash := fresh "hash" in let tok := fresh "tok" in let Hd := fresh "Hdg" in
      eapply tk_bind; [apply (tk_rm_generate _ _ OK) | intros [hash tok] Hd; cbn [fst] in Hd]
  | OK : tk_ok _ _ |- tk _ _ (bind (fresh 64) _) =>
      let raw := fresh "raw" in let Ln := fresh "Ln" in let Gc := fresh "Gc" in
      eapply tk_bind; [apply (tk_fresh _ _ OK) | intros raw [Ln Gc]]
  end.

Ltac tk_go1 := repeat (tk_unfold; cbn beta iota zeta; tk_step tk_ext1).

Section HK.
Variable E : env.
Variable S : tkspec.
Hypothesis OK : tk_ok (e_C E) S.
Notation TK := (tk S).

Lemma tk_hook hk rm hd : TK anyq (run_hook E hk rm hd).
Proof using OK. destruct hk; unfold run_hook; tk_go1; tk_side. Qed.

Lemma tk_call hs : forall rm hd, TK anyq (call E hs rm hd).
Proof using OK.
  induction hs as [|hk hs IH]; intros rm hd; cbn [call].
  - apply tk_ret. exact I.
  - eapply tk_bind; [apply tk_hook|intros; apply IH].
Qed.
Lemma tk_fire e rm : TK anyq (fire E e rm).
Proof using OK. unfold fire. apply tk_call. Qed.
End HK.

Ltac tk_ext2 :=
  idtac; match goal with
  | OK : tk_ok _ _ |- tk _ _ (fire _ _ _) => apply (tk_fire _ _ OK)
  | |- _ => tk_ext1
  end.
Ltac tk_go2 := repeat (tk_unfold; cbn beta iota zeta; tk_step tk_ext2).

(* ---- middlewares ------------------------------------------------------------------------------ *)
Section MW.
Variable E : env.
Variable S : tkspec.
Hypothesis OK : tk_ok (e_C E) S.
Notation TK := (tk S).

Lemma tk_auth_middleware mp full tf fr : TK anyq (auth_middleware E mp full tf fr).
Proof using OK. unfold auth_middleware. tk_go2; tk_side. Qed.
Lemma tk_lock_mw : TK anyq (lock_mw E).
Proof using OK. unfold lock_mw. tk_go2; tk_side. Qed.
Lemma tk_confirm_mw : TK anyq (confirm_mw E).
Proof using OK. unfold confirm_mw. tk_go2; tk_side. Qed.
Lemma tk_remember_authenticate : TK anyq (remember_authenticate E).
Proof using OK. unfold remember_authenticate. tk_go2; tk_side. Qed.
Lemma tk_remember_mw : TK anyq (remember_mw E).
Proof using OK. unfold remember_mw, remember_authenticate. tk_go2; tk_side. Qed.
Lemma tk_app_handler : TK anyq (app_handler E).
Proof using OK. unfold app_handler. tk_go2; tk_side. Qed.
Lemma tk_email_verify_wrap k : TK anyq (email_verify_wrap E k).
Proof using OK. unfold email_verify_wrap. tk_go2; tk_side. Qed.
End MW.

(* ---- route handlers ---------------------------------------------------------------------------- *)
Section HD.
Variable E : env.
Variable S : tkspec.
Hypothesis OK : tk_ok (e_C E) S.
Notation TK := (tk S).
Notation Gu := (gu S).

Lemma tk_totp_validate : TK (fun r => Gu (fst (fst r))) (totp_validate E).
Proof using OK.
  unfold totp_validate. eapply (tk_bind _ (fun p => Gu (fst p))).
  - tk_go2; cbn beta; cbn [fst]; tk_side.
  - intros [u sh] Hq. cbn [fst] in Hq. tk_go2; cbn beta; cbn [fst]; tk_side.
Qed.

Lemma tk_sms_send_code p u : TK anyq (sms_send_code E p u).
Proof using OK. unfold sms_send_code. destruct p; tk_go2; tk_side. Qed.

Lemma tk_sms_validate_code p u sh input rc : Gu u -> TK anyq (sms_validate_code E p u sh input rc).
Proof using OK.
  intros Hq. unfold sms_validate_code. eapply (tk_bind _ (fun vu => Gu (snd vu))).
  - tk_go2; cbn beta; cbn [snd]; tk_side.
  - intros [verified u'] Hq'. cbn [snd] in Hq'. tk_go2; tk_side.
Qed.

Ltac tk_ext3 :=
  idtac; match goal with
  | |- tk _ _ (bind (totp_validate _) _) =>
      let u := fresh "u" in let sh := fresh "sh" in let st := fresh "st" in let Hq := fresh "Hq" in
      eapply tk_bind; [apply tk_totp_validate | intros [[u sh] st] Hq; cbn [fst] in Hq]
  | |- tk _ _ (sms_send_code _ _ _) => apply tk_sms_send_code
  | |- tk _ _ (sms_validate_code _ _ _ _ _ _) => apply tk_sms_validate_code
  | |- _ => tk_ext2
  end.
Ltac go := repeat (tk_unfold; cbn beta iota zeta; tk_step tk_ext3); cbn beta; tk_side.

Lemma tk_login_get : TK anyq (login_get E). Proof using OK. unfold login_get. go. Qed.
Lemma tk_login_post : TK anyq (login_post E). Proof using OK. unfold login_post. go. Qed.
Lemma tk_otp_login_get : TK anyq (otp_login_get E). Proof using OK. unfold otp_login_get. go. Qed.
Lemma tk_otp_login_post : TK anyq (otp_login_post E). Proof using OK. unfold otp_login_post. go. Qed.
Lemma tk_otp_show pg : TK anyq (otp_show E pg). Proof using OK. unfold otp_show. go. Qed.
Lemma tk_otp_add_post : TK anyq (otp_add_post E). Proof using OK. unfold otp_add_post. go. Qed.
Lemma tk_otp_clear_post : TK anyq (otp_clear_post E). Proof using OK. unfold otp_clear_post. go. Qed.
Lemma tk_resp0 pg : TK anyq (resp0 E pg). Proof using OK. unfold resp0. go. Qed.
Lemma tk_register_post : TK anyq (register_post E). Proof using OK. unfold register_post. go. Qed.
Lemma tk_confirm_get : TK anyq (confirm_get E). Proof using OK. unfold confirm_get. go. Qed.
Lemma tk_recover_start_post : TK anyq (recover_start_post E). Proof using OK. unfold recover_start_post. go. Qed.
Lemma tk_recover_end_get : TK anyq (recover_end_get E). Proof using OK. unfold recover_end_get. go. Qed.
Lemma tk_recover_end_post : TK anyq (recover_end_post E). Proof using OK. unfold recover_end_post. go. Qed.
Lemma tk_logout : TK anyq (logout E). Proof using OK. unfold logout. go. Qed.

Lemma tk_recovery_regen_get : TK anyq (recovery_regen_get E). Proof using OK. unfold recovery_regen_get. go. Qed.
Lemma tk_recovery_regen_post : TK anyq (recovery_regen_post E). Proof using OK. unfold recovery_regen_post. go. Qed.
Lemma tk_email_verify_get k : TK anyq (email_verify_get E k). Proof using OK. unfold email_verify_get. go. Qed.
Lemma tk_email_verify_post k : TK anyq (email_verify_post E k). Proof using OK. unfold email_verify_post. go. Qed.
Lemma tk_email_verify_end k : TK anyq (email_verify_end E k). Proof using OK. unfold email_verify_end. go. Qed.

Lemma tk_totp_setup_get : TK anyq (totp_setup_get E). Proof using OK. unfold totp_setup_get. go. Qed.
Lemma tk_totp_setup_post : TK anyq (totp_setup_post E). Proof using OK. unfold totp_setup_post. go. Qed.
Lemma tk_totp_confirm_get : TK anyq (totp_confirm_get E). Proof using OK. unfold totp_confirm_get. go. Qed.
Lemma tk_totp_confirm_post : TK anyq (totp_confirm_post E). Proof using OK. unfold totp_confirm_post. go. Qed.
Lemma tk_totp_remove_post : TK anyq (totp_remove_post E). Proof using OK. unfold totp_remove_post. go. Qed.
Lemma tk_totp_validate_post : TK anyq (totp_validate_post E). Proof using OK. unfold totp_validate_post. go. Qed.
Lemma tk_totp_qr : TK anyq (totp_qr E). Proof using OK. unfold totp_qr. go. Qed.

Lemma tk_sms_setup_get : TK anyq (sms_setup_get E). Proof using OK. unfold sms_setup_get. go. Qed.
Lemma tk_sms_setup_post : TK anyq (sms_setup_post E). Proof using OK. unfold sms_setup_post. go. Qed.
Lemma tk_sms_validator_post p : TK anyq (sms_validator_post E p).
Proof using OK.
  unfold sms_validator_post. eapply (tk_bind _ (fun p => Gu (fst p))).
  - go.
  - intros [u sh] Hq. cbn [fst] in Hq. go.
Qed.

Lemma tk_oauth2_start prov : TK anyq (oauth2_start E prov).
Proof using OK. unfold oauth2_start. go. Qed.
Lemma tk_oauth2_end prov : TK anyq (oauth2_end E prov).
Proof using OK.
  unfold oauth2_end.
  repeat (tk_unfold; cbn beta iota zeta;
          match goal with
          | |- tk _ _ (bind (try (backend _ KNewOAuth2 _) _) _) =>
              let u := fresh "u" in let Hq := fresh "Hq" in let u0 := fresh "u0" in let Hq0 := fresh "Hq0" in
              eapply (tk_bind _ Gu);
              [eapply tk_try; [apply tk_backend; apply tk_lookup_or | intros u Hq | intros ?] | intros u0 Hq0]
          | |- _ => tk_step tk_ext3
          end); cbn beta; tk_side.
Qed.

(* wrappers *)
Lemma tk_behind full hd : TK anyq hd -> TK anyq (behind E full hd).
Proof using OK.
  intros Hh. unfold behind. eapply (tk_bind _ anyq); [apply (tk_auth_middleware _ _ OK)|].
  intros ok _. destruct ok; [exact Hh|apply tk_ret; exact I].
Qed.
Lemma tk_verified k hd : TK anyq hd -> TK anyq (verified E k hd).
Proof using OK.
  intros Hh. unfold verified. apply tk_behind. eapply (tk_bind _ anyq); [apply (tk_email_verify_wrap _ _ OK)|].
  intros ok _. destruct ok; [exact Hh|apply tk_ret; exact I].
Qed.
Lemma tk_with_error_handler hd : TK anyq hd -> TK anyq (with_error_handler E hd).
Proof using OK. intros Hh. unfold with_error_handler. go. Qed.

Lemma tk_expire_mw : TK anyq (expire_mw E).
Proof using OK. unfold expire_mw. go. Qed.
Lemma tk_remembered_view s : TK anyq (remembered_view s).
Proof using OK.
  unfold remembered_view. apply tk_get_h_bind. intros h0 _. destruct (h_cpid h0); apply tk_ret; exact I.
Qed.
End HD.

(* the application stack, cut after the remember middleware: what runs behind it *)
Definition app_rest (E : env) (full tf : bool) (fr : failresp) (lockmw confirmmw : bool) (sess2 : amap) : M unit :=
  let E'' := with_sess E sess2 in
  ok <- auth_middleware E'' false full tf fr ;;
  if negb ok then ret tt else
  ok <- (if lockmw then lock_mw E'' else ret true) ;;
  if negb ok then ret tt else
  ok <- (if confirmmw then confirm_mw E'' else ret true) ;;
  if negb ok then ret tt else
  app_handler E''.

Lemma app_stack_cut E full tf fr l c r e :
  app_stack E full tf fr l c r e =
  (sess <- (if e then expire_mw E else ret (e_sess E)) ;;
   sess2 <- (if r then remember_mw (with_sess E sess) ;;; remembered_view sess else ret sess) ;;
   app_rest E full tf fr l c sess2).
Proof. reflexivity. Qed.

Section HD2.
Variable E : env.
Variable S : tkspec.
Hypothesis OK : tk_ok (e_C E) S.
Notation TK := (tk S).

Lemma tk_app_rest full tf fr l c sess2 : TK anyq (app_rest E full tf fr l c sess2).
Proof using OK.
  unfold app_rest. cbv zeta.
  eapply (tk_bind _ anyq). { apply (tk_auth_middleware (with_sess E sess2) _ OK). }
  intros ok _. destruct ok; [|apply tk_ret; exact I]. cbn [negb].
  eapply (tk_bind _ anyq). { destruct l; [apply (tk_lock_mw (with_sess E sess2) _ OK)|apply tk_ret; exact I]. }
  intros ok _. destruct ok; [|apply tk_ret; exact I]. cbn [negb].
  eapply (tk_bind _ anyq). { destruct c; [apply (tk_confirm_mw (with_sess E sess2) _ OK)|apply tk_ret; exact I]. }
  intros ok _. destruct ok; [|apply tk_ret; exact I]. cbn [negb].
  apply (tk_app_handler (with_sess E sess2) _ OK).
Qed.

Lemma tk_app_stack full tf fr l c r e : TK anyq (app_stack E full tf fr l c r e).
Proof using OK.
  rewrite app_stack_cut. eapply (tk_bind _ anyq).
  { destruct e; [apply (tk_expire_mw _ _ OK)|apply tk_ret; exact I]. }
  intros sess _.
  eapply (tk_bind _ anyq).
  { destruct r; [|apply tk_ret; exact I]. eapply (tk_bind _ anyq); [apply (tk_remember_mw (with_sess E sess) _ OK)|].
    intros _ _. apply (tk_remembered_view E _ OK). }
  intros sess2 _. apply tk_app_rest.
Qed.

(* every route of the table *)
Lemma tk_route hd : route_table E = Handler hd -> TK anyq hd.
Proof using OK.
  unfold route_table, when, get_post, on_method.
  destruct (q_route (e_req E)) eqn:Hr; destruct (q_meth (e_req E)) eqn:Hm; cbn beta iota;
    repeat match goal with |- (if ?c then _ else _) = Handler _ -> _ => destruct c end;
    intros RT; try discriminate RT; injection RT as <-;
    repeat first
      [ apply (tk_verified _ _ OK) | apply (tk_behind _ _ OK) | apply tk_app_stack
      | apply (tk_login_get _ _ OK) | apply (tk_login_post _ _ OK) | apply (tk_otp_login_get _ _ OK)
      | apply (tk_otp_login_post _ _ OK)
      | apply (tk_otp_show _ _ OK) | apply (tk_otp_add_post _ _ OK) | apply (tk_otp_clear_post _ _ OK)
      | apply (tk_resp0 _ _ OK)
      | apply (tk_register_post _ _ OK) | apply (tk_confirm_get _ _ OK) | apply (tk_recover_start_post _ _ OK)
      | apply (tk_recover_end_get _ _ OK)
      | apply (tk_recover_end_post _ _ OK)
      | apply (tk_logout _ _ OK) | apply (tk_recovery_regen_get _ _ OK) | apply (tk_recovery_regen_post _ _ OK)
      | apply (tk_email_verify_get _ _ OK) | apply (tk_email_verify_post _ _ OK) | apply (tk_email_verify_end _ _ OK)
      | apply (tk_totp_setup_get _ _ OK) | apply (tk_totp_setup_post _ _ OK) | apply (tk_totp_confirm_get _ _ OK)
      | apply (tk_totp_confirm_post _ _ OK) | apply (tk_totp_remove_post _ _ OK) | apply (tk_totp_validate_post _ _ OK)
      | apply (tk_totp_qr _ _ OK) | apply (tk_sms_setup_get _ _ OK) | apply (tk_sms_setup_post _ _ OK)
      | apply (tk_sms_validator_post _ _ OK)
      | apply (tk_oauth2_start _ _ OK) | apply (tk_oauth2_end _ _ OK) ].
Qed.

Lemma tk_serve : TK anyq (serve E).
Proof using OK.
  unfold serve. destruct (route_table E) as [hd| |] eqn:RT.
  - apply (tk_with_error_handler _ _ OK). apply tk_route. exact RT.
  - apply tk_write_resp. exact I.
  - apply tk_write_resp. exact I.
Qed.
End HD2.

(* ---- the administrative operations of Step.v (all but the harness's direct seed) ----------------- *)
Lemma tk_admin C cfg O a S : tk_ok C S -> ~ is_seed a -> tk S anyq (admin C cfg O a).
Proof.
  intros OK0 NS. unfold admin.
  assert (OK : tk_ok (e_C (mkEnv C cfg O null_request [] [])) S) by exact OK0.
  destruct a; try (exfalso; apply NS; exact I);
    change C with (e_C (mkEnv C cfg O null_request [] []));
    repeat (tk_unfold; cbn beta iota zeta; tk_step tk_ext2); cbn beta; tk_side.
Qed.

(* ---- from the request to the world: one step ------------------------------------------------------ *)
Record winv (S : tkspec) (st : storage) : Prop := mkWinv {
  wi_users : forall k u, In (k, u) (s_users st) -> gu S u;
  wi_rm : forall p, t_gl S p (rmlookup p (s_rm st))
}.

Lemma tinv_init S st O : winv S st -> (forall c, In c (o_fresh O) -> t_gc S c) -> tinv S (init_hst st O).
Proof. intros [W1 W2] F. split; cbn [init_hst h_st h_cuser h_fresh]; auto. intros u Hu. discriminate Hu. Qed.
Lemma tinv_winv S h : tinv S h -> winv S (h_st h).
Proof. intros [I1 _ I3 _]. split; assumption. Qed.

Lemma step_st_cases C cfg w a O :
  (exists req r h, a = AReq req /\
     serve (mkEnv C cfg O req (jar_get (q_browser req) (w_cook w)) (jar_get (q_browser req) (w_sess w)))
           (init_hst (w_st w) O) = (r, h) /\
     w_st (fst (step C cfg w a O)) = h_st h) \/
  (exists r h, admin C cfg O a (init_hst (w_st w) O) = (r, h) /\ w_st (fst (step C cfg w a O)) = h_st h) \/
  w_st (fst (step C cfg w a O)) = w_st w.
Proof.
  unfold step. destruct a.
  - left. destruct (serve _ _) as [r0 h] eqn:Sv. exists r, r0, h. split; [reflexivity|]. split; [exact Sv|].
    destruct (h_out h); reflexivity.
  - right. left. destruct (admin _ _ _ _ _) as [r0 h] eqn:Ea. exists r0, h. split; reflexivity.
  - right. left. destruct (admin _ _ _ _ _) as [r0 h] eqn:Ea. exists r0, h. split; reflexivity.
  - right. left. destruct (admin _ _ _ _ _) as [r0 h] eqn:Ea. exists r0, h. split; reflexivity.
  - right. left. destruct (admin _ _ _ _ _) as [r0 h] eqn:Ea. exists r0, h. split; reflexivity.
  - right. left. destruct (admin _ _ _ _ _) as [r0 h] eqn:Ea. exists r0, h. split; reflexivity.
  - right. right. reflexivity.
  - right. right. destruct cookie; reflexivity.
Qed.

Lemma step_winv C cfg S w a O :
  tk_ok C S -> ~ is_seed a -> (forall c, In c (o_fresh O) -> t_gc S c) ->
  winv S (w_st w) -> winv S (w_st (fst (step C cfg w a O))).
Proof.
  intros OK NS F W.
  destruct (step_st_cases C cfg w a O) as [(req & r & h & -> & Sv & ->)|[(r & h & Ea & ->)| ->]]; [| |exact W].
  - apply tinv_winv.
    assert (OK' : tk_ok (e_C (mkEnv C cfg O req (jar_get (q_browser req) (w_cook w)) (jar_get (q_browser req) (w_sess w)))) S)
      by exact OK.
    exact (proj1 (tk_serve _ _ OK' _ _ _ (tinv_init _ _ _ W F) Sv)).
  - apply tinv_winv. exact (proj1 (tk_admin C cfg O a S OK NS _ _ _ (tinv_init _ _ _ W F) Ea)).
Qed.

(* ================================================================================================ *)
(* Part A: the remember cookie                                                                      *)
(* ================================================================================================ *)

(* the chunks a read of crypto/rand can return in a request under oracle O: one of the chunks the
   oracle lists, or the all-zero chunk of the model's starved read *)
Definition hands_out (O : oracle) (c : bytes) : Prop := In c (o_fresh O) \/ c = repeat x00 (length c).

(* the stored form of the remember token made of pid U and nonce N *)
Definition rm_tok (C : crypto) (U N : bytes) : bytes := b64std_enc (sha C (U ++ ";"%byte :: N)).

Lemma rm_parse_pid_shape raw U :
  rm_parse_pid raw = Some U ->
  raw = U ++ ";"%byte :: skipn (length raw - 32) raw /\ length (skipn (length raw - 32) raw) = 32%nat.
Proof.
  unfold rm_parse_pid. destruct (length raw <? 33)%nat eqn:Lt; [discriminate|]. apply Nat.ltb_ge in Lt.
  destruct (nth_error raw (length raw - 33)) as [c|] eqn:Ne; [|discriminate].
  destruct (Byte.eqb c ";"%byte) eqn:Eb; [|discriminate]. intros H. inversion H as [HU]. clear H.
  apply Byte.byte_dec_bl in Eb. subst c.
  apply nth_error_split in Ne as (l1 & l2 & Hr & L1).
  assert (L2 : length l2 = 32%nat).
  { apply (f_equal (@length byte)) in Hr. rewrite app_length in Hr. cbn [length] in Hr. lia. }
  assert (HF : firstn (length raw - 33) raw = l1).
  { rewrite Hr at 2. rewrite <- L1. rewrite firstn_app, Nat.sub_diag, firstn_all. cbn [firstn]. apply app_nil_r. }
  assert (HS : skipn (length raw - 32) raw = l2).
  { rewrite Hr at 2. replace (length raw - 32)%nat with (length (l1 ++ [";"%byte])).
    - change (l1 ++ ";"%byte :: l2) with (l1 ++ [";"%byte] ++ l2). rewrite app_assoc. rewrite skipn_app, Nat.sub_diag, skipn_all. reflexivity.
    - rewrite app_length. cbn [length]. lia. }
  rewrite HS, HF. split; [exact Hr|exact L2].
Qed.

Lemma rm_tok_of_raw C raw U :
  rm_parse_pid raw = Some U -> rm_tok C U (skipn (length raw - 32) raw) = b64std_enc (sha C raw).
Proof. intros Pp. unfold rm_tok. rewrite <- (proj1 (rm_parse_pid_shape raw U Pp)). reflexivity. Qed.

Lemma count_occ_remove_first_le x t l :
  (count_occ bytes_dec (remove_first t l) x <= count_occ bytes_dec l x)%nat.
Proof.
  induction l as [|a l IH]; [apply Nat.le_refl|]. cbn [remove_first]. destruct (beqb t a).
  - cbn [count_occ]. destruct (bytes_dec a x); lia.
  - cbn [count_occ]. destruct (bytes_dec a x); lia.
Qed.

Section A.
Variable C : crypto.
Hypothesis laws : crypto_laws C.
Variables U N : bytes.

(* at most n copies of the token (U, N) in U's list; no unread chunk is N *)
Definition specA (n : nat) : tkspec :=
  mkSpec (fun _ => True) (fun _ => True)
         (fun p l => p = U -> (count_occ bytes_dec l (rm_tok C U N) <= n)%nat)
         (fun c => c <> N).

Lemma specA_ok n : N <> repeat x00 (length N) -> tk_ok C (specA n).
Proof using laws.
  intros Hz. split; cbn [specA t_cs t_rs t_gl t_gc]; auto.
  - intros k Hk. apply Hz. rewrite <- Hk. rewrite repeat_length. reflexivity.
  - intros p l t Hl Hp. eapply Nat.le_trans; [apply count_occ_remove_first_le|exact (Hl Hp)].
  - intros p Hp. cbn [count_occ]. lia.
  - intros p l c Lc Gc Hl Hp. subst p. rewrite count_occ_app. cbn [count_occ].
    destruct (bytes_dec (b64std_enc (sha C (U ++ ";"%byte :: c))) (rm_tok C U N)) as [Heq|_]; [|specialize (Hl eq_refl); lia].
    exfalso. unfold rm_tok in Heq. apply b64std_enc_inj, (sha_inj C laws) in Heq.
    apply app_inv_head in Heq. inversion Heq. contradiction.
Qed.

Lemma winv_specA n st :
  winv (specA n) st <-> (count_occ bytes_dec (rmlookup U (s_rm st)) (rm_tok C U N) <= n)%nat.
Proof.
  split.
  - intros [_ W]. exact (W U eq_refl).
  - intros H. split; [intros k u _; split; exact I|]. intros p ->. exact H.
Qed.

Lemma fresh_not_N O : ~ hands_out O N -> forall c, In c (o_fresh O) -> c <> N.
Proof. intros H c Hc ->. apply H. left. exact Hc. Qed.
Lemma not_zero_of O : ~ hands_out O N -> N <> repeat x00 (length N).
Proof. intros H Hz. apply H. right. exact Hz. Qed.

(* A3: every step that is not a direct seed and whose oracle does not hand out N keeps "at most n
   copies" *)
Lemma rm_count_step cfg w a O n :
  ~ is_seed a -> ~ hands_out O N ->
  (count_occ bytes_dec (rmlookup U (s_rm (w_st w))) (rm_tok C U N) <= n)%nat ->
  (count_occ bytes_dec (rmlookup U (s_rm (w_st (fst (step C cfg w a O))))) (rm_tok C U N) <= n)%nat.
Proof using laws.
  intros NS NH H. apply (proj1 (winv_specA n _)). apply step_winv.
  - apply specA_ok. exact (not_zero_of O NH).
  - exact NS.
  - exact (fresh_not_N O NH).
  - apply (proj2 (winv_specA n _)). exact H.
Qed.
End A.

(* ---- A4: the step in which the cookie logs somebody in takes one copy of its token out ------------ *)
Definition noput (e : csevent) : Prop := forall V, e <> Put k_uid V.

Lemma neutral_noput e : sess_neutral e -> noput e.
Proof. intros Hn V ->. apply Hn. reflexivity. Qed.
Lemma put_guard_false_noput e : put_guard (fun _ => False) e -> noput e.
Proof. intros Hg V He. exact (Hg V He). Qed.

Lemma st_use_rm_full O pid tok h x k1 :
  st_use_rm O pid tok h = (x, k1) ->
  h_cuser k1 = h_cuser h /\ h_fresh k1 = h_fresh h /\ h_sev k1 = h_sev h /\
  ((x = Ok tt /\
    h_st k1 = h_st h <| s_rm := rmput pid (remove_first tok (rmlookup pid (s_rm (h_st h)))) (s_rm (h_st h)) |>) \/
   ((exists e, x = Err e) /\ h_st k1 = h_st h)).
Proof.
  unfold st_use_rm, backend. intros Eq.
  destruct (fault_at (h_ncalls h) (o_faults O)) as [[|]|].
  - inversion Eq; subst. repeat split. right. split; [eexists; reflexivity|reflexivity].
  - inversion Eq; subst. repeat split. right. split; [eexists; reflexivity|reflexivity].
  - cbv zeta in Eq.
    match type of Eq with context [if ?b then _ else _] => destruct b end; inversion Eq; subst; repeat split.
    + left. split; reflexivity.
    + right. split; [eexists; reflexivity|reflexivity].
Qed.

Lemma neutral_app_rest E full tf fr l c s2 : evs_all sess_neutral any_ev (app_rest E full tf fr l c s2).
Proof.
  unfold app_rest. cbv zeta.
  apply evs_bind; [apply neutral_auth_middleware|intros ok]. destruct (negb ok); [apply evs_ret|].
  apply evs_bind; [destruct l; [apply neutral_lock_mw|apply evs_ret]|intros ok2]. destruct (negb ok2); [apply evs_ret|].
  apply evs_bind; [destruct c; [apply neutral_confirm_mw|apply evs_ret]|intros ok3]. destruct (negb ok3); [apply evs_ret|].
  apply neutral_app_handler.
Qed.

Section D.
Variable E : env.
Hypothesis laws : crypto_laws (e_C E).
Variables (cookie raw U : bytes) (m : nat).
Hypothesis Ck : alookup k_rm (e_cook E) = Some cookie.
Hypothesis Dc : b64url_dec cookie = Some raw.
Hypothesis Pp : rm_parse_pid raw = Some U.
Notation N := (skipn (length raw - 32) raw).
Hypothesis Hz : N <> repeat x00 (length N).
Notation Slo := (specA (e_C E) U N m).
Notation Shi := (specA (e_C E) U N (S m)).

(* either a copy is gone already, or nothing has put an identity into the session so far *)
Definition dst (h : hst) : Prop :=
  tinv Slo h \/ (tinv Shi h /\ forall V, ~ In (Put k_uid V) (h_sev h)).
Definition dk {A} (mm : M A) : Prop := forall h r h', dst h -> mm h = (r, h') -> dst h'.

Lemma dk_of {A} (mm : M A) : tk Slo anyq mm -> tk Shi anyq mm -> evs_all noput any_ev mm -> dk mm.
Proof.
  intros H1 H2 He h r h' [Lo|[Hi NP]] Eq.
  - left. exact (proj1 (H1 _ _ _ Lo Eq)).
  - right. split; [exact (proj1 (H2 _ _ _ Hi Eq))|].
    destruct (He _ _ _ Eq) as [(ls & lc & Sv & _ & F & _) _]. intros V Hin. rewrite Sv in Hin.
    apply in_app_or in Hin as [Hin|Hin]; [exact (NP V Hin)|].
    rewrite Forall_forall in F. exact (F _ Hin V eq_refl).
Qed.
Lemma dk_bind {A B} (mm : M A) (f : A -> M B) : dk mm -> (forall a, dk (f a)) -> dk (bind mm f).
Proof.
  intros Hm Hf h r h' D Eq. destruct (bind_inv _ _ _ _ _ Eq) as [(a & h1 & E1 & E2)|[(e & E1 & ->)|(E1 & ->)]].
  - exact (Hf a _ _ _ (Hm _ _ _ D E1) E2).
  - exact (Hm _ _ _ D E1).
  - exact (Hm _ _ _ D E1).
Qed.
Lemma dk_try {A B} (mm : M A) (f : res A -> M B) : dk mm -> (forall x, dk (f x)) -> dk (try mm f).
Proof.
  intros Hm Hf h r h' D Eq. destruct (try_inv _ _ _ _ _ Eq) as [(x & h1 & E1 & _ & E2)|(E1 & ->)].
  - exact (Hf x _ _ _ (Hm _ _ _ D E1) E2).
  - exact (Hm _ _ _ D E1).
Qed.

Lemma OKlo : tk_ok (e_C E) Slo. Proof using laws Hz. apply specA_ok; assumption. Qed.
Lemma OKhi : tk_ok (e_C E) Shi. Proof using laws Hz. apply specA_ok; assumption. Qed.

Lemma dk_remember_authenticate sess : dk (remember_authenticate (with_sess E sess)).
Proof using laws Hz Ck Dc Pp.
  pose proof OKlo as OK1. pose proof OKhi as OK2.
  intros h r h' [Lo|[Hi NP]] Eq.
  - left. exact (proj1 (tk_remember_authenticate (with_sess E sess) _ OK1 _ _ _ Lo Eq)).
  - unfold remember_authenticate in Eq. cbn [with_sess e_cook e_C e_O] in Eq. rewrite Ck, Dc, Pp in Eq. cbv zeta in Eq.
    apply try_inv in Eq as [(x & k1 & L & NPn & Eq)|(L & _)].
    2:{ apply st_use_rm_full in L as (_ & _ & _ & [(Hx & _)|((e & Hx) & _)]); discriminate Hx. }
    apply st_use_rm_full in L as (Cu & Fr & Sv & [(-> & St)|((e & ->) & St)]).
    + (* the token has been taken out *)
      left.
      assert (Ilo : tinv Slo k1).
      { destruct Hi as [I1 I2 I3 I4]. split.
        - intros k u _. split; exact I.
        - intros u _. split; exact I.
        - intros p ->. rewrite St. cbn [s_rm set]. simpl. rewrite rmlookup_rmput_eq.
          rewrite (rm_tok_of_raw (e_C E) raw U Pp). rewrite count_occ_remove_first.
          pose proof (I3 U eq_refl) as Hc. rewrite (rm_tok_of_raw (e_C E) raw U Pp) in Hc. lia.
        - rewrite Fr. exact I4. }
      match type of Eq with ?mm k1 = _ =>
        assert (Hm : tk Slo anyq mm) by (change (e_C E) with (e_C (with_sess E sess)) in OK1; tk_go2; tk_side) end.
      exact (proj1 (Hm _ _ _ Ilo Eq)).
    + (* refused: nothing happened *)
      assert (D1 : dst k1).
      { right. split; [exact (tinv_same _ _ _ St Cu Fr Hi)|rewrite Sv; exact NP]. }
      match type of Eq with ?mm k1 = _ =>
        assert (Hm : dk mm)
          by (change (e_C E) with (e_C (with_sess E sess)) in OK1, OK2;
              apply dk_of; [destruct e; tk_go2; tk_side|destruct e; tk_go2; tk_side|destruct e; evs_go]) end.
      exact (Hm _ _ _ D1 Eq).
Qed.

Lemma dk_remember_mw sess : dk (remember_mw (with_sess E sess)).
Proof using laws Hz Ck Dc Pp.
  pose proof OKlo as OK1. pose proof OKhi as OK2.
  change (e_C E) with (e_C (with_sess E sess)) in OK1, OK2.
  unfold remember_mw. apply dk_bind.
  - apply dk_of; [tk_go2; tk_side|tk_go2; tk_side|evs_go].
  - intros id. destruct (bempty id).
    + apply dk_try; [apply dk_remember_authenticate|].
      intros x. apply dk_of; [destruct x; tk_go2; tk_side|destruct x; tk_go2; tk_side|destruct x; evs_go].
    + apply dk_of; [apply tk_ret; exact I|apply tk_ret; exact I|apply evs_ret].
Qed.

Lemma dk_app_stack full tf fr l c e : dk (app_stack E full tf fr l c true e).
Proof using laws Hz Ck Dc Pp.
  pose proof OKlo as OK1. pose proof OKhi as OK2.
  rewrite app_stack_cut. apply dk_bind.
  { destruct e.
    - apply dk_of; [apply (tk_expire_mw _ _ OK1)|apply (tk_expire_mw _ _ OK2)|].
      eapply evs_weaken; [apply put_guard_false_noput|intros ? Hx; exact Hx|apply evs_put_expire_mw].
    - apply dk_of; [apply tk_ret; exact I|apply tk_ret; exact I|apply evs_ret]. }
  intros sess. apply dk_bind.
  { apply dk_bind; [apply dk_remember_mw|]. intros _.
    apply dk_of; [apply (tk_remembered_view E _ OK1)|apply (tk_remembered_view E _ OK2)|apply evs_remembered_view]. }
  intros sess2. apply dk_of; [apply (tk_app_rest _ _ OK1)|apply (tk_app_rest _ _ OK2)|].
  eapply evs_weaken; [apply neutral_noput|intros ? Hx; exact Hx|apply neutral_app_rest].
Qed.

Lemma dk_served full tf fr l c e :
  dk (with_error_handler E (app_stack E full tf fr l c true e)).
Proof using laws Hz Ck Dc Pp.
  pose proof OKlo as OK1. pose proof OKhi as OK2.
  unfold with_error_handler. apply dk_try; [apply dk_app_stack|].
  intros x. apply dk_of; [destruct x; tk_go2; tk_side|destruct x; tk_go2; tk_side|destruct x; evs_go].
Qed.
End D.

(* ---- one request step, unfolded ------------------------------------------------------------------- *)
Lemma step_req_unfold C cfg w req O r h :
  serve (mkEnv C cfg O req (jar_get (q_browser req) (w_cook w)) (jar_get (q_browser req) (w_sess w)))
        (init_hst (w_st w) O) = (r, h) ->
  w_st (fst (step C cfg w (AReq req) O)) = h_st h /\
  w_sess (fst (step C cfg w (AReq req) O)) =
    match h_out h with
    | Some wr => jar_set (q_browser req) (apply_events (jar_get (q_browser req) (w_sess w)) (w_sev wr)) (w_sess w)
    | None => w_sess w
    end /\
  w_cook (fst (step C cfg w (AReq req) O)) =
    match h_out h with
    | Some wr => jar_set (q_browser req) (apply_events (jar_get (q_browser req) (w_cook w)) (w_cev wr)) (w_cook w)
    | None => w_cook w
    end /\
  snd (step C cfg w (AReq req) O) = obs_of r h.
Proof. intros Sv. unfold step. cbv zeta. rewrite Sv. destruct (h_out h); repeat split; reflexivity. Qed.

Lemma pref_init st O : pref (init_hst st O).
Proof. intros wr Hw. discriminate Hw. Qed.

(* a new identity in the stored session was put by an event of the request *)
Lemma step_new_uid_event C cfg w req O r h V :
  serve (mkEnv C cfg O req (jar_get (q_browser req) (w_cook w)) (jar_get (q_browser req) (w_sess w)))
        (init_hst (w_st w) O) = (r, h) ->
  pref h ->
  alookup k_uid (jar_get (q_browser req) (w_sess (fst (step C cfg w (AReq req) O)))) = Some V ->
  alookup k_uid (jar_get (q_browser req) (w_sess w)) <> Some V ->
  In (Put k_uid V) (h_sev h).
Proof.
  intros Sv Pf H1 H0. destruct (step_req_unfold C cfg w req O r h Sv) as (_ & Ss & _). rewrite Ss in H1.
  destruct (h_out h) as [wr|] eqn:Ho; [|contradiction].
  rewrite jar_get_set_eq in H1. apply apply_events_uid_change in H1; [|exact H0].
  destruct (Pf wr Ho) as (ls & lc & A1 & _). rewrite A1. apply in_or_app. left. exact H1.
Qed.

Section A4.
Variable C : crypto.
Hypothesis laws : crypto_laws C.
Variable cfg : config.

(* the step in which the cookie logged somebody in: one copy of its token is gone *)
Lemma rm_consume_step w req O cookie raw U V m full tf fr l c e :
  q_route req = RApp full tf fr l c true e ->
  alookup k_rm (jar_get (q_browser req) (w_cook w)) = Some cookie ->
  b64url_dec cookie = Some raw -> rm_parse_pid raw = Some U ->
  ~ hands_out O (skipn (length raw - 32) raw) ->
  alookup k_uid (jar_get (q_browser req) (w_sess (fst (step C cfg w (AReq req) O)))) = Some V ->
  alookup k_uid (jar_get (q_browser req) (w_sess w)) <> Some V ->
  (count_occ bytes_dec (rmlookup U (s_rm (w_st w))) (b64std_enc (sha C raw)) <= S m)%nat ->
  (count_occ bytes_dec (rmlookup U (s_rm (w_st (fst (step C cfg w (AReq req) O))))) (b64std_enc (sha C raw)) <= m)%nat.
Proof using laws.
  intros R Ck Dc Pp NH H1 H0 Cnt.
  set (E := mkEnv C cfg O req (jar_get (q_browser req) (w_cook w)) (jar_get (q_browser req) (w_sess w))).
  assert (RT : route_table E = Handler (app_stack E full tf fr l c true e)).
  { unfold route_table. cbn [e_req E]. rewrite R. reflexivity. }
  destruct (serve E (init_hst (w_st w) O)) as [r h] eqn:Sv.
  destruct (step_req_unfold C cfg w req O r h Sv) as (St & _). rewrite St.
  assert (Hz : skipn (length raw - 32) raw <> repeat x00 (length (skipn (length raw - 32) raw))).
  { intros Hx. apply NH. right. exact Hx. }
  assert (Pf : pref h).
  { assert (Hs : evs_all any_ev any_ev (serve E)).
    { apply serve_evs. rewrite RT. unfold routed_evs. apply evs_any_app_stack. }
    exact (proj2 (Hs _ _ _ Sv) (pref_init _ _)). }
  pose proof (step_new_uid_event C cfg w req O r h V Sv Pf H1 H0) as Hin.
  assert (D0 : dst E raw U m (init_hst (w_st w) O)).
  { right. split; [|intros V0 []]. apply tinv_init.
    - apply (proj2 (winv_specA C U _ (S m) _)). rewrite (rm_tok_of_raw C raw U Pp). exact Cnt.
    - intros x Hx ->. apply NH. left. exact Hx. }
  rewrite (serve_handler _ _ RT) in Sv.
  destruct (dk_served E laws cookie raw U m Ck Dc Pp Hz full tf fr l c e _ _ _ D0 Sv) as [Lo|[_ NP]].
  - apply tinv_winv in Lo. apply (proj1 (winv_specA C U _ m _)) in Lo.
    rewrite (rm_tok_of_raw C raw U Pp) in Lo. exact Lo.
  - exfalso. exact (NP V Hin).
Qed.

(* A3 in the cookie's vocabulary, with the direct seed as the second visible exception *)
Definition rm_reissue (raw U : bytes) (a : action) (O : oracle) : Prop :=
  match a with
  | ASeed u rm => u_pid u = U /\ In (b64std_enc (sha C raw)) rm
  | APlant _ _ _ | ASetJar _ _ _ => False
  | _ => hands_out O (skipn (length raw - 32) raw)
  end.

Lemma rm_count_step_raw w a O raw U n :
  rm_parse_pid raw = Some U -> ~ rm_reissue raw U a O ->
  (count_occ bytes_dec (rmlookup U (s_rm (w_st w))) (b64std_enc (sha C raw)) <= n)%nat ->
  (count_occ bytes_dec (rmlookup U (s_rm (w_st (fst (step C cfg w a O))))) (b64std_enc (sha C raw)) <= n)%nat.
Proof using laws.
  intros Pp NR H. rewrite <- (rm_tok_of_raw C raw U Pp) in *.
  destruct a; try (apply rm_count_step; [exact laws|intros []|exact NR|exact H]); cbn [rm_reissue] in NR.
  - (* ASeed *)
    unfold step, admin, modify. cbn [fst w_st set h_st init_hst s_rm].
    destruct (bytes_dec U (u_pid u)) as [->|Ne].
    + rewrite rmlookup_rmput_eq. destruct (count_occ bytes_dec rm (rm_tok C (u_pid u) (skipn (length raw - 32) raw))) eqn:Cn; [lia|].
      exfalso. apply NR. split; [reflexivity|]. rewrite <- (rm_tok_of_raw C raw (u_pid u) Pp).
      apply (count_occ_In bytes_dec). lia.
    + rewrite rmlookup_rmput_neq by exact Ne. exact H.
  - exact H.
  - destruct cookie; exact H.
Qed.
End A4.

(* ---- the cookie's vocabulary --------------------------------------------------------------------- *)
(* the token of the cookie is not among U's stored tokens (vocabulary of c07_unknown_cookie_no_login) *)
Definition rm_absent (C : crypto) (cookie U : bytes) (st : storage) : Prop :=
  forall raw, b64url_dec cookie = Some raw -> bmem (b64std_enc (sha C raw)) (rmlookup U (s_rm st)) = false.
(* ... occurs at most n times among them *)
Definition rm_at_most (C : crypto) (cookie U : bytes) (st : storage) (n : nat) : Prop :=
  forall raw, b64url_dec cookie = Some raw ->
    (count_occ bytes_dec (rmlookup U (s_rm st)) (b64std_enc (sha C raw)) <= n)%nat.

Lemma rm_absent_iff C cookie U st : rm_absent C cookie U st <-> rm_at_most C cookie U st 0.
Proof.
  split; intros H raw Dc; specialize (H raw Dc).
  - apply bmem_false_iff in H. apply (count_occ_not_In bytes_dec) in H. lia.
  - apply bmem_false_iff. apply (count_occ_not_In bytes_dec). lia.
Qed.

(* the visible exceptions: a step that can issue the very same token again *)
Definition rm_exception (C : crypto) (cookie U : bytes) (ao : action * oracle) : Prop :=
  exists raw, b64url_dec cookie = Some raw /\ rm_reissue C raw U (fst ao) (snd ao).

Lemma rm_exception_reading C cookie U a O :
  rm_exception C cookie U (a, O) <->
  exists raw, b64url_dec cookie = Some raw /\
    match a with
    | ASeed u rm => u_pid u = U /\ In (b64std_enc (sha C raw)) rm
    | APlant _ _ _ | ASetJar _ _ _ => False
    | _ => In (skipn (length raw - 32) raw) (o_fresh O) \/
           skipn (length raw - 32) raw = repeat x00 (length (skipn (length raw - 32) raw))
    end.
Proof. unfold rm_exception, rm_reissue, hands_out. cbn [fst snd]. destruct a; reflexivity. Qed.

Section AH.
Variable C : crypto.
Hypothesis laws : crypto_laws C.
Variable cfg : config.

(* A2: a cookie whose token is absent logs nobody in, whatever the oracle does *)
Lemma rm_absent_refused w req O cookie raw U :
  is_app (q_route req) = true ->
  alookup k_rm (jar_get (q_browser req) (w_cook w)) = Some cookie ->
  b64url_dec cookie = Some raw -> rm_parse_pid raw = Some U ->
  rm_absent C cookie U (w_st w) ->
  forall b V, alookup k_uid (jar_get b (w_sess (fst (step C cfg w (AReq req) O)))) = Some V ->
              alookup k_uid (jar_get b (w_sess w)) = Some V.
Proof.
  intros App Ck Dc Pp Ab b V H1.
  destruct (alookup k_uid (jar_get b (w_sess w))) as [v0|] eqn:L0.
  - destruct (bytes_dec v0 V) as [->|Ne]; [reflexivity|]. exfalso.
    assert (H0 : alookup k_uid (jar_get b (w_sess w)) <> Some V) by (rewrite L0; congruence).
    destruct (step_issued C cfg w (AReq req) O V b H1 H0) as [(rq & Ha & Hb & Cs)|[Ha|(j & Ha & _)]];
      try discriminate Ha. inversion Ha; subst rq.
    destruct Cs as [(R & _)|[(R & _)|[(R & _)|[(R & _)|[(pv & R & _)|[(R & _)|[(R & _)|(f1 & f2 & f3 & f4 & f5 & f6 & R & G)]]]]]]];
      try (rewrite R in App; discriminate App).
    destruct G as (ck & rw & G1 & G2 & G3 & G4). cbn [e_cook e_C] in *.
    rewrite Ck in G1. inversion G1; subst ck. rewrite Dc in G2. inversion G2; subst rw.
    rewrite Pp in G3. inversion G3; subst V. rewrite (Ab raw Dc) in G4. discriminate G4.
  - exfalso.
    assert (H0 : alookup k_uid (jar_get b (w_sess w)) <> Some V) by (rewrite L0; discriminate).
    destruct (step_issued C cfg w (AReq req) O V b H1 H0) as [(rq & Ha & Hb & Cs)|[Ha|(j & Ha & _)]];
      try discriminate Ha. inversion Ha; subst rq.
    destruct Cs as [(R & _)|[(R & _)|[(R & _)|[(R & _)|[(pv & R & _)|[(R & _)|[(R & _)|(f1 & f2 & f3 & f4 & f5 & f6 & R & G)]]]]]]];
      try (rewrite R in App; discriminate App).
    destruct G as (ck & rw & G1 & G2 & G3 & G4). cbn [e_cook e_C] in *.
    rewrite Ck in G1. inversion G1; subst ck. rewrite Dc in G2. inversion G2; subst rw.
    rewrite Pp in G3. inversion G3; subst V. rewrite (Ab raw Dc) in G4. discriminate G4.
Qed.

(* A3: "at most n" survives every step that is not one of the visible exceptions *)
Lemma rm_at_most_step w a O cookie raw U n :
  b64url_dec cookie = Some raw -> rm_parse_pid raw = Some U ->
  ~ rm_exception C cookie U (a, O) ->
  rm_at_most C cookie U (w_st w) n -> rm_at_most C cookie U (w_st (fst (step C cfg w a O))) n.
Proof using laws.
  intros Dc Pp NE H raw' Dc'. rewrite Dc in Dc'. inversion Dc'; subst raw'.
  apply rm_count_step_raw; [exact laws|exact Pp| |exact (H raw Dc)].
  intros Hr. apply NE. exists raw. split; [exact Dc|exact Hr].
Qed.

Lemma rm_at_most_grun cookie raw U n :
  b64url_dec cookie = Some raw -> rm_parse_pid raw = Some U ->
  forall l w, Forall (fun ao => ~ rm_exception C cookie U ao) l ->
    rm_at_most C cookie U (w_st w) n -> rm_at_most C cookie U (w_st (grun (step C cfg) w l)) n.
Proof using laws.
  intros Dc Pp. induction l as [|[a O] l IH]; intros w F H; cbn [grun]; [exact H|].
  inversion F as [|? ? F1 F2]; subst. apply IH; [exact F2|].
  exact (rm_at_most_step w a O cookie raw U n Dc Pp F1 H).
Qed.

Lemma rm_at_most_run cookie raw U n l w :
  b64url_dec cookie = Some raw -> rm_parse_pid raw = Some U ->
  Forall (fun ao => ~ rm_exception C cookie U ao) l ->
  rm_at_most C cookie U (w_st w) n -> rm_at_most C cookie U (w_st (fst (run C cfg w l))) n.
Proof using laws. intros Dc Pp F H. rewrite run_grun. exact (rm_at_most_grun cookie raw U n Dc Pp l w F H). Qed.

(* A4: the step in which the cookie logged its owner in *)
Lemma rm_consumed_absent w req O cookie raw U :
  (exists full tf fr l c e, q_route req = RApp full tf fr l c true e) ->
  alookup k_rm (jar_get (q_browser req) (w_cook w)) = Some cookie ->
  b64url_dec cookie = Some raw -> rm_parse_pid raw = Some U ->
  alookup k_uid (jar_get (q_browser req) (w_sess (fst (step C cfg w (AReq req) O)))) = Some U ->
  alookup k_uid (jar_get (q_browser req) (w_sess w)) <> Some U ->
  ~ rm_exception C cookie U (AReq req, O) ->
  rm_at_most C cookie U (w_st w) 1 ->
  rm_absent C cookie U (w_st (fst (step C cfg w (AReq req) O))).
Proof using laws.
  intros (full & tf & fr & l & c & e & R) Ck Dc Pp H1 H0 NE AM.
  apply rm_absent_iff. intros raw' Dc'. rewrite Dc in Dc'. inversion Dc'; subst raw'.
  apply (rm_consume_step C laws cfg w req O cookie raw U U 0 full tf fr l c e R Ck Dc Pp); auto.
  intros Hh. apply NE. exists raw. split; [exact Dc|exact Hh].
Qed.

(* A5: never again *)
Lemma cookie_never_again_lemma w0 l1 r1 O1 l2 r2 O2 cookie raw U :
  b64url_dec cookie = Some raw -> rm_parse_pid raw = Some U ->
  let w1 := fst (run C cfg w0 l1) in
  let w1' := fst (run C cfg w0 (l1 ++ [(AReq r1, O1)])) in
  let w2 := fst (run C cfg w0 (l1 ++ (AReq r1, O1) :: l2)) in
  let w3 := fst (run C cfg w0 (l1 ++ (AReq r1, O1) :: l2 ++ [(AReq r2, O2)])) in
  (* r1 presented the cookie on an application route behind remember.Middleware and was logged in by it *)
  (exists full tf fr l c e, q_route r1 = RApp full tf fr l c true e) ->
  alookup k_rm (jar_get (q_browser r1) (w_cook w1)) = Some cookie ->
  alookup k_uid (jar_get (q_browser r1) (w_sess w1')) = Some U ->
  alookup k_uid (jar_get (q_browser r1) (w_sess w1)) <> Some U ->
  rm_at_most C cookie U (w_st w1) 1 ->
  ~ rm_exception C cookie U (AReq r1, O1) ->
  Forall (fun ao => ~ rm_exception C cookie U ao) l2 ->
  (* r2, by any browser, presents the same cookie on an application route *)
  is_app (q_route r2) = true ->
  alookup k_rm (jar_get (q_browser r2) (w_cook w2)) = Some cookie ->
  rm_absent C cookie U (w_st w2) /\
  forall b V, alookup k_uid (jar_get b (w_sess w3)) = Some V -> alookup k_uid (jar_get b (w_sess w2)) = Some V.
Proof using laws.
  intros Dc Pp w1 w1' w2 w3 R1 Ck1 H1 H0 AM NE1 Q2 App2 Ck2.
  assert (E1 : w1' = fst (step C cfg w1 (AReq r1) O1)).
  { subst w1' w1. rewrite !run_grun. apply grun_snoc. }
  assert (E2 : w2 = grun (step C cfg) w1' l2).
  { subst w2 w1'. rewrite !run_grun, grun_mid, grun_snoc. reflexivity. }
  assert (E3 : w3 = fst (step C cfg w2 (AReq r2) O2)).
  { subst w3 w2. rewrite !run_grun. rewrite app_comm_cons, app_assoc. apply grun_snoc. }
  assert (A1 : rm_absent C cookie U (w_st w1')).
  { rewrite E1. apply (rm_consumed_absent w1 r1 O1 cookie raw U); auto. rewrite <- E1. exact H1. }
  assert (A2 : rm_absent C cookie U (w_st w2)).
  { rewrite E2. apply rm_absent_iff. apply (rm_at_most_grun cookie raw U 0 Dc Pp); [exact Q2|].
    apply rm_absent_iff. exact A1. }
  split; [exact A2|]. intros b V. rewrite E3.
  exact (rm_absent_refused w2 r2 O2 cookie raw U App2 Ck2 Dc Pp A2 b V).
Qed.

(* from the empty world the "at most once" hypothesis is an invariant of exception-free histories *)
Lemma cookie_never_again_from_empty_lemma l1 r1 O1 l2 r2 O2 cookie raw U :
  b64url_dec cookie = Some raw -> rm_parse_pid raw = Some U ->
  let w1 := fst (run C cfg empty_world l1) in
  let w1' := fst (run C cfg empty_world (l1 ++ [(AReq r1, O1)])) in
  let w2 := fst (run C cfg empty_world (l1 ++ (AReq r1, O1) :: l2)) in
  let w3 := fst (run C cfg empty_world (l1 ++ (AReq r1, O1) :: l2 ++ [(AReq r2, O2)])) in
  Forall (fun ao => ~ rm_exception C cookie U ao) (l1 ++ (AReq r1, O1) :: l2) ->
  (exists full tf fr l c e, q_route r1 = RApp full tf fr l c true e) ->
  alookup k_rm (jar_get (q_browser r1) (w_cook w1)) = Some cookie ->
  alookup k_uid (jar_get (q_browser r1) (w_sess w1')) = Some U ->
  alookup k_uid (jar_get (q_browser r1) (w_sess w1)) <> Some U ->
  is_app (q_route r2) = true ->
  alookup k_rm (jar_get (q_browser r2) (w_cook w2)) = Some cookie ->
  forall b V, alookup k_uid (jar_get b (w_sess w3)) = Some V -> alookup k_uid (jar_get b (w_sess w2)) = Some V.
Proof using laws.
  intros Dc Pp w1 w1' w2 w3 Q R1 Ck1 H1 H0 App2 Ck2.
  apply Forall_app in Q as [Q1 Q2]. inversion Q2 as [|? ? Q2a Q2b]; subst.
  apply (cookie_never_again_lemma empty_world l1 r1 O1 l2 r2 O2 cookie raw U Dc Pp); auto.
  (* any token list of the empty world is empty *)
  eapply (rm_at_most_run cookie raw U 1 l1 empty_world Dc Pp Q1).
  intros raw' _. cbn. lia.
Qed.
End AH.

(* ---- non-vacuity: log in with "remember me", end the session, come back with the cookie, copy the
   old cookie to another browser and present it again (executable crypto instance) ------------------ *)
Definition nx_cfg : config :=
  mkConfig [MAuth; MRemember] false false false false false false 3 300 3600 600 3600 (bs "/auth")
           false false false DELETE GET false [] RespNotFound [] [] true false false.
Definition nx_n1 : bytes := repeat "a"%byte 32.
Definition nx_n2 : bytes := repeat "b"%byte 32.
Definition nx_oracle (fr : list bytes) : oracle := mkOracle 1000 fr [] [] (mkPA false false [] [] [] [] 0).
Definition nx_login : request :=
  mkRequest (bs "b1") POST RLogin (bs "/login") [] []
            [(f_email, hx_pid); (f_password, bs "password1"); (k_rm, v_true)] false.
Definition nx_app (b : bytes) : request :=
  mkRequest b GET (RApp false false RespNotFound false false true false) (bs "/app") [] [] [] false.
Definition nx_raw : bytes := hx_pid ++ ";"%byte :: nx_n1.
Definition nx_cookie : bytes := b64url_enc nx_raw.
Definition nx_l1 : list (action * oracle) :=
  [(ASeed hx_user [], nx_oracle []); (AReq nx_login, nx_oracle [nx_n1]); (ASetJar false (bs "b1") [], nx_oracle [])].
Definition nx_l2 : list (action * oracle) := [(ASetJar true (bs "b2") [(k_rm, nx_cookie)], nx_oracle [])].

Lemma nx_dec : b64url_dec nx_cookie = Some nx_raw.
Proof. vm_compute. reflexivity. Qed.

Lemma nx_witness :
  exists C cfg w0 l1 r1 O1 l2 r2 cookie raw U,
    crypto_laws C /\ b64url_dec cookie = Some raw /\ rm_parse_pid raw = Some U /\
    (exists full tf fr l c e, q_route r1 = RApp full tf fr l c true e) /\
    alookup k_rm (jar_get (q_browser r1) (w_cook (fst (run C cfg w0 l1)))) = Some cookie /\
    alookup k_uid (jar_get (q_browser r1) (w_sess (fst (run C cfg w0 (l1 ++ [(AReq r1, O1)]))))) = Some U /\
    alookup k_uid (jar_get (q_browser r1) (w_sess (fst (run C cfg w0 l1)))) <> Some U /\
    rm_at_most C cookie U (w_st (fst (run C cfg w0 l1))) 1 /\
    ~ rm_exception C cookie U (AReq r1, O1) /\
    Forall (fun ao => ~ rm_exception C cookie U ao) l2 /\
    l2 <> [] /\
    is_app (q_route r2) = true /\
    alookup k_rm (jar_get (q_browser r2) (w_cook (fst (run C cfg w0 (l1 ++ (AReq r1, O1) :: l2))))) = Some cookie.
Proof.
  exists XC, nx_cfg, empty_world, nx_l1, (nx_app (bs "b1")), (nx_oracle [nx_n2]), nx_l2, (nx_app (bs "b2")),
         nx_cookie, nx_raw, hx_pid.
  split; [exact exec_laws|]. split; [exact nx_dec|]. split; [vm_compute; reflexivity|].
  split; [do 6 eexists; reflexivity|]. split; [vm_compute; reflexivity|]. split; [vm_compute; reflexivity|].
  split; [vm_compute; discriminate|]. split.
  { intros raw Dc. rewrite nx_dec in Dc. inversion Dc; subst raw. vm_compute. lia. }
  split.
  { intros (raw & Dc & Hr). rewrite nx_dec in Dc. inversion Dc; subst raw. cbn [fst snd rm_reissue] in Hr.
    destruct Hr as [[Hr|[]]|Hr]; vm_compute in Hr; discriminate Hr. }
  split.
  { repeat constructor. intros (raw & _ & Hr). exact Hr. }
  split; [discriminate|]. split; [reflexivity|]. vm_compute. reflexivity.
Qed.

(* ---- A2, second half: the refused cookie is deleted from the client ------------------------------- *)
(* "no cookie event is added, and a first write made meanwhile flushes exactly the cookie events
   recorded so far" *)
Definition Rq (h h' : hst) : Prop :=
  h_cev h' = h_cev h /\
  (forall wr, h_out h = Some wr -> h_out h' = Some wr) /\
  (h_out h = None -> forall wr, h_out h' = Some wr -> w_cev wr = h_cev h).
#[export] Instance Pre_Rq : Pre Rq.
Proof.
  split.
  - intros h. split; [reflexivity|]. split; [auto|]. intros Hn wr Hw. congruence.
  - intros a b c (A1 & A2 & A3) (B1 & B2 & B3). split; [congruence|].
    split; [intros wr Hw; apply B2, A2, Hw|]. intros Hn wr Hw.
    destruct (h_out b) as [wb|] eqn:Hb.
    + rewrite (B2 wb eq_refl) in Hw. inversion Hw; subst wb. exact (A3 Hn wr eq_refl).
    + rewrite (B3 eq_refl wr Hw). exact A1.
Qed.
Lemma Rq_same h h' : h_cev h' = h_cev h -> h_out h' = h_out h -> Rq h h'.
Proof.
  intros A B. split; [exact A|]. split; [intros wr Hw; congruence|]. intros Hn wr Hw. congruence.
Qed.
Lemma Rq_write h r :
  Rq h (match h_out h with Some _ => h | None => h <| h_out := Some (mkWritten r (h_sev h) (h_cev h)) |> end).
Proof.
  destruct (h_out h) as [w0|] eqn:Ho; [apply Rq_same; reflexivity|].
  split; [reflexivity|]. split; [intros wr Hw; congruence|].
  intros _ wr Hw. inversion Hw; subst. reflexivity.
Qed.
Ltac rq_side :=
  let h := fresh "h" in intros h; unfold Monad.fresh;
  first [ apply Rq_write
        | (repeat match goal with |- context [match ?x with _ => _ end] => destruct x eqn:? end);
          apply Rq_same; reflexivity ].

Lemma rq_app_rest E full tf fr l c s2 : rl Rq (app_rest E full tf fr l c s2).
Proof.
  unfold app_rest. cbv zeta.
  apply rl_bind; [exact _|unfold auth_middleware, mw_fail; rl_go; rq_side|intros ok].
  destruct (negb ok); [apply rl_ret; exact _|].
  apply rl_bind; [exact _|destruct l; [unfold lock_mw; rl_go; rq_side|apply rl_ret; exact _]|intros ok2].
  destruct (negb ok2); [apply rl_ret; exact _|].
  apply rl_bind; [exact _|destruct c; [unfold confirm_mw; rl_go; rq_side|apply rl_ret; exact _]|intros ok3].
  destruct (negb ok3); [apply rl_ret; exact _|].
  unfold app_handler. rl_go; rq_side.
Qed.
Lemma rq_remembered_view s : rl Rq (remembered_view s).
Proof. unfold remembered_view. rl_go; rq_side. Qed.
Lemma rq_error_tail E (x : res unit) :
  rl Rq (match x with
         | Err e => log [q_path (e_req E)] ;;; (if c_err_writes (e_cfg E) then write_resp (RespStatus 500) else ret tt) ;;; fail e
         | Ok a => ret a
         | Panic => panic
         end).
Proof. destruct x; rl_go; rq_side. Qed.

Lemma expire_stage_noid E (e : bool) h :
  ahas k_uid (e_sess E) = false -> (if e then expire_mw E else ret (e_sess E)) h = (Ok (e_sess E), h).
Proof. intros Hn. destruct e; [|reflexivity]. unfold expire_mw. rewrite Hn. reflexivity. Qed.

Lemma aget_noid j : ahas k_uid j = false -> bempty (aget k_uid j) = true.
Proof. intros H. apply ahas_false_lookup in H. unfold aget. rewrite H. reflexivity. Qed.

Section DEL.
Variable C : crypto.
Variable cfg : config.

Lemma rm_absent_cookie_deleted w req O cookie raw U full tf fr l c e :
  q_route req = RApp full tf fr l c true e ->
  alookup k_rm (jar_get (q_browser req) (w_cook w)) = Some cookie ->
  b64url_dec cookie = Some raw -> rm_parse_pid raw = Some U ->
  rm_absent C cookie U (w_st w) ->
  o_faults O = [] -> ahas k_uid (jar_get (q_browser req) (w_sess w)) = false ->
  ob_resp (snd (step C cfg w (AReq req) O)) <> None ->
  alookup k_rm (jar_get (q_browser req) (w_cook (fst (step C cfg w (AReq req) O)))) = None.
Proof.
  intros R Ck Dc Pp Ab NoF NoId Wr.
  set (E := mkEnv C cfg O req (jar_get (q_browser req) (w_cook w)) (jar_get (q_browser req) (w_sess w))).
  assert (RT : route_table E = Handler (app_stack E full tf fr l c true e)).
  { unfold route_table. cbn [e_req E]. rewrite R. reflexivity. }
  destruct (serve E (init_hst (w_st w) O)) as [r hf] eqn:Sv.
  destruct (step_req_unfold C cfg w req O r hf Sv) as (_ & _ & Sc & So). rewrite Sc. rewrite So in Wr.
  destruct (h_out hf) as [wr|] eqn:Hof.
  2:{ exfalso. apply Wr. apply obs_resp_none. exact Hof. }
  rewrite jar_get_set_eq.
  assert (Hc : w_cev wr = [Del k_rm]); [|rewrite Hc; unfold apply_events; cbn [fold_left apply_event]; apply alookup_aremove_eq].
  rewrite (serve_handler _ _ RT) in Sv. unfold with_error_handler in Sv.
  set (h0 := init_hst (w_st w) O) in *.
  (* the remember stage *)
  assert (RM : forall x h1, remember_mw (with_sess E (e_sess E)) h0 = (x, h1) ->
                 x = Ok tt /\ h_out h1 = None /\ h_cev h1 = [Del k_rm]).
  { intros x h1 Eq. pose proof (remember_mw_out3 _ _ _ _ Eq) as K3. apply out3_inv in K3 as (K3 & _).
    unfold remember_mw in Eq. unfold bind at 1 in Eq.
    assert (Hb : bempty (aget k_uid (e_sess (with_sess E (e_sess E)))) = true) by exact (aget_noid _ NoId).
    rewrite (current_user_id_nocache (with_sess E (e_sess E)) h0 eq_refl) in Eq. cbv beta iota in Eq.
    rewrite Hb in Eq.
    apply try_inv in Eq as [(y & k1 & RA & _ & K)|(RA & _)].
    - destruct (remember_refused_lemma (with_sess E (jar_get (q_browser req) (w_sess w))) h0 y k1 cookie raw U Ck Dc Pp (Ab raw Dc) RA)
        as (_ & _ & Hd). destruct (Hd NoF) as (-> & Cv). inversion K; subst x h1.
      split; [reflexivity|]. split; [exact K3|exact Cv].
    - destruct (remember_refused_lemma (with_sess E (jar_get (q_browser req) (w_sess w))) h0 Panic h1 cookie raw U Ck Dc Pp (Ab raw Dc) RA)
        as (_ & _ & Hd). destruct (Hd NoF) as (Hx & _). discriminate Hx. }
  (* from the state after the remember stage to the end: no cookie event, one flush *)
  assert (FIN : forall h1, h_out h1 = None -> h_cev h1 = [Del k_rm] -> Rq h1 hf -> w_cev wr = [Del k_rm]).
  { intros h1 Ho1 Cv1 (_ & _ & Q3). rewrite <- Cv1. exact (Q3 Ho1 wr Hof). }
  apply try_inv in Sv as [(x & ha & AS & _ & K)|(AS & _)].
  - assert (Qt : Rq ha hf) by exact (rq_error_tail E x _ _ _ K).
    rewrite app_stack_cut in AS. unfold bind at 1 in AS. rewrite (expire_stage_noid E e h0 NoId) in AS.
    apply bind_inv in AS as [(s2 & h2 & RS & AR)|[(er & RS & _)|(RS & _)]].
    + apply bind_inv in RS as [(u1 & h1 & M1 & RV)|[(er & M1 & _)|(M1 & _)]];
        destruct (RM _ _ M1) as (Hx & Ho1 & Cv1); try discriminate Hx.
      apply (FIN h1 Ho1 Cv1).
      eapply pre_trans; [exact (rq_remembered_view _ _ _ _ RV)|].
      eapply pre_trans; [exact (rq_app_rest _ _ _ _ _ _ _ _ _ _ AR)|exact Qt].
    + apply bind_inv in RS as [(u1 & h1 & M1 & RV)|[(er2 & M1 & _)|(M1 & _)]];
        destruct (RM _ _ M1) as (Hx & Ho1 & Cv1); try discriminate Hx.
      apply (FIN h1 Ho1 Cv1). eapply pre_trans; [exact (rq_remembered_view _ _ _ _ RV)|exact Qt].
    + apply bind_inv in RS as [(u1 & h1 & M1 & RV)|[(er2 & M1 & _)|(M1 & _)]];
        destruct (RM _ _ M1) as (Hx & Ho1 & Cv1); try discriminate Hx.
      apply (FIN h1 Ho1 Cv1). eapply pre_trans; [exact (rq_remembered_view _ _ _ _ RV)|exact Qt].
  - rewrite app_stack_cut in AS. unfold bind at 1 in AS. rewrite (expire_stage_noid E e h0 NoId) in AS.
    apply bind_inv in AS as [(s2 & h2 & RS & AR)|[(er & RS & _)|(RS & _)]].
    + apply bind_inv in RS as [(u1 & h1 & M1 & RV)|[(er & M1 & _)|(M1 & _)]];
        destruct (RM _ _ M1) as (Hx & Ho1 & Cv1); try discriminate Hx.
      apply (FIN h1 Ho1 Cv1).
      eapply pre_trans; [exact (rq_remembered_view _ _ _ _ RV)|exact (rq_app_rest _ _ _ _ _ _ _ _ _ _ AR)].
    + apply bind_inv in RS as [(u1 & h1 & M1 & RV)|[(er2 & M1 & _)|(M1 & _)]];
        destruct (RM _ _ M1) as (Hx & Ho1 & Cv1); try discriminate Hx.
      apply (FIN h1 Ho1 Cv1). exact (rq_remembered_view _ _ _ _ RV).
    + apply bind_inv in RS as [(u1 & h1 & M1 & RV)|[(er2 & M1 & _)|(M1 & _)]];
        destruct (RM _ _ M1) as (Hx & Ho1 & Cv1); try discriminate Hx.
      apply (FIN h1 Ho1 Cv1). exact (rq_remembered_view _ _ _ _ RV).
Qed.
End DEL.

Lemma rm_absent_step C cfg w a O cookie raw U :
  crypto_laws C -> b64url_dec cookie = Some raw -> rm_parse_pid raw = Some U ->
  ~ rm_exception C cookie U (a, O) ->
  rm_absent C cookie U (w_st w) -> rm_absent C cookie U (w_st (fst (step C cfg w a O))).
Proof.
  intros L Dc Pp NE H. apply rm_absent_iff. apply (rm_at_most_step C L cfg w a O cookie raw U 0 Dc Pp NE).
  apply rm_absent_iff. exact H.
Qed.

Lemma rm_absent_reading C cookie U st :
  rm_absent C cookie U st <->
  forall raw, b64url_dec cookie = Some raw -> bmem (b64std_enc (sha C raw)) (rmlookup U (s_rm st)) = false.
Proof. reflexivity. Qed.
Lemma rm_at_most_reading C cookie U st n :
  rm_at_most C cookie U st n <->
  forall raw, b64url_dec cookie = Some raw ->
    (count_occ bytes_dec (rmlookup U (s_rm st)) (b64std_enc (sha C raw)) <= n)%nat.
Proof. reflexivity. Qed.

(* ================================================================================================ *)
(* Part B: confirmation and recovery tokens                                                         *)
(* ================================================================================================ *)
(* the parsed body as the handlers read it: depends on the configuration and the request only *)
Definition vals_of (cfg : config) (req : request) : amap :=
  if c_api cfg then q_form req else q_form req ++ q_query req.
Lemma values_vals_of E : values E = vals_of (e_cfg E) (e_req E).
Proof. reflexivity. Qed.

(* what is stored as selector for the decoded token raw: base64(sha512(first 32 bytes)) *)
Definition tok_sel (C : crypto) (raw : bytes) : bytes := b64std_enc (sha C (firstn 32 raw)).
Lemma tok_sel_selector E raw : selector_of E raw = tok_sel (e_C E) raw.
Proof. reflexivity. Qed.

(* no record's stored confirm (recover) selector is the one of the token [tok] (the URL value) *)
Definition ctok_absent (C : crypto) (tok : bytes) (st : storage) : Prop :=
  forall raw, b64url_dec tok = Some raw -> forall k u, In (k, u) (s_users st) -> u_csel u <> tok_sel C raw.
Definition rtok_absent (C : crypto) (tok : bytes) (st : storage) : Prop :=
  forall raw, b64url_dec tok = Some raw -> forall k u, In (k, u) (s_users st) -> u_rsel u <> tok_sel C raw.

(* the 64-byte chunk a read of crypto/rand returns can begin with H *)
Definition tok_hands_out (O : oracle) (H : bytes) : Prop :=
  (exists c, In c (o_fresh O) /\ length c = 64%nat /\ firstn 32 c = H) \/ H = repeat x00 32.

Definition ctok_exception (C : crypto) (tok : bytes) (ao : action * oracle) : Prop :=
  exists raw, b64url_dec tok = Some raw /\
    match fst ao with
    | ASeed u _ => u_csel u = tok_sel C raw
    | APlant _ _ _ | ASetJar _ _ _ => False
    | _ => tok_hands_out (snd ao) (firstn 32 raw)
    end.
Definition rtok_exception (C : crypto) (tok : bytes) (ao : action * oracle) : Prop :=
  exists raw, b64url_dec tok = Some raw /\
    match fst ao with
    | ASeed u _ => u_rsel u = tok_sel C raw
    | APlant _ _ _ | ASetJar _ _ _ => False
    | _ => tok_hands_out (snd ao) (firstn 32 raw)
    end.

Section B.
Variable C : crypto.
Hypothesis laws : crypto_laws C.
Variable H : bytes.                           (* the first half of the token *)
Notation SEL := (b64std_enc (sha C H)).

(* cf = true: the confirm selector; cf = false: the recover selector *)
Definition specB (cf : bool) : tkspec :=
  mkSpec (fun s => cf = true -> s <> SEL) (fun s => cf = false -> s <> SEL) (fun _ _ => True)
         (fun c => length c = 64%nat -> firstn 32 c <> H).

Lemma specB_ok cf : sha C H <> [] -> H <> repeat x00 32 -> tk_ok C (specB cf).
Proof using laws.
  intros Hne Hz. split; cbn [specB t_cs t_rs t_gl t_gc]; auto.
  - intros n Ln Hx. rewrite repeat_length in Ln. subst n. apply Hz. rewrite <- Hx. reflexivity.
  - intros _ Hn. exact (b64std_enc_nonempty _ Hne (eq_sym Hn)).
  - intros _ Hn. exact (b64std_enc_nonempty _ Hne (eq_sym Hn)).
  - intros raw Ln Gc _ Heq. apply b64std_enc_inj, (sha_inj C laws) in Heq. exact (Gc Ln Heq).
  - intros raw Ln Gc _ Heq. apply b64std_enc_inj, (sha_inj C laws) in Heq. exact (Gc Ln Heq).
Qed.

Lemma winv_specB_c st : winv (specB true) st <-> forall k u, In (k, u) (s_users st) -> u_csel u <> SEL.
Proof.
  split.
  - intros [W _] k u Hin. exact (proj1 (W k u Hin) eq_refl).
  - intros Hs. split; [|intros p; exact I]. intros k u Hin. split; [intros _; exact (Hs k u Hin)|intros Hx; discriminate Hx].
Qed.
Lemma winv_specB_r st : winv (specB false) st <-> forall k u, In (k, u) (s_users st) -> u_rsel u <> SEL.
Proof.
  split.
  - intros [W _] k u Hin. exact (proj2 (W k u Hin) eq_refl).
  - intros Hs. split; [|intros p; exact I]. intros k u Hin. split; [intros Hx; discriminate Hx|intros _; exact (Hs k u Hin)].
Qed.

Lemma specB_step cf cfg w a O :
  sha C H <> [] -> ~ is_seed a -> ~ tok_hands_out O H ->
  winv (specB cf) (w_st w) -> winv (specB cf) (w_st (fst (step C cfg w a O))).
Proof using laws.
  intros Hne NS NH W. apply step_winv; [apply specB_ok; [exact Hne|]|exact NS| |exact W].
  - intros Hz. apply NH. right. exact Hz.
  - cbn [specB t_gc]. intros c Hc Ln Hx. apply NH. left. exists c. auto.
Qed.
End B.

Section BS.
Variable C : crypto.
Hypothesis laws : crypto_laws C.
Variable cfg : config.

Lemma seed_users w u rm O :
  s_users (w_st (fst (step C cfg w (ASeed u rm) O))) = uput (u_pid u) u (s_users (w_st w)).
Proof. reflexivity. Qed.

(* B3: preservation *)
Lemma ctok_absent_step w a O tok raw :
  b64url_dec tok = Some raw -> sha C (firstn 32 raw) <> [] ->
  ~ ctok_exception C tok (a, O) ->
  ctok_absent C tok (w_st w) -> ctok_absent C tok (w_st (fst (step C cfg w a O))).
Proof using laws.
  intros Dc Hne NE Ab raw' Dc'. rewrite Dc in Dc'. inversion Dc'; subst raw'. unfold tok_sel.
  apply (proj1 (winv_specB_c C (firstn 32 raw) _)).
  assert (W : winv (specB C (firstn 32 raw) true) (w_st w)) by (apply (proj2 (winv_specB_c C (firstn 32 raw) _)); exact (Ab raw Dc)).
  assert (NEx : forall X : Prop, (match a with ASeed u _ => u_csel u = tok_sel C raw | APlant _ _ _ | ASetJar _ _ _ => False
                                  | _ => tok_hands_out O (firstn 32 raw) end) -> X).
  { intros X Hx. exfalso. apply NE. exists raw. split; [exact Dc|exact Hx]. }
  destruct a; try (apply specB_step; [exact laws|exact Hne|intros []|intros Hh; exact (NEx _ Hh)|exact W]).
  - apply (proj2 (winv_specB_c C (firstn 32 raw) _)). intros k v Hin. rewrite seed_users in Hin.
    apply uput_in in Hin as [Hin|Hin].
    + inversion Hin; subst. intros Hx. exact (NEx _ Hx).
    + exact (Ab raw Dc k v Hin).
  - exact W.
  - destruct cookie; exact W.
Qed.

Lemma rtok_absent_step w a O tok raw :
  b64url_dec tok = Some raw -> sha C (firstn 32 raw) <> [] ->
  ~ rtok_exception C tok (a, O) ->
  rtok_absent C tok (w_st w) -> rtok_absent C tok (w_st (fst (step C cfg w a O))).
Proof using laws.
  intros Dc Hne NE Ab raw' Dc'. rewrite Dc in Dc'. inversion Dc'; subst raw'. unfold tok_sel.
  apply (proj1 (winv_specB_r C (firstn 32 raw) _)).
  assert (W : winv (specB C (firstn 32 raw) false) (w_st w)) by (apply (proj2 (winv_specB_r C (firstn 32 raw) _)); exact (Ab raw Dc)).
  assert (NEx : forall X : Prop, (match a with ASeed u _ => u_rsel u = tok_sel C raw | APlant _ _ _ | ASetJar _ _ _ => False
                                  | _ => tok_hands_out O (firstn 32 raw) end) -> X).
  { intros X Hx. exfalso. apply NE. exists raw. split; [exact Dc|exact Hx]. }
  destruct a; try (apply specB_step; [exact laws|exact Hne|intros []|intros Hh; exact (NEx _ Hh)|exact W]).
  - apply (proj2 (winv_specB_r C (firstn 32 raw) _)). intros k v Hin. rewrite seed_users in Hin.
    apply uput_in in Hin as [Hin|Hin].
    + inversion Hin; subst. intros Hx. exact (NEx _ Hx).
    + exact (Ab raw Dc k v Hin).
  - exact W.
  - destruct cookie; exact W.
Qed.

Lemma ctok_absent_grun tok raw :
  b64url_dec tok = Some raw -> sha C (firstn 32 raw) <> [] ->
  forall l w, Forall (fun ao => ~ ctok_exception C tok ao) l ->
    ctok_absent C tok (w_st w) -> ctok_absent C tok (w_st (grun (step C cfg) w l)).
Proof using laws.
  intros Dc Hne. induction l as [|[a O] l IH]; intros w F Hab; cbn [grun]; [exact Hab|].
  inversion F as [|? ? F1 F2]; subst. apply IH; [exact F2|]. exact (ctok_absent_step w a O tok raw Dc Hne F1 Hab).
Qed.
Lemma rtok_absent_grun tok raw :
  b64url_dec tok = Some raw -> sha C (firstn 32 raw) <> [] ->
  forall l w, Forall (fun ao => ~ rtok_exception C tok ao) l ->
    rtok_absent C tok (w_st w) -> rtok_absent C tok (w_st (grun (step C cfg) w l)).
Proof using laws.
  intros Dc Hne. induction l as [|[a O] l IH]; intros w F Hab; cbn [grun]; [exact Hab|].
  inversion F as [|? ? F1 F2]; subst. apply IH; [exact F2|]. exact (rtok_absent_step w a O tok raw Dc Hne F1 Hab).
Qed.
End BS.

(* ---- storage after [serve] is storage after the route's handler --------------------------------- *)
Lemma serve_st_handler E hd h r h' :
  route_table E = Handler hd -> serve E h = (r, h') -> exists x ha, hd h = (x, ha) /\ h_st h' = h_st ha.
Proof.
  intros RT Sv. rewrite (serve_handler _ _ RT) in Sv. unfold with_error_handler in Sv.
  apply try_inv in Sv as [(x & ha & Hd & _ & K)|(Hd & _)].
  - exists x, ha. split; [exact Hd|].
    match type of K with ?mm ha = _ => assert (Hp : pres h_st mm) by (destruct x; pres_go) end.
    exact (Hp _ _ _ K).
  - exists Panic, h'. auto.
Qed.
Lemma serve_st_nohandler E h r h' :
  (forall hd, route_table E <> Handler hd) -> serve E h = (r, h') -> h_st h' = h_st h.
Proof.
  intros NH Sv. unfold serve in Sv. destruct (route_table E) as [hd| |] eqn:RT; [destruct (NH hd eq_refl)| |].
  - exact (pres_write_resp h_st _ _ _ _ Sv).
  - exact (pres_write_resp h_st _ _ _ _ Sv).
Qed.

Lemma route_confirm_cases E :
  q_route (e_req E) = RConfirm ->
  route_table E = Handler (confirm_get E) \/ (forall hd, route_table E <> Handler hd).
Proof.
  intros R. unfold route_table, when, on_method. rewrite R.
  destruct (q_meth (e_req E)); cbn beta iota;
    repeat match goal with |- context [if ?c then _ else _] => destruct c end;
    first [left; reflexivity | right; intros hd Hx; discriminate Hx].
Qed.
Lemma route_recover_end_cases E :
  q_route (e_req E) = RRecoverEnd ->
  route_table E = Handler (recover_end_get E) \/ route_table E = Handler (recover_end_post E) \/
  (forall hd, route_table E <> Handler hd).
Proof.
  intros R. unfold route_table, when, get_post. rewrite R.
  destruct (q_meth (e_req E)); cbn beta iota;
    repeat match goal with |- context [if ?c then _ else _] => destruct c end;
    first [left; reflexivity | right; left; reflexivity | right; right; intros hd Hx; discriminate Hx].
Qed.

Lemma pres_st_recover_end_get E : pres h_st (recover_end_get E).
Proof. unfold recover_end_get. pres_go. Qed.

Section BR.
Variable C : crypto.
Variable cfg : config.

(* B2: an absent token is refused *)
Lemma confirm_absent_refused w req O :
  q_route req = RConfirm ->
  ctok_absent C (aget f_cnf (vals_of cfg req)) (w_st w) ->
  w_st (fst (step C cfg w (AReq req) O)) = w_st w.
Proof.
  intros R Ab.
  set (E := mkEnv C cfg O req (jar_get (q_browser req) (w_cook w)) (jar_get (q_browser req) (w_sess w))).
  destruct (serve E (init_hst (w_st w) O)) as [r hf] eqn:Sv.
  destruct (step_req_unfold C cfg w req O r hf Sv) as (St & _). rewrite St.
  destruct (route_confirm_cases E R) as [RT|NH]; [|exact (serve_st_nohandler E _ _ _ NH Sv)].
  destruct (serve_st_handler E _ _ _ _ RT Sv) as (x & ha & CG & ->).
  apply (confirm_reject_cases_lemma E _ _ _ CG).
  destruct (b64url_dec (aget f_cnf (values E))) as [raw|] eqn:Dc; [|left; reflexivity].
  right. exists raw. split; [reflexivity|]. right. left. apply ufind_none. intros k v Hin.
  apply beqb_neq. exact (Ab raw Dc k v Hin).
Qed.

Lemma recover_absent_refused w req O :
  q_route req = RRecoverEnd ->
  rtok_absent C (aget f_token (vals_of cfg req)) (w_st w) ->
  w_st (fst (step C cfg w (AReq req) O)) = w_st w /\
  forall b V, alookup k_uid (jar_get b (w_sess (fst (step C cfg w (AReq req) O)))) = Some V ->
              alookup k_uid (jar_get b (w_sess w)) = Some V.
Proof.
  intros R Ab.
  set (E := mkEnv C cfg O req (jar_get (q_browser req) (w_cook w)) (jar_get (q_browser req) (w_sess w))).
  assert (NF : forall raw, b64url_dec (aget f_token (values E)) = Some raw ->
                 ufind (fun u => beqb (u_rsel u) (selector_of E raw)) (s_users (w_st w)) = None).
  { intros raw Dc. apply ufind_none. intros k v Hin. apply beqb_neq. exact (Ab raw Dc k v Hin). }
  split.
  - destruct (serve E (init_hst (w_st w) O)) as [r hf] eqn:Sv.
    destruct (step_req_unfold C cfg w req O r hf Sv) as (St & _). rewrite St.
    destruct (route_recover_end_cases E R) as [RT|[RT|NH]]; [| |exact (serve_st_nohandler E _ _ _ NH Sv)].
    + destruct (serve_st_handler E _ _ _ _ RT Sv) as (x & ha & RG & ->). exact (pres_st_recover_end_get E _ _ _ RG).
    + destruct (serve_st_handler E _ _ _ _ RT Sv) as (x & ha & RP & ->).
      apply (recover_reject_unchanged_lemma E _ _ _ RP). intros raw u Dc _ F _ _.
      cbn [init_hst h_st] in F. rewrite (NF raw Dc) in F. discriminate F.
  - intros b V H1.
    assert (NG : forall V', ~ g_recover E (w_st w) V').
    { intros V' (_ & raw & u & Dc & _ & F & _). rewrite (NF raw Dc) in F. discriminate F. }
    assert (CR : alookup k_uid (jar_get b (w_sess w)) <> Some V -> False).
    { intros H0.
      destruct (step_issued C cfg w (AReq req) O V b H1 H0) as [(rq & Ha & Hb & Cs)|[Ha|(j & Ha & _)]];
        try discriminate Ha. inversion Ha; subst rq.
      destruct Cs as [(R' & _)|[(R' & _)|[(R' & _)|[(R' & _ & _ & G)|[(pv & R' & _)|[(R' & _)|[(R' & _)|(f1 & f2 & f3 & f4 & f5 & f6 & R' & _)]]]]]]];
        try (rewrite R in R'; discriminate R').
      exact (NG V G). }
    destruct (alookup k_uid (jar_get b (w_sess w))) as [v0|] eqn:L0.
    + destruct (bytes_dec v0 V) as [->|Ne]; [reflexivity|]. exfalso. apply CR. congruence.
    + exfalso. apply CR. discriminate.
Qed.
End BR.

Section BA.
Variable C : crypto.
Hypothesis laws : crypto_laws C.
Variable cfg : config.

(* B4: the accepting step clears the selector; with unique selectors nobody else carries it *)
Lemma confirm_accepted_absent w req O :
  q_route req = RConfirm ->
  w_st (fst (step C cfg w (AReq req) O)) <> w_st w ->
  filed (w_st w) -> csel_unique (w_st w) ->
  (forall raw, b64url_dec (aget f_cnf (vals_of cfg req)) = Some raw -> sha C (firstn 32 raw) <> []) ->
  ctok_absent C (aget f_cnf (vals_of cfg req)) (w_st (fst (step C cfg w (AReq req) O))).
Proof.
  intros R Ch Fl Un Ne.
  set (E := mkEnv C cfg O req (jar_get (q_browser req) (w_cook w)) (jar_get (q_browser req) (w_sess w))).
  destruct (serve E (init_hst (w_st w) O)) as [r hf] eqn:Sv.
  destruct (step_req_unfold C cfg w req O r hf Sv) as (St & _). rewrite St in *.
  destruct (route_confirm_cases E R) as [RT|NH]; [|exfalso; apply Ch; exact (serve_st_nohandler E _ _ _ NH Sv)].
  destruct (serve_st_handler E _ _ _ _ RT Sv) as (x & ha & CG & Hst). rewrite Hst in *.
  destruct (confirm_get_cases E _ _ _ CG) as [U|(raw & u & D & Ln & F & V & Sta)]; [exfalso; apply Ch; exact U|].
  cbn [init_hst h_st] in F, Sta.
  pose proof (filedl_found _ _ _ Fl F) as Lu.
  pose proof (ufind_sat _ _ _ F) as Su. apply beqb_eq in Su.
  assert (SelNe : selector_of E raw <> []) by (apply b64std_enc_nonempty; exact (Ne raw D)).
  intros raw' D' k v Hin. change (b64url_dec (aget f_cnf (values E)) = Some raw') in D'.
  rewrite D in D'. inversion D'; subst raw'. rewrite Sta in Hin. cbn [s_users set] in Hin. simpl in Hin.
  apply uput_in_nodup in Hin as [Heq|[Hin Nk]]; [| |exact (proj1 Fl)].
  - inversion Heq; subst. cbn. intros Hx. apply SelNe. symmetry. exact Hx.
  - intros Hx. apply Nk. symmetry.
    apply (Un (u_pid u) k u v Lu (in_ulookup _ _ _ (proj1 Fl) Hin)); [rewrite Su; exact SelNe|].
    rewrite Su, Hx. reflexivity.
Qed.

Lemma recover_accepted_absent w req O :
  q_route req = RRecoverEnd ->
  s_users (w_st (fst (step C cfg w (AReq req) O))) <> s_users (w_st w) ->
  filed (w_st w) -> rsel_unique (w_st w) ->
  (forall raw, b64url_dec (aget f_token (vals_of cfg req)) = Some raw -> sha C (firstn 32 raw) <> []) ->
  rtok_absent C (aget f_token (vals_of cfg req)) (w_st (fst (step C cfg w (AReq req) O))).
Proof.
  intros R Ch Fl Un Ne.
  set (E := mkEnv C cfg O req (jar_get (q_browser req) (w_cook w)) (jar_get (q_browser req) (w_sess w))).
  destruct (serve E (init_hst (w_st w) O)) as [r hf] eqn:Sv.
  destruct (step_req_unfold C cfg w req O r hf Sv) as (St & _). rewrite St in *.
  destruct (route_recover_end_cases E R) as [RT|[RT|NH]].
  - exfalso. apply Ch. destruct (serve_st_handler E _ _ _ _ RT Sv) as (x & ha & RG & ->).
    rewrite (pres_st_recover_end_get E _ _ _ RG). reflexivity.
  - destruct (serve_st_handler E _ _ _ _ RT Sv) as (x & ha & RP & Hst). rewrite Hst in *.
    destruct (recover_end_cases E _ _ _ RP) as [U|(raw & u & D & Ln & F & Ex & V & _ & _ & (su & B1 & B2) & Fr)].
    { exfalso. apply Ch. rewrite U. reflexivity. }
    cbn [init_hst h_st] in F, Fr.
    pose proof (filedl_found _ _ _ Fl F) as Lu.
    pose proof (ufind_sat _ _ _ F) as Su. apply beqb_eq in Su.
    destruct (keeps2fa_recover_end E (init_hst (w_st w) O) _ _ Fl (ctx_ok_none (init_hst (w_st w) O) eq_refl) RP) as (Fl' & _ & _).
    apply upto_lock_recovered in B2 as (_ & P1 & P2 & P3 & _).
    assert (SelNe : selector_of E raw <> []) by (apply b64std_enc_nonempty; exact (Ne raw D)).
    intros raw' D' k v Hin. change (b64url_dec (aget f_token (values E)) = Some raw') in D'.
    rewrite D in D'. inversion D'; subst raw'.
    pose proof (in_ulookup _ _ _ (proj1 Fl') Hin) as Lv.
    destruct (bytes_dec k (u_pid u)) as [->|Nk].
    + rewrite B1 in Lv. inversion Lv; subst v. rewrite P2. intros Hx. apply SelNe. symmetry. exact Hx.
    + rewrite Fr in Lv by exact Nk. intros Hx. apply Nk. symmetry.
      apply (Un (u_pid u) k u v Lu Lv); [rewrite Su; exact SelNe|]. rewrite Su, Hx. reflexivity.
  - exfalso. apply Ch. rewrite (serve_st_nohandler E _ _ _ NH Sv). reflexivity.
Qed.

(* [filed] is an invariant of every step *)
Lemma step_filed w a O : filed (w_st w) -> filed (w_st (fst (step C cfg w a O))).
Proof.
  intros F. destruct (step C cfg w a O) as [w' o] eqn:St. cbn [fst].
  destruct a as [| | | | |su srm| |]; try (refine (proj1 (StoreShape.step_shape C cfg w _ O w' o _ F St)); intros Hx; exact Hx).
  assert (Ew : w' = fst (step C cfg w (ASeed su srm) O)) by (rewrite St; reflexivity).
  rewrite Ew. unfold filed. rewrite (seed_users C cfg). apply filedl_uput. exact F.
Qed.
Lemma grun_filed l : forall w, filed (w_st w) -> filed (w_st (grun (step C cfg) w l)).
Proof. induction l as [|[a O] l IH]; intros w F; cbn [grun]; [exact F|]. apply IH. apply step_filed. exact F. Qed.

(* B5 *)
Lemma confirm_never_again_lemma w0 l1 r1 O1 l2 r2 O2 tok raw :
  b64url_dec tok = Some raw -> sha C (firstn 32 raw) <> [] ->
  let w1 := fst (run C cfg w0 l1) in
  let w1' := fst (run C cfg w0 (l1 ++ [(AReq r1, O1)])) in
  let w2 := fst (run C cfg w0 (l1 ++ (AReq r1, O1) :: l2)) in
  let w3 := fst (run C cfg w0 (l1 ++ (AReq r1, O1) :: l2 ++ [(AReq r2, O2)])) in
  q_route r1 = RConfirm -> aget f_cnf (vals_of cfg r1) = tok -> w_st w1' <> w_st w1 ->
  filed (w_st w1) -> csel_unique (w_st w1) ->
  Forall (fun ao => ~ ctok_exception C tok ao) l2 ->
  q_route r2 = RConfirm -> aget f_cnf (vals_of cfg r2) = tok ->
  ctok_absent C tok (w_st w2) /\ w_st w3 = w_st w2.
Proof using laws.
  intros Dc Hne w1 w1' w2 w3 R1 T1 Ch Fl Un Q2 R2 T2.
  assert (E1 : w1' = fst (step C cfg w1 (AReq r1) O1)).
  { subst w1' w1. rewrite !run_grun. apply grun_snoc. }
  assert (E2 : w2 = grun (step C cfg) w1' l2).
  { subst w2 w1'. rewrite !run_grun, grun_mid, grun_snoc. reflexivity. }
  assert (E3 : w3 = fst (step C cfg w2 (AReq r2) O2)).
  { subst w3 w2. rewrite !run_grun. rewrite app_comm_cons, app_assoc. apply grun_snoc. }
  assert (A1 : ctok_absent C tok (w_st w1')).
  { rewrite E1, <- T1. apply confirm_accepted_absent; auto.
    - rewrite <- E1. exact Ch.
    - rewrite T1. intros raw' Dc'. rewrite Dc in Dc'. inversion Dc'; subst raw'. exact Hne. }
  assert (A2 : ctok_absent C tok (w_st w2)).
  { rewrite E2. exact (ctok_absent_grun C laws cfg tok raw Dc Hne l2 w1' Q2 A1). }
  split; [exact A2|]. rewrite E3. apply confirm_absent_refused; [exact R2|]. rewrite T2. exact A2.
Qed.

Lemma recover_never_again_lemma w0 l1 r1 O1 l2 r2 O2 tok raw :
  b64url_dec tok = Some raw -> sha C (firstn 32 raw) <> [] ->
  let w1 := fst (run C cfg w0 l1) in
  let w1' := fst (run C cfg w0 (l1 ++ [(AReq r1, O1)])) in
  let w2 := fst (run C cfg w0 (l1 ++ (AReq r1, O1) :: l2)) in
  let w3 := fst (run C cfg w0 (l1 ++ (AReq r1, O1) :: l2 ++ [(AReq r2, O2)])) in
  q_route r1 = RRecoverEnd -> aget f_token (vals_of cfg r1) = tok -> s_users (w_st w1') <> s_users (w_st w1) ->
  filed (w_st w1) -> rsel_unique (w_st w1) ->
  Forall (fun ao => ~ rtok_exception C tok ao) l2 ->
  q_route r2 = RRecoverEnd -> aget f_token (vals_of cfg r2) = tok ->
  rtok_absent C tok (w_st w2) /\ w_st w3 = w_st w2 /\
  forall b V, alookup k_uid (jar_get b (w_sess w3)) = Some V -> alookup k_uid (jar_get b (w_sess w2)) = Some V.
Proof using laws.
  intros Dc Hne w1 w1' w2 w3 R1 T1 Ch Fl Un Q2 R2 T2.
  assert (E1 : w1' = fst (step C cfg w1 (AReq r1) O1)).
  { subst w1' w1. rewrite !run_grun. apply grun_snoc. }
  assert (E2 : w2 = grun (step C cfg) w1' l2).
  { subst w2 w1'. rewrite !run_grun, grun_mid, grun_snoc. reflexivity. }
  assert (E3 : w3 = fst (step C cfg w2 (AReq r2) O2)).
  { subst w3 w2. rewrite !run_grun. rewrite app_comm_cons, app_assoc. apply grun_snoc. }
  assert (A1 : rtok_absent C tok (w_st w1')).
  { rewrite E1, <- T1. apply recover_accepted_absent; auto.
    - rewrite <- E1. exact Ch.
    - rewrite T1. intros raw' Dc'. rewrite Dc in Dc'. inversion Dc'; subst raw'. exact Hne. }
  assert (A2 : rtok_absent C tok (w_st w2)).
  { rewrite E2. exact (rtok_absent_grun C laws cfg tok raw Dc Hne l2 w1' Q2 A1). }
  split; [exact A2|]. rewrite E3. apply recover_absent_refused; [exact R2|]. rewrite T2. exact A2.
Qed.
End BA.

(* ---- non-vacuity for Part B (executable crypto instance) ------------------------------------------ *)
Lemma single_filed k u : u_pid u = k -> filedl [(k, u)].
Proof.
  intros Hk. split; [repeat constructor; intros []|]. intros k' u' [Heq|[]]. inversion Heq; subst. reflexivity.
Qed.
Lemma single_unique st k u : s_users st = [(k, u)] -> csel_unique st /\ rsel_unique st.
Proof.
  intros Hs. split; intros p q a b Hp Hq _ _; rewrite Hs in Hp, Hq; cbn [ulookup] in Hp, Hq;
    destruct (beqb p k) eqn:Bp; try discriminate Hp; destruct (beqb q k) eqn:Bq; try discriminate Hq;
    apply beqb_eq in Bp, Bq; congruence.
Qed.

Definition bx_cfg : config :=
  mkConfig [MAuth; MConfirm; MRecover] false false false false false false 3 300 3600 600 3600 (bs "/auth")
           false false false DELETE GET false [] RespNotFound [] [] true false false.
Definition bx_c1 : bytes := repeat "c"%byte 64.
Definition bx_c2 : bytes := repeat "r"%byte 64.
Definition bx_tok1 : bytes := b64url_enc bx_c1.
Definition bx_tok2 : bytes := b64url_enc bx_c2.
Definition bx_confirm (b : bytes) : request :=
  mkRequest b GET RConfirm (bs "/confirm") [] [(f_cnf, bx_tok1)] [] false.
Definition bx_l1c : list (action * oracle) :=
  [(ASeed hx_user [], nx_oracle []); (AStartConfirm hx_pid, nx_oracle [bx_c1])].
Definition bx_rstart : request :=
  mkRequest (bs "b1") POST RRecoverStart (bs "/recover") [] [] [(f_email, hx_pid)] false.
Definition bx_rend (b pw : bytes) : request :=
  mkRequest b POST RRecoverEnd (bs "/recover/end") [] []
            [(f_token, bx_tok2); (f_password, pw); (f_confirm_password, pw)] false.
Definition bx_l1r : list (action * oracle) :=
  [(ASeed hx_user [], nx_oracle []); (AReq bx_rstart, nx_oracle [bx_c2])].
Definition bx_l2 : list (action * oracle) := [(ALock hx_pid, nx_oracle [])].

Lemma bx_confirm_witness :
  exists C cfg w0 l1 r1 O1 l2 r2 tok raw,
    crypto_laws C /\ b64url_dec tok = Some raw /\ sha C (firstn 32 raw) <> [] /\
    q_route r1 = RConfirm /\ aget f_cnf (vals_of cfg r1) = tok /\
    w_st (fst (run C cfg w0 (l1 ++ [(AReq r1, O1)]))) <> w_st (fst (run C cfg w0 l1)) /\
    filed (w_st (fst (run C cfg w0 l1))) /\ csel_unique (w_st (fst (run C cfg w0 l1))) /\
    Forall (fun ao => ~ ctok_exception C tok ao) l2 /\ l2 <> [] /\
    q_route r2 = RConfirm /\ aget f_cnf (vals_of cfg r2) = tok.
Proof.
  exists XC, bx_cfg, empty_world, bx_l1c, (bx_confirm (bs "b1")), (nx_oracle []), bx_l2, (bx_confirm (bs "b2")),
         bx_tok1, bx_c1.
  assert (Hs : exists u, s_users (w_st (fst (run XC bx_cfg empty_world bx_l1c))) = [(hx_pid, u)] /\ u_pid u = hx_pid).
  { eexists. split; vm_compute; reflexivity. }
  destruct Hs as (u & Hs & Hp).
  split; [exact exec_laws|]. split; [vm_compute; reflexivity|]. split; [vm_compute; discriminate|].
  split; [reflexivity|]. split; [reflexivity|]. split.
  { intros Hx. apply (f_equal (fun st => map (fun ku => u_confirmed (snd ku)) (s_users st))) in Hx.
    vm_compute in Hx. discriminate Hx. }
  split; [unfold filed; rewrite Hs; exact (single_filed _ _ Hp)|].
  split; [exact (proj1 (single_unique _ _ _ Hs))|].
  split.
  { repeat constructor. intros (raw & Dc & Hr). cbn [fst snd] in Hr.
    assert (raw = bx_c1) by (vm_compute in Dc; inversion Dc; reflexivity). subst raw.
    destruct Hr as [(c & [] & _)|Hr]. vm_compute in Hr. discriminate Hr. }
  split; [discriminate|]. split; reflexivity.
Qed.

Lemma bx_recover_witness :
  exists C cfg w0 l1 r1 O1 l2 r2 tok raw,
    crypto_laws C /\ b64url_dec tok = Some raw /\ sha C (firstn 32 raw) <> [] /\
    q_route r1 = RRecoverEnd /\ aget f_token (vals_of cfg r1) = tok /\
    s_users (w_st (fst (run C cfg w0 (l1 ++ [(AReq r1, O1)])))) <> s_users (w_st (fst (run C cfg w0 l1))) /\
    filed (w_st (fst (run C cfg w0 l1))) /\ rsel_unique (w_st (fst (run C cfg w0 l1))) /\
    Forall (fun ao => ~ rtok_exception C tok ao) l2 /\ l2 <> [] /\
    q_route r2 = RRecoverEnd /\ aget f_token (vals_of cfg r2) = tok.
Proof.
  exists XC, bx_cfg, empty_world, bx_l1r, (bx_rend (bs "b1") (bs "Newpassw0rd!")), (nx_oracle []), bx_l2,
         (bx_rend (bs "b2") (bs "An0therpass!")), bx_tok2, bx_c2.
  assert (Hs : exists u, s_users (w_st (fst (run XC bx_cfg empty_world bx_l1r))) = [(hx_pid, u)] /\ u_pid u = hx_pid).
  { eexists. split; vm_compute; reflexivity. }
  destruct Hs as (u & Hs & Hp).
  split; [exact exec_laws|]. split; [vm_compute; reflexivity|]. split; [vm_compute; discriminate|].
  split; [reflexivity|]. split; [reflexivity|]. split.
  { intros Hx. apply (f_equal (map (fun ku => u_rsel (snd ku)))) in Hx.
    vm_compute in Hx. discriminate Hx. }
  split; [unfold filed; rewrite Hs; exact (single_filed _ _ Hp)|].
  split; [exact (proj2 (single_unique _ _ _ Hs))|].
  split.
  { repeat constructor. intros (raw & Dc & Hr). cbn [fst snd] in Hr.
    assert (raw = bx_c2) by (vm_compute in Dc; inversion Dc; reflexivity). subst raw.
    destruct Hr as [(c & [] & _)|Hr]. vm_compute in Hr. discriminate Hr. }
  split; [discriminate|]. split; reflexivity.
Qed.

(* ---- readings ------------------------------------------------------------------------------------ *)
Lemma ctok_absent_reading C tok st :
  ctok_absent C tok st <->
  forall raw, b64url_dec tok = Some raw ->
    forall k u, In (k, u) (s_users st) -> u_csel u <> b64std_enc (sha C (firstn 32 raw)).
Proof. reflexivity. Qed.
Lemma rtok_absent_reading C tok st :
  rtok_absent C tok st <->
  forall raw, b64url_dec tok = Some raw ->
    forall k u, In (k, u) (s_users st) -> u_rsel u <> b64std_enc (sha C (firstn 32 raw)).
Proof. reflexivity. Qed.
Lemma ctok_exception_reading C tok a O :
  ctok_exception C tok (a, O) <->
  exists raw, b64url_dec tok = Some raw /\
    match a with
    | ASeed u _ => u_csel u = b64std_enc (sha C (firstn 32 raw))
    | APlant _ _ _ | ASetJar _ _ _ => False
    | _ => (exists c, In c (o_fresh O) /\ length c = 64%nat /\ firstn 32 c = firstn 32 raw) \/
           firstn 32 raw = repeat x00 32
    end.
Proof. unfold ctok_exception, tok_hands_out, tok_sel. cbn [fst snd]. destruct a; reflexivity. Qed.
Lemma rtok_exception_reading C tok a O :
  rtok_exception C tok (a, O) <->
  exists raw, b64url_dec tok = Some raw /\
    match a with
    | ASeed u _ => u_rsel u = b64std_enc (sha C (firstn 32 raw))
    | APlant _ _ _ | ASetJar _ _ _ => False
    | _ => (exists c, In c (o_fresh O) /\ length c = 64%nat /\ firstn 32 c = firstn 32 raw) \/
           firstn 32 raw = repeat x00 32
    end.
Proof. unfold rtok_exception, tok_hands_out, tok_sel. cbn [fst snd]. destruct a; reflexivity. Qed.
Lemma vals_of_reading cfg req :
  vals_of cfg req = if c_api cfg then q_form req else q_form req ++ q_query req.
Proof. reflexivity. Qed.

Lemma run_filed C cfg l w : filed (w_st w) -> filed (w_st (fst (run C cfg w l))).
Proof. intros F. rewrite run_grun. apply grun_filed. exact F. Qed.
Lemma ctok_absent_run C cfg tok raw l w :
  crypto_laws C -> b64url_dec tok = Some raw -> sha C (firstn 32 raw) <> [] ->
  Forall (fun ao => ~ ctok_exception C tok ao) l ->
  ctok_absent C tok (w_st w) -> ctok_absent C tok (w_st (fst (run C cfg w l))).
Proof. intros L Dc Hne F Hab. rewrite run_grun. exact (ctok_absent_grun C L cfg tok raw Dc Hne l w F Hab). Qed.
Lemma rtok_absent_run C cfg tok raw l w :
  crypto_laws C -> b64url_dec tok = Some raw -> sha C (firstn 32 raw) <> [] ->
  Forall (fun ao => ~ rtok_exception C tok ao) l ->
  rtok_absent C tok (w_st w) -> rtok_absent C tok (w_st (fst (run C cfg w l))).
Proof. intros L Dc Hne F Hab. rewrite run_grun. exact (rtok_absent_grun C L cfg tok raw Dc Hne l w F Hab). Qed.
