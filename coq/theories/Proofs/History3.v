(* History-level statements for C02, C03 and C13, obtained by instantiating the provenance theorem
   of C01 (Proofs/HistoryProofs.v: history_provenance_lemma) with step-level lifts of the
   handler-level theorems of C02 (Hijack.v, NoLogin2.v), C03 (NoLogin.v, NoLogin2.v) and C13
   (TwoFactorProofs.v, TwoFactor2.v). *)
From AB Require Import World.Step World.Exec Proofs.EvLogic Proofs.Neutral Proofs.HandlerEvents Proofs.ServeEvents
  Proofs.StepUid Proofs.MonadInv Proofs.Guards Proofs.StoreLogic Proofs.Guards2 Proofs.Guards3 Proofs.StepGuard
  Proofs.StepAll Proofs.StepLift2 Proofs.Veto Proofs.NoLogin Proofs.Hijack Proofs.NoLogin2 Proofs.Gate
  Proofs.TwoFactorProofs Proofs.TwoFactor2 Proofs.LockWorld Proofs.LockWorld2 Proofs.HistoryProofs.
Open Scope Z_scope.


Notation ENV C cfg w O req :=
  (mkEnv C cfg O req (jar_get (q_browser req) (w_cook w)) (jar_get (q_browser req) (w_sess w))).

Ltac route_is R M :=
  unfold route_table; cbn [e_req e_cfg]; rewrite R, M; unfold when, get_post, on_method; cbn [e_req e_cfg];
  rewrite ?M; cbn [meth_eqb].
Ltac no_drop R := unfold may_drop; rewrite R; reflexivity.

(* ================================================================================================ *)
(* 0. lifting "the handler appends only uid-neutral events" to [step]                               *)
(* ================================================================================================ *)
Lemma guarded_of_neutral_from {A} (m : M A) h : neutral_from m h -> guarded (fun _ => False) m h.
Proof.
  intros Hn r h' Eq. destruct (Hn _ _ Eq) as (ls & lc & S & Cc & F). exists ls, lc. repeat split; auto.
  eapply Forall_impl; [|exact F]. intros e He. left. exact He.
Qed.

(* a request whose route reaches the handler [hd], when [hd] only appends uid-neutral session
   events from the state the request starts in, cannot make the browser's session name anybody new *)
Lemma step_route_neutral C cfg (hd : M unit) w req O U :
  route_table (ENV C cfg w O req) = Handler hd -> may_drop req = false ->
  neutral_from hd (init_hst (w_st w) O) ->
  alookup k_uid (jar_get (q_browser req) (w_sess (fst (step C cfg w (AReq req) O)))) = Some U ->
  alookup k_uid (jar_get (q_browser req) (w_sess w)) <> Some U -> False.
Proof.
  intros RT MD Hn H1 H0.
  exact (step_route_guard C cfg (fun _ => False) hd w req O U RT MD (guarded_of_neutral_from hd _ Hn) H1 H0).
Qed.

(* ================================================================================================ *)
(* 1. C02: no session on password knowledge alone                                                   *)
(* ================================================================================================ *)

(* the account has a second factor enrolled whose module is set up: the hypothesis
   [has_totp E u \/ has_sms E u] of the C02 handler theorems, read off the configuration *)
Definition enrolled (cfg : config) (u : user) : Prop :=
  (c_totp cfg = true /\ bempty (u_totp u) = false) \/ (c_sms cfg = true /\ bempty (u_sms u) = false).

Lemma enrolled_reading C cfg O req ck ss u :
  enrolled cfg u <-> (has_totp (mkEnv C cfg O req ck ss) u \/ has_sms (mkEnv C cfg O req ck ss) u).
Proof. reflexivity. Qed.

(* the record stored for U, if any, has no enrolled factor *)
Definition no_factor (cfg : config) (st : storage) (U : bytes) : Prop :=
  forall u, ulookup U (s_users st) = Some u -> ~ enrolled cfg u.

(* the credential routes that go beyond knowledge of a password / one-time password / mailed token:
   the OAuth2 callback, the two second-factor validation pages, the remember cookie - each with the
   guard of c01_session_only_against_credential *)
Definition beyond_password (C : crypto) (cfg : config) (w : world) (O : oracle) (req : request) (U : bytes) : Prop :=
  let E := ENV C cfg w O req in
  (exists prov, q_route req = ROAuthCallback prov /\ q_meth req = GET /\ has_mod cfg MOAuth2 = true /\
                bmem prov (c_providers cfg) = true /\ g_oauth2 E prov (w_st w) U) \/
  (q_route req = RTotpValidate /\ q_meth req = POST /\ c_totp cfg = true /\ g_totp E (init_hst (w_st w) O) U) \/
  (q_route req = RSmsValidate /\ q_meth req = POST /\ c_sms cfg = true /\ g_sms E (init_hst (w_st w) O) U) \/
  (exists full tf fr l c e, q_route req = RApp full tf fr l c true e /\ g_remember E (w_st w) U).

Lemma beyond_password_shown C cfg w O req U : beyond_password C cfg w O req U -> credential_shown C cfg w O req U.
Proof. unfold beyond_password, credential_shown. cbv zeta. tauto. Qed.

(* ---- the three password-class routes at step level --------------------------------------------- *)
Lemma step_login_parks C cfg w req O U u :
  q_route req = RLogin -> q_meth req = POST -> has_mod cfg MAuth = true ->
  ulookup (aget (pid_field (ENV C cfg w O req)) (values (ENV C cfg w O req))) (s_users (w_st w)) = Some u ->
  enrolled cfg u ->
  alookup k_uid (jar_get (q_browser req) (w_sess (fst (step C cfg w (AReq req) O)))) = Some U ->
  alookup k_uid (jar_get (q_browser req) (w_sess w)) <> Some U -> False.
Proof.
  intros R M HM Hu En H1 H0.
  eapply (step_route_neutral C cfg _ w req O U); [|no_drop R| |exact H1|exact H0].
  - route_is R M. rewrite HM. reflexivity.
  - exact (login_post_2fa_parks_lemma (ENV C cfg w O req) (init_hst (w_st w) O) u Hu En).
Qed.

Lemma step_otp_parks C cfg w req O U u :
  q_route req = ROtpLogin -> q_meth req = POST -> has_mod cfg MOtp = true ->
  ulookup (aget (pid_field (ENV C cfg w O req)) (values (ENV C cfg w O req))) (s_users (w_st w)) = Some u ->
  enrolled cfg u ->
  alookup k_uid (jar_get (q_browser req) (w_sess (fst (step C cfg w (AReq req) O)))) = Some U ->
  alookup k_uid (jar_get (q_browser req) (w_sess w)) <> Some U -> False.
Proof.
  intros R M HM Hu En H1 H0.
  eapply (step_route_neutral C cfg _ w req O U); [|no_drop R| |exact H1|exact H0].
  - route_is R M. rewrite HM. reflexivity.
  - exact (otp_login_post_2fa_parks_lemma (ENV C cfg w O req) (init_hst (w_st w) O) u Hu En).
Qed.

Lemma step_recover_parks C cfg w req O U raw u :
  q_route req = RRecoverEnd -> q_meth req = POST -> has_mod cfg MRecover = true ->
  b64url_dec (aget f_token (values (ENV C cfg w O req))) = Some raw ->
  ufind (fun u => beqb (u_rsel u) (selector_of (ENV C cfg w O req) raw)) (s_users (w_st w)) = Some u ->
  enrolled cfg u ->
  alookup k_uid (jar_get (q_browser req) (w_sess (fst (step C cfg w (AReq req) O)))) = Some U ->
  alookup k_uid (jar_get (q_browser req) (w_sess w)) <> Some U -> False.
Proof.
  intros R M HM Dc Hu En H1 H0.
  eapply (step_route_neutral C cfg _ w req O U); [|no_drop R| |exact H1|exact H0].
  - route_is R M. rewrite HM. reflexivity.
  - exact (recover_end_post_2fa_parks_lemma (ENV C cfg w O req) (init_hst (w_st w) O) raw u Dc Hu En).
Qed.

(* one step: a request that newly puts U into the browser's session either found no enrolled factor
   on U's stored record (password, one-time password, recovery token: the record is there;
   registration: there is no record yet), or went through one of the routes beyond a password *)
Lemma step_no_password_only C cfg w req O U :
  filed (w_st w) ->
  alookup k_uid (jar_get (q_browser req) (w_sess (fst (step C cfg w (AReq req) O)))) = Some U ->
  alookup k_uid (jar_get (q_browser req) (w_sess w)) <> Some U ->
  credential_shown C cfg w O req U ->
  no_factor cfg (w_st w) U \/ beyond_password C cfg w O req U.
Proof.
  intros Fl H1 H0 Cs. unfold credential_shown in Cs. cbv zeta in Cs.
  destruct Cs as [(R & M & HM & G)|[(R & M & HM & G)|[(R & M & HM & G)|[(R & M & HM & G)|Rest]]]].
  - left. destruct G as (EU & u & Hu & _). intros u' Hu' En.
    rewrite EU in Hu'. exact (step_login_parks C cfg w req O U u' R M HM Hu' En H1 H0).
  - left. destruct G as (EU & u & i & Hu & _). intros u' Hu' En.
    rewrite EU in Hu'. exact (step_otp_parks C cfg w req O U u' R M HM Hu' En H1 H0).
  - left. destruct G as (EU & Hn & _). intros u' Hu'. rewrite Hu' in Hn. discriminate Hn.
  - left. destruct G as (_ & raw & u & Dc & _ & Hf & _ & _ & EU). intros u' Hu' En.
    pose proof (filedl_found _ _ _ Fl Hf) as Hs. rewrite <- EU, Hu' in Hs. inversion Hs; subst u'.
    exact (step_recover_parks C cfg w req O U raw u R M HM Dc Hf En H1 H0).
  - right. unfold beyond_password. cbv zeta. exact Rest.
Qed.

(* the conclusion about the issuing step *)
Definition c02_issuing_step (C : crypto) (cfg : config) (w : world) (a : action) (O : oracle) (b U : bytes) : Prop :=
  no_factor cfg (w_st w) U \/
  (exists req, a = AReq req /\ q_browser req = b /\ beyond_password C cfg w O req U) \/
  a = APlant b k_uid U \/
  (exists j, a = ASetJar false b j /\ alookup k_uid j = Some U).

Lemma step_c02_issuing C cfg w a O b U :
  filed (w_st w) ->
  alookup k_uid (jar_get b (w_sess (fst (step C cfg w a O)))) = Some U ->
  alookup k_uid (jar_get b (w_sess w)) <> Some U ->
  issued_at C cfg w a O b U -> c02_issuing_step C cfg w a O b U.
Proof.
  intros Fl H1 H0 [(req & -> & <- & Cs)|Hr].
  - destruct (step_no_password_only C cfg w req O U Fl H1 H0 Cs) as [L|B]; [left; exact L|].
    right; left. exists req. auto.
  - right; right. exact Hr.
Qed.

Lemma c02_history_lemma C cfg w0 l w' os b U :
  filed (w_st w0) ->
  run C cfg w0 l = (w', os) ->
  alookup k_uid (jar_get b (w_sess w')) = Some U ->
  alookup k_uid (jar_get b (w_sess w0)) <> Some U ->
  exists l1 a O l2 w1, l = l1 ++ (a, O) :: l2 /\ fst (run C cfg w0 l1) = w1 /\
    alookup k_uid (jar_get b (w_sess w1)) <> Some U /\
    alookup k_uid (jar_get b (w_sess (fst (step C cfg w1 a O)))) = Some U /\
    issued_at C cfg w1 a O b U /\
    (forall l2a l2b, l2 = l2a ++ l2b ->
       alookup k_uid (jar_get b (w_sess (fst (run C cfg w0 (l1 ++ (a, O) :: l2a))))) = Some U) /\
    c02_issuing_step C cfg w1 a O b U.
Proof.
  intros Fl Rn H N0.
  destruct (history_provenance_lemma C cfg w0 l w' os b U Rn H)
    as [[A _]|(l1 & a & O & l2 & w1 & E & W1 & N1 & Y1 & Is & K)]; [contradiction|].
  exists l1, a, O, l2, w1. do 6 (split; [assumption|]).
  apply step_c02_issuing; try assumption.
  rewrite <- W1. apply run_filed_lemma. exact Fl.
Qed.

Lemma filed_empty : filed (w_st empty_world).
Proof. split; [constructor|intros k u []]. Qed.

(* from the empty world with library actions only: no harness disjuncts, no hypothesis on storage *)
Lemma c02_history_from_empty_lemma C cfg l w' os b U :
  run C cfg empty_world l = (w', os) -> library_history l ->
  alookup k_uid (jar_get b (w_sess w')) = Some U ->
  exists l1 req O l2 w1, l = l1 ++ (AReq req, O) :: l2 /\ fst (run C cfg empty_world l1) = w1 /\
    q_browser req = b /\ credential_shown C cfg w1 O req U /\
    alookup k_uid (jar_get b (w_sess w1)) <> Some U /\
    alookup k_uid (jar_get b (w_sess (fst (step C cfg w1 (AReq req) O)))) = Some U /\
    (forall l2a l2b, l2 = l2a ++ l2b ->
      alookup k_uid (jar_get b (w_sess (fst (run C cfg empty_world (l1 ++ (AReq req, O) :: l2a))))) = Some U) /\
    (no_factor cfg (w_st w1) U \/ beyond_password C cfg w1 O req U).
Proof.
  intros Rn Lib H.
  destruct (history_from_empty_lemma C cfg l w' os b U Rn Lib H)
    as (l1 & req & O & l2 & w1 & E & W1 & Bq & Cs & N1 & Y1 & K).
  exists l1, req, O, l2, w1. do 7 (split; [assumption|]).
  subst b. apply step_no_password_only; try assumption.
  rewrite <- W1. apply run_filed_lemma. exact filed_empty.
Qed.

(* ================================================================================================ *)
(* 2. C03: no session for a locked or unconfirmed account                                           *)
(* ================================================================================================ *)

(* ---- handler level: the two validation pages with a guard that includes the two vetoes ---------- *)
(* Props/C03b.v (c03_totp_validate_refused, c03_sms_validate_refused) speaks about a browser whose
   session carries no uid at all.  The guard below covers every session: whoever the page finds
   (the session's user, else the account parked under the pending key), the identity is written
   only if the BeforeAuth question is not refused for him. *)
Section C03G.
Variable E : env.
Notation vals := (values E).
Notation sess := (e_sess E).
Notation now := (o_now (e_O E)).

(* neither veto applies: the negation of [must_refuse] *)
Definition gate_open (u : user) : Prop :=
  (has_mod (e_cfg E) MLock = true -> u_locked u <= now) /\
  (has_mod (e_cfg E) MConfirm = true -> u_confirmed u = true).

Lemma gate_dec u : {must_refuse E u} + {gate_open u}.
Proof.
  unfold must_refuse, gate_open.
  destruct (has_mod (e_cfg E) MLock) eqn:HL; destruct (has_mod (e_cfg E) MConfirm) eqn:HC;
    destruct (Z_lt_dec now (u_locked u)) as [L|L]; destruct (u_confirmed u) eqn:Cf;
    try (left; left; split; [reflexivity|exact L]; fail);
    try (left; right; split; reflexivity; fail);
    right; split; intros Hx; try discriminate Hx; try reflexivity; lia.
Qed.

Lemma gate_open_not_refused u : gate_open u -> ~ must_refuse E u.
Proof. intros [A B] [[M L]|[M U]]; [specialize (A M); lia|rewrite (B M) in U; discriminate U]. Qed.

Lemma gate_open_same u u' : same_gate u u' -> gate_open u' -> gate_open u.
Proof. intros [A B] [G1 G2]. split; intros Hm; [rewrite <- A|rewrite <- B]; auto. Qed.

Definition g_gate (pk : bytes) (h : hst) (U : bytes) : Prop :=
  exists u, user_source2 E pk h u /\ u_pid u = U /\ gate_open u.

Lemma guarded_neutral_from G {A} (m : M A) h : neutral_from m h -> guarded G m h.
Proof.
  intros Hn r h' Eq. destruct (Hn _ _ Eq) as (ls & lc & S & Cc & F). exists ls, lc. repeat split; auto.
  eapply Forall_impl; [|exact F]. intros e He. left. exact He.
Qed.

Ltac rpost_go := repeat (unfold store_back; cbn beta iota zeta; rpost_step).

(* what TOTP validation hands back: the user it found, up to the recovery codes and the last code *)
Lemma totp_validate_gate h u' sh st h1 :
  totp_validate E h = (Ok (u', sh, st), h1) ->
  exists u, user_source2 E k_totp_pending h u /\ u_pid u' = u_pid u /\ same_gate u u'.
Proof.
  unfold totp_validate. intros Eq.
  apply bind_ok_inv in Eq as ([u sh0] & h0 & Fe & Eq).
  apply fetch_user_spec2 in Fe as (_ & Src). cbn beta iota in Eq.
  exists u. split; [exact Src|].
  match type of Eq with ?m _ = _ =>
    assert (RP : rpost (fun x => u_pid (fst (fst x)) = u_pid u /\ same_gate u (fst (fst x))) m) end.
  { rpost_go; simpl; repeat split; reflexivity. }
  exact (RP _ _ _ Eq).
Qed.

Lemma totp_validate_post_gate h : guarded (g_gate k_totp_pending h) (totp_validate_post E) h.
Proof.
  unfold totp_validate_post.
  apply guarded_bind; [apply guarded_of_neutral, neutral_totp_validate|intros [[u sh] st] h1 H1].
  destruct st as [[| |]|]; try (neutral_tail; fail).
  apply totp_validate_gate in H1 as (u0 & Src & Pd & SG).
  destruct (gate_dec u) as [MR|GO].
  - apply guarded_bind; [neutral_tail|intros a2 h2 _].
    apply guarded_neutral_from. apply set_cuser_refused. exact MR.
  - assert (G : g_gate k_totp_pending h (u_pid u)).
    { exists u0. split; [exact Src|]. split; [symmetry; exact Pd|]. exact (gate_open_same _ _ SG GO). }
    apply guarded_of_evs. ggo.
Qed.

Lemma sms_validate_code_gate h0 u sh input rc h :
  user_source2 E k_sms_pending h0 u ->
  guarded (g_gate k_sms_pending h0) (sms_validate_code E SPValidate u sh input rc) h.
Proof.
  intros Src. unfold sms_validate_code.
  apply guarded_bind; [neutral_tail|intros [verified u'] h1 E1].
  assert (SG : u_pid u' = u_pid u /\ same_gate u u').
  { revert E1.
    match goal with |- ?m h = _ -> _ =>
      assert (RP : rpost (fun x => u_pid (snd x) = u_pid u /\ same_gate u (snd x)) m) end.
    { rpost_go; simpl; repeat split; reflexivity. }
    intros E1. exact (RP _ _ _ E1). }
  destruct SG as [Pd SG]. cbn beta iota.
  destruct verified; cbn [negb]; [|neutral_tail].
  destruct (gate_dec u') as [MR|GO].
  - apply guarded_neutral_from. apply set_cuser_refused. exact MR.
  - assert (G : g_gate k_sms_pending h0 (u_pid u')).
    { exists u. split; [exact Src|]. split; [symmetry; exact Pd|]. exact (gate_open_same _ _ SG GO). }
    apply guarded_of_evs. ggo.
Qed.

Lemma sms_validator_post_gate h : guarded (g_gate k_sms_pending h) (sms_validator_post E SPValidate) h.
Proof.
  unfold sms_validator_post.
  apply guarded_bind; [neutral_tail|intros [u sh] h1 H1].
  apply fetch_user_spec2 in H1 as (_ & Src). cbn beta iota.
  apply guarded_bind; [neutral_tail|intros v h2 _]. cbn beta zeta.
  destruct (bempty (aget f_recovery_code v) && bempty (aget f_code v)).
  { apply guarded_of_neutral. apply neutral_sms_send_code. }
  destruct (negb (bempty (aget f_recovery_code v))); apply sms_validate_code_gate; exact Src.
Qed.
End C03G.

(* ---- step level ---------------------------------------------------------------------------------- *)
(* neither veto applies to the record stored for U (if there is one) at time [now] *)
Definition gate_passed (cfg : config) (now : Z) (st : storage) (U : bytes) : Prop :=
  forall u, ulookup U (s_users st) = Some u ->
    (has_mod cfg MLock = true -> u_locked u <= now) /\ (has_mod cfg MConfirm = true -> u_confirmed u = true).

Lemma gate_passed_of_not_refused C cfg O req ck ss st U :
  (forall u, ulookup U (s_users st) = Some u -> ~ must_refuse (mkEnv C cfg O req ck ss) u) ->
  gate_passed cfg (o_now O) st U.
Proof.
  intros H u Hu. destruct (gate_dec (mkEnv C cfg O req ck ss) u) as [MR|GO]; [destruct (H u Hu MR)|exact GO].
Qed.

Lemma step_login_refused C cfg w req O U u :
  q_route req = RLogin -> q_meth req = POST -> has_mod cfg MAuth = true ->
  ulookup (aget (pid_field (ENV C cfg w O req)) (values (ENV C cfg w O req))) (s_users (w_st w)) = Some u ->
  must_refuse (ENV C cfg w O req) u ->
  alookup k_uid (jar_get (q_browser req) (w_sess (fst (step C cfg w (AReq req) O)))) = Some U ->
  alookup k_uid (jar_get (q_browser req) (w_sess w)) <> Some U -> False.
Proof.
  intros R M HM Hu MR H1 H0.
  eapply (step_route_neutral C cfg _ w req O U); [|no_drop R| |exact H1|exact H0].
  - route_is R M. rewrite HM. reflexivity.
  - exact (login_post_refused_lemma (ENV C cfg w O req) (init_hst (w_st w) O) u Hu MR).
Qed.

Lemma step_otp_refused C cfg w req O U u :
  q_route req = ROtpLogin -> q_meth req = POST -> has_mod cfg MOtp = true ->
  ulookup (aget (pid_field (ENV C cfg w O req)) (values (ENV C cfg w O req))) (s_users (w_st w)) = Some u ->
  must_refuse (ENV C cfg w O req) u ->
  alookup k_uid (jar_get (q_browser req) (w_sess (fst (step C cfg w (AReq req) O)))) = Some U ->
  alookup k_uid (jar_get (q_browser req) (w_sess w)) <> Some U -> False.
Proof.
  intros R M HM Hu MR H1 H0.
  eapply (step_route_neutral C cfg _ w req O U); [|no_drop R| |exact H1|exact H0].
  - route_is R M. rewrite HM. reflexivity.
  - exact (otp_login_post_refused_lemma (ENV C cfg w O req) (init_hst (w_st w) O) u Hu MR).
Qed.

Lemma step_recover_refused C cfg w req O U raw u :
  q_route req = RRecoverEnd -> q_meth req = POST -> has_mod cfg MRecover = true ->
  b64url_dec (aget f_token (values (ENV C cfg w O req))) = Some raw ->
  ufind (fun u => beqb (u_rsel u) (selector_of (ENV C cfg w O req) raw)) (s_users (w_st w)) = Some u ->
  must_refuse (ENV C cfg w O req) u ->
  alookup k_uid (jar_get (q_browser req) (w_sess (fst (step C cfg w (AReq req) O)))) = Some U ->
  alookup k_uid (jar_get (q_browser req) (w_sess w)) <> Some U -> False.
Proof.
  intros R M HM Dc Hu MR H1 H0.
  eapply (step_route_neutral C cfg _ w req O U); [|no_drop R| |exact H1|exact H0].
  - route_is R M. rewrite HM. reflexivity.
  - exact (recover_end_post_refused_lemma (ENV C cfg w O req) (init_hst (w_st w) O) raw u Dc Hu MR).
Qed.

Lemma step_oauth2_locked_refused C cfg w req O U prov su :
  q_route req = ROAuthCallback prov -> q_meth req = GET ->
  has_mod cfg MOAuth2 = true -> bmem prov (c_providers cfg) = true ->
  has_mod cfg MLock = true ->
  ulookup (make_oauth2_pid prov (pa_uid (o_provider O))) (s_users (w_st w)) = Some su ->
  o_now O < u_locked su ->
  alookup k_uid (jar_get (q_browser req) (w_sess (fst (step C cfg w (AReq req) O)))) = Some U ->
  alookup k_uid (jar_get (q_browser req) (w_sess w)) <> Some U -> False.
Proof.
  intros R M HM HP HL Hu L H1 H0.
  eapply (step_route_neutral C cfg _ w req O U); [|no_drop R| |exact H1|exact H0].
  - route_is R M. rewrite HM, HP. reflexivity.
  - exact (oauth2_end_locked_refused_lemma (ENV C cfg w O req) prov (init_hst (w_st w) O) su HL Hu L).
Qed.

Lemma step_totp_gate C cfg w req O U :
  q_route req = RTotpValidate -> q_meth req = POST -> c_totp cfg = true ->
  alookup k_uid (jar_get (q_browser req) (w_sess (fst (step C cfg w (AReq req) O)))) = Some U ->
  alookup k_uid (jar_get (q_browser req) (w_sess w)) <> Some U ->
  g_gate (ENV C cfg w O req) k_totp_pending (init_hst (w_st w) O) U.
Proof.
  intros R M HM H1 H0.
  eapply (step_route_guard C cfg _ _ w req O U); [|no_drop R| |exact H1|exact H0].
  - route_is R M. rewrite HM. reflexivity.
  - apply (totp_validate_post_gate _ (init_hst (w_st w) O)).
Qed.

Lemma step_sms_gate C cfg w req O U :
  q_route req = RSmsValidate -> q_meth req = POST -> c_sms cfg = true ->
  alookup k_uid (jar_get (q_browser req) (w_sess (fst (step C cfg w (AReq req) O)))) = Some U ->
  alookup k_uid (jar_get (q_browser req) (w_sess w)) <> Some U ->
  g_gate (ENV C cfg w O req) k_sms_pending (init_hst (w_st w) O) U.
Proof.
  intros R M HM H1 H0.
  eapply (step_route_guard C cfg _ _ w req O U); [|no_drop R| |exact H1|exact H0].
  - route_is R M. rewrite HM. reflexivity.
  - apply (sms_validator_post_gate _ (init_hst (w_st w) O)).
Qed.

(* at the start of a request, in a keyed store, the user a validation page finds is stored under
   the identity it writes *)
Lemma g_gate_passed C cfg w req O pk U :
  keyed (w_st w) -> g_gate (ENV C cfg w O req) pk (init_hst (w_st w) O) U ->
  gate_passed cfg (o_now O) (w_st w) U.
Proof.
  intros Ky (u & Src & Pd & GO) u' Hu'.
  apply (user_source2_pending (ENV C cfg w O req) pk (init_hst (w_st w) O) u Ky eq_refl eq_refl) in Src.
  cbn [h_st init_hst] in Src.
  assert (Hs : ulookup U (s_users (w_st w)) = Some u).
  { destruct Src as [(_ & P & L)|(_ & P & L)]; rewrite <- Pd, P; exact L. }
  rewrite Hs in Hu'. inversion Hu'; subst u'. exact GO.
Qed.

(* the OAuth2 callback: the vetoes are asked about the record filed under the provider-scoped pid
   of the provider's user id; only the lock module listens (the known finding of C03) *)
Definition oauth2_issued (C : crypto) (cfg : config) (w : world) (O : oracle) (req : request) (U : bytes) : Prop :=
  exists prov, q_route req = ROAuthCallback prov /\ q_meth req = GET /\ has_mod cfg MOAuth2 = true /\
    bmem prov (c_providers cfg) = true /\ g_oauth2 (ENV C cfg w O req) prov (w_st w) U /\
    let opid := make_oauth2_pid prov (pa_uid (o_provider O)) in
    (has_mod cfg MLock = true ->
       forall su, ulookup opid (s_users (w_st w)) = Some su -> u_locked su <= o_now O) /\
    (U = opid \/ exists su, ulookup opid (s_users (w_st w)) = Some su /\ U = make_oauth2_pid prov (u_ouid su)).

(* the remember cookie on an application route: remember.Middleware asks neither question *)
Definition remember_issued (C : crypto) (cfg : config) (w : world) (O : oracle) (req : request) (U : bytes) : Prop :=
  exists full tf fr l c e, q_route req = RApp full tf fr l c true e /\ g_remember (ENV C cfg w O req) (w_st w) U.

Lemma step_no_session_while_locked C cfg w req O U :
  filed (w_st w) ->
  alookup k_uid (jar_get (q_browser req) (w_sess (fst (step C cfg w (AReq req) O)))) = Some U ->
  alookup k_uid (jar_get (q_browser req) (w_sess w)) <> Some U ->
  credential_shown C cfg w O req U ->
  gate_passed cfg (o_now O) (w_st w) U \/ oauth2_issued C cfg w O req U \/ remember_issued C cfg w O req U.
Proof.
  intros Fl H1 H0 Cs. pose proof (filed_keyed _ Fl) as Ky. unfold credential_shown in Cs. cbv zeta in Cs.
  destruct Cs as [(R & M & HM & G)|[(R & M & HM & G)|[(R & M & HM & G)|[(R & M & HM & G)|
                  [(prov & R & M & HM & HP & G)|[(R & M & HM & _)|[(R & M & HM & _)|Rm]]]]]]].
  - left. destruct G as (EU & _). eapply gate_passed_of_not_refused. intros u' Hu' MR.
    rewrite EU in Hu'. exact (step_login_refused C cfg w req O U u' R M HM Hu' MR H1 H0).
  - left. destruct G as (EU & _). eapply gate_passed_of_not_refused. intros u' Hu' MR.
    rewrite EU in Hu'. exact (step_otp_refused C cfg w req O U u' R M HM Hu' MR H1 H0).
  - left. destruct G as (_ & Hn & _). intros u' Hu'. rewrite Hu' in Hn. discriminate Hn.
  - left. destruct G as (_ & raw & u & Dc & _ & Hf & _ & _ & EU). eapply gate_passed_of_not_refused.
    intros u' Hu' MR.
    pose proof (filedl_found _ _ _ Fl Hf) as Hs. rewrite <- EU, Hu' in Hs. inversion Hs; subst u'.
    exact (step_recover_refused C cfg w req O U raw u R M HM Dc Hf MR H1 H0).
  - right; left. exists prov. do 5 (split; [assumption|]). cbv zeta. split.
    + intros HL su Hu. destruct (Z_lt_dec (o_now O) (u_locked su)) as [L|L]; [|lia].
      exfalso. exact (step_oauth2_locked_refused C cfg w req O U prov su R M HM HP HL Hu L H1 H0).
    + destruct G as (_ & _ & _ & _ & u0 & EU & [Hu|Eo]).
      * right. exists u0. auto.
      * left. rewrite EU. cbn [e_O] in Eo. rewrite Eo. reflexivity.
  - left. exact (g_gate_passed C cfg w req O _ U Ky (step_totp_gate C cfg w req O U R M HM H1 H0)).
  - left. exact (g_gate_passed C cfg w req O _ U Ky (step_sms_gate C cfg w req O U R M HM H1 H0)).
  - right; right. exact Rm.
Qed.

(* when the record the callback resolved carries the provider's user id (what NewFromOAuth2 of a
   consistent storer hands back), or when there was none, the identity issued IS the provider-scoped
   pid, and its record was not locked *)
Lemma oauth2_issued_not_locked C cfg w O req U :
  oauth2_issued C cfg w O req U -> has_mod cfg MLock = true ->
  (forall prov su, ulookup (make_oauth2_pid prov (pa_uid (o_provider O))) (s_users (w_st w)) = Some su ->
                   u_ouid su = pa_uid (o_provider O)) ->
  forall u, ulookup U (s_users (w_st w)) = Some u -> u_locked u <= o_now O.
Proof.
  intros (prov & _ & _ & _ & _ & _ & NL & EU) HL Cons u Hu. cbv zeta in NL, EU.
  assert (E1 : U = make_oauth2_pid prov (pa_uid (o_provider O))).
  { destruct EU as [->|(su & Hs & ->)]; [reflexivity|]. rewrite (Cons _ _ Hs). reflexivity. }
  rewrite E1 in Hu. exact (NL HL u Hu).
Qed.

Definition c03_issuing_step (C : crypto) (cfg : config) (w : world) (a : action) (O : oracle) (b U : bytes) : Prop :=
  gate_passed cfg (o_now O) (w_st w) U \/
  (exists req, a = AReq req /\ q_browser req = b /\ oauth2_issued C cfg w O req U) \/
  (exists req, a = AReq req /\ q_browser req = b /\ remember_issued C cfg w O req U) \/
  a = APlant b k_uid U \/
  (exists j, a = ASetJar false b j /\ alookup k_uid j = Some U).

Lemma step_c03_issuing C cfg w a O b U :
  filed (w_st w) ->
  alookup k_uid (jar_get b (w_sess (fst (step C cfg w a O)))) = Some U ->
  alookup k_uid (jar_get b (w_sess w)) <> Some U ->
  issued_at C cfg w a O b U -> c03_issuing_step C cfg w a O b U.
Proof.
  intros Fl H1 H0 [(req & -> & <- & Cs)|Hr].
  - destruct (step_no_session_while_locked C cfg w req O U Fl H1 H0 Cs) as [L|[B|B]]; [left; exact L| |].
    + right; left. exists req. auto.
    + right; right; left. exists req. auto.
  - right; right; right. exact Hr.
Qed.

Lemma c03_history_lemma C cfg w0 l w' os b U :
  filed (w_st w0) ->
  run C cfg w0 l = (w', os) ->
  alookup k_uid (jar_get b (w_sess w')) = Some U ->
  alookup k_uid (jar_get b (w_sess w0)) <> Some U ->
  exists l1 a O l2 w1, l = l1 ++ (a, O) :: l2 /\ fst (run C cfg w0 l1) = w1 /\
    alookup k_uid (jar_get b (w_sess w1)) <> Some U /\
    alookup k_uid (jar_get b (w_sess (fst (step C cfg w1 a O)))) = Some U /\
    issued_at C cfg w1 a O b U /\
    (forall l2a l2b, l2 = l2a ++ l2b ->
       alookup k_uid (jar_get b (w_sess (fst (run C cfg w0 (l1 ++ (a, O) :: l2a))))) = Some U) /\
    c03_issuing_step C cfg w1 a O b U.
Proof.
  intros Fl Rn H N0.
  destruct (history_provenance_lemma C cfg w0 l w' os b U Rn H)
    as [[A _]|(l1 & a & O & l2 & w1 & E & W1 & N1 & Y1 & Is & K)]; [contradiction|].
  exists l1, a, O, l2, w1. do 6 (split; [assumption|]).
  apply step_c03_issuing; try assumption.
  rewrite <- W1. apply run_filed_lemma. exact Fl.
Qed.

Lemma c03_history_from_empty_lemma C cfg l w' os b U :
  run C cfg empty_world l = (w', os) -> library_history l ->
  alookup k_uid (jar_get b (w_sess w')) = Some U ->
  exists l1 req O l2 w1, l = l1 ++ (AReq req, O) :: l2 /\ fst (run C cfg empty_world l1) = w1 /\
    q_browser req = b /\ credential_shown C cfg w1 O req U /\
    alookup k_uid (jar_get b (w_sess w1)) <> Some U /\
    alookup k_uid (jar_get b (w_sess (fst (step C cfg w1 (AReq req) O)))) = Some U /\
    (forall l2a l2b, l2 = l2a ++ l2b ->
      alookup k_uid (jar_get b (w_sess (fst (run C cfg empty_world (l1 ++ (AReq req, O) :: l2a))))) = Some U) /\
    (gate_passed cfg (o_now O) (w_st w1) U \/ oauth2_issued C cfg w1 O req U \/ remember_issued C cfg w1 O req U).
Proof.
  intros Rn Lib H.
  destruct (history_from_empty_lemma C cfg l w' os b U Rn Lib H)
    as (l1 & req & O & l2 & w1 & E & W1 & Bq & Cs & N1 & Y1 & K).
  exists l1, req, O, l2, w1. do 7 (split; [assumption|]).
  subst b. apply step_no_session_while_locked; try assumption.
  rewrite <- W1. apply run_filed_lemma. exact filed_empty.
Qed.

(* ---- witnesses (executable crypto instance, computed) -------------------------------------------- *)
(* C02, non-vacuity of the second alternative: an account with a TOTP secret (totp2fa set up).  The
   correct password only parks the login; the code at the validation page issues the identity, and at
   that step the stored record IS enrolled. *)
Definition h3_pid := bs "a@x.io".
Definition h3t_cfg : config :=
  mkConfig [MAuth; MLock; MConfirm] false true false false false false 3 300 3600 600 3600 (bs "/auth")
           false false false DELETE GET false [] RespNotFound [] [] true false false.
Definition h3t_user : user :=
  blank_user <| u_pid := h3_pid |> <| u_email := h3_pid |> <| u_password := exec_pwhash (bs "password1") |>
             <| u_confirmed := true |> <| u_totp := bs "SECRET" |>.
Definition h3t_oracle : oracle := mkOracle 1000 [] [(bs "SECRET", bs "123456")] [] (mkPA false false [] [] [] [] 0).
Definition h3t_login : request :=
  mkRequest (bs "b1") POST RLogin (bs "/login") [] [] [(f_email, h3_pid); (f_password, bs "password1")] false.
Definition h3t_validate : request :=
  mkRequest (bs "b1") POST RTotpValidate (bs "/2fa/totp/validate") [] [] [(f_code, bs "123456")] false.
Definition h3t_prefix : list (action * oracle) := [(ASeed h3t_user [], h3t_oracle); (AReq h3t_login, h3t_oracle)].
Definition h3t_history : list (action * oracle) := h3t_prefix ++ [(AReq h3t_validate, h3t_oracle)].

Lemma h3t_witness :
  library_history h3t_history /\
  (* after the password: parked, nobody named *)
  alookup k_uid (jar_get (bs "b1") (w_sess (fst (run XC h3t_cfg empty_world h3t_prefix)))) = None /\
  alookup k_totp_pending (jar_get (bs "b1") (w_sess (fst (run XC h3t_cfg empty_world h3t_prefix)))) = Some h3_pid /\
  (* after the code: named *)
  alookup k_uid (jar_get (bs "b1") (w_sess (fst (run XC h3t_cfg empty_world h3t_history)))) = Some h3_pid /\
  (* the record is enrolled in the world the validation started from *)
  (exists u, ulookup h3_pid (s_users (w_st (fst (run XC h3t_cfg empty_world h3t_prefix)))) = Some u /\
             enrolled h3t_cfg u).
Proof.
  split; [repeat constructor|]. split; [vm_compute; reflexivity|]. split; [vm_compute; reflexivity|].
  split; [vm_compute; reflexivity|].
  eexists. split; [vm_compute; reflexivity|]. left. split; vm_compute; reflexivity.
Qed.

(* C03: the remember cookie is the exception for BOTH vetoes.  Lock and confirm loaded, the account
   locked until 5000 and not confirmed, the request at time 1000 to an application route behind
   remember + lock + confirm middlewares carries a valid remember cookie: the lock middleware answers
   with its failure redirect, but the session has been issued (half-authenticated). *)
Definition h3r_cfg : config :=
  mkConfig [MAuth; MLock; MConfirm; MRemember] false false false false false false 3 300 3600 600 3600 (bs "/auth")
           false false false DELETE GET false [] RespNotFound [] [] true false false.
Definition h3r_user : user :=
  blank_user <| u_pid := h3_pid |> <| u_email := h3_pid |> <| u_locked := 5000 |> <| u_confirmed := false |>.
Definition h3r_raw : bytes := h3_pid ++ ";"%byte :: repeat "x"%byte 32.
Definition h3r_world : world :=
  mkWorld (mkStorage [(h3_pid, h3r_user)] [(h3_pid, [b64std_enc (sha XC h3r_raw)])]) []
          [(bs "b1", [(k_rm, b64url_enc h3r_raw)])].
Definition h3r_req : request :=
  mkRequest (bs "b1") GET (RApp false false RespNotFound true true true false) (bs "/app") [] [] [] false.
Definition h3r_oracle : oracle := mkOracle 1000 [repeat "y"%byte 32] [] [] (mkPA false false [] [] [] [] 0).

Lemma h3r_witness :
  has_mod h3r_cfg MLock = true /\ has_mod h3r_cfg MConfirm = true /\
  ulookup h3_pid (s_users (w_st h3r_world)) = Some h3r_user /\
  o_now h3r_oracle < u_locked h3r_user /\ u_confirmed h3r_user = false /\
  alookup k_uid (jar_get (bs "b1") (w_sess h3r_world)) = None /\
  alookup k_uid (jar_get (bs "b1") (w_sess (fst (step XC h3r_cfg h3r_world (AReq h3r_req) h3r_oracle)))) = Some h3_pid /\
  ob_resp (snd (step XC h3r_cfg h3r_world (AReq h3r_req) h3r_oracle)) = Some (RespRedirect302 (bs "/no/lock")).
Proof. vm_compute. repeat split. Qed.

(* ================================================================================================ *)
(* 3. C13: provenance of every change of an account's (TOTP secret, SMS number, recovery codes)     *)
(* ================================================================================================ *)
(* tf_of st p (Proofs/TwoFactorProofs.v) is the triple stored for account p.  The frame theorems of
   C13b / C13c (logic K over the invariant "everybody's triple is what the table T says") are
   completed to the whole route table, the five settings routes are read through the access
   middleware (only_owner), the two validation pages are followed by hand (a recovery code is the
   one way they change a triple), and the result is lifted to [step] and [run]. *)
Ltac rpost_go3 := repeat (unfold store_back; cbn beta iota zeta; rpost_step).

Definition tf_same (st st' : storage) : Prop := forall p, tf_of st' p = tf_of st p.
Definition tf_same_but (P : bytes) (st st' : storage) : Prop := forall p, p <> P -> tf_of st' p = tf_of st p.

Lemma tf_same_refl st : tf_same st st. Proof. intros p. reflexivity. Qed.
Lemma tf_same_eq st st' : st' = st -> tf_same st st'. Proof. intros ->. apply tf_same_refl. Qed.
Lemma tf_same_trans a b c : tf_same a b -> tf_same b c -> tf_same a c.
Proof. intros H1 H2 p. rewrite H2. apply H1. Qed.
Lemma tf_same_users st st' : s_users st' = s_users st -> tf_same st st'.
Proof. intros Eq p. unfold tf_of. rewrite Eq. reflexivity. Qed.
Lemma tf_but_of_same P a b : tf_same a b -> tf_same_but P a b.
Proof. intros H p _. apply H. Qed.
Lemma tf_but_trans_same P a b c : tf_same_but P a b -> tf_same b c -> tf_same_but P a c.
Proof. intros H1 H2 p N. rewrite H2. apply H1. exact N. Qed.

Lemma uput_tf_same st u :
  tf_of st (u_pid u) = Some (tf3 u) -> tf_same st (st <| s_users := uput (u_pid u) u (s_users st) |>).
Proof.
  intros G p. unfold tf_of. cbn [s_users set]. simpl. destruct (bytes_dec p (u_pid u)) as [->|N].
  - rewrite ulookup_uput_eq. symmetry. exact G.
  - rewrite ulookup_uput_neq by exact N. reflexivity.
Qed.
Lemma uput_tf_but st u : tf_same_but (u_pid u) st (st <| s_users := uput (u_pid u) u (s_users st) |>).
Proof. intros p N. unfold tf_of. simpl. rewrite ulookup_uput_neq by exact N. reflexivity. Qed.
Lemma uput_filed st u : filed st -> filed (st <| s_users := uput (u_pid u) u (s_users st) |>).
Proof. intros F. unfold filed. simpl. apply filedl_uput. exact F. Qed.
Lemma uput_good st u : tf_of (st <| s_users := uput (u_pid u) u (s_users st) |>) (u_pid u) = Some (tf3 u).
Proof. unfold tf_of. simpl. rewrite ulookup_uput_eq. reflexivity. Qed.
Lemma stored_good st u : ulookup (u_pid u) (s_users st) = Some u -> tf_of st (u_pid u) = Some (tf3 u).
Proof. intros H. unfold tf_of. rewrite H. reflexivity. Qed.

Section TF.
Variable E : env.
Notation top := (fun _ => True).
Notation rc_in := (aget f_recovery_code (values E)).

Lemma KT_closed {A} (m : M A) R h r h' :
  (forall T, K (LT E T) m R) -> filed (h_st h) -> ctx_ok h -> m h = (r, h') ->
  filed (h_st h') /\ tf_same (h_st h) (h_st h').
Proof.
  intros H F Cx Eq. destruct (keeps2fa_of_K m R H h r h' F Cx Eq) as (A1 & _ & A3). split; assumption.
Qed.

(* [set_cuser u] with a good u, then anything that keeps the triples *)
Lemma set_cuser_cont_tf u (Kont : M unit) h r h' :
  (forall T, goodT T u -> K (LT E T) Kont top) ->
  filed (h_st h) -> tf_of (h_st h) (u_pid u) = Some (tf3 u) ->
  (set_cuser u ;;; Kont) h = (r, h') ->
  filed (h_st h') /\ tf_same (h_st h) (h_st h').
Proof.
  intros HK F G Eq.
  apply bind_inv in Eq as [(a & h1 & E1 & E2)|[(e & E1 & _)|(E1 & _)]]; try (inversion E1; fail).
  inversion E1; subst a h1; clear E1.
  assert (I : invT (tf_of (h_st h)) (h <| h_cuser := Some u |>)).
  { split; [exact F|]. split; [reflexivity|]. simpl. intros cu Hcu. inversion Hcu; subst. exact G. }
  destruct (HK _ G _ _ _ I E2) as [I' _]. apply invT_end in I' as (F' & _ & Tb). split; [exact F'|exact Tb].
Qed.

Lemma save_tf u (b : bool) h r h' :
  filed (h_st h) -> tf_of (h_st h) (u_pid u) = Some (tf3 u) ->
  (if b then st_save (e_O E) u else ret tt) h = (r, h') ->
  filed (h_st h') /\ tf_same (h_st h) (h_st h').
Proof.
  intros F G Eq. destruct b; [|inversion Eq; subst; split; [exact F|apply tf_same_refl]].
  apply st_save_spec in Eq as (_ & _ & _ & _ & [(e & _ & St)|(_ & St)]); rewrite St.
  - split; [exact F|apply tf_same_refl].
  - split; [apply uput_filed; exact F|apply uput_tf_same; exact G].
Qed.

Lemma source_stored pk h u :
  keyed (h_st h) -> h_cuser h = None -> user_source2 E pk h u -> ulookup (u_pid u) (s_users (h_st h)) = Some u.
Proof. intros Ky Hc [H|[(_ & H)|(_ & H)]]; [congruence| |]; rewrite (Ky _ _ H); exact H. Qed.

Lemma tv_tail_result u sh :
  rpost (fun x => u_pid (fst (fst x)) = u_pid u /\ (snd x <> Some TSuccess -> fst (fst x) = u)) (tv_tail E u sh).
Proof.
  unfold tv_tail. rpost_go3; simpl; (split; [reflexivity|]); intros N; try reflexivity; exfalso; apply N; reflexivity.
Qed.

(* TOTP.validate from a request's start state *)
Lemma totp_validate_tf h r h2 :
  filed (h_st h) -> h_cuser h = None -> totp_validate E h = (r, h2) ->
  (h_st h2 = h_st h /\
   forall u' sh st, r = Ok (u', sh, st) -> tf_of (h_st h) (u_pid u') = Some (tf3 u')) \/
  (bempty rc_in = false /\ exists u rest sh, user_source2 E k_totp_pending h u /\
     r = Ok (consumed u rest, sh, Some TSuccess) /\
     h_st h2 = h_st h <| s_users := uput (u_pid u) (consumed u rest) (s_users (h_st h)) |>).
Proof.
  intros F Hc Eq. pose proof (filed_keyed _ F) as Ky. rewrite totp_validate_unfold in Eq.
  apply bind_inv in Eq as [([u sh] & h1 & E1 & E2)|[(e & E1 & ->)|(E1 & ->)]].
  - pose proof E1 as E1'. unfold tv_head in E1'. apply fetch_user_spec2 in E1' as (S1 & Src).
    pose proof (source_stored _ _ _ Ky Hc Src) as St. cbn beta iota in E2.
    destruct (tv_tail_spec E u sh h1 r h2 E2) as
      [(NS & S2)|[(Bt & Brc & Tk & S2 & u' & Hr & Pd & T3)|(Bt & Brc & rest & Ur & Hr & S2)]].
    + left. split; [congruence|]. intros u' sh' st Hr. subst r.
      destruct (tv_tail_result u sh h1 _ h2 E2) as [Pd Same]. cbn [fst snd] in *.
      assert (Nst : st <> Some TSuccess) by (intros ->; exact (NS _ _ eq_refl)).
      rewrite (Same Nst). apply stored_good. exact St.
    + left. split; [congruence|]. intros u'' sh' st Hr'. rewrite Hr in Hr'. inversion Hr'; subst.
      rewrite Pd, T3. apply stored_good. exact St.
    + right. split; [exact Brc|]. exists u, rest, sh. split; [exact Src|]. split; [exact Hr|]. rewrite S2, S1. reflexivity.
  - left. split; [exact (pres_tv_head E _ _ _ E1)|]. intros ? ? ? D. discriminate D.
  - left. split; [exact (pres_tv_head E _ _ _ E1)|]. intros ? ? ? D. discriminate D.
Qed.

(* the outcome of a validation page on the triples *)
Definition validate_outcome (pk : bytes) (h h' : hst) : Prop :=
  filed (h_st h') /\
  (tf_same (h_st h) (h_st h') \/
   (bempty rc_in = false /\ exists u, user_source2 E pk h u /\ tf_same_but (u_pid u) (h_st h) (h_st h'))).

Lemma same_outcome pk h h' : filed (h_st h) -> h_st h' = h_st h -> validate_outcome pk h h'.
Proof. intros F S. split; [rewrite S; exact F|left; apply tf_same_eq; exact S]. Qed.

Lemma totp_validate_post_tf h r h' :
  filed (h_st h) -> h_cuser h = None ->
  totp_validate_post E h = (r, h') -> validate_outcome k_totp_pending h h'.
Proof.
  intros F Hc Eq. unfold totp_validate_post in Eq.
  apply bind_inv in Eq as [([[u' sh] st] & h2 & E1 & E2)|[(e & E1 & ->)|(E1 & ->)]];
    apply (totp_validate_tf h _ _ F Hc) in E1;
    try (destruct E1 as [(S2 & _)|(_ & u & rest & sh & _ & D & _)]; [apply same_outcome; assumption|discriminate D]).
  destruct E1 as [(S2 & G)|(Brc & u & rest & sh0 & Src & Hr & S2)].
  - specialize (G u' sh st eq_refl). rewrite <- S2 in G.
    assert (F2 : filed (h_st h2)) by (rewrite S2; exact F).
    assert (W : filed (h_st h') /\ tf_same (h_st h2) (h_st h')).
    { destruct st as [ts|]; [destruct ts|]; cbn beta iota in E2.
      - apply bind_inv in E2 as [(a & h3 & Sv & E3)|[(e & Sv & ->)|(Sv & ->)]];
          destruct (save_tf u' _ _ _ _ F2 G Sv) as [F3 T3]; try (split; assumption).
        assert (G3 : tf_of (h_st h3) (u_pid u') = Some (tf3 u')) by (rewrite T3; exact G).
        match type of E3 with (set_cuser _ ;;; ?k) _ = _ =>
          destruct (set_cuser_cont_tf u' k h3 r h') as [F4 T4]; try assumption end.
        { intros T GT. k_go. }
        split; [exact F4|]. eapply tf_same_trans; eassumption.
      - match type of E2 with (set_cuser _ ;;; ?k) _ = _ =>
          apply (set_cuser_cont_tf u' k h2 r h'); try assumption end.
        intros T GT. k_go.
      - match type of E2 with (set_cuser _ ;;; ?k) _ = _ =>
          apply (set_cuser_cont_tf u' k h2 r h'); try assumption end.
        intros T GT. k_go.
      - match type of E2 with ?m _ = _ => assert (P : pres h_st m) by pres_go end.
        rewrite (P _ _ _ E2). split; [exact F2|apply tf_same_refl]. }
    destruct W as [F' T']. split; [exact F'|left]. intros p. rewrite T'. unfold tf_of. rewrite S2. reflexivity.
  - inversion Hr; subst u' sh st. clear Hr. cbn beta iota in E2.
    set (uc := consumed u rest) in *.
    assert (Pc : u_pid uc = u_pid u) by reflexivity.
    assert (F2 : filed (h_st h2)) by (rewrite S2, <- Pc; apply uput_filed; exact F).
    assert (G : tf_of (h_st h2) (u_pid uc) = Some (tf3 uc)) by (rewrite S2, <- Pc; apply uput_good).
    assert (B2 : tf_same_but (u_pid u) (h_st h) (h_st h2)) by (rewrite S2, <- Pc; apply uput_tf_but).
    assert (W : filed (h_st h') /\ tf_same (h_st h2) (h_st h')).
    { apply bind_inv in E2 as [(a & h3 & Sv & E3)|[(e & Sv & ->)|(Sv & ->)]];
        destruct (save_tf uc _ _ _ _ F2 G Sv) as [F3 T3]; try (split; assumption).
      assert (G3 : tf_of (h_st h3) (u_pid uc) = Some (tf3 uc)) by (rewrite T3; exact G).
      match type of E3 with (set_cuser _ ;;; ?k) _ = _ =>
        destruct (set_cuser_cont_tf uc k h3 r h') as [F4 T4]; try assumption end.
      { intros T GT. k_go. }
      split; [exact F4|]. eapply tf_same_trans; eassumption. }
    destruct W as [F' T']. split; [exact F'|right]. split; [exact Brc|]. exists u. split; [exact Src|].
    eapply tf_but_trans_same; eassumption.
Qed.

Lemma sms_validate_code_tf h0 u sh inp rc h r h' :
  filed (h_st h) -> h_st h = h_st h0 -> ulookup (u_pid u) (s_users (h_st h)) = Some u ->
  user_source2 E k_sms_pending h0 u ->
  (bempty rc = false -> rc = rc_in) ->
  sms_validate_code E SPValidate u sh inp rc h = (r, h') -> validate_outcome k_sms_pending h0 h'.
Proof.
  intros F S0 St Src Hrc Eq. rewrite sms_validate_code_unfold in Eq.
  assert (SAME : forall k : hst, h_st k = h_st h -> validate_outcome k_sms_pending h0 k).
  { intros k Sk. apply same_outcome; [rewrite <- S0; exact F|congruence]. }
  assert (LIFT : forall k : hst, filed (h_st k) /\ tf_same (h_st h) (h_st k) -> validate_outcome k_sms_pending h0 k).
  { intros k [Fk Tk]. split; [exact Fk|left]. intros p. rewrite Tk. unfold tf_of. rewrite S0. reflexivity. }
  pose proof (stored_good _ _ St) as G.
  apply bind_inv in Eq as [([vf u1] & h1 & V1 & V2)|[(e & V1 & ->)|(V1 & ->)]];
    apply sms_check_spec in V1 as [(Hr & Hh)|[(Hr & Hs)|[(B & Hr & Hh & Bc & Hi & Bd)|(B & rest & Ur & Hr & Hs)]]];
    try discriminate Hr; try (exfalso; eapply Hr; reflexivity); try (apply SAME; exact Hs).
  - inversion Hr; subst vf u1 h1. cbn [negb] in V2. cbn beta iota in V2. apply LIFT.
    unfold TwoFactor2.sms_fail_tail in V2.
    match type of V2 with (set_cuser _ ;;; ?k) _ = _ => apply (set_cuser_cont_tf u k h r h'); try assumption end.
    intros T GT. k_go.
  - inversion Hr; subst vf u1 h1. cbn [negb] in V2. cbn beta iota in V2. apply LIFT.
    unfold TwoFactor2.sms_ok_tail in V2.
    match type of V2 with (set_cuser _ ;;; ?k) _ = _ => apply (set_cuser_cont_tf u k h r h'); try assumption end.
    intros T GT. k_go.
  - inversion Hr; subst vf u1. cbn [negb] in V2. cbn beta iota in V2.
    set (uc := consumed u rest) in *.
    assert (Pc : u_pid uc = u_pid u) by reflexivity.
    assert (F1 : filed (h_st h1)) by (rewrite Hs, <- Pc; apply uput_filed; exact F).
    assert (G1 : tf_of (h_st h1) (u_pid uc) = Some (tf3 uc)) by (rewrite Hs, <- Pc; apply uput_good).
    assert (B1 : tf_same_but (u_pid u) (h_st h0) (h_st h1)) by (rewrite Hs, <- Pc, <- S0; apply uput_tf_but).
    unfold TwoFactor2.sms_ok_tail in V2.
    match type of V2 with (set_cuser _ ;;; ?k) _ = _ =>
      destruct (set_cuser_cont_tf uc k h1 r h') as [F4 T4]; try assumption end.
    { intros T GT. k_go. }
    split; [exact F4|right]. split; [rewrite <- (Hrc B); exact B|]. exists u. split; [exact Src|].
    eapply tf_but_trans_same; eassumption.
Qed.

Lemma sms_validate_post_tf h r h' :
  filed (h_st h) -> h_cuser h = None ->
  sms_validator_post E SPValidate h = (r, h') -> validate_outcome k_sms_pending h h'.
Proof.
  intros F Hc Eq. pose proof (filed_keyed _ F) as Ky. unfold sms_validator_post in Eq.
  apply bind_inv in Eq as [([u sh] & h1 & E1 & E2)|[(e & E1 & ->)|(E1 & ->)]].
  2,3: match type of E1 with ?m _ = _ => assert (P : pres h_st m) by pres_go end;
       apply same_outcome; [exact F|exact (P _ _ _ E1)].
  apply fetch_user_spec2 in E1 as (S1 & Src).
  pose proof (source_stored _ _ _ Ky Hc Src) as St. cbn beta iota in E2.
  assert (F1 : filed (h_st h1)) by (rewrite S1; exact F).
  apply bind_inv in E2 as [(v & h2 & E1 & E2)|[(e & E1 & ->)|(E1 & ->)]];
    apply read_values_spec in E1 as [-> [Hv|Hv]]; try discriminate Hv; try (apply same_outcome; assumption).
  inversion Hv; subst v; clear Hv. cbv zeta in E2. cbn beta iota in E2.
  rewrite <- S1 in St.
  destruct (bempty rc_in && bempty (aget f_code (values E))).
  { apply same_outcome; [exact F|]. rewrite (pres_st_sms_send_code E _ _ _ _ _ E2). exact S1. }
  destruct (negb (bempty rc_in)).
  - eapply (sms_validate_code_tf h u sh _ _ h1); try eassumption. reflexivity.
  - eapply (sms_validate_code_tf h u sh _ _ h1); try eassumption. intros D. discriminate D.
Qed.
End TF.

(* ---- the handlers that keep every triple: the pages and wrappers not covered in TwoFactorProofs --- *)
Section KT3.
Variable E : env.
Variable T : bytes -> option (bytes * bytes * bytes).
Notation KT := (K (LT E T)).
Notation top := (fun _ => True).

Lemma KT_login_get : KT (login_get E) top. Proof. unfold login_get. k_go. Qed.
Lemma KT_otp_login_get : KT (otp_login_get E) top. Proof. unfold otp_login_get. k_go. Qed.
Lemma KT_otp_show pg : KT (otp_show E pg) top. Proof. unfold otp_show. k_go. Qed.
Lemma KT_resp0 pg : KT (resp0 E pg) top. Proof. unfold resp0. k_go. Qed.
Lemma KT_recover_end_get : KT (recover_end_get E) top. Proof. unfold recover_end_get. k_go. Qed.
Lemma KT_recovery_regen_get : KT (recovery_regen_get E) top. Proof. unfold recovery_regen_get. k_go. Qed.
Lemma KT_email_verify_get k : KT (email_verify_get E k) top. Proof. unfold email_verify_get. k_go. Qed.
Lemma KT_totp_setup_get : KT (totp_setup_get E) top. Proof. unfold totp_setup_get. k_go. Qed.
Lemma KT_totp_confirm_get : KT (totp_confirm_get E) top. Proof. unfold totp_confirm_get. k_go. Qed.
Lemma KT_totp_qr : KT (totp_qr E) top. Proof. unfold totp_qr. k_go. Qed.
Lemma KT_sms_setup_get : KT (sms_setup_get E) top. Proof. unfold sms_setup_get. k_go. Qed.
Lemma KT_app_handler : KT (app_handler E) top. Proof. unfold app_handler. k_go. Qed.
Lemma KT_email_verify_wrap k : KT (email_verify_wrap E k) top. Proof. unfold email_verify_wrap. k_go. Qed.
Lemma KT_expire_mw : KT (expire_mw E) top. Proof. unfold expire_mw. k_go. Qed.

Lemma KT_behind full hd : KT hd top -> KT (behind E full hd) top.
Proof.
  intros Hh. unfold behind. eapply K_bind; [apply KT_auth_middleware|].
  intros ok _. destruct ok; [exact Hh|apply K_ret_top].
Qed.
Lemma KT_verified k hd : KT hd top -> KT (verified E k hd) top.
Proof.
  intros Hh. unfold verified. apply KT_behind. eapply K_bind; [apply KT_email_verify_wrap|].
  intros ok _. destruct ok; [exact Hh|apply K_ret_top].
Qed.
Lemma KT_with_error_handler hd : KT hd top -> KT (with_error_handler E hd) top.
Proof. intros Hh. unfold with_error_handler. eapply K_try; [exact Hh|intros; k_go|intros; k_go]. Qed.
End KT3.

Lemma KT_env E1 E2 T {A} (m : M A) R : K (LT E1 T) m R -> K (LT E2 T) m R.
Proof. intros H. exact H. Qed.

Lemma KT_app_stack E T full tf fr l c r e : K (LT E T) (app_stack E full tf fr l c r e) (fun _ => True).
Proof.
  unfold app_stack. eapply K_bind.
  { destruct e; [apply KT_expire_mw|apply K_ret_top]. }
  intros sess _. cbv zeta.
  eapply K_bind.
  { destruct r; [|apply K_ret_top]. eapply K_bind; [apply (KT_env (with_sess E sess)), KT_remember_mw|].
    intros _ _. unfold remembered_view. k_go. }
  intros sess2 _. eapply K_bind. { apply (KT_env (with_sess E sess2)), KT_auth_middleware. }
  intros ok _. destruct ok; [|apply K_ret_top]. cbn [negb].
  eapply K_bind. { destruct l; [apply (KT_env (with_sess E sess2)), KT_lock_mw|apply K_ret_top]. }
  intros ok _. destruct ok; [|apply K_ret_top]. cbn [negb].
  eapply K_bind. { destruct c; [apply (KT_env (with_sess E sess2)), KT_confirm_mw|apply K_ret_top]. }
  intros ok _. destruct ok; [|apply K_ret_top]. cbn [negb].
  apply (KT_env (with_sess E sess2)), KT_app_handler.
Qed.

(* ---- the route table --------------------------------------------------------------------------- *)
(* the requests whose handler can change somebody's triple *)
Inductive fkind := FReg | FOAuth (prov : bytes) | FTotpConfirm | FTotpRemove | FSmsConfirm | FSmsRemove | FRegen
                 | FTotpVal | FSmsVal.

Definition fkind_of (cfg : config) (q : request) : option fkind :=
  match q_route q, q_meth q with
  | RRegister, POST => if has_mod cfg MRegister then Some FReg else None
  | ROAuthCallback p, GET => if has_mod cfg MOAuth2 && bmem p (c_providers cfg) then Some (FOAuth p) else None
  | RTotpConfirm, POST => if c_totp cfg then Some FTotpConfirm else None
  | RTotpRemove, POST => if c_totp cfg then Some FTotpRemove else None
  | RSmsConfirm, POST => if c_sms cfg then Some FSmsConfirm else None
  | RSmsRemove, POST => if c_sms cfg then Some FSmsRemove else None
  | RRecoveryRegen, POST => if c_recovery cfg then Some FRegen else None
  | RTotpValidate, POST => if c_totp cfg then Some FTotpVal else None
  | RSmsValidate, POST => if c_sms cfg then Some FSmsVal else None
  | _, _ => None
  end.

Definition fhandler (E : env) (k : fkind) : M unit :=
  match k with
  | FReg => register_post E
  | FOAuth p => oauth2_end E p
  | FTotpConfirm => verified E KTotp (totp_confirm_post E)
  | FTotpRemove => behind E true (totp_remove_post E)
  | FSmsConfirm => verified E KSms (sms_validator_post E SPConfirm)
  | FSmsRemove => behind E true (sms_validator_post E SPRemove)
  | FRegen => behind E true (recovery_regen_post E)
  | FTotpVal => totp_validate_post E
  | FSmsVal => sms_validator_post E SPValidate
  end.

Lemma route_fkind E k : fkind_of (e_cfg E) (e_req E) = Some k -> route_table E = Handler (fhandler E k).
Proof.
  unfold fkind_of, route_table, when, get_post, on_method.
  destruct (q_route (e_req E)) eqn:Hr; destruct (q_meth (e_req E)) eqn:Hm; cbn beta iota; cbn [meth_eqb];
    try discriminate;
    match goal with |- (if ?c then _ else _) = _ -> _ => destruct c end;
    intros CK; try discriminate CK; injection CK as <-; reflexivity.
Qed.

Lemma route_fother E T hd :
  fkind_of (e_cfg E) (e_req E) = None -> route_table E = Handler hd -> K (LT E T) hd (fun _ => True).
Proof.
  unfold fkind_of, route_table, when, get_post, on_method.
  destruct (q_route (e_req E)) eqn:Hr; destruct (q_meth (e_req E)) eqn:Hm; cbn beta iota; cbn [meth_eqb];
    intros CK;
    repeat match goal with |- (if ?c then _ else _) = Handler _ -> _ => destruct c end;
    intros RT; try discriminate RT; try discriminate CK; injection RT as <-;
    repeat first
      [ apply KT_verified | apply KT_behind | apply KT_app_stack
      | apply KT_login_get | apply KT_login_post | apply KT_otp_login_get | apply KT_otp_login_post
      | apply KT_otp_show | apply KT_otp_add_post | apply KT_otp_clear_post | apply KT_resp0
      | apply KT_confirm_get | apply KT_recover_start_post | apply KT_recover_end_get | apply KT_recover_end_post
      | apply KT_logout | apply KT_recovery_regen_get
      | apply KT_email_verify_get | apply KT_email_verify_post | apply KT_email_verify_end
      | apply KT_totp_setup_get | apply KT_totp_setup_post | apply KT_totp_confirm_get
      | apply KT_totp_qr | apply KT_sms_setup_get | apply KT_sms_setup_post
      | apply KT_oauth2_start ].
Qed.

Lemma serve_fother_tf E h r h' :
  fkind_of (e_cfg E) (e_req E) = None -> filed (h_st h) -> ctx_ok h -> serve E h = (r, h') ->
  tf_same (h_st h) (h_st h').
Proof.
  intros CK F Cx Eq.
  assert (HK : forall T, K (LT E T) (serve E) (fun _ => True)).
  { intros T. unfold serve. destruct (route_table E) as [hd| |] eqn:RT.
    - apply KT_with_error_handler. eapply route_fother; eassumption.
    - apply K_pres. pres_go.
    - apply K_pres. pres_go. }
  exact (proj2 (KT_closed E (serve E) _ h r h' HK F Cx Eq)).
Qed.

(* ---- the settings routes: behind RequireFullAuth, only the session user's record ---------------- *)
Section Owner.
Variable E : env.
Notation sess := (e_sess E).

Definition owner_outcome (h h' : hst) : Prop :=
  (forall p, p <> aget k_uid sess -> ulookup p (s_users (h_st h')) = ulookup p (s_users (h_st h))) /\
  (s_users (h_st h') <> s_users (h_st h) ->
     bempty (aget k_uid sess) = false /\ ahas k_halfauth sess = false /\
     exists u, ulookup (aget k_uid sess) (s_users (h_st h)) = Some u).

Lemma owner_same h h' : s_users (h_st h') = s_users (h_st h) -> owner_outcome h h'.
Proof. intros S. split; [intros p _; rewrite S; reflexivity|intros Ch; contradiction]. Qed.

Lemma behind_owner (m : M unit) h r h' :
  only_owner m -> keyed (h_st h) -> h_cuser h = None -> h_cpid h = None ->
  behind E true m h = (r, h') -> owner_outcome h h'.
Proof.
  intros Own Ky Hc Hp Eq. unfold behind in Eq.
  apply bind_inv in Eq as [(ok & h1 & E1 & E2)|[(e & E1 & ->)|(E1 & ->)]];
    pose proof (pres_st_auth_middleware E _ _ _ _ _ _ _ E1) as S1;
    try (apply owner_same; rewrite S1; reflexivity).
  destruct ok; [|inversion E2; subst; apply owner_same; rewrite S1; reflexivity].
  destruct (auth_middleware_admits E _ _ _ _ _ _ E1) as (R & _ & G & _).
  destruct (G Hc Hp) as (NE & u & Hu & Cu).
  pose proof (Ky _ _ Hu) as Pu.
  destruct (Own h1 u r h' Cu E2) as [_ Fr]. rewrite Pu, S1 in Fr. split; [exact Fr|].
  intros _. split; [exact NE|]. split; [|exists u; exact Hu].
  unfold reqs_ok in R. destruct (ahas k_halfauth sess); [cbn [andb negb] in R; discriminate R|reflexivity].
Qed.

Lemma only_owner_wrap k (m : M unit) :
  only_owner m -> only_owner (ok <- email_verify_wrap E k ;; if ok then m else ret tt).
Proof.
  intros Own h u r h' Hc Eq.
  assert (SAME : forall k1 : hst, uc k1 = uc h ->
            (exists cu', h_cuser k1 = Some cu' /\ u_pid cu' = u_pid u) /\
            forall p, p <> u_pid u -> ulookup p (s_users (h_st k1)) = ulookup p (s_users (h_st h))).
  { intros k1 U. unfold uc in U. inversion U as [[A1 A2]]. rewrite A1, A2. split; [exists u; auto|auto]. }
  apply bind_inv in Eq as [(ok & h1 & E1 & E2)|[(e & E1 & ->)|(E1 & ->)]];
    pose proof (pres_email_verify_wrap E k _ _ _ E1) as U1; try (apply SAME; exact U1).
  destruct ok; [|inversion E2; subst; apply SAME; exact U1].
  unfold uc in U1. inversion U1 as [[A1 A2]].
  rewrite <- A2 in Hc. destruct (Own h1 u r h' Hc E2) as [Cx Fr]. split; [exact Cx|].
  intros p N. rewrite (Fr p N), A1. reflexivity.
Qed.

Lemma verified_owner k (m : M unit) h r h' :
  only_owner m -> keyed (h_st h) -> h_cuser h = None -> h_cpid h = None ->
  verified E k m h = (r, h') -> owner_outcome h h'.
Proof. intros Own. unfold verified. apply behind_owner. apply only_owner_wrap. exact Own. Qed.
End Owner.

(* ---- one request at the level of [serve] -------------------------------------------------------- *)
Definition serve_tf_outcome (E : env) (h h' : hst) : Prop :=
  match fkind_of (e_cfg E) (e_req E) with
  | None => tf_same (h_st h) (h_st h')
  | Some FReg =>
      forall p, p <> aget (pid_field E) (values E) \/ ulookup p (s_users (h_st h)) <> None ->
                tf_of (h_st h') p = tf_of (h_st h) p
  | Some (FOAuth prov) =>
      forall p, p <> make_oauth2_pid prov (pa_uid (o_provider (e_O E))) \/ ulookup p (s_users (h_st h)) <> None ->
                tf_of (h_st h') p = tf_of (h_st h) p
  | Some FTotpVal => validate_outcome E k_totp_pending h h'
  | Some FSmsVal => validate_outcome E k_sms_pending h h'
  | Some _ => owner_outcome E h h'
  end.

Lemma validate_outcome_users E pk h h1 h' :
  s_users (h_st h') = s_users (h_st h1) -> filed (h_st h') -> validate_outcome E pk h h1 -> validate_outcome E pk h h'.
Proof.
  intros S F' (_ & [Sm|(B & u & Src & Bt)]); (split; [exact F'|]).
  - left. intros p. unfold tf_of. rewrite S. apply Sm.
  - right. split; [exact B|]. exists u. split; [exact Src|]. intros p N. unfold tf_of. rewrite S. apply Bt. exact N.
Qed.

Lemma owner_outcome_users E h h1 h' :
  s_users (h_st h') = s_users (h_st h1) -> owner_outcome E h h1 -> owner_outcome E h h'.
Proof. intros S [A B]. split; [intros p N; rewrite S; apply A; exact N|rewrite S; exact B]. Qed.

Lemma serve_tf E h r h' :
  filed (h_st h) -> h_cuser h = None -> h_cpid h = None -> serve E h = (r, h') ->
  filed (h_st h') -> serve_tf_outcome E h h'.
Proof.
  intros F Hc Hp Eq F'. pose proof (filed_keyed _ F) as Ky. pose proof (ctx_ok_none h Hc) as Cx.
  unfold serve_tf_outcome. destruct (fkind_of (e_cfg E) (e_req E)) as [k|] eqn:CK.
  2:{ exact (serve_fother_tf E h r h' CK F Cx Eq). }
  unfold serve in Eq. rewrite (route_fkind E k CK) in Eq.
  apply weh_users in Eq as (r1 & h1 & Eq & Us). unfold users in Us.
  destruct k; cbn [fhandler] in Eq.
  - destruct (register_post_2fa E h r1 h1 F Cx Eq) as (_ & _ & Fr).
    intros p Hp'. unfold tf_of at 1. rewrite Us. exact (Fr p Hp').
  - destruct (oauth2_end_2fa E prov h r1 h1 F Cx Eq) as (_ & _ & Fr).
    intros p Hp'. unfold tf_of at 1. rewrite Us. exact (Fr p Hp').
  - apply (owner_outcome_users E h h1 h' Us).
    exact (verified_owner E KTotp _ h r1 h1 (proj1 (settings_only_owner E)) Ky Hc Hp Eq).
  - apply (owner_outcome_users E h h1 h' Us).
    exact (behind_owner E _ h r1 h1 (proj1 (proj2 (settings_only_owner E))) Ky Hc Hp Eq).
  - apply (owner_outcome_users E h h1 h' Us).
    exact (verified_owner E KSms _ h r1 h1 (proj1 (proj2 (proj2 (settings_only_owner E)))) Ky Hc Hp Eq).
  - apply (owner_outcome_users E h h1 h' Us).
    exact (behind_owner E _ h r1 h1 (proj1 (proj2 (proj2 (proj2 (settings_only_owner E))))) Ky Hc Hp Eq).
  - apply (owner_outcome_users E h h1 h' Us).
    exact (behind_owner E _ h r1 h1 (proj2 (proj2 (proj2 (proj2 (settings_only_owner E))))) Ky Hc Hp Eq).
  - apply (validate_outcome_users E _ h h1 h' Us F'). exact (totp_validate_post_tf E h r1 h1 F Hc Eq).
  - apply (validate_outcome_users E _ h h1 h' Us F'). exact (sms_validate_post_tf E h r1 h1 F Hc Eq).
Qed.

(* ---- administrative actions --------------------------------------------------------------------- *)
Lemma KT_admin C cfg O a T :
  (match a with ALock _ | AUnlock _ | AUpdatePassword _ _ | AStartConfirm _ => True | _ => False end) ->
  K (LT (mkEnv C cfg O null_request [] []) T) (admin C cfg O a) (fun _ => True).
Proof.
  intros Ia. set (E0 := mkEnv C cfg O null_request [] []).
  assert (SV : forall u, goodT T u -> K (LT E0 T) (st_save O u) (fun _ => True)).
  { intros u G. exact (K_st_save (LT E0 T) u G). }
  assert (LD : forall p, K (LT E0 T) (st_load O p) (goodT T)).
  { intros p. exact (K_st_load E0 T p). }
  assert (EXT : forall u u', u_pid u' = u_pid u -> tf3 u' = tf3 u -> goodT T u -> goodT T u').
  { intros u u' A B G. exact (k_ext (LT E0 T) u u' A B G). }
  destruct a; try (exfalso; exact Ia); unfold admin; cbv zeta; fold E0.
  - eapply K_bind; [apply LD|intros u G]. apply SV. unfold lock_apply. apply (EXT u); [reflexivity|reflexivity|exact G].
  - eapply K_bind; [apply LD|intros u G]. apply SV. unfold lock_apply. apply (EXT u); [reflexivity|reflexivity|exact G].
  - eapply K_bind; [apply LD|intros u G].
    eapply K_bind; [k_go|intros _ _].
    eapply K_bind; [k_go|intros pass _].
    eapply K_bind; [apply SV; apply (EXT u); [reflexivity|reflexivity|exact G]|intros _ _]. k_go.
  - eapply K_bind; [apply LD|intros u G].
    eapply K_bind; [k_go|intros raw _].
    eapply K_bind; [k_go|intros _ _].
    eapply K_bind.
    { eapply K_try; [apply SV; apply (EXT u); [reflexivity|reflexivity|exact G]|intros; k_go|intros; k_go]. }
    intros _ _. unfold send_mail. k_go.
Qed.

Lemma fkind_of_inv cfg req k : fkind_of cfg req = Some k ->
  match k with
  | FReg => q_route req = RRegister /\ q_meth req = POST /\ has_mod cfg MRegister = true
  | FOAuth p => q_route req = ROAuthCallback p /\ q_meth req = GET /\
                has_mod cfg MOAuth2 = true /\ bmem p (c_providers cfg) = true
  | FTotpConfirm => q_route req = RTotpConfirm /\ q_meth req = POST /\ c_totp cfg = true
  | FTotpRemove => q_route req = RTotpRemove /\ q_meth req = POST /\ c_totp cfg = true
  | FSmsConfirm => q_route req = RSmsConfirm /\ q_meth req = POST /\ c_sms cfg = true
  | FSmsRemove => q_route req = RSmsRemove /\ q_meth req = POST /\ c_sms cfg = true
  | FRegen => q_route req = RRecoveryRegen /\ q_meth req = POST /\ c_recovery cfg = true
  | FTotpVal => q_route req = RTotpValidate /\ q_meth req = POST /\ c_totp cfg = true
  | FSmsVal => q_route req = RSmsValidate /\ q_meth req = POST /\ c_sms cfg = true
  end.
Proof.
  unfold fkind_of. destruct (q_route req) eqn:Hr; destruct (q_meth req) eqn:Hm; try discriminate;
    match goal with |- (if ?c then _ else _) = _ -> _ => destruct c eqn:Hc end;
    intros H; try discriminate H; injection H as <-; cbn beta iota;
    try (apply andb_true_iff in Hc as [Hc1 Hc2]); auto.
Qed.

(* ---- [step] -------------------------------------------------------------------------------------- *)
(* POST to one of the five settings routes, module set up *)
Definition settings_route (cfg : config) (req : request) : Prop :=
  q_meth req = POST /\
  ((q_route req = RTotpConfirm /\ c_totp cfg = true) \/ (q_route req = RTotpRemove /\ c_totp cfg = true) \/
   (q_route req = RSmsConfirm /\ c_sms cfg = true) \/ (q_route req = RSmsRemove /\ c_sms cfg = true) \/
   (q_route req = RRecoveryRegen /\ c_recovery cfg = true)).

(* POST to one of the two validation pages; pk is the page's pending key *)
Definition validate_route (cfg : config) (req : request) (pk : bytes) : Prop :=
  q_meth req = POST /\
  ((q_route req = RTotpValidate /\ c_totp cfg = true /\ pk = k_totp_pending) \/
   (q_route req = RSmsValidate /\ c_sms cfg = true /\ pk = k_sms_pending)).

(* the step (a, O) taken from w can have changed the (totp, sms, recovery) triple stored for P *)
Definition tf_touch (C : crypto) (cfg : config) (w : world) (a : action) (O : oracle) (P : bytes) : Prop :=
  (exists req, a = AReq req /\ settings_route cfg req /\
     let j := jar_get (q_browser req) (w_sess w) in
     alookup k_uid j = Some P /\ bempty P = false /\ ahas k_halfauth j = false /\
     ulookup P (s_users (w_st w)) <> None) \/
  (exists req pk, a = AReq req /\ validate_route cfg req pk /\
     let j := jar_get (q_browser req) (w_sess w) in
     bempty (aget f_recovery_code (values (ENV C cfg w O req))) = false /\
     bempty P = false /\ (aget k_uid j = P \/ aget pk j = P) /\
     ulookup P (s_users (w_st w)) <> None) \/
  (exists req, a = AReq req /\ q_route req = RRegister /\ q_meth req = POST /\ has_mod cfg MRegister = true /\
     P = aget (pid_field (ENV C cfg w O req)) (values (ENV C cfg w O req)) /\
     ulookup P (s_users (w_st w)) = None) \/
  (exists req prov, a = AReq req /\ q_route req = ROAuthCallback prov /\ q_meth req = GET /\
     has_mod cfg MOAuth2 = true /\ bmem prov (c_providers cfg) = true /\
     P = make_oauth2_pid prov (pa_uid (o_provider O)) /\ ulookup P (s_users (w_st w)) = None) \/
  (exists u rm, a = ASeed u rm /\ u_pid u = P).

Lemma aget_nonempty_lookup k j : bempty (aget k j) = false -> alookup k j = Some (aget k j).
Proof. unfold aget. destruct (alookup k j); [reflexivity|intros D; discriminate D]. Qed.

Lemma tf_changed_users st st' P : tf_of st' P <> tf_of st P -> s_users st' <> s_users st.
Proof. intros N S. apply N. unfold tf_of. rewrite S. reflexivity. Qed.

Lemma step_tf_touch C cfg w a O P :
  filed (w_st w) ->
  tf_of (w_st (fst (step C cfg w a O))) P <> tf_of (w_st w) P -> tf_touch C cfg w a O P.
Proof.
  intros F Ch. pose proof (step_filed_lemma C cfg w a O F) as F'. pose proof (filed_keyed _ F) as Ky.
  destruct a as [req|pid|pid|pid pw|pid|su rm|b k v|ck b j].
  - rewrite step_req_st in Ch, F'.
    set (E := ENV C cfg w O req) in *.
    destruct (serve E (init_hst (w_st w) O)) as [r h'] eqn:Eq. cbn [snd] in Ch, F'.
    pose proof (serve_tf E (init_hst (w_st w) O) r h' F eq_refl eq_refl Eq F') as Out.
    unfold serve_tf_outcome in Out. cbn [e_cfg e_req E] in Out.
    destruct (fkind_of cfg req) as [k|] eqn:CK; [|exfalso; apply Ch; apply Out].
    pose proof (fkind_of_inv cfg req k CK) as Inv. cbn [h_st init_hst] in Out.
    assert (OWN : owner_outcome E (init_hst (w_st w) O) h' -> settings_route cfg req ->
                  tf_touch C cfg w (AReq req) O P).
    { intros [A B] SR. left. exists req. split; [reflexivity|]. split; [exact SR|]. cbv zeta.
      cbn [h_st init_hst e_sess E] in A, B.
      destruct (bytes_dec P (aget k_uid (jar_get (q_browser req) (w_sess w)))) as [EP|NP].
      2:{ exfalso. apply Ch. unfold tf_of. rewrite (A P NP). reflexivity. }
      destruct (B (tf_changed_users _ _ _ Ch)) as (NE & NH & u & Hu).
      rewrite EP. split; [apply aget_nonempty_lookup; exact NE|]. split; [exact NE|]. split; [exact NH|].
      rewrite Hu. discriminate. }
    assert (VAL : forall pk, validate_outcome E pk (init_hst (w_st w) O) h' -> validate_route cfg req pk ->
                  tf_touch C cfg w (AReq req) O P).
    { intros pk (_ & [Sm|(B & u & Src & Bt)]) VR; [exfalso; apply Ch; apply Sm|].
      right; left. exists req, pk. split; [reflexivity|]. split; [exact VR|]. cbv zeta.
      split; [exact B|].
      destruct (bytes_dec P (u_pid u)) as [EP|NP]; [|exfalso; apply Ch; apply Bt; exact NP].
      apply (user_source2_pending E pk (init_hst (w_st w) O) u Ky eq_refl eq_refl) in Src.
      cbn [h_st init_hst e_sess E] in Src. rewrite EP.
      destruct Src as [(NE & Pk & L)|(NE & Pk & L)]; rewrite Pk.
      - split; [exact NE|]. split; [left; reflexivity|]. rewrite L. discriminate.
      - split; [exact NE|]. split; [right; reflexivity|]. rewrite L. discriminate. }
    destruct k.
    + destruct Inv as (R & M & HM). right; right; left. exists req. do 4 (split; [assumption || reflexivity|]).
      destruct (bytes_dec P (aget (pid_field E) (values E))) as [EP|NP];
        [|exfalso; apply Ch; apply Out; left; exact NP].
      split; [exact EP|].
      destruct (ulookup P (s_users (w_st w))) eqn:L; [|reflexivity].
      exfalso. apply Ch. apply Out. right. rewrite L. discriminate.
    + destruct Inv as (R & M & HM & HP). right; right; right; left. exists req, prov.
      do 5 (split; [assumption || reflexivity|]). cbn [e_O E] in Out.
      destruct (bytes_dec P (make_oauth2_pid prov (pa_uid (o_provider O)))) as [EP|NP];
        [|exfalso; apply Ch; apply Out; left; exact NP].
      split; [exact EP|].
      destruct (ulookup P (s_users (w_st w))) eqn:L; [|reflexivity].
      exfalso. apply Ch. apply Out. right. rewrite L. discriminate.
    + apply (OWN Out). destruct Inv as (R & M & HM). split; [exact M|]. auto.
    + apply (OWN Out). destruct Inv as (R & M & HM). split; [exact M|]. auto.
    + apply (OWN Out). destruct Inv as (R & M & HM). split; [exact M|]. auto 6.
    + apply (OWN Out). destruct Inv as (R & M & HM). split; [exact M|]. auto 6.
    + apply (OWN Out). destruct Inv as (R & M & HM). split; [exact M|]. auto 8.
    + apply (VAL _ Out). destruct Inv as (R & M & HM). split; [exact M|]. left. auto.
    + apply (VAL _ Out). destruct Inv as (R & M & HM). split; [exact M|]. right. auto.
  - exfalso. apply Ch. rewrite (step_admin_st C cfg w (ALock pid) O I).
    destruct (admin C cfg O (ALock pid) (init_hst (w_st w) O)) as [r h'] eqn:Eq. cbn [snd].
    exact (proj2 (KT_closed _ _ _ (init_hst (w_st w) O) r h' (fun T => KT_admin C cfg O (ALock pid) T I) F (ctx_ok_none (init_hst (w_st w) O) eq_refl) Eq) P).
  - exfalso. apply Ch. rewrite (step_admin_st C cfg w (AUnlock pid) O I).
    destruct (admin C cfg O (AUnlock pid) (init_hst (w_st w) O)) as [r h'] eqn:Eq. cbn [snd].
    exact (proj2 (KT_closed _ _ _ (init_hst (w_st w) O) r h' (fun T => KT_admin C cfg O (AUnlock pid) T I) F (ctx_ok_none (init_hst (w_st w) O) eq_refl) Eq) P).
  - exfalso. apply Ch. rewrite (step_admin_st C cfg w (AUpdatePassword pid pw) O I).
    destruct (admin C cfg O (AUpdatePassword pid pw) (init_hst (w_st w) O)) as [r h'] eqn:Eq. cbn [snd].
    exact (proj2 (KT_closed _ _ _ (init_hst (w_st w) O) r h' (fun T => KT_admin C cfg O (AUpdatePassword pid pw) T I) F (ctx_ok_none (init_hst (w_st w) O) eq_refl) Eq) P).
  - exfalso. apply Ch. rewrite (step_admin_st C cfg w (AStartConfirm pid) O I).
    destruct (admin C cfg O (AStartConfirm pid) (init_hst (w_st w) O)) as [r h'] eqn:Eq. cbn [snd].
    exact (proj2 (KT_closed _ _ _ (init_hst (w_st w) O) r h' (fun T => KT_admin C cfg O (AStartConfirm pid) T I) F (ctx_ok_none (init_hst (w_st w) O) eq_refl) Eq) P).
  - do 4 right. exists su, rm. split; [reflexivity|].
    destruct (bytes_dec P (u_pid su)) as [EP|NP]; [symmetry; exact EP|].
    exfalso. apply Ch. rewrite (step_admin_st C cfg w (ASeed su rm) O I).
    cbn [admin modify snd h_st init_hst set s_users]. unfold tf_of. cbn [s_users].
    rewrite ulookup_uput_neq by exact NP. reflexivity.
  - exfalso. apply Ch. rewrite (step_jar_st C cfg w (APlant b k v) O I). reflexivity.
  - exfalso. apply Ch. rewrite (step_jar_st C cfg w (ASetJar ck b j) O I). reflexivity.
Qed.

(* ---- histories ------------------------------------------------------------------------------------ *)
Lemma option_tf_dec (x y : option (bytes * bytes * bytes)) : {x = y} + {x <> y}.
Proof. decide equality. decide equality; [apply bytes_dec|]. decide equality; apply bytes_dec. Qed.
Lemma c13_history_lemma C cfg : forall l w0 w' os P,
  filed (w_st w0) -> run C cfg w0 l = (w', os) ->
  tf_of (w_st w') P <> tf_of (w_st w0) P ->
  exists l1 a O l2 w1, l = l1 ++ (a, O) :: l2 /\ fst (run C cfg w0 l1) = w1 /\
    tf_of (w_st (fst (step C cfg w1 a O))) P <> tf_of (w_st w1) P /\
    tf_touch C cfg w1 a O P.
Proof.
  induction l as [|[a O] l IH] using rev_ind; intros w0 w' os P F Rn Ch.
  - inversion Rn; subst. exfalso. apply Ch. reflexivity.
  - assert (Ew : w' = fst (step C cfg (fst (run C cfg w0 l)) a O)).
    { pose proof (run_app_fst C cfg l [(a, O)] w0) as Ap. rewrite Rn in Ap. cbn [fst] in Ap. rewrite Ap.
      cbn [run]. destruct (step C cfg (fst (run C cfg w0 l)) a O) as [w2 o2]. reflexivity. }
    set (w1 := fst (run C cfg w0 l)) in *.
    destruct (option_tf_dec (tf_of (w_st w1) P) (tf_of (w_st w0) P)) as [Same|Diff].
    + exists l, a, O, [], w1. split; [reflexivity|]. split; [reflexivity|].
      assert (Ch1 : tf_of (w_st (fst (step C cfg w1 a O))) P <> tf_of (w_st w1) P) by (rewrite <- Ew, Same; exact Ch).
      split; [exact Ch1|]. apply step_tf_touch; [|exact Ch1]. apply run_filed_lemma. exact F.
    + destruct (IH w0 w1 (snd (run C cfg w0 l)) P F (surjective_pairing _) Diff)
        as (l1 & a1 & O1 & l2 & w2 & E & W2 & Ch2 & Tt).
      exists l1, a1, O1, (l2 ++ [(a, O)]), w2. split; [rewrite E, <- app_assoc; reflexivity|]. auto.
Qed.

(* C13, non-vacuity of the validation-page alternative (executable crypto instance, computed): the
   account has a TOTP secret and one recovery code; the password parks the login, the recovery code at
   /2fa/totp/validate completes it - and the stored recovery list is now empty: the triple changed at
   a request of a browser whose session named nobody and whose pending marker was the account *)
Definition h3c_user : user :=
  blank_user <| u_pid := h3_pid |> <| u_email := h3_pid |> <| u_password := exec_pwhash (bs "password1") |>
             <| u_confirmed := true |> <| u_totp := bs "SECRET" |>
             <| u_recovery := encode_codes [pwhash XC (bs "aaaaa-bbbbb")] |>.
Definition h3c_validate : request :=
  mkRequest (bs "b1") POST RTotpValidate (bs "/2fa/totp/validate") [] [] [(f_recovery_code, bs "aaaaa-bbbbb")] false.
Definition h3c_start : world := fst (step XC h3t_cfg empty_world (ASeed h3c_user []) h3t_oracle).
Definition h3c_history : list (action * oracle) := [(AReq h3t_login, h3t_oracle); (AReq h3c_validate, h3t_oracle)].

Lemma h3c_witness :
  filed (w_st h3c_start) /\
  tf_of (w_st (fst (run XC h3t_cfg h3c_start h3c_history))) h3_pid <> tf_of (w_st h3c_start) h3_pid /\
  alookup k_uid (jar_get (bs "b1") (w_sess (fst (run XC h3t_cfg h3c_start [(AReq h3t_login, h3t_oracle)])))) = None /\
  alookup k_totp_pending (jar_get (bs "b1") (w_sess (fst (run XC h3t_cfg h3c_start [(AReq h3t_login, h3t_oracle)])))) = Some h3_pid.
Proof.
  split; [apply step_filed_lemma; exact filed_empty|].
  split; [vm_compute; intros D; discriminate D|]. split; vm_compute; reflexivity.
Qed.
