(* History-level statements for C02, C03 and C13, obtained by instantiating the provenance theorem
   of C01 (Proofs/HistoryProofs.v: history_provenance_lemma) with step-level lifts of the
   handler-level theorems of C02 (Hijack.v, NoLogin2.v), C03 (NoLogin.v, NoLogin2.v) and C13
   (TwoFactorProofs.v, TwoFactor2.v). *)
From AB Require Import World.Step World.Exec Proofs.EvLogic Proofs.Neutral Proofs.HandlerEvents Proofs.ServeEvents
  Proofs.StepUid Proofs.MonadInv Proofs.Guards Proofs.StoreLogic Proofs.Guards2 Proofs.Guards3 Proofs.StepGuard
  Proofs.StepAll Proofs.StepLift2 Proofs.Veto Proofs.NoLogin Proofs.Hijack Proofs.NoLogin2
  Proofs.TwoFactorProofs Proofs.TwoFactor2 Proofs.LockWorld2 Proofs.HistoryProofs.
Open Scope Z_scope.


Notation ENV C cfg w O req :=
  (mkEnv C cfg O req (jar_get (q_browser req) (w_cook w)) (jar_get (q_browser req) (w_sess w))).

Ltac route_is R M :=
  unfold route_table; cbn [e_req e_cfg]; rewrite R, M; unfold when, get_post, on_method; cbn [e_req e_cfg];
  rewrite ?M; cbn [meth_eqb].
Ltac no_drop R := unfold may_drop; rewrite R; reflexivity.

(* ================================================================================================ *)
(* 0. lifting "the handler appends only uid-neutral events" to [step]                               *)
(* ================================================================================================ *)
Lemma guarded_of_neutral_from {A} (m : M A) h : neutral_from m h -> guarded (fun _ => False) m h.
Proof.
  intros Hn r h' Eq. destruct (Hn _ _ Eq) as (ls & lc & S & Cc & F). exists ls, lc. repeat split; auto.
  eapply Forall_impl; [|exact F]. intros e He. left. exact He.
Qed.

(* a request whose route reaches the handler [hd], when [hd] only appends uid-neutral session
   events from the state the request starts in, cannot make the browser's session name anybody new *)
Lemma step_route_neutral C cfg (hd : M unit) w req O U :
  route_table (ENV C cfg w O req) = Handler hd -> may_drop req = false ->
  neutral_from hd (init_hst (w_st w) O) ->
  alookup k_uid (jar_get (q_browser req) (w_sess (fst (step C cfg w (AReq req) O)))) = Some U ->
  alookup k_uid (jar_get (q_browser req) (w_sess w)) <> Some U -> False.
Proof.
  intros RT MD Hn H1 H0.
  exact (step_route_guard C cfg (fun _ => False) hd w req O U RT MD (guarded_of_neutral_from hd _ Hn) H1 H0).
Qed.

(* ================================================================================================ *)
(* 1. C02: no session on password knowledge alone                                                   *)
(* ================================================================================================ *)

(* the account has a second factor enrolled whose module is set up: the hypothesis
   [has_totp E u \/ has_sms E u] of the C02 handler theorems, read off the configuration *)
Definition enrolled (cfg : config) (u : user) : Prop :=
  (c_totp cfg = true /\ bempty (u_totp u) = false) \/ (c_sms cfg = true /\ bempty (u_sms u) = false).

Lemma enrolled_reading C cfg O req ck ss u :
  enrolled cfg u <-> (has_totp (mkEnv C cfg O req ck ss) u \/ has_sms (mkEnv C cfg O req ck ss) u).
Proof. reflexivity. Qed.

(* the record stored for U, if any, has no enrolled factor *)
Definition no_factor (cfg : config) (st : storage) (U : bytes) : Prop :=
  forall u, ulookup U (s_users st) = Some u -> ~ enrolled cfg u.

(* the credential routes that go beyond knowledge of a password / one-time password / mailed token:
   the OAuth2 callback, the two second-factor validation pages, the remember cookie - each with the
   guard of c01_session_only_against_credential *)
Definition beyond_password (C : crypto) (cfg : config) (w : world) (O : oracle) (req : request) (U : bytes) : Prop :=
  let E := ENV C cfg w O req in
  (exists prov, q_route req = ROAuthCallback prov /\ q_meth req = GET /\ has_mod cfg MOAuth2 = true /\
                bmem prov (c_providers cfg) = true /\ g_oauth2 E prov (w_st w) U) \/
  (q_route req = RTotpValidate /\ q_meth req = POST /\ c_totp cfg = true /\ g_totp E (init_hst (w_st w) O) U) \/
  (q_route req = RSmsValidate /\ q_meth req = POST /\ c_sms cfg = true /\ g_sms E (init_hst (w_st w) O) U) \/
  (exists full tf fr l c e, q_route req = RApp full tf fr l c true e /\ g_remember E (w_st w) U).

Lemma beyond_password_shown C cfg w O req U : beyond_password C cfg w O req U -> credential_shown C cfg w O req U.
Proof. unfold beyond_password, credential_shown. cbv zeta. tauto. Qed.

(* ---- the three password-class routes at step level --------------------------------------------- *)
Lemma step_login_parks C cfg w req O U u :
  q_route req = RLogin -> q_meth req = POST -> has_mod cfg MAuth = true ->
  ulookup (aget (pid_field (ENV C cfg w O req)) (values (ENV C cfg w O req))) (s_users (w_st w)) = Some u ->
  enrolled cfg u ->
  alookup k_uid (jar_get (q_browser req) (w_sess (fst (step C cfg w (AReq req) O)))) = Some U ->
  alookup k_uid (jar_get (q_browser req) (w_sess w)) <> Some U -> False.
Proof.
  intros R M HM Hu En H1 H0.
  eapply (step_route_neutral C cfg _ w req O U); [|no_drop R| |exact H1|exact H0].
  - route_is R M. rewrite HM. reflexivity.
  - exact (login_post_2fa_parks_lemma (ENV C cfg w O req) (init_hst (w_st w) O) u Hu En).
Qed.

Lemma step_otp_parks C cfg w req O U u :
  q_route req = ROtpLogin -> q_meth req = POST -> has_mod cfg MOtp = true ->
  ulookup (aget (pid_field (ENV C cfg w O req)) (values (ENV C cfg w O req))) (s_users (w_st w)) = Some u ->
  enrolled cfg u ->
  alookup k_uid (jar_get (q_browser req) (w_sess (fst (step C cfg w (AReq req) O)))) = Some U ->
  alookup k_uid (jar_get (q_browser req) (w_sess w)) <> Some U -> False.
Proof.
  intros R M HM Hu En H1 H0.
  eapply (step_route_neutral C cfg _ w req O U); [|no_drop R| |exact H1|exact H0].
  - route_is R M. rewrite HM. reflexivity.
  - exact (otp_login_post_2fa_parks_lemma (ENV C cfg w O req) (init_hst (w_st w) O) u Hu En).
Qed.

Lemma step_recover_parks C cfg w req O U raw u :
  q_route req = RRecoverEnd -> q_meth req = POST -> has_mod cfg MRecover = true ->
  b64url_dec (aget f_token (values (ENV C cfg w O req))) = Some raw ->
  ufind (fun u => beqb (u_rsel u) (selector_of (ENV C cfg w O req) raw)) (s_users (w_st w)) = Some u ->
  enrolled cfg u ->
  alookup k_uid (jar_get (q_browser req) (w_sess (fst (step C cfg w (AReq req) O)))) = Some U ->
  alookup k_uid (jar_get (q_browser req) (w_sess w)) <> Some U -> False.
Proof.
  intros R M HM Dc Hu En H1 H0.
  eapply (step_route_neutral C cfg _ w req O U); [|no_drop R| |exact H1|exact H0].
  - route_is R M. rewrite HM. reflexivity.
  - exact (recover_end_post_2fa_parks_lemma (ENV C cfg w O req) (init_hst (w_st w) O) raw u Dc Hu En).
Qed.

(* one step: a request that newly puts U into the browser's session either found no enrolled factor
   on U's stored record (password, one-time password, recovery token: the record is there;
   registration: there is no record yet), or went through one of the routes beyond a password *)
Lemma step_no_password_only C cfg w req O U :
  filed (w_st w) ->
  alookup k_uid (jar_get (q_browser req) (w_sess (fst (step C cfg w (AReq req) O)))) = Some U ->
  alookup k_uid (jar_get (q_browser req) (w_sess w)) <> Some U ->
  credential_shown C cfg w O req U ->
  no_factor cfg (w_st w) U \/ beyond_password C cfg w O req U.
Proof.
  intros Fl H1 H0 Cs. unfold credential_shown in Cs. cbv zeta in Cs.
  destruct Cs as [(R & M & HM & G)|[(R & M & HM & G)|[(R & M & HM & G)|[(R & M & HM & G)|Rest]]]].
  - left. destruct G as (EU & u & Hu & _). intros u' Hu' En.
    rewrite EU in Hu'. exact (step_login_parks C cfg w req O U u' R M HM Hu' En H1 H0).
  - left. destruct G as (EU & u & i & Hu & _). intros u' Hu' En.
    rewrite EU in Hu'. exact (step_otp_parks C cfg w req O U u' R M HM Hu' En H1 H0).
  - left. destruct G as (EU & Hn & _). intros u' Hu'. rewrite Hu' in Hn. discriminate Hn.
  - left. destruct G as (_ & raw & u & Dc & _ & Hf & _ & _ & EU). intros u' Hu' En.
    pose proof (filedl_found _ _ _ Fl Hf) as Hs. rewrite <- EU, Hu' in Hs. inversion Hs; subst u'.
    exact (step_recover_parks C cfg w req O U raw u R M HM Dc Hf En H1 H0).
  - right. unfold beyond_password. cbv zeta. exact Rest.
Qed.

(* the conclusion about the issuing step *)
Definition c02_issuing_step (C : crypto) (cfg : config) (w : world) (a : action) (O : oracle) (b U : bytes) : Prop :=
  no_factor cfg (w_st w) U \/
  (exists req, a = AReq req /\ q_browser req = b /\ beyond_password C cfg w O req U) \/
  a = APlant b k_uid U \/
  (exists j, a = ASetJar false b j /\ alookup k_uid j = Some U).

Lemma step_c02_issuing C cfg w a O b U :
  filed (w_st w) ->
  alookup k_uid (jar_get b (w_sess (fst (step C cfg w a O)))) = Some U ->
  alookup k_uid (jar_get b (w_sess w)) <> Some U ->
  issued_at C cfg w a O b U -> c02_issuing_step C cfg w a O b U.
Proof.
  intros Fl H1 H0 [(req & -> & <- & Cs)|Hr].
  - destruct (step_no_password_only C cfg w req O U Fl H1 H0 Cs) as [L|B]; [left; exact L|].
    right; left. exists req. auto.
  - right; right. exact Hr.
Qed.

Lemma c02_history_lemma C cfg w0 l w' os b U :
  filed (w_st w0) ->
  run C cfg w0 l = (w', os) ->
  alookup k_uid (jar_get b (w_sess w')) = Some U ->
  alookup k_uid (jar_get b (w_sess w0)) <> Some U ->
  exists l1 a O l2 w1, l = l1 ++ (a, O) :: l2 /\ fst (run C cfg w0 l1) = w1 /\
    alookup k_uid (jar_get b (w_sess w1)) <> Some U /\
    alookup k_uid (jar_get b (w_sess (fst (step C cfg w1 a O)))) = Some U /\
    issued_at C cfg w1 a O b U /\
    (forall l2a l2b, l2 = l2a ++ l2b ->
       alookup k_uid (jar_get b (w_sess (fst (run C cfg w0 (l1 ++ (a, O) :: l2a))))) = Some U) /\
    c02_issuing_step C cfg w1 a O b U.
Proof.
  intros Fl Rn H N0.
  destruct (history_provenance_lemma C cfg w0 l w' os b U Rn H)
    as [[A _]|(l1 & a & O & l2 & w1 & E & W1 & N1 & Y1 & Is & K)]; [contradiction|].
  exists l1, a, O, l2, w1. do 6 (split; [assumption|]).
  apply step_c02_issuing; try assumption.
  rewrite <- W1. apply run_filed_lemma. exact Fl.
Qed.

Lemma filed_empty : filed (w_st empty_world).
Proof. split; [constructor|intros k u []]. Qed.

(* from the empty world with library actions only: no harness disjuncts, no hypothesis on storage *)
Lemma c02_history_from_empty_lemma C cfg l w' os b U :
  run C cfg empty_world l = (w', os) -> library_history l ->
  alookup k_uid (jar_get b (w_sess w')) = Some U ->
  exists l1 req O l2 w1, l = l1 ++ (AReq req, O) :: l2 /\ fst (run C cfg empty_world l1) = w1 /\
    q_browser req = b /\ credential_shown C cfg w1 O req U /\
    alookup k_uid (jar_get b (w_sess w1)) <> Some U /\
    alookup k_uid (jar_get b (w_sess (fst (step C cfg w1 (AReq req) O)))) = Some U /\
    (forall l2a l2b, l2 = l2a ++ l2b ->
      alookup k_uid (jar_get b (w_sess (fst (run C cfg empty_world (l1 ++ (AReq req, O) :: l2a))))) = Some U) /\
    (no_factor cfg (w_st w1) U \/ beyond_password C cfg w1 O req U).
Proof.
  intros Rn Lib H.
  destruct (history_from_empty_lemma C cfg l w' os b U Rn Lib H)
    as (l1 & req & O & l2 & w1 & E & W1 & Bq & Cs & N1 & Y1 & K).
  exists l1, req, O, l2, w1. do 7 (split; [assumption|]).
  subst b. apply step_no_password_only; try assumption.
  rewrite <- W1. apply run_filed_lemma. exact filed_empty.
Qed.

(* ================================================================================================ *)
(* 2. C03: no session for a locked or unconfirmed account                                           *)
(* ================================================================================================ *)

(* ---- handler level: the two validation pages with a guard that includes the two vetoes ---------- *)
(* Props/C03b.v (c03_totp_validate_refused, c03_sms_validate_refused) speaks about a browser whose
   session carries no uid at all.  The guard below covers every session: whoever the page finds
   (the session's user, else the account parked under the pending key), the identity is written
   only if the BeforeAuth question is not refused for him. *)
Section C03G.
Variable E : env.
Notation vals := (values E).
Notation sess := (e_sess E).
Notation now := (o_now (e_O E)).

(* neither veto applies: the negation of [must_refuse] *)
Definition gate_open (u : user) : Prop :=
  (has_mod (e_cfg E) MLock = true -> u_locked u <= now) /\
  (has_mod (e_cfg E) MConfirm = true -> u_confirmed u = true).

Lemma gate_dec u : {must_refuse E u} + {gate_open u}.
Proof.
  unfold must_refuse, gate_open.
  destruct (has_mod (e_cfg E) MLock) eqn:HL; destruct (has_mod (e_cfg E) MConfirm) eqn:HC;
    destruct (Z_lt_dec now (u_locked u)) as [L|L]; destruct (u_confirmed u) eqn:Cf;
    try (left; left; split; [reflexivity|exact L]; fail);
    try (left; right; split; reflexivity; fail);
    right; split; intros Hx; try discriminate Hx; try reflexivity; lia.
Qed.

Lemma gate_open_not_refused u : gate_open u -> ~ must_refuse E u.
Proof. intros [A B] [[M L]|[M U]]; [specialize (A M); lia|rewrite (B M) in U; discriminate U]. Qed.

Lemma gate_open_same u u' : same_gate u u' -> gate_open u' -> gate_open u.
Proof. intros [A B] [G1 G2]. split; intros Hm; [rewrite <- A|rewrite <- B]; auto. Qed.

Definition g_gate (pk : bytes) (h : hst) (U : bytes) : Prop :=
  exists u, user_source2 E pk h u /\ u_pid u = U /\ gate_open u.

Lemma guarded_neutral_from G {A} (m : M A) h : neutral_from m h -> guarded G m h.
Proof.
  intros Hn r h' Eq. destruct (Hn _ _ Eq) as (ls & lc & S & Cc & F). exists ls, lc. repeat split; auto.
  eapply Forall_impl; [|exact F]. intros e He. left. exact He.
Qed.

Ltac rpost_go := repeat (unfold store_back; cbn beta iota zeta; rpost_step).

(* what TOTP validation hands back: the user it found, up to the recovery codes and the last code *)
Lemma totp_validate_gate h u' sh st h1 :
  totp_validate E h = (Ok (u', sh, st), h1) ->
  exists u, user_source2 E k_totp_pending h u /\ u_pid u' = u_pid u /\ same_gate u u'.
Proof.
  unfold totp_validate. intros Eq.
  apply bind_ok_inv in Eq as ([u sh0] & h0 & Fe & Eq).
  apply fetch_user_spec2 in Fe as (_ & Src). cbn beta iota in Eq.
  exists u. split; [exact Src|].
  match type of Eq with ?m _ = _ =>
    assert (RP : rpost (fun x => u_pid (fst (fst x)) = u_pid u /\ same_gate u (fst (fst x))) m) end.
  { rpost_go; simpl; repeat split; reflexivity. }
  exact (RP _ _ _ Eq).
Qed.

Lemma totp_validate_post_gate h : guarded (g_gate k_totp_pending h) (totp_validate_post E) h.
Proof.
  unfold totp_validate_post.
  apply guarded_bind; [apply guarded_of_neutral, neutral_totp_validate|intros [[u sh] st] h1 H1].
  destruct st as [[| |]|]; try (neutral_tail; fail).
  apply totp_validate_gate in H1 as (u0 & Src & Pd & SG).
  destruct (gate_dec u) as [MR|GO].
  - apply guarded_bind; [neutral_tail|intros a2 h2 _].
    apply guarded_neutral_from. apply set_cuser_refused. exact MR.
  - assert (G : g_gate k_totp_pending h (u_pid u)).
    { exists u0. split; [exact Src|]. split; [symmetry; exact Pd|]. exact (gate_open_same _ _ SG GO). }
    apply guarded_of_evs. ggo.
Qed.

Lemma sms_validate_code_gate h0 u sh input rc h :
  user_source2 E k_sms_pending h0 u ->
  guarded (g_gate k_sms_pending h0) (sms_validate_code E SPValidate u sh input rc) h.
Proof.
  intros Src. unfold sms_validate_code.
  apply guarded_bind; [neutral_tail|intros [verified u'] h1 E1].
  assert (SG : u_pid u' = u_pid u /\ same_gate u u').
  { revert E1.
    match goal with |- ?m h = _ -> _ =>
      assert (RP : rpost (fun x => u_pid (snd x) = u_pid u /\ same_gate u (snd x)) m) end.
    { rpost_go; simpl; repeat split; reflexivity. }
    intros E1. exact (RP _ _ _ E1). }
  destruct SG as [Pd SG]. cbn beta iota.
  destruct verified; cbn [negb]; [|neutral_tail].
  destruct (gate_dec u') as [MR|GO].
  - apply guarded_neutral_from. apply set_cuser_refused. exact MR.
  - assert (G : g_gate k_sms_pending h0 (u_pid u')).
    { exists u. split; [exact Src|]. split; [symmetry; exact Pd|]. exact (gate_open_same _ _ SG GO). }
    apply guarded_of_evs. ggo.
Qed.

Lemma sms_validator_post_gate h : guarded (g_gate k_sms_pending h) (sms_validator_post E SPValidate) h.
Proof.
  unfold sms_validator_post.
  apply guarded_bind; [neutral_tail|intros [u sh] h1 H1].
  apply fetch_user_spec2 in H1 as (_ & Src). cbn beta iota.
  apply guarded_bind; [neutral_tail|intros v h2 _]. cbn beta zeta.
  destruct (bempty (aget f_recovery_code v) && bempty (aget f_code v)).
  { apply guarded_of_neutral. apply neutral_sms_send_code. }
  destruct (negb (bempty (aget f_recovery_code v))); apply sms_validate_code_gate; exact Src.
Qed.
End C03G.

(* ---- step level ---------------------------------------------------------------------------------- *)
(* neither veto applies to the record stored for U (if there is one) at time [now] *)
Definition gate_passed (cfg : config) (now : Z) (st : storage) (U : bytes) : Prop :=
  forall u, ulookup U (s_users st) = Some u ->
    (has_mod cfg MLock = true -> u_locked u <= now) /\ (has_mod cfg MConfirm = true -> u_confirmed u = true).

Lemma gate_passed_of_not_refused C cfg O req ck ss st U :
  (forall u, ulookup U (s_users st) = Some u -> ~ must_refuse (mkEnv C cfg O req ck ss) u) ->
  gate_passed cfg (o_now O) st U.
Proof.
  intros H u Hu. destruct (gate_dec (mkEnv C cfg O req ck ss) u) as [MR|GO]; [destruct (H u Hu MR)|exact GO].
Qed.

Lemma step_login_refused C cfg w req O U u :
  q_route req = RLogin -> q_meth req = POST -> has_mod cfg MAuth = true ->
  ulookup (aget (pid_field (ENV C cfg w O req)) (values (ENV C cfg w O req))) (s_users (w_st w)) = Some u ->
  must_refuse (ENV C cfg w O req) u ->
  alookup k_uid (jar_get (q_browser req) (w_sess (fst (step C cfg w (AReq req) O)))) = Some U ->
  alookup k_uid (jar_get (q_browser req) (w_sess w)) <> Some U -> False.
Proof.
  intros R M HM Hu MR H1 H0.
  eapply (step_route_neutral C cfg _ w req O U); [|no_drop R| |exact H1|exact H0].
  - route_is R M. rewrite HM. reflexivity.
  - exact (login_post_refused_lemma (ENV C cfg w O req) (init_hst (w_st w) O) u Hu MR).
Qed.

Lemma step_otp_refused C cfg w req O U u :
  q_route req = ROtpLogin -> q_meth req = POST -> has_mod cfg MOtp = true ->
  ulookup (aget (pid_field (ENV C cfg w O req)) (values (ENV C cfg w O req))) (s_users (w_st w)) = Some u ->
  must_refuse (ENV C cfg w O req) u ->
  alookup k_uid (jar_get (q_browser req) (w_sess (fst (step C cfg w (AReq req) O)))) = Some U ->
  alookup k_uid (jar_get (q_browser req) (w_sess w)) <> Some U -> False.
Proof.
  intros R M HM Hu MR H1 H0.
  eapply (step_route_neutral C cfg _ w req O U); [|no_drop R| |exact H1|exact H0].
  - route_is R M. rewrite HM. reflexivity.
  - exact (otp_login_post_refused_lemma (ENV C cfg w O req) (init_hst (w_st w) O) u Hu MR).
Qed.

Lemma step_recover_refused C cfg w req O U raw u :
  q_route req = RRecoverEnd -> q_meth req = POST -> has_mod cfg MRecover = true ->
  b64url_dec (aget f_token (values (ENV C cfg w O req))) = Some raw ->
  ufind (fun u => beqb (u_rsel u) (selector_of (ENV C cfg w O req) raw)) (s_users (w_st w)) = Some u ->
  must_refuse (ENV C cfg w O req) u ->
  alookup k_uid (jar_get (q_browser req) (w_sess (fst (step C cfg w (AReq req) O)))) = Some U ->
  alookup k_uid (jar_get (q_browser req) (w_sess w)) <> Some U -> False.
Proof.
  intros R M HM Dc Hu MR H1 H0.
  eapply (step_route_neutral C cfg _ w req O U); [|no_drop R| |exact H1|exact H0].
  - route_is R M. rewrite HM. reflexivity.
  - exact (recover_end_post_refused_lemma (ENV C cfg w O req) (init_hst (w_st w) O) raw u Dc Hu MR).
Qed.

Lemma step_oauth2_locked_refused C cfg w req O U prov su :
  q_route req = ROAuthCallback prov -> q_meth req = GET ->
  has_mod cfg MOAuth2 = true -> bmem prov (c_providers cfg) = true ->
  has_mod cfg MLock = true ->
  ulookup (make_oauth2_pid prov (pa_uid (o_provider O))) (s_users (w_st w)) = Some su ->
  o_now O < u_locked su ->
  alookup k_uid (jar_get (q_browser req) (w_sess (fst (step C cfg w (AReq req) O)))) = Some U ->
  alookup k_uid (jar_get (q_browser req) (w_sess w)) <> Some U -> False.
Proof.
  intros R M HM HP HL Hu L H1 H0.
  eapply (step_route_neutral C cfg _ w req O U); [|no_drop R| |exact H1|exact H0].
  - route_is R M. rewrite HM, HP. reflexivity.
  - exact (oauth2_end_locked_refused_lemma (ENV C cfg w O req) prov (init_hst (w_st w) O) su HL Hu L).
Qed.

Lemma step_totp_gate C cfg w req O U :
  q_route req = RTotpValidate -> q_meth req = POST -> c_totp cfg = true ->
  alookup k_uid (jar_get (q_browser req) (w_sess (fst (step C cfg w (AReq req) O)))) = Some U ->
  alookup k_uid (jar_get (q_browser req) (w_sess w)) <> Some U ->
  g_gate (ENV C cfg w O req) k_totp_pending (init_hst (w_st w) O) U.
Proof.
  intros R M HM H1 H0.
  eapply (step_route_guard C cfg _ _ w req O U); [|no_drop R| |exact H1|exact H0].
  - route_is R M. rewrite HM. reflexivity.
  - apply (totp_validate_post_gate _ (init_hst (w_st w) O)).
Qed.

Lemma step_sms_gate C cfg w req O U :
  q_route req = RSmsValidate -> q_meth req = POST -> c_sms cfg = true ->
  alookup k_uid (jar_get (q_browser req) (w_sess (fst (step C cfg w (AReq req) O)))) = Some U ->
  alookup k_uid (jar_get (q_browser req) (w_sess w)) <> Some U ->
  g_gate (ENV C cfg w O req) k_sms_pending (init_hst (w_st w) O) U.
Proof.
  intros R M HM H1 H0.
  eapply (step_route_guard C cfg _ _ w req O U); [|no_drop R| |exact H1|exact H0].
  - route_is R M. rewrite HM. reflexivity.
  - apply (sms_validator_post_gate _ (init_hst (w_st w) O)).
Qed.

(* at the start of a request, in a keyed store, the user a validation page finds is stored under
   the identity it writes *)
Lemma g_gate_passed C cfg w req O pk U :
  keyed (w_st w) -> g_gate (ENV C cfg w O req) pk (init_hst (w_st w) O) U ->
  gate_passed cfg (o_now O) (w_st w) U.
Proof.
  intros Ky (u & Src & Pd & GO) u' Hu'.
  apply (user_source2_pending (ENV C cfg w O req) pk (init_hst (w_st w) O) u Ky eq_refl eq_refl) in Src.
  cbn [h_st init_hst] in Src.
  assert (Hs : ulookup U (s_users (w_st w)) = Some u).
  { destruct Src as [(_ & P & L)|(_ & P & L)]; rewrite <- Pd, P; exact L. }
  rewrite Hs in Hu'. inversion Hu'; subst u'. exact GO.
Qed.

(* the OAuth2 callback: the vetoes are asked about the record filed under the provider-scoped pid
   of the provider's user id; only the lock module listens (the known finding of C03) *)
Definition oauth2_issued (C : crypto) (cfg : config) (w : world) (O : oracle) (req : request) (U : bytes) : Prop :=
  exists prov, q_route req = ROAuthCallback prov /\ q_meth req = GET /\ has_mod cfg MOAuth2 = true /\
    bmem prov (c_providers cfg) = true /\ g_oauth2 (ENV C cfg w O req) prov (w_st w) U /\
    let opid := make_oauth2_pid prov (pa_uid (o_provider O)) in
    (has_mod cfg MLock = true ->
       forall su, ulookup opid (s_users (w_st w)) = Some su -> u_locked su <= o_now O) /\
    (U = opid \/ exists su, ulookup opid (s_users (w_st w)) = Some su /\ U = make_oauth2_pid prov (u_ouid su)).

(* the remember cookie on an application route: remember.Middleware asks neither question *)
Definition remember_issued (C : crypto) (cfg : config) (w : world) (O : oracle) (req : request) (U : bytes) : Prop :=
  exists full tf fr l c e, q_route req = RApp full tf fr l c true e /\ g_remember (ENV C cfg w O req) (w_st w) U.

Lemma step_no_session_while_locked C cfg w req O U :
  filed (w_st w) ->
  alookup k_uid (jar_get (q_browser req) (w_sess (fst (step C cfg w (AReq req) O)))) = Some U ->
  alookup k_uid (jar_get (q_browser req) (w_sess w)) <> Some U ->
  credential_shown C cfg w O req U ->
  gate_passed cfg (o_now O) (w_st w) U \/ oauth2_issued C cfg w O req U \/ remember_issued C cfg w O req U.
Proof.
  intros Fl H1 H0 Cs. pose proof (filed_keyed _ Fl) as Ky. unfold credential_shown in Cs. cbv zeta in Cs.
  destruct Cs as [(R & M & HM & G)|[(R & M & HM & G)|[(R & M & HM & G)|[(R & M & HM & G)|
                  [(prov & R & M & HM & HP & G)|[(R & M & HM & _)|[(R & M & HM & _)|Rm]]]]]]].
  - left. destruct G as (EU & _). eapply gate_passed_of_not_refused. intros u' Hu' MR.
    rewrite EU in Hu'. exact (step_login_refused C cfg w req O U u' R M HM Hu' MR H1 H0).
  - left. destruct G as (EU & _). eapply gate_passed_of_not_refused. intros u' Hu' MR.
    rewrite EU in Hu'. exact (step_otp_refused C cfg w req O U u' R M HM Hu' MR H1 H0).
  - left. destruct G as (_ & Hn & _). intros u' Hu'. rewrite Hu' in Hn. discriminate Hn.
  - left. destruct G as (_ & raw & u & Dc & _ & Hf & _ & _ & EU). eapply gate_passed_of_not_refused.
    intros u' Hu' MR.
    pose proof (filedl_found _ _ _ Fl Hf) as Hs. rewrite <- EU, Hu' in Hs. inversion Hs; subst u'.
    exact (step_recover_refused C cfg w req O U raw u R M HM Dc Hf MR H1 H0).
  - right; left. exists prov. do 5 (split; [assumption|]). cbv zeta. split.
    + intros HL su Hu. destruct (Z_lt_dec (o_now O) (u_locked su)) as [L|L]; [|lia].
      exfalso. exact (step_oauth2_locked_refused C cfg w req O U prov su R M HM HP HL Hu L H1 H0).
    + destruct G as (_ & _ & _ & _ & u0 & EU & [Hu|Eo]).
      * right. exists u0. auto.
      * left. rewrite EU. cbn [e_O] in Eo. rewrite Eo. reflexivity.
  - left. exact (g_gate_passed C cfg w req O _ U Ky (step_totp_gate C cfg w req O U R M HM H1 H0)).
  - left. exact (g_gate_passed C cfg w req O _ U Ky (step_sms_gate C cfg w req O U R M HM H1 H0)).
  - right; right. exact Rm.
Qed.

(* when the record the callback resolved carries the provider's user id (what NewFromOAuth2 of a
   consistent storer hands back), or when there was none, the identity issued IS the provider-scoped
   pid, and its record was not locked *)
Lemma oauth2_issued_not_locked C cfg w O req U :
  oauth2_issued C cfg w O req U -> has_mod cfg MLock = true ->
  (forall prov su, ulookup (make_oauth2_pid prov (pa_uid (o_provider O))) (s_users (w_st w)) = Some su ->
                   u_ouid su = pa_uid (o_provider O)) ->
  forall u, ulookup U (s_users (w_st w)) = Some u -> u_locked u <= o_now O.
Proof.
  intros (prov & _ & _ & _ & _ & _ & NL & EU) HL Cons u Hu. cbv zeta in NL, EU.
  assert (E1 : U = make_oauth2_pid prov (pa_uid (o_provider O))).
  { destruct EU as [->|(su & Hs & ->)]; [reflexivity|]. rewrite (Cons _ _ Hs). reflexivity. }
  rewrite E1 in Hu. exact (NL HL u Hu).
Qed.

Definition c03_issuing_step (C : crypto) (cfg : config) (w : world) (a : action) (O : oracle) (b U : bytes) : Prop :=
  gate_passed cfg (o_now O) (w_st w) U \/
  (exists req, a = AReq req /\ q_browser req = b /\ oauth2_issued C cfg w O req U) \/
  (exists req, a = AReq req /\ q_browser req = b /\ remember_issued C cfg w O req U) \/
  a = APlant b k_uid U \/
  (exists j, a = ASetJar false b j /\ alookup k_uid j = Some U).

Lemma step_c03_issuing C cfg w a O b U :
  filed (w_st w) ->
  alookup k_uid (jar_get b (w_sess (fst (step C cfg w a O)))) = Some U ->
  alookup k_uid (jar_get b (w_sess w)) <> Some U ->
  issued_at C cfg w a O b U -> c03_issuing_step C cfg w a O b U.
Proof.
  intros Fl H1 H0 [(req & -> & <- & Cs)|Hr].
  - destruct (step_no_session_while_locked C cfg w req O U Fl H1 H0 Cs) as [L|[B|B]]; [left; exact L| |].
    + right; left. exists req. auto.
    + right; right; left. exists req. auto.
  - right; right; right. exact Hr.
Qed.

Lemma c03_history_lemma C cfg w0 l w' os b U :
  filed (w_st w0) ->
  run C cfg w0 l = (w', os) ->
  alookup k_uid (jar_get b (w_sess w')) = Some U ->
  alookup k_uid (jar_get b (w_sess w0)) <> Some U ->
  exists l1 a O l2 w1, l = l1 ++ (a, O) :: l2 /\ fst (run C cfg w0 l1) = w1 /\
    alookup k_uid (jar_get b (w_sess w1)) <> Some U /\
    alookup k_uid (jar_get b (w_sess (fst (step C cfg w1 a O)))) = Some U /\
    issued_at C cfg w1 a O b U /\
    (forall l2a l2b, l2 = l2a ++ l2b ->
       alookup k_uid (jar_get b (w_sess (fst (run C cfg w0 (l1 ++ (a, O) :: l2a))))) = Some U) /\
    c03_issuing_step C cfg w1 a O b U.
Proof.
  intros Fl Rn H N0.
  destruct (history_provenance_lemma C cfg w0 l w' os b U Rn H)
    as [[A _]|(l1 & a & O & l2 & w1 & E & W1 & N1 & Y1 & Is & K)]; [contradiction|].
  exists l1, a, O, l2, w1. do 6 (split; [assumption|]).
  apply step_c03_issuing; try assumption.
  rewrite <- W1. apply run_filed_lemma. exact Fl.
Qed.

Lemma c03_history_from_empty_lemma C cfg l w' os b U :
  run C cfg empty_world l = (w', os) -> library_history l ->
  alookup k_uid (jar_get b (w_sess w')) = Some U ->
  exists l1 req O l2 w1, l = l1 ++ (AReq req, O) :: l2 /\ fst (run C cfg empty_world l1) = w1 /\
    q_browser req = b /\ credential_shown C cfg w1 O req U /\
    alookup k_uid (jar_get b (w_sess w1)) <> Some U /\
    alookup k_uid (jar_get b (w_sess (fst (step C cfg w1 (AReq req) O)))) = Some U /\
    (forall l2a l2b, l2 = l2a ++ l2b ->
      alookup k_uid (jar_get b (w_sess (fst (run C cfg empty_world (l1 ++ (AReq req, O) :: l2a))))) = Some U) /\
    (gate_passed cfg (o_now O) (w_st w1) U \/ oauth2_issued C cfg w1 O req U \/ remember_issued C cfg w1 O req U).
Proof.
  intros Rn Lib H.
  destruct (history_from_empty_lemma C cfg l w' os b U Rn Lib H)
    as (l1 & req & O & l2 & w1 & E & W1 & Bq & Cs & N1 & Y1 & K).
  exists l1, req, O, l2, w1. do 7 (split; [assumption|]).
  subst b. apply step_no_session_while_locked; try assumption.
  rewrite <- W1. apply run_filed_lemma. exact filed_empty.
Qed.

(* ---- witnesses (executable crypto instance, computed) -------------------------------------------- *)
(* C02, non-vacuity of the second alternative: an account with a TOTP secret (totp2fa set up).  The
   correct password only parks the login; the code at the validation page issues the identity, and at
   that step the stored record IS enrolled. *)
Definition h3_pid := bs "a@x.io".
Definition h3t_cfg : config :=
  mkConfig [MAuth; MLock; MConfirm] false true false false false false 3 300 3600 600 3600 (bs "/auth")
           false false false DELETE GET false [] RespNotFound [] [] true false false.
Definition h3t_user : user :=
  blank_user <| u_pid := h3_pid |> <| u_email := h3_pid |> <| u_password := exec_pwhash (bs "password1") |>
             <| u_confirmed := true |> <| u_totp := bs "SECRET" |>.
Definition h3t_oracle : oracle := mkOracle 1000 [] [(bs "SECRET", bs "123456")] [] (mkPA false false [] [] [] [] 0).
Definition h3t_login : request :=
  mkRequest (bs "b1") POST RLogin (bs "/login") [] [] [(f_email, h3_pid); (f_password, bs "password1")] false.
Definition h3t_validate : request :=
  mkRequest (bs "b1") POST RTotpValidate (bs "/2fa/totp/validate") [] [] [(f_code, bs "123456")] false.
Definition h3t_prefix : list (action * oracle) := [(ASeed h3t_user [], h3t_oracle); (AReq h3t_login, h3t_oracle)].
Definition h3t_history : list (action * oracle) := h3t_prefix ++ [(AReq h3t_validate, h3t_oracle)].

Lemma h3t_witness :
  library_history h3t_history /\
  (* after the password: parked, nobody named *)
  alookup k_uid (jar_get (bs "b1") (w_sess (fst (run XC h3t_cfg empty_world h3t_prefix)))) = None /\
  alookup k_totp_pending (jar_get (bs "b1") (w_sess (fst (run XC h3t_cfg empty_world h3t_prefix)))) = Some h3_pid /\
  (* after the code: named *)
  alookup k_uid (jar_get (bs "b1") (w_sess (fst (run XC h3t_cfg empty_world h3t_history)))) = Some h3_pid /\
  (* the record is enrolled in the world the validation started from *)
  (exists u, ulookup h3_pid (s_users (w_st (fst (run XC h3t_cfg empty_world h3t_prefix)))) = Some u /\
             enrolled h3t_cfg u).
Proof.
  split; [repeat constructor|]. split; [vm_compute; reflexivity|]. split; [vm_compute; reflexivity|].
  split; [vm_compute; reflexivity|].
  eexists. split; [vm_compute; reflexivity|]. left. split; vm_compute; reflexivity.
Qed.

(* C03: the remember cookie is the exception for BOTH vetoes.  Lock and confirm loaded, the account
   locked until 5000 and not confirmed, the request at time 1000 to an application route behind
   remember + lock + confirm middlewares carries a valid remember cookie: the lock middleware answers
   with its failure redirect, but the session has been issued (half-authenticated). *)
Definition h3r_cfg : config :=
  mkConfig [MAuth; MLock; MConfirm; MRemember] false false false false false false 3 300 3600 600 3600 (bs "/auth")
           false false false DELETE GET false [] RespNotFound [] [] true false false.
Definition h3r_user : user :=
  blank_user <| u_pid := h3_pid |> <| u_email := h3_pid |> <| u_locked := 5000 |> <| u_confirmed := false |>.
Definition h3r_raw : bytes := h3_pid ++ ";"%byte :: repeat "x"%byte 32.
Definition h3r_world : world :=
  mkWorld (mkStorage [(h3_pid, h3r_user)] [(h3_pid, [b64std_enc (sha XC h3r_raw)])]) []
          [(bs "b1", [(k_rm, b64url_enc h3r_raw)])].
Definition h3r_req : request :=
  mkRequest (bs "b1") GET (RApp false false RespNotFound true true true false) (bs "/app") [] [] [] false.
Definition h3r_oracle : oracle := mkOracle 1000 [repeat "y"%byte 32] [] [] (mkPA false false [] [] [] [] 0).

Lemma h3r_witness :
  has_mod h3r_cfg MLock = true /\ has_mod h3r_cfg MConfirm = true /\
  ulookup h3_pid (s_users (w_st h3r_world)) = Some h3r_user /\
  o_now h3r_oracle < u_locked h3r_user /\ u_confirmed h3r_user = false /\
  alookup k_uid (jar_get (bs "b1") (w_sess h3r_world)) = None /\
  alookup k_uid (jar_get (bs "b1") (w_sess (fst (step XC h3r_cfg h3r_world (AReq h3r_req) h3r_oracle)))) = Some h3_pid /\
  ob_resp (snd (step XC h3r_cfg h3r_world (AReq h3r_req) h3r_oracle)) = Some (RespRedirect302 (bs "/no/lock")).
Proof. vm_compute. repeat split. Qed.
