(* C04 under the wrapped deployment: the tie between the pure lock machine and the system for
   [serve_top] / [wstep] / [wrun] (module routes behind a global remember.Middleware), on top of
   Proofs/LockWorld2.v (which does it for [serve] / [step] / [run]).

   Part A  the wrapper prefix keeps every lock triple ([lk]), hence the frame for [serve_top].
   Part B  the credential handlers started from the state the wrapper leaves: the context pid may be
           cached, and then it is the uid of the (half-authenticated) view.  Only the two second-factor
           validators and the two SMS settings posts look at the context before they load a user; their
           targets are re-proved for such a start state.
   Part C  [serve_top] from the start of a request: the route's target, computed on the view the wrapper
           hands on ([wrap_view], [wenv]); the wrapper purely ([wrap_pid]).
   Part D  [wlock_ops], one [wstep], histories of [wrun], the refinement statement, readings of
           [wlock_ops], and a concrete wrapped history on which every hypothesis holds. *)
From AB Require Import World.Step Proofs.EvLogic Proofs.Neutral Proofs.MonadInv Proofs.StoreLogic
  Proofs.SameView Proofs.SameView2 Proofs.NoPanic Proofs.Gate Proofs.TwoFactorProofs Proofs.StoreShape
  Proofs.Footprint Proofs.StepLift2 Proofs.Wrapped Proofs.Wrapped2 Proofs.LockWorld Proofs.LockWorld2.
Open Scope Z_scope.

(* ================================================================================================ *)
(* Part A: the wrapper keeps every lock triple                                                      *)
(* ================================================================================================ *)
Lemma lk_serve_other E U0 : ckind_of (e_cfg E) (e_req E) = None -> lk U0 anyq (serve E).
Proof.
  intros CK. unfold serve. destruct (route_table E) as [hd| |] eqn:RT.
  - apply lk_with_error_handler. eapply route_other; eassumption.
  - apply lk_pres. pres_go.
  - apply lk_pres. pres_go.
Qed.

Lemma lk_remembered_view U0 s : lk U0 anyq (remembered_view s).
Proof.
  unfold remembered_view. apply lk_get_h_bind. intros h0 _. destruct (h_cpid h0); apply lk_ret; exact I.
Qed.

(* remember.Middleware followed by the overlay of the view: the prefix [serve_top] puts in front of the
   module routes *)
Lemma lk_wrapper_prefix E U0 (K : amap -> M unit) :
  (forall s2, lk U0 anyq (K s2)) ->
  lk U0 anyq (remember_mw E ;;; s2 <- remembered_view (e_sess E) ;; K s2).
Proof.
  intros HK. eapply (lk_bind _ anyq); [apply lk_remember_mw|intros _ _].
  eapply (lk_bind _ anyq); [apply lk_remembered_view|intros s2 _; apply HK].
Qed.

Lemma lk_serve_top_other E U0 : ckind_of (e_cfg E) (e_req E) = None -> lk U0 anyq (serve_top E).
Proof.
  intros CK. destruct (wrapped_route E) eqn:W.
  - rewrite (serve_top_wrapped _ W). apply lk_wrapper_prefix. intros s2.
    apply (lk_serve_other (with_sess E s2)). exact CK.
  - rewrite (serve_top_plain _ W). apply lk_serve_other. exact CK.
Qed.

(* 1. every request that is not one of the [ckind_of] ones keeps every lock triple under the wrapped
   router as well, faults or not, remember cookie or not *)
Theorem serve_top_keeps_triples_lemma E : ckind_of (e_cfg E) (e_req E) = None -> keeps_lock (serve_top E).
Proof. intros CK. apply (keeps_of_lk anyq). intros U0. apply lk_serve_top_other. exact CK. Qed.

(* the wrapper alone, in front of ANY request *)
Lemma wrapper_keeps_lock E : keeps_lock (remember_mw E).
Proof. apply (keeps_of_lk anyq). intros U0. apply lk_remember_mw. Qed.

(* ================================================================================================ *)
(* Part B: the credential handlers from the state the wrapper leaves                                *)
(* ================================================================================================ *)
(* a cached context pid, if any, is the uid of the session view *)
Definition cpid_ok (E : env) (h : hst) : Prop :=
  match h_cpid h with Some p => p = aget k_uid (e_sess E) | None => True end.

Lemma cpid_ok_none E h : h_cpid h = None -> cpid_ok E h.
Proof. unfold cpid_ok. intros ->. exact I. Qed.

Lemma current_user_id_ok E h : cpid_ok E h -> current_user_id E h = (Ok (aget k_uid (e_sess E)), h).
Proof.
  unfold cpid_ok, current_user_id, bind, get_h. destruct (h_cpid h) as [p|]; [intros ->|intros _]; reflexivity.
Qed.

Section WLW.
Variable E : env.
Hypothesis nofaults : o_faults (e_O E) = [].
Hypothesis ND : NoDup (c_mods (e_cfg E)).
Hypothesis HM : has_mod (e_cfg E) MLock = true.
Notation now := (o_now (e_O E)).
Notation cfg := (e_cfg E).
Notation vals := (values E).
Notation FAIL := (LFail (o_now (e_O E))).

(* [subject_load] of LockWorld.v with a possibly cached pid *)
Lemma subject_load_gen key h : h_cuser h = None -> cpid_ok E h ->
  exists h1, uc h1 = uc h /\
    try (current_user E) (fun r =>
          match r with
          | Err ErrUserNotFound =>
              if bempty (aget key (e_sess E)) then fail ErrUserNotFound
              else u <- st_load (e_O E) (aget key (e_sess E)) ;; ret (u, false)
          | Err e => fail e
          | Panic => panic
          | Ok x => ret x
          end) h =
    (match subject E key (users h) with Some (_, u) => Ok (u, false) | None => Err ErrUserNotFound end, h1).
Proof.
  intros Hc Hp. unfold subject, try, current_user.
  unfold bind at 1, get_h at 1. rewrite Hc. unfold bind at 1. rewrite (current_user_id_ok _ _ Hp).
  cbn beta iota zeta.
  assert (PEND : forall h0, uc h0 = uc h -> exists h1, uc h1 = uc h /\
            (if bempty (aget key (e_sess E)) then fail ErrUserNotFound
             else u <- st_load (e_O E) (aget key (e_sess E)) ;; ret (u, false)) h0 =
            (match (if bempty (aget key (e_sess E)) then None else
                    match ulookup (aget key (e_sess E)) (users h) with Some u => Some (aget key (e_sess E), u) | None => None end)
             with Some (_, u) => Ok (u, false) | None => Err ErrUserNotFound end, h1)).
  { intros h0 U0. destruct (bempty (aget key (e_sess E))); [exists h0; split; [exact U0|reflexivity]|].
    exists (loaded h0). split; [exact U0|]. unfold bind. rewrite (st_load_nofault E nofaults).
    assert (Us : s_users (h_st h0) = users h) by (unfold uc in U0; inversion U0 as [[A1 A2]]; exact A1). rewrite Us.
    destruct (ulookup (aget key (e_sess E)) (users h)); reflexivity. }
  destruct (bempty (aget k_uid (e_sess E))).
  - unfold fail at 1. exact (PEND h eq_refl).
  - unfold bind at 1. rewrite (st_load_nofault E nofaults). fold (users h).
    destruct (ulookup (aget k_uid (e_sess E)) (users h)).
    + exists (loaded h). split; reflexivity.
    + exact (PEND (loaded h) eq_refl).
Qed.
End WLW.
