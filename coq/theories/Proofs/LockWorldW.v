(* C04 under the wrapped deployment: the tie between the pure lock machine and the system for
   [serve_top] / [wstep] / [wrun] (module routes behind a global remember.Middleware), on top of
   Proofs/LockWorld2.v (which does it for [serve] / [step] / [run]).

   Part A  the wrapper prefix keeps every lock triple ([lk]), hence the frame for [serve_top].
   Part B  the credential handlers started from the state the wrapper leaves: the context pid may be
           cached, and then it is the uid of the (half-authenticated) view.  Only the two second-factor
           validators and the two SMS settings posts look at the context before they load a user; their
           targets are re-proved for such a start state.
   Part C  [serve_top] from the start of a request: the route's target, computed on the view the wrapper
           hands on ([wrap_view], [wenv]); the wrapper purely ([wrap_pid]).
   Part D  [wlock_ops], one [wstep], histories of [wrun], the refinement statement, readings of
           [wlock_ops], and a concrete wrapped history on which every hypothesis holds. *)
From AB Require Import World.Step Proofs.EvLogic Proofs.Neutral Proofs.MonadInv Proofs.StoreLogic
  Proofs.SameView Proofs.SameView2 Proofs.NoPanic Proofs.Gate Proofs.TwoFactorProofs Proofs.StoreShape
  Proofs.Footprint Proofs.MwProofs Proofs.StepLift2 Proofs.Wrapped Proofs.Wrapped2 Proofs.LockWorld Proofs.LockWorld2.
Open Scope Z_scope.

(* ================================================================================================ *)
(* Part A: the wrapper keeps every lock triple                                                      *)
(* ================================================================================================ *)
Lemma lk_serve_other E U0 : ckind_of (e_cfg E) (e_req E) = None -> lk U0 anyq (serve E).
Proof.
  intros CK. unfold serve. destruct (route_table E) as [hd| |] eqn:RT.
  - apply lk_with_error_handler. eapply route_other; eassumption.
  - apply lk_pres. pres_go.
  - apply lk_pres. pres_go.
Qed.

Lemma lk_remembered_view U0 s : lk U0 anyq (remembered_view s).
Proof.
  unfold remembered_view. apply lk_get_h_bind. intros h0 _. destruct (h_cpid h0); apply lk_ret; exact I.
Qed.

(* remember.Middleware followed by the overlay of the view: the prefix [serve_top] puts in front of the
   module routes *)
Lemma lk_wrapper_prefix E U0 (K : amap -> M unit) :
  (forall s2, lk U0 anyq (K s2)) ->
  lk U0 anyq (remember_mw E ;;; s2 <- remembered_view (e_sess E) ;; K s2).
Proof.
  intros HK. eapply (lk_bind _ anyq); [apply lk_remember_mw|intros _ _].
  eapply (lk_bind _ anyq); [apply lk_remembered_view|intros s2 _; apply HK].
Qed.

Lemma lk_serve_top_other E U0 : ckind_of (e_cfg E) (e_req E) = None -> lk U0 anyq (serve_top E).
Proof.
  intros CK. destruct (wrapped_route E) eqn:W.
  - rewrite (serve_top_wrapped _ W). apply lk_wrapper_prefix. intros s2.
    apply (lk_serve_other (with_sess E s2)). exact CK.
  - rewrite (serve_top_plain _ W). apply lk_serve_other. exact CK.
Qed.

(* 1. every request that is not one of the [ckind_of] ones keeps every lock triple under the wrapped
   router as well, faults or not, remember cookie or not *)
Theorem serve_top_keeps_triples_lemma E : ckind_of (e_cfg E) (e_req E) = None -> keeps_lock (serve_top E).
Proof. intros CK. apply (keeps_of_lk anyq). intros U0. apply lk_serve_top_other. exact CK. Qed.

(* the wrapper alone, in front of ANY request *)
Lemma wrapper_keeps_lock E : keeps_lock (remember_mw E).
Proof. apply (keeps_of_lk anyq). intros U0. apply lk_remember_mw. Qed.

(* ================================================================================================ *)
(* Part B: the credential handlers from the state the wrapper leaves                                *)
(* ================================================================================================ *)
(* a cached context pid, if any, is the uid of the session view *)
Definition cpid_ok (E : env) (h : hst) : Prop :=
  match h_cpid h with Some p => p = aget k_uid (e_sess E) | None => True end.

Lemma cpid_ok_none E h : h_cpid h = None -> cpid_ok E h.
Proof. unfold cpid_ok. intros ->. exact I. Qed.

Lemma current_user_id_ok E h : cpid_ok E h -> current_user_id E h = (Ok (aget k_uid (e_sess E)), h).
Proof.
  unfold cpid_ok, current_user_id, bind, get_h. destruct (h_cpid h) as [p|]; [intros ->|intros _]; reflexivity.
Qed.

Section WLW.
Variable E : env.
Hypothesis nofaults : o_faults (e_O E) = [].
Hypothesis ND : NoDup (c_mods (e_cfg E)).
Hypothesis HM : has_mod (e_cfg E) MLock = true.
Notation now := (o_now (e_O E)).
Notation cfg := (e_cfg E).
Notation vals := (values E).
Notation FAIL := (LFail (o_now (e_O E))).

(* [subject_load] of LockWorld.v with a possibly cached pid *)
Lemma subject_load_gen key h : h_cuser h = None -> cpid_ok E h ->
  exists h1, uc h1 = uc h /\
    try (current_user E) (fun r =>
          match r with
          | Err ErrUserNotFound =>
              if bempty (aget key (e_sess E)) then fail ErrUserNotFound
              else u <- st_load (e_O E) (aget key (e_sess E)) ;; ret (u, false)
          | Err e => fail e
          | Panic => panic
          | Ok x => ret x
          end) h =
    (match subject E key (users h) with Some (_, u) => Ok (u, false) | None => Err ErrUserNotFound end, h1).
Proof.
  intros Hc Hp. unfold subject, try, current_user.
  unfold bind at 1, get_h at 1. rewrite Hc. unfold bind at 1. rewrite (current_user_id_ok _ _ Hp).
  cbn beta iota zeta.
  assert (PEND : forall h0, uc h0 = uc h -> exists h1, uc h1 = uc h /\
            (if bempty (aget key (e_sess E)) then fail ErrUserNotFound
             else u <- st_load (e_O E) (aget key (e_sess E)) ;; ret (u, false)) h0 =
            (match (if bempty (aget key (e_sess E)) then None else
                    match ulookup (aget key (e_sess E)) (users h) with Some u => Some (aget key (e_sess E), u) | None => None end)
             with Some (_, u) => Ok (u, false) | None => Err ErrUserNotFound end, h1)).
  { intros h0 U0. destruct (bempty (aget key (e_sess E))); [exists h0; split; [exact U0|reflexivity]|].
    exists (loaded h0). split; [exact U0|]. unfold bind. rewrite (st_load_nofault E nofaults).
    assert (Us : s_users (h_st h0) = users h) by (unfold uc in U0; inversion U0 as [[A1 A2]]; exact A1). rewrite Us.
    destruct (ulookup (aget key (e_sess E)) (users h)); reflexivity. }
  destruct (bempty (aget k_uid (e_sess E))).
  - unfold fail at 1. exact (PEND h eq_refl).
  - unfold bind at 1. rewrite (st_load_nofault E nofaults). fold (users h).
    destruct (ulookup (aget k_uid (e_sess E)) (users h)).
    + exists (loaded h). split; reflexivity.
    + exact (PEND (loaded h) eq_refl).
Qed.
Section WReadable.
Hypothesis Bb : q_badbody (e_req E) = false.
Hypothesis Api : c_api cfg = true -> q_meth (e_req E) <> GET.

(* [totp_validate_exact], [totp_lemma], [sms_lemma] of LockWorld.v: the same proofs, the one use of
   the empty context replaced by [subject_load_gen] *)
Lemma totp_validate_exact_gen h r h1 P u0 u1 st :
  h_cuser h = None -> cpid_ok E h -> keyed (h_st h) ->
  subject E k_totp_pending (users h) = Some (P, u0) -> totp_check E u0 = (u1, st) ->
  totp_validate E h = (r, h1) ->
  r = Ok (u1, false, st) /\ h_cuser h1 = None /\
  ((users h1 = users h /\ (u1 = u0 \/ (c_onetime cfg = true /\ st = Some TSuccess))) \/
   (users h1 = uput P u1 (users h) /\ st = Some TSuccess)).
Proof.
  intros Hc Hp Ky Sub TC Eq. unfold totp_validate in Eq.
  destruct (subject_load_gen k_totp_pending h Hc Hp) as (h0 & U0 & Ex).
  unfold bind at 1 in Eq. rewrite Ex, Sub in Eq. cbn beta iota in Eq.
  assert (Us : users h0 = users h) by (unfold uc in U0; inversion U0 as [[A1 A2]]; exact A1).
  assert (C0 : h_cuser h0 = None) by (unfold uc in U0; inversion U0 as [[A1 A2]]; congruence).
  assert (Pk : u_pid u0 = P) by (apply Ky; apply subject_lookup in Sub; exact Sub).
  unfold totp_check in TC. cbv zeta in TC.
  destruct (bempty (u_totp u0)).
  { inversion TC; subst. inversion Eq; subst. auto 6. }
  unfold bind at 1 in Eq. rewrite (read_values_ok E h0 Bb Api) in Eq. cbv zeta in Eq.
  destruct (negb (bempty (aget f_recovery_code vals))).
  { destruct (use_recovery_code E (decode_codes (u_recovery u0)) (aget f_recovery_code vals)) as [rest|].
    - inversion TC; subst u1 st.
      unfold bind at 1, log at 1, modify at 1 in Eq. unfold store_back in Eq.
      unfold bind at 1, ret at 1 in Eq. unfold bind at 1 in Eq. rewrite (st_save_nofault E nofaults) in Eq.
      inversion Eq; subst r h1. split; [reflexivity|]. split; [exact C0|]. right. split; [|reflexivity].
      unfold users at 1. cbn [h_st s_users set]. simpl. fold (users h0). rewrite Us, Pk. reflexivity.
    - inversion TC; subst. inversion Eq; subst. auto 6. }
  destruct (c_onetime cfg).
  - destruct (beqb (u_totp_last u0) (trim_space (aget f_code vals))).
    { inversion TC; subst. inversion Eq; subst. auto 6. }
    destruct (negb (totp_ok E (u_totp u0) (aget f_code vals))).
    { inversion TC; subst. inversion Eq; subst. auto 6. }
    inversion TC; subst u1 st. unfold store_back in Eq. unfold bind at 1, ret at 1 in Eq.
    inversion Eq; subst. auto 7.
  - destruct (negb (totp_ok E (u_totp u0) (aget f_code vals))); inversion TC; subst; inversion Eq; subst; auto 6.
Qed.

Theorem totp_lemma_gen h r h' P u0 u1 st :
  totp_validate_post E h = (r, h') -> h_cuser h = None -> cpid_ok E h -> keyed (h_st h) ->
  subject E k_totp_pending (users h) = Some (P, u0) -> totp_check E u0 = (u1, st) ->
  match st with
  | None => users h' = users h
  | Some TSuccess => applied E P u1 (ok_ops E (blocked E u0)) h h'
  | Some _ => r = Ok tt /\ applied E P u0 [FAIL] h h'
  end.
Proof.
  intros Eq Hc Hp Ky Sub TC. unfold totp_validate_post in Eq.
  apply bind_inv in Eq as [(x & h1 & E1 & E2)|[(e & E1 & ->)|(E1 & ->)]];
    destruct (totp_validate_exact_gen _ _ _ _ _ _ _ Hc Hp Ky Sub TC E1) as (R & C1 & St); try discriminate R.
  inversion R; subst x. cbn beta iota in E2.
  destruct (totp_check_facts _ _ _ _ TC) as (Pk1 & Lt & Bl & Same).
  assert (Lk : ulookup P (users h) = Some u0) by (apply subject_lookup in Sub; exact Sub).
  assert (Pk : u_pid u0 = P) by (apply Ky; exact Lk).
  assert (FAILS : st <> Some TSuccess ->
            (set_cuser u1 ;;;
             handled <- fire E EvAfterAuthFail false ;;
             if handled then ret tt else log [u_pid u1] ;;; respond E (bs "totp2fa_validate") [(bs "errors", DOther)]) h1 = (r, h') ->
            r = Ok tt /\ applied E P u0 [FAIL] h h').
  { intros Ns F. rewrite (Same Ns) in *. clear Same.
    destruct St as [(Us & _)|(_ & Hs)]; [|contradiction].
    unfold bind at 1, set_cuser at 1, modify at 1 in F.
    apply (fail_part E nofaults ND HM) with (P := P) (w := u0) (L := users h) in F as (R2 & I).
    - split; [exact R2|]. apply at_applied. exact I.
    - apply log_respond_pres.
    - intros h0 r0 h0'. apply (log_respond_res E nofaults).
    - apply at_intro; [exact Pk|reflexivity| |].
      + change (ulookup P (users h1) = Some u0). rewrite Us. exact Lk.
      + intros p _. change (ulookup p (users h1) = ulookup p (users h)). rewrite Us. reflexivity. }
  destruct st as [[| |]|].
  - (* accepted *)
    rewrite <- Bl. apply at_applied.
    assert (I : exists h2, at_ P u1 (users h) h2 /\
              (handled <- fire E EvBeforeAuth false ;;
               if handled then ret tt else
               put_session k_uid (u_pid u1) ;;; put_session k_twofactor (bs "totp") ;;;
               del_session k_halfauth ;;; del_session k_totp_pending ;;; del_session k_totp_secret ;;;
               log [u_pid u1] ;;;
               handled <- fire E EvAfterAuth false ;;
               if handled then ret tt else redirect E (ro_follow_redir (p_login_ok_of (e_cfg E)))) h2 = (r, h')).
    { destruct (c_onetime cfg) eqn:OT; unfold bind at 1 in E2;
        [rewrite (st_save_nofault E nofaults) in E2|unfold ret at 1 in E2];
        unfold bind at 1, set_cuser at 1, modify at 1 in E2; (eexists; split; [|exact E2]).
      - destruct St as [(Us & _)|(Us & _)].
        + apply at_after_save with (h := h); [congruence|reflexivity| |reflexivity].
          change (uput (u_pid u1) u1 (users h1) = uput P u1 (users h)). rewrite Us. congruence.
        + apply at_after_save with (h := h1); [congruence|reflexivity| |].
          * change (uput (u_pid u1) u1 (users h1) = uput P u1 (users h1)). congruence.
          * intros p Np. rewrite Us. apply ulookup_uput_neq. exact Np.
      - destruct St as [(Us & [->|(OT' & _)])|(Us & _)]; [|congruence|].
        + apply at_intro; [exact Pk|reflexivity| |].
          * change (ulookup P (users h1) = Some u0). rewrite Us. exact Lk.
          * intros p _. change (ulookup p (users h1) = ulookup p (users h)). rewrite Us. reflexivity.
        + apply at_after_save with (h := h); [congruence|reflexivity|exact Us|reflexivity]. }
    destruct I as (h2 & I & F).
    apply (before_part E nofaults ND HM) with (1 := I) in F as [(B1 & _ & I1)|(B1 & h3 & I1 & F)]; rewrite B1; cbn [ok_ops].
    + rewrite lrunu_one. exact I1.
    + do 6 skip_mod F. rewrite <- (two_ops E).
      eapply (after_part E nofaults ND HM); [| |exact F]; [apply pres_redirect; exact _|].
      eapply at_mod; [exact I1|reflexivity].
  - apply FAILS; [discriminate|exact E2].
  - apply FAILS; [discriminate|exact E2].
  - (* no TOTP enrolled *)
    destruct St as [(Us & _)|(_ & Hs)]; [|discriminate Hs].
    pose proof (log_respond_pres _ _ _ _ _ _ _ E2) as U. unfold uc in U. inversion U as [[A1 A2]].
    unfold users in *. congruence.
Qed.

Theorem sms_lemma_gen h r h' P u0 :
  sms_validator_post E SPValidate h = (r, h') -> h_cuser h = None -> cpid_ok E h -> keyed (h_st h) ->
  subject E k_sms_pending (users h) = Some (P, u0) ->
  match sms_check E u0 with
  | None => users h' = users h
  | Some (true, u1) => applied E P u1 (ok_ops E (blocked E u0)) h h'
  | Some (false, _) => r = Ok tt /\ applied E P u0 [FAIL] h h'
  end.
Proof.
  intros Eq Hc Hp Ky Sub. unfold sms_validator_post in Eq.
  destruct (subject_load_gen k_sms_pending h Hc Hp) as (h0 & U0 & Ex).
  unfold bind at 1 in Eq. rewrite Ex, Sub in Eq. cbn beta iota in Eq.
  assert (Us : users h0 = users h) by (unfold uc in U0; inversion U0 as [[A1 A2]]; exact A1).
  assert (Lk : ulookup P (users h) = Some u0) by (apply subject_lookup in Sub; exact Sub).
  assert (Pk : u_pid u0 = P) by (apply Ky; exact Lk).
  unfold bind at 1 in Eq. rewrite (read_values_ok E h0 Bb Api) in Eq. cbv zeta in Eq.
  destruct (sms_check E u0) as [[b u1]|] eqn:SC.
  2: { (* nothing checked *)
    unfold sms_check in SC. cbv zeta in SC.
    destruct (bempty (aget f_recovery_code vals) && bempty (aget f_code vals)).
    - apply (pres_sms_send_code E SPValidate u0) in Eq. unfold uc in Eq. inversion Eq as [[A1 A2]].
      unfold users in *. congruence.
    - destruct (negb (bempty (aget f_recovery_code vals))).
      + destruct (use_recovery_code E _ _); discriminate SC.
      + destruct (bempty (aget k_sms_secret (e_sess E))) eqn:Bc; [|discriminate SC].
        unfold sms_validate_code in Eq. cbn [bempty negb] in Eq. rewrite Bc in Eq.
        unfold bind at 1, fail at 1 in Eq. inversion Eq; subst. exact Us. }
  destruct (sms_check_facts _ _ _ _ SC) as (Pk1 & Lt & Bl & Same).
  unfold sms_check in SC. cbv zeta in SC.
  destruct (bempty (aget f_recovery_code vals) && bempty (aget f_code vals)); [discriminate SC|].
  destruct (negb (bempty (aget f_recovery_code vals))) eqn:Nrc.
  - (* a recovery code *)
    unfold sms_validate_code in Eq. rewrite Nrc in Eq.
    destruct (use_recovery_code E (decode_codes (u_recovery u0)) (aget f_recovery_code vals)) as [rest|].
    + inversion SC; subst b u1. clear SC.
      match type of Eq with bind ?m _ ?hh = _ =>
        assert (V : exists hS, m hh = (Ok (true, u0 <| u_recovery := encode_codes rest |>), hS) /\
                    users hS = uput (u_pid u0) (u0 <| u_recovery := encode_codes rest |>) (users hh))
      end.
      { unfold bind at 1, log at 1, modify at 1. unfold store_back. unfold bind at 1, ret at 1.
        unfold bind at 1. rewrite (st_save_nofault E nofaults). eexists. split; reflexivity. }
      destruct V as (hS & V & UsS). unfold bind at 1 in Eq. rewrite V in Eq. cbn beta iota in Eq.
      rewrite <- Bl. eapply (sms_ok_tail E nofaults ND HM); [|exact Eq].
      apply at_after_save with (h := h); [exact Pk|reflexivity| |reflexivity].
      change (users hS = uput P (u0 <| u_recovery := encode_codes rest |>) (users h)).
      rewrite UsS, Us, Pk. reflexivity.
    + inversion SC; subst b u1. clear SC.
      unfold bind at 1, ret at 1 in Eq. cbn beta iota in Eq.
      eapply (sms_fail_tail E nofaults ND HM); [exact Us|exact Lk|exact Pk|exact Eq].
  - (* the texted code *)
    unfold sms_validate_code in Eq. cbn [bempty negb] in Eq.
    destruct (bempty (aget k_sms_secret (e_sess E))); [discriminate SC|].
    injection SC as Hb Hu. subst u1.
    unfold bind at 1, ret at 1 in Eq. rewrite Hb in Eq. destruct b; cbn beta iota in Eq.
    + eapply (sms_ok_tail E nofaults ND HM); [|exact Eq].
      apply at_intro; [exact Pk|reflexivity| |].
      * change (ulookup P (users h0) = Some u0). rewrite Us. exact Lk.
      * intros p _. change (ulookup p (users h0) = ulookup p (users h)). rewrite Us. reflexivity.
    + eapply (sms_fail_tail E nofaults ND HM); [exact Us|exact Lk|exact Pk|exact Eq].
Qed.
End WReadable.
(* ---- the targets of LockWorld2.v, from such a start state ---------------------------------------- *)
Lemma totp_target_gen h r h' :
  totp_validate_post E h = (r, h') -> h_cuser h = None -> cpid_ok E h -> keyed (h_st h) ->
  target_spec E (totp_tgt E (users h)) h h'.
Proof.
  intros Eq Hc Hp Ky. unfold totp_tgt.
  destruct (subject_load_gen k_totp_pending h Hc Hp) as (h0 & U0 & Ex).
  pose proof (uc_users _ _ U0) as Us0.
  destruct (readable E) eqn:Rd.
  - destruct (readable_true E Rd) as (Bb & Api).
    destruct (subject E k_totp_pending (users h)) as [[P u]|] eqn:Sub.
    + unfold totp_verdict. destruct (totp_check E u) as [u1 st] eqn:TC. cbn [snd].
      pose proof (totp_lemma_gen Bb Api _ _ _ _ _ _ _ Eq Hc Hp Ky Sub TC) as T.
      destruct (totp_check_facts _ _ _ _ TC) as (_ & Lt & _ & _).
      pose proof (subject_lookup _ _ _ _ _ Sub) as Lu.
      destruct st as [[| |]|]; cbn [verdict_ops].
      * eapply tspec_applied; [exact Lu|exact Lt|exact T].
      * eapply tspec_applied; [exact Lu|reflexivity|apply T].
      * eapply tspec_applied; [exact Lu|reflexivity|apply T].
      * eapply tspec_same; eassumption.
    + cbn [target_spec]. unfold totp_validate_post in Eq.
      apply bind_inv in Eq as [(x & h1 & E1 & E2)|[(e & E1 & ->)|(E1 & ->)]];
        unfold totp_validate in E1; unfold bind at 1 in E1; rewrite Ex in E1; inversion E1; subst.
      exact Us0.
  - cbn [target_spec]. unfold totp_validate_post in Eq.
    apply bind_inv in Eq as [(x & h1 & E1 & E2)|[(e & E1 & ->)|(E1 & ->)]];
      unfold totp_validate in E1; unfold bind at 1 in E1; rewrite Ex in E1;
      destruct (subject E k_totp_pending (users h)) as [[P u]|]; try (inversion E1; subst; exact Us0);
      cbn beta iota in E1;
      (destruct (bempty (u_totp u)); [|rewrite (unreadable_bind E _ h0 Rd) in E1]); inversion E1; subst; try exact Us0.
    cbn beta iota in E2. eapply left_by_pres; [apply log_respond_pres|exact Us0|exact E2].
Qed.

Lemma sms_target_gen h r h' :
  sms_validator_post E SPValidate h = (r, h') -> h_cuser h = None -> cpid_ok E h -> keyed (h_st h) ->
  target_spec E (sms_tgt E (users h)) h h'.
Proof.
  intros Eq Hc Hp Ky. unfold sms_tgt.
  destruct (subject_load_gen k_sms_pending h Hc Hp) as (h0 & U0 & Ex).
  pose proof (uc_users _ _ U0) as Us0.
  destruct (readable E) eqn:Rd.
  - destruct (readable_true E Rd) as (Bb & Api).
    destruct (subject E k_sms_pending (users h)) as [[P u]|] eqn:Sub.
    + unfold sms_verdict.
      pose proof (sms_lemma_gen Bb Api _ _ _ _ _ Eq Hc Hp Ky Sub) as T.
      pose proof (subject_lookup _ _ _ _ _ Sub) as Lu.
      destruct (sms_check E u) as [[b u1]|] eqn:SC.
      * destruct (sms_check_facts _ _ _ _ SC) as (_ & Lt & _ & _). destruct b; cbn [verdict_ops].
        -- eapply tspec_applied; [exact Lu|exact Lt|exact T].
        -- eapply tspec_applied; [exact Lu|reflexivity|apply T].
      * eapply tspec_same; eassumption.
    + cbn [target_spec]. unfold sms_validator_post in Eq. unfold bind at 1 in Eq. rewrite Ex in Eq.
      inversion Eq; subst. exact Us0.
  - cbn [target_spec]. unfold sms_validator_post in Eq. unfold bind at 1 in Eq. rewrite Ex in Eq.
    destruct (subject E k_sms_pending (users h)) as [[P u]|]; [|inversion Eq; subst; exact Us0].
    cbn beta iota in Eq. rewrite (unreadable_bind E _ h0 Rd) in Eq. inversion Eq; subst. exact Us0.
Qed.

(* what the wrapper leaves: no cached pid, or the cached pid of a half-authenticated view *)
Definition wctx (h : hst) : Prop :=
  h_cpid h = None \/ (h_cpid h = Some (aget k_uid (e_sess E)) /\ ahas k_halfauth (e_sess E) = true).

Lemma wctx_cpid_ok h : wctx h -> cpid_ok E h.
Proof. unfold cpid_ok. intros [->|(-> & _)]; reflexivity. Qed.

(* the two SMS settings posts sit behind the full-auth gate: a half-authenticated view is refused
   before the validator runs, and [mw_user] says so *)
Lemma behind_halfauth_users inner h r h' :
  ahas k_halfauth (e_sess E) = true -> behind E true inner h = (r, h') -> users h' = users h.
Proof.
  intros Hh Eq. rewrite (behind_halfauth E inner h Hh) in Eq.
  assert (G : rl (Rk h_st) (mw_fail E true (c_unauthed (e_cfg E)) ;;; ret tt)).
  { apply rl_bind; [exact _|apply mw_fail_keeps_st|intros; apply rl_ret; exact _]. }
  unfold users. rewrite (G _ _ _ Eq). reflexivity.
Qed.

Lemma sms_set_target_gen p h r h' :
  p <> SPValidate -> filed (h_st h) -> h_cuser h = None -> wctx h ->
  chandler E (CSms p) h = (r, h') -> triples_by E (sms_set_tgt E p (users h)) (users h) (users h').
Proof.
  intros Np Fl Hc [Hp|(Hp & Hh)] Eq.
  - exact (sms_set_target E nofaults ND HM p h r h' Np Fl Hc Hp Eq).
  - assert (T : sms_set_tgt E p (users h) = None).
    { unfold sms_set_tgt, mw_user. rewrite Hh. reflexivity. }
    rewrite T. apply triples_of_eq.
    destruct p; [| |exfalso; apply Np; reflexivity]; cbn [chandler] in Eq.
    + unfold verified in Eq. exact (behind_halfauth_users _ _ _ _ Hh Eq).
    + exact (behind_halfauth_users _ _ _ _ Hh Eq).
Qed.

Lemma req_target_gen k h r h' :
  filed (h_st h) -> h_cuser h = None -> wctx h ->
  chandler E k h = (r, h') -> triples_by E (req_tgt E k (users h)) (users h) (users h').
Proof.
  intros Fl Hc Hw Eq. pose proof (filed_keyed _ Fl) as Ky. pose proof (wctx_cpid_ok _ Hw) as Hp.
  destruct k as [| | |p| |prov]; cbn [req_tgt].
  - apply triples_of_target. exact (login_target E nofaults ND HM h r h' Eq Ky).
  - apply triples_of_target. exact (otp_target E nofaults ND HM h r h' Eq Ky).
  - apply triples_of_target. exact (totp_target_gen h r h' Eq Hc Hp Ky).
  - destruct p.
    + apply sms_set_target_gen with (r := r); auto; discriminate.
    + apply sms_set_target_gen with (r := r); auto; discriminate.
    + apply triples_of_target. exact (sms_target_gen h r h' Eq Hc Hp Ky).
  - apply triples_of_target. exact (recover_target E nofaults ND HM h r h' Eq Fl).
  - apply triples_of_target. exact (oauth_target E nofaults ND HM prov h r h' Eq Ky).
Qed.

(* [serve_triples] of LockWorld2.v from such a start state *)
Lemma serve_triples_gen h r h' :
  filed (h_st h) -> h_cuser h = None -> wctx h -> serve E h = (r, h') ->
  filed (h_st h') /\ triples_by E (serve_tgt E (users h)) (users h) (users h').
Proof.
  intros Fl Hc Hw Eq. split.
  { exact (proj1 (serve_keeps_shape E h r h' Fl (ctx_stored_none h Hc) Eq)). }
  unfold serve_tgt. destruct (ckind_of (e_cfg E) (e_req E)) as [k|] eqn:CK.
  - unfold serve in Eq. rewrite (route_cred E k CK) in Eq.
    apply weh_users in Eq as (r1 & h1 & F & Us). rewrite Us.
    exact (req_target_gen k h r1 h1 Fl Hc Hw F).
  - destruct (serve_keeps_triples_lemma E CK h r h' Fl (ctx_stored_none h Hc) Eq) as (_ & K).
    exact (triples_of_keeps E _ _ K).
Qed.
End WLW.

(* ================================================================================================ *)
(* Part C: [serve_top] from the start of a request                                                  *)
(* ================================================================================================ *)
(* the session view the wrapper hands to the route: the session as it arrived, or - when the wrapper
   logged the cookie's owner in - its half-authenticated overlay *)
Definition wrap_view (E : env) (h : hst) : amap :=
  match h_cpid (snd (remember_mw E h)) with
  | Some pid => half_view pid (e_sess E)
  | None => e_sess E
  end.

(* the environment the route's handler runs in, under the router as mounted *)
Definition wenv (E : env) (st : storage) (O : oracle) : env :=
  if wrapped_route E then with_sess E (wrap_view E (init_hst st O)) else E.

Lemma wenv_plain E st O : wrapped_route E = false -> wenv E st O = E.
Proof. unfold wenv. intros ->. reflexivity. Qed.

(* one request at the level of [serve_top]: the route's target evaluated on the view after the
   wrapper and on the user table the request started from (the wrapper does not touch it) *)
Lemma serve_top_triples E st O r h' :
  o_faults (e_O E) = [] -> NoDup (c_mods (e_cfg E)) -> has_mod (e_cfg E) MLock = true -> filed st ->
  serve_top E (init_hst st O) = (r, h') ->
  filed (h_st h') /\ triples_by E (serve_tgt (wenv E st O) (s_users st)) (s_users st) (users h').
Proof.
  intros NF ND HM Fl Eq. unfold wenv.
  apply serve_top_inv in Eq as [(W & Eq)|(W & h1 & s2 & RM & RV & Eq)]; rewrite W.
  - exact (serve_triples E (init_hst st O) r h' NF ND HM Fl eq_refl eq_refl Eq).
  - assert (S2 : wrap_view E (init_hst st O) = s2).
    { unfold wrap_view. rewrite RM. cbn [snd]. apply remembered_view_inv in RV as [_ RV].
      inversion RV as [S2]. unfold half_view. reflexivity. }
    rewrite S2.
    destruct (wrapper_result E st O h1 s2 RM RV) as (Ku & Kc & _ & Hd).
    assert (Fl1 : filed (h_st h1)) by (unfold filed; rewrite Ku; exact Fl).
    assert (Hw : wctx (with_sess E s2) h1).
    { destruct Hd as [(Hp & _)|(pid & Hp & -> & _)]; [left; exact Hp|right].
      cbn [with_sess e_sess]. rewrite aget_uid_overlay. split; [exact Hp|apply ahas_halfauth_view]. }
    destruct (serve_triples_gen (with_sess E s2) NF ND HM h1 r h' Fl1 Kc Hw Eq) as (F' & T).
    split; [exact F'|]. unfold users in T at 1 2. rewrite Ku in T. exact T.
Qed.

(* ---- the wrapper, purely ------------------------------------------------------------------------ *)
(* whom remember.Middleware logs in, without backend faults: nobody when the session names somebody;
   otherwise the account named by a well-formed remember cookie whose token storage still holds *)
Definition wrap_pid (E : env) (st : storage) : option bytes :=
  if bempty (aget k_uid (e_sess E)) then
    match alookup k_rm (e_cook E) with
    | None => None
    | Some cookie =>
        match b64url_dec cookie with
        | None => None
        | Some raw =>
            match rm_parse_pid raw with
            | None => None
            | Some pid =>
                if bmem (b64std_enc (sha (e_C E) raw)) (rmlookup pid (s_rm st)) then Some pid else None
            end
        end
    end
  else None.

Lemma remember_mw_cpid_exact E h :
  o_faults (e_O E) = [] -> h_cpid h = None -> h_cpid (snd (remember_mw E h)) = wrap_pid E (h_st h).
Proof.
  intros NF Hp. unfold remember_mw, wrap_pid. unfold bind at 1. rewrite (current_user_id_nocache _ _ Hp).
  destruct (bempty (aget k_uid (e_sess E))); [|exact Hp].
  unfold try at 1, remember_authenticate.
  destruct (alookup k_rm (e_cook E)) as [cookie|]; [|exact Hp].
  destruct (b64url_dec cookie) as [raw|]; [|exact Hp].
  destruct (rm_parse_pid raw) as [pid|]; [|exact Hp].
  cbv zeta. unfold try at 1, st_use_rm. rewrite (backend_nofault E NF). cbn [h_st set].
  match goal with |- context [bmem ?t ?l] => destruct (bmem t l) end; [|exact Hp].
  unfold bind at 1, rm_generate at 1. unfold bind at 1, fresh at 1. cbn [h_fresh set].
  destruct (take_chunk 32 (h_fresh h)) as [[c rest]|]; unfold ret at 1; cbn beta iota zeta;
    unfold bind at 1, try at 1, st_add_rm; rewrite (backend_nofault E NF); reflexivity.
Qed.

Lemma wrap_view_exact E st O :
  o_faults (e_O E) = [] ->
  wrap_view E (init_hst st O) =
  match wrap_pid E st with Some pid => half_view pid (e_sess E) | None => e_sess E end.
Proof. intros NF. unfold wrap_view. rewrite (remember_mw_cpid_exact E (init_hst st O) NF eq_refl). reflexivity. Qed.

(* the wrapper is the identity on the state when the request carries no remember cookie or the
   session already has an identity: the wrapped router is the plain one *)
Definition wrapper_idle (E : env) : Prop :=
  alookup k_rm (e_cook E) = None \/ bempty (aget k_uid (e_sess E)) = false.

Lemma remember_mw_idle E h : h_cpid h = None -> wrapper_idle E -> remember_mw E h = (Ok tt, h).
Proof. intros Hp [Hk|Hb]; [apply remember_mw_nocookie|apply remember_mw_hasid]; assumption. Qed.

Lemma serve_top_idle E h : h_cpid h = None -> wrapper_idle E -> serve_top E h = serve E h.
Proof.
  intros Hp Hi. destruct (wrapped_route E) eqn:W; [|rewrite (serve_top_plain _ W); reflexivity].
  rewrite (serve_top_wrapped _ W). unfold bind at 1. rewrite (remember_mw_idle E h Hp Hi).
  unfold bind. rewrite (remembered_view_nocache _ _ Hp). rewrite with_sess_same. reflexivity.
Qed.

Lemma wenv_idle E st O : wrapper_idle E -> wenv E st O = E.
Proof.
  intros Hi. unfold wenv. destruct (wrapped_route E); [|reflexivity].
  unfold wrap_view. rewrite (remember_mw_idle E (init_hst st O) eq_refl Hi). cbn [snd init_hst h_cpid].
  apply with_sess_same.
Qed.

(* ================================================================================================ *)
(* Part D: one [wstep], histories of [wrun]                                                          *)
(* ================================================================================================ *)
Section WStep.
Variable C : crypto.
Variable cfg : config.

(* the environment a request's handler runs in under [wstep]: the jars' view, overlaid by the wrapper
   on the module routes of a wrapped deployment *)
Definition wenv_of (w : world) (req : request) (O : oracle) : env := wenv (env_of C cfg w req O) (w_st w) O.

(* the machine operations action [a], taken in world [w] under oracle [O] by the router as mounted,
   applies to account P *)
Definition wlock_ops (w : world) (a : action) (O : oracle) (P : bytes) : list lop :=
  match a with
  | AReq req => t_ops (serve_tgt (wenv_of w req O) (s_users (w_st w))) P
  | _ => lock_ops C cfg w a O P
  end.

Lemma wstep_req_st w req O :
  w_st (fst (wstep C cfg w (AReq req) O)) =
  h_st (snd (serve_top (env_of C cfg w req O) (init_hst (w_st w) O))).
Proof.
  unfold wstep, env_of. cbv zeta. destruct (serve_top _ _) as [r0 h]. cbn [fst snd]. destruct (h_out h); reflexivity.
Qed.

Theorem wstep_applies_machine_lemma w a O :
  NoDup (c_mods cfg) -> has_mod cfg MLock = true -> o_faults O = [] -> filed (w_st w) -> seed_keeps w a ->
  forall P u, ulookup P (s_users (w_st w)) = Some u ->
  exists u', ulookup P (s_users (w_st (fst (wstep C cfg w a O)))) = Some u' /\
             ltriple u' = lrun (lc_of cfg) (ltriple u) (wlock_ops w a O P).
Proof.
  intros ND HM NF Fl Sk P u Lu.
  destruct a as [req|pid|pid|pid pw|pid|su rm|b k v|ck b j];
    try exact (step_applies_machine_lemma C cfg w _ O ND HM NF Fl Sk P u Lu).
  rewrite wstep_req_st.
  destruct (serve_top (env_of C cfg w req O) (init_hst (w_st w) O)) as [r h'] eqn:Sv. cbn [snd].
  destruct (serve_top_triples (env_of C cfg w req O) (w_st w) O r h' NF ND HM Fl Sv) as (_ & T).
  exact (T P u Lu).
Qed.

Theorem wstep_filed_lemma w a O : filed (w_st w) -> filed (w_st (fst (wstep C cfg w a O))).
Proof.
  intros Fl. destruct a as [req|pid|pid|pid pw|pid|su rm|b k v|ck b j];
    try exact (step_filed_lemma C cfg w _ O Fl).
  rewrite wstep_req_st. destruct (serve_top _ _) as [r h'] eqn:Sv. cbn [snd].
  exact (serve_top_keeps_filed _ (init_hst (w_st w) O) _ _ Fl Sv).
Qed.

(* ---- histories -------------------------------------------------------------------------------- *)
Fixpoint wrun_ops (w : world) (l : list (action * oracle)) (P : bytes) : list (list lop) :=
  match l with
  | [] => []
  | (a, orc) :: r => wlock_ops w a orc P :: wrun_ops (fst (wstep C cfg w a orc)) r P
  end.

Fixpoint wseeds_keep (w : world) (l : list (action * oracle)) : Prop :=
  match l with
  | [] => True
  | (a, orc) :: r => seed_keeps w a /\ wseeds_keep (fst (wstep C cfg w a orc)) r
  end.

Lemma wrun_cons w a O l : fst (wrun C cfg w ((a, O) :: l)) = fst (wrun C cfg (fst (wstep C cfg w a O)) l).
Proof.
  cbn [wrun]. destruct (wstep C cfg w a O) as [w1 o1]. cbn [fst]. destruct (wrun C cfg w1 l) as [w2 os]. reflexivity.
Qed.

Lemma wrun_filed_lemma l : forall w, filed (w_st w) -> filed (w_st (fst (wrun C cfg w l))).
Proof.
  induction l as [|[a O] l IH]; intros w Fl; [exact Fl|].
  rewrite wrun_cons. apply IH. apply wstep_filed_lemma. exact Fl.
Qed.

Theorem wrun_applies_machine_lemma l : forall w,
  NoDup (c_mods cfg) -> has_mod cfg MLock = true -> Forall (fun ao => o_faults (snd ao) = []) l ->
  filed (w_st w) -> wseeds_keep w l ->
  forall P u, ulookup P (s_users (w_st w)) = Some u ->
  exists u', ulookup P (s_users (w_st (fst (wrun C cfg w l)))) = Some u' /\
             ltriple u' = lrun (lc_of cfg) (ltriple u) (concat (wrun_ops w l P)).
Proof.
  induction l as [|[a O] l IH]; intros w ND HM NF Fl Sk P u Lu.
  - exists u. split; [exact Lu|reflexivity].
  - inversion NF as [|? ? N1 N2]; subst. cbn [snd] in N1. destruct Sk as (S1 & S2).
    destruct (wstep_applies_machine_lemma w a O ND HM N1 Fl S1 P u Lu) as (u1 & L1 & T1).
    destruct (IH _ ND HM N2 (wstep_filed_lemma w a O Fl) S2 P u1 L1) as (u2 & L2 & T2).
    exists u2. rewrite wrun_cons. split; [exact L2|].
    cbn [wrun_ops concat]. rewrite T2, T1. unfold lrun. rewrite fold_left_app. reflexivity.
Qed.

(* ---- readings of [wlock_ops] ------------------------------------------------------------------- *)
Lemma wlock_ops_request_lemma w req O P :
  wlock_ops w (AReq req) O P =
  match ckind_of cfg req with
  | Some k =>
      match req_tgt (wenv_of w req O) k (s_users (w_st w)) with
      | Some (P0, ops) => if beqb P P0 then ops else []
      | None => []
      end
  | None => []
  end.
Proof.
  unfold wlock_ops, serve_tgt, t_ops.
  assert (Ec : e_cfg (wenv_of w req O) = cfg /\ e_req (wenv_of w req O) = req).
  { unfold wenv_of, wenv. destruct (wrapped_route _); split; reflexivity. }
  destruct Ec as (-> & ->). destruct (ckind_of cfg req); reflexivity.
Qed.

(* the view the handler sees, purely (no backend faults) *)
Lemma wenv_of_exact w req O :
  o_faults O = [] ->
  let E := env_of C cfg w req O in
  wenv_of w req O =
  if wrapped_route E then
    with_sess E (match wrap_pid E (w_st w) with Some pid => half_view pid (e_sess E) | None => e_sess E end)
  else E.
Proof.
  intros NF E. unfold wenv_of, wenv. fold E. destruct (wrapped_route E); [|reflexivity].
  rewrite (wrap_view_exact E (w_st w) O NF). reflexivity.
Qed.

(* 3. without the global wrapper, on an application route, without a remember cookie and with a
   session that already names somebody, [wlock_ops] is [lock_ops] (and [wstep] is [step]) *)
Lemma wlock_ops_of_env w req O P :
  wenv_of w req O = env_of C cfg w req O -> wlock_ops w (AReq req) O P = lock_ops C cfg w (AReq req) O P.
Proof. intros H. unfold wlock_ops, lock_ops. rewrite H. reflexivity. Qed.

Theorem wlock_ops_unwrapped_lemma w a O P :
  c_wrap_remember cfg = false -> wlock_ops w a O P = lock_ops C cfg w a O P.
Proof.
  intros H. destruct a as [req| | | | | | |]; try reflexivity.
  apply wlock_ops_of_env. apply wenv_plain. unfold wrapped_route. cbn [env_of e_cfg]. rewrite H. reflexivity.
Qed.

Lemma wlock_ops_app_lemma w req O P full tf fr l c r e :
  q_route req = RApp full tf fr l c r e -> wlock_ops w (AReq req) O P = lock_ops C cfg w (AReq req) O P.
Proof.
  intros H. apply wlock_ops_of_env. apply wenv_plain. unfold wrapped_route. cbn [env_of e_req]. rewrite H.
  cbn [is_app negb]. apply Bool.andb_false_r.
Qed.

Lemma wlock_ops_idle_lemma w req O P :
  wrapper_idle (env_of C cfg w req O) ->
  wlock_ops w (AReq req) O P = lock_ops C cfg w (AReq req) O P /\
  wstep C cfg w (AReq req) O = step C cfg w (AReq req) O.
Proof.
  intros Hi. split.
  - apply wlock_ops_of_env. apply wenv_idle. exact Hi.
  - unfold wstep, step. cbv zeta. fold (env_of C cfg w req O).
    rewrite (serve_top_idle (env_of C cfg w req O) (init_hst (w_st w) O) eq_refl Hi). reflexivity.
Qed.

(* [wlock_ops] names at most one account *)
Lemma wlock_ops_one_account_lemma w req O P P' :
  wlock_ops w (AReq req) O P <> [] -> wlock_ops w (AReq req) O P' <> [] -> P = P'.
Proof.
  rewrite !wlock_ops_request_lemma. destruct (ckind_of cfg req) as [k|]; [|intros H; contradiction H; reflexivity].
  destruct (req_tgt (wenv_of w req O) k (s_users (w_st w))) as [[P0 ops]|]; [|intros H; contradiction H; reflexivity].
  destruct (beqb P P0) eqn:E1; [|intros H; contradiction H; reflexivity].
  destruct (beqb P' P0) eqn:E2; [|intros _ H; contradiction H; reflexivity].
  apply beqb_eq in E1. apply beqb_eq in E2. congruence.
Qed.

(* the routes whose target does not look at the session identity: password login, one-time password
   login, recover end, OAuth2 callback - there the wrapper changes nothing for the lock machine *)
Definition sess_free (k : ckind) : bool := match k with CTotp | CSms _ => false | _ => true end.

Lemma req_tgt_view E pid k us :
  sess_free k = true -> req_tgt (with_sess E (half_view pid (e_sess E))) k us = req_tgt E k us.
Proof.
  destruct k as [| | |p| |prov]; try discriminate; intros _; cbn [req_tgt]; try reflexivity.
  unfold oauth_tgt, oauth_reaches. cbn [with_sess e_sess e_cfg e_O]. unfold half_view.
  rewrite view_lookup_other by (intro H; vm_compute in H; discriminate H). reflexivity.
Qed.

Lemma wrap_view_cases E h : wrap_view E h = e_sess E \/ exists pid, wrap_view E h = half_view pid (e_sess E).
Proof. unfold wrap_view. destruct (h_cpid _) as [pid|]; [right; exists pid; reflexivity|left; reflexivity]. Qed.

Lemma wlock_ops_sess_free_lemma w req O P k :
  ckind_of cfg req = Some k -> sess_free k = true ->
  wlock_ops w (AReq req) O P = lock_ops C cfg w (AReq req) O P.
Proof.
  intros CK Sf. rewrite wlock_ops_request_lemma, lock_ops_request_lemma, CK.
  unfold wenv_of, wenv. destruct (wrapped_route (env_of C cfg w req O)); [|reflexivity].
  destruct (wrap_view_cases (env_of C cfg w req O) (init_hst (w_st w) O)) as [->|(pid & ->)].
  - rewrite with_sess_same. reflexivity.
  - rewrite (req_tgt_view _ pid k _ Sf). reflexivity.
Qed.

(* ... whereas a second-factor validation that arrives with the remember cookie of account pid and no
   session identity is checked against pid's secret and counted on pid's triple: the wrapper logged
   pid in (half-authenticated) and TOTP.validate takes the current user *)
Lemma subject_view E pid key us u :
  bempty pid = false -> ulookup pid us = Some u ->
  subject (with_sess E (half_view pid (e_sess E))) key us = Some (pid, u).
Proof.
  intros Hb Lu. unfold subject. cbn [with_sess e_sess]. unfold half_view. rewrite aget_uid_overlay, Hb, Lu. reflexivity.
Qed.

Lemma wlock_ops_totp_remembered_lemma w req O P pid u :
  o_faults O = [] ->
  q_route req = RTotpValidate -> q_meth req = POST -> c_totp cfg = true -> c_wrap_remember cfg = true ->
  let E := env_of C cfg w req O in
  wrap_pid E (w_st w) = Some pid -> bempty pid = false -> ulookup pid (s_users (w_st w)) = Some u ->
  wlock_ops w (AReq req) O P =
  if readable E then (if beqb P pid then verdict_ops E (totp_verdict E u) (blocked E u) else []) else [].
Proof.
  intros NF Hr Hm Ht Hw E Wp Hb Lu. rewrite wlock_ops_request_lemma. unfold ckind_of. rewrite Hr, Hm, Ht.
  rewrite (wenv_of_exact w req O NF). fold E. rewrite Wp.
  assert (W : wrapped_route E = true).
  { unfold wrapped_route. cbn [E env_of e_cfg e_req]. rewrite Hw, Hr. reflexivity. }
  rewrite W. cbn [req_tgt]. unfold totp_tgt.
  change (readable (with_sess E (half_view pid (e_sess E)))) with (readable E).
  destruct (readable E); [|reflexivity].
  rewrite (subject_view E pid k_totp_pending _ u Hb Lu). reflexivity.
Qed.

(* a password login under the wrapper: what [lock_ops_login_lemma] says, cookie or not *)
Lemma wlock_ops_login_lemma w req O P :
  q_route req = RLogin -> q_meth req = POST -> has_mod cfg MAuth = true ->
  let E := env_of C cfg w req O in
  let pid := aget (pid_field E) (values E) in
  wlock_ops w (AReq req) O P =
  if readable E then
    match ulookup pid (s_users (w_st w)) with
    | Some u =>
        if beqb P pid then
          (if pwcheck C (u_password u) (aget f_password (values E))
           then ok_ops E (blocked E u || enrolled E u) else [LFail (o_now O)])
        else []
    | None => []
    end
  else [].
Proof.
  intros Hr Hm Ha. cbv zeta. rewrite (wlock_ops_sess_free_lemma w req O P CLogin).
  - exact (lock_ops_login_lemma C cfg w req O P Hr Hm Ha).
  - unfold ckind_of. rewrite Hr, Hm, Ha. reflexivity.
  - reflexivity.
Qed.

Theorem wstep_filed_keyed_lemma w a O :
  filed (w_st w) -> filed (w_st (fst (wstep C cfg w a O))) /\ keyed (w_st (fst (wstep C cfg w a O))).
Proof. intros Fl. pose proof (wstep_filed_lemma w a O Fl) as F. split; [exact F|exact (filed_keyed _ F)]. Qed.

Lemma wrun_ops_unwrapped_lemma : c_wrap_remember cfg = false ->
  forall l w P, wrun_ops w l P = run_ops C cfg w l P /\ (wseeds_keep w l <-> seeds_keep C cfg w l) /\
                wrun C cfg w l = run C cfg w l.
Proof.
  intros H. induction l as [|[a O] l IH]; intros w P.
  - split; [reflexivity|]. split; [reflexivity|reflexivity].
  - cbn [wrun_ops run_ops wseeds_keep seeds_keep]. rewrite (wstep_unwrapped C cfg w a O H).
    destruct (IH (fst (step C cfg w a O)) P) as (I1 & I2 & _).
    rewrite I1, (wlock_ops_unwrapped_lemma w a O P H). split; [reflexivity|]. split; [rewrite I2; reflexivity|].
    apply wrun_unwrapped. exact H.
Qed.
End WStep.

From AB Require Import Spec.C04 Proofs.LockProofs.

Theorem wworld_refines_lemma C cfg l w :
  NoDup (c_mods cfg) -> has_mod cfg MLock = true -> Forall (fun ao => o_faults (snd ao) = []) l ->
  filed (w_st w) -> wseeds_keep C cfg w l ->
  forall P u h0, ulookup P (s_users (w_st w)) = Some u -> ltriple u = lrun (lc_of cfg) l_init h0 ->
  let H := h0 ++ concat (wrun_ops C cfg w l P) in
  exists u', ulookup P (s_users (w_st (fst (wrun C cfg w l)))) = Some u' /\
    ltriple u' = lrun (lc_of cfg) l_init H /\
    u_attempts u' = streak (lc_of cfg) (rev H) /\
    u_last u' = last_stamp (lc_of cfg) (rev H) /\
    u_locked u' = locked_until (lc_of cfg) (rev H) /\
    (forall t, locked_at (ltriple u') t = true <-> t < locked_until (lc_of cfg) (rev H)).
Proof.
  intros ND HM NF Fl Sk P u h0 Lu L0 H.
  destruct (wrun_applies_machine_lemma C cfg l w ND HM NF Fl Sk P u Lu) as (u' & L' & T').
  exists u'. split; [exact L'|].
  assert (TH : ltriple u' = lrun (lc_of cfg) l_init H).
  { rewrite T', L0. unfold H, lrun. rewrite fold_left_app. reflexivity. }
  split; [exact TH|].
  destruct (c04_refines_lemma (lc_of cfg) H) as (R1 & R2 & R3). rewrite <- TH in R1, R2, R3.
  repeat split; try assumption.
  - intros Ht. rewrite TH in Ht. apply c04_locked_iff_lemma. exact Ht.
  - intros Ht. rewrite TH. apply c04_locked_iff_lemma. exact Ht.
Qed.

(* ---- the hypotheses are satisfiable under the wrapper: a concrete wrapped deployment ------------- *)
(* auth + lock + remember, module routes behind the global remember wrapper, LockAfter 3 / window
   300 s / duration 3600 s.  The harness seeds one fresh account together with one remember token
   and puts the matching cookie into browser "b"; then the history of LockWorld2.v: three wrong
   passwords, the right one while locked, a manual unlock, the right one.  The first request carries
   the cookie and no session identity: the wrapper consumes the token and logs the owner in
   (half-authenticated) before the login handler counts the failure. *)
Definition ex_wcfg : config :=
  mkConfig [MAuth; MLock; MRemember] false false false false false false 3 300 3600 3600 3600 [] false false false
           DELETE GET false [] RespNotFound [] [] false false true.
Definition ex_raw : bytes := ex_pid ++ ";"%byte :: repeat "n"%byte 32.
Definition ex_cookie : bytes := b64url_enc ex_raw.
Definition ex_token : bytes := b64std_enc (sha ex_crypto ex_raw).
Definition ex_wreq (pw : string) : request :=
  mkRequest (bs "b") POST RLogin (bs "/login") [] [] [(bs "email", ex_pid); (bs "password", bs pw)] false.
Definition ex_wstart : world :=
  fst (wstep ex_crypto ex_wcfg
         (fst (wstep ex_crypto ex_wcfg empty_world (ASeed ex_user [ex_token]) (ex_oracle 900)))
         (ASetJar true (bs "b") [(k_rm, ex_cookie)]) (ex_oracle 901)).

Lemma wworld_example_lemma :
  c_wrap_remember ex_wcfg = true /\
  NoDup (c_mods ex_wcfg) /\ has_mod ex_wcfg MLock = true /\
  Forall (fun ao => o_faults (snd ao) = []) ex_history /\
  filed (w_st ex_wstart) /\ wseeds_keep ex_crypto ex_wcfg ex_wstart ex_history /\
  ulookup ex_pid (s_users (w_st ex_wstart)) = Some ex_user /\ ltriple ex_user = l_init /\
  ex_login "wrong" = AReq (ex_wreq "wrong") /\
  wrapped_route (env_of ex_crypto ex_wcfg ex_wstart (ex_wreq "wrong") (ex_oracle 1000)) = true /\
  wrap_pid (env_of ex_crypto ex_wcfg ex_wstart (ex_wreq "wrong") (ex_oracle 1000)) (w_st ex_wstart) = Some ex_pid /\
  concat (wrun_ops ex_crypto ex_wcfg ex_wstart ex_history ex_pid) =
    [LFail 1000; LFail 1010; LFail 1020; LOkBefore 1030; LUnlock 1040; LOkBefore 1050; LOkAfter 1050] /\
  bmem ex_token (rmlookup ex_pid (s_rm (w_st (fst (wrun ex_crypto ex_wcfg ex_wstart ex_history))))) = false /\
  exists u', ulookup ex_pid (s_users (w_st (fst (wrun ex_crypto ex_wcfg ex_wstart ex_history)))) = Some u' /\
    u_attempts u' = 0 /\ u_last u' = 1050 /\ u_locked u' = 1040 - 3600.
Proof.
  assert (WR : c_wrap_remember ex_wcfg = true) by reflexivity.
  assert (ND : NoDup (c_mods ex_wcfg)).
  { cbn. repeat constructor; cbn; intuition discriminate. }
  assert (HM : has_mod ex_wcfg MLock = true) by reflexivity.
  assert (NF : Forall (fun ao => o_faults (snd ao) = []) ex_history) by (repeat constructor).
  assert (Fl : filed (w_st ex_wstart)).
  { apply wstep_filed_lemma. apply wstep_filed_lemma. split; [constructor|intros k u []]. }
  assert (Sk : wseeds_keep ex_crypto ex_wcfg ex_wstart ex_history)
    by (cbn [ex_history wseeds_keep seed_keeps ex_login]; tauto).
  assert (Lu : ulookup ex_pid (s_users (w_st ex_wstart)) = Some ex_user) by (vm_compute; reflexivity).
  assert (L0 : ltriple ex_user = l_init) by reflexivity.
  assert (Rq : ex_login "wrong" = AReq (ex_wreq "wrong")) by reflexivity.
  assert (Wr : wrapped_route (env_of ex_crypto ex_wcfg ex_wstart (ex_wreq "wrong") (ex_oracle 1000)) = true)
    by reflexivity.
  assert (Wp : wrap_pid (env_of ex_crypto ex_wcfg ex_wstart (ex_wreq "wrong") (ex_oracle 1000)) (w_st ex_wstart)
               = Some ex_pid) by (vm_compute; reflexivity).
  assert (Ops : concat (wrun_ops ex_crypto ex_wcfg ex_wstart ex_history ex_pid) =
                [LFail 1000; LFail 1010; LFail 1020; LOkBefore 1030; LUnlock 1040; LOkBefore 1050; LOkAfter 1050])
    by (vm_compute; reflexivity).
  assert (Tk : bmem ex_token (rmlookup ex_pid (s_rm (w_st (fst (wrun ex_crypto ex_wcfg ex_wstart ex_history))))) = false)
    by (vm_compute; reflexivity).
  repeat (split; [assumption|]).
  destruct (wworld_refines_lemma ex_crypto ex_wcfg ex_history ex_wstart ND HM NF Fl Sk ex_pid ex_user [] Lu L0)
    as (u' & L' & _ & R1 & R2 & R3 & _).
  rewrite Ops in R1, R2, R3. cbn [app] in R1, R2, R3.
  exists u'. split; [exact L'|]. rewrite R1, R2, R3. vm_compute. repeat split; reflexivity.
Qed.
