(* C12 over whole histories: a one-time password that a login consumed never works again, whatever
   happens in between (any number of steps, any browsers, backend faults included).

   Ingredients
     - [hits inp l]: how many entries of a stored list the matcher of /otp/login accepts for the hash
       [inp] ([otp_hit], Proofs/OnceProofs.v); "absent" is [hits = 0], "unique" is [hits <= 1];
     - a Hoare logic [ow] over the handler monad, in the style of [sw] (Proofs/StoreShape.v) but with
       an invariant that knows WHERE a new entry comes from: for every hash outside a class [NH]
       the number of accepted entries of every record never grows, and every new recovery-code entry
       is empty, old, or in a class [NR]; [NH] / [NR] are empty except on the routes that draw the
       secret from the oracle's fresh randomness (/otp/add; recovery-code regeneration and the two
       2FA set-up confirmations), where they are the hashes of the candidates the oracle offers;
     - the lift to [serve], the administrative operations, [step] and [run];
     - the refusal at step level (no session key other than a flash message changes in any jar);
     - the consumption step; the history theorem; a computed example. *)
From AB Require Import World.Step World.Exec Base.Base64Proofs Proofs.EvLogic Proofs.Neutral Proofs.HandlerEvents Proofs.ServeEvents
  Proofs.StepUid Proofs.MonadInv Proofs.StoreLogic Proofs.Guards Proofs.Guards2 Proofs.Guards3 Proofs.StepGuard Proofs.StepAll
  Proofs.OneTimeProofs Proofs.TwoFactorProofs Proofs.OnceProofs Proofs.StoreShape Proofs.Footprint Proofs.Wrapped Proofs.HistoryProofs.
Open Scope Z_scope.

(* ================================================================================================ *)
(* A. counting accepted entries                                                                      *)
(* ================================================================================================ *)
Definition hits (inp : bytes) (l : list bytes) : nat := length (filter (otp_hit inp) l).

Lemma hits_app inp a b : hits inp (a ++ b) = (hits inp a + hits inp b)%nat.
Proof. unfold hits. rewrite filter_app, app_length. reflexivity. Qed.

Lemma hits_zero inp l : hits inp l = 0%nat <-> forall y, In y l -> otp_hit inp y = false.
Proof.
  unfold hits. split.
  - intros H y Hy. destruct (otp_hit inp y) eqn:Hh; [|reflexivity]. exfalso.
    assert (Hf : In y (filter (otp_hit inp) l)) by (apply filter_In; auto).
    destruct (filter (otp_hit inp) l); [exact Hf|discriminate H].
  - intros H. induction l as [|a l IH]; [reflexivity|]. cbn [filter].
    rewrite (H a (or_introl eq_refl)). apply IH. intros y Hy. apply H. right. exact Hy.
Qed.

Lemma hits_split_join inp l :
  Forall (nosep ","%byte) l -> (hits inp (split_otps (join_otps l)) <= hits inp l)%nat.
Proof.
  intros F. unfold split_otps, join_otps. destruct (bempty (bjoin ","%byte l)) eqn:Be; [unfold hits; simpl; lia|].
  destruct l as [|a l']; [discriminate Be|]. rewrite bsplit_bjoin; [lia|discriminate|exact F].
Qed.

Lemma hits_firstn_skipn inp (l : list bytes) : forall i,
  (hits inp (firstn i l) + hits inp (skipn (S i) l) <= hits inp l)%nat.
Proof.
  induction l as [|y l IH]; intros i.
  - destruct i; unfold hits; simpl; lia.
  - destruct i as [|i].
    + cbn [firstn skipn]. unfold hits. cbn [filter]. destruct (otp_hit inp y); simpl; lia.
    + change (skipn (S (S i)) (y :: l)) with (skipn (S i) l). cbn [firstn]. specialize (IH i). unfold hits in *. cbn [filter].
      destruct (otp_hit inp y); cbn [length]; lia.
Qed.

Lemma hits_otp_remove inp (l : list bytes) i : (hits inp (otp_remove l i) <= hits inp l)%nat.
Proof.
  destruct l as [|x l] using rev_ind; [unfold otp_remove; simpl; lia|]. clear IHl.
  rewrite otp_remove_snoc, hits_app. destruct (Nat.eqb i (length l)); [lia|].
  rewrite hits_app. change (x :: skipn (S i) l) with ([x] ++ skipn (S i) l). rewrite hits_app.
  pose proof (hits_firstn_skipn inp l i). lia.
Qed.

Lemma otp_hit_enc inp d : otp_hit inp (b64std_enc d) = beqb inp d.
Proof. unfold otp_hit. rewrite b64std_dec_enc. reflexivity. Qed.

(* the candidates [fresh n] can return when the oracle offers the chunks F: a chunk of that size,
   or the all-zero default when there is none *)
Definition fresh_cands (n : nat) (F : list bytes) : list bytes :=
  filter (fun c => Nat.eqb (length c) n) F ++ [repeat x00 n].

Lemma take_chunk_spec n : forall l c t, take_chunk n l = Some (c, t) -> In c l /\ length c = n /\ incl t l.
Proof.
  induction l as [|x l IH]; intros c t Eq; cbn [take_chunk] in Eq; [discriminate|].
  destruct (Nat.eqb (length x) n) eqn:Ln.
  - inversion Eq; subst. apply Nat.eqb_eq in Ln. split; [left; reflexivity|]. split; [exact Ln|].
    intros y Hy. right. exact Hy.
  - destruct (take_chunk n l) as [[y t']|] eqn:Tk; [|discriminate]. inversion Eq; subst.
    destruct (IH _ _ eq_refl) as (A1 & A2 & A3). split; [right; exact A1|]. split; [exact A2|].
    intros z [<-|Hz]; [left; reflexivity|right; apply A3; exact Hz].
Qed.

Lemma fresh_cands_incl n F F' : incl F' F -> incl (fresh_cands n F') (fresh_cands n F).
Proof.
  intros I c Hc. unfold fresh_cands in *. apply in_app_or in Hc as [Hc|Hc]; apply in_or_app; [left|right; exact Hc].
  apply filter_In in Hc as [H1 H2]. apply filter_In. split; [apply I; exact H1|exact H2].
Qed.

(* ================================================================================================ *)
(* B. the logic                                                                                      *)
(* ================================================================================================ *)
(* computations that leave the user table and the context user alone and only consume randomness *)
Definition q3 {A} (m : M A) : Prop :=
  forall h r h', m h = (r, h') ->
    s_users (h_st h') = s_users (h_st h) /\ h_cuser h' = h_cuser h /\ incl (h_fresh h') (h_fresh h).

Lemma q3_ret {A} (a : A) : q3 (ret a).
Proof. intros h r h' Eq. inversion Eq; subst. repeat split; auto. apply incl_refl. Qed.
Lemma q3_fail {A} e : q3 (@fail A e).
Proof. intros h r h' Eq. inversion Eq; subst. repeat split; auto. apply incl_refl. Qed.
Lemma q3_panic {A} : q3 (@panic A).
Proof. intros h r h' Eq. inversion Eq; subst. repeat split; auto. apply incl_refl. Qed.
Lemma q3_get_h : q3 get_h.
Proof. intros h r h' Eq. inversion Eq; subst. repeat split; auto. apply incl_refl. Qed.
Lemma q3_get_cuser : q3 get_cuser.
Proof. intros h r h' Eq. inversion Eq; subst. repeat split; auto. apply incl_refl. Qed.

Lemma q3_bind {A B} (m : M A) (f : A -> M B) : q3 m -> (forall a, q3 (f a)) -> q3 (bind m f).
Proof.
  intros Hm Hf h r h' Eq. destruct (bind_inv _ _ _ _ _ Eq) as [(a & h1 & E1 & E2)|[(e & E1 & ->)|(E1 & ->)]].
  - destruct (Hm _ _ _ E1) as (A1 & A2 & A3). destruct (Hf _ _ _ _ E2) as (B1 & B2 & B3).
    split; [congruence|]. split; [congruence|]. eapply incl_tran; eauto.
  - eapply Hm; eauto.
  - eapply Hm; eauto.
Qed.
Lemma q3_try {A B} (m : M A) (f : res A -> M B) : q3 m -> (forall r, q3 (f r)) -> q3 (try m f).
Proof.
  intros Hm Hf h r h' Eq. destruct (try_inv _ _ _ _ _ Eq) as [(x & h1 & E1 & _ & E2)|(E1 & ->)].
  - destruct (Hm _ _ _ E1) as (A1 & A2 & A3). destruct (Hf _ _ _ _ E2) as (B1 & B2 & B3).
    split; [congruence|]. split; [congruence|]. eapply incl_tran; eauto.
  - eapply Hm; eauto.
Qed.
Lemma q3_state {A} (m : M A) :
  (forall h, s_users (h_st (snd (m h))) = s_users (h_st h) /\ h_cuser (snd (m h)) = h_cuser h /\
             h_fresh (snd (m h)) = h_fresh h) -> q3 m.
Proof.
  intros H h r h' Eq. specialize (H h). rewrite Eq in H. simpl in H. destruct H as (A1 & A2 & A3).
  repeat split; auto. rewrite A3. apply incl_refl.
Qed.
Lemma q3_modify f :
  (forall h, s_users (h_st (f h)) = s_users (h_st h) /\ h_cuser (f h) = h_cuser h /\ h_fresh (f h) = h_fresh h) ->
  q3 (modify f).
Proof. intros H. apply q3_state. intros h. simpl. apply H. Qed.
Lemma q3_backend O {A} k (body : M A) : q3 body -> q3 (backend O k body).
Proof.
  intros Hb h r h' Eq. unfold backend in Eq.
  destruct (fault_at (h_ncalls h) (o_faults O)) as [[|]|].
  - inversion Eq; subst. repeat split; auto. apply incl_refl.
  - inversion Eq; subst. repeat split; auto. apply incl_refl.
  - apply Hb in Eq. exact Eq.
Qed.
Lemma q3_write_resp r : q3 (write_resp r).
Proof. apply q3_state. intros h. simpl. destruct (h_out h); auto. Qed.
Lemma q3_fresh n : q3 (fresh n).
Proof.
  intros h r h' Eq. unfold fresh in Eq. destruct (take_chunk n (h_fresh h)) as [[c t]|] eqn:Tk; inversion Eq; subst.
  - repeat split; auto. simpl. apply take_chunk_spec in Tk. tauto.
  - repeat split; auto. apply incl_refl.
Qed.
Lemma q3_st_load O p : q3 (st_load O p).
Proof. apply q3_backend, q3_state. intros h. destruct (ulookup p (s_users (h_st h))); auto. Qed.
Lemma q3_st_load_by_csel O s : q3 (st_load_by_csel O s).
Proof. apply q3_backend, q3_state. intros h. destruct (ufind _ (s_users (h_st h))); auto. Qed.
Lemma q3_st_load_by_rsel O s : q3 (st_load_by_rsel O s).
Proof. apply q3_backend, q3_state. intros h. destruct (ufind _ (s_users (h_st h))); auto. Qed.
Lemma q3_st_add_rm O p t : q3 (st_add_rm O p t).
Proof. apply q3_backend, q3_modify. intros h. simpl. auto. Qed.
Lemma q3_st_del_rm O p : q3 (st_del_rm O p).
Proof. apply q3_backend, q3_modify. intros h. simpl. auto. Qed.
Lemma q3_st_use_rm O p t : q3 (st_use_rm O p t).
Proof.
  apply q3_backend, q3_state. intros h. cbv zeta. destruct (bmem t (rmlookup p (s_rm (h_st h)))); simpl; auto.
Qed.

Ltac q3_step :=
  match goal with
  | |- q3 (bind _ _) => apply q3_bind; [|intros]
  | |- q3 (try _ _) => apply q3_try; [|intros]
  | |- q3 (ret _) => apply q3_ret
  | |- q3 (fail _) => apply q3_fail
  | |- q3 panic => apply q3_panic
  | |- q3 get_h => apply q3_get_h
  | |- q3 get_cuser => apply q3_get_cuser
  | |- q3 (write_resp _) => apply q3_write_resp
  | |- q3 (fresh _) => apply q3_fresh
  | |- q3 (st_load _ _) => apply q3_st_load
  | |- q3 (st_load_by_csel _ _) => apply q3_st_load_by_csel
  | |- q3 (st_load_by_rsel _ _) => apply q3_st_load_by_rsel
  | |- q3 (st_add_rm _ _ _) => apply q3_st_add_rm
  | |- q3 (st_del_rm _ _) => apply q3_st_del_rm
  | |- q3 (st_use_rm _ _ _) => apply q3_st_use_rm
  | |- q3 (backend _ _ _) => apply q3_backend
  | |- q3 (put_session _ _) => apply q3_modify; intros; simpl; auto
  | |- q3 (del_session _) => apply q3_modify; intros; simpl; auto
  | |- q3 (delall_session _) => apply q3_modify; intros; simpl; auto
  | |- q3 (put_cookie _ _) => apply q3_modify; intros; simpl; auto
  | |- q3 (del_cookie _) => apply q3_modify; intros; simpl; auto
  | |- q3 (log _) => apply q3_modify; intros; simpl; auto
  | |- q3 (set_cpid _) => apply q3_modify; intros; simpl; auto
  | |- q3 (modify _) => apply q3_modify; intros; simpl; auto
  | |- q3 (if ?c then _ else _) => destruct c eqn:?
  | |- q3 (match ?x with _ => _ end) => destruct x eqn:?
  | |- q3 (let '(_, _) := ?x in _) => destruct x eqn:?
  end.
Ltac q3_go := repeat (unfold_derived; cbn beta iota; q3_step).

(* ---- what may be written into the two lists ---------------------------------------------------- *)
Section RelO.
Variable NH : bytes -> Prop.     (* hashes for which an accepted one-time password may appear *)

Definition otps_le (old new : bytes) : Prop :=
  forall inp, ~ NH inp -> (hits inp (split_otps new) <= hits inp (split_otps old))%nat.

Lemma otps_le_refl x : otps_le x x.
Proof. intros inp _. lia. Qed.
Lemma otps_le_trans a b c : otps_le a b -> otps_le b c -> otps_le a c.
Proof. intros H1 H2 inp N. specialize (H1 inp N). specialize (H2 inp N). lia. Qed.
Lemma otps_le_clear old : otps_le old [].
Proof. intros inp _. unfold split_otps at 1. simpl. unfold hits at 1. simpl. lia. Qed.
Lemma otps_le_remove s i : otps_le s (join_otps (otp_remove (split_otps s) i)).
Proof.
  intros inp _. eapply Nat.le_trans; [apply hits_split_join, otp_remove_nosep|apply hits_otp_remove].
Qed.
Lemma otps_le_add (C : crypto) s x : NH (sha C x) -> otps_le s (join_otps (split_otps s ++ [b64std_enc (sha C x)])).
Proof.
  intros Hn inp N. eapply Nat.le_trans.
  - apply hits_split_join. apply Forall_app. split; [apply split_otps_nosep|repeat constructor; apply digest_nosep].
  - rewrite hits_app. unfold hits at 2. cbn [filter]. rewrite otp_hit_enc.
    destruct (beqb inp (sha C x)) eqn:B; [|simpl; lia].
    apply beqb_eq in B. subst inp. contradiction.
Qed.

End RelO.

Section RelR.
Variable C : crypto.
Variable NR : bytes -> Prop.     (* recovery-code entries that may appear *)

Definition rec_sub (old new : bytes) : Prop :=
  nocomma C -> forall e, In e (decode_codes new) -> e = [] \/ In e (decode_codes old) \/ NR e.

Lemma rec_sub_refl x : rec_sub x x.
Proof. intros _ e He. right. left. exact He. Qed.
Lemma rec_sub_trans a b c : rec_sub a b -> rec_sub b c -> rec_sub a c.
Proof.
  intros H1 H2 NC e He. destruct (H2 NC e He) as [Hn|[Hb|Hd]]; [left; exact Hn|exact (H1 NC e Hb)|right; right; exact Hd].
Qed.
Lemma rec_sub_regen old codes : (forall e, In e (map (pwhash C) codes) -> NR e) -> rec_sub old (encode_codes (map (pwhash C) codes)).
Proof.
  intros Hr NC e He. unfold decode_codes, encode_codes in He. apply in_split_join in He.
  - destruct He as [->|He]; [left; reflexivity|]. right. right. apply Hr. exact He.
  - apply Forall_forall. intros y Hy. apply in_map_iff in Hy as (x & <- & _). apply NC.
Qed.
Lemma rec_sub_sub old rest : (forall y, In y rest -> In y (decode_codes old)) -> rec_sub old (encode_codes rest).
Proof.
  intros Hs _ e He. unfold decode_codes, encode_codes in He. apply in_split_join in He.
  - destruct He as [->|He]; [left; reflexivity|right; left; exact (Hs e He)].
  - apply Forall_forall. intros y Hy. apply Hs in Hy.
    pose proof (bsplit_all_nosep ","%byte old) as F. rewrite Forall_forall in F. exact (F y Hy).
Qed.

End RelR.

Section Rel.
Variable C : crypto.
Variable NH : bytes -> Prop.
Variable NR : bytes -> Prop.
Definition Wr (a b : user) : Prop :=
  otps_le NH (u_otps a) (u_otps b) /\ rec_sub C NR (u_recovery a) (u_recovery b).

Lemma Wr_refl a : Wr a a.
Proof. split; [apply otps_le_refl|apply rec_sub_refl]. Qed.
Lemma Wr_trans a b c : Wr a b -> Wr b c -> Wr a c.
Proof. intros [A1 A2] [B1 B2]. split; [eapply otps_le_trans; eauto|eapply rec_sub_trans; eauto]. Qed.
Lemma Wr_intro a b : otps_le NH (u_otps a) (u_otps b) -> rec_sub C NR (u_recovery a) (u_recovery b) -> Wr a b.
Proof. intros; split; assumption. Qed.
End Rel.

Lemma rec_sub_use E NR s rc rest :
  use_recovery_code E (decode_codes s) rc = Some rest -> rec_sub (e_C E) NR s (encode_codes rest).
Proof.
  intros U. apply rec_sub_sub. apply use_rc_spec_lemma in U as (i & _ & _ & _ & _ & _ & Hin). exact Hin.
Qed.

Section OW.
Variable C : crypto.
Variable NH : bytes -> Prop.
Variable NR : bytes -> Prop.
Variable U0 : list (bytes * user).              (* the user table the request started from *)
Variable F0 : list bytes.                       (* the random chunks the oracle offers to it *)

Definition obase (p : bytes) : user :=
  match ulookup p U0 with Some a => a | None => blank_user end.

Definition ogood (u : user) : Prop := Wr C NH NR (obase (u_pid u)) u.

Record oinv (h : hst) : Prop := mkOinv {
  o_filed : filed (h_st h);
  o_mono : forall p, ulookup p U0 <> None -> ulookup p (s_users (h_st h)) <> None;
  o_users : forall k b, In (k, b) (s_users (h_st h)) -> ogood b;
  o_cuser : forall u, h_cuser h = Some u -> ogood u;
  o_rand : incl (h_fresh h) F0
}.

Lemma oinv_same h h' :
  s_users (h_st h') = s_users (h_st h) -> h_cuser h' = h_cuser h -> incl (h_fresh h') (h_fresh h) -> oinv h -> oinv h'.
Proof.
  intros A1 A2 A3 [I1 I2 I3 I4 I5]. split; unfold filed in *; rewrite ?A1, ?A2; try assumption.
  eapply incl_tran; eauto.
Qed.

Lemma ogood_step u u' : ogood u -> u_pid u' = u_pid u -> Wr C NH NR u u' -> ogood u'.
Proof. unfold ogood. intros G P W. rewrite P. exact (Wr_trans C NH NR _ _ _ G W). Qed.

(* a record with neither one-time passwords nor recovery codes *)
Lemma ogood_new u : u_otps u = [] -> u_recovery u = [] -> ogood u.
Proof.
  intros H6 H7. unfold ogood. apply Wr_intro; rewrite ?H6, ?H7.
  - apply otps_le_clear.
  - intros _ e [<-|[]]. left. reflexivity.
Qed.

Definition ow {A} (Q : A -> Prop) (m : M A) : Prop :=
  forall h r h', oinv h -> m h = (r, h') -> oinv h' /\ forall a, r = Ok a -> Q a.

Lemma ow_post {A} (Q Q' : A -> Prop) (m : M A) : (forall a, Q a -> Q' a) -> ow Q m -> ow Q' m.
Proof.
  intros HQ Hm h r h' Hi Eq. destruct (Hm _ _ _ Hi Eq) as (I1 & R1). split; [exact I1|].
  intros a Ha. apply HQ. apply R1. exact Ha.
Qed.
Lemma ow_top {A} (Q : A -> Prop) (m : M A) : ow Q m -> ow anyq m.
Proof. apply ow_post. intros; exact I. Qed.

Lemma ow_q3 {A} (m : M A) : q3 m -> ow anyq m.
Proof.
  intros Hp h r h' Hi Eq. apply Hp in Eq. destruct Eq as (A1 & A2 & A3).
  split; [exact (oinv_same _ _ A1 A2 A3 Hi)|intros; exact I].
Qed.

Lemma ow_ret {A} (Q : A -> Prop) (a : A) : Q a -> ow Q (ret a).
Proof.
  intros HQ h r h' Hi Eq. inversion Eq; subst. split; [exact Hi|].
  intros a0 Ha. inversion Ha; subst. exact HQ.
Qed.
Lemma ow_fail {A} (Q : A -> Prop) e : ow Q (@fail A e).
Proof. intros h r h' Hi Eq. inversion Eq; subst. split; [exact Hi|intros a Ha; discriminate Ha]. Qed.
Lemma ow_panic {A} (Q : A -> Prop) : ow Q (@panic A).
Proof. intros h r h' Hi Eq. inversion Eq; subst. split; [exact Hi|intros a Ha; discriminate Ha]. Qed.

Lemma ow_bind {A B} (Q : A -> Prop) (Q' : B -> Prop) (m : M A) (f : A -> M B) :
  ow Q m -> (forall a, Q a -> ow Q' (f a)) -> ow Q' (bind m f).
Proof.
  intros Hm Hf h r h' Hi Eq. destruct (bind_inv _ _ _ _ _ Eq) as [(a & h1 & E1 & E2)|[(e & E1 & ->)|(E1 & ->)]].
  - destruct (Hm _ _ _ Hi E1) as (I1 & R1). exact (Hf a (R1 a eq_refl) _ _ _ I1 E2).
  - destruct (Hm _ _ _ Hi E1) as (I1 & _). split; [exact I1|intros a Ha; discriminate Ha].
  - destruct (Hm _ _ _ Hi E1) as (I1 & _). split; [exact I1|intros a Ha; discriminate Ha].
Qed.
Lemma ow_try {A B} (Q : A -> Prop) (Q' : B -> Prop) (m : M A) (f : res A -> M B) :
  ow Q m -> (forall a, Q a -> ow Q' (f (Ok a))) -> (forall e, ow Q' (f (Err e))) -> ow Q' (try m f).
Proof.
  intros Hm Hok Herr h r h' Hi Eq. destruct (try_inv _ _ _ _ _ Eq) as [(x & h1 & E1 & NP & E2)|(E1 & ->)].
  - destruct (Hm _ _ _ Hi E1) as (I1 & R1).
    destruct x as [a|e|]; [exact (Hok a (R1 a eq_refl) _ _ _ I1 E2)|exact (Herr e _ _ _ I1 E2)|congruence].
  - destruct (Hm _ _ _ Hi E1) as (I1 & _). split; [exact I1|intros a Ha; discriminate Ha].
Qed.

Lemma ow_get_h_bind {B} (Q : B -> Prop) (f : hst -> M B) :
  (forall h0, oinv h0 -> ow Q (f h0)) -> ow Q (bind get_h f).
Proof. intros Hf h r h' Hi Eq. unfold bind, get_h in Eq. eapply Hf; eauto. Qed.

Lemma ow_backend O {A} (Q : A -> Prop) k (body : M A) : ow Q body -> ow Q (backend O k body).
Proof.
  intros Hb h r h' Hi Eq. unfold backend in Eq.
  destruct (fault_at (h_ncalls h) (o_faults O)) as [[|]|].
  - inversion Eq; subst. split; [apply (oinv_same h); auto; apply incl_refl|intros a Ha; discriminate Ha].
  - inversion Eq; subst. split; [apply (oinv_same h); auto; apply incl_refl|intros a Ha; discriminate Ha].
  - eapply Hb in Eq; [exact Eq|apply (oinv_same h); auto; apply incl_refl].
Qed.

(* the value [fresh n] hands out is one of the candidates *)
Lemma ow_fresh n : ow (fun c => In c (fresh_cands n F0)) (fresh n).
Proof.
  intros h r h' Hi Eq. split; [exact (proj1 (ow_q3 _ (q3_fresh n) h r h' Hi Eq))|].
  intros a Ha. subst r. unfold fresh in Eq. unfold fresh_cands. apply in_or_app.
  destruct (take_chunk n (h_fresh h)) as [[c t]|] eqn:Tk; inversion Eq; subst.
  - left. apply take_chunk_spec in Tk as (T1 & T2 & _). apply filter_In. split; [apply (o_rand _ Hi); exact T1|].
    apply Nat.eqb_eq. exact T2.
  - right. left. reflexivity.
Qed.

Lemma ow_set_cuser (Q : unit -> Prop) u : ogood u -> Q tt -> ow Q (set_cuser u).
Proof.
  intros Hu HQ h r h' [I1 I2 I3 I4 I5] Eq. inversion Eq; subst. split; [|intros [] _; exact HQ].
  split; try assumption. intros u0 H0. simpl in H0. inversion H0; subst. exact Hu.
Qed.

Lemma ow_st_load O pid : ow ogood (st_load O pid).
Proof.
  unfold st_load. apply ow_backend. intros h r h' Hi Eq.
  destruct (ulookup pid (s_users (h_st h))) as [u|] eqn:L; inversion Eq; subst.
  - split; [exact Hi|]. intros a Ha. inversion Ha; subst. apply ulookup_in in L. exact (o_users _ Hi _ _ L).
  - split; [exact Hi|intros a Ha; discriminate Ha].
Qed.
Lemma ow_st_load_by_csel O sel : ow ogood (st_load_by_csel O sel).
Proof.
  unfold st_load_by_csel. apply ow_backend. intros h r h' Hi Eq.
  destruct (ufind _ (s_users (h_st h))) as [u|] eqn:L; inversion Eq; subst.
  - split; [exact Hi|]. intros a Ha. inversion Ha; subst. apply ufind_in in L as (k & L). exact (o_users _ Hi _ _ L).
  - split; [exact Hi|intros a Ha; discriminate Ha].
Qed.
Lemma ow_st_load_by_rsel O sel : ow ogood (st_load_by_rsel O sel).
Proof.
  unfold st_load_by_rsel. apply ow_backend. intros h r h' Hi Eq.
  destruct (ufind _ (s_users (h_st h))) as [u|] eqn:L; inversion Eq; subst.
  - split; [exact Hi|]. intros a Ha. inversion Ha; subst. apply ufind_in in L as (k & L). exact (o_users _ Hi _ _ L).
  - split; [exact Hi|intros a Ha; discriminate Ha].
Qed.
Lemma ow_save_body (Q : unit -> Prop) u : ogood u -> Q tt ->
  ow Q (modify (fun h => h <| h_st := h_st h <| s_users := uput (u_pid u) u (s_users (h_st h)) |> |>)).
Proof.
  intros Hu HQ h r h' [I1 I2 I3 I4 I5] Eq. inversion Eq; subst. split; [|intros [] _; exact HQ].
  split; cbn [h_st h_cuser set s_users s_rm]; simpl.
  - apply filedl_uput. exact I1.
  - intros p Hp. apply ulookup_uput_some. exact (I2 p Hp).
  - intros k v Hin. apply uput_in in Hin as [Hin|Hin]; [inversion Hin; subst; exact Hu|exact (I3 _ _ Hin)].
  - exact I4.
  - exact I5.
Qed.
Lemma ow_st_save O (Q : unit -> Prop) u : ogood u -> Q tt -> ow Q (st_save O u).
Proof. intros Hu HQ. unfold st_save. apply ow_backend. apply ow_save_body; assumption. Qed.
Lemma ow_st_create O (Q : unit -> Prop) u : ogood u -> Q tt -> ow Q (st_create O u).
Proof.
  intros Hu HQ. unfold st_create. apply ow_backend. intros h r h' [I1 I2 I3 I4 I5] Eq.
  destruct (ulookup (u_pid u) (s_users (h_st h))) eqn:L; inversion Eq; subst.
  - split; [split; assumption|intros a Ha; discriminate Ha].
  - split; [|intros [] _; exact HQ]. split; simpl.
    + apply filedl_snoc; assumption.
    + intros p Hp. apply ulookup_snoc_keep. exact (I2 p Hp).
    + intros k v Hin. apply in_app_or in Hin as [Hin|[Hin|[]]]; [exact (I3 _ _ Hin)|inversion Hin; subst; exact Hu].
    + exact I4.
    + exact I5.
Qed.
Lemma ow_lookup_or pid d : (ulookup pid U0 = None -> ogood d) ->
  ow ogood (fun h => match ulookup pid (s_users (h_st h)) with Some u => (Ok u, h) | None => (Ok d, h) end).
Proof.
  intros Hd h r h' Hi Eq. destruct (ulookup pid (s_users (h_st h))) as [u|] eqn:L; inversion Eq; subst.
  - split; [exact Hi|]. intros a Ha. inversion Ha; subst. apply ulookup_in in L. exact (o_users _ Hi _ _ L).
  - split; [exact Hi|]. intros a Ha. inversion Ha; subst. apply Hd.
    destruct (ulookup pid U0) eqn:L0; [|reflexivity]. exfalso. apply (o_mono _ Hi pid); [rewrite L0; discriminate|exact L].
Qed.
End OW.

(* ---- syntax-directed prover (after StoreShape.v) ------------------------------------------------ *)
Ltac ow_unfold :=
  unfold respond, render, redirect, ro_plain, ro_ok, ro_fail, ro_follow_redir, current_user_id,
         store_back, bcrypt_codes, update_locked_state, lock_apply, invalid_confirm_token, invalid_recover_token,
         selector_of, verifier_of.

Ltac ow_cuser_fact Hd :=
  try match type of Hd with
      | h_cuser ?h = Some ?u =>
          match goal with Hx : oinv _ _ _ _ _ h |- _ => pose proof (o_cuser _ _ _ _ _ _ Hx _ Hd) end
      end.

Ltac ow_field :=
  first
  [ apply otps_le_refl | apply rec_sub_refl
  | apply otps_le_remove | apply otps_le_clear
  | (apply rec_sub_regen; eauto; fail)
  | (eapply rec_sub_use; eassumption) ].

Ltac ogood_tac :=
  first
  [ assumption
  | match goal with
    | H : ogood _ _ _ _ ?u |- ogood _ _ _ _ _ =>
        solve [ apply (ogood_step _ _ _ _ u _ H); [reflexivity | apply Wr_intro; ow_field] ]
    end
  | solve [ apply ogood_new; reflexivity ] ].

Ltac ow_side :=
  repeat match goal with
  | |- anyq _ => exact I
  | |- True => exact I
  | |- ogood _ _ _ _ _ => ogood_tac
  | |- ow _ _ _ _ _ _ _ => assumption
  | |- forall _, _ => intro
  end.

Ltac ow_prim :=
  match goal with
  | |- ow _ _ _ _ _ _ (ret _) => apply ow_ret
  | |- ow _ _ _ _ _ _ (fail _) => apply ow_fail
  | |- ow _ _ _ _ _ _ panic => apply ow_panic
  | |- ow _ _ _ _ _ _ (set_cuser _) => apply ow_set_cuser
  | |- ow _ _ _ _ _ _ (st_load _ _) => eapply ow_top; apply ow_st_load
  | |- ow _ _ _ _ _ _ (st_save _ _) => apply ow_st_save
  | |- ow _ _ _ _ _ _ (st_create _ _) => apply ow_st_create
  | |- ow _ _ _ _ _ _ (modify (fun h => h <| h_st := h_st h <| s_users := uput _ _ _ |> |>)) => apply ow_save_body
  | |- ow _ _ _ _ _ _ (backend _ _ (fail _)) => apply ow_backend, ow_fail
  | |- ow _ _ _ _ _ _ (backend _ KSaveOAuth2 _) => apply ow_backend
  | |- ow _ _ _ _ _ _ _ => apply ow_q3; q3_go; fail
  end.

Ltac ow_step ext :=
  match goal with
  | |- ow _ _ _ _ _ _ (bind get_h _) =>
      let h0 := fresh "h0" in let Hx := fresh "Hx" in apply ow_get_h_bind; intros h0 Hx
  | |- ow _ _ _ _ _ _ (bind (ret ?v) _) =>
      eapply (ow_bind _ _ _ _ _ (fun x => x = v)); [apply ow_ret; reflexivity|intros ? ->]
  | |- ow _ _ _ _ _ _ (bind (backend _ KHash (ret ?v)) _) =>
      eapply (ow_bind _ _ _ _ _ (fun x => x = v)); [apply ow_backend, ow_ret; reflexivity|intros ? ->]
  | |- ow _ _ _ _ _ _ (bind (st_load _ _) _) =>
      let u := fresh "u" in let Hq := fresh "Hq" in
      eapply ow_bind; [apply ow_st_load | intros u Hq]
  | |- ow _ _ _ _ _ _ (try (st_load _ _) _) =>
      let u := fresh "u" in let Hq := fresh "Hq" in
      eapply ow_try; [apply ow_st_load | intros u Hq | intros ?]
  | |- ow _ _ _ _ _ _ (try (st_load_by_csel _ _) _) =>
      let u := fresh "u" in let Hq := fresh "Hq" in
      eapply ow_try; [apply ow_st_load_by_csel | intros u Hq | intros ?]
  | |- ow _ _ _ _ _ _ (try (st_load_by_rsel _ _) _) =>
      let u := fresh "u" in let Hq := fresh "Hq" in
      eapply ow_try; [apply ow_st_load_by_rsel | intros u Hq | intros ?]
  | |- _ => ext
  | |- ow _ _ _ _ _ _ (bind _ _) => eapply (ow_bind _ _ _ _ _ anyq); [|intros ? _]
  | |- ow _ _ _ _ _ _ (try _ _) => eapply (ow_try _ _ _ _ _ anyq); [|intros ? _|intros ?]
  | |- ow _ _ _ _ _ _ (if ?c then _ else _) => destruct c eqn:?
  | |- ow _ _ _ _ _ _ (match ?x with _ => _ end) => let Hd := fresh "Hd" in destruct x eqn:Hd; ow_cuser_fact Hd
  | |- ow _ _ _ _ _ _ (let '(_, _) := ?x in _) => destruct x eqn:?
  | |- _ => ow_prim
  end.

Ltac ow_noext := fail.
Ltac ow_go0 := repeat (ow_unfold; cbn beta iota zeta; ow_step ow_noext).

Section OCU.
Variable E : env.
Variable NH : bytes -> Prop.
Variable NR : bytes -> Prop.
Variable U0 : list (bytes * user).
Variable F0 : list bytes.
Notation OW := (ow (e_C E) NH NR U0 F0).
Notation Good := (ogood (e_C E) NH NR U0).

Lemma ow_current_user : OW (fun p => Good (fst p)) (current_user E).
Proof. unfold current_user. ow_go0; ow_side. Qed.

Lemma ow_load_current_user : OW Good (load_current_user E).
Proof. unfold load_current_user. ow_go0; ow_side. Qed.

(* the recovery codes a set-up or a regeneration draws: the ten codes cut out of one candidate *)
Lemma ow_gen_codes :
  OW (fun codes => exists c, In c (fresh_cands 100 F0) /\ codes = rc_codes 10 c) generate_recovery_codes.
Proof.
  unfold generate_recovery_codes. eapply ow_bind; [apply ow_fresh|].
  intros c Hc. apply ow_ret. exists c. auto.
Qed.
End OCU.

Ltac ow_ext1 :=
  idtac; match goal with
  | |- ow _ _ _ _ _ _ (bind (current_user _) _) =>
      let u := fresh "u" in let sh := fresh "sh" in let Hq := fresh "Hq" in
      eapply ow_bind; [apply ow_current_user | intros [u sh] Hq; cbn [fst] in Hq]
  | |- ow _ _ _ _ _ _ (try (current_user _) _) =>
      let u := fresh "u" in let sh := fresh "sh" in let Hq := fresh "Hq" in
      eapply ow_try; [apply ow_current_user | intros [u sh] Hq; cbn [fst] in Hq | intros ?]
  | |- ow _ _ _ _ _ _ (try (load_current_user _) _) =>
      let u := fresh "u" in let Hq := fresh "Hq" in
      eapply ow_try; [apply ow_load_current_user | intros u Hq | intros ?]
  | |- ow _ _ _ _ _ _ (bind generate_recovery_codes _) =>
      let c := fresh "c" in let Hc := fresh "Hc" in
      eapply ow_bind; [apply ow_gen_codes | intros ? (c & Hc & ->)]
  end.

Ltac ow_go1 := repeat (ow_unfold; cbn beta iota zeta; ow_step ow_ext1).

Section OHK.
Variable E : env.
Variable NH : bytes -> Prop.
Variable NR : bytes -> Prop.
Variable U0 : list (bytes * user).
Variable F0 : list bytes.
Notation OW := (ow (e_C E) NH NR U0 F0).

Lemma ow_hook hk rm hd : OW anyq (run_hook E hk rm hd).
Proof. destruct hk; unfold run_hook; ow_go1; ow_side. Qed.

Lemma ow_call hs : forall rm hd, OW anyq (call E hs rm hd).
Proof.
  induction hs as [|hk hs IH]; intros rm hd; cbn [call].
  - apply ow_ret. exact I.
  - eapply ow_bind; [apply ow_hook|intros; apply IH].
Qed.
Lemma ow_fire e rm : OW anyq (fire E e rm).
Proof. unfold fire. apply ow_call. Qed.
End OHK.

Ltac ow_ext2 :=
  idtac; match goal with
  | |- ow _ _ _ _ _ _ (fire _ _ _) => apply ow_fire
  | |- _ => ow_ext1
  end.
Ltac ow_go2 := repeat (ow_unfold; cbn beta iota zeta; ow_step ow_ext2).

Section OMW.
Variable E : env.
Variable NH : bytes -> Prop.
Variable NR : bytes -> Prop.
Variable U0 : list (bytes * user).
Variable F0 : list bytes.
Notation OW := (ow (e_C E) NH NR U0 F0).

Lemma ow_auth_middleware mp full tf fr : OW anyq (auth_middleware E mp full tf fr).
Proof. unfold auth_middleware, mw_fail. ow_go2; ow_side. Qed.
Lemma ow_lock_mw : OW anyq (lock_mw E).
Proof. unfold lock_mw. ow_go2; ow_side. Qed.
Lemma ow_confirm_mw : OW anyq (confirm_mw E).
Proof. unfold confirm_mw. ow_go2; ow_side. Qed.
Lemma ow_remember_mw : OW anyq (remember_mw E).
Proof. unfold remember_mw, remember_authenticate. ow_go2; ow_side. Qed.
Lemma ow_app_handler : OW anyq (app_handler E).
Proof. unfold app_handler. ow_go2; ow_side. Qed.
Lemma ow_email_verify_wrap k : OW anyq (email_verify_wrap E k).
Proof. unfold email_verify_wrap. ow_go2; ow_side. Qed.
End OMW.

(* ---- route handlers ------------------------------------------------------------------------------ *)
Section OHD.
Variable E : env.
Variable NH : bytes -> Prop.
Variable NR : bytes -> Prop.
Variable U0 : list (bytes * user).
Variable F0 : list bytes.
Notation OW := (ow (e_C E) NH NR U0 F0).
Notation Good := (ogood (e_C E) NH NR U0).

(* what the two classes must contain on the routes that draw a secret *)
Definition Hok : Prop := forall c, In c (fresh_cands 16 F0) -> NH (sha (e_C E) (otp_format c)).
Definition Rok : Prop :=
  forall c, In c (fresh_cands 100 F0) -> forall e, In e (map (pwhash (e_C E)) (rc_codes 10 c)) -> NR e.

Lemma ow_totp_validate : OW (fun r => Good (fst (fst r))) (totp_validate E).
Proof.
  unfold totp_validate. eapply (ow_bind _ _ _ _ _ (fun p => Good (fst p))).
  - ow_go2; cbn beta; cbn [fst]; ow_side.
  - intros [u sh] Hq. cbn [fst] in Hq. ow_go2; cbn beta; cbn [fst]; ow_side.
Qed.

Lemma ow_sms_send_code p u : OW anyq (sms_send_code E p u).
Proof. unfold sms_send_code. destruct p; ow_go2; ow_side. Qed.

Lemma ow_sms_validate_code p u sh input rc : (p = SPConfirm -> Rok) -> Good u -> OW anyq (sms_validate_code E p u sh input rc).
Proof.
  intros HR Hq. unfold sms_validate_code. eapply (ow_bind _ _ _ _ _ (fun vu => Good (snd vu))).
  - ow_go2; cbn beta; cbn [snd]; ow_side.
  - intros [verified u'] Hq'. cbn [snd] in Hq'.
    destruct p; [specialize (HR eq_refl); unfold Rok in HR|clear HR|clear HR]; ow_go2; ow_side.
Qed.

Ltac ow_ext3 :=
  idtac; match goal with
  | |- ow _ _ _ _ _ _ (bind (totp_validate _) _) =>
      let u := fresh "u" in let sh := fresh "sh" in let st := fresh "st" in let Hq := fresh "Hq" in
      eapply ow_bind; [apply ow_totp_validate | intros [[u sh] st] Hq; cbn [fst] in Hq]
  | |- ow _ _ _ _ _ _ (sms_send_code _ _ _) => apply ow_sms_send_code
  | |- _ => ow_ext2
  end.
Ltac go := repeat (ow_unfold; cbn beta iota zeta; ow_step ow_ext3); cbn beta; ow_side.

Lemma ow_login_get : OW anyq (login_get E). Proof. unfold login_get. go. Qed.
Lemma ow_login_post : OW anyq (login_post E). Proof. unfold login_post. go. Qed.
Lemma ow_otp_login_get : OW anyq (otp_login_get E). Proof. unfold otp_login_get. go. Qed.
Lemma ow_otp_login_post : OW anyq (otp_login_post E). Proof. unfold otp_login_post. go. Qed.
Lemma ow_otp_show pg : OW anyq (otp_show E pg). Proof. unfold otp_show. go. Qed.
Lemma ow_otp_clear_post : OW anyq (otp_clear_post E). Proof. unfold otp_clear_post. go. Qed.
Lemma ow_resp0 pg : OW anyq (resp0 E pg). Proof. unfold resp0. go. Qed.
Lemma ow_register_post : OW anyq (register_post E). Proof. unfold register_post. go. Qed.
Lemma ow_confirm_get : OW anyq (confirm_get E). Proof. unfold confirm_get. go. Qed.
Lemma ow_recover_start_post : OW anyq (recover_start_post E). Proof. unfold recover_start_post. go. Qed.
Lemma ow_recover_end_get : OW anyq (recover_end_get E). Proof. unfold recover_end_get. go. Qed.
Lemma ow_recover_end_post : OW anyq (recover_end_post E). Proof. unfold recover_end_post. go. Qed.
Lemma ow_logout : OW anyq (logout E). Proof. unfold logout. go. Qed.

(* /otp/add: the one place where an accepted entry can appear *)
Lemma ow_otp_add_post : Hok -> OW anyq (otp_add_post E).
Proof.
  intros HA. unfold otp_add_post.
  eapply ow_bind; [apply ow_current_user | intros [u sh] Hq; cbn [fst] in Hq]. cbn beta iota zeta.
  destruct (5 <=? length (split_otps (u_otps u)))%nat; [go|].
  eapply (ow_bind _ _ _ _ _ anyq); [go|intros ? _].
  eapply ow_bind; [apply ow_fresh|intros secret Hs]. cbn beta zeta.
  assert (G : Good (u <| u_otps := join_otps (split_otps (u_otps u) ++ [b64std_enc (sha (e_C E) (otp_format secret))]) |>)).
  { apply (ogood_step _ _ _ _ u _ Hq); [reflexivity|]. apply Wr_intro; [|apply rec_sub_refl].
    apply otps_le_add. apply HA. exact Hs. }
  go.
Qed.

Lemma ow_recovery_regen_get : OW anyq (recovery_regen_get E). Proof. unfold recovery_regen_get. go. Qed.
Lemma ow_recovery_regen_post : Rok -> OW anyq (recovery_regen_post E).
Proof. intros HR. unfold Rok in HR. unfold recovery_regen_post. go. Qed.
Lemma ow_email_verify_get k : OW anyq (email_verify_get E k). Proof. unfold email_verify_get. go. Qed.
Lemma ow_email_verify_post k : OW anyq (email_verify_post E k). Proof. unfold email_verify_post. go. Qed.
Lemma ow_email_verify_end k : OW anyq (email_verify_end E k). Proof. unfold email_verify_end. go. Qed.

Lemma ow_totp_setup_get : OW anyq (totp_setup_get E). Proof. unfold totp_setup_get. go. Qed.
Lemma ow_totp_setup_post : OW anyq (totp_setup_post E). Proof. unfold totp_setup_post. go. Qed.
Lemma ow_totp_confirm_get : OW anyq (totp_confirm_get E). Proof. unfold totp_confirm_get. go. Qed.
Lemma ow_totp_confirm_post : Rok -> OW anyq (totp_confirm_post E).
Proof. intros HR. unfold Rok in HR. unfold totp_confirm_post. go. Qed.
Lemma ow_totp_remove_post : OW anyq (totp_remove_post E). Proof. unfold totp_remove_post. go. Qed.
Lemma ow_totp_validate_post : OW anyq (totp_validate_post E). Proof. unfold totp_validate_post. go. Qed.
Lemma ow_totp_qr : OW anyq (totp_qr E). Proof. unfold totp_qr. go. Qed.

Lemma ow_sms_setup_get : OW anyq (sms_setup_get E). Proof. unfold sms_setup_get. go. Qed.
Lemma ow_sms_setup_post : OW anyq (sms_setup_post E). Proof. unfold sms_setup_post. go. Qed.
Lemma ow_sms_validator_post p : (p = SPConfirm -> Rok) -> OW anyq (sms_validator_post E p).
Proof.
  intros HR. unfold sms_validator_post. eapply (ow_bind _ _ _ _ _ (fun p => Good (fst p))).
  - go.
  - intros [u sh] Hq. cbn [fst] in Hq.
    repeat (ow_unfold; cbn beta iota zeta;
            match goal with
            | |- ow _ _ _ _ _ _ (sms_validate_code _ _ _ _ _ _) => apply ow_sms_validate_code; [exact HR|exact Hq]
            | |- _ => ow_step ow_ext3
            end); cbn beta; ow_side.
Qed.

Lemma ow_oauth2_start prov : OW anyq (oauth2_start E prov).
Proof. unfold oauth2_start. go. Qed.
Lemma ow_oauth2_end prov : OW anyq (oauth2_end E prov).
Proof.
  unfold oauth2_end.
  repeat (ow_unfold; cbn beta iota zeta;
          match goal with
          | |- ow _ _ _ _ _ _ (bind (try (backend _ KNewOAuth2 _) _) _) =>
              let u := fresh "u" in let Hq := fresh "Hq" in let u0 := fresh "u0" in let Hq0 := fresh "Hq0" in
              eapply (ow_bind _ _ _ _ _ Good);
              [eapply ow_try; [apply ow_backend; apply ow_lookup_or | intros u Hq | intros ?] | intros u0 Hq0]
          | |- _ => ow_step ow_ext3
          end); cbn beta; ow_side.
Qed.
End OHD.

(* ---- wrappers, the route table, serve ---------------------------------------------------------------- *)
Ltac ogo := repeat (ow_unfold; cbn beta iota zeta; ow_step ow_ext2); cbn beta; ow_side.

Section OSV.
Variable E : env.
Variable NH : bytes -> Prop.
Variable NR : bytes -> Prop.
Variable U0 : list (bytes * user).
Variable F0 : list bytes.
Notation OW := (ow (e_C E) NH NR U0 F0).

Lemma ow_behind full hd : OW anyq hd -> OW anyq (behind E full hd).
Proof.
  intros Hh. unfold behind. eapply (ow_bind _ _ _ _ _ anyq); [apply ow_auth_middleware|].
  intros ok _. destruct ok; [exact Hh|apply ow_ret; exact I].
Qed.
Lemma ow_verified k hd : OW anyq hd -> OW anyq (verified E k hd).
Proof.
  intros Hh. unfold verified. apply ow_behind. eapply (ow_bind _ _ _ _ _ anyq); [apply ow_email_verify_wrap|].
  intros ok _. destruct ok; [exact Hh|apply ow_ret; exact I].
Qed.
Lemma ow_with_error_handler hd : OW anyq hd -> OW anyq (with_error_handler E hd).
Proof. intros Hh. unfold with_error_handler. ogo. Qed.

Lemma ow_app_stack full tf fr l c r e : OW anyq (app_stack E full tf fr l c r e).
Proof.
  unfold app_stack. eapply (ow_bind _ _ _ _ _ anyq).
  { destruct e; [unfold expire_mw|]; ogo. }
  intros sess _. cbv zeta.
  eapply (ow_bind _ _ _ _ _ anyq).
  { destruct r; [|apply ow_ret; exact I]. eapply (ow_bind _ _ _ _ _ anyq); [apply (ow_remember_mw (with_sess E sess))|].
    intros _ _. unfold remembered_view. apply ow_get_h_bind. intros h0 _. destruct (h_cpid h0); apply ow_ret; exact I. }
  intros sess2 _. eapply (ow_bind _ _ _ _ _ anyq). { apply (ow_auth_middleware (with_sess E sess2)). }
  intros ok _. destruct ok; [|apply ow_ret; exact I]. cbn [negb].
  eapply (ow_bind _ _ _ _ _ anyq). { destruct l; [apply (ow_lock_mw (with_sess E sess2))|apply ow_ret; exact I]. }
  intros ok _. destruct ok; [|apply ow_ret; exact I]. cbn [negb].
  eapply (ow_bind _ _ _ _ _ anyq). { destruct c; [apply (ow_confirm_mw (with_sess E sess2))|apply ow_ret; exact I]. }
  intros ok _. destruct ok; [|apply ow_ret; exact I]. cbn [negb].
  apply (ow_app_handler (with_sess E sess2)).
Qed.

(* the routes that draw a secret from the oracle's randomness *)
Definition otp_add_route (req : request) : Prop := q_route req = ROtpAdd /\ q_meth req = POST.
Definition regen_route (req : request) : Prop :=
  (q_route req = RRecoveryRegen \/ q_route req = RTotpConfirm \/ q_route req = RSmsConfirm) /\ q_meth req = POST.

Hypothesis HA : otp_add_route (e_req E) -> Hok E NH F0.
Hypothesis HR : regen_route (e_req E) -> Rok E NR F0.

Lemma ow_route hd : route_table E = Handler hd -> OW anyq hd.
Proof.
  unfold route_table, when, get_post, on_method.
  destruct (q_route (e_req E)) eqn:Hr; destruct (q_meth (e_req E)) eqn:Hm; cbn beta iota;
    repeat match goal with |- (if ?c then _ else _) = Handler _ -> _ => destruct c end;
    intros RT; try discriminate RT; injection RT as <-;
    repeat first
      [ apply ow_verified | apply ow_behind | apply ow_app_stack
      | apply ow_login_get | apply ow_login_post | apply ow_otp_login_get | apply ow_otp_login_post
      | apply ow_otp_show | apply ow_otp_clear_post | apply ow_resp0
      | apply ow_register_post | apply ow_confirm_get | apply ow_recover_start_post | apply ow_recover_end_get
      | apply ow_recover_end_post
      | apply ow_logout | apply ow_recovery_regen_get
      | apply ow_email_verify_get | apply ow_email_verify_post | apply ow_email_verify_end
      | apply ow_totp_setup_get | apply ow_totp_setup_post | apply ow_totp_confirm_get
      | apply ow_totp_remove_post | apply ow_totp_validate_post
      | apply ow_totp_qr | apply ow_sms_setup_get | apply ow_sms_setup_post
      | apply ow_oauth2_start | apply ow_oauth2_end
      | (apply ow_otp_add_post; apply HA; split; assumption)
      | (apply ow_recovery_regen_post; apply HR; split; [tauto|assumption])
      | (apply ow_totp_confirm_post; apply HR; split; [tauto|assumption])
      | (apply ow_sms_validator_post; first [discriminate | (intros _; apply HR; split; [tauto|assumption])]) ].
Qed.

Lemma ow_serve : OW anyq (serve E).
Proof.
  unfold serve. destruct (route_table E) as [hd| |] eqn:RT.
  - apply ow_with_error_handler. apply ow_route. exact RT.
  - apply ow_q3. q3_go.
  - apply ow_q3. q3_go.
Qed.
End OSV.

(* the administrative operations of Step.v other than the harness's direct seed: no entry appears *)
Lemma ow_admin C cfg O a NH NR U0 F0 : ~ is_seed a -> ow C NH NR U0 F0 anyq (admin C cfg O a).
Proof.
  intros NS. unfold admin.
  destruct a; try (exfalso; apply NS; exact I);
    change C with (e_C (mkEnv C cfg O null_request [] []));
    repeat (ow_unfold; cbn beta iota zeta; ow_step ow_ext2); cbn beta; ow_side.
Qed.

(* ================================================================================================ *)
(* C. closed forms: serve, admin, step                                                               *)
(* ================================================================================================ *)
Lemma oinv_start C NH NR h :
  filed (h_st h) -> ctx_stored h -> oinv C NH NR (s_users (h_st h)) (h_fresh h) h.
Proof.
  intros F Cx. split.
  - exact F.
  - auto.
  - intros k b Hin. destruct F as [ND Ky]. unfold ogood, obase. rewrite (Ky _ _ Hin), (in_ulookup _ _ _ ND Hin).
    apply Wr_refl.
  - intros u Hu. unfold ogood, obase. rewrite (Cx u Hu). apply Wr_refl.
  - apply incl_refl.
Qed.
Lemma oinv_end C NH NR U0 F0 h :
  oinv C NH NR U0 F0 h -> filed (h_st h) /\ users_shape (Wr C NH NR) U0 (s_users (h_st h)).
Proof.
  intros [I1 I2 I3 I4 I5]. split; [exact I1|].
  intros p. destruct (ulookup p (s_users (h_st h))) as [b|] eqn:L.
  - pose proof (ulookup_in _ _ _ L) as Hin. pose proof (I3 _ _ Hin) as G. destruct I1 as [_ Ky].
    unfold ogood, obase in G. rewrite (Ky _ _ Hin) in G. destruct (ulookup p U0); exact G.
  - destruct (ulookup p U0) eqn:L0; [|exact I]. apply (I2 p); [rewrite L0; discriminate|exact L].
Qed.

(* one request, any route: the classes are empty unless the route draws a secret *)
Lemma serve_lists E NH NR h r h' :
  filed (h_st h) -> ctx_stored h ->
  (otp_add_route (e_req E) -> Hok E NH (h_fresh h)) ->
  (regen_route (e_req E) -> Rok E NR (h_fresh h)) ->
  serve E h = (r, h') ->
  filed (h_st h') /\ users_shape (Wr (e_C E) NH NR) (s_users (h_st h)) (s_users (h_st h')).
Proof.
  intros F Cx HA HR Eq.
  destruct (ow_serve E NH NR (s_users (h_st h)) (h_fresh h) HA HR h r h' (oinv_start _ _ _ h F Cx) Eq) as [I' _].
  exact (oinv_end _ _ _ _ _ _ I').
Qed.

Lemma admin_lists C cfg O a NH NR h r h' :
  ~ is_seed a -> filed (h_st h) -> ctx_stored h -> admin C cfg O a h = (r, h') ->
  filed (h_st h') /\ users_shape (Wr C NH NR) (s_users (h_st h)) (s_users (h_st h')).
Proof.
  intros NS F Cx Eq.
  destruct (ow_admin C cfg O a NH NR (s_users (h_st h)) (h_fresh h) NS h r h' (oinv_start _ _ _ h F Cx) Eq) as [I' _].
  exact (oinv_end _ _ _ _ _ _ I').
Qed.

(* the classes of a step *)
Definition step_NH (C : crypto) (a : action) (O : oracle) (inp : bytes) : Prop :=
  match a with
  | AReq req => otp_add_route req /\ exists c, In c (fresh_cands 16 (o_fresh O)) /\ inp = sha C (otp_format c)
  | _ => False
  end.
Definition step_NR (C : crypto) (a : action) (O : oracle) (e : bytes) : Prop :=
  match a with
  | AReq req => regen_route req /\ exists c, In c (fresh_cands 100 (o_fresh O)) /\ In e (map (pwhash C) (rc_codes 10 c))
  | _ => False
  end.

Lemma users_shape_Wr_refl C NH NR U : users_shape (Wr C NH NR) U U.
Proof. apply users_shape_refl. apply Wr_refl. Qed.

Lemma step_lists C cfg w a O :
  ~ is_seed a -> filed (w_st w) ->
  filed (w_st (fst (step C cfg w a O))) /\
  users_shape (Wr C (step_NH C a O) (step_NR C a O)) (s_users (w_st w)) (s_users (w_st (fst (step C cfg w a O)))).
Proof.
  intros NS F.
  assert (ADM : forall r h, admin C cfg O a (init_hst (w_st w) O) = (r, h) ->
            filed (h_st h) /\ users_shape (Wr C (step_NH C a O) (step_NR C a O)) (s_users (w_st w)) (s_users (h_st h))).
  { intros r h Ea.
    exact (admin_lists C cfg O a _ _ (init_hst (w_st w) O) r h NS F (ctx_stored_none (init_hst (w_st w) O) eq_refl) Ea). }
  unfold step. destruct a.
  - destruct (serve _ _) as [r0 h] eqn:Sv.
    assert (K : filed (h_st h) /\ users_shape (Wr C (step_NH C (AReq r) O) (step_NR C (AReq r) O)) (s_users (w_st w)) (s_users (h_st h))).
    { refine (serve_lists _ _ _ (init_hst (w_st w) O) _ _ F (ctx_stored_none (init_hst (w_st w) O) eq_refl) _ _ Sv).
      - intros Rt c Hc. cbn [step_NH]. split; [exact Rt|]. exists c. split; [exact Hc|reflexivity].
      - intros Rt c Hc e He. cbn [step_NR]. split; [exact Rt|]. exists c. split; [exact Hc|exact He]. }
    destruct (h_out h); exact K.
  - destruct (admin _ _ _ _ _) as [r0 h] eqn:Ea. exact (ADM _ _ eq_refl).
  - destruct (admin _ _ _ _ _) as [r0 h] eqn:Ea. exact (ADM _ _ eq_refl).
  - destruct (admin _ _ _ _ _) as [r0 h] eqn:Ea. exact (ADM _ _ eq_refl).
  - destruct (admin _ _ _ _ _) as [r0 h] eqn:Ea. exact (ADM _ _ eq_refl).
  - exfalso. apply NS. exact I.
  - split; [exact F|apply users_shape_Wr_refl].
  - destruct cookie; (split; [exact F|apply users_shape_Wr_refl]).
Qed.

(* the harness's direct write: the record under the seeded pid is replaced, nobody else's *)
Lemma step_seed C cfg w u rm O :
  w_st (fst (step C cfg w (ASeed u rm) O)) =
  mkStorage (uput (u_pid u) u (s_users (w_st w))) (rmput (u_pid u) rm (s_rm (w_st w))).
Proof. reflexivity. Qed.

Lemma step_keeps_filed C cfg w a O : filed (w_st w) -> filed (w_st (fst (step C cfg w a O))).
Proof.
  intros F. destruct a as [r|p|p|p pw|p|u rm|b k v|ck b j].
  6:{ rewrite step_seed. unfold filed. cbn [s_users]. apply filedl_uput. exact F. }
  all: apply (step_lists C cfg w _ O); [intros []|exact F].
Qed.

(* ================================================================================================ *)
(* D. one-time passwords of one account                                                              *)
(* ================================================================================================ *)
Definition otp_hits (C : crypto) (x U : bytes) (st : storage) : nat :=
  match ulookup U (s_users st) with Some u => hits (sha C x) (split_otps (u_otps u)) | None => 0%nat end.

(* the record stored under U (if any) has no entry that the matcher accepts for x *)
Definition otp_absent (C : crypto) (x U : bytes) (st : storage) : Prop :=
  forall u, ulookup U (s_users st) = Some u ->
    forall e, In e (split_otps (u_otps u)) -> otp_hit (sha C x) e = false.
(* ... at most one *)
Definition otp_unique (C : crypto) (x U : bytes) (st : storage) : Prop :=
  forall u, ulookup U (s_users st) = Some u ->
    (length (filter (otp_hit (sha C x)) (split_otps (u_otps u))) <= 1)%nat.

Lemma otp_absent_hits C x U st : otp_absent C x U st <-> otp_hits C x U st = 0%nat.
Proof.
  unfold otp_absent, otp_hits. destruct (ulookup U (s_users st)) as [u|].
  - rewrite hits_zero. split; [intros H; apply (H u eq_refl)|intros H v Hv; inversion Hv; subst; exact H].
  - split; [reflexivity|intros _ v Hv; discriminate Hv].
Qed.
Lemma otp_unique_hits C x U st : otp_unique C x U st <-> (otp_hits C x U st <= 1)%nat.
Proof.
  unfold otp_unique, otp_hits, hits. destruct (ulookup U (s_users st)) as [u|].
  - split; [intros H; apply (H u eq_refl)|intros H v Hv; inversion Hv; subst; exact H].
  - split; [lia|intros _ v Hv; discriminate Hv].
Qed.

(* the matcher finds nothing in such a record *)
Lemma otp_absent_no_match C x U st u i :
  otp_absent C x U st -> ulookup U (s_users st) = Some u ->
  otp_match (sha C x) (split_otps (u_otps u)) 0%nat <> Some (Some i).
Proof.
  intros Ab Hu OM. apply otp_match_some_hit in OM as (y & Hy & Hh). rewrite (Ab u Hu y Hy) in Hh. discriminate Hh.
Qed.

(* the visible exceptions of the preservation theorem *)
Definition seeds (U : bytes) (a : action) : Prop :=
  match a with ASeed u _ => u_pid u = U | _ => False end.
(* an /otp/add POST for which one of the candidates the oracle offers to [fresh 16] - a 16-byte chunk
   of [o_fresh O], or the all-zero default - is formatted ([otp_format]) to a password with the hash of x *)
Definition otp_add_may_hit (C : crypto) (x : bytes) (a : action) (O : oracle) : Prop :=
  match a with
  | AReq req => q_route req = ROtpAdd /\ q_meth req = POST /\
                exists c, In c (fresh_cands 16 (o_fresh O)) /\ sha C (otp_format c) = sha C x
  | _ => False
  end.

Lemma otp_add_may_hit_laws C x a O :
  crypto_laws C -> otp_add_may_hit C x a O ->
  exists req c, a = AReq req /\ q_route req = ROtpAdd /\ q_meth req = POST /\
                In c (fresh_cands 16 (o_fresh O)) /\ otp_format c = x.
Proof.
  intros L H. destruct a; try contradiction. destruct H as (R & M & c & Hc & Hs).
  exists r, c. repeat split; auto. exact (sha_inj C L _ _ Hs).
Qed.

(* the number of entries of U's list that the matcher accepts for x does not grow in any step other
   than the two exceptions: holds for "absent" (= 0), "unique" (<= 1), any bound *)
Lemma step_hits_le C cfg w a O U x :
  filed (w_st w) -> ~ seeds U a -> ~ otp_add_may_hit C x a O ->
  (otp_hits C x U (w_st (fst (step C cfg w a O))) <= otp_hits C x U (w_st w))%nat.
Proof.
  intros F NS NA.
  assert (N : ~ step_NH C a O (sha C x)).
  { destruct a; cbn [step_NH]; try tauto. intros (Rt & c & Hc & Hs). apply NA. destruct Rt as [R M].
    cbn [otp_add_may_hit]. repeat split; auto. exists c. auto. }
  unfold otp_hits. destruct a as [r|p|p|p pw|p|su rm|b k v|ck b j].
  6:{ rewrite step_seed. cbn [s_users]. rewrite ulookup_uput_neq; [lia|]. intros HU. apply NS. symmetry. exact HU. }
  all: match goal with |- context [step _ _ _ ?a _] =>
         destruct (step_lists C cfg w a O (fun H => H) F) as [_ S]; specialize (S U);
         destruct (ulookup U (s_users (w_st w))) as [u0|];
         destruct (ulookup U (s_users (w_st (fst (step C cfg w a O))))) as [u1|];
         try lia; try contradiction; destruct S as [S _]; specialize (S (sha C x) N) end;
       try exact S; unfold split_otps at 2 in S; cbn in S; unfold hits at 2 in S; cbn in S; lia.
Qed.

Lemma step_absent_preserved C cfg w a O U x :
  filed (w_st w) -> otp_absent C x U (w_st w) -> ~ seeds U a -> ~ otp_add_may_hit C x a O ->
  otp_absent C x U (w_st (fst (step C cfg w a O))).
Proof.
  intros F Ab NS NA. apply otp_absent_hits. apply otp_absent_hits in Ab.
  pose proof (step_hits_le C cfg w a O U x F NS NA). lia.
Qed.
Lemma step_unique_preserved C cfg w a O U x :
  filed (w_st w) -> otp_unique C x U (w_st w) -> ~ seeds U a -> ~ otp_add_may_hit C x a O ->
  otp_unique C x U (w_st (fst (step C cfg w a O))).
Proof.
  intros F Ab NS NA. apply otp_unique_hits. apply otp_unique_hits in Ab.
  pose proof (step_hits_le C cfg w a O U x F NS NA). lia.
Qed.

(* ================================================================================================ *)
(* E. the /otp/login request at step level                                                           *)
(* ================================================================================================ *)
(* what the handler reads from a request (the env-free forms of [pid_field] and [values]) *)
Definition pid_field_of (cfg : config) : bytes := if c_username cfg then f_username else f_email.
Definition values_of (cfg : config) (req : request) : amap :=
  if c_api cfg then q_form req else q_form req ++ q_query req.
(* an /otp/login POST that names U and submits x *)
Definition otp_login_req (cfg : config) (req : request) (U x : bytes) : Prop :=
  q_route req = ROtpLogin /\ q_meth req = POST /\
  aget (pid_field_of cfg) (values_of cfg req) = U /\ aget f_password (values_of cfg req) = x.

(* no session key other than the two flash messages changed, in any browser's jar *)
Definition sess_untouched (w w' : world) : Prop :=
  forall b k, k <> k_flash_ok -> k <> k_flash_err ->
    alookup k (jar_get b (w_sess w')) = alookup k (jar_get b (w_sess w)).
(* some jar newly names U: as its identity, or parked as pending second factor *)
Definition pending_or_uid (k : bytes) : Prop := k = k_uid \/ k = k_totp_pending \/ k = k_sms_pending.
Definition accepted_for (U : bytes) (w w' : world) : Prop :=
  exists b k, pending_or_uid k /\
    alookup k (jar_get b (w_sess w')) = Some U /\ alookup k (jar_get b (w_sess w)) <> Some U.
Definition refused_for (U : bytes) (w w' : world) : Prop :=
  forall b k, pending_or_uid k ->
    alookup k (jar_get b (w_sess w')) = Some U -> alookup k (jar_get b (w_sess w)) = Some U.

Lemma pending_or_uid_not_flash k : pending_or_uid k -> k <> k_flash_ok /\ k <> k_flash_err.
Proof. intros [ -> | [ -> | -> ] ]; split; neq_const. Qed.

Lemma untouched_refused U w w' : sess_untouched w w' -> refused_for U w w'.
Proof.
  intros H b k Hk H1. destruct (pending_or_uid_not_flash k Hk) as [N1 N2]. rewrite <- (H b k N1 N2). exact H1.
Qed.
Lemma accepted_touched U w w' : accepted_for U w w' -> ~ sess_untouched w w'.
Proof. intros (b & k & Hk & H1 & H0) H. apply H0. exact (untouched_refused U w w' H b k Hk H1). Qed.

Lemma apply_events_flash l : forall j k, Forall flash_only l -> k <> k_flash_ok -> k <> k_flash_err ->
  alookup k (apply_events j l) = alookup k j.
Proof.
  unfold apply_events. induction l as [|e l IH]; intros j k F N1 N2; cbn [fold_left]; [reflexivity|].
  inversion F as [|? ? He Fl]; subst. rewrite IH by assumption.
  destruct e as [k' v|k'|wl]; cbn [flash_only] in He; try contradiction. cbn [apply_event].
  apply alookup_aput_neq. destruct He; congruence.
Qed.

(* what a request does to the world: storage is the handler's final storage; the jars of other
   browsers are untouched; the sender's session is what a prefix of the recorded events makes of it *)
Lemma step_req_jars C cfg w req O :
  exists r h,
    serve (mkEnv C cfg O req (jar_get (q_browser req) (w_cook w)) (jar_get (q_browser req) (w_sess w)))
          (init_hst (w_st w) O) = (r, h) /\
    w_st (fst (step C cfg w (AReq req) O)) = h_st h /\
    forall b, jar_get b (w_sess (fst (step C cfg w (AReq req) O))) = jar_get b (w_sess w) \/
              exists pre post, h_sev h = pre ++ post /\
                jar_get b (w_sess (fst (step C cfg w (AReq req) O))) = apply_events (jar_get b (w_sess w)) pre.
Proof.
  unfold step. cbv zeta. destruct (serve _ _) as [r h] eqn:Es. exists r, h. split; [reflexivity|].
  destruct (h_out h) as [wr|] eqn:Ho; cbn.
  - split; [reflexivity|]. intros b. destruct (bytes_dec b (q_browser req)) as [->|N].
    + right. destruct (evs_any_serve _ _ _ _ Es) as [_ Pf].
      assert (P0 : pref (init_hst (w_st w) O)) by (intros wr0 Hw; discriminate Hw).
      destruct (Pf P0 wr Ho) as (l & c & E1 & _). exists (w_sev wr), l. split; [exact E1|]. apply jar_get_set_eq.
    + left. apply jar_get_set_neq. exact N.
  - split; [reflexivity|]. intros b. left. reflexivity.
Qed.

(* the error handler leaves the recorded session events and storage as the handler left them *)
Lemma error_handler_tail E (hd : M unit) h r h' :
  with_error_handler E hd h = (r, h') ->
  exists r0 h0, hd h = (r0, h0) /\ h_sev h' = h_sev h0 /\ h_st h' = h_st h0.
Proof.
  unfold with_error_handler. intros Eq. apply try_inv in Eq as [(x & h1 & E1 & NP & K)|(E1 & ->)].
  - exists x, h1. split; [exact E1|]. destruct x as [a|e|]; [inversion K; subst; auto| |congruence].
    unfold bind, log, modify, write_resp, ret, fail in K. cbn in K.
    destruct (c_err_writes (e_cfg E)); cbn in K; [destruct (h_out h1); cbn in K|]; inversion K; subst; auto.
  - exists Panic, h'. auto.
Qed.

Lemma serve_otp_login E h r h' :
  q_route (e_req E) = ROtpLogin -> q_meth (e_req E) = POST -> serve E h = (r, h') ->
  (h_sev h' = h_sev h /\ h_st h' = h_st h) \/
  (exists r0 h0, otp_login_post E h = (r0, h0) /\ h_sev h' = h_sev h0 /\ h_st h' = h_st h0).
Proof.
  intros R M Eq. unfold serve, route_table in Eq. rewrite R, M in Eq. cbn beta iota in Eq.
  unfold when, get_post in Eq. rewrite M in Eq. destruct (has_mod (e_cfg E) MOtp).
  - right. exact (error_handler_tail _ _ _ _ _ Eq).
  - left. unfold write_resp, modify in Eq. inversion Eq; subst. destruct (h_out h); auto.
Qed.

(* ---- /otp/login: only flash messages, or the matched entry is gone at the end of the request ---- *)
Section OLF.
Variable E : env.
Notation C := (e_C E).
Notation vals := (values E).

Lemma otp_login_cases_flash h r h' :
  otp_login_post E h = (r, h') ->
  (exists ls, h_sev h' = h_sev h ++ ls /\ Forall flash_only ls) \/
  (exists u i,
     ulookup (aget (pid_field E) vals) (s_users (h_st h)) = Some u /\
     otp_match (sha C (aget f_password vals)) (split_otps (u_otps u)) 0%nat = Some (Some i) /\
     (exists su, ulookup (u_pid u) (s_users (h_st h')) = Some su /\ upto_lock (otp_consumed u i) su) /\
     (forall p, p <> u_pid u -> ulookup p (s_users (h_st h')) = ulookup p (s_users (h_st h)))).
Proof.
  intros Eq. unfold otp_login_post in Eq.
  assert (NIL : forall h0, h_sev h0 = h_sev h -> exists ls, h_sev h0 = h_sev h ++ ls /\ Forall flash_only ls)
    by (intros h0 S0; exists []; rewrite app_nil_r; auto).
  apply bind_inv in Eq as [(v & h1 & E1 & E2)|[(e & E1 & ->)|(E1 & ->)]];
    apply read_values_spec in E1 as [-> [Hv|Hv]]; try discriminate Hv; try (left; apply NIL; reflexivity).
  inversion Hv; subst v; clear Hv. cbn beta zeta in E2.
  apply try_inv in E2 as [(x & h2 & L & NP & K)|(L & ->)].
  2:{ apply st_load_spec in L. destruct L as (_ & _ & _ & _ & _ & _ & _ & N). congruence. }
  pose proof (st_load_spec _ _ _ _ _ L) as (S1 & _ & _ & S4 & _ & _ & Hu & _).
  destruct x as [u|e|]; [|destruct e|congruence];
    try (left; revert K; apply evs_left; [exact S1|ftail]; fail).
  specialize (Hu u eq_refl). cbn beta zeta in K.
  destruct (otp_match (sha C (aget f_password vals)) (split_otps (u_otps u)) 0%nat) as [[i|]|] eqn:OM;
    try (left; revert K; apply evs_left; [exact S1|ftail]; fail).
  apply bind_inv in K as [(a & h3 & K1 & K)|[(e & K1 & ->)|(K1 & ->)]]; try (inversion K1; fail).
  inversion K1; subst a h3; clear K1.
  apply bind_inv in K as [(a & h3 & K1 & K)|[(e & K1 & ->)|(K1 & ->)]]; try (inversion K1; fail).
  inversion K1; subst a h3; clear K1.
  change (u <| u_otps := join_otps (otp_remove (split_otps (u_otps u)) i) |>) with (otp_consumed u i) in K.
  set (u' := otp_consumed u i) in *.
  apply bind_inv in K as [(a & h3 & K1 & K)|[(e & K1 & ->)|(K1 & ->)]]; try (inversion K1; fail).
  inversion K1; subst a h3; clear K1.
  apply bind_inv in K as [(a & h3 & K1 & K)|[(e & K1 & ->)|(K1 & ->)]];
    apply st_save_spec in K1 as (Sv & _ & _ & Cu & [(e' & Hr & St)|(Hr & St)]); try discriminate Hr;
    try (left; apply NIL; rewrite Sv; simpl; exact S1; fail).
  simpl in St, Cu. right. exists u, i. split; [exact Hu|]. split; [exact OM|].
  assert (I3 : hinv (u_pid u) (upto_lock u') (s_users (h_st h)) h3).
  { split; [exists u'; rewrite Cu; repeat split; auto; apply upto_lock_refl|].
    rewrite St. simpl. change (u_pid u') with (u_pid u). rewrite S4. split.
    - exists u'. rewrite ulookup_uput_eq. split; [reflexivity|apply upto_lock_refl].
    - intros p Np. apply ulookup_uput_neq. exact Np. }
  assert (I' : hinv (u_pid u) (upto_lock u') (s_users (h_st h)) h').
  { revert I3 K. generalize h3 r h'.
    match goal with |- forall h3 r h', _ -> ?m h3 = _ -> _ =>
      change (keeps_inv (u_pid u) (upto_lock u') (s_users (h_st h)) m) end.
    pose proof (upto_lock_lock u') as QL.
    assert (KP : forall {A} (m : M A), pres uc m -> keeps_inv (u_pid u) (upto_lock u') (s_users (h_st h)) m)
      by (intros; apply keeps_of_pres; assumption).
    apply keeps_bind; [apply keeps_fire; [exact QL|discriminate]|intros hd1].
    destruct hd1; [apply KP, pres_ret|].
    apply keeps_bind; [apply keeps_fire; [exact QL|discriminate]|intros hd2].
    destruct hd2; [apply KP, pres_ret|].
    apply keeps_bind; [apply KP, pres_log; exact _|intros _].
    apply keeps_bind; [apply KP, pres_put_session; exact _|intros _].
    apply keeps_bind; [apply KP, pres_del_session; exact _|intros _].
    apply keeps_bind; [apply keeps_fire; [exact QL|discriminate]|intros hd3].
    destruct hd3; [apply KP, pres_ret|apply KP, pres_redirect; exact _]. }
  destruct I' as (_ & Su & Fr). split; [exact Su|exact Fr].
Qed.
End OLF.

Lemma jars_untouched_of_flash (w w' : world) (sev : list csevent) :
  (forall b, jar_get b (w_sess w') = jar_get b (w_sess w) \/
             exists pre post, sev = pre ++ post /\ jar_get b (w_sess w') = apply_events (jar_get b (w_sess w)) pre) ->
  Forall flash_only sev -> sess_untouched w w'.
Proof.
  intros Jr F b k N1 N2. destruct (Jr b) as [->|(pre & post & Hs & ->)]; [reflexivity|].
  apply apply_events_flash; auto. rewrite Hs in F. apply Forall_app in F. tauto.
Qed.

Section STEP.
Variable C : crypto.
Variable cfg : config.

(* 2. a password that U's record does not hold: no session key other than a flash message changes in any
   jar - nobody is logged in, nobody is parked for a second factor *)
Lemma absent_otp_refused w req O U x :
  filed (w_st w) -> otp_login_req cfg req U x -> otp_absent C x U (w_st w) ->
  sess_untouched w (fst (step C cfg w (AReq req) O)).
Proof.
  intros F (R & M & HU & HX) Ab.
  destruct (step_req_jars C cfg w req O) as (r & h & Sv & St & Jr).
  apply (jars_untouched_of_flash w _ (h_sev h) Jr).
  apply serve_otp_login in Sv as [(S1 & _)|(r0 & h0 & Eq & S1 & _)]; [| |exact R|exact M].
  - rewrite S1. constructor.
  - rewrite S1. destruct (otp_login_refused_lemma _ (init_hst (w_st w) O) _ _ (filed_keyed (w_st w) F) Eq) as [(ls & A1 & Fl) _].
    + intros u i Hu. change (ulookup (aget (pid_field_of cfg) (values_of cfg req)) (s_users (w_st w)) = Some u) in Hu.
      rewrite HU in Hu. change (aget f_password (values _)) with (aget f_password (values_of cfg req)). rewrite HX.
      exact (otp_absent_no_match C x U (w_st w) u i Ab Hu).
    + rewrite A1. exact Fl.
Qed.

(* 4. the step in which the login was accepted (some jar newly names U, as identity or as pending
   second factor) leaves U's record without an entry for x, provided it held at most one *)
Lemma consumption_establishes_absent w req O U x :
  filed (w_st w) -> otp_login_req cfg req U x -> otp_unique C x U (w_st w) ->
  ~ sess_untouched w (fst (step C cfg w (AReq req) O)) ->
  otp_absent C x U (w_st (fst (step C cfg w (AReq req) O))).
Proof.
  intros F (R & M & HU & HX) Un Acc.
  destruct (step_req_jars C cfg w req O) as (r & h & Sv & St & Jr).
  assert (FL : Forall flash_only (h_sev h) -> False).
  { intros Fl. apply Acc. exact (jars_untouched_of_flash w _ (h_sev h) Jr Fl). }
  apply serve_otp_login in Sv as [(S1 & _)|(r0 & h0 & Eq & S1 & S2)]; [| |exact R|exact M].
  { exfalso. apply FL. rewrite S1. constructor. }
  destruct (otp_login_cases_flash _ _ _ _ Eq) as [(ls & A1 & Fl)|(u & i & Hu & OM & (su & B1 & B2) & _)].
  { exfalso. apply FL. rewrite S1, A1. exact Fl. }
  change (ulookup (aget (pid_field_of cfg) (values_of cfg req)) (s_users (w_st w)) = Some u) in Hu.
  change (aget f_password (values _)) with (aget f_password (values_of cfg req)) in OM.
  rewrite HU in Hu. rewrite HX in OM. cbn [e_C] in OM.
  pose proof (filed_keyed _ F _ _ Hu) as Pu. rewrite Pu in B1.
  apply upto_lock_consumed in B2 as (_ & Os & _).
  intros u1 Hu1 e He. rewrite St, S2, B1 in Hu1. inversion Hu1; subst u1. rewrite Os in He.
  apply (split_join_incl _ (otp_remove_nosep (u_otps u) i)) in He.
  exact (otp_remove_no_hit _ _ i OM (Un u Hu) e He).
Qed.
End STEP.

(* ================================================================================================ *)
(* F. whole histories                                                                                *)
(* ================================================================================================ *)
Lemma run_cons_fst C cfg w a O l : fst (run C cfg w ((a, O) :: l)) = fst (run C cfg (fst (step C cfg w a O)) l).
Proof. rewrite !run_grun. reflexivity. Qed.
Lemma run_snoc_fst C cfg w l a O : fst (run C cfg w (l ++ [(a, O)])) = fst (step C cfg (fst (run C cfg w l)) a O).
Proof. rewrite !run_grun. apply grun_snoc. Qed.

Lemma run_keeps_filed C cfg : forall l w, filed (w_st w) -> filed (w_st (fst (run C cfg w l))).
Proof.
  induction l as [|[a O] l IH]; intros w F; [exact F|]. rewrite run_cons_fst. apply IH. apply step_keeps_filed. exact F.
Qed.

(* no step of the history is one of the two visible exceptions *)
Definition otp_quiet (C : crypto) (U x : bytes) (l : list (action * oracle)) : Prop :=
  Forall (fun ao => ~ seeds U (fst ao) /\ ~ otp_add_may_hit C x (fst ao) (snd ao)) l.

Lemma run_hits_le C cfg U x : forall l w,
  filed (w_st w) -> otp_quiet C U x l ->
  (otp_hits C x U (w_st (fst (run C cfg w l))) <= otp_hits C x U (w_st w))%nat.
Proof.
  induction l as [|[a O] l IH]; intros w F Q; [cbn; lia|]. rewrite run_cons_fst.
  inversion Q as [|? ? [N1 N2] Q']; subst. cbn [fst snd] in N1, N2.
  pose proof (step_hits_le C cfg w a O U x F N1 N2).
  pose proof (IH _ (step_keeps_filed C cfg w a O F) Q'). lia.
Qed.

Lemma run_absent_preserved C cfg U x l w :
  filed (w_st w) -> otp_absent C x U (w_st w) -> otp_quiet C U x l -> otp_absent C x U (w_st (fst (run C cfg w l))).
Proof.
  intros F Ab Q. apply otp_absent_hits. apply otp_absent_hits in Ab. pose proof (run_hits_le C cfg U x l w F Q). lia.
Qed.
Lemma run_unique_preserved C cfg U x l w :
  filed (w_st w) -> otp_unique C x U (w_st w) -> otp_quiet C U x l -> otp_unique C x U (w_st (fst (run C cfg w l))).
Proof.
  intros F Ab Q. apply otp_unique_hits. apply otp_unique_hits in Ab. pose proof (run_hits_le C cfg U x l w F Q). lia.
Qed.

(* 5. the history theorem *)
Lemma otp_never_again_lemma C cfg w0 l1 req1 O1 l2 req2 O2 U x :
  filed (w_st w0) ->
  otp_login_req cfg req1 U x -> otp_login_req cfg req2 U x ->
  otp_unique C x U (w_st (fst (run C cfg w0 l1))) ->
  accepted_for U (fst (run C cfg w0 l1)) (fst (step C cfg (fst (run C cfg w0 l1)) (AReq req1) O1)) ->
  otp_quiet C U x l2 ->
  sess_untouched (fst (run C cfg w0 (l1 ++ (AReq req1, O1) :: l2)))
                 (fst (run C cfg w0 (l1 ++ (AReq req1, O1) :: l2 ++ [(AReq req2, O2)]))) /\
  refused_for U (fst (run C cfg w0 (l1 ++ (AReq req1, O1) :: l2)))
                (fst (run C cfg w0 (l1 ++ (AReq req1, O1) :: l2 ++ [(AReq req2, O2)]))) /\
  otp_absent C x U (w_st (fst (run C cfg w0 (l1 ++ (AReq req1, O1) :: l2)))).
Proof.
  intros F0 L1 L2 Un Acc Q.
  set (w1 := fst (run C cfg w0 l1)) in *.
  assert (F1 : filed (w_st w1)) by (apply run_keeps_filed; exact F0).
  set (w1' := fst (step C cfg w1 (AReq req1) O1)) in *.
  assert (F1' : filed (w_st w1')) by (apply step_keeps_filed; exact F1).
  assert (A1 : otp_absent C x U (w_st w1')).
  { apply consumption_establishes_absent; auto. apply (accepted_touched U). exact Acc. }
  assert (E2 : fst (run C cfg w0 (l1 ++ (AReq req1, O1) :: l2)) = fst (run C cfg w1' l2)).
  { rewrite run_app_fst, run_cons_fst. reflexivity. }
  assert (E3 : fst (run C cfg w0 (l1 ++ (AReq req1, O1) :: l2 ++ [(AReq req2, O2)])) =
               fst (step C cfg (fst (run C cfg w1' l2)) (AReq req2) O2)).
  { rewrite run_app_fst, run_cons_fst, run_snoc_fst. reflexivity. }
  rewrite E2, E3.
  assert (A2 : otp_absent C x U (w_st (fst (run C cfg w1' l2)))) by (apply run_absent_preserved; auto).
  assert (U2 : sess_untouched (fst (run C cfg w1' l2)) (fst (step C cfg (fst (run C cfg w1' l2)) (AReq req2) O2))).
  { apply (absent_otp_refused C cfg _ req2 O2 U x); auto. apply run_keeps_filed. exact F1'. }
  split; [exact U2|]. split; [apply untouched_refused; exact U2|exact A2].
Qed.

(* ================================================================================================ *)
(* G. non-vacuity: a concrete history (executable crypto instance, computed)                         *)
(* ================================================================================================ *)
Definition ox_cfg : config :=
  mkConfig [MAuth; MOtp; MLogout] false false false false false false 3 300 3600 600 3600 (bs "/auth")
           false false false DELETE GET false [] RespNotFound [] [] true false false.
Definition ox_pid := bs "a@x.io".
Definition ox_x := bs "00112233-44556677-8899aabb-ccddeeff".
Definition ox_user : user :=
  blank_user <| u_pid := ox_pid |> <| u_email := ox_pid |> <| u_password := exec_pwhash (bs "password1") |>
             <| u_confirmed := true |> <| u_otps := b64std_enc (exec_sha ox_x) |>.
Definition ox_oracle : oracle := mkOracle 1000 [] [] [] (mkPA false false [] [] [] [] 0).
(* the oracle of the /otp/add request offers one 16-byte chunk *)
Definition ox_oracle_add : oracle := mkOracle 1001 [repeat x01 16] [] [] (mkPA false false [] [] [] [] 0).
Definition ox_login (b : bytes) : request :=
  mkRequest b POST ROtpLogin (bs "/otp/login") [] [] [(f_email, ox_pid); (f_password, ox_x)] false.
Definition ox_page : request := mkRequest (bs "b1") GET RLogin (bs "/login") [] [] [] false.
Definition ox_add : request := mkRequest (bs "b1") POST ROtpAdd (bs "/otp/add") [] [] [] false.
(* seed the account with one one-time password; browser b1 logs in with it; b1 looks at a page, adds a
   new one-time password (it is stored), the account is locked and unlocked; browser b2 submits the
   consumed password *)
Definition ox_l1 : list (action * oracle) := [(ASeed ox_user [], ox_oracle)].
Definition ox_l2 : list (action * oracle) :=
  [(AReq ox_page, ox_oracle); (AReq ox_add, ox_oracle_add); (ALock ox_pid, ox_oracle); (AUnlock ox_pid, ox_oracle)].

Lemma ox_quiet : otp_quiet XC ox_pid ox_x ox_l2.
Proof.
  repeat constructor; cbn [fst snd seeds otp_add_may_hit]; try tauto.
  - intros (R & _). discriminate R.
  - intros (_ & _ & c & Hc & Hs). vm_compute in Hc. destruct Hc as [<-|[<-|[]]]; vm_compute in Hs; discriminate Hs.
Qed.

Lemma ox_witness :
  exists C cfg w0 l1 req1 O1 l2 req2 (O2 : oracle) U x,
    crypto_laws C /\ l2 <> [] /\
    filed (w_st w0) /\ otp_login_req cfg req1 U x /\ otp_login_req cfg req2 U x /\
    otp_unique C x U (w_st (fst (run C cfg w0 l1))) /\
    accepted_for U (fst (run C cfg w0 l1)) (fst (step C cfg (fst (run C cfg w0 l1)) (AReq req1) O1)) /\
    otp_quiet C U x l2 /\
    (* the /otp/add in between did store a new one-time password for U *)
    (exists u, ulookup U (s_users (w_st (fst (run C cfg w0 (l1 ++ (AReq req1, O1) :: l2))))) = Some u /\
               length (split_otps (u_otps u)) = 1%nat).
Proof.
  exists XC, ox_cfg, empty_world, ox_l1, (ox_login (bs "b1")), ox_oracle, ox_l2, (ox_login (bs "b2")), ox_oracle, ox_pid, ox_x.
  split; [exact exec_laws|]. split; [discriminate|].
  split; [split; [constructor|intros k u []]|].
  split; [repeat split|]. split; [repeat split|].
  split.
  { intros u Hu. vm_compute in Hu. inversion Hu; subst u. vm_compute. lia. }
  split.
  { exists (bs "b1"), k_uid. split; [left; reflexivity|]. split; [vm_compute; reflexivity|vm_compute; discriminate]. }
  split; [exact ox_quiet|].
  eexists. split; [vm_compute; reflexivity|vm_compute; reflexivity].
Qed.

(* ================================================================================================ *)
(* H. exception (i), sharpened: only the /otp/add of a browser whose session names U                  *)
(* ================================================================================================ *)
(* /otp/add touches the record of the session's user and of nobody else (the footprint logic J of
   Proofs/Footprint.v with the one-account footprint "the session's uid") *)
Lemma serve_otp_add_frame E h r h' U :
  otp_add_route (e_req E) -> filed (h_st h) -> h_cuser h = None -> h_cpid h = None ->
  serve E h = (r, h') -> U <> aget k_uid (e_sess E) ->
  ulookup U (s_users (h_st h')) = ulookup U (s_users (h_st h)).
Proof.
  intros [R M] Fl Cu Cp Eq NU. unfold serve, route_table in Eq. rewrite R, M in Eq. cbn beta iota in Eq.
  unfold when, get_post in Eq. rewrite M in Eq. destruct (has_mod (e_cfg E) MOtp).
  2:{ unfold write_resp, modify in Eq. inversion Eq; subst. destruct (h_out h); reflexivity. }
  apply error_handler_tail in Eq as (r0 & h0 & Eq & _ & S2). rewrite S2.
  set (F := fun q : bytes => q = aget k_uid (e_sess E)).
  assert (Huid : bempty (aget k_uid (e_sess E)) = false -> F (aget k_uid (e_sess E))) by (intros _; reflexivity).
  pose proof (J_behind F E Huid false _ (J_otp_add_post F E Huid)) as HJ.
  assert (W : wf F h).
  { split; [exact Fl|]. split; [intros cu Hc; congruence|intros p Hp; congruence]. }
  assert (S : sim F h h) by (split; [reflexivity|intros p _; auto]).
  destruct (HJ h h r0 h0 r0 h0 W W S Eq Eq) as (_ & _ & _ & _ & Fr & _).
  exact (proj1 (Fr U NU)).
Qed.

Definition otp_add_hits (C : crypto) (x U : bytes) (w : world) (a : action) (O : oracle) : Prop :=
  match a with
  | AReq req => q_route req = ROtpAdd /\ q_meth req = POST /\
                aget k_uid (jar_get (q_browser req) (w_sess w)) = U /\
                exists c, In c (fresh_cands 16 (o_fresh O)) /\ sha C (otp_format c) = sha C x
  | _ => False
  end.

Lemma step_hits_le_sharp C cfg w a O U x :
  filed (w_st w) -> ~ seeds U a -> ~ otp_add_hits C x U w a O ->
  (otp_hits C x U (w_st (fst (step C cfg w a O))) <= otp_hits C x U (w_st w))%nat.
Proof.
  intros F NS NA.
  assert (NOT : ~ otp_add_may_hit C x a O -> (otp_hits C x U (w_st (fst (step C cfg w a O))) <= otp_hits C x U (w_st w))%nat)
    by (apply step_hits_le; assumption).
  destruct a as [req|p|p|p pw|p|su rm|b k v|ck b j]; try solve [apply NOT; intros []].
  destruct (bytes_dec U (aget k_uid (jar_get (q_browser req) (w_sess w)))) as [EU|NU].
  - apply NOT. intros (R & M & Hc). apply NA. cbn [otp_add_hits]. auto.
  - destruct (q_route req) eqn:R; try (apply NOT; intros (R' & _); rewrite R in R'; discriminate R').
    destruct (q_meth req) eqn:M; try (apply NOT; intros (_ & M' & _); rewrite M in M'; discriminate M').
    destruct (step_req_jars C cfg w req O) as (r & h & Sv & St & _).
    unfold otp_hits. rewrite St.
    rewrite (serve_otp_add_frame (mkEnv C cfg O req (jar_get (q_browser req) (w_cook w)) (jar_get (q_browser req) (w_sess w)))
               (init_hst (w_st w) O) r h U (conj R M) F eq_refl eq_refl Sv NU). cbn [init_hst h_st]. lia.
Qed.

Lemma step_absent_preserved_sharp C cfg w a O U x :
  filed (w_st w) -> otp_absent C x U (w_st w) -> ~ seeds U a -> ~ otp_add_hits C x U w a O ->
  otp_absent C x U (w_st (fst (step C cfg w a O))).
Proof.
  intros F Ab NS NA. apply otp_absent_hits. apply otp_absent_hits in Ab.
  pose proof (step_hits_le_sharp C cfg w a O U x F NS NA). lia.
Qed.
Lemma step_unique_preserved_sharp C cfg w a O U x :
  filed (w_st w) -> otp_unique C x U (w_st w) -> ~ seeds U a -> ~ otp_add_hits C x U w a O ->
  otp_unique C x U (w_st (fst (step C cfg w a O))).
Proof.
  intros F Ab NS NA. apply otp_unique_hits. apply otp_unique_hits in Ab.
  pose proof (step_hits_le_sharp C cfg w a O U x F NS NA). lia.
Qed.

(* the history theorem with the sharpened exception, which looks at the world each step starts from *)
Definition otp_quiet_sharp (C : crypto) (cfg : config) (U x : bytes) (w : world) (l : list (action * oracle)) : Prop :=
  forall p a O s, l = p ++ (a, O) :: s -> ~ seeds U a /\ ~ otp_add_hits C x U (fst (run C cfg w p)) a O.

Lemma otp_quiet_sharp_of_quiet C cfg U x w l : otp_quiet C U x l -> otp_quiet_sharp C cfg U x w l.
Proof.
  intros Q p a O s ->. apply Forall_mid in Q. cbn [fst snd] in Q. destruct Q as [N1 N2]. split; [exact N1|].
  intros H. apply N2. destruct a; try contradiction. destruct H as (R & M & _ & Hc). cbn. auto.
Qed.

Lemma run_hits_le_sharp C cfg U x : forall l w,
  filed (w_st w) -> otp_quiet_sharp C cfg U x w l ->
  (otp_hits C x U (w_st (fst (run C cfg w l))) <= otp_hits C x U (w_st w))%nat.
Proof.
  induction l as [|[a O] l IH]; intros w F Q; [cbn; lia|]. rewrite run_cons_fst.
  destruct (Q [] a O l eq_refl) as [N1 N2]. cbn [run fst] in N2.
  pose proof (step_hits_le_sharp C cfg w a O U x F N1 N2).
  assert (Q' : otp_quiet_sharp C cfg U x (fst (step C cfg w a O)) l).
  { intros p a' O' s E. specialize (Q ((a, O) :: p) a' O' s (f_equal (cons (a, O)) E)).
    change (((a, O) :: p)) with ([(a, O)] ++ p) in Q. rewrite run_app_fst in Q.
    replace (fst (run C cfg w [(a, O)])) with (fst (step C cfg w a O)) in Q; [exact Q|].
    symmetry. apply (run_snoc_fst C cfg w [] a O). }
  pose proof (IH _ (step_keeps_filed C cfg w a O F) Q'). lia.
Qed.

Lemma otp_never_again_sharp_lemma C cfg w0 l1 req1 O1 l2 req2 O2 U x :
  filed (w_st w0) ->
  otp_login_req cfg req1 U x -> otp_login_req cfg req2 U x ->
  otp_unique C x U (w_st (fst (run C cfg w0 l1))) ->
  accepted_for U (fst (run C cfg w0 l1)) (fst (step C cfg (fst (run C cfg w0 l1)) (AReq req1) O1)) ->
  otp_quiet_sharp C cfg U x (fst (step C cfg (fst (run C cfg w0 l1)) (AReq req1) O1)) l2 ->
  sess_untouched (fst (run C cfg w0 (l1 ++ (AReq req1, O1) :: l2)))
                 (fst (run C cfg w0 (l1 ++ (AReq req1, O1) :: l2 ++ [(AReq req2, O2)]))) /\
  refused_for U (fst (run C cfg w0 (l1 ++ (AReq req1, O1) :: l2)))
                (fst (run C cfg w0 (l1 ++ (AReq req1, O1) :: l2 ++ [(AReq req2, O2)]))) /\
  otp_absent C x U (w_st (fst (run C cfg w0 (l1 ++ (AReq req1, O1) :: l2)))).
Proof.
  intros F0 L1 L2 Un Acc Q.
  set (w1 := fst (run C cfg w0 l1)) in *.
  assert (F1 : filed (w_st w1)) by (apply run_keeps_filed; exact F0).
  set (w1' := fst (step C cfg w1 (AReq req1) O1)) in *.
  assert (F1' : filed (w_st w1')) by (apply step_keeps_filed; exact F1).
  assert (A1 : otp_absent C x U (w_st w1')).
  { apply consumption_establishes_absent; auto. apply (accepted_touched U). exact Acc. }
  assert (E2 : fst (run C cfg w0 (l1 ++ (AReq req1, O1) :: l2)) = fst (run C cfg w1' l2)).
  { rewrite run_app_fst, run_cons_fst. reflexivity. }
  assert (E3 : fst (run C cfg w0 (l1 ++ (AReq req1, O1) :: l2 ++ [(AReq req2, O2)])) =
               fst (step C cfg (fst (run C cfg w1' l2)) (AReq req2) O2)).
  { rewrite run_app_fst, run_cons_fst, run_snoc_fst. reflexivity. }
  rewrite E2, E3.
  assert (A2 : otp_absent C x U (w_st (fst (run C cfg w1' l2)))).
  { apply otp_absent_hits. apply otp_absent_hits in A1. pose proof (run_hits_le_sharp C cfg U x l2 w1' F1' Q). lia. }
  assert (U2 : sess_untouched (fst (run C cfg w1' l2)) (fst (step C cfg (fst (run C cfg w1' l2)) (AReq req2) O2))).
  { apply (absent_otp_refused C cfg _ req2 O2 U x); auto. apply run_keeps_filed. exact F1'. }
  split; [exact U2|]. split; [apply untouched_refused; exact U2|exact A2].
Qed.

(* ---- the statements of Props/C12d.v that unfold the vocabulary ---------------------------------- *)
Lemma absent_otp_refused_lemma : forall C cfg w req O U x,
  filed (w_st w) -> otp_login_req cfg req U x -> otp_absent C x U (w_st w) ->
  let w' := fst (step C cfg w (AReq req) O) in
  (forall b k, k <> k_flash_ok -> k <> k_flash_err ->
     alookup k (jar_get b (w_sess w')) = alookup k (jar_get b (w_sess w))) /\
  (forall b k, (k = k_uid \/ k = k_totp_pending \/ k = k_sms_pending) ->
     alookup k (jar_get b (w_sess w')) = Some U -> alookup k (jar_get b (w_sess w)) = Some U).
Proof.
  intros C cfg w req O U x F L Ab w'.
  pose proof (absent_otp_refused C cfg w req O U x F L Ab) as H. split; [exact H|exact (untouched_refused U _ _ H)].
Qed.

Lemma consumption_establishes_absent_lemma : forall C cfg w req O U x,
  filed (w_st w) -> otp_login_req cfg req U x -> otp_unique C x U (w_st w) ->
  accepted_for U w (fst (step C cfg w (AReq req) O)) ->
  otp_absent C x U (w_st (fst (step C cfg w (AReq req) O))).
Proof.
  intros C cfg w req O U x F L Un Acc.
  exact (consumption_establishes_absent C cfg w req O U x F L Un (accepted_touched U _ _ Acc)).
Qed.

Lemma exceptions_reading : forall C x U w a O,
  (seeds U a <-> match a with ASeed u _ => u_pid u = U | _ => False end) /\
  (otp_add_may_hit C x a O <->
   match a with
   | AReq req => q_route req = ROtpAdd /\ q_meth req = POST /\
                 exists c, In c (fresh_cands 16 (o_fresh O)) /\ sha C (otp_format c) = sha C x
   | _ => False
   end) /\
  (otp_add_hits C x U w a O <->
   match a with
   | AReq req => q_route req = ROtpAdd /\ q_meth req = POST /\
                 aget k_uid (jar_get (q_browser req) (w_sess w)) = U /\
                 exists c, In c (fresh_cands 16 (o_fresh O)) /\ sha C (otp_format c) = sha C x
   | _ => False
   end).
Proof. intros. repeat split; intros H; exact H. Qed.

(* ================================================================================================ *)
(* I. the same chain for the 2FA recovery codes                                                      *)
(* ================================================================================================ *)
(* the record stored under U (if any) verifies c against none of its stored recovery-code hashes *)
Definition rc_absent (C : crypto) (c U : bytes) (st : storage) : Prop :=
  forall u, ulookup U (s_users st) = Some u ->
    forall e, In e (decode_codes (u_recovery u)) -> pwcheck C e c = false.

Lemma rc_absent_use E c U st u :
  rc_absent (e_C E) c U st -> ulookup U (s_users st) = Some u ->
  use_recovery_code E (decode_codes (u_recovery u)) c = None.
Proof. intros Ab Hu. apply use_rc_none_iff. exact (Ab u Hu). Qed.

(* the visible exception: a request on one of the three routes that generate recovery codes
   (regeneration, TOTP set-up confirmation, SMS set-up confirmation) for which one of the ten codes
   cut out of a candidate of [fresh 100] verifies, once hashed, the code c *)
Definition regen_may_hit (C : crypto) (c : bytes) (a : action) (O : oracle) : Prop :=
  match a with
  | AReq req => regen_route req /\
                exists c0 code, In c0 (fresh_cands 100 (o_fresh O)) /\ In code (rc_codes 10 c0) /\
                                pwcheck C (pwhash C code) c = true
  | _ => False
  end.

Lemma regen_may_hit_laws C c a O :
  crypto_laws C -> pw_dom c -> regen_may_hit C c a O ->
  exists req c0, a = AReq req /\ regen_route req /\ In c0 (fresh_cands 100 (o_fresh O)) /\
                 (In c (rc_codes 10 c0) \/ exists code, In code (rc_codes 10 c0) /\ ~ pw_dom code).
Proof.
  intros L Dc H. destruct a; try contradiction. destruct H as (Rt & c0 & code & H0 & H1 & H2).
  exists r, c0. split; [reflexivity|]. split; [exact Rt|]. split; [exact H0|].
  destruct (le_dec (length code) 72) as [Dk|Dk].
  - left. apply (pw_ok C L code c Dk Dc) in H2. subst code. exact H1.
  - right. exists code. split; [exact H1|exact Dk].
Qed.

Lemma step_rc_absent_preserved C cfg w a O U c :
  nocomma C -> pwcheck C [] c = false ->
  filed (w_st w) -> rc_absent C c U (w_st w) -> ~ seeds U a -> ~ regen_may_hit C c a O ->
  rc_absent C c U (w_st (fst (step C cfg w a O))).
Proof.
  intros NC Em F Ab NS NA.
  assert (N : forall e, step_NR C a O e -> pwcheck C e c = false).
  { intros e He. destruct (pwcheck C e c) eqn:Pc; [|reflexivity]. exfalso. apply NA.
    destruct a; cbn [step_NR] in He; try contradiction. destruct He as (Rt & c0 & H0 & H1).
    apply in_map_iff in H1 as (code & <- & H1). cbn [regen_may_hit]. split; [exact Rt|]. exists c0, code. auto. }
  destruct a as [r|p|p|p pw|p|su rm|b k v|ck b j].
  6:{ intros u Hu. rewrite step_seed in Hu. cbn [s_users] in Hu. rewrite ulookup_uput_neq in Hu; [exact (Ab u Hu)|].
      intros HU. apply NS. symmetry. exact HU. }
  all: match goal with |- context [step _ _ _ ?a _] =>
         destruct (step_lists C cfg w a O (fun H => H) F) as [_ S]; specialize (S U);
         intros u1 Hu1 e He; rewrite Hu1 in S;
         destruct (ulookup U (s_users (w_st w))) as [u0|] eqn:L0;
         destruct S as [_ S]; destruct (S NC e He) as [->|[Ho|Hn]];
         [exact Em|exact (Ab u0 L0 e Ho)|exact (N e Hn)|exact Em|destruct Ho as [<-|[]]; exact Em|exact (N e Hn)] end.
Qed.

(* a request on one of the two validation pages that submits the recovery code c *)
Definition rc_validate_req (cfg : config) (req : request) (c : bytes) : Prop :=
  (q_route req = RTotpValidate \/ q_route req = RSmsValidate) /\ q_meth req = POST /\
  aget f_recovery_code (values_of cfg req) = c /\ bempty c = false.

(* some jar newly names U as its identity / no jar does *)
Definition logged_in_as (U : bytes) (w w' : world) : Prop :=
  exists b, alookup k_uid (jar_get b (w_sess w')) = Some U /\ alookup k_uid (jar_get b (w_sess w)) <> Some U.
Definition not_logged_in_as (U : bytes) (w w' : world) : Prop :=
  forall b, alookup k_uid (jar_get b (w_sess w')) = Some U -> alookup k_uid (jar_get b (w_sess w)) = Some U.

Lemma serve_of_route E h r h' :
  serve E h = (r, h') ->
  (exists hd r0 h0, route_table E = Handler hd /\ hd h = (r0, h0) /\ h_sev h' = h_sev h0 /\ h_st h' = h_st h0) \/
  ((forall hd, route_table E <> Handler hd) /\ h_sev h' = h_sev h /\ h_st h' = h_st h).
Proof.
  unfold serve. destruct (route_table E) as [hd| |] eqn:RT; intros Eq.
  - left. apply error_handler_tail in Eq as (r0 & h0 & A & B & C0). exists hd, r0, h0. auto.
  - right. split; [intros hd; discriminate|]. unfold write_resp, modify in Eq. inversion Eq; subst. destruct (h_out h); auto.
  - right. split; [intros hd; discriminate|]. unfold write_resp, modify in Eq. inversion Eq; subst. destruct (h_out h); auto.
Qed.

Lemma rc_validate_route E hd :
  (q_route (e_req E) = RTotpValidate \/ q_route (e_req E) = RSmsValidate) -> q_meth (e_req E) = POST ->
  route_table E = Handler hd -> exists k, hd = validate2fa k E.
Proof.
  intros [R|R] M; unfold route_table; rewrite R, M; cbn beta iota; unfold when, get_post; rewrite M.
  - destruct (c_totp (e_cfg E)); intros H; inversion H. exists KTotp. reflexivity.
  - destruct (c_sms (e_cfg E)); intros H; inversion H. exists KSms. reflexivity.
Qed.

(* the handler-level content of a validation request at step level *)
Lemma step_rc_validate C cfg w req O c :
  rc_validate_req cfg req c ->
  let E := mkEnv C cfg O req (jar_get (q_browser req) (w_cook w)) (jar_get (q_browser req) (w_sess w)) in
  (forall U, not_logged_in_as U w (fst (step C cfg w (AReq req) O))) \/
  exists k r0 h0 ls,
    validate2fa k E (init_hst (w_st w) O) = (r0, h0) /\ h_sev h0 = ls /\
    w_st (fst (step C cfg w (AReq req) O)) = h_st h0 /\
    forall U, logged_in_as U w (fst (step C cfg w (AReq req) O)) -> In (Put k_uid U) ls.
Proof.
  intros (R & M & Hc & Be) E.
  destruct (step_req_jars C cfg w req O) as (r & h & Sv & St & Jr). fold E in Sv.
  assert (PUT : forall U, logged_in_as U w (fst (step C cfg w (AReq req) O)) -> In (Put k_uid U) (h_sev h)).
  { intros U (b & H1 & H0). destruct (Jr b) as [Eb|(pre & post & Hs & Eb)]; rewrite Eb in H1; [contradiction|].
    rewrite Hs. apply in_or_app. left. exact (apply_events_uid_change _ _ _ H1 H0). }
  apply serve_of_route in Sv as [(hd & r0 & h0 & RT & Eq & S1 & S2)|(_ & S1 & _)].
  - apply (rc_validate_route E hd R M) in RT as (k & ->). right. exists k, r0, h0, (h_sev h0).
    split; [exact Eq|]. split; [reflexivity|]. split; [congruence|]. intros U HU. rewrite <- S1. exact (PUT U HU).
  - left. intros U b H1. destruct (names_dec b U w) as [Y|N]; [exact Y|]. exfalso.
    assert (HI : In (Put k_uid U) (h_sev h)) by (apply PUT; exists b; auto). rewrite S1 in HI. destruct HI.
Qed.

(* refusal: U's record verifies c against nothing: no jar newly names U *)
Lemma rc_absent_refused C cfg w req O U c :
  filed (w_st w) -> rc_validate_req cfg req c -> rc_absent C c U (w_st w) ->
  not_logged_in_as U w (fst (step C cfg w (AReq req) O)).
Proof.
  intros F L Ab. pose proof L as (_ & _ & Hc & Be).
  destruct (step_rc_validate C cfg w req O c L) as [H|(k & r0 & h0 & ls & Eq & Hs & _ & PUT)]; [exact (H U)|].
  intros b H1. destruct (names_dec b U w) as [Y|N]; [exact Y|]. exfalso.
  assert (HI : In (Put k_uid U) ls) by (apply PUT; exists b; auto).
  set (E := mkEnv C cfg O req (jar_get (q_browser req) (w_cook w)) (jar_get (q_browser req) (w_sess w))) in *.
  revert HI. apply (validate2fa_rc_refused E k (init_hst (w_st w) O) r0 h0 U ls (filed_keyed (w_st w) F) eq_refl).
  - change (aget f_recovery_code (values E)) with (aget f_recovery_code (values_of cfg req)). rewrite Hc. exact Be.
  - intros u Hu. change (aget f_recovery_code (values E)) with (aget f_recovery_code (values_of cfg req)). rewrite Hc.
    apply (rc_absent_use E c U (w_st w) u); [exact Ab|exact Hu].
  - exact Eq.
  - cbn [init_hst h_sev app]. exact Hs.
Qed.

(* consumption: the step that logged U in against the recovery code c leaves U's record without a
   hash that verifies c (the hypotheses of c12_recovery_code_once on the list stored before) *)
Lemma rc_consumption_establishes_absent C cfg w req O U c plain :
  crypto_laws C -> filed (w_st w) -> rc_validate_req cfg req c ->
  (forall u, ulookup U (s_users (w_st w)) = Some u -> decode_codes (u_recovery u) = map (pwhash C) plain) ->
  NoDup plain -> Forall pw_dom plain -> pw_dom c -> pwcheck C [] c = false ->
  logged_in_as U w (fst (step C cfg w (AReq req) O)) ->
  rc_absent C c U (w_st (fst (step C cfg w (AReq req) O))).
Proof.
  intros laws F L Plain ND FD Dc Em Acc. pose proof L as (_ & _ & Hc & Be).
  destruct (step_rc_validate C cfg w req O c L) as [H|(k & r0 & h0 & ls & Eq & Hs & St & PUT)].
  { exfalso. destruct Acc as (b & H1 & H0). exact (H0 (H U b H1)). }
  pose proof (PUT U Acc) as Hin.
  set (E := mkEnv C cfg O req (jar_get (q_browser req) (w_cook w)) (jar_get (q_browser req) (w_sess w))) in *.
  assert (Brc : bempty (aget f_recovery_code (values E)) = false).
  { change (aget f_recovery_code (values E)) with (aget f_recovery_code (values_of cfg req)). rewrite Hc. exact Be. }
  destruct (validate2fa_rc_cases E k _ _ _ Eq Brc) as [(ls0 & A1 & Fn)|(u0 & rest & Src & Uc & (ls0 & A1 & Fg) & (su & B1 & B2) & Fr)].
  { cbn [init_hst h_sev app] in A1. rewrite Hs in A1. subst ls0. rewrite Forall_forall in Fn. exfalso. apply (Fn _ Hin). reflexivity. }
  cbn [init_hst h_sev app] in A1. rewrite Hs in A1. subst ls0. rewrite Forall_forall in Fg.
  assert (PU : u_pid u0 = U).
  { destruct (Fg _ Hin) as [N|(U' & EqU & G)]; [exfalso; apply N; reflexivity|]. inversion EqU. congruence. }
  pose proof (user_source_stored E _ (init_hst (w_st w) O) u0 (filed_keyed (w_st w) F) eq_refl Src) as Lu.
  rewrite PU in *. cbn [init_hst h_st] in Lu. destruct B2 as [s ->].
  intros u1 Hu1. rewrite St, B1 in Hu1. inversion Hu1; subst u1.
  change (u_recovery (set_ltriple (consumed u0 rest) s)) with (encode_codes rest).
  apply (use_rc_none_iff E).
  change (aget f_recovery_code (values E)) with (aget f_recovery_code (values_of cfg req)) in Uc. rewrite Hc in Uc.
  rewrite (Plain u0 Lu) in Uc.
  exact (consumed_code_rejected E plain c rest laws ND FD Dc Em Uc).
Qed.

Definition rc_quiet (C : crypto) (U c : bytes) (l : list (action * oracle)) : Prop :=
  Forall (fun ao => ~ seeds U (fst ao) /\ ~ regen_may_hit C c (fst ao) (snd ao)) l.

Lemma run_rc_absent_preserved C cfg U c : forall l w,
  nocomma C -> pwcheck C [] c = false ->
  filed (w_st w) -> rc_absent C c U (w_st w) -> rc_quiet C U c l -> rc_absent C c U (w_st (fst (run C cfg w l))).
Proof.
  induction l as [|[a O] l IH]; intros w NC Em F Ab Q; [exact Ab|]. rewrite run_cons_fst.
  inversion Q as [|? ? [N1 N2] Q']; subst. cbn [fst snd] in N1, N2.
  apply IH; auto; [apply step_keeps_filed; exact F|apply step_rc_absent_preserved; auto].
Qed.

Lemma recovery_code_never_again_lemma C cfg w0 l1 req1 O1 l2 req2 O2 U c plain :
  crypto_laws C -> filed (w_st w0) ->
  rc_validate_req cfg req1 c -> rc_validate_req cfg req2 c ->
  (forall u, ulookup U (s_users (w_st (fst (run C cfg w0 l1)))) = Some u -> decode_codes (u_recovery u) = map (pwhash C) plain) ->
  NoDup plain -> Forall pw_dom plain -> pw_dom c -> pwcheck C [] c = false ->
  logged_in_as U (fst (run C cfg w0 l1)) (fst (step C cfg (fst (run C cfg w0 l1)) (AReq req1) O1)) ->
  rc_quiet C U c l2 ->
  not_logged_in_as U (fst (run C cfg w0 (l1 ++ (AReq req1, O1) :: l2)))
                     (fst (run C cfg w0 (l1 ++ (AReq req1, O1) :: l2 ++ [(AReq req2, O2)]))) /\
  rc_absent C c U (w_st (fst (run C cfg w0 (l1 ++ (AReq req1, O1) :: l2)))).
Proof.
  intros laws F0 L1 L2 Plain ND FD Dc Em Acc Q.
  set (w1 := fst (run C cfg w0 l1)) in *.
  assert (F1 : filed (w_st w1)) by (apply run_keeps_filed; exact F0).
  set (w1' := fst (step C cfg w1 (AReq req1) O1)) in *.
  assert (F1' : filed (w_st w1')) by (apply step_keeps_filed; exact F1).
  assert (A1 : rc_absent C c U (w_st w1')) by (apply (rc_consumption_establishes_absent C cfg w1 req1 O1 U c plain); auto).
  assert (E2 : fst (run C cfg w0 (l1 ++ (AReq req1, O1) :: l2)) = fst (run C cfg w1' l2)).
  { rewrite run_app_fst, run_cons_fst. reflexivity. }
  assert (E3 : fst (run C cfg w0 (l1 ++ (AReq req1, O1) :: l2 ++ [(AReq req2, O2)])) =
               fst (step C cfg (fst (run C cfg w1' l2)) (AReq req2) O2)).
  { rewrite run_app_fst, run_cons_fst, run_snoc_fst. reflexivity. }
  rewrite E2, E3.
  assert (A2 : rc_absent C c U (w_st (fst (run C cfg w1' l2)))).
  { apply run_rc_absent_preserved; auto. apply nocomma_of_laws. exact laws. }
  split; [|exact A2].
  apply (rc_absent_refused C cfg _ req2 O2 U c); auto. apply run_keeps_filed. exact F1'.
Qed.

(* non-vacuity for the recovery codes (executable crypto instance, computed): an account with TOTP and
   two recovery codes; browser b1 logs in with the password (parked for the second factor) and presents
   a recovery code (logged in); browser b2 logs in with the password (parked) and presents the same code *)
Definition rx_cfg : config :=
  mkConfig [MAuth; MLogout] false true false false true false 3 300 3600 600 3600 (bs "/auth")
           false false false DELETE GET false [] RespNotFound [] [] true false false.
Definition rx_c := bs "abcde-fghij".
Definition rx_plain := [rx_c; bs "klmno-pqrst"].
Definition rx_user : user :=
  blank_user <| u_pid := ox_pid |> <| u_email := ox_pid |> <| u_password := exec_pwhash (bs "password1") |>
             <| u_confirmed := true |> <| u_totp := bs "JBSWY3DPEHPK3PXP" |>
             <| u_recovery := encode_codes (map exec_pwhash rx_plain) |>.
Definition rx_login (b : bytes) : request :=
  mkRequest b POST RLogin (bs "/login") [] [] [(f_email, ox_pid); (f_password, bs "password1")] false.
Definition rx_validate (b : bytes) : request :=
  mkRequest b POST RTotpValidate (bs "/2fa/totp/validate") [] [] [(f_recovery_code, rx_c)] false.
Definition rx_l1 : list (action * oracle) := [(ASeed rx_user [], ox_oracle); (AReq (rx_login (bs "b1")), ox_oracle)].
Definition rx_l2 : list (action * oracle) := [(AReq ox_page, ox_oracle); (AReq (rx_login (bs "b2")), ox_oracle)].

Lemma rx_witness :
  exists C cfg w0 l1 req1 O1 l2 req2 (O2 : oracle) U c plain,
    crypto_laws C /\ l2 <> [] /\ filed (w_st w0) /\
    rc_validate_req cfg req1 c /\ rc_validate_req cfg req2 c /\
    (forall u, ulookup U (s_users (w_st (fst (run C cfg w0 l1)))) = Some u ->
       decode_codes (u_recovery u) = map (pwhash C) plain) /\
    NoDup plain /\ Forall pw_dom plain /\ pw_dom c /\ pwcheck C [] c = false /\
    logged_in_as U (fst (run C cfg w0 l1)) (fst (step C cfg (fst (run C cfg w0 l1)) (AReq req1) O1)) /\
    rc_quiet C U c l2 /\
    (* browser b2 is parked for U's second factor when it presents the code *)
    alookup k_totp_pending (jar_get (q_browser req2) (w_sess (fst (run C cfg w0 (l1 ++ (AReq req1, O1) :: l2))))) = Some U.
Proof.
  exists XC, rx_cfg, empty_world, rx_l1, (rx_validate (bs "b1")), ox_oracle, rx_l2, (rx_validate (bs "b2")), ox_oracle,
         ox_pid, rx_c, rx_plain.
  split; [exact exec_laws|]. split; [discriminate|].
  split; [split; [constructor|intros k u []]|].
  split; [split; [left; reflexivity|repeat split]|]. split; [split; [left; reflexivity|repeat split]|].
  split.
  { intros u Hu. vm_compute in Hu. inversion Hu; subst u. vm_compute. reflexivity. }
  split.
  { apply NoDup_cons; [intros [H|[]]; discriminate H|]. apply NoDup_cons; [intros []|apply NoDup_nil]. }
  split; [repeat constructor; vm_compute; lia|]. split; [vm_compute; lia|]. split; [vm_compute; reflexivity|].
  split.
  { exists (bs "b1"). split; [vm_compute; reflexivity|vm_compute; discriminate]. }
  split.
  { unfold rc_quiet, rx_l2. repeat constructor; cbn [fst snd seeds regen_may_hit]; try tauto.
    - intros (([R|[R|R]] & _) & _); discriminate R.
    - intros (([R|[R|R]] & _) & _); discriminate R. }
  vm_compute. reflexivity.
Qed.
