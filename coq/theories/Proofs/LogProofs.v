(* C17: what a handler can write to the log.  The model records the dynamic arguments of every
   log statement ([log args] appends [args] to [h_logs]).  [lg I P m]: every argument of every
   line m logs satisfies P; I is an invariant on the context user, needed because the event
   hooks log fields of whoever is in the context.  The logic is closed under the monad
   combinators; it is proved for every hook, hence for Events.call over ANY hook list.
   [logged P m h] is the state-indexed form used for the per-handler statements, where P
   names the storage the request started from. *)
From AB Require Import World.Handlers Proofs.EvLogic Proofs.Neutral Proofs.MonadInv Proofs.StoreLogic.
Open Scope Z_scope.

Definition lines_ok (P : bytes -> Prop) (l : list (list bytes)) : Prop := Forall (Forall P) l.

Section LG.
Variable I : option user -> Prop.
Variable P : bytes -> Prop.

Definition lg {A} (m : M A) : Prop :=
  forall h r h', I (h_cuser h) -> m h = (r, h') ->
    I (h_cuser h') /\ exists l, h_logs h' = h_logs h ++ l /\ lines_ok P l.

Lemma lg_noop {A} (m : M A) :
  (forall h r h', m h = (r, h') -> h_cuser h' = h_cuser h /\ h_logs h' = h_logs h) -> lg m.
Proof.
  intros H h r h' Hi Eq. destruct (H _ _ _ Eq) as [A1 A2]. rewrite A1, A2. split; [exact Hi|].
  exists []. rewrite app_nil_r. split; [reflexivity|constructor].
Qed.
Lemma lg_ret {A} (a : A) : lg (ret a).
Proof. apply lg_noop. intros h r h' Eq. inversion Eq; auto. Qed.
Lemma lg_fail {A} e : lg (@fail A e).
Proof. apply lg_noop. intros h r h' Eq. inversion Eq; auto. Qed.
Lemma lg_panic {A} : lg (@panic A).
Proof. apply lg_noop. intros h r h' Eq. inversion Eq; auto. Qed.
Lemma lg_get_h : lg get_h.
Proof. apply lg_noop. intros h r h' Eq. inversion Eq; auto. Qed.

Lemma lg_bind {A B} (m : M A) (f : A -> M B) : lg m -> (forall a, lg (f a)) -> lg (bind m f).
Proof.
  intros Hm Hf h r h' Hi Eq. destruct (bind_inv _ _ _ _ _ Eq) as [(a & h1 & E1 & E2)|[(e & E1 & ->)|(E1 & ->)]].
  - destruct (Hm _ _ _ Hi E1) as (I1 & l1 & L1 & F1). destruct (Hf a _ _ _ I1 E2) as (I2 & l2 & L2 & F2).
    split; [exact I2|]. exists (l1 ++ l2). rewrite L2, L1, app_assoc. split; [reflexivity|apply Forall_app; auto].
  - eapply Hm; eauto.
  - eapply Hm; eauto.
Qed.
Lemma lg_try {A B} (m : M A) (f : res A -> M B) : lg m -> (forall r, lg (f r)) -> lg (try m f).
Proof.
  intros Hm Hf h r h' Hi Eq. destruct (try_inv _ _ _ _ _ Eq) as [(x & h1 & E1 & _ & E2)|(E1 & ->)].
  - destruct (Hm _ _ _ Hi E1) as (I1 & l1 & L1 & F1). destruct (Hf x _ _ _ I1 E2) as (I2 & l2 & L2 & F2).
    split; [exact I2|]. exists (l1 ++ l2). rewrite L2, L1, app_assoc. split; [reflexivity|apply Forall_app; auto].
  - eapply Hm; eauto.
Qed.
(* reading the state: the continuation may use the invariant on what it read *)
Lemma lg_get_h_bind {B} (f : hst -> M B) : (forall h0, I (h_cuser h0) -> lg (f h0)) -> lg (bind get_h f).
Proof. intros Hf h r h' Hi Eq. unfold bind, get_h in Eq. eapply Hf; eauto. Qed.

Lemma lg_state {A} (m : M A) :
  (forall h, h_cuser (snd (m h)) = h_cuser h /\ h_logs (snd (m h)) = h_logs h) -> lg m.
Proof. intros H. apply lg_noop. intros h r h' Eq. specialize (H h). rewrite Eq in H. exact H. Qed.
Lemma lg_modify f : (forall h, h_cuser (f h) = h_cuser h /\ h_logs (f h) = h_logs h) -> lg (modify f).
Proof. intros H. apply lg_state. intros h. simpl. apply H. Qed.
Lemma lg_write_resp x : lg (write_resp x).
Proof. apply lg_modify. intros h. destruct (h_out h); auto. Qed.
Lemma lg_fresh n : lg (fresh n).
Proof. apply lg_state. intros h. unfold fresh. destruct (take_chunk n (h_fresh h)) as [[c t]|]; auto. Qed.
Lemma lg_backend O {A} k (body : M A) : lg body -> lg (backend O k body).
Proof.
  intros Hb h r h' Hi Eq. unfold backend in Eq.
  destruct (fault_at (h_ncalls h) (o_faults O)) as [[|]|].
  - inversion Eq; subst. simpl. split; [exact Hi|]. exists []. rewrite app_nil_r. split; [reflexivity|constructor].
  - inversion Eq; subst. simpl. split; [exact Hi|]. exists []. rewrite app_nil_r. split; [reflexivity|constructor].
  - eapply Hb in Eq; [|exact Hi]. destruct Eq as (I1 & l & L & F). split; [exact I1|]. exists l. simpl in L. auto.
Qed.

(* the two primitives that matter *)
Lemma lg_log args : Forall P args -> lg (log args).
Proof.
  intros Ha h r h' Hi Eq. inversion Eq; subst. simpl. split; [exact Hi|].
  exists [args]. split; [reflexivity|]. constructor; [exact Ha|constructor].
Qed.
Lemma lg_set_cuser u : I (Some u) -> lg (set_cuser u).
Proof.
  intros Hu h r h' _ Eq. inversion Eq; subst. simpl. split; [exact Hu|].
  exists []. rewrite app_nil_r. split; [reflexivity|constructor].
Qed.
End LG.

(* invariants on the context user *)
Definition IT (o : option user) : Prop := True.
Definition IQ (Q : user -> Prop) (o : option user) : Prop := exists cu, o = Some cu /\ Q cu.
(* same principal: the identifying fields that hooks log *)
Definition same_ids (u0 cu : user) : Prop :=
  u_pid cu = u_pid u0 /\ u_email cu = u_email u0 /\ u_sms cu = u_sms u0.

Lemma same_ids_refl u : same_ids u u.
Proof. repeat split. Qed.

(* entering the invariant: SetUser-in-context, then the rest under it *)
Lemma lg_enter (I' : option user -> Prop) (P : bytes -> Prop) {B} u (k : unit -> M B) :
  I' (Some u) -> (forall a, lg I' P (k a)) -> lg IT P (bind (set_cuser u) k).
Proof.
  intros Hu Hk h r h' _ Eq. unfold bind, set_cuser, modify in Eq.
  eapply (Hk tt) in Eq; [|exact Hu]. destruct Eq as (_ & l & L & F). split; [exact I|]. exists l. simpl in L. auto.
Qed.

Lemma lg_weaken (I : option user -> Prop) (P P' : bytes -> Prop) {A} (m : M A) : (forall a, P a -> P' a) -> lg I P m -> lg I P' m.
Proof.
  intros HP Hm h r h' Hi Eq. destruct (Hm _ _ _ Hi Eq) as (I1 & l & L & F). split; [exact I1|].
  exists l. split; [exact L|]. eapply Forall_impl; [|exact F]. intros x Hx. eapply Forall_impl; [|exact Hx]. exact HP.
Qed.

(* syntax-directed prover; leaves [Forall P args] for every log statement, [I (Some u)] for every
   context write, and the three field facts for every Events.fire *)
Ltac lg_prim := first
  [ apply lg_modify; intros; simpl; auto
  | apply lg_state; intros ?; cbv beta zeta;
    repeat match goal with |- context [match ?x with _ => _ end] => destruct x end; simpl; auto ].

Ltac lg_step fire_lemma :=
  match goal with
  | |- lg IT ?P (bind (set_cuser ?u) _) =>
      apply (lg_enter (IQ (same_ids u)) P); [exists u; split; [reflexivity|apply same_ids_refl]|intros]
  | |- lg _ _ (fire _ _ _) => apply fire_lemma
  | |- lg _ _ (bind get_h _) =>
      apply lg_get_h_bind;
      let h0 := fresh "h0" in let Hh := fresh "Hh" in intros h0 Hh;
      try (let cu := fresh "cu" in let Hc := fresh "Hc" in
           let HA := fresh "HA" in let HB := fresh "HB" in let HC := fresh "HC" in
           destruct Hh as (cu & Hc & (HA & HB & HC)); try rewrite Hc)
  | |- lg _ _ (bind _ _) => apply lg_bind; [|intros]
  | |- lg _ _ (try _ _) => apply lg_try; [|intros]
  | |- lg _ _ (ret _) => apply lg_ret
  | |- lg _ _ (fail _) => apply lg_fail
  | |- lg _ _ panic => apply lg_panic
  | |- lg _ _ get_h => apply lg_get_h
  | |- lg _ _ (log _) => apply lg_log
  | |- lg _ _ (set_cuser _) => apply lg_set_cuser
  | |- lg _ _ (write_resp _) => apply lg_write_resp
  | |- lg _ _ (fresh _) => apply lg_fresh
  | |- lg _ _ (backend _ _ _) => apply lg_backend
  | |- lg _ _ (put_session _ _) => apply lg_modify; intros; auto
  | |- lg _ _ (del_session _) => apply lg_modify; intros; auto
  | |- lg _ _ (delall_session _) => apply lg_modify; intros; auto
  | |- lg _ _ (put_cookie _ _) => apply lg_modify; intros; auto
  | |- lg _ _ (del_cookie _) => apply lg_modify; intros; auto
  | |- lg _ _ (set_cpid _) => apply lg_modify; intros; auto
  | |- lg _ _ (modify _) => apply lg_modify; intros; simpl; auto
  | |- lg _ _ (st_load _ _) => unfold st_load
  | |- lg _ _ (st_save _ _) => unfold st_save
  | |- lg _ _ (st_create _ _) => unfold st_create
  | |- lg _ _ (st_load_by_csel _ _) => unfold st_load_by_csel
  | |- lg _ _ (st_load_by_rsel _ _) => unfold st_load_by_rsel
  | |- lg _ _ (st_del_rm _ _) => unfold st_del_rm
  | |- lg _ _ (st_add_rm _ _ _) => unfold st_add_rm
  | |- lg _ _ (st_use_rm _ _ _) => unfold st_use_rm
  | |- lg _ _ (if ?c then _ else _) => destruct c eqn:?
  | |- lg _ _ (match ?x with _ => _ end) => destruct x eqn:?
  | |- lg _ _ (let '(_, _) := ?x in _) => destruct x eqn:?
  | |- lg _ _ (fun h => _) =>
      apply lg_state; intros ?; cbv beta zeta;
      repeat match goal with |- context [match ?x with _ => _ end] => destruct x end; simpl; auto
  end.

(* ---- every hook logs only the identifying fields of the principal in the context -------- *)
Section LH.
Variable E : env.
Variable u0 : user.
Variable P : bytes -> Prop.
Hypothesis P_pid : P (u_pid u0).
Hypothesis P_email : P (u_email u0).
Hypothesis P_sms : P (u_sms u0).

Notation lgq := (lg (IQ (same_ids u0)) P).

(* side conditions: a field of a user known to have the principal's identifying fields *)
Ltac field_side :=
  match goal with
  | |- Forall _ _ => repeat constructor
  | _ => idtac
  end;
  match goal with
  | HA : u_pid ?c = u_pid u0 |- P (u_pid _) => refine (eq_ind_r P P_pid _); exact HA
  | HB : u_email ?c = u_email u0 |- P (u_email _) => refine (eq_ind_r P P_email _); exact HB
  | HC : u_sms ?c = u_sms u0 |- P (u_sms _) => refine (eq_ind_r P P_sms _); exact HC
  | HA : u_pid ?c = u_pid u0, HB : u_email ?c = u_email u0, HC : u_sms ?c = u_sms u0 |- IQ _ (Some ?x) =>
      exists x; split; [reflexivity|]; split; [exact HA|split; [exact HB|exact HC]]
  end.

(* CurrentUser under the invariant: the context user, nothing loaded *)
Lemma current_user_IQ h : IQ (same_ids u0) (h_cuser h) ->
  exists cu, same_ids u0 cu /\ current_user E h = (Ok (cu, true), h).
Proof.
  intros (cu & Hc & HQ). exists cu. split; [exact HQ|].
  unfold current_user, bind, get_h. rewrite Hc. reflexivity.
Qed.
Lemma lg_current_user_bind {B} (f : user * bool -> M B) :
  (forall cu, same_ids u0 cu -> lgq (f (cu, true))) -> lgq (bind (current_user E) f).
Proof.
  intros Hf h r h' Hi Eq. destruct (current_user_IQ h Hi) as (cu & HQ & Ec).
  unfold bind in Eq. rewrite Ec in Eq. exact (Hf cu HQ _ _ _ Hi Eq).
Qed.
Lemma lg_current_user_try {B} (f : res (user * bool) -> M B) :
  (forall cu, same_ids u0 cu -> lgq (f (Ok (cu, true)))) -> lgq (try (current_user E) f).
Proof.
  intros Hf h r h' Hi Eq. destruct (current_user_IQ h Hi) as (cu & HQ & Ec).
  unfold try in Eq. rewrite Ec in Eq. exact (Hf cu HQ _ _ _ Hi Eq).
Qed.

Ltac cu_step :=
  let cu := fresh "cu" in let HA := fresh "HA" in let HB := fresh "HB" in let HC := fresh "HC" in
  first [ apply lg_current_user_bind; intros cu (HA & HB & HC)
        | apply lg_current_user_try; intros cu (HA & HB & HC) ].

Lemma lg_hook hk rm hd : lgq (run_hook E hk rm hd).
Proof.
  destruct hk; unfold run_hook, update_locked_state;
    repeat first [ cu_step | (unfold_derived; cbn beta iota; lg_step lg_ret) ];
    unfold lock_apply in *; try (field_side; fail).
Qed.

Lemma lg_call hs : forall rm hd, lgq (call E hs rm hd).
Proof.
  induction hs as [|hk hs IH]; intros rm hd; simpl.
  - apply lg_ret.
  - apply lg_bind; [apply lg_hook|intros; apply IH].
Qed.
Lemma lg_fire e rm : lgq (fire E e rm).
Proof. unfold fire. apply lg_call. Qed.
End LH.

Ltac lg_go := repeat (unfold_derived; cbn beta iota; lg_step lg_fire).

(* ---- state-indexed form ------------------------------------------------------------------- *)
Definition logged (P : bytes -> Prop) {A} (m : M A) (h : hst) : Prop :=
  forall r h', m h = (r, h') -> exists l, h_logs h' = h_logs h ++ l /\ lines_ok P l.

Lemma logged_of_lg P {A} (m : M A) h : lg IT P m -> logged P m h.
Proof. intros Hm r h' Eq. destruct (Hm _ _ _ I Eq) as (_ & l & L & F). eauto. Qed.

Lemma logged_bind P {A B} (m : M A) (f : A -> M B) h :
  lg IT P m -> (forall a h1, m h = (Ok a, h1) -> logged P (f a) h1) -> logged P (bind m f) h.
Proof.
  intros Hm Hf r h' Eq. destruct (bind_inv _ _ _ _ _ Eq) as [(a & h1 & E1 & E2)|[(e & E1 & ->)|(E1 & ->)]].
  - destruct (Hm _ _ _ I E1) as (_ & l1 & L1 & F1). destruct (Hf a h1 E1 _ _ E2) as (l2 & L2 & F2).
    exists (l1 ++ l2). rewrite L2, L1, app_assoc. split; [reflexivity|apply Forall_app; auto].
  - destruct (Hm _ _ _ I E1) as (_ & l1 & L1 & F1). eauto.
  - destruct (Hm _ _ _ I E1) as (_ & l1 & L1 & F1). eauto.
Qed.
Lemma logged_try P {A B} (m : M A) (f : res A -> M B) h :
  lg IT P m -> (forall x h1, m h = (x, h1) -> x <> Panic -> logged P (f x) h1) -> logged P (try m f) h.
Proof.
  intros Hm Hf r h' Eq. destruct (try_inv _ _ _ _ _ Eq) as [(x & h1 & E1 & NP & E2)|(E1 & ->)].
  - destruct (Hm _ _ _ I E1) as (_ & l1 & L1 & F1). destruct (Hf x h1 E1 NP _ _ E2) as (l2 & L2 & F2).
    exists (l1 ++ l2). rewrite L2, L1, app_assoc. split; [reflexivity|apply Forall_app; auto].
  - destruct (Hm _ _ _ I E1) as (_ & l1 & L1 & F1). eauto.
Qed.

Ltac nil_side :=
  repeat match goal with
  | |- Forall _ [] => apply Forall_nil
  | |- Forall _ (_ :: _) => apply Forall_cons
  | |- IT _ => exact I
  | |- IQ _ (Some ?x) => exists x; split; [reflexivity|repeat split]
  | |- _ => assumption
  end.

Section LP.
Variable E : env.
Notation C := (e_C E).
Notation vals := (values E).

(* ---- /login and /otp/login: the submitted pid, and the identifying fields (pid, e-mail, SMS
   number) of the record stored under that pid ------------------------------------------------ *)
Definition p_login (st : storage) (a : bytes) : Prop :=
  a = aget (pid_field E) vals \/
  exists u, ulookup (aget (pid_field E) vals) (s_users st) = Some u /\
            (a = u_pid u \/ a = u_email u \/ a = u_sms u).

Lemma login_post_logs h : logged (p_login (h_st h)) (login_post E) h.
Proof.
  unfold login_post. apply logged_bind; [lg_go|]. intros v h1 E1.
  apply read_values_spec in E1 as [-> [Hv|Hv]]; [|discriminate Hv]. inversion Hv; subst v; clear Hv.
  cbv zeta. apply logged_try; [lg_go|]. intros x h2 L NP.
  pose proof (st_load_spec _ _ _ _ _ L) as (_ & _ & _ & _ & _ & _ & Hu & _).
  assert (Ppid : p_login (h_st h) (aget (pid_field E) vals)) by (left; reflexivity).
  destruct x as [u|e|]; [|destruct e|congruence]; apply logged_of_lg.
  - specialize (Hu u eq_refl).
    assert (P1 : p_login (h_st h) (u_pid u)) by (right; eauto).
    assert (P2 : p_login (h_st h) (u_email u)) by (right; eauto 6).
    assert (P3 : p_login (h_st h) (u_sms u)) by (right; eauto 6).
    lg_go; nil_side.
  - lg_go; nil_side.
  - lg_go.
  - lg_go.
  - lg_go.
Qed.

Lemma otp_login_post_logs h : logged (p_login (h_st h)) (otp_login_post E) h.
Proof.
  unfold otp_login_post. apply logged_bind; [lg_go|]. intros v h1 E1.
  apply read_values_spec in E1 as [-> [Hv|Hv]]; [|discriminate Hv]. inversion Hv; subst v; clear Hv.
  cbv zeta. apply logged_try; [lg_go|]. intros x h2 L NP.
  pose proof (st_load_spec _ _ _ _ _ L) as (_ & _ & _ & _ & _ & _ & Hu & _).
  assert (Ppid : p_login (h_st h) (aget (pid_field E) vals)) by (left; reflexivity).
  destruct x as [u|e|]; [|destruct e|congruence]; apply logged_of_lg.
  - specialize (Hu u eq_refl).
    assert (P1 : p_login (h_st h) (u_pid u)) by (right; eauto).
    assert (P2 : p_login (h_st h) (u_email u)) by (right; eauto 6).
    assert (P3 : p_login (h_st h) (u_sms u)) by (right; eauto 6).
    lg_go; nil_side.
  - lg_go; nil_side.
  - lg_go.
  - lg_go.
  - lg_go.
Qed.

(* ---- /confirm: the selector hash of the submitted token, and pid / stored verifier of the
   record that selector finds ------------------------------------------------------------------- *)
Definition p_confirm (st : storage) (a : bytes) : Prop :=
  exists raw, b64url_dec (aget f_cnf vals) = Some raw /\
    (a = selector_of E raw \/
     exists u, ufind (fun u => beqb (u_csel u) (selector_of E raw)) (s_users st) = Some u /\
               (a = u_pid u \/ a = u_cver u)).

Lemma confirm_get_logs h : logged (p_confirm (h_st h)) (confirm_get E) h.
Proof.
  unfold confirm_get, invalid_confirm_token. apply logged_bind; [lg_go|]. intros v h1 E1.
  apply read_values_spec in E1 as [-> [Hv|Hv]]; [|discriminate Hv]. inversion Hv; subst v; clear Hv.
  cbv zeta.
  destruct (negb (valid [mkRule f_cnf true MNone 0 0 0 0 0 0 0 false] [] vals)).
  { apply logged_of_lg. lg_go; nil_side. }
  destruct (b64url_dec (aget f_cnf vals)) as [raw|] eqn:Dc.
  2:{ apply logged_of_lg. lg_go; nil_side. }
  destruct (negb (Nat.eqb (length raw) 64)).
  { apply logged_of_lg. lg_go; nil_side. }
  apply logged_try; [lg_go|]. intros x h2 L NP.
  pose proof (st_load_by_csel_spec _ _ _ _ _ L) as (_ & _ & _ & Hu & _).
  assert (Psel : p_confirm (h_st h) (selector_of E raw)) by (exists raw; auto).
  destruct x as [u|e|]; [|destruct e|congruence]; apply logged_of_lg.
  - specialize (Hu u eq_refl).
    assert (P1 : p_confirm (h_st h) (u_pid u)) by (exists raw; split; [exact Dc|right; eauto]).
    assert (P2 : p_confirm (h_st h) (u_cver u)) by (exists raw; split; [exact Dc|right; eauto]).
    lg_go; nil_side.
  - lg_go; nil_side.
  - lg_go.
  - lg_go.
  - lg_go.
Qed.

(* ---- /recover/end: stored verifier and identifying fields of the record the token's selector
   finds; never the token, never the new password -------------------------------------------- *)
Definition p_recover (st : storage) (a : bytes) : Prop :=
  exists raw u, b64url_dec (aget f_token vals) = Some raw /\
    ufind (fun u => beqb (u_rsel u) (selector_of E raw)) (s_users st) = Some u /\
    (a = u_rver u \/ a = u_pid u \/ a = u_email u \/ a = u_sms u).

Lemma recover_end_post_logs h : logged (p_recover (h_st h)) (recover_end_post E) h.
Proof.
  unfold recover_end_post, invalid_recover_token. apply logged_bind; [lg_go|]. intros v h1 E1.
  apply read_values_spec in E1 as [-> [Hv|Hv]]; [|discriminate Hv]. inversion Hv; subst v; clear Hv.
  cbv zeta.
  destruct (negb (valid [password_rule] pw_pairs vals)).
  { apply logged_of_lg. lg_go; nil_side. }
  destruct (b64url_dec (aget f_token vals)) as [raw|] eqn:Dc.
  2:{ apply logged_of_lg. lg_go; nil_side. }
  destruct (negb (Nat.eqb (length raw) 64)).
  { apply logged_of_lg. lg_go; nil_side. }
  apply logged_try; [lg_go|]. intros x h2 L NP.
  pose proof (st_load_by_rsel_spec _ _ _ _ _ L) as (_ & _ & _ & Hu).
  destruct x as [u|e|]; [|destruct e|congruence]; apply logged_of_lg.
  - specialize (Hu u eq_refl).
    assert (P0 : p_recover (h_st h) (u_rver u)) by (exists raw, u; auto).
    assert (P1 : p_recover (h_st h) (u_pid u)) by (exists raw, u; auto).
    assert (P2 : p_recover (h_st h) (u_email u)) by (exists raw, u; auto 6).
    assert (P3 : p_recover (h_st h) (u_sms u)) by (exists raw, u; auto 6).
    lg_go; nil_side.
  - lg_go; nil_side.
  - lg_go.
  - lg_go.
  - lg_go.
Qed.
End LP.
