(* The wrapped deployment: [serve_top] / [wstep] (module routes behind a global remember.Middleware).
   Every whole-router result about [serve] / [step] is carried over by cutting [serve_top] into
   remember_mw ; remembered_view ; serve (with_sess E s2). *)
From AB Require Import World.Step Proofs.EvLogic Proofs.Neutral Proofs.HandlerEvents Proofs.ServeEvents
  Proofs.Guards Proofs.Guards2 Proofs.Guards3 Proofs.StepGuard Proofs.MonadInv Proofs.Misc Proofs.NoPanic Proofs.LogProofs Proofs.LogProofs2
  Proofs.Gate Proofs.LogoutProofs Proofs.StepLift2 Proofs.MwProofs Proofs.StoreLogic Proofs.TwoFactorProofs Proofs.StoreShape
  Proofs.StepUid Proofs.Footprint Model.Redirect Spec.Browser Proofs.RedirectProofs Proofs.StepAll.
Open Scope Z_scope.

Definition is_app (r : route) : bool :=
  match r with RApp _ _ _ _ _ _ _ => true | _ => false end.

(* the wrapper is taken exactly on the module routes of a wrapped deployment *)
Definition wrapped_route (E : env) : bool :=
  c_wrap_remember (e_cfg E) && negb (is_app (q_route (e_req E))).

Lemma serve_top_plain E : wrapped_route E = false -> serve_top E = serve E.
Proof.
  unfold wrapped_route, serve_top. destruct (q_route (e_req E)); cbn [is_app negb]; try reflexivity.
  all: rewrite Bool.andb_true_r; intros ->; reflexivity.
Qed.
Lemma serve_top_wrapped E : wrapped_route E = true ->
  serve_top E = (remember_mw E ;;; s2 <- remembered_view (e_sess E) ;; serve (with_sess E s2)).
Proof.
  unfold wrapped_route, serve_top. destruct (q_route (e_req E)); cbn [is_app negb]; try (rewrite Bool.andb_false_r; discriminate).
  all: rewrite Bool.andb_true_r; intros ->; reflexivity.
Qed.

(* the remember middleware swallows every error *)
Lemma remember_mw_ok E h x h1 : remember_mw E h = (x, h1) -> x = Ok tt.
Proof.
  intros Eq. pose proof (np_remember_mw E _ _ _ Eq) as NP. unfold remember_mw in Eq.
  apply bind_inv in Eq as [(id & h0 & E1 & E2)|[(e & E1 & ->)|(E1 & ->)]].
  - destruct (bempty id); [|inversion E2; reflexivity].
    apply try_inv in E2 as [(y & h2 & E3 & NP2 & K)|(_ & ->)]; [|congruence].
    destruct y as [[]|e|]; [inversion K; reflexivity| |congruence].
    unfold log, modify in K. inversion K. reflexivity.
  - unfold current_user_id, bind, get_h in E1. destruct (h_cpid h); inversion E1.
  - congruence.
Qed.

Lemma remembered_view_inv s h x h1 : remembered_view s h = (x, h1) ->
  h1 = h /\ x = Ok (match h_cpid h with Some pid => aput k_halfauth v_true (aput k_uid pid s) | None => s end).
Proof. unfold remembered_view, bind, get_h. destruct (h_cpid h); intros Eq; inversion Eq; auto. Qed.

(* the cut *)
Lemma serve_top_inv E h r h' : serve_top E h = (r, h') ->
  (wrapped_route E = false /\ serve E h = (r, h')) \/
  (wrapped_route E = true /\ exists h1 s2,
     remember_mw E h = (Ok tt, h1) /\ remembered_view (e_sess E) h1 = (Ok s2, h1) /\
     serve (with_sess E s2) h1 = (r, h')).
Proof.
  intros Eq. destruct (wrapped_route E) eqn:W.
  - right. split; [reflexivity|]. rewrite (serve_top_wrapped _ W) in Eq.
    apply bind_inv in Eq as [(a & h1 & E1 & E2)|[(e & E1 & ->)|(E1 & ->)]];
      try (apply remember_mw_ok in E1; discriminate E1).
    destruct a.
    apply bind_inv in E2 as [(s2 & h2 & E3 & E4)|[(e & E3 & ->)|(E3 & ->)]];
      try (apply remembered_view_inv in E3 as [_ E3]; discriminate E3).
    destruct (remembered_view_inv _ _ _ _ E3) as [-> _]. exists h1, s2. auto.
  - left. split; [reflexivity|]. rewrite (serve_top_plain _ W) in Eq. exact Eq.
Qed.

(* ---- C18 ------------------------------------------------------------------------------------ *)
Theorem np_serve_top : forall E, np (serve_top E).
Proof.
  intros E h r h' Eq. apply serve_top_inv in Eq as [(_ & Eq)|(_ & h1 & s2 & _ & _ & Eq)];
    exact (np_serve _ _ _ _ Eq).
Qed.

(* ---- C17, log half -------------------------------------------------------------------------- *)
(* the wrapper keeps what was written, the user table and the context user *)
Lemma remember_mw_keeps E h x h1 : remember_mw E h = (x, h1) ->
  h_out h1 = h_out h /\ s_users (h_st h1) = s_users (h_st h) /\ h_cuser h1 = h_cuser h.
Proof.
  intros Eq. pose proof (remember_mw_out3 E _ _ _ Eq) as K. unfold Rk, out3 in K.
  inversion K. auto.
Qed.

Lemma view_sms_number pid s :
  alookup k_sms_number (aput k_halfauth v_true (aput k_uid pid s)) = alookup k_sms_number s.
Proof.
  rewrite alookup_aput_neq by (intro H; vm_compute in H; discriminate H).
  apply alookup_aput_neq. intro H; vm_compute in H; discriminate H.
Qed.

(* the atoms the inner request may log are atoms of the request as it arrived *)
Lemma allowed_inner E h h1 s2 a :
  s_users (h_st h1) = s_users (h_st h) -> h_cuser h1 = h_cuser h ->
  alookup k_sms_number s2 = alookup k_sms_number (e_sess E) ->
  allowed (with_sess E s2) h1 a -> allowed E h a.
Proof.
  intros Hu Hc Hs. unfold allowed, known_user. cbn [with_sess e_req e_sess e_O].
  rewrite Hu, Hc, Hs.
  change (values (with_sess E s2)) with (values E).
  change (pid_field (with_sess E s2)) with (pid_field E).
  change (form_value (with_sess E s2)) with (form_value E).
  change (selector_of (with_sess E s2)) with (selector_of E).
  exact (fun H => H).
Qed.

Theorem serve_top_logs_allowed : forall E h r h',
  serve_top E h = (r, h') ->
  exists l, h_logs h' = h_logs h ++ l /\ Forall (Forall (allowed E h)) l.
Proof.
  intros E h r h' Eq. apply serve_top_inv in Eq as [(_ & Eq)|(_ & h1 & s2 & RM & RV & Eq)].
  - exact (serve_logs_allowed _ _ _ _ Eq).
  - assert (L1 : logged (allowed E h) (remember_mw E) h).
    { apply (lx_logged E h anyv). apply lx_remember_mw. }
    destruct (L1 _ _ RM) as (l1 & A1 & F1).
    destruct (serve_logs_allowed _ _ _ _ Eq) as (l2 & A2 & F2).
    destruct (remember_mw_keeps _ _ _ _ RM) as (_ & Ku & Kc).
    exists (l1 ++ l2). rewrite A2, A1, app_assoc. split; [reflexivity|].
    apply Forall_app. split; [exact F1|].
    eapply Forall_impl; [|exact F2]. intros line Hl. eapply Forall_impl; [|exact Hl].
    intros a. apply allowed_inner; [exact Ku|exact Kc|].
    apply remembered_view_inv in RV as [_ RV]. inversion RV as [S2].
    destruct (h_cpid h1); [apply view_sms_number|reflexivity].
Qed.

Lemma serve_top_secret_not_logged : forall E h r h' (s : bytes),
  ~ allowed E h s ->
  serve_top E h = (r, h') ->
  exists l, h_logs h' = h_logs h ++ l /\ forall line, In line l -> ~ In s line.
Proof.
  intros E h r h' s Ns Eq. destruct (serve_top_logs_allowed _ _ _ _ Eq) as (l & L & F).
  exists l. split; [exact L|]. intros line Hl Hs.
  rewrite Forall_forall in F. specialize (F _ Hl). rewrite Forall_forall in F. exact (Ns (F _ Hs)).
Qed.

(* ---- C17, storage half ---------------------------------------------------------------------- *)
Lemma sw_serve_top E U0 R0 : sw (e_C E) U0 R0 anyq (serve_top E).
Proof.
  destruct (wrapped_route E) eqn:W.
  - rewrite (serve_top_wrapped _ W).
    eapply (sw_bind _ _ _ anyq); [apply sw_remember_mw|intros _ _].
    eapply (sw_bind _ _ _ anyq); [|intros s2 _; exact (sw_serve (with_sess E s2) U0 R0)].
    unfold remembered_view. apply sw_get_h_bind. intros h0 _. destruct (h_cpid h0); apply sw_ret; exact I.
  - rewrite (serve_top_plain _ W). apply sw_serve.
Qed.

Lemma serve_top_keeps_shape E : keeps_shape (e_C E) (serve_top E).
Proof. apply (keeps_of_sw _ anyq). intros U0 R0. apply sw_serve_top. Qed.

Fixpoint wrun (C : crypto) (cfg : config) (w : world) (l : list (action * oracle)) : world * list obs :=
  match l with
  | [] => (w, [])
  | (a, orc) :: r => let '(w', o) := wstep C cfg w a orc in
                   let '(w'', os) := wrun C cfg w' r in (w'', o :: os)
  end.

Lemma wrun_unwrapped C cfg : c_wrap_remember cfg = false -> forall l w, wrun C cfg w l = run C cfg w l.
Proof.
  intros H. induction l as [|[a orc] l IH]; intros w; cbn [wrun run]; [reflexivity|].
  rewrite (wstep_unwrapped C cfg w a orc H). destruct (step C cfg w a orc) as [w1 o1]. rewrite IH. reflexivity.
Qed.

Lemma wstep_not_req C cfg w a O : (forall req, a <> AReq req) -> wstep C cfg w a O = step C cfg w a O.
Proof. intros N. destruct a; try reflexivity. exfalso. exact (N r eq_refl). Qed.

Lemma wstep_shape C cfg w a O w' o :
  ~ is_seed a -> filed (w_st w) -> wstep C cfg w a O = (w', o) ->
  filed (w_st w') /\ shapec C (w_st w) (w_st w').
Proof.
  intros NS F Eq. destruct a as [req| | | | | | |].
  2-8: exact (step_shape C cfg w _ O w' o NS F Eq).
  unfold wstep in Eq. destruct (serve_top _ _) as [r0 h] eqn:Sv.
  pose proof (serve_top_keeps_shape _ (init_hst (w_st w) O) _ _ F (ctx_stored_none (init_hst (w_st w) O) eq_refl) Sv) as K.
  cbn [e_C h_st init_hst] in K.
  inversion Eq; subst. destruct (h_out h); exact K.
Qed.

Lemma wrun_shape C cfg : forall l w w' os,
  Forall (fun ao => ~ is_seed (fst ao)) l -> filed (w_st w) -> wrun C cfg w l = (w', os) ->
  filed (w_st w') /\ shapec C (w_st w) (w_st w').
Proof.
  induction l as [|[a orc] l IH]; intros w w' os NS F Eq; cbn [wrun] in Eq.
  - inversion Eq; subst. split; [exact F|apply shapec_refl].
  - inversion NS as [|? ? N1 N2]; subst. cbn [fst] in N1.
    destruct (wstep C cfg w a orc) as [w1 o1] eqn:St. destruct (wrun C cfg w1 l) as [w2 os2] eqn:Rn.
    inversion Eq; subst. destruct (wstep_shape _ _ _ _ _ _ _ N1 F St) as [F1 S1].
    destruct (IH _ _ _ N2 F1 Rn) as [F2 S2]. split; [exact F2|exact (shapec_trans _ _ _ _ S1 S2)].
Qed.

Lemma serve_top_writes_digests_lemma : forall E h r h',
  crypto_laws (e_C E) -> filed (h_st h) -> ctx_stored h -> serve_top E h = (r, h') ->
  filed (h_st h') /\
  (forall p, match ulookup p (s_users (h_st h)), ulookup p (s_users (h_st h')) with
             | Some a, Some b => written (e_C E) a b
             | None, Some b => written (e_C E) blank_user b
             | Some _, None => False
             | None, None => True
             end) /\
  (forall p, rm_written (e_C E) (rmlookup p (s_rm (h_st h))) (rmlookup p (s_rm (h_st h')))).
Proof.
  intros E h r h' L F Cx Eq. destruct (serve_top_keeps_shape E h r h' F Cx Eq) as [F' S].
  apply (shapec_shape _ _ _ (nocomma_of_laws _ L)) in S. destruct S as [SU SR]. split; [exact F'|]. split; [exact SU|exact SR].
Qed.

Lemma wstep_writes_digests_lemma : forall C cfg w a O w' o,
  crypto_laws C -> ~ is_seed a -> filed (w_st w) -> wstep C cfg w a O = (w', o) ->
  filed (w_st w') /\ shape C (w_st w) (w_st w').
Proof.
  intros C cfg w a O w' o L NS F Eq. destruct (wstep_shape C cfg w a O w' o NS F Eq) as [F' S].
  split; [exact F'|exact (shapec_shape _ _ _ (nocomma_of_laws _ L) S)].
Qed.

Lemma whistory_writes_digests_lemma : forall C cfg l w w' os,
  crypto_laws C -> Forall (fun ao => ~ is_seed (fst ao)) l -> filed (w_st w) -> wrun C cfg w l = (w', os) ->
  filed (w_st w') /\ shape C (w_st w) (w_st w').
Proof.
  intros C cfg l w w' os L NS F Eq. destruct (wrun_shape C cfg l w w' os NS F Eq) as [F' S].
  split; [exact F'|exact (shapec_shape _ _ _ (nocomma_of_laws _ L) S)].
Qed.

Lemma whistory_from_empty_lemma : forall C cfg l w' os,
  crypto_laws C -> Forall (fun ao => ~ is_seed (fst ao)) l -> wrun C cfg empty_world l = (w', os) ->
  (forall p b, ulookup p (s_users (w_st w')) = Some b -> stored_shape C b) /\
  (forall p t, In t (rmlookup p (s_rm (w_st w'))) -> is_digest C t).
Proof.
  intros C cfg l w' os L NS Rn. pose proof (nocomma_of_laws _ L) as NC.
  assert (F0 : filed (w_st empty_world)) by (split; [constructor|intros k u []]).
  destruct (wrun_shape _ _ _ _ _ _ NS F0 Rn) as [_ S]. apply (shapec_shape _ _ _ NC) in S. destruct S as [SU SR]. split.
  - intros p b Lk. specialize (SU p). cbn [empty_world w_st s_users ulookup] in SU. rewrite Lk in SU.
    apply written_blank_shape. exact SU.
  - intros p t Ht. destruct (SR p t Ht) as [[]|Hd]. exact Hd.
Qed.

(* ---- C20 ------------------------------------------------------------------------------------ *)
(* bind at a pair of start states, the continuation being covered at the intermediate pair *)
Lemma Jat_bind_at F {A B} h1 h2 (m : M A) (f : A -> M B) R R' :
  Jat F h1 h2 m R ->
  (forall a j1 j2, R a -> m h1 = (Ok a, j1) -> m h2 = (Ok a, j2) -> Jat F j1 j2 (f a) R') ->
  Jat F h1 h2 (bind m f) R'.
Proof.
  intros Hm Hf r1 k1 r2 k2 W1 W2 S E1 E2. unfold bind in E1, E2.
  destruct (m h1) as [x1 j1] eqn:M1. destruct (m h2) as [x2 j2] eqn:M2.
  destruct (Hm _ _ _ _ W1 W2 S M1 M2) as (Ex & W1' & W2' & S' & Fr & Ra). subst x2.
  destruct x1 as [a|e|].
  - destruct (Hf a j1 j2 (Ra a eq_refl) eq_refl eq_refl _ _ _ _ W1' W2' S' E1 E2) as (Er & W1'' & W2'' & S'' & Fr' & Rb).
    jsplit; auto. eapply frame_trans; eauto.
  - inversion E1; inversion E2; subst. jsplit; auto. intros a H. discriminate H.
  - inversion E1; inversion E2; subst. jsplit; auto. intros a H. discriminate H.
Qed.

Lemma view_other_key k pid s : k <> k_halfauth -> k <> k_uid ->
  aget k (aput k_halfauth v_true (aput k_uid pid s)) = aget k s.
Proof.
  intros N1 N2. unfold aget. rewrite alookup_aput_neq by exact N1. rewrite alookup_aput_neq by exact N2. reflexivity.
Qed.

Section WAT.
Variable F : bytes -> Prop.
Variable E : env.
Hypothesis Huid : bempty (aget k_uid (e_sess E)) = false -> F (aget k_uid (e_sess E)).
Hypothesis Htp : bempty (aget k_totp_pending (e_sess E)) = false -> F (aget k_totp_pending (e_sess E)).
Hypothesis Hsp : bempty (aget k_sms_pending (e_sess E)) = false -> F (aget k_sms_pending (e_sess E)).
Hypothesis Hform : F (aget (pid_field E) (values E)).
Hypothesis Hrm : forall c raw p,
  alookup k_rm (e_cook E) = Some c -> b64url_dec c = Some raw -> rm_parse_pid raw = Some p -> F p.
Hypothesis Hoa : forall prov,
  q_route (e_req E) = ROAuthCallback prov -> F (make_oauth2_pid prov (pa_uid (o_provider (e_O E)))).
Variables h1 h2 : hst.
Hypothesis Hcsel : forall raw, b64url_dec (aget f_cnf (values E)) = Some raw ->
  sel_ok F (fun u => beqb (u_csel u) (selector_of E raw)) h1 h2.
Hypothesis Hrsel : forall raw, b64url_dec (aget f_token (values E)) = Some raw ->
  sel_ok F (fun u => beqb (u_rsel u) (selector_of E raw)) h1 h2.

Lemma serve_top_at : Jat F h1 h2 (serve_top E) (fun _ => True).
Proof.
  destruct (wrapped_route E) eqn:W.
  2:{ rewrite (serve_top_plain _ W). apply serve_at; assumption. }
  rewrite (serve_top_wrapped _ W).
  eapply Jat_bind_at; [apply (J_remember_mw F E Huid Hrm)|].
  intros [] j1 j2 _ M1 M2.
  destruct (remember_mw_keeps _ _ _ _ M1) as (_ & U1 & _).
  destruct (remember_mw_keeps _ _ _ _ M2) as (_ & U2 & _).
  eapply Jat_bind_at; [apply (J_remembered_view F (e_sess E) Huid)|].
  intros s2 k1 k2 Us V1 V2.
  destruct (remembered_view_inv _ _ _ _ V1) as [-> S2]. destruct (remembered_view_inv _ _ _ _ V2) as [-> _].
  assert (Oth : forall k, k <> k_halfauth -> k <> k_uid -> aget k s2 = aget k (e_sess E)).
  { intros k N1 N2. inversion S2 as [S2']. destruct (h_cpid j1); [apply view_other_key; assumption|reflexivity]. }
  apply (serve_at F (with_sess E s2)); cbn [with_sess e_sess e_cook e_req e_O].
  - exact Us.
  - rewrite Oth by (intro H; vm_compute in H; discriminate H). exact Htp.
  - rewrite Oth by (intro H; vm_compute in H; discriminate H). exact Hsp.
  - exact Hform.
  - exact Hrm.
  - exact Hoa.
  - intros raw D. destruct (Hcsel raw D) as [A B]. unfold sel_ok. rewrite U1, U2. split; [exact A|exact B].
  - intros raw D. destruct (Hrsel raw D) as [A B]. unfold sel_ok. rewrite U1, U2. split; [exact A|exact B].
Qed.
End WAT.

Lemma serve_top_two_runs E h1 h2 r1 h1' r2 h2' :
  filed (h_st h1) -> filed (h_st h2) ->
  rest h1 = rest h2 -> agree_on (fp E h1) (h_st h1) (h_st h2) -> sel_agree E h1 h2 ->
  serve_top E h1 = (r1, h1') -> serve_top E h2 = (r2, h2') ->
  r1 = r2 /\ rest h1' = rest h2' /\ agree_on (fp E h1) (h_st h1') (h_st h2') /\
  same_off (fp E h1) (h_st h1) (h_st h1') /\ filed (h_st h1') /\ filed (h_st h2').
Proof.
  intros F1 F2 Hr Ag [Sc Sr] E1 E2.
  set (F := fun q => In q (fp E h1)).
  assert (W1 : wf F h1) by (apply wf_start; exact F1).
  assert (W2 : wf F h2).
  { destruct (rest_inv _ _ Hr) as (_ & _ & _ & _ & _ & _ & R7 & R8 & _).
    split; [exact F2|]. split; [rewrite <- R7; apply fp_cuser|rewrite <- R8; apply fp_cpid]. }
  assert (S : sim F h1 h2) by (split; [exact Hr|exact Ag]).
  assert (SV : Jat F h1 h2 (serve_top E) (fun _ => True)).
  { apply serve_top_at.
    - apply fp_uid.
    - apply fp_tp.
    - apply fp_sp.
    - apply fp_form.
    - apply fp_rm.
    - apply fp_oa.
    - intros raw D. split; [apply (Sc raw D)|]. intros u Hu. exact (fp_csel E h1 raw u D Hu).
    - intros raw D. split; [apply (Sr raw D)|]. intros u Hu. exact (fp_rsel E h1 raw u D Hu). }
  destruct (SV _ _ _ _ W1 W2 S E1 E2) as (A1 & A2 & A3 & A4 & A5 & _).
  split; [exact A1|]. split; [apply A4|]. split; [apply A4|]. split; [exact A5|].
  split; [apply A2|apply A3].
Qed.

Lemma serve_top_store_footprint E h r h' p :
  filed (h_st h) -> serve_top E h = (r, h') -> ~ In p (fp E h) ->
  ulookup p (s_users (h_st h')) = ulookup p (s_users (h_st h)) /\
  rmlookup p (s_rm (h_st h')) = rmlookup p (s_rm (h_st h)).
Proof.
  intros Fl Eq Np.
  destruct (serve_top_two_runs E h h r h' r h' Fl Fl eq_refl (fun _ _ => conj eq_refl eq_refl) (sel_agree_refl E h) Eq Eq)
    as (_ & _ & _ & Fr & _).
  exact (Fr p Np).
Qed.

Lemma serve_top_keeps_filed E h r h' : filed (h_st h) -> serve_top E h = (r, h') -> filed (h_st h').
Proof.
  intros Fl Eq.
  destruct (serve_top_two_runs E h h r h' r h' Fl Fl eq_refl (fun _ _ => conj eq_refl eq_refl) (sel_agree_refl E h) Eq Eq)
    as (_ & _ & _ & _ & F' & _).
  exact F'.
Qed.

Lemma serve_top_outcome_independent E h1 h2 r1 h1' r2 h2' :
  filed (h_st h1) -> filed (h_st h2) ->
  rest h1 = rest h2 -> agree_on (fp E h1) (h_st h1) (h_st h2) -> sel_agree E h1 h2 ->
  serve_top E h1 = (r1, h1') -> serve_top E h2 = (r2, h2') ->
  r1 = r2 /\ rest h1' = rest h2' /\ agree_on (fp E h1) (h_st h1') (h_st h2') /\
  same_off (fp E h1) (h_st h1) (h_st h1') /\ same_off (fp E h1) (h_st h2) (h_st h2').
Proof.
  intros F1 F2 Hr Ag Sa E1 E2.
  destruct (serve_top_two_runs E h1 h2 _ _ _ _ F1 F2 Hr Ag Sa E1 E2) as (A1 & A2 & A3 & A4 & _).
  split; [exact A1|]. split; [exact A2|]. split; [exact A3|]. split; [exact A4|].
  assert (Efp : fp E h2 = fp E h1).
  { destruct Sa as [Sc Sr]. destruct (rest_inv _ _ Hr) as (_ & _ & _ & _ & _ & _ & R7 & R8 & _).
    unfold fp, fp_ctx, fp_sel. rewrite R7, R8.
    destruct (b64url_dec (aget f_cnf (values E))) as [rc|] eqn:Dc; [rewrite (Sc rc eq_refl)|];
      (destruct (b64url_dec (aget f_token (values E))) as [rr|] eqn:Dr; [rewrite (Sr rr eq_refl)|]); reflexivity. }
  intros p Np. rewrite <- Efp in Np. exact (serve_top_store_footprint E h2 r2 h2' p F2 E2 Np).
Qed.

Lemma wstep_store_footprint_lemma C cfg w req orc p :
  filed (w_st w) -> ~ In p (req_fp C cfg w req orc) ->
  ulookup p (s_users (w_st (fst (wstep C cfg w (AReq req) orc)))) = ulookup p (s_users (w_st w)) /\
  rmlookup p (s_rm (w_st (fst (wstep C cfg w (AReq req) orc)))) = rmlookup p (s_rm (w_st w)).
Proof.
  intros Fl Np. unfold wstep. fold (req_env C cfg w req orc).
  destruct (serve_top (req_env C cfg w req orc) (init_hst (w_st w) orc)) as [r h] eqn:Sv.
  pose proof (serve_top_store_footprint (req_env C cfg w req orc) (init_hst (w_st w) orc) r h p Fl Sv Np) as Hs.
  destruct (h_out h); simpl; exact Hs.
Qed.

Lemma wstep_outcome_independent_lemma C cfg w1 w2 req orc :
  filed (w_st w1) -> filed (w_st w2) ->
  jar_get (q_browser req) (w_sess w1) = jar_get (q_browser req) (w_sess w2) ->
  jar_get (q_browser req) (w_cook w1) = jar_get (q_browser req) (w_cook w2) ->
  agree_on (req_fp C cfg w1 req orc) (w_st w1) (w_st w2) ->
  sel_agree (req_env C cfg w1 req orc) (init_hst (w_st w1) orc) (init_hst (w_st w2) orc) ->
  snd (wstep C cfg w1 (AReq req) orc) = snd (wstep C cfg w2 (AReq req) orc) /\
  jar_get (q_browser req) (w_sess (fst (wstep C cfg w1 (AReq req) orc))) =
    jar_get (q_browser req) (w_sess (fst (wstep C cfg w2 (AReq req) orc))) /\
  jar_get (q_browser req) (w_cook (fst (wstep C cfg w1 (AReq req) orc))) =
    jar_get (q_browser req) (w_cook (fst (wstep C cfg w2 (AReq req) orc))) /\
  agree_on (req_fp C cfg w1 req orc) (w_st (fst (wstep C cfg w1 (AReq req) orc))) (w_st (fst (wstep C cfg w2 (AReq req) orc))) /\
  same_off (req_fp C cfg w1 req orc) (w_st w1) (w_st (fst (wstep C cfg w1 (AReq req) orc))) /\
  same_off (req_fp C cfg w1 req orc) (w_st w2) (w_st (fst (wstep C cfg w2 (AReq req) orc))).
Proof.
  intros F1 F2 Js Jc Ag Sa. unfold wstep.
  fold (req_env C cfg w1 req orc). fold (req_env C cfg w2 req orc).
  assert (EE : req_env C cfg w2 req orc = req_env C cfg w1 req orc) by (unfold req_env; rewrite Js, Jc; reflexivity).
  rewrite EE. rewrite <- Js, <- Jc.
  destruct (serve_top (req_env C cfg w1 req orc) (init_hst (w_st w1) orc)) as [r1 k1] eqn:S1.
  destruct (serve_top (req_env C cfg w1 req orc) (init_hst (w_st w2) orc)) as [r2 k2] eqn:S2.
  destruct (serve_top_outcome_independent (req_env C cfg w1 req orc) (init_hst (w_st w1) orc) (init_hst (w_st w2) orc)
              _ _ _ _ F1 F2 eq_refl Ag Sa S1 S2) as (A1 & A2 & A3 & A4 & A5).
  subst r2. destruct (rest_inv _ _ A2) as (R1 & R2 & R3 & R4 & R5 & R6 & R7 & R8 & R9 & R10 & R11 & R12).
  split; [unfold obs_of; simpl; congruence|].
  rewrite <- R3. destruct (h_out k1) as [wr|]; simpl.
  - rewrite !jar_get_set_eq. auto.
  - rewrite Js, Jc. auto.
Qed.

(* ---- C15 ------------------------------------------------------------------------------------ *)
Lemma view_lookup_other k pid s : k <> k_halfauth -> k <> k_uid ->
  alookup k (aput k_halfauth v_true (aput k_uid pid s)) = alookup k s.
Proof. intros N1 N2. rewrite alookup_aput_neq by exact N1. apply alookup_aput_neq. exact N2. Qed.

Lemma resp_serve_top E :
  resp_all (resp_ok (e_cfg E) (e_req E) (honours_redir (e_req E)) (route_extra (e_cfg E) (e_req E) (e_sess E)))
           (serve_top E).
Proof.
  destruct (wrapped_route E) eqn:W.
  2:{ rewrite (serve_top_plain _ W). apply resp_serve. }
  rewrite (serve_top_wrapped _ W).
  apply resp_bind; [apply resp_remember_mw|intros _].
  unfold remembered_view.
  intros h r h' Eq. apply bind_inv in Eq as [(s2 & h1 & E1 & E2)|[(e & E1 & ->)|(E1 & ->)]].
  - fold (remembered_view (e_sess E)) in E1. destruct (remembered_view_inv _ _ _ _ E1) as [-> S2].
    assert (Pe : oauth2_params s2 = oauth2_params (e_sess E)).
    { inversion S2 as [S2']. unfold oauth2_params. destruct (h_cpid h); [|reflexivity].
      rewrite view_lookup_other by (intro H; vm_compute in H; discriminate H). reflexivity. }
    pose proof (resp_serve (with_sess E s2) _ _ _ E2) as K.
    cbn [with_sess e_cfg e_req e_sess] in K.
    unfold route_extra, oauth2_end_extra in K. rewrite Pe in K. exact K.
  - fold (remembered_view (e_sess E)) in E1. destruct (remembered_view_inv _ _ _ _ E1) as [-> _]. exact (fun H => H).
  - fold (remembered_view (e_sess E)) in E1. destruct (remembered_view_inv _ _ _ _ E1) as [-> _]. exact (fun H => H).
Qed.

Section WB.
Variable C : crypto.
Variable cfg : config.

Lemma c15_wstep_redirects_local_lemma w req O loc :
  redirects_to (snd (wstep C cfg w (AReq req) O)) loc ->
  allowed_location cfg req (jar_get (q_browser req) (w_sess w)) loc.
Proof.
  intros Hr.
  set (E := mkEnv C cfg O req (jar_get (q_browser req) (w_cook w)) (jar_get (q_browser req) (w_sess w))).
  destruct (serve_top E (init_hst (w_st w) O)) as [r h] eqn:Es.
  unfold wstep in Hr. fold E in Hr. rewrite Es in Hr. cbn [snd] in Hr.
  pose proof (resp_serve_top E _ _ _ Es (outP_init _ _ _)) as Hp.
  exact (outP_redirects (allowed_location cfg req (jar_get (q_browser req) (w_sess w))) r h loc Hp Hr).
Qed.

Lemma c15_only_requests_redirect_w_lemma w a O loc :
  redirects_to (snd (wstep C cfg w a O)) loc ->
  exists req, a = AReq req /\ allowed_location cfg req (jar_get (q_browser req) (w_sess w)) loc.
Proof.
  intros Hr. destruct a as [req| | | | | | |].
  1:{ exists req. split; [reflexivity|]. exact (c15_wstep_redirects_local_lemma w req O loc Hr). }
  all: destruct (c15_only_requests_redirect_lemma C cfg w _ O loc Hr) as (req & Ha & _); discriminate Ha.
Qed.
End WB.

Lemma c15_wstep_same_site_lemma C cfg w req O loc :
  mount_ok (c_mount cfg) = true ->
  (forall p, q_route req <> ROAuthStart p) ->
  redirects_to (snd (wstep C cfg w (AReq req) O)) loc -> same_site loc = true.
Proof.
  intros Hm Hns Hr. eapply allowed_same_site_lemma; [exact Hm|exact Hns|].
  exact (c15_wstep_redirects_local_lemma C cfg w req O loc Hr).
Qed.

(* ---- C01 ------------------------------------------------------------------------------------ *)
(* the wrapper sets the context pid only for an account whose unconsumed token the cookie carries *)
Lemma remember_authenticate_cpid_guard E h r h' p :
  h_cpid h = None -> remember_authenticate E h = (r, h') -> h_cpid h' = Some p -> g_remember E (h_st h) p.
Proof.
  intros Hp Eq Hc.
  destruct (remember_authenticate_cpid E h r h' Hp Eq) as [Hn|(pid & Hs & cookie & raw & Ck & Dc & Pp)]; [congruence|].
  assert (pid = p) by congruence. subst pid.
  exists cookie, raw. split; [exact Ck|]. split; [exact Dc|]. split; [exact Pp|].
  unfold remember_authenticate in Eq. rewrite Ck, Dc, Pp in Eq. cbv zeta in Eq.
  apply try_inv in Eq as [(x & k1 & L & NP & K)|(L & ->)].
  2:{ apply st_use_rm_spec in L. destruct L as (_ & _ & _ & N). congruence. }
  pose proof (st_use_rm_spec _ _ _ _ _ _ L) as (_ & _ & Tn & _).
  assert (K1 : h_cpid k1 = h_cpid h).
  { assert (G : rl (Rk h_cpid) (st_use_rm (e_O E) p (b64std_enc (sha (e_C E) raw)))) by (rl_go; rk_side).
    exact (G _ _ _ L). }
  destruct x as [[]|e|]; [exact (Tn eq_refl)| |congruence].
  exfalso.
  assert (G : rl (Rk h_cpid) (match e with ErrTokenNotFound => log [] ;;; del_cookie k_rm | _ => @fail unit e end))
    by (destruct e; rl_go; rk_side).
  assert (h_cpid h' = h_cpid k1) by (destruct e; exact (G _ _ _ K)). congruence.
Qed.

Lemma remember_mw_cpid_guard E h x h' p :
  h_cpid h = None -> remember_mw E h = (x, h') -> h_cpid h' = Some p ->
  g_remember E (h_st h) p /\ bempty (aget k_uid (e_sess E)) = true.
Proof.
  intros Hp Eq Hc. unfold remember_mw in Eq. unfold bind at 1 in Eq. rewrite (current_user_id_nocache _ _ Hp) in Eq.
  destruct (bempty (aget k_uid (e_sess E))) eqn:B; [|inversion Eq; subst; congruence].
  split; [|reflexivity].
  apply try_inv in Eq as [(x0 & h1 & RA & _ & K)|(RA & _)].
  - assert (h_cpid h' = h_cpid h1) as Hq by (destruct x0; inversion K; reflexivity).
    rewrite Hq in Hc. eapply remember_authenticate_cpid_guard; eauto.
  - eapply remember_authenticate_cpid_guard; eauto.
Qed.

(* what the wrapper hands on, from the start of a request *)
Lemma wrapper_result E st O h1 s2 :
  remember_mw E (init_hst st O) = (Ok tt, h1) -> remembered_view (e_sess E) h1 = (Ok s2, h1) ->
  s_users (h_st h1) = s_users st /\ h_cuser h1 = None /\ h_out h1 = None /\
  ((h_cpid h1 = None /\ s2 = e_sess E) \/
   (exists pid, h_cpid h1 = Some pid /\ s2 = aput k_halfauth v_true (aput k_uid pid (e_sess E)) /\
                bempty (aget k_uid (e_sess E)) = true /\ g_remember E st pid)).
Proof.
  intros RM RV. destruct (remember_mw_keeps _ _ _ _ RM) as (Ko & Ku & Kc). cbn [init_hst h_out h_st h_cuser] in *.
  split; [exact Ku|]. split; [exact Kc|]. split; [exact Ko|].
  apply remembered_view_inv in RV as [_ RV]. inversion RV as [S2]. clear RV.
  destruct (h_cpid h1) as [pid|] eqn:Hc; [right|left; auto].
  exists pid. split; [reflexivity|]. split; [reflexivity|].
  destruct (remember_mw_cpid_guard E (init_hst st O) _ _ pid eq_refl RM Hc) as [G B]. auto.
Qed.

(* the wrapper's own events: a user identity is written only for the cookie's owner *)
Lemma remember_mw_guard E h : gen_guarded (put_guard (g_remember E (h_st h))) (remember_mw E) h.
Proof.
  unfold remember_mw. apply gen_guarded_bind; [apply gen_guarded_of_neutral; evs_go|intros id h2 H2].
  apply current_user_id_same in H2. subst h2.
  destruct (bempty id); [|apply (gen_guarded_of_evs _ any_ev); apply evs_ret].
  apply gen_guarded_try.
  - apply put_of_guarded. exact (remember_authenticate_guard E h).
  - intros x h3 _. apply gen_guarded_of_neutral. destruct x; evs_go.
Qed.

(* the credential condition of a module route, for ANY environment and start state *)
Definition module_credential (E : env) (h : hst) (U : bytes) : Prop :=
  let req := e_req E in let cfg := e_cfg E in
  (q_route req = RLogin /\ q_meth req = POST /\ has_mod cfg MAuth = true /\ g_login E (h_st h) U) \/
  (q_route req = ROtpLogin /\ q_meth req = POST /\ has_mod cfg MOtp = true /\ g_otp E (h_st h) U) \/
  (q_route req = RRegister /\ q_meth req = POST /\ has_mod cfg MRegister = true /\ Guards2.g_register E (h_st h) U) \/
  (q_route req = RRecoverEnd /\ q_meth req = POST /\ has_mod cfg MRecover = true /\ g_recover E (h_st h) U) \/
  (exists prov, q_route req = ROAuthCallback prov /\ q_meth req = GET /\ has_mod cfg MOAuth2 = true /\
                bmem prov (c_providers cfg) = true /\ g_oauth2 E prov (h_st h) U) \/
  (q_route req = RTotpValidate /\ q_meth req = POST /\ c_totp cfg = true /\ g_totp E h U) \/
  (q_route req = RSmsValidate /\ q_meth req = POST /\ c_sms cfg = true /\ g_sms E h U).

Lemma put_guard_weaken (G G' : bytes -> Prop) e : (forall U, G U -> G' U) -> put_guard G e -> put_guard G' e.
Proof. intros W H U HU. apply W. exact (H U HU). Qed.

Lemma serve_not_handler_guard G E h :
  (forall hd, route_table E <> Handler hd) -> gen_guarded (put_guard G) (serve E) h.
Proof.
  intros NH. apply (gen_guarded_of_evs _ any_ev). apply serve_evs.
  destruct (route_table E) as [hd| |]; [destruct (NH hd eq_refl)|exact I|exact I].
Qed.

Lemma serve_route_guard (G G' : bytes -> Prop) E hd h :
  route_table E = Handler hd -> guarded G hd h -> (forall U, G U -> G' U) ->
  gen_guarded (put_guard G') (serve E) h.
Proof.
  intros RT Hg W. rewrite (serve_handler _ _ RT). apply gen_guarded_error_handler.
  eapply gen_guarded_weaken; [|apply put_of_guarded; exact Hg]. intros e. apply put_guard_weaken. exact W.
Qed.

Ltac route_is_E R M :=
  unfold route_table; rewrite R, M; unfold when, get_post, on_method; rewrite ?M; cbn [meth_eqb].
Ltac notfound_E R M :=
  apply serve_not_handler_guard;
  let hd := fresh in let HH := fresh in
  intros hd HH; unfold route_table in HH; rewrite R, M in HH;
  unfold when, get_post, on_method in HH;
  repeat match goal with Hb : ?l = _ |- _ =>
           lazymatch l with has_mod _ _ => idtac | bmem _ _ => idtac | c_totp _ => idtac | c_sms _ => idtac end;
           rewrite Hb in HH end;
  cbn [andb] in HH; discriminate HH.

(* every module route, any start state: a user identity is written only under the route's condition *)
Lemma serve_module_guard E h :
  is_app (q_route (e_req E)) = false -> gen_guarded (put_guard (module_credential E h)) (serve E) h.
Proof.
  intros NA. destruct (can_login (e_req E)) eqn:CL.
  2:{ apply (gen_guarded_of_evs _ any_ev). apply serve_evs. apply nologin_routes. exact CL. }
  unfold can_login in CL. unfold module_credential. cbv zeta.
  destruct (q_route (e_req E)) as [| | | | | | | |pv|pv| | | | | | | | | | |k|k| |full tf fr lk cf remembermw expiremw|] eqn:R;
    try (destruct (q_meth (e_req E)) eqn:M; discriminate CL); try discriminate NA.
  - destruct (q_meth (e_req E)) eqn:M; try discriminate CL. destruct (has_mod (e_cfg E) MAuth) eqn:HM; [|notfound_E R M].
    eapply (serve_route_guard _ _ E (login_post E)); [route_is_E R M; rewrite HM; reflexivity|apply login_post_guard|].
    intros U HU. left. auto.
  - destruct (q_meth (e_req E)) eqn:M; try discriminate CL. destruct (has_mod (e_cfg E) MOtp) eqn:HM; [|notfound_E R M].
    eapply (serve_route_guard _ _ E (otp_login_post E)); [route_is_E R M; rewrite HM; reflexivity|apply otp_login_post_guard|].
    intros U HU. right; left. auto.
  - destruct (q_meth (e_req E)) eqn:M; try discriminate CL. destruct (has_mod (e_cfg E) MRegister) eqn:HM; [|notfound_E R M].
    eapply (serve_route_guard _ _ E (register_post E)); [route_is_E R M; rewrite HM; reflexivity|apply register_post_guard|].
    intros U HU. right; right; left. auto.
  - destruct (q_meth (e_req E)) eqn:M; try discriminate CL. destruct (has_mod (e_cfg E) MRecover) eqn:HM; [|notfound_E R M].
    eapply (serve_route_guard _ _ E (recover_end_post E)); [route_is_E R M; rewrite HM; reflexivity|apply recover_end_post_guard|].
    intros U HU. do 3 right; left. auto.
  - destruct (q_meth (e_req E)) eqn:M; try discriminate CL.
    destruct (has_mod (e_cfg E) MOAuth2) eqn:HM; [|notfound_E R M].
    destruct (bmem pv (c_providers (e_cfg E))) eqn:HP; [|notfound_E R M].
    eapply (serve_route_guard _ _ E (oauth2_end E pv)); [route_is_E R M; rewrite HM, HP; reflexivity|apply oauth2_end_guard|].
    intros U HU. do 4 right; left. exists pv. auto 6.
  - destruct (q_meth (e_req E)) eqn:M; try discriminate CL. destruct (c_totp (e_cfg E)) eqn:HM; [|notfound_E R M].
    eapply (serve_route_guard _ _ E (totp_validate_post E)); [route_is_E R M; rewrite HM; reflexivity|apply totp_validate_post_guard|].
    intros U HU. do 5 right; left. auto.
  - destruct (q_meth (e_req E)) eqn:M; try discriminate CL. destruct (c_sms (e_cfg E)) eqn:HM; [|notfound_E R M].
    eapply (serve_route_guard _ _ E (sms_validator_post E SPValidate)); [route_is_E R M; rewrite HM; reflexivity|apply sms_validator_post_guard|].
    intros U HU. do 6 right. auto.
Qed.

(* the event log of [serve] and [serve_top], no class at all: only the prefix (flush) part is used *)
Lemma evs_any_routes E : routed_evs any_ev any_ev (route_table E).
Proof.
  destruct (may_drop (e_req E)) eqn:MD.
  2:{ eapply routed_evs_weaken; [| |apply nodrop_routes; exact MD]; intros; exact I. }
  unfold route_table, may_drop in *.
  destruct (q_route (e_req E)) as [| | | | | | | |pv|pv| | | | | | | | | | |k|k| |full tf fr lk cf remembermw expiremw|] eqn:R;
    try discriminate MD.
  - destruct (q_meth (e_req E)) eqn:Mt; try exact I;
      unfold when, on_method; destruct (has_mod (e_cfg E) MLogout); try exact I;
      destruct (meth_eqb _ _); try exact I; cbn [routed_evs];
      eapply evs_any; apply (evs_put_logout never).
  - cbn [routed_evs]. apply evs_any_app_stack.
Qed.
Lemma evs_any_serve E : evs_all any_ev any_ev (serve E).
Proof. apply serve_evs. apply evs_any_routes. Qed.
Lemma evs_any_serve_top E : evs_all any_ev any_ev (serve_top E).
Proof.
  destruct (wrapped_route E) eqn:W.
  - rewrite (serve_top_wrapped _ W).
    apply evs_bind; [eapply evs_any, nodrop_remember_mw|intros _].
    apply evs_bind; [apply evs_remembered_view|intros s2]. apply evs_any_serve.
  - rewrite (serve_top_plain _ W). apply evs_any_serve.
Qed.

Definition wrapped_credential (E : env) (h : hst) (U : bytes) : Prop :=
  g_remember E (h_st h) U \/
  exists h1 s2, remember_mw E h = (Ok tt, h1) /\ remembered_view (e_sess E) h1 = (Ok s2, h1) /\
                module_credential (with_sess E s2) h1 U.

Lemma serve_top_guard E h :
  wrapped_route E = true -> gen_guarded (put_guard (wrapped_credential E h)) (serve_top E) h.
Proof.
  intros W. rewrite (serve_top_wrapped _ W).
  assert (NA : is_app (q_route (e_req E)) = false).
  { unfold wrapped_route in W. apply Bool.andb_true_iff in W as [_ W]. apply Bool.negb_true_iff in W. exact W. }
  apply gen_guarded_bind.
  { eapply gen_guarded_weaken; [|apply remember_mw_guard]. intros e. apply put_guard_weaken. intros U HU. left. exact HU. }
  intros [] h1 RM.
  apply gen_guarded_bind; [apply gen_guarded_of_neutral, evs_remembered_view|].
  intros s2 h2 RV. destruct (remembered_view_inv _ _ _ _ RV) as [-> _].
  eapply gen_guarded_weaken; [|apply (serve_module_guard (with_sess E s2) h1 NA)].
  intros e. apply put_guard_weaken. intros U HU. right. exists h1, s2. auto.
Qed.

(* the flush rule for any computation started at the beginning of a request *)
Lemma flushed_guarded_gen P phi psi {A} (m : M A) st0 O r h :
  evs_all phi psi m -> gen_guarded P m (init_hst st0 O) -> m (init_hst st0 O) = (r, h) ->
  match h_out h with Some wr => Forall P (w_sev wr) | None => True end.
Proof.
  intros Hs Hg Eq. destruct (Hs _ _ _ Eq) as [_ Pf]. destruct (Hg _ _ Eq) as (ls & lc & S & _ & F).
  destruct (h_out h) as [wr|] eqn:Ho; [|exact I].
  assert (P0 : pref (init_hst st0 O)) by (intros wr0 Hw; discriminate Hw).
  destruct (Pf P0 wr Ho) as (l & c & E1 & _).
  simpl in S. rewrite E1 in S. subst ls. apply Forall_app in F. tauto.
Qed.

Section WA.
Variable C : crypto.
Variable cfg : config.
Notation ENV w O req := (mkEnv C cfg O req (jar_get (q_browser req) (w_cook w)) (jar_get (q_browser req) (w_sess w))).

Lemma wstep_put_guard (G : bytes -> Prop) w req O U :
  gen_guarded (put_guard G) (serve_top (ENV w O req)) (init_hst (w_st w) O) ->
  alookup k_uid (jar_get (q_browser req) (w_sess (fst (wstep C cfg w (AReq req) O)))) = Some U ->
  alookup k_uid (jar_get (q_browser req) (w_sess w)) <> Some U ->
  G U.
Proof.
  intros Hg H1 H0. revert H1. unfold wstep. cbv zeta.
  destruct (serve_top _ _) as [r h] eqn:Es.
  pose proof (flushed_guarded_gen _ _ _ _ _ _ _ _ (evs_any_serve_top _) Hg Es) as Hf.
  destruct (h_out h) as [wr|]; simpl; intros H1.
  - rewrite jar_get_set_eq in H1. apply apply_events_uid_change in H1; [|exact H0].
    rewrite Forall_forall in Hf. exact (Hf _ H1 U eq_refl).
  - contradiction.
Qed.

Lemma wstep_plain w req O :
  wrapped_route (ENV w O req) = false -> wstep C cfg w (AReq req) O = step C cfg w (AReq req) O.
Proof. intros W. unfold wstep, step. rewrite (serve_top_plain _ W). reflexivity. Qed.

Lemma wstep_other_browsers_lemma w req O b :
  b <> q_browser req ->
  jar_get b (w_sess (fst (wstep C cfg w (AReq req) O))) = jar_get b (w_sess w) /\
  jar_get b (w_cook (fst (wstep C cfg w (AReq req) O))) = jar_get b (w_cook w).
Proof.
  intros N. unfold wstep.
  destruct (serve_top _ _) as [r h] eqn:Es. destruct (h_out h) as [wr|]; simpl.
  - split; apply jar_get_set_neq; assumption.
  - auto.
Qed.

Lemma c01w_lemma w a O U b :
  let w' := fst (wstep C cfg w a O) in
  alookup k_uid (jar_get b (w_sess w')) = Some U -> alookup k_uid (jar_get b (w_sess w)) <> Some U ->
  (exists req, a = AReq req /\ q_browser req = b /\
     let ENV := mkEnv C cfg O req (jar_get (q_browser req) (w_cook w)) (jar_get (q_browser req) (w_sess w)) in
     ((c_wrap_remember cfg && negb (is_app (q_route req)) = false /\ credential_shown C cfg w O req U) \/
      (c_wrap_remember cfg = true /\ is_app (q_route req) = false /\ g_remember ENV (w_st w) U) \/
      (c_wrap_remember cfg = true /\ is_app (q_route req) = false /\
       exists h1 s2, remember_mw ENV (init_hst (w_st w) O) = (Ok tt, h1) /\
                     remembered_view (e_sess ENV) h1 = (Ok s2, h1) /\
                     module_credential (with_sess ENV s2) h1 U))) \/
  a = APlant b k_uid U \/
  (exists j, a = ASetJar false b j /\ alookup k_uid j = Some U).
Proof.
  intros w' H1 H0. subst w'.
  destruct a as [req| | | | | | |].
  2-8: destruct (c01_session_only_against_credential_lemma C cfg w _ O U b H1 H0) as [(req & Ha & _)|[Hp|Hj]];
       [discriminate Ha|right; left; exact Hp|right; right; exact Hj].
  left. exists req. split; [reflexivity|].
  destruct (bytes_dec b (q_browser req)) as [->|N].
  2:{ exfalso. destruct (wstep_other_browsers_lemma w req O b N) as [Eq _]. rewrite Eq in H1. contradiction. }
  split; [reflexivity|]. cbv zeta.
  destruct (wrapped_route (ENV w O req)) eqn:W.
  - pose proof W as W'. unfold wrapped_route in W'. cbn [e_cfg e_req] in W'.
    apply Bool.andb_true_iff in W' as [Wc Wa]. apply Bool.negb_true_iff in Wa.
    destruct (wstep_put_guard _ w req O U (serve_top_guard _ _ W) H1 H0) as [G|G].
    + right; left. auto.
    + right; right. auto.
  - left. split; [exact W|]. rewrite (wstep_plain _ _ _ W) in H1.
    destruct (c01_session_only_against_credential_lemma C cfg w (AReq req) O U (q_browser req) H1 H0)
      as [(req' & Ha & _ & Cr)|[Hp|(j & Hj & _)]]; [|discriminate Hp|discriminate Hj].
    inversion Ha; subst req'. exact Cr.
Qed.
End WA.

(* the conditions read the state only through the user table, the context user and "where
   CurrentUser looks" *)
Lemma user_source_transport E pk h st O u :
  s_users (h_st h) = s_users st -> h_cuser h = None -> Guards3.cur_pid E h = aget k_uid (e_sess E) ->
  user_source E pk h u -> user_source E pk (init_hst st O) u.
Proof.
  intros Ku Kc Kp. unfold user_source. rewrite Ku, Kc, Kp. unfold Guards3.cur_pid. cbn [init_hst h_cuser h_cpid h_st].
  exact (fun H => H).
Qed.

Lemma module_credential_transport E h st O U :
  s_users (h_st h) = s_users st -> h_cuser h = None -> Guards3.cur_pid E h = aget k_uid (e_sess E) ->
  module_credential E h U -> module_credential E (init_hst st O) U.
Proof.
  intros Ku Kc Kp. unfold module_credential. cbv zeta. cbn [init_hst h_st].
  intros [H|[H|[H|[H|[H|[H|H]]]]]].
  - left. revert H. unfold g_login. rewrite Ku. exact (fun H => H).
  - right; left. revert H. unfold g_otp. rewrite Ku. exact (fun H => H).
  - right; right; left. revert H. unfold Guards2.g_register. rewrite Ku. exact (fun H => H).
  - do 3 right; left. revert H. unfold g_recover. rewrite Ku. exact (fun H => H).
  - do 4 right; left. revert H. unfold g_oauth2. rewrite Ku. exact (fun H => H).
  - do 5 right; left. destruct H as (A & B & D & u & (Us & T) & P). split; [exact A|]. split; [exact B|]. split; [exact D|].
    exists u. split; [|exact P]. split; [|exact T]. eapply user_source_transport; eauto.
  - do 6 right. destruct H as (A & B & D & u & Us & T). split; [exact A|]. split; [exact B|]. split; [exact D|].
    exists u. split; [|exact T]. eapply user_source_transport; eauto.
Qed.

Lemma with_sess_same E : with_sess E (e_sess E) = E.
Proof. destruct E; reflexivity. Qed.

Definition half_view (pid : bytes) (s : amap) : amap := aput k_halfauth v_true (aput k_uid pid s).

(* the third case of the wrapped C01, in terms of the request as it arrived *)
Lemma module_credential_after_wrapper E st O h1 s2 U :
  remember_mw E (init_hst st O) = (Ok tt, h1) -> remembered_view (e_sess E) h1 = (Ok s2, h1) ->
  module_credential (with_sess E s2) h1 U ->
  module_credential E (init_hst st O) U \/
  (exists pid, bempty (aget k_uid (e_sess E)) = true /\ g_remember E st pid /\
               module_credential (with_sess E (half_view pid (e_sess E))) (init_hst st O) U).
Proof.
  intros RM RV MC.
  destruct (wrapper_result E st O h1 s2 RM RV) as (Ku & Kc & _ & [[Hp ->]|(pid & Hp & -> & B & G)]).
  - left. rewrite with_sess_same in MC. apply (module_credential_transport E h1 st O U Ku Kc); [|exact MC].
    unfold Guards3.cur_pid. rewrite Hp. reflexivity.
  - right. exists pid. split; [exact B|]. split; [exact G|].
    apply (module_credential_transport _ h1 st O U Ku Kc); [|exact MC].
    unfold Guards3.cur_pid. rewrite Hp. cbn [with_sess e_sess]. symmetry. apply aget_uid_overlay.
Qed.

Section WA2.
Variable C : crypto.
Variable cfg : config.

Lemma c01w_session_only_against_credential_lemma w a O U b :
  let w' := fst (wstep C cfg w a O) in
  alookup k_uid (jar_get b (w_sess w')) = Some U -> alookup k_uid (jar_get b (w_sess w)) <> Some U ->
  (exists req, a = AReq req /\ q_browser req = b /\
     let ENV := mkEnv C cfg O req (jar_get (q_browser req) (w_cook w)) (jar_get (q_browser req) (w_sess w)) in
     ((* the route is not behind the wrapper: the unwrapped statement *)
      (c_wrap_remember cfg && negb (is_app (q_route req)) = false /\ credential_shown C cfg w O req U) \/
      (* a module route behind the wrapper *)
      (c_wrap_remember cfg = true /\ is_app (q_route req) = false /\
       ((* the wrapper logged the cookie's owner in *)
        g_remember ENV (w_st w) U \/
        (* the route's own condition, on the request as it arrived *)
        module_credential ENV (init_hst (w_st w) O) U \/
        (* the route's own condition, for the half-authenticated view that the wrapper made of a
           session without identity when it consumed a token of the cookie's owner pid *)
        (exists pid, bempty (aget k_uid (e_sess ENV)) = true /\ g_remember ENV (w_st w) pid /\
                     module_credential (with_sess ENV (half_view pid (e_sess ENV))) (init_hst (w_st w) O) U))))) \/
  a = APlant b k_uid U \/
  (exists j, a = ASetJar false b j /\ alookup k_uid j = Some U).
Proof.
  intros w' H1 H0.
  destruct (c01w_lemma C cfg w a O U b H1 H0) as [(req & Ha & Hb & Hc)|Hr]; [left|right; exact Hr].
  exists req. split; [exact Ha|]. split; [exact Hb|]. cbv zeta in Hc |- *.
  destruct Hc as [Hc|[(A1 & A2 & G)|(A1 & A2 & h1 & s2 & RM & RV & MC)]].
  - left. exact Hc.
  - right. auto.
  - right. split; [exact A1|]. split; [exact A2|]. right.
    exact (module_credential_after_wrapper _ _ _ _ _ _ RM RV MC).
Qed.
End WA2.

(* [credential_shown] of the unwrapped statement is the module-route condition or the application
   stack's remember condition *)
Lemma credential_shown_split C cfg w O req U :
  credential_shown C cfg w O req U <->
  module_credential (mkEnv C cfg O req (jar_get (q_browser req) (w_cook w)) (jar_get (q_browser req) (w_sess w)))
                    (init_hst (w_st w) O) U \/
  (exists full tf fr l c e, q_route req = RApp full tf fr l c true e /\
     g_remember (mkEnv C cfg O req (jar_get (q_browser req) (w_cook w)) (jar_get (q_browser req) (w_sess w))) (w_st w) U).
Proof.
  unfold credential_shown, module_credential. cbv zeta. cbn [e_req e_cfg init_hst h_st]. tauto.
Qed.

Lemma is_app_reading r : is_app r = true <-> exists full tf fr l c rm e, r = RApp full tf fr l c rm e.
Proof.
  split.
  - destruct r; try discriminate. intros _. do 7 eexists. reflexivity.
  - intros (full & tf & fr & l & c & rm & e & ->). reflexivity.
Qed.

Lemma module_credential_reading E h U :
  module_credential E h U <->
  (q_route (e_req E) = RLogin /\ q_meth (e_req E) = POST /\ has_mod (e_cfg E) MAuth = true /\ g_login E (h_st h) U) \/
  (q_route (e_req E) = ROtpLogin /\ q_meth (e_req E) = POST /\ has_mod (e_cfg E) MOtp = true /\ g_otp E (h_st h) U) \/
  (q_route (e_req E) = RRegister /\ q_meth (e_req E) = POST /\ has_mod (e_cfg E) MRegister = true /\
     Guards2.g_register E (h_st h) U) \/
  (q_route (e_req E) = RRecoverEnd /\ q_meth (e_req E) = POST /\ has_mod (e_cfg E) MRecover = true /\
     g_recover E (h_st h) U) \/
  (exists prov, q_route (e_req E) = ROAuthCallback prov /\ q_meth (e_req E) = GET /\ has_mod (e_cfg E) MOAuth2 = true /\
                bmem prov (c_providers (e_cfg E)) = true /\ g_oauth2 E prov (h_st h) U) \/
  (q_route (e_req E) = RTotpValidate /\ q_meth (e_req E) = POST /\ c_totp (e_cfg E) = true /\ g_totp E h U) \/
  (q_route (e_req E) = RSmsValidate /\ q_meth (e_req E) = POST /\ c_sms (e_cfg E) = true /\ g_sms E h U).
Proof. reflexivity. Qed.

Lemma c01w_unwrapped_lemma C cfg w a O U b :
  c_wrap_remember cfg = false ->
  let w' := fst (wstep C cfg w a O) in
  alookup k_uid (jar_get b (w_sess w')) = Some U -> alookup k_uid (jar_get b (w_sess w)) <> Some U ->
  (exists req, a = AReq req /\ q_browser req = b /\ credential_shown C cfg w O req U) \/
  a = APlant b k_uid U \/
  (exists j, a = ASetJar false b j /\ alookup k_uid j = Some U).
Proof.
  intros Hw. cbv zeta. rewrite (wstep_unwrapped C cfg w a O Hw).
  exact (c01_session_only_against_credential_lemma C cfg w a O U b).
Qed.

Lemma half_view_reading pid s :
  half_view pid s = aput k_halfauth v_true (aput k_uid pid s) /\
  aget k_uid (half_view pid s) = pid /\
  (forall k, k <> k_halfauth -> k <> k_uid -> aget k (half_view pid s) = aget k s).
Proof.
  split; [reflexivity|]. split; [apply aget_uid_overlay|]. intros k N1 N2. apply view_other_key; assumption.
Qed.

(* ---- C10: logout behind the wrapper -------------------------------------------------------- *)
(* what the wrapper can record: session events only for uid / halfauth, cookie events only for rm *)
Definition wrapper_sev (e : csevent) : Prop := exists v, e = Put k_uid v \/ e = Put k_halfauth v.
Definition wrapper_cev (e : csevent) : Prop := e = Del k_rm \/ exists v, e = Put k_rm v.

Lemma evs_wrapper E : evs_all wrapper_sev wrapper_cev (remember_mw E).
Proof.
  unfold remember_mw, remember_authenticate.
  repeat (unfold_derived; cbn beta iota; evs_step).
  all: match goal with
       | |- wrapper_sev (Put k_uid ?v) => exists v; left; reflexivity
       | |- wrapper_sev (Put k_halfauth ?v) => exists v; right; reflexivity
       | |- wrapper_cev (Del k_rm) => left; reflexivity
       | |- wrapper_cev (Put k_rm ?v) => right; exists v; reflexivity
       end.
Qed.

Lemma apply_events_wrapper_sev l : forall j k, Forall wrapper_sev l -> k <> k_uid -> k <> k_halfauth ->
  alookup k (apply_events j l) = alookup k j.
Proof.
  unfold apply_events. induction l as [|e l IH]; intros j k F N1 N2; cbn [fold_left]; [reflexivity|].
  inversion F as [|? ? He Fl]; subst. rewrite (IH _ k Fl N1 N2).
  destruct He as (v & [-> | ->]); cbn [apply_event]; apply alookup_aput_neq; assumption.
Qed.
Lemma apply_events_wrapper_cev l : forall j k, Forall wrapper_cev l -> k <> k_rm ->
  alookup k (apply_events j l) = alookup k j.
Proof.
  unfold apply_events. induction l as [|e l IH]; intros j k F N1; cbn [fold_left]; [reflexivity|].
  inversion F as [|? ? He Fl]; subst. rewrite (IH _ k Fl N1).
  destruct He as [-> | (v & ->)]; cbn [apply_event]; [apply alookup_aremove_neq|apply alookup_aput_neq]; assumption.
Qed.

Section WL.
Variable C : crypto.
Variable cfg : config.

Lemma wstep_shape_eq w req O r h :
  let b := q_browser req in
  serve_top (mkEnv C cfg O req (jar_get b (w_cook w)) (jar_get b (w_sess w))) (init_hst (w_st w) O) = (r, h) ->
  let w' := fst (wstep C cfg w (AReq req) O) in
  snd (wstep C cfg w (AReq req) O) = obs_of r h /\
  w_st w' = h_st h /\
  match h_out h with
  | Some wr => jar_get b (w_sess w') = apply_events (jar_get b (w_sess w)) (w_sev wr) /\
               jar_get b (w_cook w') = apply_events (jar_get b (w_cook w)) (w_cev wr)
  | None => w_sess w' = w_sess w /\ w_cook w' = w_cook w
  end.
Proof.
  intros b Es w'. subst w'. unfold wstep. fold b. rewrite Es. cbn [fst snd].
  split; [reflexivity|]. destruct (h_out h) as [wr|]; cbn.
  - rewrite !jar_get_set_eq. auto.
  - auto.
Qed.

Lemma wstep_logout_lemma w req O :
  q_route req = RLogout -> q_meth req = c_logout_method cfg -> q_meth req <> PUT ->
  has_mod cfg MLogout = true ->
  let b := q_browser req in
  let w' := fst (wstep C cfg w (AReq req) O) in
  let o := snd (wstep C cfg w (AReq req) O) in
  let W := bsplit ","%byte (bjoin ","%byte (c_whitelist cfg)) in
  let j := jar_get b (w_sess w) in
  let j' := jar_get b (w_sess w') in
  s_users (w_st w') = s_users (w_st w) /\
  (c_wrap_remember cfg = false -> w_st w' = w_st w) /\
  (ob_resp o <> None ->
     (forall k, ahas k j' = true ->
        (bmem k W = true /\ k <> k_uid /\ k <> k_halfauth /\ k <> k_last_action) \/ k = k_flash_ok) /\
     (forall k, bmem k W = true -> k <> k_uid -> k <> k_halfauth -> k <> k_last_action -> k <> k_flash_ok ->
        alookup k j' = alookup k j) /\
     alookup k_uid j' = None /\ alookup k_halfauth j' = None /\ alookup k_last_action j' = None /\
     (c_api cfg = false -> alookup k_flash_ok j' = Some v_flash) /\
     alookup k_rm (jar_get b (w_cook w')) = None /\
     (forall k, k <> k_rm -> alookup k (jar_get b (w_cook w')) = alookup k (jar_get b (w_cook w)))) /\
  (ob_resp o = None ->
     c_api cfg = true /\ c_err_writes cfg = false /\ (exists n ek, fault_at n (o_faults O) = Some ek) /\
     w_sess w' = w_sess w /\ w_cook w' = w_cook w) /\
  (forall b', b' <> b ->
     jar_get b' (w_sess w') = jar_get b' (w_sess w) /\ jar_get b' (w_cook w') = jar_get b' (w_cook w)).
Proof.
  intros R M NP HM b w' o W j j'.
  set (E := mkEnv C cfg O req (jar_get b (w_cook w)) (jar_get b (w_sess w))).
  destruct (wrapped_route E) eqn:Wr.
  2:{ (* not wrapped: the unwrapped lemma *)
      subst w' o j'. rewrite (wstep_plain C cfg w req O Wr).
      destruct (step_logout_lemma C cfg w req O R M NP HM) as (A1 & A2 & A3 & A4).
      split; [rewrite A1; reflexivity|]. split; [intros _; exact A1|]. split; [exact A2|]. split; [exact A3|exact A4]. }
  assert (Wc : c_wrap_remember cfg = true).
  { unfold wrapped_route in Wr. apply Bool.andb_true_iff in Wr as [Wr _]. exact Wr. }
  destruct (serve_top E (init_hst (w_st w) O)) as [r h] eqn:Es.
  destruct (wstep_shape_eq w req O r h Es) as (Ob & St & Jr). fold b in Jr. fold w' in St, Jr. fold o in Ob.
  apply serve_top_inv in Es as [(Wf & _)|(_ & h1 & s2 & RM & RV & Es)]; [congruence|].
  destruct (wrapper_result E _ _ _ _ RM RV) as (Ku & _ & Ho1 & _).
  destruct (evs_wrapper E _ _ _ RM) as [(ls & lc & Sv & Cv & Fs & Fc) _].
  cbn [init_hst h_sev h_cev app] in Sv, Cv.
  rewrite serve_logout in Es by assumption.
  destruct (logout_served _ h1 _ _ Ho1 Es) as (St' & Hw & Hno).
  unfold E in Hno. cbn [with_sess e_cfg e_O] in Hno.
  split; [rewrite St, St'; exact Ku|]. split; [intros Hf; congruence|]. split; [|split].
  3: { intros b' N. apply wstep_other_browsers_lemma. exact N. }
  2: { intros Hn. rewrite Ob in Hn. apply obs_resp_none in Hn. rewrite Hn in Jr.
       destruct (Hno Hn) as (A1 & A2 & A3). destruct Jr. auto 6. }
  intros Hsome. rewrite Ob in Hsome. destruct (h_out h) as [wr|] eqn:Ho.
  2:{ exfalso. apply Hsome. apply obs_resp_none. exact Ho. }
  destruct (Hw wr eq_refl) as (tail & S1 & Ht & C1). unfold E in S1, C1, Ht. cbn [with_sess e_cfg] in S1, C1, Ht.
  rewrite Sv in S1. rewrite Cv in C1.
  destruct Jr as (Js & Jc). subst j'. rewrite Js, Jc, S1, C1. fold j.
  rewrite !apply_events_app.
  set (j1 := apply_events j ls).
  assert (Ht' : tail = [] \/ tail = [Put k_flash_ok v_flash]) by (subst tail; destruct (c_api cfg); auto).
  unfold logout_sev. cbn [with_sess e_cfg].
  rewrite <- apply_events_app.
  destruct (logout_jar_lemma j1 (c_whitelist cfg) tail Ht') as (J1 & J2).
  cbv zeta in J1, J2. fold W in J1, J2.
  split; [exact J1|]. split.
  { intros k Hk N1 N2 N3 N4. rewrite (J2 k Hk N1 N2 N3 N4). apply apply_events_wrapper_sev; assumption. }
  assert (Gone : forall k, (k = k_uid \/ k = k_halfauth \/ k = k_last_action) -> k <> k_flash_ok ->
            alookup k (apply_events j1
              ([DelAll (bjoin ","%byte (c_whitelist cfg)); Del k_uid; Del k_halfauth; Del k_last_action] ++ tail)) = None).
  { intros k Hk Nf. apply ahas_false_lookup.
    match goal with |- ?x = false => destruct x eqn:Hx; [|reflexivity] end.
    exfalso. destruct (J1 k Hx) as [(_ & N1 & N2 & N3)|Hf]; [|contradiction].
    destruct Hk as [Hk|[Hk|Hk]]; contradiction. }
  split; [apply Gone; [auto|neq_const]|].
  split; [apply Gone; [auto|neq_const]|].
  split; [apply Gone; [auto|neq_const]|].
  split.
  { intros Api. rewrite Api in Ht. subst tail. rewrite apply_events_app.
    unfold apply_events at 1. cbn [fold_left apply_event]. apply alookup_aput_eq. }
  unfold apply_events at 1 3. cbn [fold_left apply_event].
  split; [apply alookup_aremove_eq|]. intros k Nk. rewrite alookup_aremove_neq by exact Nk.
  apply apply_events_wrapper_cev; assumption.
Qed.
End WL.

(* ---- C13: a session that the wrapper logged in is half-authenticated: the 2FA-settings routes
   (all behind RequireFullAuth) refuse it, and a request whose session names nobody cannot change a
   user record through them, with or without a remember cookie ------------------------------------ *)
Definition settings_route (r : route) : bool :=
  match r with
  | RTotpSetup | RTotpQR | RTotpConfirm | RTotpRemove | RSmsSetup | RSmsConfirm | RSmsRemove
  | REmailVerify _ | REmailVerifyEnd _ | RRecoveryRegen => true
  | _ => false
  end.

Lemma gate_halfauth E mp tf fr :
  ahas k_halfauth (e_sess E) = true -> auth_middleware E mp true tf fr = (mw_fail E mp fr ;;; ret false).
Proof. intros H. unfold auth_middleware. rewrite H. reflexivity. Qed.

Lemma mw_fail_keeps_st E mp fr : rl (Rk h_st) (mw_fail E mp fr).
Proof. unfold mw_fail. rl_go; rk_side. Qed.

(* behind the full-auth gate, a half-authenticated view: the wrapped handler is not run *)
Lemma behind_halfauth E inner h :
  ahas k_halfauth (e_sess E) = true ->
  behind E true inner h = (mw_fail E true (c_unauthed (e_cfg E)) ;;; ret tt) h.
Proof.
  intros H. unfold behind. rewrite (gate_halfauth E true false _ H). unfold bind.
  destruct (mw_fail E true (c_unauthed (e_cfg E)) h) as [[[]|e|] h2]; reflexivity.
Qed.

Lemma behind_true_const E h :
  ahas k_halfauth (e_sess E) = true \/
  (h_cuser h = None /\ h_cpid h = None /\ h_out h = None /\ bempty (aget k_uid (e_sess E)) = true) ->
  exists x h2, (forall inner, behind E true inner h = (x, h2)) /\ h_st h2 = h_st h.
Proof.
  intros [H|(Hc & Hp & Ho & Hb)].
  - destruct ((mw_fail E true (c_unauthed (e_cfg E)) ;;; ret tt) h) as [x h2] eqn:Eq.
    exists x, h2. split; [intros inner; rewrite (behind_halfauth E inner h H); exact Eq|].
    assert (G : rl (Rk h_st) (mw_fail E true (c_unauthed (e_cfg E)) ;;; ret tt)).
    { apply rl_bind; [exact _|apply mw_fail_keeps_st|intros; apply rl_ret; exact _]. }
    exact (G _ _ _ Eq).
  - destruct (gate_refusal_noload_lemma E true true false (c_unauthed (e_cfg E)) h Hc Hp Ho (or_intror Hb))
      as (h2 & A & B & _).
    exists (Ok tt), h2. split; [|exact B]. intros inner. apply behind_refused. exact A.
Qed.

Lemma settings_route_table E :
  settings_route (q_route (e_req E)) = true ->
  (exists inner, route_table E = Handler (behind E true inner)) \/
  route_table E = NotFound \/ route_table E = MethodNotAllowed.
Proof.
  intros S. unfold route_table.
  destruct (q_route (e_req E)) eqn:R; try discriminate S; clear S;
    destruct (q_meth (e_req E)) eqn:M; unfold when, get_post, on_method, verified; rewrite ?M;
    repeat match goal with |- context [if ?c then _ else _] => destruct c end;
    eauto.
Qed.

Lemma serve_settings_refused E h r h' :
  settings_route (q_route (e_req E)) = true ->
  ahas k_halfauth (e_sess E) = true \/
  (h_cuser h = None /\ h_cpid h = None /\ h_out h = None /\ bempty (aget k_uid (e_sess E)) = true) ->
  serve E h = (r, h') -> h_st h' = h_st h.
Proof.
  intros S Hc Eq. unfold serve in Eq.
  destruct (settings_route_table E S) as [(inner & RT)|[RT|RT]]; rewrite RT in Eq.
  - destruct (behind_true_const E h Hc) as (x & h2 & Hb & St).
    unfold with_error_handler, try in Eq. rewrite (Hb inner) in Eq.
    destruct x as [[]|e|]; [inversion Eq; subst; exact St| |inversion Eq; subst; exact St].
    assert (G : rl (Rk h_st) (log [q_path (e_req E)] ;;;
                              (if c_err_writes (e_cfg E) then write_resp (RespStatus 500) else ret tt) ;;; @fail unit e))
      by (rl_go; rk_side).
    rewrite (G _ _ _ Eq). exact St.
  - assert (G : rl (Rk h_st) (write_resp (RespStatus 404))) by (rl_go; rk_side). exact (G _ _ _ Eq).
  - assert (G : rl (Rk h_st) (write_resp (RespStatus 405))) by (rl_go; rk_side). exact (G _ _ _ Eq).
Qed.

Lemma ahas_halfauth_view pid s : ahas k_halfauth (aput k_halfauth v_true (aput k_uid pid s)) = true.
Proof. unfold ahas. rewrite alookup_aput_eq. reflexivity. Qed.

(* the request after the wrapper logged somebody in: a settings route leaves storage as the wrapper
   left it, whatever the handler behind the gate is *)
Lemma settings_after_wrapper_login E st O h1 s2 r h' :
  remember_mw E (init_hst st O) = (Ok tt, h1) -> remembered_view (e_sess E) h1 = (Ok s2, h1) ->
  h_cpid h1 <> None -> settings_route (q_route (e_req E)) = true ->
  serve (with_sess E s2) h1 = (r, h') ->
  h_st h' = h_st h1 /\ s_users (h_st h') = s_users st /\ ahas k_halfauth s2 = true.
Proof.
  intros RM RV Hp S Eq.
  destruct (wrapper_result E st O h1 s2 RM RV) as (Ku & _ & _ & [[Hn _]|(pid & _ & -> & _)]); [congruence|].
  pose proof (ahas_halfauth_view pid (e_sess E)) as Hh.
  assert (St : h_st h' = h_st h1).
  { eapply serve_settings_refused; [|left|exact Eq]; [exact S|exact Hh]. }
  split; [exact St|]. split; [rewrite St; exact Ku|exact Hh].
Qed.

Section WS.
Variable C : crypto.
Variable cfg : config.

(* without a session identity no settings route changes any user record - wrapped or not, with or
   without a remember cookie (the cookie can only yield a half-authenticated view) *)
Lemma wstep_settings_need_session w req O :
  settings_route (q_route req) = true ->
  bempty (aget k_uid (jar_get (q_browser req) (w_sess w))) = true ->
  s_users (w_st (fst (wstep C cfg w (AReq req) O))) = s_users (w_st w).
Proof.
  intros S Hb.
  set (E := mkEnv C cfg O req (jar_get (q_browser req) (w_cook w)) (jar_get (q_browser req) (w_sess w))).
  destruct (serve_top E (init_hst (w_st w) O)) as [r h] eqn:Es.
  destruct (wstep_shape_eq C cfg w req O r h Es) as (_ & St & _). rewrite St. clear St.
  apply serve_top_inv in Es as [(_ & Es)|(_ & h1 & s2 & RM & RV & Es)].
  - assert (St : h_st h = h_st (init_hst (w_st w) O)).
    { eapply (serve_settings_refused E); [exact S| |exact Es]. right. cbn [init_hst h_cuser h_cpid h_out]. auto. }
    rewrite St. reflexivity.
  - destruct (wrapper_result E _ _ _ _ RM RV) as (Ku & Kc & Ko & [[Hp ->]|(pid & Hp & -> & _)]).
    + rewrite with_sess_same in Es.
      assert (St : h_st h = h_st h1).
      { eapply (serve_settings_refused E); [exact S| |exact Es]. right. auto. }
      rewrite St. exact Ku.
    + assert (St : h_st h = h_st h1) by (eapply serve_settings_refused; [|left|exact Es]; [exact S|apply ahas_halfauth_view]).
      rewrite St. exact Ku.
Qed.
End WS.

Lemma settings_route_reading r :
  settings_route r = true <->
  r = RTotpSetup \/ r = RTotpQR \/ r = RTotpConfirm \/ r = RTotpRemove \/ r = RSmsSetup \/ r = RSmsConfirm \/
  r = RSmsRemove \/ (exists k, r = REmailVerify k) \/ (exists k, r = REmailVerifyEnd k) \/ r = RRecoveryRegen.
Proof.
  split.
  - destruct r; try discriminate; intros _; eauto 12.
  - intros [->|[->|[->|[->|[->|[->|[->|[(k & ->)|[(k & ->)| ->]]]]]]]]]; reflexivity.
Qed.

Lemma wrapper_events E h r h' :
  remember_mw E h = (r, h') ->
  exists ls lc, h_sev h' = h_sev h ++ ls /\ h_cev h' = h_cev h ++ lc /\
    Forall (fun e => exists v, e = Put k_uid v \/ e = Put k_halfauth v) ls /\
    Forall (fun e => e = Del k_rm \/ exists v, e = Put k_rm v) lc.
Proof. intros Eq. exact (proj1 (evs_wrapper E h r h' Eq)). Qed.

Lemma wrun_reading C cfg w a orc l :
  wrun C cfg w [] = (w, []) /\
  wrun C cfg w ((a, orc) :: l) =
    (let '(w', o) := wstep C cfg w a orc in let '(w'', os) := wrun C cfg w' l in (w'', o :: os)).
Proof. split; reflexivity. Qed.
