(* C04, the tie between the pure lock machine (Model/Lock.v) and the request handlers: which
   machine operations each credential-checking request applies to which account's stored lock
   triple.  Everything here is under "no backend fault in this request" ([o_faults = []]).

   The method: a state predicate [at_ P w L h] ("the context user is w, w is what storage holds
   under P = u_pid w, nobody else's record differs from the table L"), an exact specification
   of every event hook in terms of it (a lock hook replaces w by [lock_apply w op], the others
   leave it alone, together with the value the hook returns), hence of Events.call over ANY list
   of hooks, and then a symbolic run of each handler. *)
From AB Require Import World.Handlers Proofs.EvLogic Proofs.Neutral Proofs.MonadInv Proofs.StoreLogic
  Proofs.SameView Proofs.SameView2 Proofs.NoPanic Proofs.TwoFactorProofs.
Open Scope Z_scope.

#[local] Instance dep_cuser_lw : StDep h_cuser.
Proof. intros h h' _ B. exact B. Qed.

Definition users (h : hst) : list (bytes * user) := s_users (h_st h).

(* ---- the triple of a record ------------------------------------------------------------- *)
Lemma ltriple_set u s : ltriple (set_ltriple u s) = s.
Proof. destruct s; reflexivity. Qed.
Lemma set_ltriple_set u s s' : set_ltriple (set_ltriple u s) s' = set_ltriple u s'.
Proof. destruct u; reflexivity. Qed.
Lemma set_ltriple_id u : set_ltriple u (ltriple u) = u.
Proof. destruct u; reflexivity. Qed.

Ltac skip_mod H :=
  match type of H with
  | bind (put_session _ _) _ _ = _ => unfold bind at 1, put_session at 1, modify at 1 in H
  | bind (del_session _) _ _ = _ => unfold bind at 1, del_session at 1, modify at 1 in H
  | bind (log _) _ _ = _ => unfold bind at 1, log at 1, modify at 1 in H
  end.

Section LW.
Variable E : env.
Hypothesis nofaults : o_faults (e_O E) = [].
Notation now := (o_now (e_O E)).
Notation cfg := (e_cfg E).
Notation lc := (lcfg_of E).
Notation vals := (values E).

(* the record [u] after the machine ran [ops] on its triple: every other field as it was *)
Definition lrunu (u : user) (ops : list lop) : user := set_ltriple u (lrun lc (ltriple u) ops).

Lemma lrunu_nil u : lrunu u [] = u.
Proof. unfold lrunu. simpl. apply set_ltriple_id. Qed.
Lemma lrunu_app u a b : lrunu (lrunu u a) b = lrunu u (a ++ b).
Proof. unfold lrunu. rewrite ltriple_set, set_ltriple_set. unfold lrun. rewrite fold_left_app. reflexivity. Qed.
Lemma lrunu_one u o : lrunu u [o] = lock_apply E u o.
Proof. reflexivity. Qed.
Lemma lrunu_pid u ops : u_pid (lrunu u ops) = u_pid u.
Proof. reflexivity. Qed.
Lemma ltriple_lrunu u ops : ltriple (lrunu u ops) = lrun lc (ltriple u) ops.
Proof. apply ltriple_set. Qed.

(* ---- the state predicate ------------------------------------------------------------------ *)
Definition at_ (P : bytes) (w : user) (L : list (bytes * user)) (h : hst) : Prop :=
  u_pid w = P /\ h_cuser h = Some w /\ ulookup P (users h) = Some w /\
  forall p, p <> P -> ulookup p (users h) = ulookup p L.

Lemma at_uc P w L h h' : uc h' = uc h -> at_ P w L h -> at_ P w L h'.
Proof.
  unfold uc, at_, users. intros Eq (A & B & C & D). inversion Eq as [[E1 E2]].
  rewrite E1, E2. auto.
Qed.
Lemma at_pres {A} (m : M A) P w L h r h' : pres uc m -> at_ P w L h -> m h = (r, h') -> at_ P w L h'.
Proof. intros Hp I Eq. eapply at_uc; [eapply Hp; exact Eq|exact I]. Qed.

(* a lock hook's storage effect *)
Lemma at_saved P w L h h' w' :
  at_ P w L h -> u_pid w' = P -> h_cuser h' = Some w' ->
  users h' = uput (u_pid w') w' (users h) -> at_ P w' L h'.
Proof.
  intros (A & B & C & D) Pw Cu St. unfold at_. rewrite St, Pw. repeat split; auto.
  - apply ulookup_uput_eq.
  - intros p Np. rewrite ulookup_uput_neq by exact Np. apply D. exact Np.
Qed.

(* ---- computations that always succeed (no faults) ------------------------------------------ *)
Lemma redirect_ok ro h : exists h', redirect E ro h = (Ok tt, h').
Proof.
  unfold redirect, render. destruct (c_api cfg).
  - unfold bind. rewrite (backend_nofault E nofaults). eexists; reflexivity.
  - destruct (ro_success ro), (ro_failure ro); eexists; reflexivity.
Qed.
Lemma respond_ok p d h : exists h', respond E p d h = (Ok tt, h').
Proof. unfold respond, render, bind. rewrite (backend_nofault E nofaults). eexists; reflexivity. Qed.

Lemma redirect_res ro h r h' : redirect E ro h = (r, h') -> r = Ok tt.
Proof. intros Eq. destruct (redirect_ok ro h) as (hx & Ex). congruence. Qed.
Lemma respond_res p d h r h' : respond E p d h = (r, h') -> r = Ok tt.
Proof. intros Eq. destruct (respond_ok p d h) as (hx & Ex). congruence. Qed.

Lemma current_user_ctx h w : h_cuser h = Some w -> current_user E h = (Ok (w, true), h).
Proof. intros Hc. unfold current_user, bind, get_h. rewrite Hc. reflexivity. Qed.

(* ---- the hooks, purely --------------------------------------------------------------------- *)
Definition hook_op (hk : hook) : list lop :=
  match hk with
  | HLockBefore => [LOkBefore now]
  | HLockAfterOk => [LOkAfter now]
  | HLockAfterFail => [LFail now]
  | _ => []
  end.
Definition ops_of (hs : list hook) : list lop := flat_map hook_op hs.

(* what a hook answers ("I have handled the request") when the context user is w *)
Definition hook_says (w : user) (hk : hook) (hd : bool) : bool :=
  match hk with
  | HLockBefore => is_locked E (lock_apply E w (LOkBefore now))
  | HLockAfterFail => is_locked E (lock_apply E w (LFail now))
  | HConfirmPrevent => negb (u_confirmed w)
  | HTotpHijack => negb hd && negb (bempty (u_totp w))
  | HSmsHijack => negb hd && negb (bempty (u_sms w))
  | HConfirmStart => true
  | _ => false
  end.

Fixpoint says (w : user) (hs : list hook) (hd : bool) : bool :=
  match hs with
  | [] => hd
  | hk :: r => says (lrunu w (hook_op hk)) r (hd || hook_says w hk hd)
  end.

Lemma update_locked_exact correct h w r h' :
  h_cuser h = Some w -> update_locked_state E correct h = (r, h') ->
  let u2 := lock_apply E w (if correct then LOkBefore now else LFail now) in
  r = Ok (is_locked E u2) /\ h_cuser h' = Some u2 /\ users h' = uput (u_pid u2) u2 (users h).
Proof.
  intros Hc Eq u2. unfold update_locked_state in Eq.
  unfold bind at 1 in Eq. rewrite (current_user_ctx _ _ Hc) in Eq. cbn beta iota in Eq.
  fold u2 in Eq. unfold store_back in Eq.
  unfold bind at 1 in Eq. unfold set_cuser at 1, modify at 1 in Eq.
  unfold bind at 1 in Eq. rewrite (st_save_nofault E nofaults) in Eq.
  destruct (is_locked E u2) eqn:IL; cbn [negb] in Eq.
  - match type of Eq with bind (redirect E ?ro) _ ?hh = _ =>
      destruct (redirect_ok ro hh) as (hx & Ex);
      pose proof (pres_redirect E uc ro _ _ _ Ex) as Ux end.
    unfold bind in Eq. rewrite Ex in Eq. inversion Eq; subst r h'. clear Eq.
    unfold uc in Ux. inversion Ux as [[U1 U2]]. unfold users. rewrite U1, U2. auto.
  - inversion Eq; subst r h'. auto.
Qed.

Lemma run_hook_spec hk rm hd h r h' P w L :
  at_ P w L h -> hk <> HConfirmStart -> run_hook E hk rm hd h = (r, h') ->
  at_ P (lrunu w (hook_op hk)) L h' /\
  (r = Ok (hook_says w hk hd) \/ (hk = HSmsHijack /\ bempty (u_sms w) = false /\ exists e, r = Err e)).
Proof.
  intros I Ne Eq. pose proof I as (Pw & Hc & Hs & Fr).
  assert (NL : forall hk', hook_op hk' = [] -> pres uc (run_hook E hk' rm hd) ->
               run_hook E hk' rm hd h = (r, h') -> at_ P (lrunu w (hook_op hk')) L h').
  { intros hk' Ho Hp Eq'. rewrite Ho, lrunu_nil. eapply at_pres; eauto. }
  destruct hk.
  - (* HLockBefore *)
    cbn [run_hook] in Eq. destruct (update_locked_exact true h w r h' Hc Eq) as (R & Cu & St).
    split; [|left; exact R]. cbn [hook_op]. rewrite lrunu_one. eapply at_saved; eauto.
  - (* HLockAfterOk *)
    cbn [run_hook] in Eq. unfold bind at 1 in Eq. rewrite (current_user_ctx _ _ Hc) in Eq. cbn beta iota in Eq.
    unfold store_back in Eq. unfold bind at 1 in Eq. unfold set_cuser at 1, modify at 1 in Eq.
    unfold bind at 1 in Eq. rewrite (st_save_nofault E nofaults) in Eq. inversion Eq; subst r h'. clear Eq.
    split; [|left; reflexivity]. cbn [hook_op]. rewrite lrunu_one. eapply at_saved; eauto.
  - (* HLockAfterFail *)
    cbn [run_hook] in Eq. destruct (update_locked_exact false h w r h' Hc Eq) as (R & Cu & St).
    split; [|left; exact R]. cbn [hook_op]. rewrite lrunu_one. eapply at_saved; eauto.
  - (* HConfirmPrevent *)
    split; [apply (NL HConfirmPrevent eq_refl); [unfold run_hook; pres_go|exact Eq]|]. left.
    cbn [run_hook] in Eq. unfold bind at 1 in Eq. rewrite (current_user_ctx _ _ Hc) in Eq. cbn beta iota in Eq.
    cbn [hook_says]. destruct (u_confirmed w).
    + inversion Eq; reflexivity.
    + unfold bind at 1 in Eq. unfold log at 1, modify at 1 in Eq.
      match type of Eq with bind (redirect E ?ro) _ ?hh = _ => destruct (redirect_ok ro hh) as (hx & Ex) end.
      unfold bind in Eq. rewrite Ex in Eq. inversion Eq; reflexivity.
  - exfalso. apply Ne. reflexivity.
  - (* HRememberAfter *)
    split; [apply (NL HRememberAfter eq_refl); [unfold run_hook; pres_go|exact Eq]|]. left.
    cbn [run_hook hook_says] in *. destruct (negb rm); [inversion Eq; reflexivity|].
    unfold try in Eq. rewrite (current_user_ctx _ _ Hc) in Eq. cbn beta iota in Eq.
    unfold rm_generate in Eq. unfold bind at 1 in Eq. unfold bind at 1 in Eq.
    destruct (fresh 32 h) as [[nonce| |] h1] eqn:Fr1;
      try (unfold fresh in Fr1; destruct (take_chunk 32 (h_fresh h)) as [[c t]|]; discriminate Fr1).
    unfold ret at 1 in Eq. cbn beta iota in Eq.
    unfold bind at 1 in Eq. unfold st_add_rm in Eq. rewrite (backend_nofault E nofaults) in Eq.
    inversion Eq; reflexivity.
  - (* HRememberReset *)
    split; [apply (NL HRememberReset eq_refl); [unfold run_hook; pres_go|exact Eq]|]. left.
    cbn [run_hook hook_says] in *. unfold bind at 1 in Eq. rewrite (current_user_ctx _ _ Hc) in Eq. cbn beta iota in Eq.
    unfold bind at 1 in Eq. unfold del_cookie at 1, modify at 1 in Eq.
    unfold bind at 1 in Eq. unfold log at 1, modify at 1 in Eq.
    unfold bind at 1 in Eq. unfold st_del_rm in Eq. rewrite (backend_nofault E nofaults) in Eq.
    inversion Eq; reflexivity.
  - (* HExpire *)
    split; [apply (NL HExpire eq_refl); [unfold run_hook; pres_go|exact Eq]|]. left.
    cbn [run_hook hook_says] in *. inversion Eq; reflexivity.
  - (* HTotpHijack *)
    split; [apply (NL HTotpHijack eq_refl); [unfold run_hook; pres_go|exact Eq]|]. left.
    cbn [run_hook hook_says] in *. destruct hd; [inversion Eq; reflexivity|].
    unfold bind at 1 in Eq. unfold get_h at 1 in Eq. rewrite Hc in Eq.
    destruct (bempty (u_totp w)); [inversion Eq; reflexivity|].
    unfold bind at 1 in Eq. unfold put_session at 1, modify at 1 in Eq.
    match type of Eq with bind (redirect E ?ro) _ ?hh = _ => destruct (redirect_ok ro hh) as (hx & Ex) end.
    unfold bind in Eq. rewrite Ex in Eq. inversion Eq; reflexivity.
  - (* HSmsHijack *)
    split; [apply (NL HSmsHijack eq_refl); [unfold run_hook; pres_go|exact Eq]|].
    cbn [run_hook hook_says] in *. destruct hd; [left; inversion Eq; reflexivity|].
    unfold bind at 1 in Eq. unfold get_h at 1 in Eq. rewrite Hc in Eq.
    destruct (bempty (u_sms w)) eqn:Bs; [left; inversion Eq; reflexivity|].
    unfold bind at 1 in Eq. unfold put_session at 1, modify at 1 in Eq.
    match type of Eq with _ ?hh = _ => assert (HUh : HU hh) by (unfold HU; simpl; rewrite Hc; discriminate) end.
    apply bind_inv in Eq as [(a & h1 & E1 & E2)|[(e & E1 & ->)|(E1 & ->)]].
    + destruct a as [[| |e']|].
      * match type of E2 with bind (redirect E ?ro) _ ?hh = _ => destruct (redirect_ok ro hh) as (hx & Ex) end.
        unfold bind in E2. rewrite Ex in E2. left. inversion E2; reflexivity.
      * right. split; [reflexivity|]. split; [reflexivity|]. inversion E2; eauto.
      * right. split; [reflexivity|]. split; [reflexivity|]. inversion E2; eauto.
      * match type of E2 with bind (redirect E ?ro) _ ?hh = _ => destruct (redirect_ok ro hh) as (hx & Ex) end.
        unfold bind in E2. rewrite Ex in E2. left. inversion E2; reflexivity.
    + right. split; [reflexivity|]. split; [reflexivity|]. eauto.
    + exfalso. destruct (npc_send_code E _ _ _ _ _ HUh E1) as [N _]. apply N. reflexivity.
Qed.


(* ---- Events.call over any list of hooks ---------------------------------------------------- *)
Lemma call_spec hs : forall rm hd h r h' P w L,
  at_ P w L h -> Forall benign hs -> call E hs rm hd h = (r, h') ->
  (r = Ok (says w hs hd) /\ at_ P (lrunu w (ops_of hs)) L h') \/
  ((exists e, r = Err e) /\ In HSmsHijack hs /\ bempty (u_sms w) = false /\
   exists k, at_ P (lrunu w (ops_of (firstn k hs))) L h').
Proof.
  induction hs as [|hk hs IH]; intros rm hd h r h' P w L I Fb Eq.
  - inversion Eq; subst. left. split; [reflexivity|]. cbn [ops_of flat_map]. rewrite lrunu_nil. exact I.
  - inversion Fb as [|? ? Bk Fb']; subst. cbn [call] in Eq.
    apply bind_inv in Eq as [(i & h1 & E1 & E2)|[(e & E1 & ->)|(E1 & ->)]].
    + destruct (run_hook_spec _ _ _ _ _ _ _ _ _ I Bk E1) as (I1 & [R|(_ & _ & e & R)]); [|discriminate R].
      inversion R; subst i.
      destruct (IH _ _ _ _ _ _ _ _ I1 Fb' E2) as [(R2 & I2)|(R2 & In2 & Bs & k & I2)].
      * left. split; [exact R2|]. rewrite lrunu_app in I2. exact I2.
      * right. split; [exact R2|]. split; [right; exact In2|]. split; [exact Bs|]. exists (S k).
        rewrite lrunu_app in I2. exact I2.
    + destruct (run_hook_spec _ _ _ _ _ _ _ _ _ I Bk E1) as (I1 & [R|(Hk & Bs & e' & R)]); [discriminate R|].
      right. split; [eauto|]. split; [left; exact Hk|]. split; [exact Bs|]. exists 1%nat.
      cbn [firstn ops_of flat_map]. rewrite app_nil_r. exact I1.
    + exfalso. destruct (run_hook_spec _ _ _ _ _ _ _ _ _ I Bk E1) as (_ & [R|(_ & _ & e' & R)]); discriminate R.
Qed.

(* ---- which hooks an event has ------------------------------------------------------------- *)
Lemma flat_map_nil_prefix {A B} (f : A -> list B) l k : flat_map f l = [] -> flat_map f (firstn k l) = [].
Proof.
  revert k. induction l as [|a l IH]; intros k H; destruct k; simpl; try reflexivity.
  simpl in H. apply app_eq_nil in H as [H1 H2]. rewrite H1. simpl. apply IH. exact H2.
Qed.

Lemma ops_of_app a b : ops_of (a ++ b) = ops_of a ++ ops_of b.
Proof. apply flat_map_app. Qed.

Lemma ops_of_other_mod m e : m <> MLock -> ops_of (hooks_of_mod m e) = [].
Proof. intros N. destruct m, e; try reflexivity; congruence. Qed.

Lemma ops_of_mods e l : NoDup l -> In MLock l ->
  ops_of (flat_map (fun m => hooks_of_mod m e) l) = ops_of (hooks_of_mod MLock e).
Proof.
  assert (G : forall l0, ~ In MLock l0 -> ops_of (flat_map (fun m => hooks_of_mod m e) l0) = []).
  { induction l0 as [|m l0 IH0]; intros Hn; [reflexivity|]. cbn [flat_map]. rewrite ops_of_app.
    rewrite ops_of_other_mod by (intros ->; apply Hn; left; reflexivity).
    apply IH0. intros H. apply Hn. right. exact H. }
  induction l as [|m l IH]; intros ND Hin; [destruct Hin|].
  inversion ND as [|? ? N1 N2]; subst. cbn [flat_map]. rewrite ops_of_app.
  destruct Hin as [->|Hin].
  - rewrite (G l N1). apply app_nil_r.
  - assert (m <> MLock) by (intros ->; contradiction).
    rewrite ops_of_other_mod by assumption. apply IH; assumption.
Qed.

Lemma ops_of_extras e :
  ops_of (match e with
          | EvAfterAuth => if c_expire cfg then [HExpire] else []
          | EvBeforeHijack =>
              let t := if c_totp cfg then [HTotpHijack] else [] in
              let s := if c_sms cfg then [HSmsHijack] else [] in
              if c_sms_first cfg then s ++ t else t ++ s
          | _ => []
          end) = [].
Proof. destruct e; try reflexivity; cbv zeta; destruct (c_expire cfg), (c_totp cfg), (c_sms cfg), (c_sms_first cfg); reflexivity. Qed.

(* with the lock module loaded exactly once, an event carries the machine operation of the lock
   module's handler for it, once *)
Lemma ops_of_hooks e : NoDup (c_mods cfg) -> has_mod cfg MLock = true ->
  ops_of (hooks E e) = ops_of (hooks_of_mod MLock e).
Proof.
  intros ND HM. unfold hooks. rewrite ops_of_app, ops_of_extras, app_nil_r.
  apply ops_of_mods; [exact ND|]. apply (has_mod_In E). exact HM.
Qed.

Lemma hooks_sms e : In HSmsHijack (hooks E e) -> e = EvBeforeHijack.
Proof.
  unfold hooks. rewrite in_app_iff. intros [H|H].
  - exfalso. induction (c_mods cfg) as [|m l IH]; [exact H|]. cbn [flat_map] in H.
    apply in_app_or in H as [H|H]; [|exact (IH H)].
    destruct m, e; simpl in H; intuition discriminate.
  - destruct e; try (destruct H; fail); [|reflexivity].
    destruct (c_expire cfg); simpl in H; intuition discriminate.
Qed.

Lemma mods_no_hijack l : flat_map (fun m => hooks_of_mod m EvBeforeHijack) l = [].
Proof. induction l as [|m l IH]; [reflexivity|]. cbn [flat_map]. rewrite IH. destruct m; reflexivity. Qed.

Lemma hijack_has_sms : In HSmsHijack (hooks E EvBeforeHijack) -> c_sms cfg = true.
Proof.
  unfold hooks. rewrite mods_no_hijack. cbn [app]. cbv zeta.
  destruct (c_sms cfg); [reflexivity|]. destruct (c_totp cfg), (c_sms_first cfg); simpl; intuition discriminate.
Qed.

(* ---- what each event answers ---------------------------------------------------------------- *)
Definition is_lb (hk : hook) : bool := match hk with HLockBefore => true | _ => false end.
Definition is_cp (hk : hook) : bool := match hk with HConfirmPrevent => true | _ => false end.

Lemma is_locked_okbefore w : is_locked E (lock_apply E w (LOkBefore now)) = is_locked E w.
Proof. reflexivity. Qed.

Lemma says_before hs : Forall (fun hk => hk = HLockBefore \/ hk = HConfirmPrevent) hs -> forall w hd,
  says w hs hd = hd || (existsb is_lb hs && is_locked E w) || (existsb is_cp hs && negb (u_confirmed w)).
Proof.
  induction 1 as [|hk hs [->| ->] _ IH]; intros w hd.
  - simpl. destruct hd; reflexivity.
  - cbn [says hook_op hook_says existsb is_lb is_cp]. rewrite IH, lrunu_one, !is_locked_okbefore.
    change (u_confirmed (lock_apply E w (LOkBefore now))) with (u_confirmed w).
    destruct hd, (is_locked E w), (existsb is_lb hs), (existsb is_cp hs), (u_confirmed w); reflexivity.
  - cbn [says hook_op hook_says existsb is_lb is_cp]. rewrite IH, lrunu_nil.
    destruct hd, (is_locked E w), (existsb is_lb hs), (existsb is_cp hs), (u_confirmed w); reflexivity.
Qed.

Lemma hooks_before_auth_shape :
  Forall (fun hk => hk = HLockBefore \/ hk = HConfirmPrevent) (hooks E EvBeforeAuth) /\
  existsb is_lb (hooks E EvBeforeAuth) = has_mod cfg MLock /\
  existsb is_cp (hooks E EvBeforeAuth) = has_mod cfg MConfirm.
Proof.
  unfold hooks, has_mod. rewrite app_nil_r. induction (c_mods cfg) as [|m l (IH1 & IH2 & IH3)].
  - repeat split; constructor.
  - cbn [flat_map existsb]. rewrite !existsb_app, IH2, IH3. split; [apply Forall_app; split; [|exact IH1]|].
    + destruct m; simpl; repeat apply Forall_cons; try apply Forall_nil; auto.
    + destruct m; split; reflexivity.
Qed.

(* refused before the login completes: the account is locked, or unconfirmed with confirm loaded *)
Definition blocked (w : user) : bool :=
  (has_mod cfg MLock && is_locked E w) || (has_mod cfg MConfirm && negb (u_confirmed w)).

Lemma says_before_auth w : says w (hooks E EvBeforeAuth) false = blocked w.
Proof.
  destruct hooks_before_auth_shape as (F & A & B). rewrite (says_before _ F), A, B. reflexivity.
Qed.

(* a second factor is enrolled and its module set up: the login is parked at the 2FA page *)
Definition enrolled (w : user) : bool :=
  (c_totp cfg && negb (bempty (u_totp w))) || (c_sms cfg && negb (bempty (u_sms w))).

Lemma says_before_hijack w : says w (hooks E EvBeforeHijack) false = enrolled w.
Proof.
  unfold hooks, enrolled. rewrite mods_no_hijack. cbn [app]. cbv zeta.
  destruct (c_totp cfg), (c_sms cfg), (c_sms_first cfg); cbn [app says hook_op hook_says orb andb negb];
    rewrite ?lrunu_nil; cbn [says]; destruct (bempty (u_totp w)), (bempty (u_sms w)); reflexivity.
Qed.

Lemma says_const_false hs : Forall (fun hk => forall w hd, hook_says w hk hd = false) hs ->
  forall w, says w hs false = false.
Proof.
  induction 1 as [|hk hs Hk _ IH]; intros w; [reflexivity|]. cbn [says]. rewrite Hk. apply IH.
Qed.

Lemma says_after_auth w : says w (hooks E EvAfterAuth) false = false.
Proof.
  apply says_const_false. unfold hooks. apply Forall_app. split.
  - induction (c_mods cfg) as [|m l IH]; [constructor|]. cbn [flat_map]. apply Forall_app. split; [|exact IH].
    destruct m; simpl; repeat constructor.
  - destruct (c_expire cfg); repeat constructor.
Qed.

Section Fire.
Hypothesis ND : NoDup (c_mods cfg).
Hypothesis HM : has_mod cfg MLock = true.

Lemma fire_noerr e rm h r h' P w L : e <> EvAfterRegister -> e <> EvBeforeHijack ->
  at_ P w L h -> fire E e rm h = (r, h') ->
  r = Ok (says w (hooks E e) false) /\ at_ P (lrunu w (ops_of (hooks_of_mod MLock e))) L h'.
Proof.
  intros N1 N2 I Eq. unfold fire in Eq.
  destruct (call_spec _ _ _ _ _ _ _ _ _ I (hooks_benign E e N1) Eq) as [(R & I2)|(_ & Hin & _)].
  - rewrite (ops_of_hooks e ND HM) in I2. auto.
  - exfalso. apply N2. apply hooks_sms. exact Hin.
Qed.

Lemma fire_after_fail rm h r h' P w L : at_ P w L h -> fire E EvAfterAuthFail rm h = (r, h') ->
  (exists b, r = Ok b) /\ at_ P (lock_apply E w (LFail now)) L h'.
Proof.
  intros I Eq. destruct (fire_noerr EvAfterAuthFail rm h r h' P w L) as (R & I2); try discriminate; auto.
  split; [eauto|exact I2].
Qed.

Lemma fire_before_auth rm h r h' P w L : at_ P w L h -> fire E EvBeforeAuth rm h = (r, h') ->
  r = Ok (blocked w) /\ at_ P (lock_apply E w (LOkBefore now)) L h'.
Proof.
  intros I Eq. destruct (fire_noerr EvBeforeAuth rm h r h' P w L) as (R & I2); try discriminate; auto.
  rewrite says_before_auth in R. auto.
Qed.

Lemma fire_after_auth rm h r h' P w L : at_ P w L h -> fire E EvAfterAuth rm h = (r, h') ->
  r = Ok false /\ at_ P (lock_apply E w (LOkAfter now)) L h'.
Proof.
  intros I Eq. destruct (fire_noerr EvAfterAuth rm h r h' P w L) as (R & I2); try discriminate; auto.
  rewrite says_after_auth in R. auto.
Qed.

Lemma fire_before_hijack rm h r h' P w L : at_ P w L h -> fire E EvBeforeHijack rm h = (r, h') ->
  at_ P w L h' /\ (r = Ok (enrolled w) \/ (enrolled w = true /\ exists e, r = Err e)).
Proof.
  intros I Eq. unfold fire in Eq.
  assert (Z0 : ops_of (hooks E EvBeforeHijack) = []) by (rewrite (ops_of_hooks _ ND HM); reflexivity).
  destruct (call_spec _ _ _ _ _ _ _ _ _ I (hooks_benign E EvBeforeHijack ltac:(discriminate)) Eq)
    as [(R & I2)|(R & Hin & Bs & k & I2)].
  - rewrite Z0, lrunu_nil in I2. rewrite says_before_hijack in R. auto.
  - unfold ops_of in I2. rewrite (flat_map_nil_prefix _ _ k Z0), lrunu_nil in I2.
    split; [exact I2|]. right. split; [|exact R]. apply hijack_has_sms in Hin.
    unfold enrolled. rewrite Hin, Bs. apply Bool.orb_true_r.
Qed.
End Fire.


(* ---- the statement form -------------------------------------------------------------------- *)
(* after the request (h -> h'), the record stored under P is u with the machine run over its
   lock triple - every other field of u as it was - and nobody else's record has changed *)
Definition applied (P : bytes) (u : user) (ops : list lop) (h h' : hst) : Prop :=
  ulookup P (users h') = Some (set_ltriple u (lrun lc (ltriple u) ops)) /\
  forall p, p <> P -> ulookup p (users h') = ulookup p (users h).

Lemma at_applied P u ops h h' : at_ P (lrunu u ops) (users h) h' -> applied P u ops h h'.
Proof. intros (_ & _ & A & B). split; assumption. Qed.

Lemma at_mod P w L h h1 : at_ P w L h -> uc h1 = uc h -> at_ P w L h1.
Proof. intros I Eq. eapply at_uc; eauto. Qed.

Section Handlers.
Hypothesis ND : NoDup (c_mods cfg).
Hypothesis HM : has_mod cfg MLock = true.
Notation OKB := (LOkBefore now).
Notation OKA := (LOkAfter now).
Notation FAIL := (LFail now).

(* the three phases of a login, each followed by an arbitrary continuation *)
Lemma before_part (K : M unit) rm h r h' P w L :
  at_ P w L h ->
  (handled <- fire E EvBeforeAuth rm ;; if handled then ret tt else K) h = (r, h') ->
  (blocked w = true /\ r = Ok tt /\ at_ P (lock_apply E w OKB) L h') \/
  (blocked w = false /\ exists h1, at_ P (lock_apply E w OKB) L h1 /\ K h1 = (r, h')).
Proof.
  intros I Eq.
  apply bind_inv in Eq as [(b & h1 & E1 & E2)|[(e & E1 & ->)|(E1 & ->)]];
    destruct (fire_before_auth ND HM _ _ _ _ _ _ _ I E1) as (R & I1); try discriminate R.
  inversion R; subst b. destruct (blocked w).
  - left. inversion E2; subst. auto.
  - right. split; [reflexivity|]. eauto.
Qed.

Lemma hijack_part (K : M unit) rm h r h' P w L :
  at_ P w L h ->
  (handled <- fire E EvBeforeHijack rm ;; if handled then ret tt else K) h = (r, h') ->
  (enrolled w = true /\ at_ P w L h') \/
  (enrolled w = false /\ exists h1, at_ P w L h1 /\ K h1 = (r, h')).
Proof.
  intros I Eq.
  apply bind_inv in Eq as [(b & h1 & E1 & E2)|[(e & E1 & ->)|(E1 & ->)]];
    destruct (fire_before_hijack ND HM _ _ _ _ _ _ _ I E1) as (I1 & [R|(En & e' & R)]); try discriminate R.
  - inversion R; subst b. destruct (enrolled w).
    + left. inversion E2; subst. auto.
    + right. split; [reflexivity|]. eauto.
  - left. auto.
Qed.

Lemma after_part (fin : M unit) rm h r h' P w L :
  pres uc fin -> at_ P w L h ->
  (handled <- fire E EvAfterAuth rm ;; if handled then ret tt else fin) h = (r, h') ->
  at_ P (lock_apply E w OKA) L h'.
Proof.
  intros Hp I Eq.
  apply bind_inv in Eq as [(b & h1 & E1 & E2)|[(e & E1 & ->)|(E1 & ->)]];
    destruct (fire_after_auth ND HM _ _ _ _ _ _ _ I E1) as (R & I1); try discriminate R.
  inversion R; subst b. eapply at_pres; eauto.
Qed.

Lemma fail_part (fin : M unit) h r h' P w L :
  pres uc fin -> (forall h0 r0 h0', fin h0 = (r0, h0') -> r0 = Ok tt) -> at_ P w L h ->
  (handled <- fire E EvAfterAuthFail false ;; if handled then ret tt else fin) h = (r, h') ->
  r = Ok tt /\ at_ P (lock_apply E w FAIL) L h'.
Proof.
  intros Hp Hr I Eq.
  apply bind_inv in Eq as [(b & h1 & E1 & E2)|[(e & E1 & ->)|(E1 & ->)]];
    destruct (fire_after_fail ND HM _ _ _ _ _ _ _ I E1) as ((b' & R) & I1); try discriminate R.
  inversion R; subst b'. destruct b.
  - inversion E2; subst. auto.
  - split; [eapply Hr; eauto|eapply at_pres; eauto].
Qed.

Lemma two_ops w : lock_apply E (lock_apply E w OKB) OKA = lrunu w [OKB; OKA].
Proof. rewrite <- !lrunu_one, lrunu_app. reflexivity. Qed.

Lemma log_respond_res a p d h r h' : (log a ;;; respond E p d) h = (r, h') -> r = Ok tt.
Proof. unfold bind at 1, log at 1, modify at 1. apply respond_res. Qed.
Lemma log_respond_pres a p d : pres uc (log a ;;; respond E p d).
Proof. pres_go. Qed.

(* the common tail of /login and /otp/login once the credential was accepted *)
Definition login_tail (pid : bytes) (rm : bool) : M unit :=
  handled <- fire E EvBeforeAuth rm ;;
  if handled then ret tt else
  handled <- fire E EvBeforeHijack rm ;;
  if handled then ret tt else
  log [pid] ;;;
  put_session k_uid pid ;;; del_session k_halfauth ;;;
  handled <- fire E EvAfterAuth rm ;;
  if handled then ret tt else
  redirect E (ro_follow_redir (p_login_ok_of (e_cfg E))).

Definition ok_ops (parked : bool) : list lop := if parked then [OKB] else [OKB; OKA].

Lemma login_tail_spec pid rm h r h' P w L :
  at_ P w L h -> login_tail pid rm h = (r, h') ->
  at_ P (lrunu w (ok_ops (blocked w || enrolled w))) L h'.
Proof.
  intros I Eq. unfold login_tail in Eq.
  apply before_part with (1 := I) in Eq as [(Bl & _ & I1)|(Bl & h1 & I1 & Eq)]; rewrite Bl; cbn [orb ok_ops].
  - rewrite lrunu_one. exact I1.
  - apply hijack_part with (1 := I1) in Eq as [(En & I2)|(En & h2 & I2 & Eq)];
      change (enrolled (lock_apply E w OKB)) with (enrolled w) in En; rewrite En; cbn [ok_ops].
    + rewrite lrunu_one. exact I2.
    + unfold bind at 1, log at 1, modify at 1 in Eq.
      unfold bind at 1, put_session at 1, modify at 1 in Eq.
      unfold bind at 1, del_session at 1, modify at 1 in Eq.
      rewrite <- two_ops. eapply after_part; [| |exact Eq]; [apply pres_redirect; exact _|].
      eapply at_mod; [exact I2|reflexivity].
Qed.

Section Readable.
Hypothesis Bb : q_badbody (e_req E) = false.
Hypothesis Api : c_api cfg = true -> q_meth (e_req E) <> GET.
Notation pid := (aget (pid_field E) (values E)).

Lemma at_loaded h u : keyed (h_st h) -> ulookup pid (users h) = Some u ->
  at_ pid u (users h) (loaded h <| h_cuser := Some u |>).
Proof. intros Ky Lu. split; [exact (Ky _ _ Lu)|]. split; [reflexivity|]. split; [exact Lu|reflexivity]. Qed.

(* 1. /login, wrong password: one LFail on the named account, locked or not *)
Theorem login_wrong_lemma h r h' u :
  login_post E h = (r, h') -> keyed (h_st h) ->
  ulookup pid (users h) = Some u ->
  pwcheck (e_C E) (u_password u) (aget f_password vals) = false ->
  r = Ok tt /\ applied pid u [FAIL] h h'.
Proof.
  intros Eq Ky Lu Pw. unfold users in Lu.
  rewrite (login_post_unfold E nofaults _ Bb Api), Lu, Pw in Eq. cbn [negb] in Eq.
  unfold bind at 1, set_cuser at 1, modify at 1 in Eq.
  apply fail_part with (P := pid) (w := u) (L := users h) in Eq as (R & I).
  - split; [exact R|]. apply at_applied. exact I.
  - apply log_respond_pres.
  - intros h0 r0 h0'. apply log_respond_res.
  - apply at_loaded; assumption.
Qed.

(* 2. /login, correct password *)
Theorem login_correct_lemma h r h' u :
  login_post E h = (r, h') -> keyed (h_st h) ->
  ulookup pid (users h) = Some u ->
  pwcheck (e_C E) (u_password u) (aget f_password vals) = true ->
  applied pid u (ok_ops (blocked u || enrolled u)) h h'.
Proof.
  intros Eq Ky Lu Pw. unfold users in Lu.
  rewrite (login_post_unfold E nofaults _ Bb Api), Lu, Pw in Eq. cbn [negb] in Eq.
  unfold bind at 1, set_cuser at 1, modify at 1 in Eq.
  apply at_applied. eapply (login_tail_spec pid); [|exact Eq]. apply at_loaded; assumption.
Qed.

(* 3. /otp/login *)
Definition otp_verdict (u : user) : option (option nat) :=
  otp_match (sha (e_C E) (aget f_password vals)) (split_otps (u_otps u)) 0%nat.

Lemma otp_head h u : ulookup pid (users h) = Some u ->
  otp_login_post E h =
  (match otp_verdict u with
   | None => fail ErrOther
   | Some None =>
       handled <- fire E EvAfterAuthFail false ;;
       if handled then ret tt else log [pid] ;;; respond E (bs "otplogin") d_err
   | Some (Some i) =>
       log [pid] ;;;
       let u' := u <| u_otps := join_otps (otp_remove (split_otps (u_otps u)) i) |> in
       set_cuser u' ;;; st_save (e_O E) u' ;;; login_tail pid (beqb (aget k_rm vals) v_true)
   end) (loaded h <| h_cuser := Some u |>).
Proof.
  intros Lu. unfold users in Lu. unfold otp_login_post. unfold bind at 1. rewrite (read_values_ok E h Bb Api).
  unfold try. rewrite (st_load_nofault E nofaults), Lu. fold (loaded h).
  unfold bind at 1, set_cuser at 1, modify at 1. unfold otp_verdict.
  destruct (otp_match _ _ _) as [[i|]|]; reflexivity.
Qed.

Theorem otp_wrong_lemma h r h' u :
  otp_login_post E h = (r, h') -> keyed (h_st h) ->
  ulookup pid (users h) = Some u -> otp_verdict u = Some None ->
  r = Ok tt /\ applied pid u [FAIL] h h'.
Proof.
  intros Eq Ky Lu Vd. rewrite (otp_head h u Lu), Vd in Eq.
  apply fail_part with (P := pid) (w := u) (L := users h) in Eq as (R & I).
  - split; [exact R|]. apply at_applied. exact I.
  - apply log_respond_pres.
  - intros h0 r0 h0'. apply log_respond_res.
  - apply at_loaded; assumption.
Qed.

Theorem otp_correct_lemma h r h' u i :
  otp_login_post E h = (r, h') -> keyed (h_st h) ->
  ulookup pid (users h) = Some u -> otp_verdict u = Some (Some i) ->
  applied pid (u <| u_otps := join_otps (otp_remove (split_otps (u_otps u)) i) |>)
          (ok_ops (blocked u || enrolled u)) h h'.
Proof.
  intros Eq Ky Lu Vd. rewrite (otp_head h u Lu), Vd in Eq. cbv zeta in Eq.
  unfold bind at 1, log at 1, modify at 1 in Eq.
  unfold bind at 1, set_cuser at 1, modify at 1 in Eq.
  unfold bind at 1 in Eq. rewrite (st_save_nofault E nofaults) in Eq.
  apply at_applied.
  match goal with |- at_ _ (lrunu ?u' _) _ _ =>
    change (blocked u) with (blocked u'); change (enrolled u) with (enrolled u') end.
  eapply (login_tail_spec pid); [|exact Eq].
  eapply at_saved; [apply (at_loaded h u Ky Lu)| | |]; [exact (Ky _ _ Lu)|reflexivity|reflexivity].
Qed.

(* a malformed stored one-time password list: the request errs before any hook runs *)
Theorem otp_malformed_lemma h r h' u :
  otp_login_post E h = (r, h') -> ulookup pid (users h) = Some u -> otp_verdict u = None ->
  users h' = users h.
Proof. intros Eq Lu Vd. rewrite (otp_head h u Lu), Vd in Eq. inversion Eq; reflexivity. Qed.

(* ---- the second factor --------------------------------------------------------------------- *)
(* whose code a /2fa/.../validate request checks, the request arriving with an empty context (no
   middleware in front of these routes): the logged-in user of the session if storage has him,
   otherwise the account parked in the session under [key] by the first factor *)
Definition subject (key : bytes) (us : list (bytes * user)) : option (bytes * user) :=
  let uid := aget k_uid (e_sess E) in
  match (if bempty uid then None else ulookup uid us) with
  | Some u => Some (uid, u)
  | None => let p := aget key (e_sess E) in
            if bempty p then None else
            match ulookup p us with Some u => Some (p, u) | None => None end
  end.

Lemma subject_lookup key us P u : subject key us = Some (P, u) -> ulookup P us = Some u.
Proof.
  unfold subject. destruct (bempty (aget k_uid (e_sess E))).
  - destruct (bempty (aget key (e_sess E))); [discriminate|].
    destruct (ulookup (aget key (e_sess E)) us) eqn:L; [|discriminate]. intros H; inversion H; subst. exact L.
  - destruct (ulookup (aget k_uid (e_sess E)) us) eqn:L1.
    + intros H; inversion H; subst. exact L1.
    + destruct (bempty (aget key (e_sess E))); [discriminate|].
      destruct (ulookup (aget key (e_sess E)) us) eqn:L; [|discriminate]. intros H; inversion H; subst. exact L.
Qed.

(* the second step of a login: nobody is logged in, the first factor parked P *)
Lemma subject_pending key us P u :
  aget k_uid (e_sess E) = [] -> aget key (e_sess E) = P -> bempty P = false -> ulookup P us = Some u ->
  subject key us = Some (P, u).
Proof. intros A B C D. unfold subject. rewrite A, B, C, D. reflexivity. Qed.

Lemma subject_load key h : h_cuser h = None -> h_cpid h = None ->
  exists h1, uc h1 = uc h /\
    try (current_user E) (fun r =>
          match r with
          | Err ErrUserNotFound =>
              if bempty (aget key (e_sess E)) then fail ErrUserNotFound
              else u <- st_load (e_O E) (aget key (e_sess E)) ;; ret (u, false)
          | Err e => fail e
          | Panic => panic
          | Ok x => ret x
          end) h =
    (match subject key (users h) with Some (_, u) => Ok (u, false) | None => Err ErrUserNotFound end, h1).
Proof.
  intros Hc Hp. unfold subject, try, current_user, current_user_id.
  unfold bind at 1, get_h at 1. rewrite Hc. unfold bind at 1. unfold bind at 1, get_h at 1. rewrite Hp.
  unfold ret at 1. cbv zeta.
  assert (PEND : forall h0, uc h0 = uc h -> exists h1, uc h1 = uc h /\
            (if bempty (aget key (e_sess E)) then fail ErrUserNotFound
             else u <- st_load (e_O E) (aget key (e_sess E)) ;; ret (u, false)) h0 =
            (match (if bempty (aget key (e_sess E)) then None else
                    match ulookup (aget key (e_sess E)) (users h) with Some u => Some (aget key (e_sess E), u) | None => None end)
             with Some (_, u) => Ok (u, false) | None => Err ErrUserNotFound end, h1)).
  { intros h0 U0. destruct (bempty (aget key (e_sess E))); [exists h0; split; [exact U0|reflexivity]|].
    exists (loaded h0). split; [exact U0|]. unfold bind. rewrite (st_load_nofault E nofaults).
    assert (Us : s_users (h_st h0) = users h) by (unfold uc in U0; inversion U0 as [[A1 A2]]; exact A1). rewrite Us.
    destruct (ulookup (aget key (e_sess E)) (users h)); reflexivity. }
  destruct (bempty (aget k_uid (e_sess E))).
  - unfold fail at 1. exact (PEND h eq_refl).
  - unfold bind at 1. rewrite (st_load_nofault E nofaults). fold (users h).
    destruct (ulookup (aget k_uid (e_sess E)) (users h)).
    + exists (loaded h). split; reflexivity.
    + exact (PEND (loaded h) eq_refl).
Qed.

(* TOTP.validate, purely: the record it hands on and its verdict *)
Definition totp_check (u : user) : user * option tstatus :=
  if bempty (u_totp u) then (u, None) else
  let rc := aget f_recovery_code vals in
  if negb (bempty rc) then
    match use_recovery_code E (decode_codes (u_recovery u)) rc with
    | Some rest => (u <| u_recovery := encode_codes rest |>, Some TSuccess)
    | None => (u, Some TInvalid)
    end
  else
    let raw := aget f_code vals in
    let input := trim_space raw in
    if c_onetime cfg then
      (if beqb (u_totp_last u) input then (u, Some TRepeated) else
       if negb (totp_ok E (u_totp u) raw) then (u, Some TInvalid) else
       (u <| u_totp_last := input |>, Some TSuccess))
    else
      (if negb (totp_ok E (u_totp u) raw) then (u, Some TInvalid) else (u, Some TSuccess)).

Lemma totp_check_facts u u1 st : totp_check u = (u1, st) ->
  u_pid u1 = u_pid u /\ ltriple u1 = ltriple u /\ blocked u1 = blocked u /\ (st <> Some TSuccess -> u1 = u).
Proof.
  unfold totp_check. cbv zeta. intros H.
  repeat match type of H with
         | (if ?c then _ else _) = _ => destruct c
         | match ?x with _ => _ end = _ => destruct x
         end; inversion H; subst; repeat split; auto; intros N; exfalso; apply N; reflexivity.
Qed.

Lemma totp_validate_exact h r h1 P u0 u1 st :
  h_cuser h = None -> h_cpid h = None -> keyed (h_st h) ->
  subject k_totp_pending (users h) = Some (P, u0) -> totp_check u0 = (u1, st) ->
  totp_validate E h = (r, h1) ->
  r = Ok (u1, false, st) /\ h_cuser h1 = None /\
  ((users h1 = users h /\ (u1 = u0 \/ (c_onetime cfg = true /\ st = Some TSuccess))) \/
   (users h1 = uput P u1 (users h) /\ st = Some TSuccess)).
Proof.
  intros Hc Hp Ky Sub TC Eq. unfold totp_validate in Eq.
  destruct (subject_load k_totp_pending h Hc Hp) as (h0 & U0 & Ex).
  unfold bind at 1 in Eq. rewrite Ex, Sub in Eq. cbn beta iota in Eq.
  assert (Us : users h0 = users h) by (unfold uc in U0; inversion U0 as [[A1 A2]]; exact A1).
  assert (C0 : h_cuser h0 = None) by (unfold uc in U0; inversion U0 as [[A1 A2]]; congruence).
  assert (Pk : u_pid u0 = P) by (apply Ky; apply subject_lookup in Sub; exact Sub).
  unfold totp_check in TC. cbv zeta in TC.
  destruct (bempty (u_totp u0)).
  { inversion TC; subst. inversion Eq; subst. auto 6. }
  unfold bind at 1 in Eq. rewrite (read_values_ok E h0 Bb Api) in Eq. cbv zeta in Eq.
  destruct (negb (bempty (aget f_recovery_code vals))).
  { destruct (use_recovery_code E (decode_codes (u_recovery u0)) (aget f_recovery_code vals)) as [rest|].
    - inversion TC; subst u1 st.
      unfold bind at 1, log at 1, modify at 1 in Eq. unfold store_back in Eq.
      unfold bind at 1, ret at 1 in Eq. unfold bind at 1 in Eq. rewrite (st_save_nofault E nofaults) in Eq.
      inversion Eq; subst r h1. split; [reflexivity|]. split; [exact C0|]. right. split; [|reflexivity].
      unfold users at 1. cbn [h_st s_users set]. simpl. fold (users h0). rewrite Us, Pk. reflexivity.
    - inversion TC; subst. inversion Eq; subst. auto 6. }
  destruct (c_onetime cfg).
  - destruct (beqb (u_totp_last u0) (trim_space (aget f_code vals))).
    { inversion TC; subst. inversion Eq; subst. auto 6. }
    destruct (negb (totp_ok E (u_totp u0) (aget f_code vals))).
    { inversion TC; subst. inversion Eq; subst. auto 6. }
    inversion TC; subst u1 st. unfold store_back in Eq. unfold bind at 1, ret at 1 in Eq.
    inversion Eq; subst. auto 7.
  - destruct (negb (totp_ok E (u_totp u0) (aget f_code vals))); inversion TC; subst; inversion Eq; subst; auto 6.
Qed.

Lemma at_intro P w L h :
  u_pid w = P -> h_cuser h = Some w -> ulookup P (users h) = Some w ->
  (forall p, p <> P -> ulookup p (users h) = ulookup p L) -> at_ P w L h.
Proof. unfold at_. auto. Qed.

Lemma at_after_save P w L h hx :
  u_pid w = P -> h_cuser hx = Some w -> users hx = uput P w (users h) ->
  (forall p, p <> P -> ulookup p (users h) = ulookup p L) -> at_ P w L hx.
Proof.
  intros Pk Cu St Fr. apply at_intro; auto.
  - rewrite St. apply ulookup_uput_eq.
  - intros p Np. rewrite St, ulookup_uput_neq by exact Np. apply Fr. exact Np.
Qed.


(* 3'. /2fa/totp/validate *)
Theorem totp_lemma h r h' P u0 u1 st :
  totp_validate_post E h = (r, h') -> h_cuser h = None -> h_cpid h = None -> keyed (h_st h) ->
  subject k_totp_pending (users h) = Some (P, u0) -> totp_check u0 = (u1, st) ->
  match st with
  | None => users h' = users h
  | Some TSuccess => applied P u1 (ok_ops (blocked u0)) h h'
  | Some _ => r = Ok tt /\ applied P u0 [FAIL] h h'
  end.
Proof.
  intros Eq Hc Hp Ky Sub TC. unfold totp_validate_post in Eq.
  apply bind_inv in Eq as [(x & h1 & E1 & E2)|[(e & E1 & ->)|(E1 & ->)]];
    destruct (totp_validate_exact _ _ _ _ _ _ _ Hc Hp Ky Sub TC E1) as (R & C1 & St); try discriminate R.
  inversion R; subst x. cbn beta iota in E2.
  destruct (totp_check_facts _ _ _ TC) as (Pk1 & Lt & Bl & Same).
  assert (Lk : ulookup P (users h) = Some u0) by (apply subject_lookup in Sub; exact Sub).
  assert (Pk : u_pid u0 = P) by (apply Ky; exact Lk).
  assert (FAILS : st <> Some TSuccess ->
            (set_cuser u1 ;;;
             handled <- fire E EvAfterAuthFail false ;;
             if handled then ret tt else log [u_pid u1] ;;; respond E (bs "totp2fa_validate") [(bs "errors", DOther)]) h1 = (r, h') ->
            r = Ok tt /\ applied P u0 [FAIL] h h').
  { intros Ns F. rewrite (Same Ns) in *. clear Same.
    destruct St as [(Us & _)|(_ & Hs)]; [|contradiction].
    unfold bind at 1, set_cuser at 1, modify at 1 in F.
    apply fail_part with (P := P) (w := u0) (L := users h) in F as (R2 & I).
    - split; [exact R2|]. apply at_applied. exact I.
    - apply log_respond_pres.
    - intros h0 r0 h0'. apply log_respond_res.
    - apply at_intro; [exact Pk|reflexivity| |].
      + change (ulookup P (users h1) = Some u0). rewrite Us. exact Lk.
      + intros p _. change (ulookup p (users h1) = ulookup p (users h)). rewrite Us. reflexivity. }
  destruct st as [[| |]|].
  - (* accepted *)
    rewrite <- Bl. apply at_applied.
    assert (I : exists h2, at_ P u1 (users h) h2 /\
              (handled <- fire E EvBeforeAuth false ;;
               if handled then ret tt else
               put_session k_uid (u_pid u1) ;;; put_session k_twofactor (bs "totp") ;;;
               del_session k_halfauth ;;; del_session k_totp_pending ;;; del_session k_totp_secret ;;;
               log [u_pid u1] ;;;
               handled <- fire E EvAfterAuth false ;;
               if handled then ret tt else redirect E (ro_follow_redir (p_login_ok_of (e_cfg E)))) h2 = (r, h')).
    { destruct (c_onetime cfg) eqn:OT; unfold bind at 1 in E2;
        [rewrite (st_save_nofault E nofaults) in E2|unfold ret at 1 in E2];
        unfold bind at 1, set_cuser at 1, modify at 1 in E2; (eexists; split; [|exact E2]).
      - destruct St as [(Us & _)|(Us & _)].
        + apply at_after_save with (h := h); [congruence|reflexivity| |reflexivity].
          change (uput (u_pid u1) u1 (users h1) = uput P u1 (users h)). rewrite Us. congruence.
        + apply at_after_save with (h := h1); [congruence|reflexivity| |].
          * change (uput (u_pid u1) u1 (users h1) = uput P u1 (users h1)). congruence.
          * intros p Np. rewrite Us. apply ulookup_uput_neq. exact Np.
      - destruct St as [(Us & [->|(OT' & _)])|(Us & _)]; [|congruence|].
        + apply at_intro; [exact Pk|reflexivity| |].
          * change (ulookup P (users h1) = Some u0). rewrite Us. exact Lk.
          * intros p _. change (ulookup p (users h1) = ulookup p (users h)). rewrite Us. reflexivity.
        + apply at_after_save with (h := h); [congruence|reflexivity|exact Us|reflexivity]. }
    destruct I as (h2 & I & F).
    apply before_part with (1 := I) in F as [(B1 & _ & I1)|(B1 & h3 & I1 & F)]; rewrite B1; cbn [ok_ops].
    + rewrite lrunu_one. exact I1.
    + do 6 skip_mod F. rewrite <- two_ops.
      eapply after_part; [| |exact F]; [apply pres_redirect; exact _|].
      eapply at_mod; [exact I1|reflexivity].
  - apply FAILS; [discriminate|exact E2].
  - apply FAILS; [discriminate|exact E2].
  - (* no TOTP enrolled *)
    destruct St as [(Us & _)|(_ & Hs)]; [|discriminate Hs].
    pose proof (log_respond_pres _ _ _ _ _ _ E2) as U. unfold uc in U. inversion U as [[A1 A2]].
    unfold users in *. congruence.
Qed.

(* 3''. /2fa/sms/validate.  What the validator decides, purely: None = no code was checked (the
   request asks for a new code, or the session holds no code to compare with) *)
Definition sms_check (u : user) : option (bool * user) :=
  let input := aget f_code vals in
  let rc := aget f_recovery_code vals in
  if bempty rc && bempty input then None
  else if negb (bempty rc) then
    match use_recovery_code E (decode_codes (u_recovery u)) rc with
    | Some rest => Some (true, u <| u_recovery := encode_codes rest |>)
    | None => Some (false, u)
    end
  else
    let code := aget k_sms_secret (e_sess E) in
    if bempty code then None else
    Some (beqb input code &&
          match alookup k_sms_secret_number (e_sess E) with Some sent => beqb sent (u_sms u) | None => true end, u).

Lemma sms_check_facts u b u1 : sms_check u = Some (b, u1) ->
  u_pid u1 = u_pid u /\ ltriple u1 = ltriple u /\ blocked u1 = blocked u /\ (b = false -> u1 = u).
Proof.
  unfold sms_check. cbv zeta. intros H.
  repeat match type of H with
         | (if ?c then _ else _) = _ => destruct c
         | match ?x with _ => _ end = _ => destruct x
         end; inversion H; subst; repeat split; auto; discriminate.
Qed.

Lemma sms_fail_tail h1 h r h' P u0 :
  users h1 = users h -> ulookup P (users h) = Some u0 -> u_pid u0 = P ->
  (set_cuser u0 ;;;
   handled <- fire E EvAfterAuthFail false ;;
   if handled then ret tt else
   log [u_pid u0] ;;; respond E (smspage_name SPValidate) [(bs "errors", DOther)]) h1 = (r, h') ->
  r = Ok tt /\ applied P u0 [FAIL] h h'.
Proof.
  intros Us Lk Pk F. unfold bind at 1, set_cuser at 1, modify at 1 in F.
  apply fail_part with (P := P) (w := u0) (L := users h) in F as (R2 & I).
  - split; [exact R2|]. apply at_applied. exact I.
  - apply log_respond_pres.
  - intros h0 r0 h0'. apply log_respond_res.
  - apply at_intro; [exact Pk|reflexivity| |].
    + change (ulookup P (users h1) = Some u0). rewrite Us. exact Lk.
    + intros p _. change (ulookup p (users h1) = ulookup p (users h)). rewrite Us. reflexivity.
Qed.

Lemma sms_ok_tail h1 h r h' P u1 :
  at_ P u1 (users h) (h1 <| h_cuser := Some u1 |>) ->
  (set_cuser u1 ;;;
   handled <- fire E EvBeforeAuth false ;;
   if handled then ret tt else
   put_session k_uid (u_pid u1) ;;; put_session k_twofactor (bs "sms") ;;;
   del_session k_halfauth ;;; del_session k_sms_pending ;;; del_session k_sms_secret ;;;
   del_session k_sms_secret_number ;;;
   log [u_pid u1] ;;;
   handled <- fire E EvAfterAuth false ;;
   if handled then ret tt else redirect E (ro_follow_redir (p_login_ok_of (e_cfg E)))) h1 = (r, h') ->
  applied P u1 (ok_ops (blocked u1)) h h'.
Proof.
  intros I F. unfold bind at 1, set_cuser at 1, modify at 1 in F. apply at_applied.
  apply before_part with (1 := I) in F as [(B1 & _ & I1)|(B1 & h3 & I1 & F)]; rewrite B1; cbn [ok_ops].
  - rewrite lrunu_one. exact I1.
  - do 7 skip_mod F. rewrite <- two_ops.
    eapply after_part; [| |exact F]; [apply pres_redirect; exact _|].
    eapply at_mod; [exact I1|reflexivity].
Qed.

Lemma pres_sms_send_code p u : pres uc (sms_send_code E p u).
Proof. unfold sms_send_code. pres_go; apply pres_send_code; exact _. Qed.

Theorem sms_lemma h r h' P u0 :
  sms_validator_post E SPValidate h = (r, h') -> h_cuser h = None -> h_cpid h = None -> keyed (h_st h) ->
  subject k_sms_pending (users h) = Some (P, u0) ->
  match sms_check u0 with
  | None => users h' = users h
  | Some (true, u1) => applied P u1 (ok_ops (blocked u0)) h h'
  | Some (false, _) => r = Ok tt /\ applied P u0 [FAIL] h h'
  end.
Proof.
  intros Eq Hc Hp Ky Sub. unfold sms_validator_post in Eq.
  destruct (subject_load k_sms_pending h Hc Hp) as (h0 & U0 & Ex).
  unfold bind at 1 in Eq. rewrite Ex, Sub in Eq. cbn beta iota in Eq.
  assert (Us : users h0 = users h) by (unfold uc in U0; inversion U0 as [[A1 A2]]; exact A1).
  assert (Lk : ulookup P (users h) = Some u0) by (apply subject_lookup in Sub; exact Sub).
  assert (Pk : u_pid u0 = P) by (apply Ky; exact Lk).
  unfold bind at 1 in Eq. rewrite (read_values_ok E h0 Bb Api) in Eq. cbv zeta in Eq.
  destruct (sms_check u0) as [[b u1]|] eqn:SC.
  2: { (* nothing checked *)
    unfold sms_check in SC. cbv zeta in SC.
    destruct (bempty (aget f_recovery_code vals) && bempty (aget f_code vals)).
    - apply (pres_sms_send_code SPValidate u0) in Eq. unfold uc in Eq. inversion Eq as [[A1 A2]].
      unfold users in *. congruence.
    - destruct (negb (bempty (aget f_recovery_code vals))).
      + destruct (use_recovery_code E _ _); discriminate SC.
      + destruct (bempty (aget k_sms_secret (e_sess E))) eqn:Bc; [|discriminate SC].
        unfold sms_validate_code in Eq. cbn [bempty negb] in Eq. rewrite Bc in Eq.
        unfold bind at 1, fail at 1 in Eq. inversion Eq; subst. exact Us. }
  destruct (sms_check_facts _ _ _ SC) as (Pk1 & Lt & Bl & Same).
  unfold sms_check in SC. cbv zeta in SC.
  destruct (bempty (aget f_recovery_code vals) && bempty (aget f_code vals)); [discriminate SC|].
  destruct (negb (bempty (aget f_recovery_code vals))) eqn:Nrc.
  - (* a recovery code *)
    unfold sms_validate_code in Eq. rewrite Nrc in Eq.
    destruct (use_recovery_code E (decode_codes (u_recovery u0)) (aget f_recovery_code vals)) as [rest|].
    + inversion SC; subst b u1. clear SC.
      match type of Eq with bind ?m _ ?hh = _ =>
        assert (V : exists hS, m hh = (Ok (true, u0 <| u_recovery := encode_codes rest |>), hS) /\
                    users hS = uput (u_pid u0) (u0 <| u_recovery := encode_codes rest |>) (users hh))
      end.
      { unfold bind at 1, log at 1, modify at 1. unfold store_back. unfold bind at 1, ret at 1.
        unfold bind at 1. rewrite (st_save_nofault E nofaults). eexists. split; reflexivity. }
      destruct V as (hS & V & UsS). unfold bind at 1 in Eq. rewrite V in Eq. cbn beta iota in Eq.
      rewrite <- Bl. eapply sms_ok_tail; [|exact Eq].
      apply at_after_save with (h := h); [exact Pk|reflexivity| |reflexivity].
      change (users hS = uput P (u0 <| u_recovery := encode_codes rest |>) (users h)).
      rewrite UsS, Us, Pk. reflexivity.
    + inversion SC; subst b u1. clear SC.
      unfold bind at 1, ret at 1 in Eq. cbn beta iota in Eq.
      eapply sms_fail_tail; [exact Us|exact Lk|exact Pk|exact Eq].
  - (* the texted code *)
    unfold sms_validate_code in Eq. cbn [bempty negb] in Eq.
    destruct (bempty (aget k_sms_secret (e_sess E))); [discriminate SC|].
    injection SC as Hb Hu. subst u1.
    unfold bind at 1, ret at 1 in Eq. rewrite Hb in Eq. destruct b; cbn beta iota in Eq.
    + eapply sms_ok_tail; [|exact Eq].
      apply at_intro; [exact Pk|reflexivity| |].
      * change (ulookup P (users h0) = Some u0). rewrite Us. exact Lk.
      * intros p _. change (ulookup p (users h0) = ulookup p (users h)). rewrite Us. reflexivity.
    + eapply sms_fail_tail; [exact Us|exact Lk|exact Pk|exact Eq].
Qed.

(* ---- 6. one statement for the four credential-checking requests ------------------------------ *)
Inductive verdict := Rejected | Accepted | NotChecked.

Definition login_verdict (u : user) : verdict :=
  if pwcheck (e_C E) (u_password u) (aget f_password vals) then Accepted else Rejected.
Definition otp_verdict3 (u : user) : verdict :=
  match otp_verdict u with None => NotChecked | Some None => Rejected | Some (Some _) => Accepted end.
Definition totp_verdict (u : user) : verdict :=
  match snd (totp_check u) with None => NotChecked | Some TSuccess => Accepted | Some _ => Rejected end.
Definition sms_verdict (u : user) : verdict :=
  match sms_check u with None => NotChecked | Some (true, _) => Accepted | Some (false, _) => Rejected end.

(* [checks h m P u v]: run from h, the request handler m checks a credential against the stored
   record u of account P, with verdict v *)
Inductive checks (h : hst) : M unit -> bytes -> user -> verdict -> Prop :=
| ck_login u : ulookup pid (users h) = Some u -> checks h (login_post E) pid u (login_verdict u)
| ck_otp u : ulookup pid (users h) = Some u -> checks h (otp_login_post E) pid u (otp_verdict3 u)
| ck_totp P u : h_cuser h = None -> h_cpid h = None -> subject k_totp_pending (users h) = Some (P, u) ->
    checks h (totp_validate_post E) P u (totp_verdict u)
| ck_sms P u : h_cuser h = None -> h_cpid h = None -> subject k_sms_pending (users h) = Some (P, u) ->
    checks h (sms_validator_post E SPValidate) P u (sms_verdict u).

Definition machine_step (P : bytes) (u : user) (v : verdict) (h h' : hst) : Prop :=
  exists ops u',
    u_pid u' = P /\ ltriple u' = ltriple u /\ (v <> Accepted -> u' = u) /\
    ulookup P (users h') = Some (set_ltriple u' (lrun lc (ltriple u) ops)) /\
    (forall p, p <> P -> ulookup p (users h') = ulookup p (users h)) /\
    (length ops <= 2)%nat /\ Forall (fun o => op_time o = now) ops /\
    (ops = [FAIL] <-> v = Rejected) /\
    (v = Accepted -> ops = [OKB] \/ ops = [OKB; OKA]) /\
    (v = NotChecked -> ops = []).

Lemma ms_rejected P u h h' : u_pid u = P -> applied P u [FAIL] h h' -> machine_step P u Rejected h h'.
Proof.
  intros Pk (A & B). exists [FAIL], u. repeat split; auto; try discriminate.
  all: try (simpl; lia); repeat constructor.
Qed.

Lemma ms_accepted P u u' parked h h' : u_pid u' = P -> ltriple u' = ltriple u ->
  applied P u' (ok_ops parked) h h' -> machine_step P u Accepted h h'.
Proof.
  intros Pk Lt (A & B). exists (ok_ops parked), u'. rewrite Lt in A.
  repeat split; auto; try discriminate; try (intros N; exfalso; apply N; reflexivity).
  all: try (destruct parked; simpl; lia); try (destruct parked; repeat constructor; fail);
    try (destruct parked; discriminate); try (intros _; destruct parked; auto; fail).
Qed.

Lemma ms_unchecked P u h h' : u_pid u = P -> ulookup P (users h) = Some u -> users h' = users h ->
  machine_step P u NotChecked h h'.
Proof.
  intros Pk Lk Us. exists [], u. rewrite Us. cbn [lrun fold_left]. rewrite set_ltriple_id.
  repeat split; auto; try discriminate. all: try (simpl; lia).
Qed.

Theorem request_applies_machine_lemma h m P u v r h' :
  keyed (h_st h) -> checks h m P u v -> m h = (r, h') -> machine_step P u v h h'.
Proof.
  intros Ky Ck Eq. destruct Ck as [u Lu|u Lu|P u Hc Hp Sub|P u Hc Hp Sub].
  - pose proof (Ky _ _ Lu) as Pk. unfold login_verdict.
    destruct (pwcheck (e_C E) (u_password u) (aget f_password vals)) eqn:Pw.
    + eapply ms_accepted; [exact Pk|reflexivity|]. eapply login_correct_lemma; eauto.
    + apply ms_rejected; [exact Pk|]. eapply login_wrong_lemma; eauto.
  - pose proof (Ky _ _ Lu) as Pk. unfold otp_verdict3.
    destruct (otp_verdict u) as [[i|]|] eqn:Vd.
    + eapply ms_accepted; [| |eapply otp_correct_lemma; eauto]; [exact Pk|reflexivity].
    + apply ms_rejected; [exact Pk|]. eapply otp_wrong_lemma; eauto.
    + apply ms_unchecked; [exact Pk|exact Lu|]. eapply otp_malformed_lemma; eauto.
  - pose proof (subject_lookup _ _ _ _ Sub) as Lu. pose proof (Ky _ _ Lu) as Pk. unfold totp_verdict.
    destruct (totp_check u) as [u1 st] eqn:TC. cbn [snd].
    pose proof (totp_lemma _ _ _ _ _ _ _ Eq Hc Hp Ky Sub TC) as T.
    destruct (totp_check_facts _ _ _ TC) as (Pk1 & Lt & _ & _).
    destruct st as [[| |]|].
    + eapply ms_accepted; [| |exact T]; congruence.
    + apply ms_rejected; [exact Pk|apply T].
    + apply ms_rejected; [exact Pk|apply T].
    + apply ms_unchecked; assumption.
  - pose proof (subject_lookup _ _ _ _ Sub) as Lu. pose proof (Ky _ _ Lu) as Pk. unfold sms_verdict.
    pose proof (sms_lemma _ _ _ _ _ Eq Hc Hp Ky Sub) as T.
    destruct (sms_check u) as [[b u1]|] eqn:SC.
    + destruct (sms_check_facts _ _ _ SC) as (Pk1 & Lt & _ & _). destruct b.
      * eapply ms_accepted; [| |exact T]; congruence.
      * apply ms_rejected; [exact Pk|apply T].
    + apply ms_unchecked; assumption.
Qed.

(* ---- corollaries in the words of the property ------------------------------------------------ *)
(* a correct password on an account that is not locked, is confirmed (if confirm is loaded) and
   has no second factor: LOkBefore then LOkAfter - the count restarts at 0 *)
Theorem login_correct_full_lemma h r h' u :
  login_post E h = (r, h') -> keyed (h_st h) ->
  ulookup pid (users h) = Some u ->
  pwcheck (e_C E) (u_password u) (aget f_password vals) = true ->
  is_locked E u = false -> (has_mod cfg MConfirm = true -> u_confirmed u = true) -> enrolled u = false ->
  ulookup pid (users h') = Some (set_ltriple u (lstep lc (lstep lc (ltriple u) OKB) OKA)) /\
  (forall p, p <> pid -> ulookup p (users h') = ulookup p (users h)).
Proof.
  intros Eq Ky Lu Pw Il Cf En. pose proof (login_correct_lemma _ _ _ _ Eq Ky Lu Pw) as A.
  assert (Bl : blocked u = false).
  { unfold blocked. rewrite Il, Bool.andb_false_r. destruct (has_mod cfg MConfirm); [|reflexivity].
    rewrite (Cf eq_refl). reflexivity. }
  rewrite Bl, En in A. exact A.
Qed.

(* the same with a second factor enrolled: the login is parked, only LOkBefore is applied *)
Theorem login_correct_parked_lemma h r h' u :
  login_post E h = (r, h') -> keyed (h_st h) ->
  ulookup pid (users h) = Some u ->
  pwcheck (e_C E) (u_password u) (aget f_password vals) = true ->
  enrolled u = true ->
  ulookup pid (users h') = Some (set_ltriple u (lstep lc (ltriple u) OKB)) /\
  (forall p, p <> pid -> ulookup p (users h') = ulookup p (users h)).
Proof.
  intros Eq Ky Lu Pw En. pose proof (login_correct_lemma _ _ _ _ Eq Ky Lu Pw) as A.
  rewrite En, Bool.orb_true_r in A. exact A.
Qed.

(* a correct password never counts as a failure and never locks: whatever else holds of the account,
   the stored count afterwards is the old one or 0, the lock instant is the old one *)
Theorem login_correct_never_counts_lemma h r h' u :
  login_post E h = (r, h') -> keyed (h_st h) ->
  ulookup pid (users h) = Some u ->
  pwcheck (e_C E) (u_password u) (aget f_password vals) = true ->
  exists u', ulookup pid (users h') = Some u' /\
    u_attempts u' = (if blocked u || enrolled u then u_attempts u else 0) /\
    u_locked u' = u_locked u.
Proof.
  intros Eq Ky Lu Pw. destruct (login_correct_lemma _ _ _ _ Eq Ky Lu Pw) as (A & _).
  eexists. split; [exact A|]. destruct (blocked u || enrolled u); split; reflexivity.
Qed.


(* a wrong password on an account that is already locked: the attempt still counts, and the
   account stays locked *)
Theorem login_locked_wrong_lemma h r h' u :
  login_post E h = (r, h') -> keyed (h_st h) ->
  ulookup pid (users h) = Some u ->
  pwcheck (e_C E) (u_password u) (aget f_password vals) = false ->
  now < u_locked u -> 0 < c_lock_duration cfg ->
  exists u', ulookup pid (users h') = Some u' /\
    ltriple u' = lstep lc (ltriple u) FAIL /\ is_locked E u' = true.
Proof.
  intros Eq Ky Lu Pw Lk Hd. destruct (login_wrong_lemma _ _ _ _ Eq Ky Lu Pw) as (_ & A & _).
  eexists. split; [exact A|]. split; [apply ltriple_set|]. exact (fail_keeps_locked E u Hd Lk).
Qed.

End Readable.

(* ---- the two other requests that fire the auth events: password recovery, OAuth2 callback ------ *)
Lemma fire_bind {B} e rm (K : bool -> M B) h r h' P w L :
  e <> EvAfterRegister -> e <> EvBeforeHijack -> at_ P w L h ->
  (handled <- fire E e rm ;; K handled) h = (r, h') ->
  exists b h1, at_ P (lrunu w (ops_of (hooks_of_mod MLock e))) L h1 /\ K b h1 = (r, h').
Proof.
  intros N1 N2 I Eq.
  apply bind_inv in Eq as [(b & h1 & E1 & E2)|[(e' & E1 & ->)|(E1 & ->)]];
    destruct (fire_noerr ND HM e rm _ _ _ _ _ _ N1 N2 I E1) as (R & I1); try discriminate R.
  eauto.
Qed.

Lemma left_by_pres {A} (m : M A) hX h r h' :
  pres uc m -> users hX = users h -> m hX = (r, h') -> users h' = users h.
Proof.
  intros Hp Us Eq. apply Hp in Eq. unfold uc in Eq. inversion Eq as [[A1 A2]]. unfold users in *. congruence.
Qed.

Lemma new_oauth2_exact pid blank hX r h1 :
  try (backend (e_O E) KNewOAuth2 (fun h =>
         match ulookup pid (s_users (h_st h)) with Some u => (Ok u, h) | None => (Ok blank, h) end))
      (fun r => match r with Ok u => ret u | Err _ => fail ErrOther | Panic => panic end) hX = (r, h1) ->
  r = Ok (match ulookup pid (users hX) with Some u => u | None => blank end) /\ uc h1 = uc hX.
Proof.
  unfold try. rewrite (backend_nofault E nofaults). unfold users. cbn beta. cbn [h_st set].
  destruct (ulookup pid (s_users (h_st hX))); intros Eq; inversion Eq; split; reflexivity.
Qed.

(* the OAuth2 callback: Before(EventOAuth2) is the lock module's LOkBefore on the provider account
   (created on the spot if new); no event of this flow ever applies LOkAfter or LFail *)
Theorem oauth2_end_lemma prov h r h' :
  oauth2_end E prov h = (r, h') -> keyed (h_st h) ->
  let pa := o_provider (e_O E) in
  let opid := make_oauth2_pid prov (pa_uid pa) in
  let u0 := match ulookup opid (users h) with
            | Some u => u
            | None => blank_user <| u_pid := opid |> <| u_ouid := pa_uid pa |> <| u_oprov := prov |>
                                 <| u_email := pa_email pa |> <| u_confirmed := true |>
                                 <| u_last := zero_time |> <| u_locked := zero_time |>
                                 <| u_rexp := zero_time |> <| u_oexp := zero_time |>
            end in
  let u := u0 <| u_oprov := prov |> <| u_otoken := pa_token pa |> <| u_oexp := pa_expiry pa |>
              <| u_orefresh := (if bempty (pa_refresh pa) then u_orefresh u0 else pa_refresh pa) |> in
  users h' = users h \/ applied opid u [OKB] h h'.
Proof.
  intros Eq Ky pa opid u0 u. unfold oauth2_end in Eq.
  unfold bind at 1, log at 1, modify at 1 in Eq.
  destruct (negb (bmem prov (c_providers cfg))); [left; inversion Eq; reflexivity|].
  destruct (alookup k_oauth_state (e_sess E)) as [want|]; [|left; inversion Eq; reflexivity].
  destruct (negb (beqb (form_value E f_state) want)); [left; inversion Eq; reflexivity|].
  cbv zeta in Eq. do 2 skip_mod Eq.
  destruct (negb (bempty (form_value E f_error))).
  { left. eapply left_by_pres; [| |exact Eq]; [pres_go|reflexivity]. }
  destruct (negb (pa_exchange_ok (o_provider (e_O E)))); [left; inversion Eq; reflexivity|].
  destruct (negb (pa_details_ok (o_provider (e_O E)))); [left; inversion Eq; reflexivity|].
  apply bind_inv in Eq as [(x & h1 & E1 & E2)|[(e & E1 & ->)|(E1 & ->)]];
    apply new_oauth2_exact in E1 as (R & U1); try discriminate R.
  inversion R; subst x. clear R.
  match type of U1 with uc h1 = uc ?hX => change (users hX) with (users h) in E2 end.
  fold pa opid in E2. fold u0 in E2. fold u in E2.
  assert (Us1 : users h1 = users h) by (unfold uc in U1; inversion U1 as [[A1 A2]]; exact A1).
  assert (Pk : u_pid u = opid).
  { change (u_pid u0 = opid). unfold u0. destruct (ulookup opid (users h)) eqn:Lk; [exact (Ky _ _ Lk)|reflexivity]. }
  unfold bind at 1 in E2. rewrite (backend_nofault E nofaults) in E2. unfold modify at 1 in E2.
  unfold bind at 1, set_cuser at 1, modify at 1 in E2.
  right. apply at_applied.
  match type of E2 with _ ?hS = _ =>
    assert (I : at_ opid u (users h) hS) end.
  { apply at_after_save with (h := h); [exact Pk|reflexivity| |reflexivity].
    change (uput (u_pid u) u (users h1) = uput opid u (users h)). rewrite Us1, Pk. reflexivity. }
  assert (N1 : EvBeforeOAuth2 <> EvAfterRegister) by discriminate.
  assert (N2 : EvBeforeOAuth2 <> EvBeforeHijack) by discriminate.
  destruct (fire_bind EvBeforeOAuth2 false _ _ _ _ _ _ _ N1 N2 I E2) as (b & h2 & I2 & E3).
  cbn [hooks_of_mod ops_of flat_map hook_op app] in I2.
  destruct b; [inversion E3; subst; exact I2|].
  do 2 skip_mod E3.
  assert (N3 : EvAfterOAuth2 <> EvAfterRegister) by discriminate.
  assert (N4 : EvAfterOAuth2 <> EvBeforeHijack) by discriminate.
  match type of E3 with _ ?hh = _ => assert (I3 : at_ opid (lrunu u [OKB]) (users h) hh)
    by (eapply at_mod; [exact I2|reflexivity]) end.
  destruct (fire_bind EvAfterOAuth2 _ _ _ _ _ _ _ _ N3 N4 I3 E3) as (b & h3 & I4 & E4).
  cbn [hooks_of_mod ops_of flat_map hook_op app] in I4. rewrite lrunu_nil in I4.
  destruct b; [inversion E4; subst; exact I4|].
  eapply at_pres; [|exact I4|exact E4]. apply pres_redirect. exact _.
Qed.
Section Readable2.
Hypothesis Bb : q_badbody (e_req E) = false.
Hypothesis Api : c_api cfg = true -> q_meth (e_req E) <> GET.

(* /recover/end: a wrong, expired or malformed token is counted against nobody; a completed reset
   is no failure either - with login-after-recovery it is a login (LOkBefore, LOkAfter) *)
Theorem recover_end_lemma h r h' :
  recover_end_post E h = (r, h') -> filed (h_st h) ->
  users h' = users h \/
  exists u pass, ulookup (u_pid u) (users h) = Some u /\
    applied (u_pid u) (u <| u_password := pass |> <| u_rsel := [] |> <| u_rver := [] |> <| u_rexp := now |>)
            (if c_recover_login cfg then ok_ops (blocked u || enrolled u) else []) h h'.
Proof.
  intros Eq Fl. unfold recover_end_post, invalid_recover_token in Eq.
  unfold bind at 1 in Eq. rewrite (read_values_ok E h Bb Api) in Eq. cbv zeta in Eq.
  destruct (negb (valid [password_rule] pw_pairs vals)).
  { left. eapply left_by_pres; [apply log_respond_pres| |exact Eq]; reflexivity. }
  destruct (b64url_dec (aget f_token vals)) as [raw|].
  2: { left. eapply left_by_pres; [apply log_respond_pres| |exact Eq]; reflexivity. }
  destruct (negb (length raw =? 64)%nat).
  { left. eapply left_by_pres; [apply log_respond_pres| |exact Eq]; reflexivity. }
  unfold try, st_load_by_rsel in Eq. rewrite (backend_nofault E nofaults) in Eq.
  cbn [h_st set] in Eq.
  match type of Eq with context [ufind ?f ?l] => destruct (ufind f l) as [u|] eqn:Uf end.
  2: { left. eapply left_by_pres; [apply log_respond_pres| |exact Eq]; reflexivity. }
  destruct (u_rexp u <? now).
  { left. eapply left_by_pres; [apply log_respond_pres| |exact Eq]; reflexivity. }
  destruct (b64std_dec (u_rver u)) as [dbv|].
  2: { left. eapply left_by_pres; [apply log_respond_pres| |exact Eq]; reflexivity. }
  destruct (negb (beqb (sha (e_C E) (half2 raw)) dbv)).
  { left. eapply left_by_pres; [apply log_respond_pres| |exact Eq]; reflexivity. }
  unfold bind at 1, set_cuser at 1, modify at 1 in Eq.
  unfold bind at 1 in Eq.
  destruct (72 <? length (aget f_password vals))%nat.
  { rewrite (backend_nofault E nofaults) in Eq. left. inversion Eq; reflexivity. }
  unfold ret at 1 in Eq. unfold bind at 1 in Eq. rewrite (backend_nofault E nofaults) in Eq.
  unfold ret at 1 in Eq. cbv zeta in Eq.
  unfold bind at 1, set_cuser at 1, modify at 1 in Eq.
  unfold bind at 1 in Eq. rewrite (st_save_nofault E nofaults) in Eq.
  right. exists u, (pwhash (e_C E) (aget f_password vals)).
  assert (Lu : ulookup (u_pid u) (users h) = Some u) by (eapply filedl_found; [exact Fl|exact Uf]).
  split; [exact Lu|]. apply at_applied.
  match type of Eq with _ ?hS = _ =>
    assert (I : at_ (u_pid u) (u <| u_password := pwhash (e_C E) (aget f_password vals) |> <| u_rsel := [] |>
                                 <| u_rver := [] |> <| u_rexp := now |>) (users h) hS)
      by (apply at_after_save with (h := h); reflexivity) end.
  assert (N1 : EvAfterRecoverEnd <> EvAfterRegister) by discriminate.
  assert (N2 : EvAfterRecoverEnd <> EvBeforeHijack) by discriminate.
  destruct (fire_bind EvAfterRecoverEnd false _ _ _ _ _ _ _ N1 N2 I Eq) as (b0 & h1 & I1 & Eq1). clear Eq. rename Eq1 into Eq.
  cbn [hooks_of_mod ops_of flat_map] in I1. rewrite lrunu_nil in I1.
  destruct (c_recover_login cfg).
  - apply before_part with (1 := I1) in Eq as [(Bl & _ & I2)|(Bl & h2 & I2 & Eq)].
    + change (blocked u = true) in Bl. rewrite Bl. cbn [orb ok_ops]. rewrite lrunu_one. exact I2.
    + change (blocked u = false) in Bl. rewrite Bl. cbn [orb].
      apply hijack_part with (1 := I2) in Eq as [(En & I3)|(En & h3 & I3 & Eq)].
      * change (enrolled u = true) in En. rewrite En. cbn [ok_ops]. rewrite lrunu_one. exact I3.
      * change (enrolled u = false) in En. rewrite En. cbn [ok_ops].
        skip_mod Eq. rewrite <- two_ops.
        eapply after_part; [| |exact Eq]; [apply pres_redirect; exact _|].
        eapply at_mod; [exact I3|reflexivity].
  - rewrite lrunu_nil. eapply at_pres; [|exact I1|exact Eq]. apply pres_redirect. exact _.
Qed.

End Readable2.
End Handlers.

End LW.

(* ---- 4. a login naming no stored account: nothing is written, whatever the backend does ------- *)
Section Unknown.
Variable E : env.
Notation pid := (aget (pid_field E) (values E)).

Ltac unknown_go Lu Eq :=
  let v := fresh "v" in let h1 := fresh "h1" in let E1 := fresh "E1" in let E2 := fresh "E2" in
  let e := fresh "e" in let Hv := fresh "Hv" in let x := fresh "x" in let h2 := fresh "h2" in
  let F1 := fresh "F1" in let F2 := fresh "F2" in let NP := fresh "NP" in let St := fresh "St" in
  let Hu := fresh "Hu" in let Np := fresh "Np" in let u := fresh "u" in let Hp := fresh "Hp" in
  apply bind_inv in Eq as [(v & h1 & E1 & E2)|[(e & E1 & ->)|(E1 & ->)]];
    destruct (read_values_spec _ _ _ _ E1) as [-> Hv]; try reflexivity;
  assert (v = values _) by (destruct Hv as [Hv|Hv]; [inversion Hv; reflexivity|discriminate Hv]); subst v;
  apply try_inv in E2 as [(x & h2 & F1 & NP & F2)|(F1 & ->)];
    destruct (st_load_spec _ _ _ _ _ F1) as (_ & _ & _ & St & _ & _ & Hu & Np); [|exfalso; apply Np; reflexivity];
  destruct x as [u|e|]; [| |exfalso; apply NP; reflexivity];
  [ specialize (Hu u eq_refl); unfold users in Lu; congruence
  | destruct e; try (inversion F2; subst; exact St);
    match type of F2 with ?m _ = _ => assert (Hp : pres h_st m) by pres_go end;
    rewrite (Hp _ _ _ F2); exact St ].

Theorem login_unknown_lemma h r h' :
  login_post E h = (r, h') -> ulookup pid (users h) = None -> h_st h' = h_st h.
Proof. intros Eq Lu. unfold login_post in Eq. unknown_go Lu Eq. Qed.

Theorem otp_unknown_lemma h r h' :
  otp_login_post E h = (r, h') -> ulookup pid (users h) = None -> h_st h' = h_st h.
Proof. intros Eq Lu. unfold otp_login_post in Eq. unknown_go Lu Eq. Qed.
End Unknown.

(* ---- request histories ------------------------------------------------------------------------ *)
Lemma lrun_concat c s (l : list (list lop)) : fold_left (lrun c) l s = lrun c s (concat l).
Proof.
  revert s. induction l as [|a l IH]; intros s; [reflexivity|].
  cbn [fold_left concat]. rewrite IH. unfold lrun. rewrite fold_left_app. reflexivity.
Qed.

(* whole request histories: each credential-checking request contributes its (<= 2) machine
   operations; the triple threaded through them is the declarative streak / lock instant *)
From AB Require Import Spec.C04 Proofs.LockProofs.

Theorem histories_refine_lemma : forall c (reqs : list (list lop)),
  let s := fold_left (lrun c) reqs l_init in
  l_count s = streak c (rev (concat reqs)) /\ l_last s = last_stamp c (rev (concat reqs)) /\
  l_locked s = locked_until c (rev (concat reqs)).
Proof. intros c reqs. cbv zeta. rewrite lrun_concat. apply c04_refines_lemma. Qed.
