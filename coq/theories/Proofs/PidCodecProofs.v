(* Proofs for the parse direction of the OAuth2 PID codec (Model/PidCodec.v, authboss.ParseOAuth2PID):
   strings.Split(pid, ";;") characterised (join2 (split2 s) = s, head inversion, segment count), then
   parse-after-make with its exact side condition, fail-closed on a uid that contains the separator,
   soundness (what parses is the canonical spelling of the pair it returns) and injectivity. *)
From AB Require Import Model.PidCodec.
From Coq Require Import Lia Arith.

(* ---------- vocabulary ---------- *)

(* the two-byte separator ";;" occurs in s *)
Definition has_sep2 (s : bytes) : Prop := exists a b, s = a ++ sep2 ++ b.
(* s ends with the byte ';' *)
Definition ends_semi (s : bytes) : Prop := exists a, s = a ++ [semi].

(* strings.Join(l, ";;") *)
Fixpoint join2 (l : list bytes) : bytes :=
  match l with
  | [] => []
  | x :: r => match r with [] => x | _ :: _ => x ++ sep2 ++ join2 r end
  end.

Definition cons_hd (x : byte) (l : list bytes) : list bytes :=
  match l with h :: t => (x :: h) :: t | [] => [[x]] end.

Definition is_cut (x y : byte) : bool := Byte.eqb x semi && Byte.eqb y semi.

Lemma is_cut_true x y : is_cut x y = true <-> x = semi /\ y = semi.
Proof.
  unfold is_cut. rewrite andb_true_iff. split.
  - intros [A B]. split; apply Byte.byte_dec_bl; assumption.
  - intros [A B]. subst. split; reflexivity.
Qed.

Lemma is_cut_false x y : is_cut x y = false <-> ~ (x = semi /\ y = semi).
Proof.
  split.
  - intros H C. apply is_cut_true in C. congruence.
  - intros H. destruct (is_cut x y) eqn:E; [|reflexivity]. apply is_cut_true in E. contradiction.
Qed.

(* ---------- split2 without the accumulator ---------- *)

Lemma split2_aux_eq acc x y r :
  split2_aux acc (x :: y :: r) =
  if is_cut x y then rev acc :: split2_aux [] r else split2_aux (x :: acc) (y :: r).
Proof. reflexivity. Qed.

Lemma split2_aux_acc : forall s acc,
  split2_aux acc s = (rev acc ++ hd [] (split2_aux [] s)) :: tl (split2_aux [] s).
Proof.
  induction s as [|x r IH]; intros acc.
  - cbn. rewrite app_nil_r. reflexivity.
  - destruct r as [|y r'].
    + reflexivity.
    + rewrite !split2_aux_eq. destruct (is_cut x y).
      * cbn [hd tl rev app]. rewrite app_nil_r. reflexivity.
      * rewrite (IH (x :: acc)), (IH [x]). cbn [hd tl rev app].
        rewrite <- app_assoc. reflexivity.
Qed.

Lemma split2_aux_nonempty : forall s acc, split2_aux acc s <> [].
Proof. intros s acc. rewrite split2_aux_acc. discriminate. Qed.

Lemma split2_nonempty : forall s, split2 s <> [].
Proof. intros s. apply split2_aux_nonempty. Qed.

Lemma split2_nil : split2 [] = [[]].
Proof. reflexivity. Qed.

Lemma split2_one x : split2 [x] = [[x]].
Proof. reflexivity. Qed.

Lemma split2_cut r : split2 (semi :: semi :: r) = [] :: split2 r.
Proof. reflexivity. Qed.

Lemma split2_nocut x y r : is_cut x y = false ->
  split2 (x :: y :: r) = cons_hd x (split2 (y :: r)).
Proof.
  intros H. unfold split2. rewrite split2_aux_eq, H.
  rewrite (split2_aux_acc (y :: r) [x]).
  destruct (split2_aux [] (y :: r)) as [|h t] eqn:E.
  - exfalso. exact (split2_aux_nonempty _ _ E).
  - reflexivity.
Qed.

(* the induction scheme that follows the scan: a cut consumes two bytes, anything else one *)
Lemma split2_ind (P : bytes -> Prop) :
  P [] -> (forall x, P [x]) ->
  (forall r, P r -> P (semi :: semi :: r)) ->
  (forall x y r, is_cut x y = false -> P (y :: r) -> P (x :: y :: r)) ->
  forall s, P s.
Proof.
  intros H0 H1 Hc Hn.
  assert (A : forall s, P s /\ forall x, P (x :: s)).
  { induction s as [|y r [IH1 IH2]].
    - split; [exact H0 | exact H1].
    - split; [apply IH2|]. intros x. destruct (is_cut x y) eqn:E.
      + apply is_cut_true in E. destruct E as [Ex Ey]. subst. apply Hc. exact IH1.
      + apply Hn; [exact E | apply IH2]. }
  intros s. apply A.
Qed.

(* ---------- join2 (split2 s) = s ---------- *)

Lemma join2_cons x l : l <> [] -> join2 (x :: l) = x ++ sep2 ++ join2 l.
Proof. destruct l; [contradiction | reflexivity]. Qed.

Lemma join2_cons_hd x l : l <> [] -> join2 (cons_hd x l) = x :: join2 l.
Proof. destruct l as [|h t]; [contradiction|]. intros _. destruct t; reflexivity. Qed.

Lemma join2_split2_lemma : forall s, join2 (split2 s) = s.
Proof.
  apply (split2_ind (fun s => join2 (split2 s) = s)).
  - reflexivity.
  - reflexivity.
  - intros r IH. rewrite split2_cut, join2_cons by apply split2_nonempty. rewrite IH. reflexivity.
  - intros x y r E IH. rewrite split2_nocut by exact E.
    rewrite join2_cons_hd by apply split2_nonempty. rewrite IH. reflexivity.
Qed.

(* ---------- occurrences of the separator ---------- *)

Lemma has_sep2_length s : has_sep2 s -> (2 <= length s)%nat.
Proof. intros [a [b E]]. subst s. rewrite !app_length. cbn. lia. Qed.

Lemma has_sep2_cons_inv x y r : has_sep2 (x :: y :: r) -> (x = semi /\ y = semi) \/ has_sep2 (y :: r).
Proof.
  intros [a [b E]]. destruct a as [|c a].
  - cbn in E. injection E as Ex Ey _. left. split; assumption.
  - cbn [app] in E. injection E as _ E. right. exists a, b. exact E.
Qed.

Lemma has_sep2_cons x s : has_sep2 s -> has_sep2 (x :: s).
Proof. intros [a [b E]]. exists (x :: a), b. subst s. reflexivity. Qed.

Lemma has_sep2_nocut x y r : is_cut x y = false -> ~ has_sep2 (y :: r) -> ~ has_sep2 (x :: y :: r).
Proof.
  intros E N H. apply has_sep2_cons_inv in H. destruct H as [H|H].
  - apply is_cut_false in E. contradiction.
  - contradiction.
Qed.

Lemma ends_semi_cons_inv x s : ends_semi (x :: s) -> (s = [] /\ x = semi) \/ ends_semi s.
Proof.
  intros [a E]. destruct a as [|c a].
  - cbn in E. injection E as Ex Es. left. split; assumption.
  - cbn [app] in E. injection E as _ E. right. exists a. exact E.
Qed.

Lemma ends_semi_cons x s : ends_semi s -> ends_semi (x :: s).
Proof. intros [a E]. exists (x :: a). subst s. reflexivity. Qed.

Lemma not_ends_semi_nil : ~ ends_semi [].
Proof. intros [a E]. destruct a; discriminate E. Qed.

Lemma not_has_sep2_nil : ~ has_sep2 [].
Proof. intros H. apply has_sep2_length in H. cbn in H. lia. Qed.

Lemma no_semi_no_sep2 s : no_semi s -> ~ has_sep2 s.
Proof.
  intros N [a [b E]]. apply N. subst s. apply in_or_app. right. left. reflexivity.
Qed.

Lemma no_semi_not_ends s : no_semi s -> ~ ends_semi s.
Proof.
  intros N [a E]. apply N. subst s. apply in_or_app. right. left. reflexivity.
Qed.

(* ---------- the scan, forwards ---------- *)

(* a string without the separator is one segment *)
Lemma split2_sepfree : forall s, ~ has_sep2 s -> split2 s = [s].
Proof.
  apply (split2_ind (fun s => ~ has_sep2 s -> split2 s = [s])).
  - reflexivity.
  - reflexivity.
  - intros r _ N. exfalso. apply N. exists [], r. reflexivity.
  - intros x y r E IH N. rewrite split2_nocut by exact E.
    rewrite IH; [reflexivity|]. intros H. apply N. apply has_sep2_cons. exact H.
Qed.

(* a prefix without the separator that does not end in ';' is cut off as the first segment *)
Lemma split2_clean_prefix : forall p r, ~ has_sep2 p -> ~ ends_semi p ->
  split2 (p ++ sep2 ++ r) = p :: split2 r.
Proof.
  induction p as [|x p IH]; intros r Ns Ne.
  - reflexivity.
  - assert (Ns' : ~ has_sep2 p) by (intros H; apply Ns; apply has_sep2_cons; exact H).
    destruct p as [|y p'].
    + (* p = [x]: x is not ';' *)
      assert (E : is_cut x semi = false).
      { apply is_cut_false. intros [Ex _]. apply Ne. exists []. subst x. reflexivity. }
      change ([x] ++ sep2 ++ r) with (x :: semi :: semi :: r).
      rewrite split2_nocut by exact E. rewrite split2_cut. reflexivity.
    + assert (E : is_cut x y = false).
      { apply is_cut_false. intros [Ex Ey]. apply Ns. exists [], p'. subst. reflexivity. }
      assert (Ne' : ~ ends_semi (y :: p')) by (intros H; apply Ne; apply ends_semi_cons; exact H).
      change ((x :: y :: p') ++ sep2 ++ r) with (x :: y :: (p' ++ sep2 ++ r)).
      rewrite split2_nocut by exact E.
      change (y :: p' ++ sep2 ++ r) with ((y :: p') ++ sep2 ++ r).
      rewrite (IH r Ns' Ne'). reflexivity.
Qed.

(* ---------- the scan, backwards: what the first segment says about the input ---------- *)

Lemma split2_head_inv : forall s g t, split2 s = g :: t ->
  (t = [] /\ s = g /\ ~ has_sep2 g) \/
  (exists r, s = g ++ sep2 ++ r /\ t = split2 r /\ ~ has_sep2 g /\ ~ ends_semi g).
Proof.
  apply (split2_ind (fun s => forall g t, split2 s = g :: t ->
    (t = [] /\ s = g /\ ~ has_sep2 g) \/
    (exists r, s = g ++ sep2 ++ r /\ t = split2 r /\ ~ has_sep2 g /\ ~ ends_semi g))).
  - intros g t H. rewrite split2_nil in H. injection H as Hg Ht. subst. left.
    split; [reflexivity|]. split; [reflexivity | exact not_has_sep2_nil].
  - intros x g t H. rewrite split2_one in H. injection H as Hg Ht. subst. left.
    split; [reflexivity|]. split; [reflexivity|]. intros C. apply has_sep2_length in C. cbn in C. lia.
  - intros r _ g t H. rewrite split2_cut in H. injection H as Hg Ht. subst. right.
    exists r. split; [reflexivity|]. split; [reflexivity|].
    split; [exact not_has_sep2_nil | exact not_ends_semi_nil].
  - intros x y r E IH g t H. rewrite split2_nocut in H by exact E.
    destruct (split2 (y :: r)) as [|g0 t0] eqn:E0; [exfalso; exact (split2_nonempty _ E0)|].
    cbn [cons_hd] in H. injection H as Hg Ht. subst g t.
    destruct (IH g0 t0 eq_refl) as [[Ht [Hs N]] | [r0 [Hs [Ht [N1 N2]]]]].
    + left. split; [exact Ht|]. split; [rewrite Hs; reflexivity|].
      rewrite <- Hs. apply has_sep2_nocut; [exact E | rewrite Hs; exact N].
    + right. exists r0. split; [rewrite Hs; reflexivity|]. split; [exact Ht|].
      assert (Hy : g0 = [] \/ exists g1, g0 = y :: g1).
      { destruct g0 as [|c g1]; [left; reflexivity|]. right. exists g1.
        cbn [app] in Hs. injection Hs as Hc _. subst c. reflexivity. }
      split.
      * destruct Hy as [Hy | [g1 Hy]]; subst g0.
        -- intros C. apply has_sep2_length in C. cbn in C. lia.
        -- apply has_sep2_nocut; [exact E | exact N1].
      * intros C. apply ends_semi_cons_inv in C. destruct C as [[Hg0 Hx] | C]; [|contradiction].
        subst g0 x. cbn in Hs. injection Hs as Hy' _. subst y. discriminate E.
Qed.

(* ---------- the number of segments ---------- *)

Lemma cons_hd_length x l : l <> [] -> length (cons_hd x l) = length l.
Proof. destruct l; [contradiction | reflexivity]. Qed.

Lemma split2_length_cons : forall s x,
  (length (split2 s) <= length (split2 (x :: s)) <= S (length (split2 s)))%nat.
Proof.
  induction s as [|y r IH]; intros x.
  - cbn. lia.
  - destruct (is_cut x y) eqn:E.
    + apply is_cut_true in E. destruct E as [Ex Ey]. subst x y.
      rewrite split2_cut. cbn [length]. specialize (IH semi). lia.
    + rewrite split2_nocut by exact E. rewrite cons_hd_length by apply split2_nonempty. lia.
Qed.

(* leftmost-first cutting loses nothing: an occurrence of the separator anywhere costs a segment *)
Lemma split2_length_sep : forall a b,
  (S (length (split2 b)) <= length (split2 (a ++ sep2 ++ b)))%nat.
Proof.
  induction a as [|x a IH]; intros b.
  - change ([] ++ sep2 ++ b) with (semi :: semi :: b). rewrite split2_cut. cbn [length]. lia.
  - change ((x :: a) ++ sep2 ++ b) with (x :: (a ++ sep2 ++ b)).
    pose proof (split2_length_cons (a ++ sep2 ++ b) x). specialize (IH b). lia.
Qed.

Lemma split2_length_pos s : (1 <= length (split2 s))%nat.
Proof. pose proof (split2_nonempty s). destruct (split2 s); [contradiction | cbn; lia]. Qed.

(* ---------- ParseOAuth2PID ---------- *)

Lemma oauth2_prefix_word : oauth2_prefix = oauth2_word ++ sep2.
Proof. reflexivity. Qed.

Lemma oauth2_word_no_semi : no_semi oauth2_word.
Proof. unfold no_semi. cbn. intros H. repeat (destruct H as [H|H]; [discriminate H|]). exact H. Qed.

Lemma split2_make_pid p u : split2 (make_pid p u) = oauth2_word :: split2 (p ++ sep2 ++ u).
Proof.
  unfold make_pid. rewrite oauth2_prefix_word, <- app_assoc.
  apply split2_clean_prefix.
  - apply no_semi_no_sep2. exact oauth2_word_no_semi.
  - apply no_semi_not_ends. exact oauth2_word_no_semi.
Qed.

(* the exact side condition for parse-after-make *)
Lemma c14_parse_make_exact_lemma : forall p u,
  parse_pid (make_pid p u) = Some (p, u) <-> (~ has_sep2 p /\ ~ ends_semi p /\ ~ has_sep2 u).
Proof.
  intros p u. unfold parse_pid. rewrite split2_make_pid. split.
  - intros H.
    destruct (split2 (p ++ sep2 ++ u)) as [|g t] eqn:E; [discriminate H|].
    destruct t as [|g' t]; [discriminate H|]. destruct t as [|g'' t]; [|discriminate H].
    destruct (beqb oauth2_word oauth2_word); [|discriminate H].
    injection H as Hg Hg'. subst g g'.
    apply split2_head_inv in E. destruct E as [[C _] | [r [Hs [Ht [N1 N2]]]]]; [discriminate C|].
    apply app_inv_head in Hs. apply app_inv_head in Hs. subst r.
    split; [exact N1|]. split; [exact N2|].
    symmetry in Ht. apply split2_head_inv in Ht.
    destruct Ht as [[_ [_ N]] | [r [_ [C _]]]]; [exact N|].
    exfalso. symmetry in C. exact (split2_nonempty _ C).
  - intros [N1 [N2 N3]].
    rewrite (split2_clean_prefix p u N1 N2), (split2_sepfree u N3).
    rewrite beqb_refl. reflexivity.
Qed.

Lemma c14_parse_make_sharp_lemma : forall p u, ~ has_sep2 p -> ~ ends_semi p -> ~ has_sep2 u ->
  parse_pid (make_pid p u) = Some (p, u).
Proof. intros p u N1 N2 N3. apply c14_parse_make_exact_lemma. auto. Qed.

Lemma c14_parse_make_lemma : forall p u, no_semi p -> no_semi u ->
  parse_pid (make_pid p u) = Some (p, u).
Proof.
  intros p u Hp Hu. apply c14_parse_make_sharp_lemma.
  - apply no_semi_no_sep2; exact Hp.
  - apply no_semi_not_ends; exact Hp.
  - apply no_semi_no_sep2; exact Hu.
Qed.

(* fail closed, for EVERY provider name: a uid that contains the separator gives at least four segments *)
Lemma c14_parse_refuses_extra_separator_lemma : forall p u1 u2,
  parse_pid (make_pid p (u1 ++ sep2 ++ u2)) = None.
Proof.
  intros p u1 u2. unfold parse_pid. rewrite split2_make_pid.
  pose proof (split2_length_sep p (u1 ++ sep2 ++ u2)) as L1.
  pose proof (split2_length_sep u1 u2) as L2.
  pose proof (split2_length_pos u2) as L3.
  destruct (split2 (p ++ sep2 ++ u1 ++ sep2 ++ u2)) as [|g1 [|g2 [|g3 t]]]; cbn [length] in L1; try lia.
  reflexivity.
Qed.

Lemma c14_parse_sound_lemma : forall s p u, parse_pid s = Some (p, u) -> s = make_pid p u.
Proof.
  intros s p u H. unfold parse_pid in H.
  pose proof (join2_split2_lemma s) as J.
  destruct (split2 s) as [|a [|p' [|u' [|x t]]]]; try discriminate H.
  destruct (beqb a oauth2_word) eqn:E; [|discriminate H].
  apply beqb_eq in E. injection H as Hp Hu. subst a p' u'.
  rewrite <- J. unfold make_pid. rewrite oauth2_prefix_word, <- app_assoc. reflexivity.
Qed.

Lemma c14_parse_inj_lemma : forall s1 s2 x, parse_pid s1 = Some x -> parse_pid s2 = Some x -> s1 = s2.
Proof.
  intros s1 s2 [p u] H1 H2.
  apply c14_parse_sound_lemma in H1. apply c14_parse_sound_lemma in H2. congruence.
Qed.

Lemma bprefix_app : forall a b, bprefix a (a ++ b) = true.
Proof.
  induction a as [|x a IH]; intros b; [reflexivity|].
  cbn [app bprefix]. rewrite IH, (Byte.byte_dec_lb eq_refl). reflexivity.
Qed.

Lemma c14_parse_needs_prefix_lemma : forall s x, parse_pid s = Some x -> bprefix oauth2_prefix s = true.
Proof.
  intros s [p u] H. apply c14_parse_sound_lemma in H. subst s. unfold make_pid. apply bprefix_app.
Qed.

(* whatever parses has a provider segment that passes the sharp condition: parse and make are mutually inverse
   exactly on the pairs that satisfy it *)
Lemma c14_parse_range_lemma : forall s p u, parse_pid s = Some (p, u) ->
  ~ has_sep2 p /\ ~ ends_semi p /\ ~ has_sep2 u.
Proof.
  intros s p u H. pose proof (c14_parse_sound_lemma s p u H) as E. subst s.
  apply c14_parse_make_exact_lemma. exact H.
Qed.

(* the sharp condition is strictly weaker than "no ';' at all" in use: a uid may start or end with ';',
   a provider name may contain single ';' bytes *)
Lemma c14_sharp_examples_lemma :
  parse_pid (make_pid (list_byte_of_string "a;b"%string) (list_byte_of_string ";x;y;"%string))
    = Some (list_byte_of_string "a;b"%string, list_byte_of_string ";x;y;"%string) /\
  (* a provider name ending in ';' is mis-split, not refused: the pair that comes back is another one *)
  parse_pid (make_pid (list_byte_of_string "a;"%string) (list_byte_of_string "x"%string))
    = Some (list_byte_of_string "a"%string, list_byte_of_string ";x"%string).
Proof. split; vm_compute; reflexivity. Qed.
