(* Credential guards, continued (same pattern as Guards.v / Guards2.v): password recovery with
   login, the OAuth2 callback, and the two second-factor validation pages. *)
From AB Require Import World.Handlers Proofs.EvLogic Proofs.Neutral Proofs.HandlerEvents Proofs.MonadInv Proofs.Guards
  Proofs.StoreLogic.
Open Scope Z_scope.

Ltac neutral_tail :=
  apply guarded_of_neutral;
  repeat (unfold_derived; cbn beta iota; first [apply neutral_fire | evs_step]); try side.

(* [guarded] is closed under sequencing; the continuation may use what the head returned
   from the state it started in *)
Lemma guarded_bind G {A B} (m : M A) (f : A -> M B) h :
  guarded G m h -> (forall a h1, m h = (Ok a, h1) -> guarded G (f a) h1) -> guarded G (bind m f) h.
Proof.
  intros Hm Hf r h' Eq. apply bind_inv in Eq as [(a & h1 & E1 & E2)|[(e & E1 & ->)|(E1 & ->)]].
  - destruct (Hm _ _ E1) as (l1 & c1 & S1 & C1 & F1). destruct (Hf a h1 E1 _ _ E2) as (l2 & c2 & S2 & C2 & F2).
    exists (l1 ++ l2), (c1 ++ c2). rewrite S2, S1, C2, C1, !app_assoc. repeat split; auto. apply Forall_app; auto.
  - eapply Hm; eauto.
  - eapply Hm; eauto.
Qed.

Lemma bind_ok_inv {A B} (m : M A) (f : A -> M B) h b h' :
  bind m f h = (Ok b, h') -> exists a h1, m h = (Ok a, h1) /\ f a h1 = (Ok b, h').
Proof.
  intros Eq. apply bind_inv in Eq as [(a & h1 & E1 & E2)|[(e & E1 & D)|(E1 & D)]]; try discriminate D. eauto.
Qed.

Section G3.
Variable E : env.
Notation C := (e_C E).
Notation vals := (values E).

Lemma st_load_by_rsel_sev sel h r h' :
  st_load_by_rsel (e_O E) sel h = (r, h') -> h_sev h' = h_sev h /\ h_cev h' = h_cev h.
Proof.
  unfold st_load_by_rsel. intros Eq.
  destruct (backend_inv _ _ _ _ _ _ Eq) as [(e & -> & A1 & A2 & _)|(h1 & A1 & A2 & _ & _ & _ & _ & _ & Eb)].
  - auto.
  - destruct (ufind _ _); inversion Eb; subst; auto.
Qed.

(* ---- /recover/end: the session is written only when logging in after recovery is configured,
   and for the user whose stored selector/verifier pair the submitted token matches, unexpired ---- *)
Definition g_recover (st : storage) (U : bytes) : Prop :=
  c_recover_login (e_cfg E) = true /\
  exists raw u,
    b64url_dec (aget f_token vals) = Some raw /\ length raw = 64%nat /\
    ufind (fun u => beqb (u_rsel u) (selector_of E raw)) (s_users st) = Some u /\
    ~ (u_rexp u < o_now (e_O E)) /\
    b64std_dec (u_rver u) = Some (sha C (half2 raw)) /\
    U = u_pid u.

Lemma recover_end_post_guard h : guarded (g_recover (h_st h)) (recover_end_post E) h.
Proof.
  intros r h' Eq. unfold recover_end_post in Eq.
  apply bind_inv in Eq as [(v & h1 & E1 & E2)|[(e & E1 & ->)|(E1 & ->)]];
    apply read_values_spec in E1 as [-> [Hv|Hv]]; try discriminate Hv; try apply guarded_nil.
  inversion Hv; subst v; clear Hv. cbv zeta in E2.
  destruct (negb (valid [password_rule] pw_pairs vals)).
  { revert E2. apply (guarded_same_sev _ _ h h eq_refl eq_refl). neutral_tail. }
  destruct (b64url_dec (aget f_token vals)) as [raw|] eqn:Dc.
  2:{ revert E2. apply (guarded_same_sev _ _ h h eq_refl eq_refl). unfold invalid_recover_token. neutral_tail. }
  destruct (Nat.eqb (length raw) 64) eqn:Ln; cbn [negb] in E2.
  2:{ revert E2. apply (guarded_same_sev _ _ h h eq_refl eq_refl). unfold invalid_recover_token. neutral_tail. }
  apply Nat.eqb_eq in Ln.
  apply try_inv in E2 as [(x & h2 & L & NP & K)|(L & ->)].
  2:{ apply st_load_by_rsel_spec in L. destruct L as (_ & _ & N & _). congruence. }
  pose proof (st_load_by_rsel_sev _ _ _ _ L) as (S1 & S2).
  pose proof (st_load_by_rsel_spec _ _ _ _ _ L) as (S4 & _ & _ & Hu).
  revert K. apply (guarded_same_sev _ _ h2 h S1 S2).
  destruct x as [u|e|]; [|destruct e|congruence]; unfold invalid_recover_token; try (neutral_tail; fail).
  specialize (Hu u eq_refl).
  destruct (u_rexp u <? o_now (e_O E)) eqn:Ex; [neutral_tail|].
  apply Z.ltb_ge in Ex.
  destruct (b64std_dec (u_rver u)) as [dbv|] eqn:Dv; [|neutral_tail].
  destruct (beqb (sha C (half2 raw)) dbv) eqn:Vf; cbn [negb]; [|neutral_tail].
  apply beqb_eq in Vf. subst dbv.
  destruct (c_recover_login (e_cfg E)) eqn:RL.
  - assert (G : g_recover (h_st h) (u_pid u)).
    { split; [exact RL|]. exists raw, u. repeat split; auto. lia. }
    apply guarded_of_evs. ggo.
  - neutral_tail.
Qed.

(* ---- /oauth2/callback/<prov>: the session is written only when the state parameter equals the
   one parked in the session, the provider reported no error, the code exchange and the details
   call succeeded; the identity written is the provider-scoped pid of the record the storer handed
   back for the provider's uid ---- *)
Definition g_oauth2 (prov : bytes) (st : storage) (U : bytes) : Prop :=
  (exists st0, alookup k_oauth_state (e_sess E) = Some st0 /\ form_value E f_state = st0) /\
  bempty (form_value E f_error) = true /\
  pa_exchange_ok (o_provider (e_O E)) = true /\ pa_details_ok (o_provider (e_O E)) = true /\
  exists u0, U = make_oauth2_pid prov (u_ouid u0) /\
    (ulookup (make_oauth2_pid prov (pa_uid (o_provider (e_O E)))) (s_users st) = Some u0 \/
     u_ouid u0 = pa_uid (o_provider (e_O E))).

Lemma oauth2_end_guard prov h : guarded (g_oauth2 prov (h_st h)) (oauth2_end E prov) h.
Proof.
  unfold oauth2_end.
  apply guarded_bind; [neutral_tail|intros [] h1 H1].
  assert (St1 : h_st h1 = h_st h) by (inversion H1; reflexivity). clear H1.
  destruct (bmem prov (c_providers (e_cfg E))); cbn [negb]; [|neutral_tail].
  destruct (alookup k_oauth_state (e_sess E)) as [want|] eqn:Ws; [|neutral_tail].
  destruct (beqb (form_value E f_state) want) eqn:Bs; cbn [negb]; [|neutral_tail].
  apply beqb_eq in Bs. cbv zeta.
  apply guarded_bind; [neutral_tail|intros [] h2 H2].
  assert (St2 : h_st h2 = h_st h) by (inversion H2; subst; exact St1). clear H2.
  apply guarded_bind; [neutral_tail|intros [] h3 H3].
  assert (St3 : h_st h3 = h_st h) by (inversion H3; subst; exact St2). clear H3.
  destruct (bempty (form_value E f_error)) eqn:Be; cbn [negb]; [|neutral_tail].
  destruct (pa_exchange_ok (o_provider (e_O E))) eqn:Xo; cbn [negb]; [|neutral_tail].
  destruct (pa_details_ok (o_provider (e_O E))) eqn:Do; cbn [negb]; [|neutral_tail].
  apply guarded_bind; [neutral_tail|intros u0 h4 H4].
  assert (Hu0 : ulookup (make_oauth2_pid prov (pa_uid (o_provider (e_O E)))) (s_users (h_st h)) = Some u0 \/
                u_ouid u0 = pa_uid (o_provider (e_O E))).
  { apply try_inv in H4 as [(x & k1 & L & NP & K)|(L & D)]; [|discriminate D].
    destruct x as [u|e|]; [|discriminate K|congruence]. inversion K; subst u k1; clear K.
    destruct (backend_inv _ _ _ _ _ _ L) as [(e & D & _)|(k2 & _ & _ & _ & A4 & _ & _ & _ & Eb)]; [discriminate D|].
    rewrite A4, St3 in Eb.
    destruct (ulookup _ (s_users (h_st h))) as [u1|]; inversion Eb; subst; [left; reflexivity|right; reflexivity]. }
  clear H4.
  assert (G : g_oauth2 prov (h_st h) (make_oauth2_pid prov (u_ouid u0))).
  { split; [exists want; auto|]. repeat split; auto. exists u0. auto. }
  apply guarded_of_evs. ggo.
Qed.

(* ---- the second-factor validation pages ---------------------------------------------------- *)
(* where CurrentUser looks: the context object, else the pid cached in the context, else the
   session's uid; the validators fall back to the pid parked under the pending key *)
Definition cur_pid (h : hst) : bytes :=
  match h_cpid h with Some p => p | None => aget k_uid (e_sess E) end.

Definition user_source (pk : bytes) (h : hst) (u : user) : Prop :=
  h_cuser h = Some u \/
  ulookup (cur_pid h) (s_users (h_st h)) = Some u \/
  ulookup (aget pk (e_sess E)) (s_users (h_st h)) = Some u.

Lemma current_user_spec h x h0 :
  current_user E h = (x, h0) ->
  h_sev h0 = h_sev h /\ h_cev h0 = h_cev h /\ h_st h0 = h_st h /\ h_cuser h0 = h_cuser h /\ h_cpid h0 = h_cpid h /\
  x <> Panic /\
  (forall u sh, x = Ok (u, sh) ->
     (sh = true /\ h_cuser h = Some u) \/ (sh = false /\ ulookup (cur_pid h) (s_users (h_st h)) = Some u)).
Proof.
  unfold current_user, current_user_id, cur_pid, bind, get_h, ret, fail. cbn beta iota.
  destruct (h_cuser h) as [cu|] eqn:Cu.
  - intros Eq. inversion Eq; subst. repeat split; auto; [discriminate|]. intros u sh Hx. inversion Hx; subst. auto.
  - destruct (h_cpid h) as [p|] eqn:Cp; cbn beta iota.
    + destruct (bempty p).
      * intros Eq. inversion Eq; subst. repeat split; auto; discriminate.
      * destruct (st_load (e_O E) p h) as [[u|e|] k] eqn:L; intros Eq; inversion Eq; subst;
          pose proof (st_load_spec _ _ _ _ _ L) as (S1 & S2 & _ & S4 & S5 & S6 & Hu & N); try congruence;
          repeat split; auto; try discriminate; try congruence.
        all: intros u1 sh Hx; inversion Hx; subst; right; split; [reflexivity|]; apply Hu; reflexivity.
    + destruct (bempty (aget k_uid (e_sess E))).
      * intros Eq. inversion Eq; subst. repeat split; auto; discriminate.
      * destruct (st_load (e_O E) (aget k_uid (e_sess E)) h) as [[u|e|] k] eqn:L; intros Eq; inversion Eq; subst;
          pose proof (st_load_spec _ _ _ _ _ L) as (S1 & S2 & _ & S4 & S5 & S6 & Hu & N); try congruence;
          repeat split; auto; try discriminate; try congruence.
        all: intros u1 sh Hx; inversion Hx; subst; right; split; [reflexivity|]; apply Hu; reflexivity.
Qed.

Lemma fetch_user_spec pk h u sh h1 :
  try (current_user E) (fun r =>
        match r with
        | Err ErrUserNotFound =>
            let pid := aget pk (e_sess E) in
            if bempty pid then fail ErrUserNotFound
            else u <- st_load (e_O E) pid ;; ret (u, false)
        | Err e => fail e
        | Panic => panic
        | Ok x => ret x
        end) h = (Ok (u, sh), h1) ->
  h_sev h1 = h_sev h /\ h_cev h1 = h_cev h /\ h_st h1 = h_st h /\ h_cuser h1 = h_cuser h /\ h_cpid h1 = h_cpid h /\
  user_source pk h u.
Proof.
  intros Eq. apply try_inv in Eq as [(x & h0 & Cu & NP & K)|(_ & D)]; [|discriminate D].
  pose proof (current_user_spec _ _ _ Cu) as (S1 & S2 & S4 & S5 & S6 & _ & Hx).
  destruct x as [[u1 sh1]|e|]; [|destruct e|congruence]; try (inversion K; fail).
  - inversion K; subst. repeat split; auto.
    destruct (Hx _ _ eq_refl) as [(_ & H)|(_ & H)]; [left; exact H|right; left; exact H].
  - cbv zeta in K. destruct (bempty (aget pk (e_sess E))); [inversion K|].
    apply bind_ok_inv in K as (u2 & h2 & L & R). inversion R; subst.
    pose proof (st_load_spec _ _ _ _ _ L) as (T1 & T2 & _ & T4 & T5 & T6 & Hu & _).
    repeat split; try congruence. right. right. rewrite <- S4. apply Hu. reflexivity.
Qed.

(* ---- /2fa/sms/validate ---- *)
Definition g_sms (h : hst) (U : bytes) : Prop :=
  let rc := aget f_recovery_code vals in
  let input := aget f_code vals in
  exists u, user_source k_sms_pending h u /\ u_pid u = U /\
    (bempty rc = false -> use_recovery_code E (decode_codes (u_recovery u)) rc <> None) /\
    (bempty rc = true ->
       bempty (aget k_sms_secret (e_sess E)) = false /\
       beqb input (aget k_sms_secret (e_sess E)) = true /\
       match alookup k_sms_secret_number (e_sess E) with
       | Some sent => beqb sent (u_sms u) = true
       | None => True
       end).

Lemma sms_validator_post_guard h : guarded (g_sms h) (sms_validator_post E SPValidate) h.
Proof.
  unfold sms_validator_post.
  apply guarded_bind; [neutral_tail|intros [u sh] h1 H1].
  apply fetch_user_spec in H1 as (_ & _ & _ & _ & _ & Src). cbn beta iota.
  apply guarded_bind; [neutral_tail|intros v h2 H2].
  apply read_values_spec in H2 as [-> [Hv|Hv]]; [|discriminate Hv]. inversion Hv; subst v; clear Hv. cbv zeta.
  destruct (bempty (aget f_recovery_code vals) && bempty (aget f_code vals)).
  { apply guarded_of_neutral. apply neutral_sms_send_code. }
  destruct (bempty (aget f_recovery_code vals)) eqn:Rc; cbn [negb]; unfold sms_validate_code.
  - (* the texted code *)
    cbn [bempty negb].
    apply guarded_bind; [neutral_tail|intros [vf u2] h3 H3]. cbv zeta in H3.
    destruct (bempty (aget k_sms_secret (e_sess E))) eqn:Sc; [discriminate H3|].
    inversion H3; subst vf u2 h3; clear H3.
    destruct (beqb (aget f_code vals) (aget k_sms_secret (e_sess E))) eqn:Cd; cbn [andb negb]; [|neutral_tail].
    destruct (match alookup k_sms_secret_number (e_sess E) with Some sent => beqb sent (u_sms u) | None => true end) eqn:Bd;
      cbn [negb]; [|neutral_tail].
    assert (G : g_sms h (u_pid u)).
    { exists u. split; [exact Src|]. split; [reflexivity|]. split; [congruence|]. intros _. repeat split; auto.
      destruct (alookup k_sms_secret_number (e_sess E)); auto. }
    apply guarded_of_evs. ggo.
  - (* a recovery code *)
    rewrite Rc. cbn [negb].
    destruct (use_recovery_code E (decode_codes (u_recovery u)) (aget f_recovery_code vals)) as [rest|] eqn:Uc.
    + apply guarded_bind; [neutral_tail|intros [vf u2] h3 H3].
      apply bind_ok_inv in H3 as (? & ? & _ & H3). apply bind_ok_inv in H3 as (? & ? & _ & H3).
      apply bind_ok_inv in H3 as (? & ? & _ & H3). inversion H3; subst vf u2; clear H3. cbn [negb].
      assert (G : g_sms h (u_pid u)).
      { exists u. split; [exact Src|]. split; [reflexivity|]. split; [congruence|]. congruence. }
      apply guarded_of_evs. ggo.
    + apply guarded_bind; [neutral_tail|intros [vf u2] h3 H3]. inversion H3; subst. cbn [negb]. neutral_tail.
Qed.

(* ---- /2fa/totp/validate ---- *)
Definition totp_facts (h : hst) (u : user) : Prop :=
  let rc := aget f_recovery_code vals in
  user_source k_totp_pending h u /\
  bempty (u_totp u) = false /\
  (bempty rc = false -> use_recovery_code E (decode_codes (u_recovery u)) rc <> None) /\
  (bempty rc = true -> totp_ok E (u_totp u) (aget f_code vals) = true).

(* TOTP.validate: when it reports success, the user it hands back is the user it found (up to
   the used-up recovery code / the remembered last code), that user has a TOTP secret, and the
   submitted recovery code is one of his, or else the submitted code verifies against his secret *)
Lemma totp_validate_spec h u' sh h1 :
  totp_validate E h = (Ok (u', sh, Some TSuccess), h1) ->
  exists u, totp_facts h u /\ u_pid u' = u_pid u.
Proof.
  unfold totp_validate. intros Eq.
  apply bind_ok_inv in Eq as ([u sh0] & h0 & F & Eq).
  apply fetch_user_spec in F as (_ & _ & _ & _ & _ & Src). cbn beta iota in Eq.
  destruct (bempty (u_totp u)) eqn:Tp; [inversion Eq|].
  apply bind_ok_inv in Eq as (v & h2 & Rv & Eq).
  apply read_values_spec in Rv as [-> [Hv|Hv]]; [|discriminate Hv]. inversion Hv; subst v; clear Hv. cbv zeta in Eq.
  exists u. unfold totp_facts.
  destruct (bempty (aget f_recovery_code vals)) eqn:Rc; cbn [negb] in Eq.
  - destruct (c_onetime (e_cfg E)).
    + destruct (beqb (u_totp_last u) (trim_space (aget f_code vals))); [inversion Eq|].
      destruct (totp_ok E (u_totp u) (aget f_code vals)) eqn:Tk; cbn [negb] in Eq; [|inversion Eq].
      apply bind_ok_inv in Eq as (? & ? & _ & Eq). inversion Eq; subst.
      repeat split; auto. discriminate.
    + destruct (totp_ok E (u_totp u) (aget f_code vals)) eqn:Tk; cbn [negb] in Eq; inversion Eq; subst.
      repeat split; auto. discriminate.
  - destruct (use_recovery_code E (decode_codes (u_recovery u)) (aget f_recovery_code vals)) as [rest|] eqn:Uc;
      [|inversion Eq].
    apply bind_ok_inv in Eq as (? & ? & _ & Eq). apply bind_ok_inv in Eq as (? & ? & _ & Eq).
    apply bind_ok_inv in Eq as (? & ? & _ & Eq). inversion Eq; subst.
    repeat split; auto; [congruence|discriminate].
Qed.

Definition g_totp (h : hst) (U : bytes) : Prop :=
  exists u, totp_facts h u /\ u_pid u = U.

Lemma totp_validate_post_guard h : guarded (g_totp h) (totp_validate_post E) h.
Proof.
  unfold totp_validate_post.
  apply guarded_bind; [apply guarded_of_neutral, neutral_totp_validate|intros [[u sh] st] h1 H1].
  destruct st as [[| |]|]; try (neutral_tail; fail).
  apply totp_validate_spec in H1 as (u0 & Fx & Pd).
  assert (G : g_totp h (u_pid u)) by (exists u0; auto).
  apply guarded_of_evs. ggo.
Qed.
End G3.
