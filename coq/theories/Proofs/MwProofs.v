(* The lock and confirm middlewares on the whole application stack (C03, second sentence), who is
   logged in after a registration (C19), and the two-run form of "a locked account answers a
   correct and a wrong password alike" (C16 a).

   Tool: a small logic [rl R m] - "whatever m does, the start and end states are related by R" -
   for any reflexive, transitive R, closed under the combinators of the handler monad.  It is
   instantiated with "this projection of the state is kept", "the context pid is as before or
   the one parsed from the cookie", "what was written is as before or is not the application
   page", "mails are only appended, and each appended one satisfies P". *)
From AB Require Import World.Step Base.TextProofs Proofs.EvLogic Proofs.Neutral Proofs.HandlerEvents Proofs.MonadInv
  Proofs.StoreLogic Proofs.Gate Proofs.LogoutProofs Proofs.ExpireProofs Proofs.StepLift2 Proofs.RegisterProofs
  Proofs.SameView Proofs.SameView2 Proofs.StepGuard.
Open Scope Z_scope.

(* ---- the relational frame logic ---------------------------------------------------------------- *)
Class Pre (R : hst -> hst -> Prop) : Prop := {
  pre_refl : forall h, R h h;
  pre_trans : forall a b c, R a b -> R b c -> R a c
}.

Section RL.
Variable R : hst -> hst -> Prop.
Context {PR : Pre R}.

Definition rl {A} (m : M A) : Prop := forall h r h', m h = (r, h') -> R h h'.

Lemma rl_ret {A} (a : A) : rl (ret a).
Proof. intros h r h' Eq. inversion Eq; subst. apply pre_refl. Qed.
Lemma rl_fail {A} e : rl (@fail A e).
Proof. intros h r h' Eq. inversion Eq; subst. apply pre_refl. Qed.
Lemma rl_panic {A} : rl (@panic A).
Proof. intros h r h' Eq. inversion Eq; subst. apply pre_refl. Qed.
Lemma rl_get_h : rl get_h.
Proof. intros h r h' Eq. inversion Eq; subst. apply pre_refl. Qed.
Lemma rl_get_cuser : rl get_cuser.
Proof. intros h r h' Eq. inversion Eq; subst. apply pre_refl. Qed.

Lemma rl_bind {A B} (m : M A) (f : A -> M B) : rl m -> (forall a, rl (f a)) -> rl (bind m f).
Proof.
  intros Hm Hf h r h' Eq. apply bind_inv in Eq as [(a & h1 & E1 & E2)|[(e & E1 & _)|(E1 & _)]].
  - eapply pre_trans; [eapply Hm; eauto|eapply Hf; eauto].
  - eapply Hm; eauto.
  - eapply Hm; eauto.
Qed.
Lemma rl_try {A B} (m : M A) (f : res A -> M B) : rl m -> (forall r, rl (f r)) -> rl (try m f).
Proof.
  intros Hm Hf h r h' Eq. apply try_inv in Eq as [(x & h1 & E1 & _ & E2)|(E1 & _)].
  - eapply pre_trans; [eapply Hm; eauto|eapply Hf; eauto].
  - eapply Hm; eauto.
Qed.

Lemma rl_state {A} (m : M A) : (forall h, R h (snd (m h))) -> rl m.
Proof. intros H h r h' Eq. specialize (H h). rewrite Eq in H. exact H. Qed.
Lemma rl_modify f : (forall h, R h (f h)) -> rl (modify f).
Proof. intros H. apply rl_state. intros h. apply H. Qed.
Lemma rl_backend O {A} k (body : M A) :
  (forall h, R h (h <| h_ncalls := S (h_ncalls h) |> <| h_calls := k :: h_calls h |>)) ->
  rl body -> rl (backend O k body).
Proof.
  intros Hc Hb h r h' Eq. unfold backend in Eq.
  destruct (fault_at (h_ncalls h) (o_faults O)) as [[|]|].
  - inversion Eq; subst. apply Hc.
  - inversion Eq; subst. apply Hc.
  - eapply pre_trans; [apply Hc|eapply Hb; eauto].
Qed.
End RL.

(* syntax-directed prover; leaves the side conditions [forall h, R h (f h)] of the state changes *)
Ltac rl_step :=
  match goal with
  | |- rl _ (bind _ _) => apply rl_bind; [exact _| |intros]
  | |- rl _ (try _ _) => apply rl_try; [exact _| |intros]
  | |- rl _ (ret _) => apply rl_ret; exact _
  | |- rl _ (fail _) => apply rl_fail; exact _
  | |- rl _ panic => apply rl_panic; exact _
  | |- rl _ get_h => apply rl_get_h; exact _
  | |- rl _ get_cuser => apply rl_get_cuser; exact _
  | |- rl _ (put_session _ _) => unfold put_session; apply rl_modify
  | |- rl _ (del_session _) => unfold del_session; apply rl_modify
  | |- rl _ (delall_session _) => unfold delall_session; apply rl_modify
  | |- rl _ (put_cookie _ _) => unfold put_cookie; apply rl_modify
  | |- rl _ (del_cookie _) => unfold del_cookie; apply rl_modify
  | |- rl _ (write_resp _) => unfold write_resp; apply rl_modify
  | |- rl _ (log _) => unfold log; apply rl_modify
  | |- rl _ (set_cuser _) => unfold set_cuser; apply rl_modify
  | |- rl _ (set_cpid _) => unfold set_cpid; apply rl_modify
  | |- rl _ (fresh _) => apply rl_state
  | |- rl _ (st_load _ _) => unfold st_load; apply rl_backend; [exact _| |]
  | |- rl _ (st_save _ _) => unfold st_save; apply rl_backend; [exact _| |]
  | |- rl _ (st_create _ _) => unfold st_create; apply rl_backend; [exact _| |]
  | |- rl _ (st_add_rm _ _ _) => unfold st_add_rm; apply rl_backend; [exact _| |]
  | |- rl _ (st_use_rm _ _ _) => unfold st_use_rm; apply rl_backend; [exact _| |]
  | |- rl _ (st_del_rm _ _) => unfold st_del_rm; apply rl_backend; [exact _| |]
  | |- rl _ (backend _ _ _) => apply rl_backend; [exact _| |]
  | |- rl _ (modify _) => apply rl_modify
  | |- rl _ (if ?c then _ else _) => destruct c eqn:?
  | |- rl _ (match ?x with _ => _ end) => destruct x eqn:?
  | |- rl _ (let '(_, _) := ?x in _) => destruct x eqn:?
  | |- rl _ (fun h => _) => apply rl_state
  end.
Ltac rl_go := repeat (unfold_derived; cbn beta iota; rl_step).

(* ---- instance 1: a projection of the state is kept ---------------------------------------------- *)
Definition Rk {X : Type} (proj : hst -> X) (h h' : hst) : Prop := proj h' = proj h.
#[export] Instance Pre_Rk {X} (proj : hst -> X) : Pre (Rk proj).
Proof. split; unfold Rk; intros; congruence. Qed.

(* side conditions of [Rk]: the changed field is not one the projection reads *)
Ltac rk_side :=
  intros; unfold Rk, Monad.fresh; cbn;
  repeat match goal with |- context [match ?x with _ => _ end] => destruct x end; reflexivity.

(* what the stack's head (expire, remember) must leave alone *)
Definition out3 (h : hst) := (h_out h, s_users (h_st h), h_cuser h).

(* ---- instance 2: the context pid is as before, or a given one ----------------------------------- *)
Definition Rcpid (p : bytes) (h h' : hst) : Prop := h_cpid h' = h_cpid h \/ h_cpid h' = Some p.
#[export] Instance Pre_Rcpid p : Pre (Rcpid p).
Proof.
  split; unfold Rcpid; [auto|]. intros a b c [H1|H1] [H2|H2]; rewrite ?H2, ?H1; auto.
Qed.
Ltac rcpid_side :=
  intros; unfold Rcpid, Monad.fresh; cbn;
  repeat match goal with |- context [match ?x with _ => _ end] => destruct x end; cbn; auto.

(* ---- instance 3: what was written is as before, or satisfies P ----------------------------------- *)
Definition Rout (P : response -> Prop) (h h' : hst) : Prop :=
  h_out h' = h_out h \/ exists wr, h_out h' = Some wr /\ P (w_resp wr).
#[export] Instance Pre_Rout P : Pre (Rout P).
Proof.
  split; unfold Rout; [auto|]. intros a b c H1 [H2|H2]; [rewrite H2; exact H1|right; exact H2].
Qed.

(* ---- instance 4: mails are only appended, each satisfying P -------------------------------------- *)
Definition Rmail (P : mail -> Prop) (h h' : hst) : Prop :=
  exists ms, h_mails h' = h_mails h ++ ms /\ Forall P ms.
#[export] Instance Pre_Rmail P : Pre (Rmail P).
Proof.
  split; unfold Rmail.
  - intros h. exists []. rewrite app_nil_r. auto.
  - intros a b c (m1 & E1 & F1) (m2 & E2 & F2). exists (m1 ++ m2). rewrite E2, E1, app_assoc.
    split; [reflexivity|apply Forall_app; auto].
Qed.
Ltac rmail_same :=
  intros; unfold Rmail, Monad.fresh; cbn;
  repeat match goal with |- context [match ?x with _ => _ end] => destruct x end;
  exists []; cbn; rewrite app_nil_r; auto.

(* ================================================================================================ *)
(* C03, second sentence: the lock / confirm middlewares on the whole stack                           *)
(* ================================================================================================ *)

(* "the application handler ran": the response on the wire is the application's page *)
Definition is_app_page (r : response) : Prop := exists d, r = RespPage 200 (bs "app") d.
Definition not_app (r : response) : Prop := ~ is_app_page r.
Definition app_ran (h : hst) : Prop := exists wr, h_out h = Some wr /\ is_app_page (w_resp wr).

Ltac not_app_tac := let d := fresh "d" in let H := fresh "H" in intros (d & H); discriminate H.
Ltac rout_side :=
  intros; unfold Rout, Monad.fresh; cbn;
  repeat match goal with |- context [match ?x with _ => _ end] => destruct x eqn:? end; cbn;
  first [ left; reflexivity | left; assumption
        | right; eexists; split; [reflexivity|]; cbn; not_app_tac ].

Lemma Rout_none_not_ran h h' : Rout not_app h h' -> h_out h = None -> ~ app_ran h'.
Proof.
  intros [H|(wr & H & N)] Ho (wr' & Hw & A).
  - rewrite H, Ho in Hw. discriminate Hw.
  - rewrite H in Hw. inversion Hw; subst wr'. exact (N A).
Qed.

(* the cookie names a pid: what remember.Authenticate parses out of the remember cookie *)
Definition cookie_names (E : env) (pid : bytes) : Prop :=
  exists cookie raw, alookup k_rm (e_cook E) = Some cookie /\ b64url_dec cookie = Some raw /\
                     rm_parse_pid raw = Some pid.

(* the account a request to an application route can be served as: the one named by the session's
   user id, or - with the remember middleware in the stack - the one named by the remember cookie *)
Definition stack_names (E : env) (remembermw : bool) (pid : bytes) : Prop :=
  (bempty pid = false /\ pid = aget k_uid (e_sess E)) \/
  (remembermw = true /\ cookie_names E pid).

Section MW.
Variable E : env.
Notation cfg := (e_cfg E).
Notation O := (e_O E).

(* ---- event classes of the pieces ---- *)
Lemma rout_redirect ro : rl (Rout not_app) (redirect E ro).
Proof. rl_go; rout_side. Qed.
Lemma rout_mw_fail mp fr : rl (Rout not_app) (mw_fail E mp fr).
Proof. unfold mw_fail. rl_go; rout_side. Qed.
Lemma rout_auth_middleware mp full tf fr : rl (Rout not_app) (auth_middleware E mp full tf fr).
Proof. unfold auth_middleware, mw_fail. rl_go; rout_side. Qed.
Lemma rout_lock_mw : rl (Rout not_app) (lock_mw E).
Proof. unfold lock_mw. rl_go; rout_side. Qed.
Lemma rout_confirm_mw : rl (Rout not_app) (confirm_mw E).
Proof. unfold confirm_mw. rl_go; rout_side. Qed.

(* ---- the user the gate loads ---- *)
Definition cur_pid (h : hst) : bytes :=
  match h_cpid h with Some p => p | None => aget k_uid (e_sess E) end.

Definition after_load_pid (h : hst) : hst :=
  h <| h_cpid := Some (cur_pid h) |> <| h_ncalls := S (h_ncalls h) |> <| h_calls := KLoad :: h_calls h |>.

Opaque k_uid.
Lemma load_cu_eq h :
  h_cuser h = None ->
  load_current_user E h =
  if bempty (cur_pid h) then (Err ErrUserNotFound, h) else
  match fault_at (h_ncalls h) (o_faults O) with
  | Some EGeneric => (Err ErrOther, after_load_pid h)
  | Some ENotFound => (Err ErrUserNotFound, after_load_pid h)
  | None => match ulookup (cur_pid h) (s_users (h_st h)) with
            | Some u => (Ok u, after_load_pid h <| h_cuser := Some u |>)
            | None => (Err ErrUserNotFound, after_load_pid h)
            end
  end.
Proof.
  intros Hc. unfold load_current_user, current_user_id, after_load_pid, cur_pid, bind, get_h. rewrite Hc.
  destruct (h_cpid h) as [p|] eqn:Hp; unfold ret.
  - destruct (bempty p); [reflexivity|].
    unfold set_cpid, modify, st_load, backend, set_cuser, modify. cbn.
    destruct (fault_at (h_ncalls h) (o_faults O)) as [[|]|]; try reflexivity.
    destruct (ulookup p (s_users (h_st h))); reflexivity.
  - destruct (bempty (aget k_uid (e_sess E))); [reflexivity|].
    unfold set_cpid, modify, st_load, backend, set_cuser, modify. cbn.
    destruct (fault_at (h_ncalls h) (o_faults O)) as [[|]|]; try reflexivity.
    destruct (ulookup (aget k_uid (e_sess E)) (s_users (h_st h))); reflexivity.
Qed.
Transparent k_uid.

(* let through, from a state without a context user: the requirements hold, and the context user
   is now the record stored under the id the request is served as *)
Lemma gate_passes_record mp full tf fr h h' :
  h_cuser h = None -> auth_middleware E mp full tf fr h = (Ok true, h') ->
  reqs_ok E full tf = true /\ bempty (cur_pid h) = false /\
  exists u, ulookup (cur_pid h) (s_users (h_st h)) = Some u /\ h_cuser h' = Some u /\
            h_out h' = h_out h /\ h_st h' = h_st h /\ h_sev h' = h_sev h /\ h_cev h' = h_cev h.
Proof.
  intros Hc Eq. unfold auth_middleware in Eq.
  destruct (reqs_ok E full tf) eqn:Rq.
  2:{ rewrite (reqs_ok_false _ _ _ Rq) in Eq.
      apply bind_inv in Eq as [(a & h1 & E1 & E2)|[(e & E1 & Hr)|(E1 & Hr)]];
        [cbv [ret] in E2; discriminate E2|discriminate Hr|discriminate Hr]. }
  rewrite (reqs_ok_true _ _ _ Rq) in Eq. split; [reflexivity|].
  unfold try in Eq. rewrite (load_cu_eq _ Hc) in Eq.
  assert (Bad : forall (e : herr) hh, ~ (match e with
                 | ErrUserNotFound => mw_fail E mp fr ;;; ret false
                 | _ => log [] ;;; write_resp (RespStatus 500) ;;; ret false end) hh = (Ok true, h')).
  { intros e hh K. destruct e;
      apply bind_inv in K as [(a & h2 & F1 & K)|[(e & F1 & Hr)|(F1 & Hr)]]; try discriminate Hr;
      try (cbv [ret] in K; discriminate K);
      apply bind_inv in K as [(a2 & h3 & F2 & K)|[(e & F2 & Hr)|(F2 & Hr)]]; try discriminate Hr;
      cbv [ret] in K; discriminate K. }
  destruct (bempty (cur_pid h)); [exfalso; exact (Bad ErrUserNotFound _ Eq)|]. split; [reflexivity|].
  destruct (fault_at (h_ncalls h) (o_faults O)) as [[|]|];
    [exfalso; exact (Bad ErrOther _ Eq)|exfalso; exact (Bad ErrUserNotFound _ Eq)|].
  destruct (ulookup (cur_pid h) (s_users (h_st h))) as [u|]; [|exfalso; exact (Bad ErrUserNotFound _ Eq)].
  inversion Eq; subst h'. exists u. cbn. auto 10.
Qed.

(* ---- the two middlewares behind the gate: exact behaviour with a context user ---- *)
Definition lock_refusal : M bool :=
  fun h => match h_cuser h with
           | Some u => (log [u_pid u; q_path (e_req E)] ;;;
                        try (redirect E (ro_fail (p_lock_notok_of cfg))) (fun r => match r with Ok _ => ret tt | _ => log [] end) ;;; ret false) h
           | None => (Panic, h)
           end.
Definition confirm_refusal : M bool :=
  fun h => match h_cuser h with
           | Some u => (log [u_pid u; q_path (e_req E)] ;;;
                        try (redirect E (ro_fail (p_confirm_notok_of cfg))) (fun r => match r with Ok _ => ret tt | _ => log [] end) ;;; ret false) h
           | None => (Panic, h)
           end.

Lemma lock_mw_cached h u :
  h_cuser h = Some u ->
  lock_mw E h = if is_locked E u then lock_refusal h else (Ok true, h).
Proof.
  intros Hc. unfold lock_mw, try, lock_refusal. rewrite (load_cu_cached E _ _ Hc), Hc.
  destruct (is_locked E u); reflexivity.
Qed.
Lemma confirm_mw_cached h u :
  h_cuser h = Some u ->
  confirm_mw E h = if u_confirmed u then (Ok true, h) else confirm_refusal h.
Proof.
  intros Hc. unfold confirm_mw, try, confirm_refusal. rewrite (load_cu_cached E _ _ Hc), Hc.
  destruct (u_confirmed u); reflexivity.
Qed.

(* the refusal of either middleware: one log line, then the failure redirect to the configured
   path; storage, cookies and the context are left alone; only the API-mode renderer fault can
   keep the redirect from being written (the middleware swallows that error, logging one more
   line without arguments) *)
Definition refusal_tail : list csevent := if c_api cfg then [] else [Put k_flash_err v_flash].
Definition refusal_redirect (p : bytes) : response :=
  if c_api cfg then RespRedirectAPI 307 p true else RespRedirect302 p.

Lemma mw_refusal_shape (args : list bytes) (p : bytes) h r h' :
  h_out h = None ->
  (log args ;;; try (redirect E (ro_fail p)) (fun r => match r with Ok _ => ret tt | _ => log [] end) ;;; ret false) h = (r, h') ->
  r = Ok false /\ h_st h' = h_st h /\ h_cev h' = h_cev h /\ h_cuser h' = h_cuser h /\ h_cpid h' = h_cpid h /\
  h_mails h' = h_mails h /\
  ((h_sev h' = h_sev h ++ refusal_tail /\
    h_out h' = Some (mkWritten (refusal_redirect p) (h_sev h ++ refusal_tail) (h_cev h))) \/
   (c_api cfg = true /\ h_sev h' = h_sev h /\ h_out h' = None /\
    exists n ek, fault_at n (o_faults O) = Some ek)).
Proof.
  intros Ho Eq.
  apply bind_inv in Eq as [(a & h1 & E1 & E2)|[(e & E1 & _)|(E1 & _)]]; try (inversion E1; fail).
  assert (M1 : h_mails h1 = h_mails h) by (inversion E1; reflexivity).
  apply log_same in E1 as (_ & L1 & L2 & L3 & L4 & L5 & L6).
  apply bind_inv in E2 as [(a2 & h2 & E2 & E3)|[(e & E2 & Hr)|(E2 & Hr)]].
  2,3: exfalso; apply try_inv in E2 as [(x & h3 & Rd & _ & K)|(Rd & _)];
       [destruct x; inversion K|
        apply redirect_unwritten in Rd; [|congruence]; cbv zeta in Rd;
        destruct Rd as (_ & _ & _ & _ & [(Hx & _)|((e' & Hx) & _)]); discriminate Hx].
  inversion E3; subst r h'. clear E3.
  apply try_inv in E2 as [(x & h3 & Rd & _ & K)|(Rd & Hr)]; [|discriminate Hr].
  (* the continuation of the failed redirect appends at most a log line: every field read below is kept *)
  assert (K' : h_out h2 = h_out h3 /\ h_sev h2 = h_sev h3 /\ h_cev h2 = h_cev h3 /\ h_st h2 = h_st h3 /\
               h_cuser h2 = h_cuser h3 /\ h_cpid h2 = h_cpid h3 /\ h_mails h2 = h_mails h3)
    by (destruct x; inversion K; cbn; auto 10).
  clear K. destruct K' as (K1 & K2 & K3 & K4 & K5 & K6 & K7).
  assert (M2 : h_mails h3 = h_mails h1).
  { assert (G : rl (Rk h_mails) (redirect E (ro_fail p))) by (rl_go; rk_side). exact (G _ _ _ Rd). }
  apply redirect_unwritten in Rd; [|congruence]. cbv zeta in Rd.
  cbn [ro_fail ro_success ro_failure ro_path ro_follow] in Rd. rewrite redirect_target_nofollow in Rd.
  destruct Rd as (R1 & R2 & R3 & R4 & Rd).
  split; [reflexivity|]. repeat (split; [congruence|]).
  unfold refusal_tail, refusal_redirect.
  destruct Rd as [(_ & S2 & O2)|(_ & Api & O2 & S2 & Hf)].
  - left. rewrite K2, K1, S2, O2, L2, L3. destruct (c_api cfg); split; reflexivity.
  - right. repeat split; auto; congruence.
Qed.

Lemma lock_refusal_shape h u r h' :
  h_cuser h = Some u -> h_out h = None -> lock_refusal h = (r, h') ->
  r = Ok false /\ h_st h' = h_st h /\ h_cev h' = h_cev h /\ h_cuser h' = h_cuser h /\ h_cpid h' = h_cpid h /\
  h_mails h' = h_mails h /\
  ((h_sev h' = h_sev h ++ refusal_tail /\
    h_out h' = Some (mkWritten (refusal_redirect (p_lock_notok_of cfg)) (h_sev h ++ refusal_tail) (h_cev h))) \/
   (c_api cfg = true /\ h_sev h' = h_sev h /\ h_out h' = None /\
    exists n ek, fault_at n (o_faults O) = Some ek)).
Proof. intros Hc Ho Eq. unfold lock_refusal in Eq. rewrite Hc in Eq. exact (mw_refusal_shape _ _ _ _ _ Ho Eq). Qed.
Lemma confirm_refusal_shape h u r h' :
  h_cuser h = Some u -> h_out h = None -> confirm_refusal h = (r, h') ->
  r = Ok false /\ h_st h' = h_st h /\ h_cev h' = h_cev h /\ h_cuser h' = h_cuser h /\ h_cpid h' = h_cpid h /\
  h_mails h' = h_mails h /\
  ((h_sev h' = h_sev h ++ refusal_tail /\
    h_out h' = Some (mkWritten (refusal_redirect (p_confirm_notok_of cfg)) (h_sev h ++ refusal_tail) (h_cev h))) \/
   (c_api cfg = true /\ h_sev h' = h_sev h /\ h_out h' = None /\
    exists n ek, fault_at n (o_faults O) = Some ek)).
Proof. intros Hc Ho Eq. unfold confirm_refusal in Eq. rewrite Hc in Eq. exact (mw_refusal_shape _ _ _ _ _ Ho Eq). Qed.

(* the middlewares as the property reads them: they pass the request only for a user who is not
   locked / is confirmed, changing nothing; otherwise they refuse as above *)
Lemma lock_mw_spec h u r h' :
  h_cuser h = Some u -> h_out h = None -> lock_mw E h = (r, h') ->
  (is_locked E u = false /\ r = Ok true /\ h' = h) \/
  (is_locked E u = true /\ r = Ok false /\ h_st h' = h_st h /\ h_cev h' = h_cev h /\ h_cuser h' = h_cuser h /\
   ((h_sev h' = h_sev h ++ refusal_tail /\
     h_out h' = Some (mkWritten (refusal_redirect (p_lock_notok_of cfg)) (h_sev h ++ refusal_tail) (h_cev h))) \/
    (c_api cfg = true /\ h_sev h' = h_sev h /\ h_out h' = None /\
     exists n ek, fault_at n (o_faults O) = Some ek))).
Proof.
  intros Hc Ho Eq. rewrite (lock_mw_cached _ _ Hc) in Eq. destruct (is_locked E u).
  - right. destruct (lock_refusal_shape _ _ _ _ Hc Ho Eq) as (A1 & A2 & A3 & A4 & _ & _ & A7). auto 10.
  - left. inversion Eq; auto.
Qed.
Lemma confirm_mw_spec h u r h' :
  h_cuser h = Some u -> h_out h = None -> confirm_mw E h = (r, h') ->
  (u_confirmed u = true /\ r = Ok true /\ h' = h) \/
  (u_confirmed u = false /\ r = Ok false /\ h_st h' = h_st h /\ h_cev h' = h_cev h /\ h_cuser h' = h_cuser h /\
   ((h_sev h' = h_sev h ++ refusal_tail /\
     h_out h' = Some (mkWritten (refusal_redirect (p_confirm_notok_of cfg)) (h_sev h ++ refusal_tail) (h_cev h))) \/
    (c_api cfg = true /\ h_sev h' = h_sev h /\ h_out h' = None /\
     exists n ek, fault_at n (o_faults O) = Some ek))).
Proof.
  intros Hc Ho Eq. rewrite (confirm_mw_cached _ _ Hc) in Eq. destruct (u_confirmed u).
  - left. inversion Eq; auto.
  - right. destruct (confirm_refusal_shape _ _ _ _ Hc Ho Eq) as (A1 & A2 & A3 & A4 & _ & _ & A7). auto 10.
Qed.
End MW.

(* ---- the stack ------------------------------------------------------------------------------------ *)
Lemma out3_inv h1 h2 : out3 h1 = out3 h2 ->
  h_out h1 = h_out h2 /\ s_users (h_st h1) = s_users (h_st h2) /\ h_cuser h1 = h_cuser h2.
Proof. unfold out3. intros H. inversion H. auto. Qed.

(* one gate of the stack: if the application page ends up on the wire, the gate said yes *)
Lemma gate_stage (m : M bool) (K : M unit) h r h' :
  rl (Rout not_app) m -> h_out h = None ->
  (ok <- m ;; if negb ok then ret tt else K) h = (r, h') -> app_ran h' ->
  exists h1, m h = (Ok true, h1) /\ K h1 = (r, h').
Proof.
  intros Hm Ho Eq Ran. apply bind_inv in Eq as [(ok & h1 & E1 & E2)|[(e & E1 & _)|(E1 & _)]].
  - destruct ok; cbn [negb] in E2; [eauto|]. inversion E2; subst.
    exfalso. exact (Rout_none_not_ran _ _ (Hm _ _ _ E1) Ho Ran).
  - exfalso. exact (Rout_none_not_ran _ _ (Hm _ _ _ E1) Ho Ran).
  - exfalso. exact (Rout_none_not_ran _ _ (Hm _ _ _ E1) Ho Ran).
Qed.

Lemma app_handler_spec E h r h' : app_handler E h = (r, h') -> r = Ok tt /\ h_st h' = h_st h.
Proof.
  intros Eq. unfold app_handler in Eq.
  apply bind_inv in Eq as [(pid & h1 & E1 & E2)|[(e & E1 & _)|(E1 & _)]].
  - assert (h1 = h) as ->.
    { unfold current_user_id, bind, get_h in E1. destruct (h_cpid h); cbv [ret] in E1; congruence. }
    match type of E2 with write_resp ?x _ = _ => revert E2; generalize x end. intros x E2.
    split; [|exact (pres_write_resp h_st x _ _ _ E2)].
    unfold write_resp, modify in E2. congruence.
  - exfalso. unfold current_user_id, bind, get_h in E1. destruct (h_cpid h); cbv [ret] in E1; congruence.
  - exfalso. unfold current_user_id, bind, get_h in E1. destruct (h_cpid h); cbv [ret] in E1; congruence.
Qed.

(* everything behind expire and remember: if the application page was written, the gate loaded
   the record stored under the id the request is served as, and that record passed the lock /
   confirm middlewares that are installed *)
Lemma stack_core_ran E' full tf fr l c h r h' :
  h_cuser h = None -> h_out h = None ->
  stack_core E' full tf fr l c h = (r, h') -> app_ran h' ->
  r = Ok tt /\ reqs_ok E' full tf = true /\ bempty (cur_pid E' h) = false /\
  exists u, ulookup (cur_pid E' h) (s_users (h_st h)) = Some u /\ h_st h' = h_st h /\
            (l = true -> is_locked E' u = false) /\ (c = true -> u_confirmed u = true).
Proof.
  intros Hc Ho Eq Ran. unfold stack_core in Eq.
  apply gate_stage in Eq as (h1 & G & Eq); [|apply rout_auth_middleware|exact Ho|exact Ran].
  destruct (gate_passes_record _ _ _ _ _ _ _ Hc G) as (Rq & Nb & u & Lu & Cu & O1 & S1 & _).
  assert (Ho1 : h_out h1 = None) by congruence.
  apply gate_stage in Eq as (h2 & G2 & Eq);
    [|destruct l; [apply rout_lock_mw|apply rl_ret; exact _]|exact Ho1|exact Ran].
  assert (L2 : h2 = h1 /\ (l = true -> is_locked E' u = false)).
  { destruct l.
    - destruct (lock_mw_spec E' _ _ _ _ Cu Ho1 G2) as [(A & _ & B)|(_ & B & _)]; [auto|discriminate B].
    - inversion G2; subst. split; [reflexivity|discriminate]. }
  destruct L2 as (-> & Lk).
  apply gate_stage in Eq as (h3 & G3 & Eq);
    [|destruct c; [apply rout_confirm_mw|apply rl_ret; exact _]|exact Ho1|exact Ran].
  assert (L3 : h3 = h1 /\ (c = true -> u_confirmed u = true)).
  { destruct c.
    - destruct (confirm_mw_spec E' _ _ _ _ Cu Ho1 G3) as [(A & _ & B)|(_ & B & _)]; [auto|discriminate B].
    - inversion G3; subst. split; [reflexivity|discriminate]. }
  destruct L3 as (-> & Cf).
  apply app_handler_spec in Eq as (-> & S2).
  split; [reflexivity|]. split; [exact Rq|]. split; [exact Nb|].
  exists u. split; [exact Lu|]. split; [congruence|]. auto.
Qed.

(* the expire stage: always succeeds, writes nothing, touches neither storage nor the context, and
   a user id it shows downstream is the session's *)
Lemma expire_stage_spec E (e : bool) h x h1 :
  (if e then expire_mw E else ret (e_sess E)) h = (x, h1) ->
  exists s, x = Ok s /\ out3 h1 = out3 h /\ h_cpid h1 = h_cpid h /\ h_st h1 = h_st h /\
    (bempty (aget k_uid s) = false -> aget k_uid s = aget k_uid (e_sess E)).
Proof.
  destruct e; [|intros Eq; inversion Eq; subst; exists (e_sess E); auto 6].
  unfold expire_mw. destruct (ahas k_uid (e_sess E)); [|intros Eq; inversion Eq; subst; exists (e_sess E); auto 6].
  match goal with |- (if ?c then _ else _) h = _ -> _ => destruct c end.
  - rewrite expire_branch_expired. intros Eq; inversion Eq; subst. exists (expired_view E).
    split; [reflexivity|]. split; [reflexivity|]. split; [reflexivity|]. split; [reflexivity|].
    unfold expired_view, aget. rewrite (alookup_filter_key (fun x => bmem x (c_whitelist (e_cfg E)))).
    destruct (bmem k_uid (c_whitelist (e_cfg E))); [reflexivity|intros Hb; discriminate Hb].
  - rewrite expire_branch_alive. intros Eq; inversion Eq; subst. exists (e_sess E). auto 6.
Qed.

(* the remember stage: it can set the context pid only to the pid its cookie names *)
Lemma remember_authenticate_cpid E h x h' :
  h_cpid h = None -> remember_authenticate E h = (x, h') ->
  h_cpid h' = None \/ exists pid, h_cpid h' = Some pid /\ cookie_names E pid.
Proof.
  intros Hp Eq. unfold remember_authenticate in Eq.
  destruct (alookup k_rm (e_cook E)) as [cookie|] eqn:Ck; [|inversion Eq; subst; auto].
  destruct (b64url_dec cookie) as [raw|] eqn:Dc.
  2:{ left. assert (G : rl (Rk h_cpid) (del_cookie k_rm ;;; log [])) by (rl_go; rk_side).
      rewrite (G _ _ _ Eq). exact Hp. }
  destruct (rm_parse_pid raw) as [pid|] eqn:Pp.
  2:{ left. assert (G : rl (Rk h_cpid) (del_cookie k_rm ;;; log [])) by (rl_go; rk_side).
      rewrite (G _ _ _ Eq). exact Hp. }
  cbv zeta in Eq.
  match type of Eq with ?m h = _ => assert (G : rl (Rcpid pid) m) by (rl_go; rcpid_side) end.
  destruct (G _ _ _ Eq) as [H|H]; [left; congruence|].
  right. exists pid. split; [exact H|]. exists cookie, raw. auto.
Qed.

Lemma remember_mw_cpid E h x h' :
  h_cpid h = None -> remember_mw E h = (x, h') ->
  h_cpid h' = None \/ exists pid, h_cpid h' = Some pid /\ cookie_names E pid.
Proof.
  intros Hp Eq. unfold remember_mw in Eq. unfold bind at 1 in Eq. rewrite (current_user_id_nocache _ _ Hp) in Eq.
  destruct (bempty (aget k_uid (e_sess E))); [|inversion Eq; subst; auto].
  apply try_inv in Eq as [(x0 & h1 & RA & _ & K)|(RA & _)].
  - assert (h_cpid h' = h_cpid h1) as -> by (destruct x0; inversion K; reflexivity).
    eapply remember_authenticate_cpid; eauto.
  - eapply remember_authenticate_cpid; eauto.
Qed.

Lemma remember_mw_out3 E : rl (Rk out3) (remember_mw E).
Proof. unfold remember_mw, remember_authenticate. rl_go; rk_side. Qed.

Lemma remember_stage_spec E r s h x h2 :
  h_cpid h = None -> remember_stage E r s h = (x, h2) ->
  out3 h2 = out3 h /\
  forall s2, x = Ok s2 ->
    (h_cpid h2 = None /\ s2 = s) \/
    (exists pid, h_cpid h2 = Some pid /\ s2 = aput k_halfauth v_true (aput k_uid pid s) /\
                 r = true /\ cookie_names E pid).
Proof.
  intros Hp Eq. unfold remember_stage in Eq.
  destruct r; [|inversion Eq; subst; split; [reflexivity|]; intros s2 Hs; inversion Hs; auto].
  apply bind_inv in Eq as [(a & h1 & RM & RV)|[(e & RM & ->)|(RM & ->)]].
  - pose proof (remember_mw_out3 _ _ _ _ RM) as K3. unfold Rk in K3.
    pose proof (remember_mw_cpid _ _ _ _ Hp RM) as Cp.
    unfold remembered_view, bind, get_h in RV.
    destruct (h_cpid h1) as [p|] eqn:Hp1; cbv [ret] in RV; inversion RV; subst x h2; (split; [exact K3|]);
      intros s2 Hs; inversion Hs; subst s2.
    + right. exists p. destruct Cp as [Cp|(pid & Cp & Nm)]; [discriminate Cp|].
      inversion Cp; subst pid. auto.
    + left. auto.
  - split; [exact (remember_mw_out3 _ _ _ _ RM)|]. intros s2 Hs; discriminate Hs.
  - split; [exact (remember_mw_out3 _ _ _ _ RM)|]. intros s2 Hs; discriminate Hs.
Qed.

(* C03 on the whole stack: from the start of a request (nothing written, no context user, no
   context pid), if the application page was written then the account the request was served as -
   named by the session's uid or, with the remember middleware, by the remember cookie - is held
   in storage, is not locked when the lock middleware is installed, and is confirmed when the
   confirm middleware is installed; the user table is as it was *)
Theorem stack_app_ran_lemma E full tf fr l c r e h res h' :
  h_out h = None -> h_cuser h = None -> h_cpid h = None ->
  app_stack E full tf fr l c r e h = (res, h') -> app_ran h' ->
  res = Ok tt /\
  exists pid u, stack_names E r pid /\ ulookup pid (s_users (h_st h)) = Some u /\
    s_users (h_st h') = s_users (h_st h) /\
    (l = true -> is_locked E u = false) /\ (c = true -> u_confirmed u = true).
Proof.
  intros Ho Hc Hp Eq Ran. rewrite app_stack_cut in Eq.
  apply bind_inv in Eq as [(s & h1 & X1 & Eq)|[(er & X1 & _)|(X1 & _)]];
    destruct (expire_stage_spec _ _ _ _ _ X1) as (s' & Hs & K1 & P1 & _ & U1); try discriminate Hs.
  inversion Hs; subst s'. clear Hs.
  apply out3_inv in K1 as (O1 & S1 & C1).
  unfold stack_tail in Eq.
  apply bind_inv in Eq as [(s2 & h2 & X2 & Eq)|[(er & X2 & _)|(X2 & _)]];
    destruct (remember_stage_spec _ _ _ _ _ _ (eq_trans P1 Hp) X2) as (K2 & Vw);
    apply out3_inv in K2 as (O2 & S2 & C2).
  2,3: exfalso; destruct Ran as (wr & Hw & _); rewrite O2, O1, Ho in Hw; discriminate Hw.
  destruct (stack_core_ran (with_sess E s2) full tf fr l c h2 res h') as (Hr & _ & Nb & u & Lu & St & Lk & Cf);
    [congruence|congruence|exact Eq|exact Ran|].
  split; [exact Hr|].
  unfold cur_pid in Nb, Lu. cbn [e_sess with_sess] in Nb, Lu.
  destruct (Vw s2 eq_refl) as [(Cp & ->)|(pid & Cp & -> & Hr' & Nm)]; rewrite Cp in Nb, Lu.
  - exists (aget k_uid s), u. split; [left; split; [exact Nb|exact (U1 Nb)]|].
    split; [rewrite <- S1, <- S2; exact Lu|]. split; [rewrite St; congruence|]. split; [exact Lk|exact Cf].
  - exists pid, u. split; [right; auto|].
    split; [rewrite <- S1, <- S2; exact Lu|]. split; [rewrite St; congruence|]. split; [exact Lk|exact Cf].
Qed.

(* the readings of the two conclusions in terms of the record's fields *)
Lemma is_locked_false_iff E u : is_locked E u = false <-> u_locked u <= o_now (e_O E).
Proof. unfold is_locked, locked_at, ltriple. cbn. apply Z.ltb_ge. Qed.
Lemma is_locked_true_iff E u : is_locked E u = true <-> o_now (e_O E) < u_locked u.
Proof. unfold is_locked, locked_at, ltriple. cbn. apply Z.ltb_lt. Qed.

(* ---- the refusals, on the stack behind expire and remember ---------------------------------------- *)
Lemma gate_passes_if E mp full tf fr h u :
  reqs_ok E full tf = true -> h_cuser h = None -> bempty (cur_pid E h) = false ->
  fault_at (h_ncalls h) (o_faults (e_O E)) = None ->
  ulookup (cur_pid E h) (s_users (h_st h)) = Some u ->
  auth_middleware E mp full tf fr h = (Ok true, after_load_pid E h <| h_cuser := Some u |>).
Proof.
  intros Rq Hc Hb Hf Hu. unfold auth_middleware. rewrite (reqs_ok_true _ _ _ Rq). unfold try.
  rewrite (load_cu_eq _ _ Hc), Hb, Hf, Hu. reflexivity.
Qed.

Definition refusal_outcome (E : env) (p : bytes) (h h' : hst) : Prop :=
  h_st h' = h_st h /\ h_cev h' = h_cev h /\
  ((h_sev h' = h_sev h ++ refusal_tail E /\
    h_out h' = Some (mkWritten (refusal_redirect E p) (h_sev h ++ refusal_tail E) (h_cev h))) \/
   (c_api (e_cfg E) = true /\ h_sev h' = h_sev h /\ h_out h' = None /\
    exists n ek, fault_at n (o_faults (e_O E)) = Some ek)).

(* the lock middleware installed, the account the request is served as locked: the failure
   redirect to the lock module's path, nothing stored, the application handler not reached *)
Lemma stack_core_lock_refuses E full tf fr c h u :
  h_cuser h = None -> h_out h = None -> reqs_ok E full tf = true -> bempty (cur_pid E h) = false ->
  fault_at (h_ncalls h) (o_faults (e_O E)) = None ->
  ulookup (cur_pid E h) (s_users (h_st h)) = Some u -> is_locked E u = true ->
  exists h', stack_core E full tf fr true c h = (Ok tt, h') /\
             refusal_outcome E (p_lock_notok_of (e_cfg E)) h h'.
Proof.
  intros Hc Ho Rq Hb Hf Hu Lk. unfold stack_core.
  rewrite (bind_ok _ _ _ _ _ (gate_passes_if E false full tf fr h u Rq Hc Hb Hf Hu)). cbn [negb].
  set (h1 := after_load_pid E h <| h_cuser := Some u |>).
  assert (C1 : h_cuser h1 = Some u) by reflexivity.
  assert (O1 : h_out h1 = None) by exact Ho.
  destruct (lock_mw E h1) as [x h2] eqn:Lm.
  pose proof Lm as Lm'. rewrite (lock_mw_cached E _ _ C1), Lk in Lm'.
  destruct (lock_refusal_shape E _ _ _ _ C1 O1 Lm') as (-> & A2 & A3 & _ & _ & _ & A7).
  exists h2. split; [rewrite (bind_ok _ _ _ _ _ Lm); reflexivity|].
  split; [exact A2|]. split; [exact A3|exact A7].
Qed.

(* the confirm middleware installed, the account not confirmed (and not stopped by the lock
   middleware before): the failure redirect to the confirm module's path *)
Lemma stack_core_confirm_refuses E full tf fr l h u :
  h_cuser h = None -> h_out h = None -> reqs_ok E full tf = true -> bempty (cur_pid E h) = false ->
  fault_at (h_ncalls h) (o_faults (e_O E)) = None ->
  ulookup (cur_pid E h) (s_users (h_st h)) = Some u ->
  (l = true -> is_locked E u = false) -> u_confirmed u = false ->
  exists h', stack_core E full tf fr l true h = (Ok tt, h') /\
             refusal_outcome E (p_confirm_notok_of (e_cfg E)) h h'.
Proof.
  intros Hc Ho Rq Hb Hf Hu Lk Cf. unfold stack_core.
  rewrite (bind_ok _ _ _ _ _ (gate_passes_if E false full tf fr h u Rq Hc Hb Hf Hu)). cbn [negb].
  set (h1 := after_load_pid E h <| h_cuser := Some u |>).
  assert (C1 : h_cuser h1 = Some u) by reflexivity.
  assert (O1 : h_out h1 = None) by exact Ho.
  assert (L1 : (if l then lock_mw E else ret true) h1 = (Ok true, h1)).
  { destruct l; [|reflexivity]. rewrite (lock_mw_cached E _ _ C1), (Lk eq_refl). reflexivity. }
  rewrite (bind_ok _ _ _ _ _ L1). cbn [negb].
  destruct (confirm_mw E h1) as [x h2] eqn:Cm.
  pose proof Cm as Cm'. rewrite (confirm_mw_cached E _ _ C1), Cf in Cm'.
  destruct (confirm_refusal_shape E _ _ _ _ C1 O1 Cm') as (-> & A2 & A3 & _ & _ & _ & A7).
  exists h2. split; [rewrite (bind_ok _ _ _ _ _ Cm); reflexivity|].
  split; [exact A2|]. split; [exact A3|exact A7].
Qed.

(* ---- on [step] ------------------------------------------------------------------------------------- *)
Lemma rout_error_tail E e :
  rl (Rout not_app) (log [q_path (e_req E)] ;;;
                     (if c_err_writes (e_cfg E) then write_resp (RespStatus 500) else ret tt) ;;; @fail unit e).
Proof. rl_go; rout_side. Qed.

Section STEP.
Variable C : crypto.
Variable cfg : config.

(* a request to an application route that is answered with the application's page: the account it
   was served as - named by the browser's session or, with the remember middleware in the stack,
   by its remember cookie - is held in storage, is not locked if the lock middleware is in the
   stack, and is confirmed if the confirm middleware is; no hypothesis on storage or the oracle *)
Theorem step_app_served_lemma w req O full tf fr l c r e :
  q_route req = RApp full tf fr l c r e ->
  let b := q_browser req in
  let E := mkEnv C cfg O req (jar_get b (w_cook w)) (jar_get b (w_sess w)) in
  let w' := fst (step C cfg w (AReq req) O) in
  let o := snd (step C cfg w (AReq req) O) in
  (exists d, ob_resp o = Some (RespPage 200 (bs "app") d)) ->
  ob_err o = false /\ ob_panic o = false /\
  exists pid u, stack_names E r pid /\ ulookup pid (s_users (w_st w)) = Some u /\
    s_users (w_st w') = s_users (w_st w) /\
    (l = true -> u_locked u <= o_now O) /\ (c = true -> u_confirmed u = true).
Proof.
  intros Rt b E w' o (d & Hd).
  set (h0 := init_hst (w_st w) O).
  destruct (serve E h0) as [x h] eqn:Es.
  destruct (step_shape C cfg w req O _ _ Es) as (Ob & St & _). fold w' in St. fold o in Ob.
  rewrite Ob in Hd |- *.
  assert (Ran : app_ran h).
  { unfold obs_of in Hd. cbn [ob_resp] in Hd. destruct (h_out h) as [wr|] eqn:Hw; [|discriminate Hd].
    exists wr. split; [exact Hw|]. exists d. cbn [option_map] in Hd. congruence. }
  rewrite (serve_app E _ _ _ _ _ _ _ Rt) in Es. unfold with_error_handler in Es.
  assert (Core : forall res h1, app_stack E full tf fr l c r e h0 = (res, h1) -> app_ran h1 ->
            res = Ok tt /\
            exists pid u, stack_names E r pid /\ ulookup pid (s_users (w_st w)) = Some u /\
              s_users (h_st h1) = s_users (w_st w) /\
              (l = true -> u_locked u <= o_now O) /\ (c = true -> u_confirmed u = true)).
  { intros res h1 Sk Ran1.
    destruct (stack_app_ran_lemma E full tf fr l c r e h0 res h1 eq_refl eq_refl eq_refl Sk Ran1)
      as (Hr & pid & u & Nm & Lu & Su & Lk & Cf).
    split; [exact Hr|]. exists pid, u. split; [exact Nm|]. split; [exact Lu|]. split; [exact Su|].
    split; [|exact Cf]. intros Hl. apply (is_locked_false_iff E u). exact (Lk Hl). }
  apply try_inv in Es as [(res & h1 & Sk & NP & K)|(Sk & ->)].
  - destruct res as [[]|er|]; [| |congruence].
    + inversion K; subst x h1. destruct (Core _ _ Sk Ran) as (_ & pid & u & A1 & A2 & A3 & A4).
      split; [reflexivity|]. split; [reflexivity|]. exists pid, u. rewrite St. auto.
    + exfalso. destruct (rout_error_tail E er _ _ _ K) as [Hk|(wr & Hk & Nk)].
      * assert (Ran1 : app_ran h1) by (destruct Ran as (wr & Hw & Ap); exists wr; split; [congruence|exact Ap]).
        destruct (Core _ _ Sk Ran1) as (Hr & _). discriminate Hr.
      * destruct Ran as (wr' & Hw & Ap). rewrite Hk in Hw. inversion Hw; subst wr'. exact (Nk Ap).
  - exfalso. destruct (Core _ _ Sk Ran) as (Hr & _). discriminate Hr.
Qed.

(* the start of the stack when the session names a user and (with the expire middleware in the
   stack) has not expired: expire at most refreshes its stamp, remember does nothing *)
Lemma stack_head_alive E full tf fr l c r (e : bool) h :
  h_cpid h = None -> bempty (aget k_uid (e_sess E)) = false ->
  (e = true -> stamp_expired (e_cfg E) (o_now (e_O E)) (e_sess E) = false) ->
  exists h1, app_stack E full tf fr l c r e h = stack_core (with_sess E (e_sess E)) full tf fr l c h1 /\
    h_out h1 = h_out h /\ h_cuser h1 = h_cuser h /\ h_cpid h1 = None /\ h_st h1 = h_st h /\
    h_ncalls h1 = h_ncalls h /\ h_cev h1 = h_cev h /\
    h_sev h1 = h_sev h ++ (if e then [Put k_last_action (zdec (o_now (e_O E)))] else []).
Proof.
  intros Hp Hb Hx.
  assert (Hu : ahas k_uid (e_sess E) = true).
  { unfold ahas. unfold aget in Hb. destruct (alookup k_uid (e_sess E)); [reflexivity|discriminate Hb]. }
  assert (Hd : exists h1, (if e then expire_mw E else ret (e_sess E)) h = (Ok (e_sess E), h1) /\
             h_out h1 = h_out h /\ h_cuser h1 = h_cuser h /\ h_cpid h1 = None /\ h_st h1 = h_st h /\
             h_ncalls h1 = h_ncalls h /\ h_cev h1 = h_cev h /\
             h_sev h1 = h_sev h ++ (if e then [Put k_last_action (zdec (o_now (e_O E)))] else [])).
  { destruct e.
    - eexists. split; [apply (expire_mw_alive_eq E h Hu (Hx eq_refl))|]. cbn. auto 10.
    - exists h. rewrite app_nil_r. auto 10. }
  destruct Hd as (h1 & X1 & A).
  exists h1. split; [|exact A]. destruct A as (_ & _ & P1 & _).
  rewrite app_stack_cut, (bind_ok _ _ _ _ _ X1). unfold stack_tail.
  assert (Rm : remember_stage E r (e_sess E) h1 = (Ok (e_sess E), h1)).
  { apply remember_stage_idle; [exact P1|]. right. apply remember_mw_hasid; [exact P1|exact Hb]. }
  rewrite (bind_ok _ _ _ _ _ Rm). reflexivity.
Qed.

(* what a refused request looks like from outside *)
Definition step_refused (w : world) (req : request) (O : oracle) (p : bytes) : Prop :=
  let w' := fst (step C cfg w (AReq req) O) in
  let o := snd (step C cfg w (AReq req) O) in
  w_st w' = w_st w /\ ob_err o = false /\ ob_panic o = false /\
  (ob_resp o = Some (if c_api cfg then RespRedirectAPI 307 p true else RespRedirect302 p) \/
   (ob_resp o = None /\ c_api cfg = true /\ exists n ek, fault_at n (o_faults O) = Some ek)) /\
  (c_api cfg = false -> ob_resp o <> None ->
     alookup k_flash_err (jar_get (q_browser req) (w_sess w')) = Some v_flash).

Lemma step_refusal_of_core w req O full tf fr l c r e p :
  q_route req = RApp full tf fr l c r e ->
  let b := q_browser req in
  let j := jar_get b (w_sess w) in
  let E := mkEnv C cfg O req (jar_get b (w_cook w)) j in
  bempty (aget k_uid j) = false -> (e = true -> stamp_expired cfg (o_now O) j = false) ->
  (forall h, h_cuser h = None -> h_out h = None -> h_cpid h = None -> h_ncalls h = 0%nat -> h_st h = w_st w ->
     exists h', stack_core E full tf fr l c h = (Ok tt, h') /\ refusal_outcome E p h h') ->
  step_refused w req O p.
Proof.
  intros Rt b j E Hb Hx Core.
  set (h0 := init_hst (w_st w) O).
  destruct (stack_head_alive E full tf fr l c r e h0 eq_refl Hb Hx) as (h1 & Cut & O1 & C1 & P1 & S1 & N1 & V1 & _).
  destruct (Core h1 C1 O1 P1 N1 S1) as (h' & Sk & St & Cv & Out).
  assert (Es : serve E h0 = (Ok tt, h')).
  { rewrite (serve_app E _ _ _ _ _ _ _ Rt). apply error_handler_ok. rewrite Cut. exact Sk. }
  destruct (step_shape C cfg w req O _ _ Es) as (Ob & Sw & Jr). fold b in Jr.
  unfold step_refused. cbv zeta. rewrite Ob.
  split; [rewrite Sw, St; exact S1|]. split; [reflexivity|]. split; [reflexivity|].
  unfold obs_of. cbn [ob_resp].
  destruct Out as [(Sv & Ow)|(Api & Sv & Ow & Hf)]; rewrite Ow; cbn [option_map w_resp].
  - split; [left; reflexivity|]. intros Api _. rewrite Ow in Jr. cbn [w_sev w_cev] in Jr. destruct Jr as (Js & _).
    fold b. rewrite Js. unfold refusal_tail. cbn [e_cfg E]. rewrite Api. rewrite apply_events_app.
    unfold apply_events at 1. cbn [fold_left apply_event]. apply alookup_aput_eq.
  - split; [right; auto|]. intros _ Hn. exfalso. apply Hn. reflexivity.
Qed.

(* the lock middleware in the stack and the session's account locked: refused *)
Theorem step_lock_mw_refuses_lemma w req O full tf fr c r e u :
  q_route req = RApp full tf fr true c r e ->
  let b := q_browser req in
  let j := jar_get b (w_sess w) in
  let E := mkEnv C cfg O req (jar_get b (w_cook w)) j in
  bempty (aget k_uid j) = false -> (e = true -> stamp_expired cfg (o_now O) j = false) ->
  reqs_ok E full tf = true -> fault_at 0 (o_faults O) = None ->
  ulookup (aget k_uid j) (s_users (w_st w)) = Some u -> o_now O < u_locked u ->
  step_refused w req O (p_lock_notok_of cfg).
Proof.
  intros Rt b j E Hb Hx Rq Hf Hu Lk.
  apply (step_refusal_of_core w req O full tf fr true c r e (p_lock_notok_of cfg) Rt Hb Hx).
  intros h Hc Ho Hp Hn Hs.
  apply (stack_core_lock_refuses E full tf fr c h u Hc Ho Rq).
  - unfold cur_pid. rewrite Hp. exact Hb.
  - rewrite Hn. exact Hf.
  - unfold cur_pid. rewrite Hp, Hs. exact Hu.
  - apply is_locked_true_iff. exact Lk.
Qed.

(* the confirm middleware in the stack and the session's account not confirmed (and, with the lock
   middleware in front, not locked): refused *)
Theorem step_confirm_mw_refuses_lemma w req O full tf fr l r e u :
  q_route req = RApp full tf fr l true r e ->
  let b := q_browser req in
  let j := jar_get b (w_sess w) in
  let E := mkEnv C cfg O req (jar_get b (w_cook w)) j in
  bempty (aget k_uid j) = false -> (e = true -> stamp_expired cfg (o_now O) j = false) ->
  reqs_ok E full tf = true -> fault_at 0 (o_faults O) = None ->
  ulookup (aget k_uid j) (s_users (w_st w)) = Some u ->
  (l = true -> u_locked u <= o_now O) -> u_confirmed u = false ->
  step_refused w req O (p_confirm_notok_of cfg).
Proof.
  intros Rt b j E Hb Hx Rq Hf Hu Lk Cf.
  apply (step_refusal_of_core w req O full tf fr l true r e (p_confirm_notok_of cfg) Rt Hb Hx).
  intros h Hc Ho Hp Hn Hs.
  apply (stack_core_confirm_refuses E full tf fr l h u Hc Ho Rq).
  - unfold cur_pid. rewrite Hp. exact Hb.
  - rewrite Hn. exact Hf.
  - unfold cur_pid. rewrite Hp, Hs. exact Hu.
  - intros Hl. apply is_locked_false_iff. exact (Lk Hl).
  - exact Cf.
Qed.
End STEP.

(* ================================================================================================ *)
(* C19: who is logged in after a registration                                                        *)
(* ================================================================================================ *)

(* the hooks of the after-register event: the confirmation starter, once per load of the confirm
   module, and nothing else *)
Section HR.
Variable E : env.
Notation cfg := (e_cfg E).

Lemma hooks_after_register_all : Forall (eq HConfirmStart) (hooks E EvAfterRegister).
Proof.
  unfold hooks. rewrite app_nil_r. induction (c_mods cfg) as [|m l IH]; cbn [flat_map]; [constructor|].
  apply Forall_app. split; [|exact IH]. destruct m; cbn; repeat constructor.
Qed.
Lemma hooks_after_register_loaded : has_mod cfg MConfirm = true -> hooks E EvAfterRegister <> [].
Proof.
  unfold has_mod, hooks. rewrite app_nil_r. induction (c_mods cfg) as [|m l IH]; cbn [existsb flat_map]; [discriminate|].
  destruct m; cbn [modname_eqb orb hooks_of_mod app]; try exact IH; intros _; discriminate.
Qed.
Lemma hooks_after_register_none : has_mod cfg MConfirm = false -> hooks E EvAfterRegister = [].
Proof.
  unfold has_mod, hooks. rewrite app_nil_r. induction (c_mods cfg) as [|m l IH]; cbn [existsb flat_map]; [reflexivity|].
  destruct m; cbn [modname_eqb orb hooks_of_mod app]; try exact IH; intros Hx; discriminate Hx.
Qed.

(* a confirmation mail to a given address *)
Definition confirm_mail_to (addr : bytes) (m : mail) : Prop := m_kind m = bs "confirm" /\ m_to m = [addr].

(* the confirmation starter on a state with a context user: it never reports "not handled"; when
   it returns, exactly one confirmation mail to the user's address has been recorded; the context
   user keeps his address *)
Lemma confirm_start_spec rm hd h cu r h' :
  h_cuser h = Some cu -> run_hook E HConfirmStart rm hd h = (r, h') ->
  (exists cu', h_cuser h' = Some cu' /\ u_email cu' = u_email cu) /\
  ((r = Ok true /\ exists m, h_mails h' = h_mails h ++ [m] /\ confirm_mail_to (u_email cu) m) \/
   ((exists e, r = Err e) /\
    (h_mails h' = h_mails h \/ exists m, h_mails h' = h_mails h ++ [m] /\ confirm_mail_to (u_email cu) m))).
Proof.
  intros Hc Eq. unfold run_hook, current_user in Eq.
  unfold bind at 1 in Eq. unfold bind at 1 in Eq. unfold get_h in Eq. rewrite Hc in Eq.
  unfold ret at 1 in Eq. cbn beta iota in Eq.
  set (fr := fun h : hst => (h_mails h, h_cuser h)) in *.
  assert (Fr : forall h1 h2, fr h2 = fr h1 -> h_mails h2 = h_mails h1 /\ h_cuser h2 = h_cuser h1)
    by (unfold fr; intros h1 h2 Hx; inversion Hx; auto).
  apply bind_inv in Eq as [([[sel ver] tok] & h1 & E1 & E2)|[(e & E1 & ->)|(E1 & ->)]].
  2,3: assert (G : rl (Rk fr) (generate_token E)) by (rl_go; rk_side);
       destruct (Fr _ _ (G _ _ _ E1)) as (M1 & C1); rewrite M1, C1.
  2:{ split; [eauto|]. right. split; [eauto|left; reflexivity]. }
  2:{ exfalso. unfold generate_token in E1.
      apply bind_inv in E1 as [(a & h2 & F1 & F2)|[(e & F1 & Hr)|(F1 & Hr)]]; try (inversion F2; fail);
        unfold Monad.fresh in F1; destruct (take_chunk 64 (h_fresh h)) as [[cc tl0]|]; inversion F1. }
  assert (G1 : rl (Rk fr) (generate_token E)) by (rl_go; rk_side).
  destruct (Fr _ _ (G1 _ _ _ E1)) as (M1 & C1). clear G1 E1.
  cbn beta iota zeta in E2. unfold store_back in E2.
  set (u' := cu <| u_confirmed := false |> <| u_csel := sel |> <| u_cver := ver |>) in *.
  assert (Em : u_email u' = u_email cu) by reflexivity.
  apply bind_inv in E2 as [(a & h2 & F1 & E2)|[(e & F1 & _)|(F1 & _)]]; try (inversion F1; fail).
  inversion F1; subst a h2; clear F1.
  apply bind_inv in E2 as [(a & h2 & F1 & E2)|[(e & F1 & _)|(F1 & _)]]; try (inversion F1; fail).
  inversion F1; subst a h2; clear F1.
  match type of E2 with bind _ _ ?hh = _ =>
    assert (M2 : h_mails hh = h_mails h) by exact M1;
    assert (C2 : h_cuser hh = Some u') by reflexivity;
    revert E2 M2 C2; generalize hh; intros h2 E2 M2 C2 end.
  apply bind_inv in E2 as [(a & h3 & F1 & E2)|[(e & F1 & ->)|(F1 & ->)]].
  2,3: assert (G : rl (Rk fr) (try (st_save (e_O E) u') (fun r => match r with
                                | Ok _ => ret tt | Err _ => fail ErrOther | Panic => panic end)))
         by (rl_go; rk_side);
       destruct (Fr _ _ (G _ _ _ F1)) as (M3 & C3); rewrite M3, C3, M2, C2.
  2:{ split; [eauto|]. right. split; [eauto|left; reflexivity]. }
  2:{ exfalso. apply try_inv in F1 as [(x & h4 & S1 & NP & K)|(S1 & _)].
      - destruct x; inversion K. congruence.
      - apply st_save_spec in S1 as (_ & _ & _ & _ & [(e' & Hr & _)|(Hr & _)]); discriminate Hr. }
  assert (G3 : rl (Rk fr) (try (st_save (e_O E) u') (fun r => match r with
                                | Ok _ => ret tt | Err _ => fail ErrOther | Panic => panic end)))
    by (rl_go; rk_side).
  destruct (Fr _ _ (G3 _ _ _ F1)) as (M3 & C3). clear G3 F1.
  apply bind_inv in E2 as [(a4 & h4 & F1 & E2)|[(e & F1 & _)|(F1 & _)]]; try (inversion F1; fail).
  inversion F1; subst a4 h4; clear F1.
  apply bind_inv in E2 as [(a5 & h5 & F1 & E2)|[(e & F1 & _)|(F1 & _)]]; try (inversion F1; fail).
  unfold send_mail, modify in F1. inversion F1; subst a5 h5; clear F1.
  match type of E2 with bind _ _ ?hh = _ =>
    assert (M5 : h_mails hh = h_mails h ++ [mkMail [u_email u'] (bs "confirm") (mail_url E (bs "/confirm") true f_cnf tok)])
      by (cbn; rewrite M3, M2; reflexivity);
    assert (C5 : h_cuser hh = Some u') by (cbn; rewrite C3, C2; reflexivity);
    revert E2 M5 C5; generalize hh; intros h5 E2 M5 C5 end.
  assert (Pm : confirm_mail_to (u_email cu) (mkMail [u_email u'] (bs "confirm") (mail_url E (bs "/confirm") true f_cnf tok)))
    by (split; [reflexivity|rewrite Em; reflexivity]).
  assert (G5 : rl (Rk fr) (redirect E (ro_ok (p_confirm_notok_of cfg)))) by (rl_go; rk_side).
  apply bind_inv in E2 as [(a6 & h6 & F1 & E2)|[(e & F1 & ->)|(F1 & ->)]];
    destruct (Fr _ _ (G5 _ _ _ F1)) as (M6 & C6).
  - inversion E2; subst r h'. rewrite M6, C6, M5, C5. split; [eauto|]. left. split; [reflexivity|eauto].
  - rewrite M6, C6, M5, C5. split; [eauto|]. right. split; [eauto|right; eauto].
  - exfalso. assert (G : forall hh x hh', redirect E (ro_ok (p_confirm_notok_of cfg)) hh = (x, hh') -> x <> Panic).
    { intros hh x hh' Rd. unfold redirect in Rd. destruct (c_api cfg).
      - apply bind_inv in Rd as [(b1 & g1 & R1 & R2)|[(e & R1 & ->)|(R1 & ->)]]; try discriminate.
        + inversion R2. discriminate.
        + unfold render, backend in R1. destruct (fault_at _ _) as [[|]|]; inversion R1.
      - cbn [ro_ok ro_success ro_failure] in Rd. inversion Rd. discriminate. }
    exact (G _ _ _ F1 eq_refl).
Qed.

(* Events.call over confirmation starters only: one confirmation mail per hook that returned, and
   the chain never ends "not handled" unless it is empty *)
Lemma call_confirm_start hs : Forall (eq HConfirmStart) hs -> forall rm hd h cu r h',
  h_cuser h = Some cu -> call E hs rm hd h = (r, h') ->
  exists ms, h_mails h' = h_mails h ++ ms /\ Forall (confirm_mail_to (u_email cu)) ms /\
    forall b, r = Ok b -> length ms = length hs /\ (hs <> [] -> b = true).
Proof.
  induction 1 as [|hk hs <- _ IH]; intros rm hd h cu r h' Hc Eq.
  - inversion Eq; subst. exists []. rewrite app_nil_r. split; [reflexivity|]. split; [constructor|].
    intros b _. split; [reflexivity|]. intros Hx; congruence.
  - cbn [call] in Eq.
    apply bind_inv in Eq as [(i & h1 & E1 & E2)|[(e & E1 & ->)|(E1 & ->)]];
      destruct (confirm_start_spec _ _ _ _ _ _ Hc E1) as ((cu' & C1 & Em) & [(Hr & m & M1 & Pm)|((e' & Hr) & Mx)]);
      try discriminate Hr.
    + inversion Hr; subst i. rewrite Bool.orb_true_r in E2.
      destruct (IH _ _ _ _ _ _ C1 E2) as (ms & M2 & F2 & Ok2).
      exists (m :: ms). rewrite M2, M1, <- app_assoc. split; [reflexivity|].
      split; [constructor; [exact Pm|rewrite <- Em; exact F2]|].
      intros b Hb. destruct (Ok2 b Hb) as (L2 & B2). split; [cbn; congruence|]. intros _.
      destruct hs as [|hk2 hs2]; [|apply B2; discriminate].
      inversion E2 as [[Hr2 Hh2]]. congruence.
    + destruct Mx as [Mx|(m & Mx & Pm)].
      * exists []. rewrite app_nil_r. split; [exact Mx|]. split; [constructor|]. intros b Hb; discriminate Hb.
      * exists [m]. split; [exact Mx|]. split; [constructor; [exact Pm|constructor]|]. intros b Hb; discriminate Hb.
Qed.
End HR.

Section RG2.
Variable E : env.
Notation cfg := (e_cfg E).
Notation vals := (values E).
Notation pid := (reg_pid E).

(* what /register does once Create has succeeded *)
Definition reg_tail : M unit :=
  handled <- fire E EvAfterRegister false ;;
  if handled then ret tt
  else put_session k_uid pid ;;; log [pid] ;;; redirect E (ro_ok (p_register_ok_of cfg)).

(* everything a registration that creates nothing leaves alone *)
Definition reg_frame (h : hst) := (h_st h, h_mails h, h_sev h, h_cev h, h_cuser h).
Lemma reg_frame_inv h1 h2 : reg_frame h1 = reg_frame h2 ->
  h_st h1 = h_st h2 /\ h_mails h1 = h_mails h2 /\ h_sev h1 = h_sev h2 /\ h_cev h1 = h_cev h2 /\ h_cuser h1 = h_cuser h2.
Proof. unfold reg_frame. intros H. inversion H. auto. Qed.

Definition reg_frame_o (h : hst) := (reg_frame h, h_out h).
Lemma reg_frame_o_inv h1 h2 : reg_frame_o h1 = reg_frame_o h2 -> reg_frame h1 = reg_frame h2 /\ h_out h1 = h_out h2.
Proof. intros H. split; [exact (f_equal fst H)|exact (f_equal snd H)]. Qed.

Lemma st_create_spec3 u h r h' :
  st_create (e_O E) u h = (r, h') ->
  ((exists e, r = Err e) /\ reg_frame_o h' = reg_frame_o h) \/
  (r = Ok tt /\ ulookup (u_pid u) (s_users (h_st h)) = None /\
   h_st h' = h_st h <| s_users := s_users (h_st h) ++ [(u_pid u, u)] |> /\
   h_mails h' = h_mails h /\ h_sev h' = h_sev h /\ h_cev h' = h_cev h /\ h_cuser h' = h_cuser h /\ h_out h' = h_out h).
Proof.
  unfold st_create, backend. intros Eq.
  destruct (fault_at (h_ncalls h) (o_faults (e_O E))) as [[|]|].
  - left. inversion Eq; subst. split; [eauto|reflexivity].
  - left. inversion Eq; subst. split; [eauto|reflexivity].
  - cbn in Eq. destruct (ulookup (u_pid u) (s_users (h_st h))) eqn:L; inversion Eq; subst.
    + left. split; [eauto|reflexivity].
    + right. cbn. auto 10.
Qed.

(* the handler cut after Create: either nothing was created and the request left storage, mail
   outbox, client-state events and context user exactly as they were, or the submitted values
   passed the policy, the pid was free, the new record is in storage and in the context, and the
   rest of the handler is [reg_tail] *)
Lemma register_post_cut h r h' :
  register_post E h = (r, h') ->
  reg_frame h' = reg_frame h \/
  (reg_ok E /\ ulookup pid (s_users (h_st h)) = None /\
   exists k1, h_st k1 = h_st h <| s_users := s_users (h_st h) ++ [(pid, reg_user E)] |> /\
     h_mails k1 = h_mails h /\ h_sev k1 = h_sev h /\ h_cev k1 = h_cev h /\ h_out k1 = h_out h /\
     h_cuser k1 = Some (reg_user E) /\ reg_tail k1 = (r, h')).
Proof.
  intros Eq. unfold register_post in Eq.
  apply bind_inv in Eq as [(v & h1 & E1 & E2)|[(e & E1 & _)|(E1 & _)]];
    apply read_values_spec in E1 as [-> [Hv|Hv]]; try (left; reflexivity).
  2:{ discriminate Hv. }
  inversion Hv; subst v; clear Hv.
  destruct (valid [pid_rule E; password_rule] pw_pairs vals) eqn:Vd; cbn [negb] in E2.
  2:{ left. assert (G : rl (Rk reg_frame) (log [] ;;; respond E (bs "register") [(bs "errors", DOther); (bs "preserve", DOther)]))
        by (rl_go; rk_side). exact (G _ _ _ E2). }
  cbv zeta in E2.
  destruct ((72 <? length (aget f_password vals))%nat) eqn:Ln.
  { left. assert (G : rl (Rk reg_frame) (backend (e_O E) KHash (@fail unit ErrOther))) by (rl_go; rk_side).
    exact (G _ _ _ E2). }
  apply Nat.ltb_ge in Ln.
  assert (Gh : rl (Rk reg_frame_o) (backend (e_O E) KHash (ret (pwhash (e_C E) (aget f_password vals)))))
    by (rl_go; rk_side).
  apply bind_inv in E2 as [(pass & h2 & F1 & E2)|[(e & F1 & _)|(F1 & _)]];
    destruct (reg_frame_o_inv _ _ (Gh _ _ _ F1)) as (Fh1 & Fh2);
    try (left; exact Fh1).
  apply reg_frame_inv in Fh1 as (S2 & M2 & V2 & W2 & C2).
  apply hash_spec in F1 as (_ & _ & _ & Hp). specialize (Hp pass eq_refl). subst pass.
  change (try (st_create (e_O E) (reg_user E)) (fun r0 =>
            match r0 with
            | Ok _ => set_cuser (reg_user E) ;;; reg_tail
            | Err ErrUserFound =>
                log [pid] ;;; respond E (bs "register") [(bs "errors", DOther); (bs "preserve", DOther)]
            | Err e => fail e
            | Panic => panic
            end) h2 = (r, h')) in E2.
  apply try_inv in E2 as [(x & k1 & L & NP & K)|(L & ->)].
  2:{ exfalso. apply st_create_spec3 in L as [((e & Hr) & _)|(Hr & _)]; discriminate Hr. }
  apply st_create_spec3 in L as [((e & ->) & Fk)|(-> & Hn & St & Mk & Vk & Wk & Ck & Ow)].
  - left. destruct (reg_frame_o_inv _ _ Fk) as (Fk1 & Fk2).
    assert (G : rl (Rk reg_frame) (match e with
                  | ErrUserFound => log [pid] ;;; respond E (bs "register") [(bs "errors", DOther); (bs "preserve", DOther)]
                  | e0 => @fail unit e0 end)) by (destruct e; rl_go; rk_side).
    pose proof (G _ _ _ K) as Gk. unfold Rk in Gk. rewrite Gk, Fk1. unfold reg_frame. congruence.
  - right. change (u_pid (reg_user E)) with pid in *. rewrite S2 in Hn.
    split; [split; assumption|]. split; [exact Hn|].
    apply bind_inv in K as [(a & k2 & F2 & K)|[(e & F2 & _)|(F2 & _)]]; try (inversion F2; fail).
    inversion F2; subst a k2; clear F2.
    exists (k1 <| h_cuser := Some (reg_user E) |>).
    split; [cbn; rewrite St, S2; reflexivity|]. split; [cbn; congruence|]. split; [cbn; congruence|].
    split; [cbn; congruence|]. split; [cbn; congruence|]. split; [reflexivity|exact K].
Qed.

(* the new record stays in storage through the hooks *)
Lemma reg_tail_keeps_record k1 r h' L0 :
  h_cuser k1 = Some (reg_user E) ->
  ulookup pid (s_users (h_st k1)) = Some (reg_user E) ->
  (forall p, p <> pid -> ulookup p (s_users (h_st k1)) = ulookup p L0) ->
  reg_tail k1 = (r, h') ->
  exists su, ulookup pid (s_users (h_st h')) = Some su /\ reg_like E su.
Proof.
  intros Hc Hs Fr K.
  assert (I2 : hinv pid (reg_like E) L0 k1).
  { split; [exists (reg_user E); repeat split; [exact Hc|apply reg_like_self]|]. split.
    - exists (reg_user E). split; [exact Hs|apply reg_like_self].
    - exact Fr. }
  assert (G : keeps_inv pid (reg_like E) L0 reg_tail).
  { unfold reg_tail. apply keeps_bind; [apply keeps_fire_all; [apply reg_like_lock|apply reg_like_confirm]|].
    intros [|]; apply keeps_of_pres; pres_go. }
  destruct (G _ _ _ I2 K) as (_ & Hs' & _). exact Hs'.
Qed.

(* a registration that leaves storage as it was appends no session event at all (in particular
   nobody is logged in) and sends no mail *)
Lemma register_nothing_created h r h' :
  register_post E h = (r, h') -> h_st h' = h_st h ->
  h_sev h' = h_sev h /\ h_cev h' = h_cev h /\ h_mails h' = h_mails h /\ h_cuser h' = h_cuser h.
Proof.
  intros Eq St. apply register_post_cut in Eq as [Fr|(_ & Hn & k1 & S1 & _ & _ & _ & _ & C1 & K)].
  - apply reg_frame_inv in Fr as (_ & A & B & C0 & D). auto.
  - exfalso.
    destruct (reg_tail_keeps_record k1 r h' (s_users (h_st h)) C1) as (su & Hs & _); [| |exact K|].
    + rewrite S1. cbn. apply ulookup_snoc_new. exact Hn.
    + intros p Np. rewrite S1. cbn. apply ulookup_snoc_neq. exact Np.
    + rewrite St, Hn in Hs. discriminate Hs.
Qed.

Lemma created_not_frame h h' su :
  ulookup pid (s_users (h_st h)) = None -> ulookup pid (s_users (h_st h')) = Some su -> reg_frame h' <> reg_frame h.
Proof. intros Hn Hs Fr. apply reg_frame_inv in Fr as (St & _). rewrite St, Hn in Hs. discriminate Hs. Qed.

Lemma neutral_no_uid ls : Forall sess_neutral ls -> forall v, ~ In (Put k_uid v) ls.
Proof. intros F v Hin. rewrite Forall_forall in F. exact (F _ Hin eq_refl). Qed.

(* the confirm module loaded: whatever the outcome, only uid-neutral session events; and when the
   account was created and the request succeeded, at least one confirmation mail - one per load of
   the module - was recorded, each to the new account's address *)
Lemma register_confirm_loaded h r h' :
  has_mod cfg MConfirm = true -> register_post E h = (r, h') ->
  (exists ls, h_sev h' = h_sev h ++ ls /\ Forall sess_neutral ls) /\
  (forall su, ulookup pid (s_users (h_st h)) = None -> ulookup pid (s_users (h_st h')) = Some su ->
     r = Ok tt ->
     exists ms, h_mails h' = h_mails h ++ ms /\ ms <> [] /\ Forall (confirm_mail_to (u_email (reg_user E))) ms).
Proof.
  intros HM Eq. apply register_post_cut in Eq as [Fr|(_ & _ & k1 & S1 & M1 & V1 & _ & _ & C1 & K)].
  - split.
    + apply reg_frame_inv in Fr as (_ & _ & B & _). exists []. rewrite app_nil_r. auto.
    + intros su Hn Hs _. exfalso. exact (created_not_frame _ _ _ Hn Hs Fr).
  - unfold reg_tail in K.
    apply bind_inv in K as [(hd & h1 & F1 & K)|[(e & F1 & ->)|(F1 & ->)]];
      destruct (neutral_fire E EvAfterRegister false _ _ _ F1) as [(ls & lc & Sv & _ & Fn & _) _];
      rewrite V1 in Sv.
    2,3: split; [eauto|intros su _ _ Hr; discriminate Hr].
    unfold fire in F1.
    destruct (call_confirm_start E _ (hooks_after_register_all E) _ _ _ _ _ _ C1 F1) as (ms & Ms & Fm & Okm).
    destruct (Okm hd eq_refl) as (Ln & Hd). specialize (Hd (hooks_after_register_loaded E HM)). subst hd.
    inversion K; subst r h'. split; [eauto|].
    intros su _ _ _. exists ms. rewrite Ms, M1. split; [reflexivity|]. split; [|exact Fm].
    intros ->. cbn in Ln. symmetry in Ln. apply length_zero_iff_nil in Ln.
    exact (hooks_after_register_loaded E HM Ln).
Qed.

(* the confirm module not loaded and the account created: the session is written for the submitted
   pid, and a request that succeeds from a state in which nothing was written flushes that event
   with its response *)
Lemma register_no_confirm_login h r h' su :
  has_mod cfg MConfirm = false -> register_post E h = (r, h') ->
  ulookup pid (s_users (h_st h)) = None -> ulookup pid (s_users (h_st h')) = Some su ->
  (exists ls, h_sev h' = h_sev h ++ Put k_uid pid :: ls /\ Forall sess_neutral ls) /\
  h_mails h' = h_mails h /\
  (h_out h = None -> r = Ok tt -> exists wr, h_out h' = Some wr /\ In (Put k_uid pid) (w_sev wr)).
Proof.
  intros HM Eq Hn Hs. apply register_post_cut in Eq as [Fr|(_ & _ & k1 & S1 & M1 & V1 & _ & O1 & C1 & K)].
  { exfalso. exact (created_not_frame _ _ _ Hn Hs Fr). }
  unfold reg_tail, fire in K. rewrite (hooks_after_register_none E HM) in K. cbn [call] in K.
  unfold bind at 1 in K. unfold ret at 1 in K. cbn beta iota in K.
  unfold bind at 1 in K. unfold put_session at 1, modify at 1 in K.
  match type of K with bind _ _ ?hh = _ =>
    assert (V2 : h_sev hh = h_sev h ++ [Put k_uid pid]) by (cbn; rewrite V1; reflexivity);
    assert (M2 : h_mails hh = h_mails h) by exact M1;
    assert (O2 : h_out hh = h_out h) by exact O1;
    revert K V2 M2 O2; generalize hh; intros k2 K V2 M2 O2 end.
  assert (Gn : evs_all sess_neutral any_ev (log [pid] ;;; redirect E (ro_ok (p_register_ok_of cfg)))).
  { apply evs_bind; [apply evs_log|intros _; apply neutral_redirect]. }
  assert (Gm : rl (Rk h_mails) (log [pid] ;;; redirect E (ro_ok (p_register_ok_of cfg)))) by (rl_go; rk_side).
  destruct (Gn _ _ _ K) as [(ls & lc & Sv & _ & Fn & _) _].
  split; [exists ls; rewrite Sv, V2, <- app_assoc; auto|].
  split; [rewrite (Gm _ _ _ K); exact M2|].
  intros Ho Hr. subst r.
  apply bind_inv in K as [(a & k3 & L1 & K)|[(e & L1 & Hx)|(L1 & Hx)]]; try discriminate Hx.
  apply log_same in L1 as (_ & L1 & L2 & _).
  apply redirect_unwritten in K; [|congruence]. cbv zeta in K.
  destruct K as (_ & _ & _ & _ & [(_ & _ & Ow)|((e & Hx) & _)]); [|discriminate Hx].
  eexists. split; [exact Ow|]. cbn [w_sev]. rewrite L2, V2. apply in_or_app. left. apply in_or_app. right. left. reflexivity.
Qed.
End RG2.

(* C19 as one statement about a registration that created the account: somebody is logged in
   exactly when the confirm module is not loaded *)
Theorem register_login_iff E h r h' su ls :
  register_post E h = (r, h') ->
  ulookup (reg_pid E) (s_users (h_st h)) = None -> ulookup (reg_pid E) (s_users (h_st h')) = Some su ->
  h_sev h' = h_sev h ++ ls ->
  ((exists v, In (Put k_uid v) ls) <-> has_mod (e_cfg E) MConfirm = false) /\
  (has_mod (e_cfg E) MConfirm = false ->
     In (Put k_uid (reg_pid E)) ls /\ h_mails h' = h_mails h /\
     (h_out h = None -> r = Ok tt -> exists wr, h_out h' = Some wr /\ In (Put k_uid (reg_pid E)) (w_sev wr))) /\
  (has_mod (e_cfg E) MConfirm = true -> r = Ok tt ->
     exists ms, h_mails h' = h_mails h ++ ms /\ ms <> [] /\
                Forall (confirm_mail_to (u_email (reg_user E))) ms).
Proof.
  intros Eq Hn Hs Sv. destruct (has_mod (e_cfg E) MConfirm) eqn:HM.
  - destruct (register_confirm_loaded E _ _ _ HM Eq) as ((ls0 & S0 & F0) & Ml).
    rewrite S0 in Sv. apply app_inv_head in Sv. subst ls0.
    split; [split; [intros (v & Hin); exfalso; exact (neutral_no_uid _ F0 v Hin)|discriminate]|].
    split; [discriminate|]. intros _ Hr. exact (Ml su Hn Hs Hr).
  - destruct (register_no_confirm_login E _ _ _ su HM Eq Hn Hs) as ((ls0 & S0 & F0) & Mm & Fl).
    rewrite S0 in Sv. apply app_inv_head in Sv. subst ls.
    split; [split; [reflexivity|intros _; exists (reg_pid E); left; reflexivity]|].
    split; [|discriminate]. intros _. split; [left; reflexivity|]. split; [exact Mm|exact Fl].
Qed.

(* ================================================================================================ *)
(* C16 (a) as one two-run statement                                                                  *)
(* ================================================================================================ *)

(* two requests that differ at most in the submitted password: everything else in the environment
   is the same, and the submitted values agree on every key but "password" *)
Definition same_but_password (E1 E2 : env) : Prop :=
  e_C E1 = e_C E2 /\ e_cfg E1 = e_cfg E2 /\ e_O E1 = e_O E2 /\ e_cook E1 = e_cook E2 /\ e_sess E1 = e_sess E2 /\
  q_browser (e_req E1) = q_browser (e_req E2) /\ q_meth (e_req E1) = q_meth (e_req E2) /\
  q_route (e_req E1) = q_route (e_req E2) /\ q_path (e_req E1) = q_path (e_req E2) /\
  q_rawquery (e_req E1) = q_rawquery (e_req E2) /\ q_query (e_req E1) = q_query (e_req E2) /\
  q_badbody (e_req E1) = q_badbody (e_req E2) /\
  forall k, k <> f_password -> alookup k (values E1) = alookup k (values E2).

(* the lock redirect depends on the configuration only (it never follows the redir parameter) *)
Lemma lock_view_cfg E1 E2 h : e_cfg E1 = e_cfg E2 -> lock_view E1 h = lock_view E2 h.
Proof.
  intros Hc. unfold lock_view, resp_of, flash_of. cbn [ro_fail ro_path ro_follow ro_success ro_failure].
  rewrite !redirect_target_nofollow, Hc. reflexivity.
Qed.

Lemma pid_field_not_password E : pid_field E <> f_password.
Proof. unfold pid_field. destruct (c_username (e_cfg E)); neq_const. Qed.

Theorem login_locked_same_view E1 E2 :
  same_but_password E1 E2 -> o_faults (e_O E1) = [] -> forall h r1 h1 r2 h2 u,
  login_post E1 h = (r1, h1) -> login_post E2 h = (r2, h2) -> h_out h = None ->
  q_badbody (e_req E1) = false -> (c_api (e_cfg E1) = true -> q_meth (e_req E1) <> GET) ->
  NoDup (c_mods (e_cfg E1)) -> has_mod (e_cfg E1) MLock = true -> 0 < c_lock_duration (e_cfg E1) ->
  ulookup (aget (pid_field E1) (values E1)) (s_users (h_st h)) = Some u ->
  u_confirmed u = true -> o_now (e_O E1) < u_locked u ->
  pwcheck (e_C E1) (u_password u) (aget f_password (values E1)) = true ->
  pwcheck (e_C E2) (u_password u) (aget f_password (values E2)) = false ->
  r1 = Ok tt /\ r2 = Ok tt /\ view h1 = view h2 /\ view h1 = lock_view E1 h.
Proof.
  intros (HC & Hcfg & HO & _ & _ & _ & Hm & _ & _ & _ & _ & Hbb & Hv) Nf h r1 h1 r2 h2 u
         L1 L2 Ho Bb Api ND HM Hd Lu Cf Lk Pw1 Pw2.
  destruct (login_locked_view_correct E1 Nf h r1 h1 u L1 Ho Bb Api ND HM Lu Cf Lk Pw1) as (-> & V1).
  assert (Pf : pid_field E2 = pid_field E1) by (unfold pid_field; rewrite Hcfg; reflexivity).
  assert (Lu2 : ulookup (aget (pid_field E2) (values E2)) (s_users (h_st h)) = Some u).
  { rewrite Pf. unfold aget. rewrite <- (Hv _ (pid_field_not_password E1)). exact Lu. }
  assert (Nf2 : o_faults (e_O E2) = []) by (rewrite <- HO; exact Nf).
  assert (Bb2 : q_badbody (e_req E2) = false) by (rewrite <- Hbb; exact Bb).
  assert (Api2 : c_api (e_cfg E2) = true -> q_meth (e_req E2) <> GET) by (rewrite <- Hcfg, <- Hm; exact Api).
  assert (ND2 : NoDup (c_mods (e_cfg E2))) by (rewrite <- Hcfg; exact ND).
  assert (HM2 : has_mod (e_cfg E2) MLock = true) by (rewrite <- Hcfg; exact HM).
  assert (Hd2 : 0 < c_lock_duration (e_cfg E2)) by (rewrite <- Hcfg; exact Hd).
  assert (Lk2 : o_now (e_O E2) < u_locked u) by (rewrite <- HO; exact Lk).
  destruct (login_locked_view_wrong E2 Nf2 h r2 h2 u L2 Ho Bb2 Api2 ND2 HM2 Hd2 Lu2 Lk2 Pw2) as (-> & V2).
  split; [reflexivity|]. split; [reflexivity|]. split; [|exact V1].
  rewrite V1, V2. apply lock_view_cfg. exact Hcfg.
Qed.

(* ================================================================================================ *)
(* the statements of Props/C03c.v                                                                    *)
(* ================================================================================================ *)
Lemma stack_blocks_locked_lemma E full tf fr c r e h res h' :
  h_out h = None -> h_cuser h = None -> h_cpid h = None ->
  app_stack E full tf fr true c r e h = (res, h') -> app_ran h' ->
  exists pid u, stack_names E r pid /\
    ulookup pid (s_users (h_st h)) = Some u /\ ulookup pid (s_users (h_st h')) = Some u /\
    is_locked E u = false.
Proof.
  intros Ho Hc Hp Eq Ran.
  destruct (stack_app_ran_lemma E full tf fr true c r e h res h' Ho Hc Hp Eq Ran) as (_ & pid & u & Nm & Lu & Su & Lk & _).
  exists pid, u. split; [exact Nm|]. split; [exact Lu|]. split; [rewrite Su; exact Lu|exact (Lk eq_refl)].
Qed.

Lemma stack_blocks_unconfirmed_lemma E full tf fr l r e h res h' :
  h_out h = None -> h_cuser h = None -> h_cpid h = None ->
  app_stack E full tf fr l true r e h = (res, h') -> app_ran h' ->
  exists pid u, stack_names E r pid /\
    ulookup pid (s_users (h_st h)) = Some u /\ ulookup pid (s_users (h_st h')) = Some u /\
    u_confirmed u = true.
Proof.
  intros Ho Hc Hp Eq Ran.
  destruct (stack_app_ran_lemma E full tf fr l true r e h res h' Ho Hc Hp Eq Ran) as (_ & pid & u & Nm & Lu & Su & _ & Cf).
  exists pid, u. split; [exact Nm|]. split; [exact Lu|]. split; [rewrite Su; exact Lu|exact (Cf eq_refl)].
Qed.

Lemma step_blocks_locked_lemma C cfg w req O full tf fr c r e :
  q_route req = RApp full tf fr true c r e ->
  let b := q_browser req in
  let E := mkEnv C cfg O req (jar_get b (w_cook w)) (jar_get b (w_sess w)) in
  let w' := fst (step C cfg w (AReq req) O) in
  let o := snd (step C cfg w (AReq req) O) in
  (exists d, ob_resp o = Some (RespPage 200 (bs "app") d)) ->
  exists pid u, stack_names E r pid /\
    ulookup pid (s_users (w_st w)) = Some u /\ ulookup pid (s_users (w_st w')) = Some u /\
    u_locked u <= o_now O.
Proof.
  intros Rt b E w' o Hd.
  destruct (step_app_served_lemma C cfg w req O full tf fr true c r e Rt Hd) as (_ & _ & pid & u & Nm & Lu & Su & Lk & _).
  exists pid, u. split; [exact Nm|]. split; [exact Lu|]. split; [|exact (Lk eq_refl)].
  unfold w'. rewrite Su. exact Lu.
Qed.

Lemma step_blocks_unconfirmed_lemma C cfg w req O full tf fr l r e :
  q_route req = RApp full tf fr l true r e ->
  let b := q_browser req in
  let E := mkEnv C cfg O req (jar_get b (w_cook w)) (jar_get b (w_sess w)) in
  let w' := fst (step C cfg w (AReq req) O) in
  let o := snd (step C cfg w (AReq req) O) in
  (exists d, ob_resp o = Some (RespPage 200 (bs "app") d)) ->
  exists pid u, stack_names E r pid /\
    ulookup pid (s_users (w_st w)) = Some u /\ ulookup pid (s_users (w_st w')) = Some u /\
    u_confirmed u = true.
Proof.
  intros Rt b E w' o Hd.
  destruct (step_app_served_lemma C cfg w req O full tf fr l true r e Rt Hd) as (_ & _ & pid & u & Nm & Lu & Su & _ & Cf).
  exists pid, u. split; [exact Nm|]. split; [exact Lu|]. split; [|exact (Cf eq_refl)].
  unfold w'. rewrite Su. exact Lu.
Qed.

Lemma step_refused_reading C cfg w req O p :
  step_refused C cfg w req O p <->
  (let w' := fst (step C cfg w (AReq req) O) in
   let o := snd (step C cfg w (AReq req) O) in
   w_st w' = w_st w /\ ob_err o = false /\ ob_panic o = false /\
   (ob_resp o = Some (if c_api cfg then RespRedirectAPI 307 p true else RespRedirect302 p) \/
    (ob_resp o = None /\ c_api cfg = true /\ exists n ek, fault_at n (o_faults O) = Some ek)) /\
   (c_api cfg = false -> ob_resp o <> None ->
      alookup k_flash_err (jar_get (q_browser req) (w_sess w')) = Some v_flash)).
Proof. reflexivity. Qed.

(* ================================================================================================ *)
(* the statements of Props/C19c.v, with the submitted pid and the new account's address spelled out *)
(* ================================================================================================ *)
Lemma register_login_iff_lemma (E : env) h r h' su ls :
  register_post E h = (r, h') ->
  ulookup (aget (pid_field E) (values E)) (s_users (h_st h)) = None ->
  ulookup (aget (pid_field E) (values E)) (s_users (h_st h')) = Some su ->
  h_sev h' = h_sev h ++ ls ->
  ((exists v, In (Put k_uid v) ls) <-> has_mod (e_cfg E) MConfirm = false) /\
  (has_mod (e_cfg E) MConfirm = false ->
     In (Put k_uid (aget (pid_field E) (values E))) ls /\ h_mails h' = h_mails h /\
     (h_out h = None -> r = Ok tt ->
        exists wr, h_out h' = Some wr /\ In (Put k_uid (aget (pid_field E) (values E))) (w_sev wr))) /\
  (has_mod (e_cfg E) MConfirm = true -> r = Ok tt ->
     exists ms, h_mails h' = h_mails h ++ ms /\ ms <> [] /\
       Forall (confirm_mail_to (if c_username (e_cfg E) then aget f_email (arbitrary_of (values E))
                                else aget (pid_field E) (values E))) ms).
Proof. exact (register_login_iff E h r h' su ls). Qed.

Lemma register_confirm_loaded_lemma (E : env) h r h' :
  has_mod (e_cfg E) MConfirm = true -> register_post E h = (r, h') ->
  exists ls, h_sev h' = h_sev h ++ ls /\ forall v, ~ In (Put k_uid v) ls.
Proof.
  intros HM Eq. destruct (register_confirm_loaded E _ _ _ HM Eq) as ((ls & Sv & F) & _).
  exists ls. split; [exact Sv|exact (neutral_no_uid ls F)].
Qed.

Lemma register_no_login_without_account (E : env) h r h' :
  register_post E h = (r, h') -> h_st h' = h_st h ->
  h_sev h' = h_sev h /\ h_cev h' = h_cev h /\ h_mails h' = h_mails h /\ h_cuser h' = h_cuser h /\
  forall ls, h_sev h' = h_sev h ++ ls -> forall v, ~ In (Put k_uid v) ls.
Proof.
  intros Eq St. destruct (register_nothing_created E _ _ _ Eq St) as (A & B & C0 & D).
  repeat (split; [assumption|]). intros ls Sv v Hin. rewrite A in Sv.
  rewrite <- (app_nil_r (h_sev h)) in Sv at 1. apply app_inv_head in Sv. subst ls. destruct Hin.
Qed.

Lemma after_register_hooks_lemma (E : env) :
  Forall (eq HConfirmStart) (hooks E EvAfterRegister) /\
  (has_mod (e_cfg E) MConfirm = true -> hooks E EvAfterRegister <> []) /\
  (has_mod (e_cfg E) MConfirm = false -> hooks E EvAfterRegister = []).
Proof.
  split; [apply hooks_after_register_all|]. split; [apply hooks_after_register_loaded|apply hooks_after_register_none].
Qed.

Lemma same_but_password_reading E1 E2 :
  same_but_password E1 E2 <->
  (e_C E1 = e_C E2 /\ e_cfg E1 = e_cfg E2 /\ e_O E1 = e_O E2 /\ e_cook E1 = e_cook E2 /\ e_sess E1 = e_sess E2 /\
   q_browser (e_req E1) = q_browser (e_req E2) /\ q_meth (e_req E1) = q_meth (e_req E2) /\
   q_route (e_req E1) = q_route (e_req E2) /\ q_path (e_req E1) = q_path (e_req E2) /\
   q_rawquery (e_req E1) = q_rawquery (e_req E2) /\ q_query (e_req E1) = q_query (e_req E2) /\
   q_badbody (e_req E1) = q_badbody (e_req E2) /\
   forall k, k <> f_password -> alookup k (values E1) = alookup k (values E2)).
Proof. reflexivity. Qed.

(* the relation is inhabited the way one expects: overwrite the form's password field *)
Lemma alookup_app_l k (a b : amap) :
  alookup k (a ++ b) = match alookup k a with Some v => Some v | None => alookup k b end.
Proof. induction a as [|[k' v] a IH]; cbn; [reflexivity|]. destruct (beqb k k'); [reflexivity|exact IH]. Qed.

Lemma set_password_same (E : env) pw :
  same_but_password E (mkEnv (e_C E) (e_cfg E) (e_O E)
    (mkRequest (q_browser (e_req E)) (q_meth (e_req E)) (q_route (e_req E)) (q_path (e_req E))
               (q_rawquery (e_req E)) (q_query (e_req E)) (aput f_password pw (q_form (e_req E)))
               (q_badbody (e_req E)))
    (e_cook E) (e_sess E)).
Proof.
  unfold same_but_password. cbn [e_C e_cfg e_O e_cook e_sess e_req q_browser q_meth q_route q_path q_rawquery q_query q_badbody].
  repeat (split; [reflexivity|]).
  intros k Nk. unfold values. cbn [e_cfg e_req q_form q_query].
  destruct (c_api (e_cfg E)).
  - symmetry. apply alookup_aput_neq. exact Nk.
  - rewrite !alookup_app_l. rewrite (alookup_aput_neq _ _ pw _ Nk). reflexivity.
Qed.
