(* The lock and confirm middlewares on the whole application stack (C03, second sentence), who is
   logged in after a registration (C19), and the two-run form of "a locked account answers a
   correct and a wrong password alike" (C16 a).

   Tool: a small logic [rl R m] - "whatever m does, the start and end states are related by R" -
   for any reflexive, transitive R, closed under the combinators of the handler monad.  It is
   instantiated with "this projection of the state is kept", "the context pid is as before or
   the one parsed from the cookie", "what was written is as before or is not the application
   page", "mails are only appended, and each appended one satisfies P". *)
From AB Require Import World.Step Base.TextProofs Proofs.EvLogic Proofs.Neutral Proofs.HandlerEvents Proofs.MonadInv
  Proofs.StoreLogic Proofs.Gate Proofs.LogoutProofs Proofs.ExpireProofs Proofs.StepLift2 Proofs.RegisterProofs
  Proofs.SameView Proofs.SameView2.
Open Scope Z_scope.

(* ---- the relational frame logic ---------------------------------------------------------------- *)
Class Pre (R : hst -> hst -> Prop) : Prop := {
  pre_refl : forall h, R h h;
  pre_trans : forall a b c, R a b -> R b c -> R a c
}.

Section RL.
Variable R : hst -> hst -> Prop.
Context {PR : Pre R}.

Definition rl {A} (m : M A) : Prop := forall h r h', m h = (r, h') -> R h h'.

Lemma rl_ret {A} (a : A) : rl (ret a).
Proof. intros h r h' Eq. inversion Eq; subst. apply pre_refl. Qed.
Lemma rl_fail {A} e : rl (@fail A e).
Proof. intros h r h' Eq. inversion Eq; subst. apply pre_refl. Qed.
Lemma rl_panic {A} : rl (@panic A).
Proof. intros h r h' Eq. inversion Eq; subst. apply pre_refl. Qed.
Lemma rl_get_h : rl get_h.
Proof. intros h r h' Eq. inversion Eq; subst. apply pre_refl. Qed.
Lemma rl_get_cuser : rl get_cuser.
Proof. intros h r h' Eq. inversion Eq; subst. apply pre_refl. Qed.

Lemma rl_bind {A B} (m : M A) (f : A -> M B) : rl m -> (forall a, rl (f a)) -> rl (bind m f).
Proof.
  intros Hm Hf h r h' Eq. apply bind_inv in Eq as [(a & h1 & E1 & E2)|[(e & E1 & _)|(E1 & _)]].
  - eapply pre_trans; [eapply Hm; eauto|eapply Hf; eauto].
  - eapply Hm; eauto.
  - eapply Hm; eauto.
Qed.
Lemma rl_try {A B} (m : M A) (f : res A -> M B) : rl m -> (forall r, rl (f r)) -> rl (try m f).
Proof.
  intros Hm Hf h r h' Eq. apply try_inv in Eq as [(x & h1 & E1 & _ & E2)|(E1 & _)].
  - eapply pre_trans; [eapply Hm; eauto|eapply Hf; eauto].
  - eapply Hm; eauto.
Qed.

Lemma rl_state {A} (m : M A) : (forall h, R h (snd (m h))) -> rl m.
Proof. intros H h r h' Eq. specialize (H h). rewrite Eq in H. exact H. Qed.
Lemma rl_modify f : (forall h, R h (f h)) -> rl (modify f).
Proof. intros H. apply rl_state. intros h. apply H. Qed.
Lemma rl_backend O {A} k (body : M A) :
  (forall h, R h (h <| h_ncalls := S (h_ncalls h) |> <| h_calls := k :: h_calls h |>)) ->
  rl body -> rl (backend O k body).
Proof.
  intros Hc Hb h r h' Eq. unfold backend in Eq.
  destruct (fault_at (h_ncalls h) (o_faults O)) as [[|]|].
  - inversion Eq; subst. apply Hc.
  - inversion Eq; subst. apply Hc.
  - eapply pre_trans; [apply Hc|eapply Hb; eauto].
Qed.
End RL.

(* syntax-directed prover; leaves the side conditions [forall h, R h (f h)] of the state changes *)
Ltac rl_step :=
  match goal with
  | |- rl _ (bind _ _) => apply rl_bind; [exact _| |intros]
  | |- rl _ (try _ _) => apply rl_try; [exact _| |intros]
  | |- rl _ (ret _) => apply rl_ret; exact _
  | |- rl _ (fail _) => apply rl_fail; exact _
  | |- rl _ panic => apply rl_panic; exact _
  | |- rl _ get_h => apply rl_get_h; exact _
  | |- rl _ get_cuser => apply rl_get_cuser; exact _
  | |- rl _ (put_session _ _) => unfold put_session; apply rl_modify
  | |- rl _ (del_session _) => unfold del_session; apply rl_modify
  | |- rl _ (delall_session _) => unfold delall_session; apply rl_modify
  | |- rl _ (put_cookie _ _) => unfold put_cookie; apply rl_modify
  | |- rl _ (del_cookie _) => unfold del_cookie; apply rl_modify
  | |- rl _ (write_resp _) => unfold write_resp; apply rl_modify
  | |- rl _ (log _) => unfold log; apply rl_modify
  | |- rl _ (set_cuser _) => unfold set_cuser; apply rl_modify
  | |- rl _ (set_cpid _) => unfold set_cpid; apply rl_modify
  | |- rl _ (fresh _) => apply rl_state
  | |- rl _ (st_load _ _) => unfold st_load; apply rl_backend; [exact _| |]
  | |- rl _ (st_save _ _) => unfold st_save; apply rl_backend; [exact _| |]
  | |- rl _ (st_create _ _) => unfold st_create; apply rl_backend; [exact _| |]
  | |- rl _ (st_add_rm _ _ _) => unfold st_add_rm; apply rl_backend; [exact _| |]
  | |- rl _ (st_use_rm _ _ _) => unfold st_use_rm; apply rl_backend; [exact _| |]
  | |- rl _ (st_del_rm _ _) => unfold st_del_rm; apply rl_backend; [exact _| |]
  | |- rl _ (backend _ _ _) => apply rl_backend; [exact _| |]
  | |- rl _ (modify _) => apply rl_modify
  | |- rl _ (if ?c then _ else _) => destruct c eqn:?
  | |- rl _ (match ?x with _ => _ end) => destruct x eqn:?
  | |- rl _ (let '(_, _) := ?x in _) => destruct x eqn:?
  | |- rl _ (fun h => _) => apply rl_state
  end.
Ltac rl_go := repeat (unfold_derived; cbn beta iota; rl_step).

(* ---- instance 1: a projection of the state is kept ---------------------------------------------- *)
Definition Rk {X : Type} (proj : hst -> X) (h h' : hst) : Prop := proj h' = proj h.
#[export] Instance Pre_Rk {X} (proj : hst -> X) : Pre (Rk proj).
Proof. split; unfold Rk; intros; congruence. Qed.

(* side conditions of [Rk]: the changed field is not one the projection reads *)
Ltac rk_side :=
  intros; unfold Rk, Monad.fresh; cbn;
  repeat match goal with |- context [match ?x with _ => _ end] => destruct x end; reflexivity.

(* what the stack's head (expire, remember) must leave alone *)
Definition out3 (h : hst) := (h_out h, s_users (h_st h), h_cuser h).

(* ---- instance 2: the context pid is as before, or a given one ----------------------------------- *)
Definition Rcpid (p : bytes) (h h' : hst) : Prop := h_cpid h' = h_cpid h \/ h_cpid h' = Some p.
#[export] Instance Pre_Rcpid p : Pre (Rcpid p).
Proof.
  split; unfold Rcpid; [auto|]. intros a b c [H1|H1] [H2|H2]; rewrite ?H2, ?H1; auto.
Qed.
Ltac rcpid_side :=
  intros; unfold Rcpid, Monad.fresh; cbn;
  repeat match goal with |- context [match ?x with _ => _ end] => destruct x end; cbn; auto.

(* ---- instance 3: what was written is as before, or satisfies P ----------------------------------- *)
Definition Rout (P : response -> Prop) (h h' : hst) : Prop :=
  h_out h' = h_out h \/ exists wr, h_out h' = Some wr /\ P (w_resp wr).
#[export] Instance Pre_Rout P : Pre (Rout P).
Proof.
  split; unfold Rout; [auto|]. intros a b c H1 [H2|H2]; [rewrite H2; exact H1|right; exact H2].
Qed.

(* ---- instance 4: mails are only appended, each satisfying P -------------------------------------- *)
Definition Rmail (P : mail -> Prop) (h h' : hst) : Prop :=
  exists ms, h_mails h' = h_mails h ++ ms /\ Forall P ms.
#[export] Instance Pre_Rmail P : Pre (Rmail P).
Proof.
  split; unfold Rmail.
  - intros h. exists []. rewrite app_nil_r. auto.
  - intros a b c (m1 & E1 & F1) (m2 & E2 & F2). exists (m1 ++ m2). rewrite E2, E1, app_assoc.
    split; [reflexivity|apply Forall_app; auto].
Qed.
Ltac rmail_same :=
  intros; unfold Rmail, Monad.fresh; cbn;
  repeat match goal with |- context [match ?x with _ => _ end] => destruct x end;
  exists []; cbn; rewrite app_nil_r; auto.

(* ================================================================================================ *)
(* C03, second sentence: the lock / confirm middlewares on the whole stack                           *)
(* ================================================================================================ *)

(* "the application handler ran": the response on the wire is the application's page *)
Definition is_app_page (r : response) : Prop := exists d, r = RespPage 200 (bs "app") d.
Definition not_app (r : response) : Prop := ~ is_app_page r.
Definition app_ran (h : hst) : Prop := exists wr, h_out h = Some wr /\ is_app_page (w_resp wr).

Ltac not_app_tac := let d := fresh "d" in let H := fresh "H" in intros (d & H); discriminate H.
Ltac rout_side :=
  intros; unfold Rout, Monad.fresh; cbn;
  repeat match goal with |- context [match ?x with _ => _ end] => destruct x eqn:? end; cbn;
  first [ left; reflexivity | left; assumption
        | right; eexists; split; [reflexivity|]; cbn; not_app_tac ].

Lemma Rout_none_not_ran h h' : Rout not_app h h' -> h_out h = None -> ~ app_ran h'.
Proof.
  intros [H|(wr & H & N)] Ho (wr' & Hw & A).
  - rewrite H, Ho in Hw. discriminate Hw.
  - rewrite H in Hw. inversion Hw; subst wr'. exact (N A).
Qed.

(* the cookie names a pid: what remember.Authenticate parses out of the remember cookie *)
Definition cookie_names (E : env) (pid : bytes) : Prop :=
  exists cookie raw, alookup k_rm (e_cook E) = Some cookie /\ b64url_dec cookie = Some raw /\
                     rm_parse_pid raw = Some pid.

(* the account a request to an application route can be served as: the one named by the session's
   user id, or - with the remember middleware in the stack - the one named by the remember cookie *)
Definition stack_names (E : env) (remembermw : bool) (pid : bytes) : Prop :=
  (bempty pid = false /\ pid = aget k_uid (e_sess E)) \/
  (remembermw = true /\ cookie_names E pid).

Section MW.
Variable E : env.
Notation cfg := (e_cfg E).
Notation O := (e_O E).

(* ---- event classes of the pieces ---- *)
Lemma rout_redirect ro : rl (Rout not_app) (redirect E ro).
Proof. rl_go; rout_side. Qed.
Lemma rout_mw_fail mp fr : rl (Rout not_app) (mw_fail E mp fr).
Proof. unfold mw_fail. rl_go; rout_side. Qed.
Lemma rout_auth_middleware mp full tf fr : rl (Rout not_app) (auth_middleware E mp full tf fr).
Proof. unfold auth_middleware, mw_fail. rl_go; rout_side. Qed.
Lemma rout_lock_mw : rl (Rout not_app) (lock_mw E).
Proof. unfold lock_mw. rl_go; rout_side. Qed.
Lemma rout_confirm_mw : rl (Rout not_app) (confirm_mw E).
Proof. unfold confirm_mw. rl_go; rout_side. Qed.

(* ---- the user the gate loads ---- *)
Definition cur_pid (h : hst) : bytes :=
  match h_cpid h with Some p => p | None => aget k_uid (e_sess E) end.

Definition after_load_pid (h : hst) : hst :=
  h <| h_cpid := Some (cur_pid h) |> <| h_ncalls := S (h_ncalls h) |> <| h_calls := KLoad :: h_calls h |>.

Opaque k_uid.
Lemma load_cu_eq h :
  h_cuser h = None ->
  load_current_user E h =
  if bempty (cur_pid h) then (Err ErrUserNotFound, h) else
  match fault_at (h_ncalls h) (o_faults O) with
  | Some EGeneric => (Err ErrOther, after_load_pid h)
  | Some ENotFound => (Err ErrUserNotFound, after_load_pid h)
  | None => match ulookup (cur_pid h) (s_users (h_st h)) with
            | Some u => (Ok u, after_load_pid h <| h_cuser := Some u |>)
            | None => (Err ErrUserNotFound, after_load_pid h)
            end
  end.
Proof.
  intros Hc. unfold load_current_user, current_user_id, after_load_pid, cur_pid, bind, get_h. rewrite Hc.
  destruct (h_cpid h) as [p|] eqn:Hp; unfold ret.
  - destruct (bempty p); [reflexivity|].
    unfold set_cpid, modify, st_load, backend, set_cuser, modify. cbn.
    destruct (fault_at (h_ncalls h) (o_faults O)) as [[|]|]; try reflexivity.
    destruct (ulookup p (s_users (h_st h))); reflexivity.
  - destruct (bempty (aget k_uid (e_sess E))); [reflexivity|].
    unfold set_cpid, modify, st_load, backend, set_cuser, modify. cbn.
    destruct (fault_at (h_ncalls h) (o_faults O)) as [[|]|]; try reflexivity.
    destruct (ulookup (aget k_uid (e_sess E)) (s_users (h_st h))); reflexivity.
Qed.
Transparent k_uid.

(* admitted, from a state without a context user: the requirements hold, and the context user
   is now the record stored under the id the request is served as *)
Lemma gate_admits_record mp full tf fr h h' :
  h_cuser h = None -> auth_middleware E mp full tf fr h = (Ok true, h') ->
  reqs_ok E full tf = true /\ bempty (cur_pid h) = false /\
  exists u, ulookup (cur_pid h) (s_users (h_st h)) = Some u /\ h_cuser h' = Some u /\
            h_out h' = h_out h /\ h_st h' = h_st h /\ h_sev h' = h_sev h /\ h_cev h' = h_cev h.
Proof.
  intros Hc Eq. unfold auth_middleware in Eq.
  destruct (reqs_ok E full tf) eqn:Rq.
  2:{ rewrite (reqs_ok_false _ _ _ Rq) in Eq.
      apply bind_inv in Eq as [(a & h1 & E1 & E2)|[(e & E1 & Hr)|(E1 & Hr)]];
        [cbv [ret] in E2; discriminate E2|discriminate Hr|discriminate Hr]. }
  rewrite (reqs_ok_true _ _ _ Rq) in Eq. split; [reflexivity|].
  unfold try in Eq. rewrite (load_cu_eq _ Hc) in Eq.
  assert (Bad : forall (e : herr) hh, ~ (match e with
                 | ErrUserNotFound => mw_fail E mp fr ;;; ret false
                 | _ => log [] ;;; write_resp (RespStatus 500) ;;; ret false end) hh = (Ok true, h')).
  { intros e hh K. destruct e;
      apply bind_inv in K as [(a & h2 & F1 & K)|[(e & F1 & Hr)|(F1 & Hr)]]; try discriminate Hr;
      try (cbv [ret] in K; discriminate K);
      apply bind_inv in K as [(a2 & h3 & F2 & K)|[(e & F2 & Hr)|(F2 & Hr)]]; try discriminate Hr;
      cbv [ret] in K; discriminate K. }
  destruct (bempty (cur_pid h)); [exfalso; exact (Bad ErrUserNotFound _ Eq)|]. split; [reflexivity|].
  destruct (fault_at (h_ncalls h) (o_faults O)) as [[|]|];
    [exfalso; exact (Bad ErrOther _ Eq)|exfalso; exact (Bad ErrUserNotFound _ Eq)|].
  destruct (ulookup (cur_pid h) (s_users (h_st h))) as [u|]; [|exfalso; exact (Bad ErrUserNotFound _ Eq)].
  inversion Eq; subst h'. exists u. cbn. auto 10.
Qed.

(* ---- the two middlewares behind the gate: exact behaviour with a context user ---- *)
Definition lock_refusal : M bool :=
  fun h => match h_cuser h with
           | Some u => (log [u_pid u; q_path (e_req E)] ;;;
                        try (redirect E (ro_fail (p_lock_notok_of cfg))) (fun _ => ret tt) ;;; ret false) h
           | None => (Panic, h)
           end.
Definition confirm_refusal : M bool :=
  fun h => match h_cuser h with
           | Some u => (log [u_pid u; q_path (e_req E)] ;;;
                        try (redirect E (ro_fail (p_confirm_notok_of cfg))) (fun _ => ret tt) ;;; ret false) h
           | None => (Panic, h)
           end.

Lemma lock_mw_cached h u :
  h_cuser h = Some u ->
  lock_mw E h = if is_locked E u then lock_refusal h else (Ok true, h).
Proof.
  intros Hc. unfold lock_mw, try, lock_refusal. rewrite (load_cu_cached E _ _ Hc), Hc.
  destruct (is_locked E u); reflexivity.
Qed.
Lemma confirm_mw_cached h u :
  h_cuser h = Some u ->
  confirm_mw E h = if u_confirmed u then (Ok true, h) else confirm_refusal h.
Proof.
  intros Hc. unfold confirm_mw, try, confirm_refusal. rewrite (load_cu_cached E _ _ Hc), Hc.
  destruct (u_confirmed u); reflexivity.
Qed.

(* the refusal of either middleware: one log line, then the failure redirect to the configured
   path; storage, cookies and the context are left alone; only the API-mode renderer fault can
   keep the redirect from being written (the middleware swallows that error) *)
Definition refusal_tail : list csevent := if c_api cfg then [] else [Put k_flash_err v_flash].
Definition refusal_redirect (p : bytes) : response :=
  if c_api cfg then RespRedirectAPI 307 p true else RespRedirect302 p.

Lemma mw_refusal_shape (args : list bytes) (p : bytes) h r h' :
  h_out h = None ->
  (log args ;;; try (redirect E (ro_fail p)) (fun _ => ret tt) ;;; ret false) h = (r, h') ->
  r = Ok false /\ h_st h' = h_st h /\ h_cev h' = h_cev h /\ h_cuser h' = h_cuser h /\ h_cpid h' = h_cpid h /\
  h_mails h' = h_mails h /\
  ((h_sev h' = h_sev h ++ refusal_tail /\
    h_out h' = Some (mkWritten (refusal_redirect p) (h_sev h ++ refusal_tail) (h_cev h))) \/
   (c_api cfg = true /\ h_sev h' = h_sev h /\ h_out h' = None /\
    exists n ek, fault_at n (o_faults O) = Some ek)).
Proof.
  intros Ho Eq.
  apply bind_inv in Eq as [(a & h1 & E1 & E2)|[(e & E1 & _)|(E1 & _)]]; try (inversion E1; fail).
  assert (M1 : h_mails h1 = h_mails h) by (inversion E1; reflexivity).
  apply log_same in E1 as (_ & L1 & L2 & L3 & L4 & L5 & L6).
  apply bind_inv in E2 as [(a2 & h2 & E2 & E3)|[(e & E2 & Hr)|(E2 & Hr)]].
  2,3: exfalso; apply try_inv in E2 as [(x & h3 & Rd & _ & K)|(Rd & _)];
       [destruct x; inversion K|
        apply redirect_unwritten in Rd; [|congruence]; cbv zeta in Rd;
        destruct Rd as (_ & _ & _ & _ & [(Hx & _)|((e' & Hx) & _)]); discriminate Hx].
  inversion E3; subst r h'. clear E3.
  apply try_inv in E2 as [(x & h3 & Rd & _ & K)|(Rd & Hr)]; [|discriminate Hr].
  assert (h3 = h2) as -> by (destruct x; inversion K; reflexivity). clear K.
  assert (M2 : h_mails h2 = h_mails h1).
  { assert (G : rl (Rk h_mails) (redirect E (ro_fail p))) by (rl_go; rk_side). exact (G _ _ _ Rd). }
  apply redirect_unwritten in Rd; [|congruence]. cbv zeta in Rd.
  cbn [ro_fail ro_success ro_failure ro_path ro_follow] in Rd. rewrite redirect_target_nofollow in Rd.
  destruct Rd as (R1 & R2 & R3 & R4 & Rd).
  split; [reflexivity|]. repeat (split; [congruence|]).
  unfold refusal_tail, refusal_redirect.
  destruct Rd as [(_ & S2 & O2)|(_ & Api & O2 & S2 & Hf)].
  - left. rewrite S2, O2, L2, L3. destruct (c_api cfg); split; reflexivity.
  - right. repeat split; auto; congruence.
Qed.

Lemma lock_refusal_shape h u r h' :
  h_cuser h = Some u -> h_out h = None -> lock_refusal h = (r, h') ->
  r = Ok false /\ h_st h' = h_st h /\ h_cev h' = h_cev h /\ h_cuser h' = h_cuser h /\ h_cpid h' = h_cpid h /\
  h_mails h' = h_mails h /\
  ((h_sev h' = h_sev h ++ refusal_tail /\
    h_out h' = Some (mkWritten (refusal_redirect (p_lock_notok_of cfg)) (h_sev h ++ refusal_tail) (h_cev h))) \/
   (c_api cfg = true /\ h_sev h' = h_sev h /\ h_out h' = None /\
    exists n ek, fault_at n (o_faults O) = Some ek)).
Proof. intros Hc Ho Eq. unfold lock_refusal in Eq. rewrite Hc in Eq. exact (mw_refusal_shape _ _ _ _ _ Ho Eq). Qed.
Lemma confirm_refusal_shape h u r h' :
  h_cuser h = Some u -> h_out h = None -> confirm_refusal h = (r, h') ->
  r = Ok false /\ h_st h' = h_st h /\ h_cev h' = h_cev h /\ h_cuser h' = h_cuser h /\ h_cpid h' = h_cpid h /\
  h_mails h' = h_mails h /\
  ((h_sev h' = h_sev h ++ refusal_tail /\
    h_out h' = Some (mkWritten (refusal_redirect (p_confirm_notok_of cfg)) (h_sev h ++ refusal_tail) (h_cev h))) \/
   (c_api cfg = true /\ h_sev h' = h_sev h /\ h_out h' = None /\
    exists n ek, fault_at n (o_faults O) = Some ek)).
Proof. intros Hc Ho Eq. unfold confirm_refusal in Eq. rewrite Hc in Eq. exact (mw_refusal_shape _ _ _ _ _ Ho Eq). Qed.

(* the middlewares as the property reads them: they pass the request only for a user who is not
   locked / is confirmed, changing nothing; otherwise they refuse as above *)
Lemma lock_mw_spec h u r h' :
  h_cuser h = Some u -> h_out h = None -> lock_mw E h = (r, h') ->
  (is_locked E u = false /\ r = Ok true /\ h' = h) \/
  (is_locked E u = true /\ r = Ok false /\ h_st h' = h_st h /\ h_cev h' = h_cev h /\ h_cuser h' = h_cuser h /\
   ((h_sev h' = h_sev h ++ refusal_tail /\
     h_out h' = Some (mkWritten (refusal_redirect (p_lock_notok_of cfg)) (h_sev h ++ refusal_tail) (h_cev h))) \/
    (c_api cfg = true /\ h_sev h' = h_sev h /\ h_out h' = None /\
     exists n ek, fault_at n (o_faults O) = Some ek))).
Proof.
  intros Hc Ho Eq. rewrite (lock_mw_cached _ _ Hc) in Eq. destruct (is_locked E u).
  - right. destruct (lock_refusal_shape _ _ _ _ Hc Ho Eq) as (A1 & A2 & A3 & A4 & _ & _ & A7). auto 10.
  - left. inversion Eq; auto.
Qed.
Lemma confirm_mw_spec h u r h' :
  h_cuser h = Some u -> h_out h = None -> confirm_mw E h = (r, h') ->
  (u_confirmed u = true /\ r = Ok true /\ h' = h) \/
  (u_confirmed u = false /\ r = Ok false /\ h_st h' = h_st h /\ h_cev h' = h_cev h /\ h_cuser h' = h_cuser h /\
   ((h_sev h' = h_sev h ++ refusal_tail /\
     h_out h' = Some (mkWritten (refusal_redirect (p_confirm_notok_of cfg)) (h_sev h ++ refusal_tail) (h_cev h))) \/
    (c_api cfg = true /\ h_sev h' = h_sev h /\ h_out h' = None /\
     exists n ek, fault_at n (o_faults O) = Some ek))).
Proof.
  intros Hc Ho Eq. rewrite (confirm_mw_cached _ _ Hc) in Eq. destruct (u_confirmed u).
  - left. inversion Eq; auto.
  - right. destruct (confirm_refusal_shape _ _ _ _ Hc Ho Eq) as (A1 & A2 & A3 & A4 & _ & _ & A7). auto 10.
Qed.
End MW.

(* ---- the stack ------------------------------------------------------------------------------------ *)
Lemma out3_inv h1 h2 : out3 h1 = out3 h2 ->
  h_out h1 = h_out h2 /\ s_users (h_st h1) = s_users (h_st h2) /\ h_cuser h1 = h_cuser h2.
Proof. unfold out3. intros H. inversion H. auto. Qed.

(* one gate of the stack: if the application page ends up on the wire, the gate said yes *)
Lemma gate_stage (m : M bool) (K : M unit) h r h' :
  rl (Rout not_app) m -> h_out h = None ->
  (ok <- m ;; if negb ok then ret tt else K) h = (r, h') -> app_ran h' ->
  exists h1, m h = (Ok true, h1) /\ K h1 = (r, h').
Proof.
  intros Hm Ho Eq Ran. apply bind_inv in Eq as [(ok & h1 & E1 & E2)|[(e & E1 & _)|(E1 & _)]].
  - destruct ok; cbn [negb] in E2; [eauto|]. inversion E2; subst.
    exfalso. exact (Rout_none_not_ran _ _ (Hm _ _ _ E1) Ho Ran).
  - exfalso. exact (Rout_none_not_ran _ _ (Hm _ _ _ E1) Ho Ran).
  - exfalso. exact (Rout_none_not_ran _ _ (Hm _ _ _ E1) Ho Ran).
Qed.

Lemma app_handler_spec E h r h' : app_handler E h = (r, h') -> r = Ok tt /\ h_st h' = h_st h.
Proof.
  unfold app_handler, current_user_id, bind, get_h, write_resp, modify. 
  destruct (h_cpid h); cbv [ret]; intros Eq; inversion Eq; subst; split; try reflexivity;
    destruct (h_out h); reflexivity.
Qed.

(* everything behind expire and remember: if the application page was written, the gate loaded
   the record stored under the id the request is served as, and that record passed the lock /
   confirm middlewares that are installed *)
Lemma stack_core_ran E' full tf fr l c h r h' :
  h_cuser h = None -> h_out h = None ->
  stack_core E' full tf fr l c h = (r, h') -> app_ran h' ->
  r = Ok tt /\ reqs_ok E' full tf = true /\ bempty (cur_pid E' h) = false /\
  exists u, ulookup (cur_pid E' h) (s_users (h_st h)) = Some u /\ h_st h' = h_st h /\
            (l = true -> is_locked E' u = false) /\ (c = true -> u_confirmed u = true).
Proof.
  intros Hc Ho Eq Ran. unfold stack_core in Eq.
  apply gate_stage in Eq as (h1 & G & Eq); [|apply rout_auth_middleware|exact Ho|exact Ran].
  destruct (gate_admits_record _ _ _ _ _ _ _ Hc G) as (Rq & Nb & u & Lu & Cu & O1 & S1 & _).
  assert (Ho1 : h_out h1 = None) by congruence.
  apply gate_stage in Eq as (h2 & G2 & Eq);
    [|destruct l; [apply rout_lock_mw|apply rl_ret; exact _]|exact Ho1|exact Ran].
  assert (L2 : h2 = h1 /\ (l = true -> is_locked E' u = false)).
  { destruct l.
    - destruct (lock_mw_spec E' _ _ _ _ Cu Ho1 G2) as [(A & _ & B)|(_ & B & _)]; [auto|discriminate B].
    - inversion G2; subst. split; [reflexivity|discriminate]. }
  destruct L2 as (-> & Lk).
  apply gate_stage in Eq as (h3 & G3 & Eq);
    [|destruct c; [apply rout_confirm_mw|apply rl_ret; exact _]|exact Ho1|exact Ran].
  assert (L3 : h3 = h1 /\ (c = true -> u_confirmed u = true)).
  { destruct c.
    - destruct (confirm_mw_spec E' _ _ _ _ Cu Ho1 G3) as [(A & _ & B)|(_ & B & _)]; [auto|discriminate B].
    - inversion G3; subst. split; [reflexivity|discriminate]. }
  destruct L3 as (-> & Cf).
  apply app_handler_spec in Eq as (-> & S2).
  split; [reflexivity|]. split; [exact Rq|]. split; [exact Nb|].
  exists u. split; [exact Lu|]. split; [congruence|]. auto.
Qed.

(* the expire stage: always succeeds, writes nothing, touches neither storage nor the context, and
   a user id it shows downstream is the session's *)
Lemma expire_stage_spec E e h x h1 :
  (if e then expire_mw E else ret (e_sess E)) h = (x, h1) ->
  exists s, x = Ok s /\ out3 h1 = out3 h /\ h_cpid h1 = h_cpid h /\ h_st h1 = h_st h /\
    (bempty (aget k_uid s) = false -> aget k_uid s = aget k_uid (e_sess E)).
Proof.
  destruct e; [|intros Eq; inversion Eq; subst; exists (e_sess E); auto 6].
  unfold expire_mw. destruct (ahas k_uid (e_sess E)); [|intros Eq; inversion Eq; subst; exists (e_sess E); auto 6].
  match goal with |- (if ?c then _ else _) h = _ -> _ => destruct c end.
  - rewrite expire_branch_expired. intros Eq; inversion Eq; subst. exists (expired_view E).
    split; [reflexivity|]. split; [reflexivity|]. split; [reflexivity|]. split; [reflexivity|].
    unfold expired_view, aget. rewrite (alookup_filter_key (fun x => bmem x (c_whitelist (e_cfg E)))).
    destruct (bmem k_uid (c_whitelist (e_cfg E))); [reflexivity|intros Hb; discriminate Hb].
  - rewrite expire_branch_alive. intros Eq; inversion Eq; subst. exists (e_sess E). auto 6.
Qed.

(* the remember stage: it can set the context pid only to the pid its cookie names *)
Lemma remember_authenticate_cpid E h x h' :
  h_cpid h = None -> remember_authenticate E h = (x, h') ->
  h_cpid h' = None \/ exists pid, h_cpid h' = Some pid /\ cookie_names E pid.
Proof.
  intros Hp Eq. unfold remember_authenticate in Eq.
  destruct (alookup k_rm (e_cook E)) as [cookie|] eqn:Ck; [|inversion Eq; subst; auto].
  destruct (b64url_dec cookie) as [raw|] eqn:Dc.
  2:{ left. assert (G : rl (Rk h_cpid) (del_cookie k_rm ;;; log [])) by (rl_go; rk_side).
      rewrite (G _ _ _ Eq). exact Hp. }
  destruct (rm_parse_pid raw) as [pid|] eqn:Pp.
  2:{ left. assert (G : rl (Rk h_cpid) (del_cookie k_rm ;;; log [])) by (rl_go; rk_side).
      rewrite (G _ _ _ Eq). exact Hp. }
  cbv zeta in Eq.
  match type of Eq with ?m h = _ => assert (G : rl (Rcpid pid) m) by (rl_go; rcpid_side) end.
  destruct (G _ _ _ Eq) as [H|H]; [left; congruence|].
  right. exists pid. split; [exact H|]. exists cookie, raw. auto.
Qed.

Lemma remember_mw_cpid E h x h' :
  h_cpid h = None -> remember_mw E h = (x, h') ->
  h_cpid h' = None \/ exists pid, h_cpid h' = Some pid /\ cookie_names E pid.
Proof.
  intros Hp Eq. unfold remember_mw in Eq. unfold bind at 1 in Eq. rewrite (current_user_id_nocache _ _ Hp) in Eq.
  destruct (bempty (aget k_uid (e_sess E))); [|inversion Eq; subst; auto].
  apply try_inv in Eq as [(x0 & h1 & RA & _ & K)|(RA & _)].
  - assert (h_cpid h' = h_cpid h1) as -> by (destruct x0; inversion K; reflexivity).
    eapply remember_authenticate_cpid; eauto.
  - eapply remember_authenticate_cpid; eauto.
Qed.

Lemma remember_mw_out3 E : rl (Rk out3) (remember_mw E).
Proof. unfold remember_mw, remember_authenticate. rl_go; rk_side. Qed.

Lemma remember_stage_spec E r s h x h2 :
  h_cpid h = None -> remember_stage E r s h = (x, h2) ->
  out3 h2 = out3 h /\
  forall s2, x = Ok s2 ->
    (h_cpid h2 = None /\ s2 = s) \/
    (exists pid, h_cpid h2 = Some pid /\ s2 = aput k_halfauth v_true (aput k_uid pid s) /\
                 r = true /\ cookie_names E pid).
Proof.
  intros Hp Eq. unfold remember_stage in Eq.
  destruct r; [|inversion Eq; subst; split; [reflexivity|]; intros s2 Hs; inversion Hs; auto].
  apply bind_inv in Eq as [(a & h1 & RM & RV)|[(e & RM & ->)|(RM & ->)]].
  - pose proof (remember_mw_out3 _ _ _ _ RM) as K3. unfold Rk in K3.
    pose proof (remember_mw_cpid _ _ _ _ Hp RM) as Cp.
    unfold remembered_view, bind, get_h in RV.
    destruct (h_cpid h1) as [p|] eqn:Hp1; cbv [ret] in RV; inversion RV; subst x h2; (split; [exact K3|]);
      intros s2 Hs; inversion Hs; subst s2.
    + right. exists p. destruct Cp as [Cp|(pid & Cp & Nm)]; [discriminate Cp|].
      inversion Cp; subst pid. auto.
    + left. auto.
  - split; [exact (remember_mw_out3 _ _ _ _ RM)|]. intros s2 Hs; discriminate Hs.
  - split; [exact (remember_mw_out3 _ _ _ _ RM)|]. intros s2 Hs; discriminate Hs.
Qed.

(* C03 on the whole stack: from the start of a request (nothing written, no context user, no
   context pid), if the application page was written then the account the request was served as -
   named by the session's uid or, with the remember middleware, by the remember cookie - is held
   in storage, is not locked when the lock middleware is installed, and is confirmed when the
   confirm middleware is installed; the user table is as it was *)
Theorem stack_app_ran_lemma E full tf fr l c r e h res h' :
  h_out h = None -> h_cuser h = None -> h_cpid h = None ->
  app_stack E full tf fr l c r e h = (res, h') -> app_ran h' ->
  res = Ok tt /\
  exists pid u, stack_names E r pid /\ ulookup pid (s_users (h_st h)) = Some u /\
    s_users (h_st h') = s_users (h_st h) /\
    (l = true -> is_locked E u = false) /\ (c = true -> u_confirmed u = true).
Proof.
  intros Ho Hc Hp Eq Ran. rewrite app_stack_cut in Eq.
  apply bind_inv in Eq as [(s & h1 & X1 & Eq)|[(er & X1 & _)|(X1 & _)]];
    destruct (expire_stage_spec _ _ _ _ _ X1) as (s' & Hs & K1 & P1 & _ & U1); try discriminate Hs.
  inversion Hs; subst s'. clear Hs.
  apply out3_inv in K1 as (O1 & S1 & C1).
  unfold stack_tail in Eq.
  apply bind_inv in Eq as [(s2 & h2 & X2 & Eq)|[(er & X2 & _)|(X2 & _)]];
    destruct (remember_stage_spec _ _ _ _ _ _ (eq_trans P1 Hp) X2) as (K2 & Vw);
    apply out3_inv in K2 as (O2 & S2 & C2).
  2,3: exfalso; destruct Ran as (wr & Hw & _); rewrite O2, O1, Ho in Hw; discriminate Hw.
  destruct (stack_core_ran (with_sess E s2) full tf fr l c h2 res h') as (Hr & _ & Nb & u & Lu & St & Lk & Cf);
    [congruence|congruence|exact Eq|exact Ran|].
  split; [exact Hr|].
  unfold cur_pid in Nb, Lu. cbn [e_sess with_sess] in Nb, Lu.
  destruct (Vw s2 eq_refl) as [(Cp & ->)|(pid & Cp & -> & Hr' & Nm)]; rewrite Cp in Nb, Lu.
  - exists (aget k_uid s), u. split; [left; split; [exact Nb|exact (U1 Nb)]|].
    split; [rewrite <- S1, <- S2; exact Lu|]. split; [rewrite St; congruence|]. split; [exact Lk|exact Cf].
  - exists pid, u. split; [right; auto|].
    split; [rewrite <- S1, <- S2; exact Lu|]. split; [rewrite St; congruence|]. split; [exact Lk|exact Cf].
Qed.
