(* From handlers to the request level: the event class of [serve] per route, the flush
   rule, and what that means for the stored session of every browser. *)
From AB Require Import World.Step Proofs.EvLogic Proofs.Neutral Proofs.HandlerEvents.
Open Scope Z_scope.

(* routes through which a session can be issued at all / taken away at all *)
Definition can_login (r : request) : bool :=
  match q_route r, q_meth r with
  | RLogin, POST | ROtpLogin, POST | RRegister, POST | RRecoverEnd, POST
  | ROAuthCallback _, GET | RTotpValidate, POST | RSmsValidate, POST => true
  | RApp _ _ _ _ _ true _, _ => true
  | _, _ => false
  end.
Definition may_drop (r : request) : bool :=
  match q_route r with
  | RLogout => true
  | RApp _ _ _ _ _ _ true => true
  | _ => false
  end.

Section SE.
Variable E : env.
Notation neutral := (evs_all sess_neutral any_ev).
Notation nodrop := (evs_all sess_nodrop any_ev).

Lemma evs_error_handler phi psi (h : M unit) :
  evs_all phi psi h -> evs_all phi psi (with_error_handler E h).
Proof. intros Hh. unfold with_error_handler. repeat first [exact Hh | evs_step]. Qed.

Lemma evs_remembered_view phi psi s : evs_all phi psi (remembered_view s).
Proof.
  unfold remembered_view. apply evs_bind; [apply evs_get_h|]. intros h. destruct (h_cpid h); apply evs_ret.
Qed.

Ltac hs :=
  first
  [ apply evs_remembered_view | apply neutral_login_get | apply neutral_otp_login_get | apply neutral_otp_add_post | apply neutral_otp_clear_post
  | apply neutral_otp_show | apply neutral_confirm_get | apply neutral_recover_start_post | apply neutral_recover_end_get
  | apply neutral_recovery_regen_get | apply neutral_recovery_regen_post | apply neutral_email_verify_get
  | apply neutral_email_verify_post | apply neutral_email_verify_end | apply neutral_email_verify_wrap
  | apply neutral_totp_setup_get | apply neutral_totp_setup_post | apply neutral_totp_confirm_get
  | apply neutral_totp_confirm_post | apply neutral_totp_remove_post | apply neutral_sms_setup_get
  | apply neutral_sms_setup_post | apply neutral_oauth2_start | apply neutral_auth_middleware
  | apply neutral_lock_mw | apply neutral_confirm_mw | apply neutral_app_handler
  | apply neutral_sms_validator_post_settings; discriminate
  | apply neutral_respond | apply neutral_current_user ].

Ltac go2 := repeat (unfold_derived; cbn beta iota; first [assumption | hs | evs_step]); try side.

Lemma neutral_behind full h : neutral h -> neutral (behind E full h).
Proof. intros Hh. unfold behind. go2. Qed.
Lemma neutral_verified k h : neutral h -> neutral (verified E k h).
Proof. intros Hh. unfold verified. apply neutral_behind. go2. Qed.
Lemma neutral_totp_qr : neutral (totp_qr E).
Proof. unfold totp_qr. go2. Qed.
Lemma neutral_resp0 p : neutral (resp0 E p).
Proof. unfold resp0. go2. Qed.

(* the application stack without the expire and remember middlewares *)
Lemma neutral_app_stack_plain full tf fr l c :
  neutral (app_stack E full tf fr l c false false).
Proof. unfold app_stack. go2. Qed.

Definition routed_evs (phi psi : csevent -> Prop) (r : routed) : Prop :=
  match r with Handler h => evs_all phi psi h | _ => True end.

Ltac fin :=
  first [ exact I | hs | apply neutral_resp0 | apply neutral_totp_qr
        | apply neutral_behind; first [hs | apply neutral_resp0]
        | apply neutral_verified; first [hs | apply neutral_resp0 | apply neutral_totp_qr] ].

Ltac rc :=
  unfold when, get_post, on_method, routed_evs;
  repeat match goal with
         | H : q_meth _ = _ |- _ => rewrite H
         end;
  cbn [meth_eqb];
  repeat match goal with
         | |- match (if ?b then _ else _) with _ => _ end => destruct b eqn:?
         end;
  cbn beta iota; fin.

Lemma neutral_routes :
  can_login (e_req E) = false -> may_drop (e_req E) = false -> routed_evs sess_neutral any_ev (route_table E).
Proof.
  intros HL HD. unfold route_table, can_login, may_drop in *.
  destruct (q_route (e_req E)) as [| | | | | | | |pv|pv| | | | | | | | | | |k|k| |full tf fr lk cf remembermw expiremw|] eqn:R.
  all: try (destruct (q_meth (e_req E)) eqn:Mt; try discriminate HL; try discriminate HD; cbn beta iota; rc; fail).
  (* RApp *)
  destruct remembermw; [discriminate HL|]. destruct expiremw; [discriminate HD|].
  cbn beta iota. unfold routed_evs. apply neutral_app_stack_plain.
Qed.

(* ---- nodrop: every route except logout and the expire stack ----------------------- *)
Lemma nodrop_of_neutral {A} (m : M A) : neutral m -> nodrop m.
Proof. intros H. eapply evs_weaken; [apply neutral_nodrop_ev | intros ? Hx; exact Hx | exact H]. Qed.

Lemma nodrop_app_stack_noexpire full tf fr l c rmw :
  nodrop (app_stack E full tf fr l c rmw false).
Proof.
  unfold app_stack.
  repeat (unfold_derived; cbn beta iota;
          first [ apply nodrop_remember_mw | apply evs_remembered_view
                | apply nodrop_of_neutral; first [hs | apply neutral_app_handler]
                | evs_step ]); try side.
Qed.

Ltac fin2 :=
  first [ exact I
        | apply nodrop_login_post | apply nodrop_otp_login_post | apply nodrop_register_post
        | apply nodrop_recover_end_post | apply nodrop_oauth2_end | apply nodrop_totp_validate_post
        | apply nodrop_sms_validator_post
        | apply nodrop_of_neutral; fin ].

Ltac rc2 :=
  unfold when, get_post, on_method, routed_evs;
  repeat match goal with
         | H : q_meth _ = _ |- _ => rewrite H
         end;
  cbn [meth_eqb];
  repeat match goal with
         | |- match (if ?b then _ else _) with _ => _ end => destruct b eqn:?
         end;
  cbn beta iota; fin2.

Lemma nodrop_routes :
  may_drop (e_req E) = false -> routed_evs sess_nodrop any_ev (route_table E).
Proof.
  intros HD. unfold route_table, may_drop in *.
  destruct (q_route (e_req E)) as [| | | | | | | |pv|pv| | | | | | | | | | |k|k| |full tf fr lk cf remembermw expiremw|] eqn:R.
  all: try (destruct (q_meth (e_req E)) eqn:Mt; try discriminate HD; cbn beta iota; rc2; fail).
  destruct expiremw; [discriminate HD|].
  cbn beta iota. unfold routed_evs. apply nodrop_app_stack_noexpire.
Qed.

(* ---- serve ------------------------------------------------------------------------- *)
Lemma serve_evs phi psi :
  routed_evs phi psi (route_table E) -> evs_all phi psi (serve E).
Proof.
  intros H. unfold serve. destruct (route_table E); simpl in H.
  - apply evs_error_handler; exact H.
  - apply evs_write_resp.
  - apply evs_write_resp.
Qed.
End SE.

(* ---- the flush rule: what reaches the jars satisfies the class of the whole request ---- *)
Lemma flushed_class phi psi E st0 r h :
  evs_all phi psi (serve E) -> serve E (init_hst st0 (e_O E)) = (r, h) ->
  match h_out h with
  | Some wr => Forall phi (w_sev wr) /\ Forall psi (w_cev wr)
  | None => True
  end.
Proof.
  intros Hs Eq. destruct (Hs _ _ _ Eq) as [(ls & lc & S & Cc & F & G) P].
  destruct (h_out h) as [wr|] eqn:Ho; [|exact I].
  assert (P0 : pref (init_hst st0 (e_O E))) by (intros wr0 Hw; discriminate Hw).
  destruct (P P0 wr Ho) as (l & c & E1 & E2).
  simpl in S, Cc. rewrite E1 in S. rewrite E2 in Cc. subst ls lc.
  apply Forall_app in F. apply Forall_app in G. tauto.
Qed.
