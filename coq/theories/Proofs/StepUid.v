(* Step-level consequences for the stored sessions: only the requesting browser's jars can
   change; requests on routes that cannot log anybody in leave every session's user
   identity exactly as it was; only logout and the expire middleware can remove it. *)
From AB Require Import World.Step Proofs.EvLogic Proofs.Neutral Proofs.HandlerEvents Proofs.ServeEvents.
Open Scope Z_scope.

Lemma jar_get_set_eq b j l : jar_get b (jar_set b j l) = j.
Proof.
  induction l as [|[b' j'] l IH]; simpl.
  - rewrite beqb_refl. reflexivity.
  - destruct (beqb b b') eqn:Eb; simpl; [rewrite beqb_refl; reflexivity|rewrite Eb; exact IH].
Qed.
Lemma jar_get_set_neq b b' j l : b <> b' -> jar_get b (jar_set b' j l) = jar_get b l.
Proof.
  intros N. induction l as [|[b2 j2] l IH]; simpl.
  - destruct (beqb b b') eqn:Eb; [apply beqb_eq in Eb; contradiction|reflexivity].
  - destruct (beqb b' b2) eqn:E2; simpl.
    + apply beqb_eq in E2. subst b2.
      destruct (beqb b b') eqn:Eb; [apply beqb_eq in Eb; contradiction|reflexivity].
    + destruct (beqb b b2); auto.
Qed.

Lemma apply_event_neutral j e : sess_neutral e -> alookup k_uid (apply_event j e) = alookup k_uid j.
Proof.
  destruct e as [k v|k|wl]; unfold apply_event, sess_neutral; intros H.
  - apply alookup_aput_neq. congruence.
  - apply alookup_aremove_neq. congruence.
  - destruct H.
Qed.
Lemma apply_events_neutral l : forall j, Forall sess_neutral l -> alookup k_uid (apply_events j l) = alookup k_uid j.
Proof.
  unfold apply_events. induction l as [|e l IH]; intros j F; cbn [fold_left]; auto.
  inversion F; subst. rewrite IH by assumption. apply apply_event_neutral; assumption.
Qed.

Lemma apply_event_nodrop j e : sess_nodrop e -> ahas k_uid j = true -> ahas k_uid (apply_event j e) = true.
Proof.
  unfold ahas. destruct e as [k v|k|wl]; unfold apply_event, sess_nodrop; intros H Hj.
  - destruct (bytes_dec k_uid k) as [<-|N].
    + rewrite alookup_aput_eq. reflexivity.
    + rewrite alookup_aput_neq by assumption. exact Hj.
  - rewrite alookup_aremove_neq by congruence. exact Hj.
  - destruct H.
Qed.
Lemma apply_events_nodrop l : forall j, Forall sess_nodrop l -> ahas k_uid j = true -> ahas k_uid (apply_events j l) = true.
Proof.
  unfold apply_events. induction l as [|e l IH]; intros j F Hj; cbn [fold_left]; auto.
  inversion F; subst. apply IH; [assumption|]. apply apply_event_nodrop; assumption.
Qed.

Section SU.
Variable C : crypto.
Variable cfg : config.

(* a request only ever touches the jars of the browser that sent it *)
Lemma step_other_browsers_lemma w req O b :
  b <> q_browser req ->
  jar_get b (w_sess (fst (step C cfg w (AReq req) O))) = jar_get b (w_sess w) /\
  jar_get b (w_cook (fst (step C cfg w (AReq req) O))) = jar_get b (w_cook w).
Proof.
  intros N. unfold step.
  destruct (serve _ _) as [r h] eqn:Es. destruct (h_out h) as [wr|]; simpl.
  - split; apply jar_get_set_neq; assumption.
  - auto.
Qed.

Lemma step_session_class phi w req O :
  routed_evs phi any_ev (route_table (mkEnv C cfg O req (jar_get (q_browser req) (w_cook w)) (jar_get (q_browser req) (w_sess w)))) ->
  let b := q_browser req in
  jar_get b (w_sess (fst (step C cfg w (AReq req) O))) = jar_get b (w_sess w) \/
  exists l, Forall phi l /\ jar_get b (w_sess (fst (step C cfg w (AReq req) O))) = apply_events (jar_get b (w_sess w)) l.
Proof.
  intros HR b. unfold step. fold b.
  destruct (serve _ _) as [r h] eqn:Es.
  pose proof (flushed_class phi any_ev _ _ _ _ (serve_evs _ _ _ HR) Es) as Hf.
  destruct (h_out h) as [wr|]; simpl.
  - right. exists (w_sev wr). split; [tauto|]. apply jar_get_set_eq.
  - left. reflexivity.
Qed.

(* routes that cannot log anybody in: the user identity of EVERY session is untouched,
   whatever the body, query, method, storage faults or module configuration *)
Lemma step_uid_neutral_lemma w req O b :
  can_login req = false -> may_drop req = false ->
  alookup k_uid (jar_get b (w_sess (fst (step C cfg w (AReq req) O)))) = alookup k_uid (jar_get b (w_sess w)).
Proof.
  intros HL HD. destruct (bytes_dec b (q_browser req)) as [->|N].
  - destruct (step_session_class sess_neutral w req O) as [E|(l & F & E)].
    + apply neutral_routes; assumption.
    + rewrite E. reflexivity.
    + rewrite E. apply apply_events_neutral. exact F.
  - destruct (step_other_browsers_lemma w req O b N) as [E _]. rewrite E. reflexivity.
Qed.

(* nothing but logout and the expire middleware ever takes a user identity away *)
Lemma step_uid_kept_lemma w req O b :
  may_drop req = false ->
  ahas k_uid (jar_get b (w_sess w)) = true ->
  ahas k_uid (jar_get b (w_sess (fst (step C cfg w (AReq req) O)))) = true.
Proof.
  intros HD Hj. destruct (bytes_dec b (q_browser req)) as [->|N].
  - destruct (step_session_class sess_nodrop w req O) as [E|(l & F & E)].
    + apply nodrop_routes; assumption.
    + rewrite E. exact Hj.
    + rewrite E. apply apply_events_nodrop; assumption.
  - destruct (step_other_browsers_lemma w req O b N) as [E _]. rewrite E. exact Hj.
Qed.
End SU.
