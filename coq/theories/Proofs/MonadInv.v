(* Inversion lemmas for the handler monad and specifications of the primitives that read
   state; used for the short "head" of a handler (load, check) whose outcome the guard
   theorems are about, while the long tail is handled by EvLogic's automatic prover. *)
From AB Require Import World.Handlers Proofs.EvLogic.
Open Scope Z_scope.

Lemma bind_inv {A B} (m : M A) (f : A -> M B) h r h' :
  bind m f h = (r, h') ->
  (exists a h1, m h = (Ok a, h1) /\ f a h1 = (r, h')) \/
  (exists e, m h = (Err e, h') /\ r = Err e) \/
  (m h = (Panic, h') /\ r = Panic).
Proof.
  unfold bind. destruct (m h) as [[a|e|] h1]; intros Eq.
  - left. eauto.
  - right. left. inversion Eq; subst. eauto.
  - right. right. inversion Eq; subst. auto.
Qed.

Lemma try_inv {A B} (m : M A) (f : res A -> M B) h r h' :
  try m f h = (r, h') ->
  (exists x h1, m h = (x, h1) /\ x <> Panic /\ f x h1 = (r, h')) \/ (m h = (Panic, h') /\ r = Panic).
Proof.
  unfold try. destruct (m h) as [[a|e|] h1]; intros Eq.
  - left. exists (Ok a), h1. repeat split; auto; discriminate.
  - left. exists (Err e), h1. repeat split; auto; discriminate.
  - right. inversion Eq; subst. auto.
Qed.

(* computations that change nothing the properties look at *)
Definition quiet {A} (m : M A) : Prop :=
  forall h r h', m h = (r, h') ->
    h_sev h' = h_sev h /\ h_cev h' = h_cev h /\ h_out h' = h_out h /\ h_st h' = h_st h /\ h_cuser h' = h_cuser h /\ h_cpid h' = h_cpid h.

Lemma quiet_ret {A} (a : A) : quiet (ret a).
Proof. intros h r h' E. inversion E; subst; repeat split; auto. Qed.
Lemma quiet_fail {A} e : quiet (@fail A e).
Proof. intros h r h' E. inversion E; subst; repeat split; auto. Qed.
Lemma quiet_log a : quiet (log a).
Proof. intros h r h' E. inversion E; subst; repeat split; auto. Qed.
Lemma quiet_fresh n : quiet (fresh n).
Proof.
  intros h r h' E. unfold fresh in E.
  destruct (take_chunk n (h_fresh h)) as [[c t]|]; inversion E; subst; repeat split; auto.
Qed.
Lemma quiet_bind {A B} (m : M A) (f : A -> M B) : quiet m -> (forall a, quiet (f a)) -> quiet (bind m f).
Proof.
  intros Hm Hf h r h' E. destruct (bind_inv _ _ _ _ _ E) as [(a & h1 & E1 & E2)|[(e & E1 & ->)|(E1 & ->)]].
  - destruct (Hm _ _ _ E1) as (A1 & A2 & A3 & A4 & A5 & A6). destruct (Hf _ _ _ _ E2) as (B1 & B2 & B3 & B4 & B5 & B6).
    repeat split; congruence.
  - eapply Hm; eauto.
  - eapply Hm; eauto.
Qed.

Section R.
Variable E : env.

Definition values : amap :=
  if c_api (e_cfg E) then q_form (e_req E) else q_form (e_req E) ++ q_query (e_req E).

Lemma read_values_spec h r h' :
  read_values E h = (r, h') -> h' = h /\ (r = Ok values \/ r = Err ErrOther).
Proof.
  unfold read_values, values. intros Eq.
  destruct (q_badbody (e_req E)); [inversion Eq; auto|].
  destruct (c_api (e_cfg E)); [|inversion Eq; auto].
  destruct (q_meth (e_req E)); inversion Eq; auto.
Qed.

Lemma backend_inv {A} k (body : M A) h r h' :
  backend (e_O E) k body h = (r, h') ->
  (exists e, r = Err e /\ h_sev h' = h_sev h /\ h_cev h' = h_cev h /\ h_out h' = h_out h /\ h_st h' = h_st h /\
             h_cuser h' = h_cuser h /\ h_cpid h' = h_cpid h) \/
  (exists h1, h_sev h1 = h_sev h /\ h_cev h1 = h_cev h /\ h_out h1 = h_out h /\ h_st h1 = h_st h /\
              h_cuser h1 = h_cuser h /\ h_cpid h1 = h_cpid h /\ h_fresh h1 = h_fresh h /\ body h1 = (r, h')).
Proof.
  unfold backend. intros Eq.
  destruct (fault_at (h_ncalls h) (o_faults (e_O E))) as [[|]|].
  - left. inversion Eq; subst. eexists; repeat split; reflexivity.
  - left. inversion Eq; subst. eexists; repeat split; reflexivity.
  - right. exists (h <| h_ncalls := S (h_ncalls h) |> <| h_calls := k :: h_calls h |>).
    repeat split; try reflexivity. exact Eq.
Qed.

(* Load: no visible effect, and a successful result is what storage holds *)
Lemma st_load_spec pid h r h' :
  st_load (e_O E) pid h = (r, h') ->
  h_sev h' = h_sev h /\ h_cev h' = h_cev h /\ h_out h' = h_out h /\ h_st h' = h_st h /\
  h_cuser h' = h_cuser h /\ h_cpid h' = h_cpid h /\
  (forall u, r = Ok u -> ulookup pid (s_users (h_st h)) = Some u) /\ r <> Panic.
Proof.
  unfold st_load. intros Eq. destruct (backend_inv _ _ _ _ _ Eq) as [(e & -> & A)|(h1 & A1 & A2 & A3 & A4 & A5 & A6 & A7 & Eb)].
  - repeat split; try tauto; [intros u Hu; discriminate|discriminate].
  - destruct (ulookup pid (s_users (h_st h1))) as [u0|] eqn:L; inversion Eb; subst.
    + repeat split; auto; [|discriminate]. intros u Hu. inversion Hu; subst. rewrite <- A4. exact L.
    + repeat split; auto; [intros u Hu; discriminate|discriminate].
Qed.
End R.
