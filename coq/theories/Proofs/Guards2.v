(* More credential guards (same pattern as Guards.v): registration and the remember cookie. *)
From AB Require Import World.Handlers Proofs.EvLogic Proofs.Neutral Proofs.HandlerEvents Proofs.MonadInv Proofs.Guards
  Proofs.StoreLogic.
Open Scope Z_scope.

Section G2.
Variable E : env.
Notation C := (e_C E).
Notation vals := (values E).

(* ---- /register: the session is written for the submitted pid only when storage did not hold
   that pid before and the submitted values passed the policy ---- *)
Definition g_register (st : storage) (U : bytes) : Prop :=
  U = aget (pid_field E) vals /\ ulookup U (s_users st) = None /\
  valid [pid_rule E; password_rule] pw_pairs vals = true.

Lemma st_create_spec u h r h' :
  st_create (e_O E) u h = (r, h') ->
  h_sev h' = h_sev h /\ h_cev h' = h_cev h /\ (r = Ok tt -> ulookup (u_pid u) (s_users (h_st h)) = None) /\ r <> Panic.
Proof.
  unfold st_create. intros Eq. destruct (backend_inv _ _ _ _ _ _ Eq) as [(e & -> & A1 & A2 & _)|(h1 & A1 & A2 & A3 & A4 & _ & _ & _ & Eb)].
  - repeat split; auto; discriminate.
  - destruct (ulookup (u_pid u) (s_users (h_st h1))) eqn:L; inversion Eb; subst; simpl.
    + repeat split; auto; discriminate.
    + repeat split; auto; [intros _; rewrite <- A4; exact L|discriminate].
Qed.

Lemma register_post_guard h : guarded (g_register (h_st h)) (register_post E) h.
Proof.
  intros r h' Eq. unfold register_post in Eq.
  apply bind_inv in Eq as [(v & h1 & E1 & E2)|[(e & E1 & ->)|(E1 & ->)]];
    apply read_values_spec in E1 as [-> [Hv|Hv]]; try discriminate Hv; try apply guarded_nil.
  inversion Hv; subst v; clear Hv.
  destruct (valid [pid_rule E; password_rule] pw_pairs vals) eqn:Vd; cbn [negb] in E2.
  2:{ revert E2. apply (guarded_same_sev _ _ h h eq_refl eq_refl). apply guarded_of_neutral.
      repeat (unfold_derived; cbn beta iota; evs_step); try side. }
  destruct ((72 <? length (aget f_password vals))%nat).
  { revert E2. apply (guarded_same_sev _ _ h h eq_refl eq_refl). apply guarded_of_neutral.
    repeat (unfold_derived; cbn beta iota; evs_step); try side. }
  apply bind_inv in E2 as [(pass & h2 & F1 & E2)|[(e & F1 & ->)|(F1 & ->)]].
  2,3: destruct (backend_inv _ _ _ _ _ _ F1) as [(e' & _ & A1 & A2 & _)|(k1 & A1 & A2 & _ & _ & _ & _ & _ & Eb)];
       try (inversion Eb; fail); exists [], []; rewrite A1, A2, !app_nil_r; auto.
  assert (Sh : h_sev h2 = h_sev h /\ h_cev h2 = h_cev h /\ h_st h2 = h_st h).
  { destruct (backend_inv _ _ _ _ _ _ F1) as [(e' & Habs & _)|(k1 & A1 & A2 & _ & A4 & _ & _ & _ & Eb)]; [discriminate Habs|].
    inversion Eb; subst. auto. }
  destruct Sh as (S1 & S2 & S4).
  revert E2. apply (guarded_same_sev _ _ h2 h S1 S2).
  intros r2 h3 K. cbn beta iota zeta in K.
  apply try_inv in K as [(x & k1 & L & NP & K)|(L & ->)].
  2:{ apply st_create_spec in L. destruct L as (_ & _ & _ & N). congruence. }
  pose proof (st_create_spec _ _ _ _ L) as (T1 & T2 & Tn & _).
  revert K. apply (guarded_same_sev _ _ k1 h2 T1 T2).
  destruct x as [[]|e|]; [|destruct e|congruence].
  - assert (G : g_register (h_st h) (aget (pid_field E) vals)).
    { split; [reflexivity|]. split; [|exact Vd]. specialize (Tn eq_refl). simpl in Tn. rewrite S4 in Tn. exact Tn. }
    apply guarded_of_evs. ggo.
  - apply guarded_of_neutral. apply evs_fail.
  - apply guarded_of_neutral. repeat (unfold_derived; cbn beta iota; evs_step); try side.
  - apply guarded_of_neutral. apply evs_fail.
  - apply guarded_of_neutral. apply evs_fail.
Qed.

(* ---- remember cookie: the session is written for the pid parsed from the cookie only when
   the hash of the decoded cookie was among that pid's stored remember tokens (and was used up) ---- *)
Definition g_remember (st : storage) (U : bytes) : Prop :=
  exists cookie raw,
    alookup k_rm (e_cook E) = Some cookie /\ b64url_dec cookie = Some raw /\ rm_parse_pid raw = Some U /\
    bmem (b64std_enc (sha C raw)) (rmlookup U (s_rm st)) = true.

Lemma st_use_rm_spec pid tok h r h' :
  st_use_rm (e_O E) pid tok h = (r, h') ->
  h_sev h' = h_sev h /\ h_cev h' = h_cev h /\ (r = Ok tt -> bmem tok (rmlookup pid (s_rm (h_st h))) = true) /\ r <> Panic.
Proof.
  unfold st_use_rm. intros Eq. destruct (backend_inv _ _ _ _ _ _ Eq) as [(e & -> & A1 & A2 & _)|(h1 & A1 & A2 & A3 & A4 & _ & _ & _ & Eb)].
  - repeat split; auto; discriminate.
  - cbv zeta in Eb. destruct (bmem tok (rmlookup pid (s_rm (h_st h1)))) eqn:L; inversion Eb; subst; simpl.
    + repeat split; auto; [intros _; rewrite <- A4; exact L|discriminate].
    + repeat split; auto; discriminate.
Qed.

Lemma remember_authenticate_guard h : guarded (g_remember (h_st h)) (remember_authenticate E) h.
Proof.
  intros r h' Eq. unfold remember_authenticate in Eq.
  destruct (alookup k_rm (e_cook E)) as [cookie|] eqn:Ck; [|inversion Eq; subst; apply guarded_nil].
  destruct (b64url_dec cookie) as [raw|] eqn:Dc.
  2:{ revert Eq. apply (guarded_same_sev _ _ h h eq_refl eq_refl). apply guarded_of_neutral.
      repeat (unfold_derived; cbn beta iota; evs_step); try side. }
  destruct (rm_parse_pid raw) as [pid|] eqn:Pp.
  2:{ revert Eq. apply (guarded_same_sev _ _ h h eq_refl eq_refl). apply guarded_of_neutral.
      repeat (unfold_derived; cbn beta iota; evs_step); try side. }
  cbv zeta in Eq.
  apply try_inv in Eq as [(x & k1 & L & NP & K)|(L & ->)].
  2:{ apply st_use_rm_spec in L. destruct L as (_ & _ & _ & N). congruence. }
  pose proof (st_use_rm_spec _ _ _ _ _ L) as (T1 & T2 & Tn & _).
  revert K. apply (guarded_same_sev _ _ k1 h T1 T2).
  destruct x as [[]|e|]; [|destruct e|congruence].
  - assert (G : g_remember (h_st h) pid).
    { exists cookie, raw. repeat split; auto. }
    apply guarded_of_evs. ggo.
  - apply guarded_of_neutral. apply evs_fail.
  - apply guarded_of_neutral. apply evs_fail.
  - apply guarded_of_neutral. repeat (unfold_derived; cbn beta iota; evs_step); try side.
  - apply guarded_of_neutral. apply evs_fail.
Qed.
End G2.
