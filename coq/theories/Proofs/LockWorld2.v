(* C04, second half of the tie between the pure lock machine and the system: from the handlers
   (Proofs/LockWorld.v) to [step] and [run].

   Part A  a Hoare logic [lk U0 Q m] over the handler monad: "m keeps every lock triple" - under the
           invariant that every stored record and the context user carry the lock triple that the
           table U0 (the user table the request started from) holds for their pid, the invariant is
           kept, whatever the backend does (no no-fault hypothesis).  Proved for every primitive,
           every hook except the three lock hooks, every middleware, and every route handler that
           fires no lock hook.
   Part B  the route table: which requests can reach a lock hook ([ckind_of]), and the frame for all
           the others ([serve_keeps_triples_lemma]).
   Part D  the requests that do reach a lock hook, as functions of the start state: a [target] per
           route ([login_tgt] .. [oauth_tgt], [sms_set_tgt]), read at the level of triples by
           [triples_by]; all of them together: [req_tgt], [serve_tgt], [serve_triples].
   Part C  the administrative actions of Step.v (after Part D: it shares the [lk] logic and [step]).
   Part E  [lock_ops], one step ([step_applies_machine_lemma]), histories ([run_applies_machine_lemma],
           [world_refines_lemma]), and a concrete history on which every hypothesis holds. *)
From AB Require Import World.Step Proofs.EvLogic Proofs.Neutral Proofs.MonadInv Proofs.StoreLogic
  Proofs.SameView Proofs.SameView2 Proofs.NoPanic Proofs.Gate Proofs.TwoFactorProofs Proofs.StoreShape
  Proofs.Footprint Proofs.LockWorld.
Open Scope Z_scope.

(* ================================================================================================ *)
(* Part A: the logic                                                                                *)
(* ================================================================================================ *)
Section LK.
Variable U0 : list (bytes * user).              (* the user table the request started from *)

(* a record is good when it carries the triple U0 holds for its pid (any triple if U0 has none) *)
Definition lgood (u : user) : Prop := forall a, ulookup (u_pid u) U0 = Some a -> ltriple u = ltriple a.

Record linv (h : hst) : Prop := mkLinv {
  li_filed : filed (h_st h);
  li_mono : forall p, ulookup p U0 <> None -> ulookup p (s_users (h_st h)) <> None;
  li_users : forall k b, In (k, b) (s_users (h_st h)) -> lgood b;
  li_cuser : forall u, h_cuser h = Some u -> lgood u
}.

Lemma linv_same h h' : uc h' = uc h -> linv h -> linv h'.
Proof.
  unfold uc. intros Eq [I1 I2 I3 I4]. inversion Eq as [[A1 A2]].
  split; unfold filed in *; rewrite ?A1, ?A2; assumption.
Qed.

Definition lk {A} (Q : A -> Prop) (m : M A) : Prop :=
  forall h r h', linv h -> m h = (r, h') -> linv h' /\ forall a, r = Ok a -> Q a.

Lemma lk_post {A} (Q Q' : A -> Prop) (m : M A) : (forall a, Q a -> Q' a) -> lk Q m -> lk Q' m.
Proof.
  intros HQ Hm h r h' Hi Eq. destruct (Hm _ _ _ Hi Eq) as (I1 & R1). split; [exact I1|].
  intros a Ha. apply HQ. apply R1. exact Ha.
Qed.
Lemma lk_top {A} (Q : A -> Prop) (m : M A) : lk Q m -> lk anyq m.
Proof. apply lk_post. intros; exact I. Qed.

Lemma lk_pres {A} (m : M A) : pres uc m -> lk anyq m.
Proof.
  intros Hp h r h' Hi Eq. apply Hp in Eq. split; [exact (linv_same _ _ Eq Hi)|intros; exact I].
Qed.

Lemma lk_ret {A} (Q : A -> Prop) (a : A) : Q a -> lk Q (ret a).
Proof.
  intros HQ h r h' Hi Eq. inversion Eq; subst. split; [exact Hi|].
  intros a0 Ha. inversion Ha; subst. exact HQ.
Qed.
Lemma lk_fail {A} (Q : A -> Prop) e : lk Q (@fail A e).
Proof. intros h r h' Hi Eq. inversion Eq; subst. split; [exact Hi|intros a Ha; discriminate Ha]. Qed.
Lemma lk_panic {A} (Q : A -> Prop) : lk Q (@panic A).
Proof. intros h r h' Hi Eq. inversion Eq; subst. split; [exact Hi|intros a Ha; discriminate Ha]. Qed.

Lemma lk_bind {A B} (Q : A -> Prop) (Q' : B -> Prop) (m : M A) (f : A -> M B) :
  lk Q m -> (forall a, Q a -> lk Q' (f a)) -> lk Q' (bind m f).
Proof.
  intros Hm Hf h r h' Hi Eq. destruct (bind_inv _ _ _ _ _ Eq) as [(a & h1 & E1 & E2)|[(e & E1 & ->)|(E1 & ->)]].
  - destruct (Hm _ _ _ Hi E1) as (I1 & R1). exact (Hf a (R1 a eq_refl) _ _ _ I1 E2).
  - destruct (Hm _ _ _ Hi E1) as (I1 & _). split; [exact I1|intros a Ha; discriminate Ha].
  - destruct (Hm _ _ _ Hi E1) as (I1 & _). split; [exact I1|intros a Ha; discriminate Ha].
Qed.
Lemma lk_try {A B} (Q : A -> Prop) (Q' : B -> Prop) (m : M A) (f : res A -> M B) :
  lk Q m -> (forall a, Q a -> lk Q' (f (Ok a))) -> (forall e, lk Q' (f (Err e))) -> lk Q' (try m f).
Proof.
  intros Hm Hok Herr h r h' Hi Eq. destruct (try_inv _ _ _ _ _ Eq) as [(x & h1 & E1 & NP & E2)|(E1 & ->)].
  - destruct (Hm _ _ _ Hi E1) as (I1 & R1).
    destruct x as [a|e|]; [exact (Hok a (R1 a eq_refl) _ _ _ I1 E2)|exact (Herr e _ _ _ I1 E2)|congruence].
  - destruct (Hm _ _ _ Hi E1) as (I1 & _). split; [exact I1|intros a Ha; discriminate Ha].
Qed.

Lemma lk_get_h_bind {B} (Q : B -> Prop) (f : hst -> M B) :
  (forall h0, linv h0 -> lk Q (f h0)) -> lk Q (bind get_h f).
Proof. intros Hf h r h' Hi Eq. unfold bind, get_h in Eq. eapply Hf; eauto. Qed.

Lemma lk_backend O {A} (Q : A -> Prop) k (body : M A) : lk Q body -> lk Q (backend O k body).
Proof.
  intros Hb h r h' Hi Eq. unfold backend in Eq.
  destruct (fault_at (h_ncalls h) (o_faults O)) as [[|]|].
  - inversion Eq; subst. split; [apply (linv_same h); [reflexivity|exact Hi]|intros a Ha; discriminate Ha].
  - inversion Eq; subst. split; [apply (linv_same h); [reflexivity|exact Hi]|intros a Ha; discriminate Ha].
  - eapply Hb in Eq; [exact Eq|apply (linv_same h); [reflexivity|exact Hi]].
Qed.

Lemma lk_set_cuser (Q : unit -> Prop) u : lgood u -> Q tt -> lk Q (set_cuser u).
Proof.
  intros Hu HQ h r h' [I1 I2 I3 I4] Eq. inversion Eq; subst. split; [|intros [] _; exact HQ].
  split; try assumption. intros u0 H0. simpl in H0. inversion H0; subst. exact Hu.
Qed.

Lemma lk_st_load O pid : lk lgood (st_load O pid).
Proof.
  unfold st_load. apply lk_backend. intros h r h' Hi Eq.
  destruct (ulookup pid (s_users (h_st h))) as [u|] eqn:L; inversion Eq; subst.
  - split; [exact Hi|]. intros a Ha. inversion Ha; subst. apply ulookup_in in L. exact (li_users _ Hi _ _ L).
  - split; [exact Hi|intros a Ha; discriminate Ha].
Qed.
Lemma lk_st_load_by_csel O sel : lk lgood (st_load_by_csel O sel).
Proof.
  unfold st_load_by_csel. apply lk_backend. intros h r h' Hi Eq.
  destruct (ufind _ (s_users (h_st h))) as [u|] eqn:L; inversion Eq; subst.
  - split; [exact Hi|]. intros a Ha. inversion Ha; subst. apply ufind_in in L as (k & L). exact (li_users _ Hi _ _ L).
  - split; [exact Hi|intros a Ha; discriminate Ha].
Qed.
Lemma lk_st_load_by_rsel O sel : lk lgood (st_load_by_rsel O sel).
Proof.
  unfold st_load_by_rsel. apply lk_backend. intros h r h' Hi Eq.
  destruct (ufind _ (s_users (h_st h))) as [u|] eqn:L; inversion Eq; subst.
  - split; [exact Hi|]. intros a Ha. inversion Ha; subst. apply ufind_in in L as (k & L). exact (li_users _ Hi _ _ L).
  - split; [exact Hi|intros a Ha; discriminate Ha].
Qed.
Lemma lk_save_body (Q : unit -> Prop) u : lgood u -> Q tt ->
  lk Q (modify (fun h => h <| h_st := h_st h <| s_users := uput (u_pid u) u (s_users (h_st h)) |> |>)).
Proof.
  intros Hu HQ h r h' [I1 I2 I3 I4] Eq. inversion Eq; subst. split; [|intros [] _; exact HQ].
  split; cbn [h_st h_cuser set s_users s_rm]; simpl.
  - apply filedl_uput. exact I1.
  - intros p Hp. apply ulookup_uput_some. exact (I2 p Hp).
  - intros k v Hin. apply uput_in in Hin as [Hin|Hin]; [inversion Hin; subst; exact Hu|exact (I3 _ _ Hin)].
  - exact I4.
Qed.
Lemma lk_st_save O (Q : unit -> Prop) u : lgood u -> Q tt -> lk Q (st_save O u).
Proof. intros Hu HQ. unfold st_save. apply lk_backend. apply lk_save_body; assumption. Qed.

(* Create writes only under a pid that storage - hence U0 - does not hold: any triple is good there *)
Lemma lk_st_create O u : lk (fun _ => lgood u) (st_create O u).
Proof.
  unfold st_create. apply lk_backend. intros h r h' [I1 I2 I3 I4] Eq.
  destruct (ulookup (u_pid u) (s_users (h_st h))) eqn:L; inversion Eq; subst.
  - split; [split; assumption|intros a Ha; discriminate Ha].
  - assert (G : lgood u).
    { intros a Ha. exfalso. apply (I2 (u_pid u)); [rewrite Ha; discriminate|exact L]. }
    split; [|intros _ _; exact G]. split; simpl.
    + apply filedl_snoc; assumption.
    + intros p Hp. apply ulookup_snoc_keep. exact (I2 p Hp).
    + intros k v Hin. apply in_app_or in Hin as [Hin|[Hin|[]]]; [exact (I3 _ _ Hin)|inversion Hin; subst; exact G].
    + exact I4.
Qed.
End LK.

(* ---- syntax-directed prover (after StoreShape's) ------------------------------------------------ *)
Ltac lk_unfold :=
  unfold respond, render, redirect, ro_plain, ro_ok, ro_fail, ro_follow_redir, current_user_id,
         store_back, bcrypt_codes, invalid_confirm_token, invalid_recover_token,
         selector_of, verifier_of.

Ltac lk_cuser_fact Hd :=
  try match type of Hd with
      | h_cuser ?h = Some ?u =>
          match goal with Hx : linv _ h |- _ => pose proof (li_cuser _ _ Hx _ Hd) end
      end.

Ltac lgood_tac :=
  first
  [ assumption
  | match goal with H : lgood _ ?u |- lgood _ _ => exact H end ].

Ltac lk_side :=
  repeat match goal with
  | |- anyq _ => exact I
  | |- True => exact I
  | |- lgood _ _ => lgood_tac
  | |- lk _ _ _ => assumption
  | |- forall _, _ => intro
  end.

Ltac lk_prim :=
  match goal with
  | |- lk _ _ (ret _) => apply lk_ret
  | |- lk _ _ (fail _) => apply lk_fail
  | |- lk _ _ panic => apply lk_panic
  | |- lk _ _ (set_cuser _) => apply lk_set_cuser
  | |- lk _ _ (st_load _ _) => eapply lk_top; apply lk_st_load
  | |- lk _ _ (st_save _ _) => apply lk_st_save
  | |- lk _ _ (st_use_rm _ _ _) => apply lk_pres, pres_uc_st_use_rm
  | |- lk _ _ (modify (fun h => h <| h_st := h_st h <| s_users := uput _ _ _ |> |>)) => apply lk_save_body
  | |- lk _ _ (backend _ _ (fail _)) => apply lk_backend, lk_fail
  | |- lk _ _ _ => apply lk_pres; pres_go; fail
  end.

Ltac lk_step ext :=
  match goal with
  | |- lk _ _ (bind get_h _) =>
      let h0 := fresh "h0" in let Hx := fresh "Hx" in apply lk_get_h_bind; intros h0 Hx
  | |- lk _ _ (bind (ret ?v) _) =>
      eapply (lk_bind _ (fun x => x = v)); [apply lk_ret; reflexivity|intros ? ->]
  | |- lk _ _ (bind (backend _ KHash (ret ?v)) _) =>
      eapply (lk_bind _ (fun x => x = v)); [apply lk_backend, lk_ret; reflexivity|intros ? ->]
  | |- lk _ _ (bind (st_load _ _) _) =>
      let u := fresh "u" in let Hq := fresh "Hq" in
      eapply lk_bind; [apply lk_st_load | intros u Hq]
  | |- lk _ _ (try (st_load _ _) _) =>
      let u := fresh "u" in let Hq := fresh "Hq" in
      eapply lk_try; [apply lk_st_load | intros u Hq | intros ?]
  | |- lk _ _ (try (st_load_by_csel _ _) _) =>
      let u := fresh "u" in let Hq := fresh "Hq" in
      eapply lk_try; [apply lk_st_load_by_csel | intros u Hq | intros ?]
  | |- lk _ _ (try (st_load_by_rsel _ _) _) =>
      let u := fresh "u" in let Hq := fresh "Hq" in
      eapply lk_try; [apply lk_st_load_by_rsel | intros u Hq | intros ?]
  | |- lk _ _ (try (st_create _ _) _) =>
      let Hq := fresh "Hq" in
      eapply lk_try; [apply lk_st_create | intros ? Hq | intros ?]
  | |- _ => ext
  | |- lk _ _ (bind _ _) => eapply (lk_bind _ anyq); [|intros ? _]
  | |- lk _ _ (try _ _) => eapply (lk_try _ anyq); [|intros ? _|intros ?]
  | |- lk _ _ (if ?c then _ else _) => destruct c eqn:?
  | |- lk _ _ (match ?x with _ => _ end) => let Hd := fresh "Hd" in destruct x eqn:Hd; lk_cuser_fact Hd
  | |- lk _ _ (let '(_, _) := ?x in _) => destruct x eqn:?
  | |- _ => lk_prim
  end.

Ltac lk_noext := fail.
Ltac lk_go0 := repeat (lk_unfold; cbn beta iota zeta; lk_step lk_noext).

Section CU.
Variable E : env.
Variable U0 : list (bytes * user).
Notation LKK := (lk U0).
Notation Good := (lgood U0).

Lemma lk_current_user : LKK (fun p => Good (fst p)) (current_user E).
Proof. unfold current_user. lk_go0; lk_side. Qed.

Lemma lk_load_current_user : LKK Good (load_current_user E).
Proof. unfold load_current_user. lk_go0; lk_side. Qed.
End CU.

Ltac lk_ext1 :=
  idtac; match goal with
  | |- lk _ _ (bind (current_user _) _) =>
      let u := fresh "u" in let sh := fresh "sh" in let Hq := fresh "Hq" in
      eapply lk_bind; [apply lk_current_user | intros [u sh] Hq; cbn [fst] in Hq]
  | |- lk _ _ (try (current_user _) _) =>
      let u := fresh "u" in let sh := fresh "sh" in let Hq := fresh "Hq" in
      eapply lk_try; [apply lk_current_user | intros [u sh] Hq; cbn [fst] in Hq | intros ?]
  | |- lk _ _ (try (load_current_user _) _) =>
      let u := fresh "u" in let Hq := fresh "Hq" in
      eapply lk_try; [apply lk_load_current_user | intros u Hq | intros ?]
  end.
Ltac lk_go1 := repeat (lk_unfold; cbn beta iota zeta; lk_step lk_ext1).

(* ---- the hooks that are not the lock module's ----------------------------------------------------- *)
Definition nolock (hk : hook) : Prop := hk <> HLockBefore /\ hk <> HLockAfterOk /\ hk <> HLockAfterFail.

Section HK.
Variable E : env.
Variable U0 : list (bytes * user).
Notation LKK := (lk U0).

Lemma lk_hook hk rm hd : nolock hk -> LKK anyq (run_hook E hk rm hd).
Proof.
  intros (N1 & N2 & N3). destruct hk; try congruence; unfold run_hook, generate_token, rm_generate, send_mail;
    lk_go1; lk_side.
Qed.

Lemma lk_call hs : Forall nolock hs -> forall rm hd, LKK anyq (call E hs rm hd).
Proof.
  induction 1 as [|hk hs Hk _ IH]; intros rm hd; cbn [call].
  - apply lk_ret. exact I.
  - eapply lk_bind; [apply lk_hook; exact Hk|intros; apply IH].
Qed.

(* the events that no handler of the lock module listens to *)
Lemma hooks_nolock e :
  e <> EvBeforeAuth -> e <> EvBeforeOAuth2 -> e <> EvAfterAuth -> e <> EvAfterAuthFail ->
  Forall nolock (hooks E e).
Proof.
  intros N1 N2 N3 N4. unfold hooks. apply Forall_app. split.
  - induction (c_mods (e_cfg E)) as [|m l IH]; [constructor|]. cbn [flat_map]. apply Forall_app. split; [|exact IH].
    destruct m, e; simpl; try congruence; repeat constructor; discriminate.
  - destruct e; try constructor; try congruence.
    destruct (c_sms_first (e_cfg E)), (c_totp (e_cfg E)), (c_sms (e_cfg E)); simpl; repeat constructor; discriminate.
Qed.

Lemma lk_fire_register rm : LKK anyq (fire E EvAfterRegister rm).
Proof. unfold fire. apply lk_call. apply hooks_nolock; discriminate. Qed.
End HK.

Ltac lk_ext2 :=
  idtac; match goal with
  | |- lk _ _ (fire _ EvAfterRegister _) => apply lk_fire_register
  | |- _ => lk_ext1
  end.
Ltac lk_go2 := repeat (lk_unfold; cbn beta iota zeta; lk_step lk_ext2).

(* ---- middlewares ------------------------------------------------------------------------------ *)
Section MW.
Variable E : env.
Variable U0 : list (bytes * user).
Notation LKK := (lk U0).

Lemma lk_auth_middleware mp full tf fr : LKK anyq (auth_middleware E mp full tf fr).
Proof. unfold auth_middleware, mw_fail. lk_go2; lk_side. Qed.
Lemma lk_lock_mw : LKK anyq (lock_mw E).
Proof. unfold lock_mw. lk_go2; lk_side. Qed.
Lemma lk_confirm_mw : LKK anyq (confirm_mw E).
Proof. unfold confirm_mw. lk_go2; lk_side. Qed.
Lemma lk_remember_mw : LKK anyq (remember_mw E).
Proof. unfold remember_mw, remember_authenticate, rm_generate. lk_go2; lk_side. Qed.
Lemma lk_app_handler : LKK anyq (app_handler E).
Proof. unfold app_handler. lk_go2; lk_side. Qed.
Lemma lk_email_verify_wrap k : LKK anyq (email_verify_wrap E k).
Proof. unfold email_verify_wrap. lk_go2; lk_side. Qed.
End MW.

(* ---- route handlers that fire no lock hook ----------------------------------------------------- *)
Section HD.
Variable E : env.
Variable U0 : list (bytes * user).
Notation LKK := (lk U0).
Notation Good := (lgood U0).

Lemma lk_totp_validate : LKK (fun r => Good (fst (fst r))) (totp_validate E).
Proof.
  unfold totp_validate. eapply (lk_bind _ (fun p => Good (fst p))).
  - lk_go2; cbn beta; cbn [fst]; lk_side.
  - intros [u sh] Hq. cbn [fst] in Hq. lk_go2; cbn beta; cbn [fst]; lk_side.
Qed.

Lemma lk_sms_send_code p u : LKK anyq (sms_send_code E p u).
Proof. unfold sms_send_code. destruct p; lk_go2; lk_side. Qed.

Ltac lk_ext3 :=
  idtac; match goal with
  | |- lk _ _ (bind (totp_validate _) _) =>
      let u := fresh "u" in let sh := fresh "sh" in let st := fresh "st" in let Hq := fresh "Hq" in
      eapply lk_bind; [apply lk_totp_validate | intros [[u sh] st] Hq; cbn [fst] in Hq]
  | |- lk _ _ (sms_send_code _ _ _) => apply lk_sms_send_code
  | |- _ => lk_ext2
  end.
Ltac go := repeat (lk_unfold; cbn beta iota zeta; lk_step lk_ext3); cbn beta; lk_side.

Lemma lk_login_get : LKK anyq (login_get E). Proof. unfold login_get. go. Qed.
Lemma lk_otp_login_get : LKK anyq (otp_login_get E). Proof. unfold otp_login_get. go. Qed.
Lemma lk_otp_show pg : LKK anyq (otp_show E pg). Proof. unfold otp_show. go. Qed.
Lemma lk_otp_add_post : LKK anyq (otp_add_post E). Proof. unfold otp_add_post. go. Qed.
Lemma lk_otp_clear_post : LKK anyq (otp_clear_post E). Proof. unfold otp_clear_post. go. Qed.
Lemma lk_resp0 pg : LKK anyq (resp0 E pg). Proof. unfold resp0. go. Qed.
Lemma lk_register_post : LKK anyq (register_post E). Proof. unfold register_post. go. Qed.
Lemma lk_confirm_get : LKK anyq (confirm_get E). Proof. unfold confirm_get. go. Qed.
Lemma lk_recover_start_post : LKK anyq (recover_start_post E).
Proof. unfold recover_start_post, generate_token, send_mail. go. Qed.
Lemma lk_recover_end_get : LKK anyq (recover_end_get E). Proof. unfold recover_end_get. go. Qed.
Lemma lk_logout : LKK anyq (logout E). Proof. unfold logout. go. Qed.

Lemma lk_recovery_regen_get : LKK anyq (recovery_regen_get E). Proof. unfold recovery_regen_get. go. Qed.
Lemma lk_recovery_regen_post : LKK anyq (recovery_regen_post E).
Proof. unfold recovery_regen_post, generate_recovery_codes. go. Qed.
Lemma lk_email_verify_get k : LKK anyq (email_verify_get E k). Proof. unfold email_verify_get. go. Qed.
Lemma lk_email_verify_post k : LKK anyq (email_verify_post E k). Proof. unfold email_verify_post, send_mail. go. Qed.
Lemma lk_email_verify_end k : LKK anyq (email_verify_end E k). Proof. unfold email_verify_end. go. Qed.

Lemma lk_totp_setup_get : LKK anyq (totp_setup_get E). Proof. unfold totp_setup_get. go. Qed.
Lemma lk_totp_setup_post : LKK anyq (totp_setup_post E). Proof. unfold totp_setup_post. go. Qed.
Lemma lk_totp_confirm_get : LKK anyq (totp_confirm_get E). Proof. unfold totp_confirm_get. go. Qed.
Lemma lk_totp_confirm_post : LKK anyq (totp_confirm_post E).
Proof. unfold totp_confirm_post, generate_recovery_codes. go. Qed.
Lemma lk_totp_remove_post : LKK anyq (totp_remove_post E). Proof. unfold totp_remove_post. go. Qed.
Lemma lk_totp_qr : LKK anyq (totp_qr E). Proof. unfold totp_qr. go. Qed.

Lemma lk_sms_setup_get : LKK anyq (sms_setup_get E). Proof. unfold sms_setup_get. go. Qed.
Lemma lk_sms_setup_post : LKK anyq (sms_setup_post E). Proof. unfold sms_setup_post. go. Qed.
Lemma lk_oauth2_start prov : LKK anyq (oauth2_start E prov). Proof. unfold oauth2_start. go. Qed.

(* wrappers *)
Lemma lk_behind full hd : LKK anyq hd -> LKK anyq (behind E full hd).
Proof.
  intros Hh. unfold behind. eapply (lk_bind _ anyq); [apply lk_auth_middleware|].
  intros ok _. destruct ok; [exact Hh|apply lk_ret; exact I].
Qed.
Lemma lk_verified k hd : LKK anyq hd -> LKK anyq (verified E k hd).
Proof.
  intros Hh. unfold verified. apply lk_behind. eapply (lk_bind _ anyq); [apply lk_email_verify_wrap|].
  intros ok _. destruct ok; [exact Hh|apply lk_ret; exact I].
Qed.
Lemma lk_with_error_handler hd : LKK anyq hd -> LKK anyq (with_error_handler E hd).
Proof. intros Hh. unfold with_error_handler. go. Qed.

Lemma lk_app_stack full tf fr l c r e : LKK anyq (app_stack E full tf fr l c r e).
Proof.
  unfold app_stack. eapply (lk_bind _ anyq).
  { destruct e; [unfold expire_mw|]; go. }
  intros sess _. cbv zeta.
  eapply (lk_bind _ anyq).
  { destruct r; [|apply lk_ret; exact I]. eapply (lk_bind _ anyq); [apply (lk_remember_mw (with_sess E sess))|].
    intros _ _. unfold remembered_view. apply lk_get_h_bind. intros h0 _. destruct (h_cpid h0); apply lk_ret; exact I. }
  intros sess2 _. eapply (lk_bind _ anyq). { apply (lk_auth_middleware (with_sess E sess2)). }
  intros ok _. destruct ok; [|apply lk_ret; exact I]. cbn [negb].
  eapply (lk_bind _ anyq). { destruct l; [apply (lk_lock_mw (with_sess E sess2))|apply lk_ret; exact I]. }
  intros ok _. destruct ok; [|apply lk_ret; exact I]. cbn [negb].
  eapply (lk_bind _ anyq). { destruct c; [apply (lk_confirm_mw (with_sess E sess2))|apply lk_ret; exact I]. }
  intros ok _. destruct ok; [|apply lk_ret; exact I]. cbn [negb].
  apply (lk_app_handler (with_sess E sess2)).
Qed.
End HD.

(* ================================================================================================ *)
(* Part B: the route table                                                                          *)
(* ================================================================================================ *)
(* the requests whose handler can reach a lock hook.  Besides the six login paths these are the two
   SMS settings posts: sms2fa's validator reports a wrong code to the AuthFail event on the setup
   confirmation and on the removal page as well (sms.go validateCode), not only on the login step *)
Inductive ckind := CLogin | COtp | CTotp | CSms (p : smspage) | CRecover | COAuth (prov : bytes).

Definition ckind_of (cfg : config) (q : request) : option ckind :=
  match q_route q, q_meth q with
  | RLogin, POST => if has_mod cfg MAuth then Some CLogin else None
  | ROtpLogin, POST => if has_mod cfg MOtp then Some COtp else None
  | RRecoverEnd, POST => if has_mod cfg MRecover then Some CRecover else None
  | RTotpValidate, POST => if c_totp cfg then Some CTotp else None
  | RSmsValidate, POST => if c_sms cfg then Some (CSms SPValidate) else None
  | RSmsConfirm, POST => if c_sms cfg then Some (CSms SPConfirm) else None
  | RSmsRemove, POST => if c_sms cfg then Some (CSms SPRemove) else None
  | ROAuthCallback p, GET => if has_mod cfg MOAuth2 && bmem p (c_providers cfg) then Some (COAuth p) else None
  | _, _ => None
  end.

Definition chandler (E : env) (k : ckind) : M unit :=
  match k with
  | CLogin => login_post E
  | COtp => otp_login_post E
  | CTotp => totp_validate_post E
  | CSms SPValidate => sms_validator_post E SPValidate
  | CSms SPConfirm => verified E KSms (sms_validator_post E SPConfirm)
  | CSms SPRemove => behind E true (sms_validator_post E SPRemove)
  | CRecover => recover_end_post E
  | COAuth p => oauth2_end E p
  end.

Lemma route_cred E k : ckind_of (e_cfg E) (e_req E) = Some k -> route_table E = Handler (chandler E k).
Proof.
  unfold ckind_of, route_table, when, get_post, on_method.
  destruct (q_route (e_req E)) eqn:Hr; destruct (q_meth (e_req E)) eqn:Hm; cbn beta iota; cbn [meth_eqb];
    try discriminate;
    match goal with |- (if ?c then _ else _) = _ -> _ => destruct c end;
    intros CK; try discriminate CK; injection CK as <-; reflexivity.
Qed.

Lemma route_other E U0 hd :
  ckind_of (e_cfg E) (e_req E) = None -> route_table E = Handler hd -> lk U0 anyq hd.
Proof.
  unfold ckind_of, route_table, when, get_post, on_method.
  destruct (q_route (e_req E)) eqn:Hr; destruct (q_meth (e_req E)) eqn:Hm; cbn beta iota; cbn [meth_eqb];
    intros CK;
    repeat match goal with |- (if ?c then _ else _) = Handler _ -> _ => destruct c end;
    intros RT; try discriminate RT; try discriminate CK; injection RT as <-;
    repeat first
      [ apply lk_verified | apply lk_behind | apply lk_app_stack
      | apply lk_login_get | apply lk_otp_login_get
      | apply lk_otp_show | apply lk_otp_add_post | apply lk_otp_clear_post | apply lk_resp0
      | apply lk_register_post | apply lk_confirm_get | apply lk_recover_start_post | apply lk_recover_end_get
      | apply lk_logout | apply lk_recovery_regen_get | apply lk_recovery_regen_post
      | apply lk_email_verify_get | apply lk_email_verify_post | apply lk_email_verify_end
      | apply lk_totp_setup_get | apply lk_totp_setup_post | apply lk_totp_confirm_get
      | apply lk_totp_confirm_post | apply lk_totp_remove_post
      | apply lk_totp_qr | apply lk_sms_setup_get | apply lk_sms_setup_post
      | apply lk_oauth2_start ].
Qed.

(* ---- closed form ------------------------------------------------------------------------------ *)
(* every record that was there is still there, with the lock triple it had (other fields may have
   changed; new records may have appeared) *)
Definition keeps_triples (s s' : storage) : Prop :=
  forall p u, ulookup p (s_users s) = Some u ->
    exists u', ulookup p (s_users s') = Some u' /\ ltriple u' = ltriple u.

Lemma keeps_triples_refl s : keeps_triples s s.
Proof. intros p u H. eauto. Qed.
Lemma keeps_triples_trans s1 s2 s3 : keeps_triples s1 s2 -> keeps_triples s2 s3 -> keeps_triples s1 s3.
Proof.
  intros A B p u H. destruct (A p u H) as (u2 & H2 & T2). destruct (B p u2 H2) as (u3 & H3 & T3).
  exists u3. split; [exact H3|congruence].
Qed.

Lemma linv_start h : filed (h_st h) -> ctx_stored h -> linv (s_users (h_st h)) h.
Proof.
  intros F Cx. split.
  - exact F.
  - auto.
  - intros k b Hin a Ha. destruct F as [ND Ky]. rewrite (Ky _ _ Hin), (in_ulookup _ _ _ ND Hin) in Ha.
    inversion Ha; reflexivity.
  - intros u Hu a Ha. rewrite (Cx u Hu) in Ha. inversion Ha; reflexivity.
Qed.
Lemma linv_end U0 h : linv U0 h ->
  filed (h_st h) /\ forall p u, ulookup p U0 = Some u ->
    exists u', ulookup p (s_users (h_st h)) = Some u' /\ ltriple u' = ltriple u.
Proof.
  intros [I1 I2 I3 I4]. split; [exact I1|]. intros p u Hu.
  destruct (ulookup p (s_users (h_st h))) as [b|] eqn:L.
  - exists b. split; [reflexivity|]. pose proof (ulookup_in _ _ _ L) as Hin. destruct I1 as [_ Ky].
    apply (I3 _ _ Hin). rewrite (Ky _ _ Hin). exact Hu.
  - exfalso. apply (I2 p); [rewrite Hu; discriminate|exact L].
Qed.

Definition keeps_lock {A} (m : M A) : Prop :=
  forall h r h', filed (h_st h) -> ctx_stored h -> m h = (r, h') ->
    filed (h_st h') /\ keeps_triples (h_st h) (h_st h').

Lemma keeps_of_lk {A} (Q : A -> Prop) (m : M A) : (forall U0, lk U0 Q m) -> keeps_lock m.
Proof.
  intros H h r h' F Cx Eq. destruct (H _ h r h' (linv_start h F Cx) Eq) as [I' _].
  apply linv_end in I'. exact I'.
Qed.

(* 1. every request that is not one of the [ckind_of] ones - pages, register, confirm, recover
   start, logout, the other 2FA settings routes, the application stacks with every middleware,
   404 / 405, disabled modules, wrong methods - keeps every lock triple, faults or not *)
Theorem serve_keeps_triples_lemma E : ckind_of (e_cfg E) (e_req E) = None -> keeps_lock (serve E).
Proof.
  intros CK. apply (keeps_of_lk anyq). intros U0. unfold serve.
  destruct (route_table E) as [hd| |] eqn:RT.
  - apply lk_with_error_handler. eapply route_other; eassumption.
  - apply lk_pres. pres_go.
  - apply lk_pres. pres_go.
Qed.

(* ================================================================================================ *)
(* Part D: the requests that reach a lock hook, as functions of the start state                     *)
(* ================================================================================================ *)
Section Targets.
Variable E : env.
Hypothesis nofaults : o_faults (e_O E) = [].
Hypothesis ND : NoDup (c_mods (e_cfg E)).
Hypothesis HM : has_mod (e_cfg E) MLock = true.
Notation now := (o_now (e_O E)).
Notation cfg := (e_cfg E).
Notation lc := (lcfg_of E).
Notation vals := (values E).
Notation pid := (aget (pid_field E) (values E)).
Notation FAIL := (LFail (o_now (e_O E))).
Notation OKB := (LOkBefore (o_now (e_O E))).

(* the body reader succeeds (defaults/values.go): what the handlers below need to get at the credential *)
Definition readable : bool := match rv_res E with Ok _ => true | _ => false end.

Lemma readable_true : readable = true ->
  q_badbody (e_req E) = false /\ (c_api cfg = true -> q_meth (e_req E) <> GET).
Proof.
  unfold readable, rv_res. destruct (q_badbody (e_req E)); [discriminate|]. intros H. split; [reflexivity|].
  intros Ca. rewrite Ca in H. destruct (q_meth (e_req E)); try discriminate; discriminate H.
Qed.
Lemma readable_false : readable = false -> rv_res E = Err ErrOther.
Proof.
  unfold readable, rv_res. destruct (q_badbody (e_req E)); [reflexivity|].
  destruct (c_api cfg); [|discriminate]. destruct (q_meth (e_req E)); try discriminate; reflexivity.
Qed.
Lemma unreadable_bind {B} (k : amap -> M B) h : readable = false ->
  (v <- read_values E ;; k v) h = (Err ErrOther, h).
Proof. intros RF. unfold bind. rewrite read_values_const, (readable_false RF). reflexivity. Qed.

Definition verdict_ops (v : verdict) (parked : bool) : list lop :=
  match v with Rejected => [FAIL] | Accepted => ok_ops E parked | NotChecked => [] end.

(* a request writes the lock triple of at most one account: [Some (P0, ops)] = the machine ran ops on
   P0's triple, [None] = the user table is what it was *)
Definition target := option (bytes * list lop).
Definition target_spec (t : target) (h h' : hst) : Prop :=
  match t with
  | None => users h' = users h
  | Some (P0, ops) =>
      exists u0', (forall u0, ulookup P0 (users h) = Some u0 -> ltriple u0' = ltriple u0) /\
                  applied E P0 u0' ops h h'
  end.

Lemma tspec_same P0 u h h' : ulookup P0 (users h) = Some u -> users h' = users h ->
  target_spec (Some (P0, [])) h h'.
Proof.
  intros Lu Us. exists u. split; [intros u0 H; congruence|]. split.
  - rewrite Us. cbn [lrun fold_left]. rewrite set_ltriple_id. exact Lu.
  - intros p _. rewrite Us. reflexivity.
Qed.
Lemma tspec_applied P0 u u' ops h h' : ulookup P0 (users h) = Some u -> ltriple u' = ltriple u ->
  applied E P0 u' ops h h' -> target_spec (Some (P0, ops)) h h'.
Proof. intros Lu Lt A. exists u'. split; [intros u0 H; congruence|exact A]. Qed.

(* ---- /login, /otp/login ---------------------------------------------------------------------- *)
Definition login_tgt (us : list (bytes * user)) : target :=
  if readable then
    match ulookup pid us with
    | Some u => Some (pid, verdict_ops (login_verdict E u) (blocked E u || enrolled E u))
    | None => None
    end
  else None.

Lemma login_target h r h' : login_post E h = (r, h') -> keyed (h_st h) -> target_spec (login_tgt (users h)) h h'.
Proof.
  intros Eq Ky. unfold login_tgt. destruct readable eqn:Rd.
  - destruct (readable_true Rd) as (Bb & Api). destruct (ulookup pid (users h)) as [u|] eqn:Lu.
    + unfold login_verdict. destruct (pwcheck (e_C E) (u_password u) (aget f_password vals)) eqn:Pw; cbn [verdict_ops].
      * eapply tspec_applied; [exact Lu|reflexivity|]. eapply login_correct_lemma; eauto.
      * eapply tspec_applied; [exact Lu|reflexivity|]. eapply login_wrong_lemma; eauto.
    + cbn [target_spec]. unfold users. rewrite (login_unknown_lemma E h r h' Eq Lu). reflexivity.
  - unfold login_post in Eq. rewrite (unreadable_bind _ h Rd) in Eq. inversion Eq; reflexivity.
Qed.

Definition otp_tgt (us : list (bytes * user)) : target :=
  if readable then
    match ulookup pid us with
    | Some u => Some (pid, verdict_ops (otp_verdict3 E u) (blocked E u || enrolled E u))
    | None => None
    end
  else None.

Lemma otp_target h r h' : otp_login_post E h = (r, h') -> keyed (h_st h) -> target_spec (otp_tgt (users h)) h h'.
Proof.
  intros Eq Ky. unfold otp_tgt. destruct readable eqn:Rd.
  - destruct (readable_true Rd) as (Bb & Api). destruct (ulookup pid (users h)) as [u|] eqn:Lu.
    + unfold otp_verdict3. destruct (otp_verdict E u) as [[i|]|] eqn:Vd; cbn [verdict_ops].
      * eapply tspec_applied; [exact Lu| |eapply otp_correct_lemma; eauto]. reflexivity.
      * eapply tspec_applied; [exact Lu|reflexivity|]. eapply otp_wrong_lemma; eauto.
      * eapply tspec_same; [exact Lu|]. exact (otp_malformed_lemma E nofaults Bb Api _ _ _ _ Eq Lu Vd).
    + cbn [target_spec]. unfold users. rewrite (otp_unknown_lemma E h r h' Eq Lu). reflexivity.
  - unfold otp_login_post in Eq. rewrite (unreadable_bind _ h Rd) in Eq. inversion Eq; reflexivity.
Qed.

(* ---- /2fa/totp/validate, /2fa/sms/validate ---------------------------------------------------- *)
Definition totp_tgt (us : list (bytes * user)) : target :=
  if readable then
    match subject E k_totp_pending us with
    | Some (P, u) => Some (P, verdict_ops (totp_verdict E u) (blocked E u))
    | None => None
    end
  else None.

Lemma uc_users h1 h : uc h1 = uc h -> users h1 = users h.
Proof. unfold uc, users. intros H. inversion H; reflexivity. Qed.

Lemma totp_target h r h' :
  totp_validate_post E h = (r, h') -> h_cuser h = None -> h_cpid h = None -> keyed (h_st h) ->
  target_spec (totp_tgt (users h)) h h'.
Proof.
  intros Eq Hc Hp Ky. unfold totp_tgt.
  destruct (subject_load E nofaults k_totp_pending h Hc Hp) as (h0 & U0 & Ex).
  pose proof (uc_users _ _ U0) as Us0.
  destruct readable eqn:Rd.
  - destruct (readable_true Rd) as (Bb & Api).
    destruct (subject E k_totp_pending (users h)) as [[P u]|] eqn:Sub.
    + unfold totp_verdict. destruct (totp_check E u) as [u1 st] eqn:TC. cbn [snd].
      pose proof (totp_lemma E nofaults ND HM Bb Api _ _ _ _ _ _ _ Eq Hc Hp Ky Sub TC) as T.
      destruct (totp_check_facts _ _ _ _ TC) as (_ & Lt & _ & _).
      pose proof (subject_lookup _ _ _ _ _ Sub) as Lu.
      destruct st as [[| |]|]; cbn [verdict_ops].
      * eapply tspec_applied; [exact Lu|exact Lt|exact T].
      * eapply tspec_applied; [exact Lu|reflexivity|apply T].
      * eapply tspec_applied; [exact Lu|reflexivity|apply T].
      * eapply tspec_same; eassumption.
    + cbn [target_spec]. unfold totp_validate_post in Eq.
      apply bind_inv in Eq as [(x & h1 & E1 & E2)|[(e & E1 & ->)|(E1 & ->)]];
        unfold totp_validate in E1; unfold bind at 1 in E1; rewrite Ex in E1; inversion E1; subst.
      exact Us0.
  - cbn [target_spec]. unfold totp_validate_post in Eq.
    apply bind_inv in Eq as [(x & h1 & E1 & E2)|[(e & E1 & ->)|(E1 & ->)]];
      unfold totp_validate in E1; unfold bind at 1 in E1; rewrite Ex in E1;
      destruct (subject E k_totp_pending (users h)) as [[P u]|]; try (inversion E1; subst; exact Us0);
      cbn beta iota in E1;
      (destruct (bempty (u_totp u)); [|rewrite (unreadable_bind _ h0 Rd) in E1]); inversion E1; subst; try exact Us0.
    cbn beta iota in E2. eapply left_by_pres; [apply log_respond_pres|exact Us0|exact E2].
Qed.

Definition sms_tgt (us : list (bytes * user)) : target :=
  if readable then
    match subject E k_sms_pending us with
    | Some (P, u) => Some (P, verdict_ops (sms_verdict E u) (blocked E u))
    | None => None
    end
  else None.

Lemma sms_target h r h' :
  sms_validator_post E SPValidate h = (r, h') -> h_cuser h = None -> h_cpid h = None -> keyed (h_st h) ->
  target_spec (sms_tgt (users h)) h h'.
Proof.
  intros Eq Hc Hp Ky. unfold sms_tgt.
  destruct (subject_load E nofaults k_sms_pending h Hc Hp) as (h0 & U0 & Ex).
  pose proof (uc_users _ _ U0) as Us0.
  destruct readable eqn:Rd.
  - destruct (readable_true Rd) as (Bb & Api).
    destruct (subject E k_sms_pending (users h)) as [[P u]|] eqn:Sub.
    + unfold sms_verdict.
      pose proof (sms_lemma E nofaults ND HM Bb Api _ _ _ _ _ Eq Hc Hp Ky Sub) as T.
      pose proof (subject_lookup _ _ _ _ _ Sub) as Lu.
      destruct (sms_check E u) as [[b u1]|] eqn:SC.
      * destruct (sms_check_facts _ _ _ _ SC) as (_ & Lt & _ & _). destruct b; cbn [verdict_ops].
        -- eapply tspec_applied; [exact Lu|exact Lt|exact T].
        -- eapply tspec_applied; [exact Lu|reflexivity|apply T].
      * eapply tspec_same; eassumption.
    + cbn [target_spec]. unfold sms_validator_post in Eq. unfold bind at 1 in Eq. rewrite Ex in Eq.
      inversion Eq; subst. exact Us0.
  - cbn [target_spec]. unfold sms_validator_post in Eq. unfold bind at 1 in Eq. rewrite Ex in Eq.
    destruct (subject E k_sms_pending (users h)) as [[P u]|]; [|inversion Eq; subst; exact Us0].
    cbn beta iota in Eq. rewrite (unreadable_bind _ h0 Rd) in Eq. inversion Eq; subst. exact Us0.
Qed.

(* ---- /recover/end ------------------------------------------------------------------------------ *)
(* the record whose password the request resets, if its token, its body and the new password pass
   every check of recover.EndPost *)
Definition recover_check (us : list (bytes * user)) : option user :=
  if negb (valid [password_rule] pw_pairs vals) then None else
  match b64url_dec (aget f_token vals) with
  | None => None
  | Some raw =>
      if negb (Nat.eqb (length raw) 64) then None else
      match ufind (fun u => beqb (u_rsel u) (selector_of E raw)) us with
      | None => None
      | Some u =>
          if u_rexp u <? now then None else
          match b64std_dec (u_rver u) with
          | None => None
          | Some dbv =>
              if negb (beqb (sha (e_C E) (half2 raw)) dbv) then None else
              if (72 <? length (aget f_password vals))%nat then None else Some u
          end
      end
  end.

Definition recover_tgt (us : list (bytes * user)) : target :=
  if readable then
    match recover_check us with
    | Some u => Some (u_pid u, if c_recover_login cfg then ok_ops E (blocked E u || enrolled E u) else [])
    | None => None
    end
  else None.

Lemma recover_target h r h' :
  recover_end_post E h = (r, h') -> filed (h_st h) -> target_spec (recover_tgt (users h)) h h'.
Proof.
  intros Eq Fl. unfold recover_tgt. destruct readable eqn:Rd.
  2: { unfold recover_end_post in Eq. rewrite (unreadable_bind _ h Rd) in Eq. inversion Eq; reflexivity. }
  destruct (readable_true Rd) as (Bb & Api).
  unfold recover_check, users at 1. unfold recover_end_post, invalid_recover_token in Eq.
  unfold bind at 1 in Eq. rewrite (read_values_ok E h Bb Api) in Eq. cbv zeta in Eq.
  destruct (negb (valid [password_rule] pw_pairs vals)).
  { cbn [target_spec]. eapply left_by_pres; [apply log_respond_pres| |exact Eq]; reflexivity. }
  destruct (b64url_dec (aget f_token vals)) as [raw|].
  2: { cbn [target_spec]. eapply left_by_pres; [apply log_respond_pres| |exact Eq]; reflexivity. }
  destruct (negb (length raw =? 64)%nat).
  { cbn [target_spec]. eapply left_by_pres; [apply log_respond_pres| |exact Eq]; reflexivity. }
  unfold try, st_load_by_rsel in Eq. rewrite (backend_nofault E nofaults) in Eq.
  cbn [h_st set] in Eq.
  match type of Eq with context [ufind ?f ?l] => destruct (ufind f l) as [u|] eqn:Uf end.
  2: { cbn [target_spec]. eapply left_by_pres; [apply log_respond_pres| |exact Eq]; reflexivity. }
  destruct (u_rexp u <? now).
  { cbn [target_spec]. eapply left_by_pres; [apply log_respond_pres| |exact Eq]; reflexivity. }
  destruct (b64std_dec (u_rver u)) as [dbv|].
  2: { cbn [target_spec]. eapply left_by_pres; [apply log_respond_pres| |exact Eq]; reflexivity. }
  destruct (negb (beqb (sha (e_C E) (half2 raw)) dbv)).
  { cbn [target_spec]. eapply left_by_pres; [apply log_respond_pres| |exact Eq]; reflexivity. }
  unfold bind at 1, set_cuser at 1, modify at 1 in Eq.
  unfold bind at 1 in Eq.
  destruct (72 <? length (aget f_password vals))%nat.
  { rewrite (backend_nofault E nofaults) in Eq. cbn [target_spec]. inversion Eq; reflexivity. }
  unfold ret at 1 in Eq. unfold bind at 1 in Eq. rewrite (backend_nofault E nofaults) in Eq.
  unfold ret at 1 in Eq. cbv zeta in Eq.
  unfold bind at 1, set_cuser at 1, modify at 1 in Eq.
  unfold bind at 1 in Eq. rewrite (st_save_nofault E nofaults) in Eq.
  assert (Lu : ulookup (u_pid u) (users h) = Some u) by (eapply filedl_found; [exact Fl|exact Uf]).
  eapply (tspec_applied (u_pid u) u
            (u <| u_password := pwhash (e_C E) (aget f_password vals) |> <| u_rsel := [] |> <| u_rver := [] |> <| u_rexp := now |>));
    [exact Lu|reflexivity|].
  apply at_applied.
  match type of Eq with _ ?hS = _ =>
    assert (I : at_ (u_pid u) (u <| u_password := pwhash (e_C E) (aget f_password vals) |> <| u_rsel := [] |>
                                 <| u_rver := [] |> <| u_rexp := now |>) (users h) hS)
      by (apply at_after_save with (h := h); reflexivity) end.
  assert (N1 : EvAfterRecoverEnd <> EvAfterRegister) by discriminate.
  assert (N2 : EvAfterRecoverEnd <> EvBeforeHijack) by discriminate.
  destruct (fire_bind E nofaults ND HM EvAfterRecoverEnd false _ _ _ _ _ _ _ N1 N2 I Eq) as (b0 & h1 & I1 & Eq1).
  clear Eq. rename Eq1 into Eq.
  cbn [hooks_of_mod ops_of flat_map] in I1. rewrite lrunu_nil in I1.
  destruct (c_recover_login cfg).
  - apply (before_part E nofaults ND HM) with (1 := I1) in Eq as [(Bl & _ & I2)|(Bl & h2 & I2 & Eq)].
    + change (blocked E u = true) in Bl. rewrite Bl. cbn [orb ok_ops]. rewrite lrunu_one. exact I2.
    + change (blocked E u = false) in Bl. rewrite Bl. cbn [orb].
      apply (hijack_part E nofaults ND HM) with (1 := I2) in Eq as [(En & I3)|(En & h3 & I3 & Eq)].
      * change (enrolled E u = true) in En. rewrite En. cbn [ok_ops]. rewrite lrunu_one. exact I3.
      * change (enrolled E u = false) in En. rewrite En. cbn [ok_ops].
        skip_mod Eq. rewrite <- (two_ops E).
        eapply (after_part E nofaults ND HM); [| |exact Eq]; [apply pres_redirect; exact _|].
        eapply at_mod; [exact I3|reflexivity].
  - rewrite lrunu_nil. eapply at_pres; [|exact I1|exact Eq]. apply pres_redirect. exact _.
Qed.
End Targets.

Section Targets2.
Variable E : env.
Hypothesis nofaults : o_faults (e_O E) = [].
Hypothesis ND : NoDup (c_mods (e_cfg E)).
Hypothesis HM : has_mod (e_cfg E) MLock = true.
Notation now := (o_now (e_O E)).
Notation cfg := (e_cfg E).
Notation lc := (lcfg_of E).
Notation vals := (values E).
Notation FAIL := (LFail (o_now (e_O E))).
Notation OKB := (LOkBefore (o_now (e_O E))).

(* ---- /oauth2/callback/<provider> --------------------------------------------------------------- *)
(* the flow reaches the account: the provider is configured, the state parameter is the session's,
   the provider reported no error and answered the token exchange and the details call *)
Definition oauth_reaches (prov : bytes) : bool :=
  bmem prov (c_providers cfg) &&
  match alookup k_oauth_state (e_sess E) with
  | Some want =>
      beqb (form_value E f_state) want && bempty (form_value E f_error) &&
      pa_exchange_ok (o_provider (e_O E)) && pa_details_ok (o_provider (e_O E))
  | None => false
  end.

Definition oauth_tgt (prov : bytes) (us : list (bytes * user)) : target :=
  if oauth_reaches prov then Some (make_oauth2_pid prov (pa_uid (o_provider (e_O E))), [OKB]) else None.

Lemma oauth_target prov h r h' :
  oauth2_end E prov h = (r, h') -> keyed (h_st h) -> target_spec E (oauth_tgt prov (users h)) h h'.
Proof.
  intros Eq Ky. unfold oauth_tgt, oauth_reaches. unfold oauth2_end in Eq.
  unfold bind at 1, log at 1, modify at 1 in Eq.
  destruct (negb (bmem prov (c_providers cfg))) eqn:B1.
  { apply Bool.negb_true_iff in B1. rewrite B1. cbn [andb target_spec]. inversion Eq; reflexivity. }
  apply Bool.negb_false_iff in B1. rewrite B1. cbn [andb].
  destruct (alookup k_oauth_state (e_sess E)) as [want|]; [|cbn [target_spec]; inversion Eq; reflexivity].
  destruct (negb (beqb (form_value E f_state) want)) eqn:B2.
  { apply Bool.negb_true_iff in B2. rewrite B2. cbn [andb target_spec]. inversion Eq; reflexivity. }
  apply Bool.negb_false_iff in B2. rewrite B2. cbn [andb].
  cbv zeta in Eq. do 2 skip_mod Eq.
  destruct (negb (bempty (form_value E f_error))) eqn:B3.
  { apply Bool.negb_true_iff in B3. rewrite B3. cbn [andb target_spec].
    eapply left_by_pres; [| |exact Eq]; [pres_go|reflexivity]. }
  apply Bool.negb_false_iff in B3. rewrite B3. cbn [andb].
  destruct (negb (pa_exchange_ok (o_provider (e_O E)))) eqn:B4.
  { apply Bool.negb_true_iff in B4. rewrite B4. cbn [andb target_spec]. inversion Eq; reflexivity. }
  apply Bool.negb_false_iff in B4. rewrite B4. cbn [andb].
  destruct (negb (pa_details_ok (o_provider (e_O E)))) eqn:B5.
  { apply Bool.negb_true_iff in B5. rewrite B5. cbn [target_spec]. inversion Eq; reflexivity. }
  apply Bool.negb_false_iff in B5. rewrite B5.
  apply bind_inv in Eq as [(x & h1 & E1 & E2)|[(e & E1 & ->)|(E1 & ->)]];
    apply (new_oauth2_exact E nofaults) in E1 as (R & U1); try discriminate R.
  inversion R; subst x. clear R.
  match type of U1 with uc h1 = uc ?hX => change (users hX) with (users h) in E2 end.
  pose (pa := o_provider (e_O E)). pose (opid := make_oauth2_pid prov (pa_uid pa)).
  pose (u0 := match ulookup opid (users h) with
            | Some u => u
            | None => blank_user <| u_pid := opid |> <| u_ouid := pa_uid pa |> <| u_oprov := prov |>
                                 <| u_email := pa_email pa |> <| u_confirmed := true |>
                                 <| u_last := zero_time |> <| u_locked := zero_time |>
                                 <| u_rexp := zero_time |> <| u_oexp := zero_time |>
            end).
  pose (u := u0 <| u_oprov := prov |> <| u_otoken := pa_token pa |> <| u_oexp := pa_expiry pa |>
              <| u_orefresh := (if bempty (pa_refresh pa) then u_orefresh u0 else pa_refresh pa) |>).
  fold pa opid in E2. fold u0 in E2. fold u in E2. fold pa opid.
  assert (Us1 : users h1 = users h) by (unfold uc in U1; inversion U1 as [[A1 A2]]; exact A1).
  assert (Pk : u_pid u = opid).
  { change (u_pid u0 = opid). unfold u0. destruct (ulookup opid (users h)) eqn:Lk; [exact (Ky _ _ Lk)|reflexivity]. }
  unfold bind at 1 in E2. rewrite (backend_nofault E nofaults) in E2. unfold modify at 1 in E2.
  unfold bind at 1, set_cuser at 1, modify at 1 in E2.
  exists u. split.
  { intros a La. change (ltriple u0 = ltriple a). unfold u0. rewrite La. reflexivity. }
  apply at_applied.
  match type of E2 with _ ?hS = _ =>
    assert (I : at_ opid u (users h) hS) end.
  { apply at_after_save with (h := h); [exact Pk|reflexivity| |reflexivity].
    change (uput (u_pid u) u (users h1) = uput opid u (users h)). rewrite Us1, Pk. reflexivity. }
  assert (N1 : EvBeforeOAuth2 <> EvAfterRegister) by discriminate.
  assert (N2 : EvBeforeOAuth2 <> EvBeforeHijack) by discriminate.
  destruct (fire_bind E nofaults ND HM EvBeforeOAuth2 false _ _ _ _ _ _ _ N1 N2 I E2) as (b & h2 & I2 & E3).
  cbn [hooks_of_mod ops_of flat_map hook_op app] in I2.
  destruct b; [inversion E3; subst; exact I2|].
  do 2 skip_mod E3.
  assert (N3 : EvAfterOAuth2 <> EvAfterRegister) by discriminate.
  assert (N4 : EvAfterOAuth2 <> EvBeforeHijack) by discriminate.
  match type of E3 with _ ?hh = _ => assert (I3 : at_ opid (lrunu E u [OKB]) (users h) hh)
    by (eapply at_mod; [exact I2|reflexivity]) end.
  destruct (fire_bind E nofaults ND HM EvAfterOAuth2 _ _ _ _ _ _ _ _ N3 N4 I3 E3) as (b & h3 & I4 & E4).
  cbn [hooks_of_mod ops_of flat_map hook_op app] in I4. rewrite lrunu_nil in I4.
  destruct b; [inversion E4; subst; exact I4|].
  eapply at_pres; [|exact I4|exact E4]. apply pres_redirect. exact _.
Qed.

(* ---- /2fa/sms/confirm, /2fa/sms/remove (POST) --------------------------------------------------- *)
(* whom the access middleware in front of the two settings routes (MountedMiddleware2, a fully
   authenticated session required) lets through, the request arriving with an empty context *)
Definition mw_user (us : list (bytes * user)) : option user :=
  if ahas k_halfauth (e_sess E) then None else
  if bempty (aget k_uid (e_sess E)) then None else ulookup (aget k_uid (e_sess E)) us.

Lemma pres_mw_fail_false mp fr : pres uc (mw_fail E mp fr ;;; ret false).
Proof. unfold mw_fail. pres_go. Qed.

Lemma mw_fail_false_res mp fr h r h' : (mw_fail E mp fr ;;; ret false) h = (r, h') -> r <> Ok true.
Proof.
  intros Eq. apply bind_inv in Eq as [(a & h1 & E1 & E2)|[(e & E1 & ->)|(E1 & ->)]]; try discriminate.
  inversion E2; subst. discriminate.
Qed.

Lemma auth_mw_exact fr h r h' :
  h_cuser h = None -> h_cpid h = None -> auth_middleware E true true false fr h = (r, h') ->
  users h' = users h /\
  match mw_user (users h) with
  | Some u => r = Ok true /\ h_cuser h' = Some u
  | None => r <> Ok true
  end.
Proof.
  intros Hc Hp Eq. unfold auth_middleware in Eq. unfold mw_user.
  destruct (ahas k_halfauth (e_sess E)); cbn [andb orb] in Eq.
  { split; [eapply left_by_pres; [apply pres_mw_fail_false|reflexivity|exact Eq]|eapply mw_fail_false_res; exact Eq]. }
  unfold try, load_current_user in Eq. unfold bind at 1, get_h at 1 in Eq. rewrite Hc in Eq.
  unfold bind at 1, current_user_id at 1 in Eq. unfold bind at 1, get_h at 1 in Eq. rewrite Hp in Eq.
  unfold ret at 1 in Eq.
  destruct (bempty (aget k_uid (e_sess E))).
  { unfold fail at 1 in Eq.
    split; [eapply left_by_pres; [apply pres_mw_fail_false|reflexivity|exact Eq]|eapply mw_fail_false_res; exact Eq]. }
  unfold bind at 1, set_cpid at 1, modify at 1 in Eq.
  unfold bind at 1 in Eq. rewrite (st_load_nofault E nofaults) in Eq. cbn [h_st set] in Eq.
  change (s_users (h_st h)) with (users h) in Eq.
  destruct (ulookup (aget k_uid (e_sess E)) (users h)) as [u|].
  - unfold bind at 1, set_cuser at 1, modify at 1 in Eq. inversion Eq; subst. repeat split; reflexivity.
  - split; [eapply left_by_pres; [apply pres_mw_fail_false| |exact Eq]; reflexivity|eapply mw_fail_false_res; exact Eq].
Qed.

Lemma behind_exact hd h r h' :
  h_cuser h = None -> h_cpid h = None -> behind E true hd h = (r, h') ->
  match mw_user (users h) with
  | Some u => exists h1, users h1 = users h /\ h_cuser h1 = Some u /\ hd h1 = (r, h')
  | None => users h' = users h
  end.
Proof.
  intros Hc Hp Eq. unfold behind in Eq.
  apply bind_inv in Eq as [(a & h1 & E1 & E2)|[(e & E1 & ->)|(E1 & ->)]];
    destruct (auth_mw_exact _ _ _ _ Hc Hp E1) as (Us & M); destruct (mw_user (users h)) as [u|].
  - destruct M as (R & Cu). inversion R; subst a. exists h1. auto.
  - destruct a; [exfalso; apply M; reflexivity|]. inversion E2; subst. exact Us.
  - destruct M as (R & _). discriminate R.
  - exact Us.
  - destruct M as (R & _). discriminate R.
  - exact Us.
Qed.

(* EmailVerify.Wrap lets the request through *)
Definition ev_pass : bool := negb (c_email_auth cfg) || beqb (aget k_2fa_authed (e_sess E)) v_true.

Lemma pres_email_verify_wrap k : pres uc (email_verify_wrap E k).
Proof. unfold email_verify_wrap. pres_go. Qed.

Lemma ev_wrap_exact k hd h r h' :
  (ok <- email_verify_wrap E k ;; if ok then hd else ret tt) h = (r, h') ->
  if ev_pass then hd h = (r, h') else uc h' = uc h.
Proof.
  intros Eq. unfold ev_pass. destruct (negb (c_email_auth cfg)) eqn:B1; cbn [orb].
  { unfold email_verify_wrap in Eq. rewrite B1 in Eq. exact Eq. }
  destruct (beqb (aget k_2fa_authed (e_sess E)) v_true) eqn:B2.
  { unfold email_verify_wrap in Eq. rewrite B1, B2 in Eq. exact Eq. }
  apply bind_inv in Eq as [(a & h1 & E1 & E2)|[(e & E1 & ->)|(E1 & ->)]];
    pose proof (pres_email_verify_wrap k _ _ _ E1) as U; try exact U.
  unfold email_verify_wrap in E1. rewrite B1, B2 in E1.
  apply bind_inv in E1 as [(a1 & h2 & F1 & F2)|[(e & F1 & F2)|(F1 & F2)]]; try discriminate F2.
  inversion F2; subst. inversion E2; subst. exact U.
Qed.

(* the validator's verdict on the two settings pages: the code (or, on the removal page, the recovery
   code) was compared and is wrong *)
Definition sms_set_rejected (p : smspage) (u : user) : bool :=
  let input := aget f_code vals in
  let rc := match p with SPConfirm => [] | _ => aget f_recovery_code vals end in
  if bempty rc && bempty input then false
  else if negb (bempty rc) then
    match use_recovery_code E (decode_codes (u_recovery u)) rc with Some _ => false | None => true end
  else
    let code := aget k_sms_secret (e_sess E) in
    if bempty code then false else
    negb (beqb input code &&
          match alookup k_sms_secret_number (e_sess E) with
          | Some sent => beqb sent (match p with SPConfirm => aget k_sms_number (e_sess E) | _ => u_sms u end)
          | None => true
          end).

Ltac lkgo := repeat (lk_unfold; cbn beta iota zeta; lk_step lk_ext2); cbn beta; lk_side.

Lemma sms_reject_tail p h r h' u :
  h_cuser h = Some u -> ulookup (u_pid u) (users h) = Some u ->
  (set_cuser u ;;;
   handled <- fire E EvAfterAuthFail false ;;
   if handled then ret tt else
   log [u_pid u] ;;; respond E (smspage_name p) [(bs "errors", DOther)]) h = (r, h') ->
  applied E (u_pid u) u [FAIL] h h'.
Proof.
  intros Hc Lu F. unfold bind at 1, set_cuser at 1, modify at 1 in F.
  apply (fail_part E nofaults ND HM) with (P := u_pid u) (w := u) (L := users h) in F as (R2 & I).
  - apply at_applied. exact I.
  - apply log_respond_pres.
  - intros h0 r0 h0'. apply (log_respond_res E nofaults).
  - apply at_intro; [reflexivity|reflexivity|exact Lu|reflexivity].
Qed.

Lemma sms_set_body p h r h' u :
  p <> SPValidate -> filed (h_st h) -> h_cuser h = Some u -> ulookup (u_pid u) (users h) = Some u ->
  sms_validator_post E p h = (r, h') ->
  if readable E && sms_set_rejected p u then applied E (u_pid u) u [FAIL] h h'
  else keeps_triples (h_st h) (h_st h').
Proof.
  intros Np Fl Hc Lu Eq.
  assert (I0 : linv (users h) h).
  { apply linv_start; [exact Fl|]. intros u1 H1. rewrite Hc in H1. inversion H1; subst u1. exact Lu. }
  assert (G0 : lgood (users h) u) by exact (li_cuser _ _ I0 _ Hc).
  assert (KEEP : forall hx, linv (users h) hx -> keeps_triples (h_st h) (h_st hx)).
  { intros hx Ix. apply linv_end in Ix as (_ & Ix). exact Ix. }
  unfold sms_validator_post in Eq. unfold bind at 1, try in Eq. rewrite (current_user_ctx E h u Hc) in Eq.
  unfold ret at 1 in Eq. cbn beta iota in Eq.
  destruct (readable E) eqn:Rd; cbn [andb].
  2: { rewrite (unreadable_bind E _ h Rd) in Eq. inversion Eq; subst. apply keeps_triples_refl. }
  destruct (readable_true E Rd) as (Bb & Api).
  unfold bind at 1 in Eq. rewrite (read_values_ok E h Bb Api) in Eq. cbv zeta in Eq.
  unfold sms_set_rejected. cbv zeta.
  assert (TAIL : forall rc input,
            sms_validate_code E p u true input rc h = (r, h') ->
            if (if negb (bempty rc) then
                  match use_recovery_code E (decode_codes (u_recovery u)) rc with Some _ => false | None => true end
                else if bempty (aget k_sms_secret (e_sess E)) then false else
                     negb (beqb input (aget k_sms_secret (e_sess E)) &&
                           match alookup k_sms_secret_number (e_sess E) with
                           | Some sent => beqb sent (match p with SPConfirm => aget k_sms_number (e_sess E) | _ => u_sms u end)
                           | None => true
                           end))
            then applied E (u_pid u) u [FAIL] h h' else keeps_triples (h_st h) (h_st h')).
  { clear Eq. intros rc input Eq. unfold sms_validate_code in Eq.
    match type of Eq with bind ?m _ _ = _ =>
      assert (LV : lk (users h) (fun vu => lgood (users h) (snd vu)) m) end.
    { lkgo; cbn [snd]; lk_side. }
    assert (ACC : forall u2 h1, linv (users h) h1 -> lgood (users h) u2 ->
              (match p with
               | SPConfirm =>
                   match alookup k_sms_number (e_sess E) with
                   | None => fail ErrOther
                   | Some phone =>
                       codes <- generate_recovery_codes ;;
                       crypted <- bcrypt_codes E codes ;;
                       let u' := u2 <| u_sms := phone |> <| u_recovery := encode_codes crypted |> in
                       store_back u' true ;;;
                       st_save (e_O E) u' ;;;
                       del_session k_2fa_authed ;;; del_session k_sms_secret ;;; del_session k_sms_secret_number ;;;
                       del_session k_sms_number ;;;
                       log [u_pid u2] ;;;
                       set_cuser u' ;;;
                       respond E (bs "sms2fa_confirm_success") [(bs "recovery_codes", DList codes)]
                   end
               | SPRemove =>
                   let u' := u2 <| u_sms := [] |> in
                   store_back u' true ;;;
                   st_save (e_O E) u' ;;;
                   del_session k_twofactor ;;;
                   set_cuser u' ;;;
                   log [u_pid u2] ;;;
                   respond E (bs "sms2fa_remove_success") []
               | SPValidate => ret tt
               end) h1 = (r, h') -> keeps_triples (h_st h) (h_st h')).
    { intros u2 h1 I1 G2 F.
      match type of F with ?m h1 = _ => assert (LA : lk (users h) anyq m) end.
      { destruct p; [| |apply lk_ret; exact I]; unfold generate_recovery_codes; lkgo. }
      destruct (LA _ _ _ I1 F) as (I2 & _). exact (KEEP _ I2). }
    apply bind_inv in Eq as [(vu & h1 & E1 & E2)|[(e & E1 & ->)|(E1 & ->)]].
    2,3: destruct (LV _ _ _ I0 E1) as (I1 & _);
         (destruct (negb (bempty rc));
          [destruct (use_recovery_code E (decode_codes (u_recovery u)) rc)
          |destruct (bempty (aget k_sms_secret (e_sess E)))]); try exact (KEEP _ I1);
         inversion E1.
    destruct (LV _ _ _ I0 E1) as (I1 & G1). specialize (G1 vu eq_refl). cbn beta in G1.
    destruct (negb (bempty rc)).
    - destruct (use_recovery_code E (decode_codes (u_recovery u)) rc) as [rest|].
      + assert (fst vu = true) as Fv.
        { apply bind_inv in E1 as [(a1 & g1 & F1 & F2)|[(e & F1 & F2)|(F1 & F2)]]; try discriminate F2.
          apply bind_inv in F2 as [(a2 & g2 & F3 & F4)|[(e & F3 & F4)|(F3 & F4)]]; try discriminate F4.
          apply bind_inv in F4 as [(a3 & g3 & F5 & F6)|[(e & F5 & F6)|(F5 & F6)]]; try discriminate F6.
          inversion F6; reflexivity. }
        destruct vu as [b u2]. cbn [fst snd] in *. subst b. cbn [negb] in E2.
        destruct p; [| |exfalso; apply Np; reflexivity]; exact (ACC _ _ I1 G1 E2).
      + inversion E1; subst vu h1. cbn [negb] in E2. exact (sms_reject_tail p h r h' u Hc Lu E2).
    - destruct (bempty (aget k_sms_secret (e_sess E))); [inversion E1|].
      inversion E1; subst vu h1. clear E1.
      match type of E2 with context [negb ?b] => destruct b end; cbn [negb] in E2 |- *.
      + destruct p; [| |exfalso; apply Np; reflexivity]; exact (ACC _ _ I1 G1 E2).
      + exact (sms_reject_tail p h r h' u Hc Lu E2). }
  destruct p; [| |exfalso; apply Np; reflexivity].
  - (* confirm: no recovery code on this page *)
    change (bempty []) with true in *. cbn [andb negb] in Eq |- *.
    destruct (bempty (aget f_code vals)).
    + apply (pres_sms_send_code E SPConfirm u) in Eq. unfold uc in Eq. inversion Eq as [[A1 A2]].
      intros q b Hq. exists b. unfold users in *. rewrite A1. auto.
    + apply (TAIL [] (aget f_code vals)) in Eq. exact Eq.
  - destruct (bempty (aget f_recovery_code vals)) eqn:Brc; cbn [andb negb] in Eq |- *.
    + destruct (bempty (aget f_code vals)).
      * apply (pres_sms_send_code E SPRemove u) in Eq. unfold uc in Eq. inversion Eq as [[A1 A2]].
        intros q b Hq. exists b. unfold users in *. rewrite A1. auto.
      * apply (TAIL [] (aget f_code vals)) in Eq. exact Eq.
    + apply (TAIL (aget f_recovery_code vals) []) in Eq. rewrite Brc in Eq. cbn [negb] in Eq. exact Eq.
Qed.

(* ---- the triple-level reading of a target ------------------------------------------------------- *)
(* the operations target t applies to account P *)
Definition t_ops (t : target) (P : bytes) : list lop :=
  match t with Some (P0, ops) => if beqb P P0 then ops else [] | None => [] end.

(* every account of the table us is still in us', its triple the machine run over [t_ops t] *)
Definition triples_by (t : target) (us us' : list (bytes * user)) : Prop :=
  forall P u, ulookup P us = Some u ->
    exists u', ulookup P us' = Some u' /\ ltriple u' = lrun lc (ltriple u) (t_ops t P).

Lemma triples_of_eq us us' : us' = us -> triples_by None us us'.
Proof. intros -> P u Lu. exists u. split; [exact Lu|reflexivity]. Qed.

Lemma triples_of_keeps s s' : keeps_triples s s' -> triples_by None (s_users s) (s_users s').
Proof. intros K P u Lu. destruct (K P u Lu) as (u' & L' & T'). exists u'. split; [exact L'|exact T']. Qed.

Lemma triples_of_target t h h' : target_spec E t h h' -> triples_by t (users h) (users h').
Proof.
  destruct t as [[P0 ops]|]; cbn [target_spec].
  - intros (u0' & Lt & A1 & A2) P u Lu. cbn [t_ops]. destruct (beqb P P0) eqn:Eb.
    + apply beqb_eq in Eb. subst P0. eexists. split; [exact A1|]. rewrite ltriple_set, (Lt u Lu). reflexivity.
    + apply beqb_neq in Eb. exists u. split; [rewrite (A2 P Eb); exact Lu|reflexivity].
  - intros Us. apply triples_of_eq. exact Us.
Qed.

Lemma triples_of_applied P u ops h h' :
  ulookup P (users h) = Some u -> applied E P u ops h h' -> triples_by (Some (P, ops)) (users h) (users h').
Proof. intros Lu A. apply triples_of_target. eapply tspec_applied; [exact Lu|reflexivity|exact A]. Qed.

Definition sms_set_tgt (p : smspage) (us : list (bytes * user)) : target :=
  match mw_user us with
  | Some u =>
      if (match p with SPConfirm => ev_pass | _ => true end) && (readable E && sms_set_rejected p u)
      then Some (aget k_uid (e_sess E), [FAIL]) else None
  | None => None
  end.

Lemma mw_user_lookup us u : mw_user us = Some u -> ulookup (aget k_uid (e_sess E)) us = Some u.
Proof.
  unfold mw_user. destruct (ahas k_halfauth (e_sess E)); [discriminate|].
  destruct (bempty (aget k_uid (e_sess E))); [discriminate|]. auto.
Qed.

Lemma sms_set_after_mw p h h1 r h' u :
  p <> SPValidate -> filed (h_st h) -> mw_user (users h) = Some u ->
  users h1 = users h -> h_cuser h1 = Some u -> sms_validator_post E p h1 = (r, h') ->
  triples_by (if readable E && sms_set_rejected p u then Some (aget k_uid (e_sess E), [FAIL]) else None)
             (users h) (users h').
Proof.
  intros Np Fl Mu Us Cu F. apply mw_user_lookup in Mu.
  assert (Pk : u_pid u = aget k_uid (e_sess E)) by (apply (filed_keyed _ Fl); exact Mu).
  assert (Fl1 : filed (h_st h1)) by (unfold filed; change (s_users (h_st h1)) with (users h1); rewrite Us; exact Fl).
  assert (Lu1 : ulookup (u_pid u) (users h1) = Some u) by (rewrite Us, Pk; exact Mu).
  pose proof (sms_set_body p h1 r h' u Np Fl1 Cu Lu1 F) as B.
  destruct (readable E && sms_set_rejected p u).
  - rewrite <- Us, <- Pk. exact (triples_of_applied _ u _ _ _ Lu1 B).
  - rewrite <- Us. apply (triples_of_keeps _ _ B).
Qed.

Lemma sms_set_target p h r h' :
  p <> SPValidate -> filed (h_st h) -> h_cuser h = None -> h_cpid h = None ->
  chandler E (CSms p) h = (r, h') -> triples_by (sms_set_tgt p (users h)) (users h) (users h').
Proof.
  intros Np Fl Hc Hp Eq. unfold sms_set_tgt. destruct p; [| |exfalso; apply Np; reflexivity].
  - cbn [chandler] in Eq. unfold verified in Eq. apply (behind_exact _ _ _ _ Hc Hp) in Eq.
    destruct (mw_user (users h)) as [u|] eqn:Mu; [|apply triples_of_eq; exact Eq].
    destruct Eq as (h1 & Us & Cu & F). apply ev_wrap_exact in F. destruct ev_pass; cbn [andb].
    + exact (sms_set_after_mw SPConfirm h h1 r h' u Np Fl Mu Us Cu F).
    + apply triples_of_eq. rewrite <- Us. exact (uc_users _ _ F).
  - cbn [chandler] in Eq. apply (behind_exact _ _ _ _ Hc Hp) in Eq.
    destruct (mw_user (users h)) as [u|] eqn:Mu; [|apply triples_of_eq; exact Eq].
    destruct Eq as (h1 & Us & Cu & F). cbn [andb].
    exact (sms_set_after_mw SPRemove h h1 r h' u Np Fl Mu Us Cu F).
Qed.

(* ---- all the credential routes --------------------------------------------------------------- *)
Definition req_tgt (k : ckind) (us : list (bytes * user)) : target :=
  match k with
  | CLogin => login_tgt E us
  | COtp => otp_tgt E us
  | CTotp => totp_tgt E us
  | CSms SPValidate => sms_tgt E us
  | CSms p => sms_set_tgt p us
  | CRecover => recover_tgt E us
  | COAuth prov => oauth_tgt prov us
  end.

Lemma req_target k h r h' :
  filed (h_st h) -> h_cuser h = None -> h_cpid h = None ->
  chandler E k h = (r, h') -> triples_by (req_tgt k (users h)) (users h) (users h').
Proof.
  intros Fl Hc Hp Eq. pose proof (filed_keyed _ Fl) as Ky. destruct k as [| | |p| |prov]; cbn [req_tgt].
  - apply triples_of_target. exact (login_target E nofaults ND HM h r h' Eq Ky).
  - apply triples_of_target. exact (otp_target E nofaults ND HM h r h' Eq Ky).
  - apply triples_of_target. exact (totp_target E nofaults ND HM h r h' Eq Hc Hp Ky).
  - destruct p.
    + apply sms_set_target with (r := r); auto; discriminate.
    + apply sms_set_target with (r := r); auto; discriminate.
    + apply triples_of_target. exact (sms_target E nofaults ND HM h r h' Eq Hc Hp Ky).
  - apply triples_of_target. exact (recover_target E nofaults ND HM h r h' Eq Fl).
  - apply triples_of_target. exact (oauth_target prov h r h' Eq Ky).
Qed.
End Targets2.

(* the error handler around a route handler does not touch the user table *)
Lemma weh_users E hd h r h' :
  with_error_handler E hd h = (r, h') -> exists r1 h1, hd h = (r1, h1) /\ users h' = users h1.
Proof.
  intros Eq. unfold with_error_handler in Eq.
  apply try_inv in Eq as [(x & h1 & E1 & NP & E2)|(E1 & ->)].
  - exists x, h1. split; [exact E1|]. destruct x as [a|e|]; [inversion E2; reflexivity| |congruence].
    eapply left_by_pres; [| |exact E2]; [pres_go|reflexivity].
  - exists Panic, h'. split; [exact E1|reflexivity].
Qed.

(* one request, at the level of [serve]: the route's target, or nothing *)
Definition serve_tgt (E : env) (us : list (bytes * user)) : target :=
  match ckind_of (e_cfg E) (e_req E) with Some k => req_tgt E k us | None => None end.

Lemma serve_triples E h r h' :
  o_faults (e_O E) = [] -> NoDup (c_mods (e_cfg E)) -> has_mod (e_cfg E) MLock = true ->
  filed (h_st h) -> h_cuser h = None -> h_cpid h = None -> serve E h = (r, h') ->
  filed (h_st h') /\ triples_by E (serve_tgt E (users h)) (users h) (users h').
Proof.
  intros NF ND HM Fl Hc Hp Eq. split.
  { exact (proj1 (serve_keeps_shape E h r h' Fl (ctx_stored_none h Hc) Eq)). }
  unfold serve_tgt. destruct (ckind_of (e_cfg E) (e_req E)) as [k|] eqn:CK.
  - unfold serve in Eq. rewrite (route_cred E k CK) in Eq.
    apply weh_users in Eq as (r1 & h1 & F & Us). rewrite Us.
    exact (req_target E NF ND HM k h r1 h1 Fl Hc Hp F).
  - destruct (serve_keeps_triples_lemma E CK h r h' Fl (ctx_stored_none h Hc) Eq) as (_ & K).
    exact (triples_of_keeps E _ _ K).
Qed.

(* ================================================================================================ *)
(* Part C: the administrative actions of Step.v                                                     *)
(* ================================================================================================ *)
Definition lc_of (cfg : config) : lcfg := mkLcfg (c_lock_after cfg) (c_lock_window cfg) (c_lock_duration cfg).

Section Admin.
Variable C : crypto.
Variable cfg : config.

Ltac lkgo := repeat (lk_unfold; cbn beta iota zeta; lk_step lk_ext2); cbn beta; lk_side.

(* UpdatePassword and StartConfirmation keep every lock triple, whatever the backend does *)
Lemma lk_admin_update_password U0 O pid pw : lk U0 anyq (admin C cfg O (AUpdatePassword pid pw)).
Proof. unfold admin. cbv zeta. lkgo. Qed.
Lemma lk_admin_start_confirm U0 O pid : lk U0 anyq (admin C cfg O (AStartConfirm pid)).
Proof. unfold admin, send_mail. cbv zeta. lkgo. Qed.

(* the storage a step leaves *)
Lemma step_req_st w req O :
  w_st (fst (step C cfg w (AReq req) O)) =
  h_st (snd (serve (mkEnv C cfg O req (jar_get (q_browser req) (w_cook w)) (jar_get (q_browser req) (w_sess w)))
                   (init_hst (w_st w) O))).
Proof.
  unfold step. cbv zeta. destruct (serve _ _) as [r0 h]. cbn [fst snd]. destruct (h_out h); reflexivity.
Qed.

Definition is_admin (a : action) : Prop :=
  match a with AReq _ | APlant _ _ _ | ASetJar _ _ _ => False | _ => True end.

Lemma step_admin_st w a O : is_admin a ->
  w_st (fst (step C cfg w a O)) = h_st (snd (admin C cfg O a (init_hst (w_st w) O))).
Proof.
  intros Ia. destruct a; try (exfalso; exact Ia); unfold step; destruct (admin _ _ _ _ _) as [r0 h]; reflexivity.
Qed.

Lemma step_jar_st w a O : (match a with APlant _ _ _ | ASetJar _ _ _ => True | _ => False end) ->
  w_st (fst (step C cfg w a O)) = w_st w.
Proof. intros Ia. destruct a; try (exfalso; exact Ia); [reflexivity|]. destruct cookie; reflexivity. Qed.

(* lock.Lock / lock.Unlock: one machine operation on the named account, nothing else *)
Lemma admin_lock_exact O pid op h r h' :
  o_faults O = [] ->
  (u <- st_load O pid ;; st_save O (lock_apply (mkEnv C cfg O null_request [] []) u op)) h = (r, h') ->
  match ulookup pid (users h) with
  | Some u => users h' = uput (u_pid u) (set_ltriple u (lstep (lc_of cfg) (ltriple u) op)) (users h)
  | None => users h' = users h
  end.
Proof.
  intros NF Eq. pose (E := mkEnv C cfg O null_request [] []).
  unfold bind in Eq. rewrite (st_load_nofault E NF) in Eq. fold (users h) in Eq.
  destruct (ulookup pid (users h)) as [u|].
  - rewrite (st_save_nofault E NF) in Eq. inversion Eq; subst. reflexivity.
  - inversion Eq; subst. reflexivity.
Qed.

Lemma step_lock_or_unlock w pid O a op :
  (a = ALock pid /\ op = LManualLock (o_now O)) \/ (a = AUnlock pid /\ op = LUnlock (o_now O)) ->
  o_faults O = [] -> keyed (w_st w) ->
  let w' := fst (step C cfg w a O) in
  (forall u, ulookup pid (s_users (w_st w)) = Some u ->
     ulookup pid (s_users (w_st w')) = Some (set_ltriple u (lstep (lc_of cfg) (ltriple u) op))) /\
  (forall p, p <> pid -> ulookup p (s_users (w_st w')) = ulookup p (s_users (w_st w))) /\
  (ulookup pid (s_users (w_st w)) = None -> s_users (w_st w') = s_users (w_st w)).
Proof.
  intros Ha NF Ky w'. subst w'.
  assert (Ia : is_admin a) by (destruct Ha as [(-> & _)|(-> & _)]; exact I).
  rewrite (step_admin_st w a O Ia).
  destruct (admin C cfg O a (init_hst (w_st w) O)) as [r h'] eqn:Ea. cbn [snd].
  assert (X : match ulookup pid (s_users (w_st w)) with
              | Some u => s_users (h_st h') = uput (u_pid u) (set_ltriple u (lstep (lc_of cfg) (ltriple u) op)) (s_users (w_st w))
              | None => s_users (h_st h') = s_users (w_st w)
              end).
  { destruct Ha as [(-> & ->)|(-> & ->)]; unfold admin in Ea; cbv zeta in Ea;
      exact (admin_lock_exact O pid _ _ _ _ NF Ea). }
  destruct (ulookup pid (s_users (w_st w))) as [u|] eqn:Lu.
  - pose proof (Ky _ _ Lu) as Pk. rewrite X, Pk. repeat split.
    + intros u1 H1. inversion H1; subst u1. apply ulookup_uput_eq.
    + intros p Np. apply ulookup_uput_neq. exact Np.
    + discriminate.
  - rewrite X. repeat split; auto. discriminate.
Qed.

Theorem admin_lock_lemma w pid O :
  o_faults O = [] -> keyed (w_st w) ->
  let w' := fst (step C cfg w (ALock pid) O) in
  (forall u, ulookup pid (s_users (w_st w)) = Some u ->
     ulookup pid (s_users (w_st w')) = Some (set_ltriple u (lstep (lc_of cfg) (ltriple u) (LManualLock (o_now O))))) /\
  (forall p, p <> pid -> ulookup p (s_users (w_st w')) = ulookup p (s_users (w_st w))) /\
  (ulookup pid (s_users (w_st w)) = None -> s_users (w_st w') = s_users (w_st w)).
Proof. apply step_lock_or_unlock. left. split; reflexivity. Qed.

Theorem admin_unlock_lemma w pid O :
  o_faults O = [] -> keyed (w_st w) ->
  let w' := fst (step C cfg w (AUnlock pid) O) in
  (forall u, ulookup pid (s_users (w_st w)) = Some u ->
     ulookup pid (s_users (w_st w')) = Some (set_ltriple u (lstep (lc_of cfg) (ltriple u) (LUnlock (o_now O))))) /\
  (forall p, p <> pid -> ulookup p (s_users (w_st w')) = ulookup p (s_users (w_st w))) /\
  (ulookup pid (s_users (w_st w)) = None -> s_users (w_st w') = s_users (w_st w)).
Proof. apply step_lock_or_unlock. right. split; reflexivity. Qed.

(* the harness's direct write: the named record becomes exactly the seeded one - whatever triple it
   carries - and no other record changes *)
Theorem admin_seed_lemma w su rm O :
  let w' := fst (step C cfg w (ASeed su rm) O) in
  ulookup (u_pid su) (s_users (w_st w')) = Some su /\
  (forall p, p <> u_pid su -> ulookup p (s_users (w_st w')) = ulookup p (s_users (w_st w))).
Proof.
  cbv zeta. rewrite (step_admin_st w (ASeed su rm) O I). cbn [admin modify snd h_st init_hst set s_users].
  split; [apply ulookup_uput_eq|]. intros p Np. apply ulookup_uput_neq. exact Np.
Qed.

(* the actions that are neither a request, a lock / unlock nor a seed keep every lock triple, faults
   or not *)
Definition quiet (a : action) : Prop :=
  match a with
  | AUpdatePassword _ _ | AStartConfirm _ | APlant _ _ _ | ASetJar _ _ _ => True
  | _ => False
  end.

Theorem admin_keeps_triples_lemma w a O :
  quiet a -> filed (w_st w) -> keeps_triples (w_st w) (w_st (fst (step C cfg w a O))).
Proof.
  intros Qa Fl.
  assert (ADM : is_admin a -> (forall U0, lk U0 anyq (admin C cfg O a)) ->
                keeps_triples (w_st w) (w_st (fst (step C cfg w a O)))).
  { intros Ia LK. rewrite (step_admin_st w a O Ia).
    destruct (admin C cfg O a (init_hst (w_st w) O)) as [r h'] eqn:Ea. cbn [snd].
    exact (proj2 (keeps_of_lk anyq _ LK (init_hst (w_st w) O) r h' Fl (ctx_stored_none (init_hst (w_st w) O) eq_refl) Ea)). }
  destruct a; try (exfalso; exact Qa).
  - apply ADM; [exact I|intros U0; apply lk_admin_update_password].
  - apply ADM; [exact I|intros U0; apply lk_admin_start_confirm].
  - rewrite step_jar_st by exact I. apply keeps_triples_refl.
  - rewrite step_jar_st by exact I. apply keeps_triples_refl.
Qed.

(* [filed] (hence [keyed]) is an invariant of [step], seeds included *)
Theorem step_filed_lemma w a O : filed (w_st w) -> filed (w_st (fst (step C cfg w a O))).
Proof.
  intros Fl. destruct a as [req|pid|pid|pid pw|pid|su rm|b k v|ck b j].
  6: { rewrite (step_admin_st w (ASeed su rm) O I). cbn [admin modify snd h_st init_hst set s_users].
       unfold filed. cbn [s_users]. apply filedl_uput. exact Fl. }
  all: destruct (step C cfg w _ O) as [w' o] eqn:St; cbn [fst];
       refine (proj1 (step_shape C cfg w _ O w' o _ Fl St)); intros H; exact H.
Qed.

(* ================================================================================================ *)
(* Part E: one step, histories                                                                      *)
(* ================================================================================================ *)
Definition env_of (w : world) (req : request) (O : oracle) : env :=
  mkEnv C cfg O req (jar_get (q_browser req) (w_cook w)) (jar_get (q_browser req) (w_sess w)).

(* the machine operations action [a], taken in world [w] under oracle [O], applies to account P *)
Definition lock_ops (w : world) (a : action) (O : oracle) (P : bytes) : list lop :=
  match a with
  | AReq req => t_ops (serve_tgt (env_of w req O) (s_users (w_st w))) P
  | ALock pid => if beqb P pid then [LManualLock (o_now O)] else []
  | AUnlock pid => if beqb P pid then [LUnlock (o_now O)] else []
  | _ => []
  end.

(* a seed over an existing record carries that record's triple (a seed of a new account is free) *)
Definition seed_keeps (w : world) (a : action) : Prop :=
  match a with
  | ASeed su _ => forall u0, ulookup (u_pid su) (s_users (w_st w)) = Some u0 -> ltriple su = ltriple u0
  | _ => True
  end.

Theorem step_applies_machine_lemma w a O :
  NoDup (c_mods cfg) -> has_mod cfg MLock = true -> o_faults O = [] -> filed (w_st w) -> seed_keeps w a ->
  forall P u, ulookup P (s_users (w_st w)) = Some u ->
  exists u', ulookup P (s_users (w_st (fst (step C cfg w a O)))) = Some u' /\
             ltriple u' = lrun (lc_of cfg) (ltriple u) (lock_ops w a O P).
Proof.
  intros ND HM NF Fl Sk P u Lu.
  assert (QUIET : quiet a -> lock_ops w a O P = [] ->
            exists u', ulookup P (s_users (w_st (fst (step C cfg w a O)))) = Some u' /\
                       ltriple u' = lrun (lc_of cfg) (ltriple u) (lock_ops w a O P)).
  { intros Qa ->. exact (admin_keeps_triples_lemma w a O Qa Fl P u Lu). }
  assert (LOCK : forall pid op,
            (a = ALock pid /\ op = LManualLock (o_now O)) \/ (a = AUnlock pid /\ op = LUnlock (o_now O)) ->
            lock_ops w a O P = (if beqb P pid then [op] else []) ->
            exists u', ulookup P (s_users (w_st (fst (step C cfg w a O)))) = Some u' /\
                       ltriple u' = lrun (lc_of cfg) (ltriple u) (lock_ops w a O P)).
  { intros pid op Ha ->. destruct (step_lock_or_unlock w pid O a op Ha NF (filed_keyed _ Fl)) as (A1 & A2 & _).
    destruct (beqb P pid) eqn:Eb.
    - apply beqb_eq in Eb. subst pid. eexists. split; [exact (A1 u Lu)|]. apply ltriple_set.
    - apply beqb_neq in Eb. exists u. split; [rewrite (A2 P Eb); exact Lu|reflexivity]. }
  destruct a as [req|pid|pid|pid pw|pid|su rm|b k v|ck b j].
  - (* a request *)
    rewrite step_req_st. fold (env_of w req O).
    destruct (serve (env_of w req O) (init_hst (w_st w) O)) as [r h'] eqn:Sv. cbn [snd].
    destruct (serve_triples (env_of w req O) (init_hst (w_st w) O) r h' NF ND HM Fl eq_refl eq_refl Sv) as (_ & T).
    exact (T P u Lu).
  - apply (LOCK pid (LManualLock (o_now O))); [left; split; reflexivity|reflexivity].
  - apply (LOCK pid (LUnlock (o_now O))); [right; split; reflexivity|reflexivity].
  - apply QUIET; [exact I|reflexivity].
  - apply QUIET; [exact I|reflexivity].
  - destruct (admin_seed_lemma w su rm O) as (A1 & A2). cbn [lock_ops lrun fold_left].
    destruct (bytes_dec P (u_pid su)) as [->|Np].
    + exists su. split; [exact A1|]. exact (Sk u Lu).
    + exists u. split; [rewrite (A2 P Np); exact Lu|reflexivity].
  - apply QUIET; [exact I|reflexivity].
  - apply QUIET; [exact I|reflexivity].
Qed.

(* ---- histories -------------------------------------------------------------------------------- *)
Fixpoint run_ops (w : world) (l : list (action * oracle)) (P : bytes) : list (list lop) :=
  match l with
  | [] => []
  | (a, orc) :: r => lock_ops w a orc P :: run_ops (fst (step C cfg w a orc)) r P
  end.

Fixpoint seeds_keep (w : world) (l : list (action * oracle)) : Prop :=
  match l with
  | [] => True
  | (a, orc) :: r => seed_keeps w a /\ seeds_keep (fst (step C cfg w a orc)) r
  end.

Lemma run_cons w a O l : fst (run C cfg w ((a, O) :: l)) = fst (run C cfg (fst (step C cfg w a O)) l).
Proof.
  cbn [run]. destruct (step C cfg w a O) as [w1 o1]. cbn [fst]. destruct (run C cfg w1 l) as [w2 os]. reflexivity.
Qed.

Lemma run_filed_lemma l : forall w, filed (w_st w) -> filed (w_st (fst (run C cfg w l))).
Proof.
  induction l as [|[a O] l IH]; intros w Fl; [exact Fl|].
  rewrite run_cons. apply IH. apply step_filed_lemma. exact Fl.
Qed.

Theorem run_applies_machine_lemma l : forall w,
  NoDup (c_mods cfg) -> has_mod cfg MLock = true -> Forall (fun ao => o_faults (snd ao) = []) l ->
  filed (w_st w) -> seeds_keep w l ->
  forall P u, ulookup P (s_users (w_st w)) = Some u ->
  exists u', ulookup P (s_users (w_st (fst (run C cfg w l)))) = Some u' /\
             ltriple u' = lrun (lc_of cfg) (ltriple u) (concat (run_ops w l P)).
Proof.
  induction l as [|[a O] l IH]; intros w ND HM NF Fl Sk P u Lu.
  - exists u. split; [exact Lu|reflexivity].
  - inversion NF as [|? ? N1 N2]; subst. cbn [snd] in N1. destruct Sk as (S1 & S2).
    destruct (step_applies_machine_lemma w a O ND HM N1 Fl S1 P u Lu) as (u1 & L1 & T1).
    destruct (IH _ ND HM N2 (step_filed_lemma w a O Fl) S2 P u1 L1) as (u2 & L2 & T2).
    exists u2. rewrite run_cons. split; [exact L2|].
    cbn [run_ops concat]. rewrite T2, T1. unfold lrun. rewrite fold_left_app. reflexivity.
Qed.
End Admin.

From AB Require Import Spec.C04 Proofs.LockProofs.

(* the stored triple of an account that started fresh (or from any machine history h0) is, after any
   fault-free history of the system, the declarative reading of the concatenated operation history *)
Theorem world_refines_lemma C cfg l w :
  NoDup (c_mods cfg) -> has_mod cfg MLock = true -> Forall (fun ao => o_faults (snd ao) = []) l ->
  filed (w_st w) -> seeds_keep C cfg w l ->
  forall P u h0, ulookup P (s_users (w_st w)) = Some u -> ltriple u = lrun (lc_of cfg) l_init h0 ->
  let H := h0 ++ concat (run_ops C cfg w l P) in
  exists u', ulookup P (s_users (w_st (fst (run C cfg w l)))) = Some u' /\
    ltriple u' = lrun (lc_of cfg) l_init H /\
    u_attempts u' = streak (lc_of cfg) (rev H) /\
    u_last u' = last_stamp (lc_of cfg) (rev H) /\
    u_locked u' = locked_until (lc_of cfg) (rev H) /\
    (forall t, locked_at (ltriple u') t = true <-> t < locked_until (lc_of cfg) (rev H)).
Proof.
  intros ND HM NF Fl Sk P u h0 Lu L0 H.
  destruct (run_applies_machine_lemma C cfg l w ND HM NF Fl Sk P u Lu) as (u' & L' & T').
  exists u'. split; [exact L'|].
  assert (TH : ltriple u' = lrun (lc_of cfg) l_init H).
  { rewrite T', L0. unfold H, lrun. rewrite fold_left_app. reflexivity. }
  split; [exact TH|].
  destruct (c04_refines_lemma (lc_of cfg) H) as (R1 & R2 & R3). rewrite <- TH in R1, R2, R3.
  repeat split; try assumption.
  - intros Ht. rewrite TH in Ht. apply c04_locked_iff_lemma. exact Ht.
  - intros Ht. rewrite TH. apply c04_locked_iff_lemma. exact Ht.
Qed.

(* ---- the hypotheses are satisfiable: a concrete deployment and history --------------------------- *)
(* auth + lock, LockAfter 3, window 300 s, duration 3600 s; the harness seeds one fresh account into the
   empty world; then: three wrong passwords, the right one while locked, a manual unlock, the right one *)
Definition ex_crypto : crypto := mkCrypto (fun x => x) (fun x => x) (fun h p => beqb h p).
Definition ex_cfg : config :=
  mkConfig [MAuth; MLock] false false false false false false 3 300 3600 3600 3600 [] false false false DELETE GET false
           [] RespNotFound [] [] false false false.
Definition ex_pid : bytes := bs "a@b.c".
Definition ex_user : user :=
  blank_user <| u_pid := ex_pid |> <| u_email := ex_pid |> <| u_password := bs "secret" |> <| u_confirmed := true |>
             <| u_last := zero_time |> <| u_locked := zero_time |>.
Definition ex_oracle (t : Z) : oracle := mkOracle t [] [] [] (mkPA false false [] [] [] [] 0).
Definition ex_login (pw : string) : action :=
  AReq (mkRequest (bs "b") POST RLogin (bs "/login") [] [] [(bs "email", ex_pid); (bs "password", bs pw)] false).
Definition ex_start : world := fst (step ex_crypto ex_cfg empty_world (ASeed ex_user []) (ex_oracle 900)).
Definition ex_history : list (action * oracle) :=
  [(ex_login "wrong", ex_oracle 1000); (ex_login "wrong", ex_oracle 1010); (ex_login "guess", ex_oracle 1020);
   (ex_login "secret", ex_oracle 1030); (AUnlock ex_pid, ex_oracle 1040); (ex_login "secret", ex_oracle 1050)].

Lemma world_example_lemma :
  NoDup (c_mods ex_cfg) /\ has_mod ex_cfg MLock = true /\
  Forall (fun ao => o_faults (snd ao) = []) ex_history /\
  filed (w_st ex_start) /\ seeds_keep ex_crypto ex_cfg ex_start ex_history /\
  ulookup ex_pid (s_users (w_st ex_start)) = Some ex_user /\ ltriple ex_user = l_init /\
  concat (run_ops ex_crypto ex_cfg ex_start ex_history ex_pid) =
    [LFail 1000; LFail 1010; LFail 1020; LOkBefore 1030; LUnlock 1040; LOkBefore 1050; LOkAfter 1050] /\
  exists u', ulookup ex_pid (s_users (w_st (fst (run ex_crypto ex_cfg ex_start ex_history)))) = Some u' /\
    u_attempts u' = 0 /\ u_last u' = 1050 /\ u_locked u' = 1040 - 3600.
Proof.
  assert (ND : NoDup (c_mods ex_cfg)).
  { cbn. repeat constructor; cbn; intuition discriminate. }
  assert (HM : has_mod ex_cfg MLock = true) by reflexivity.
  assert (NF : Forall (fun ao => o_faults (snd ao) = []) ex_history) by (repeat constructor).
  assert (Fl : filed (w_st ex_start)).
  { apply step_filed_lemma. split; [constructor|intros k u []]. }
  assert (Sk : seeds_keep ex_crypto ex_cfg ex_start ex_history) by (cbn [ex_history seeds_keep seed_keeps ex_login]; tauto).
  assert (Lu : ulookup ex_pid (s_users (w_st ex_start)) = Some ex_user) by (vm_compute; reflexivity).
  assert (L0 : ltriple ex_user = l_init) by reflexivity.
  assert (Ops : concat (run_ops ex_crypto ex_cfg ex_start ex_history ex_pid) =
                [LFail 1000; LFail 1010; LFail 1020; LOkBefore 1030; LUnlock 1040; LOkBefore 1050; LOkAfter 1050])
    by (vm_compute; reflexivity).
  repeat (split; [assumption|]).
  destruct (world_refines_lemma ex_crypto ex_cfg ex_history ex_start ND HM NF Fl Sk ex_pid ex_user [] Lu L0)
    as (u' & L' & _ & R1 & R2 & R3 & _).
  rewrite Ops in R1, R2, R3. cbn [app] in R1, R2, R3.
  exists u'. split; [exact L'|]. rewrite R1, R2, R3. vm_compute. repeat split; reflexivity.
Qed.

(* ---- [lock_ops] spelled out ------------------------------------------------------------------------ *)
Theorem step_filed_keyed_lemma C cfg w a O :
  filed (w_st w) -> filed (w_st (fst (step C cfg w a O))) /\ keyed (w_st (fst (step C cfg w a O))).
Proof. intros Fl. pose proof (step_filed_lemma C cfg w a O Fl) as F. split; [exact F|exact (filed_keyed _ F)]. Qed.

Lemma lock_ops_request_lemma C cfg w req O P :
  lock_ops C cfg w (AReq req) O P =
  match ckind_of cfg req with
  | Some k =>
      match req_tgt (env_of C cfg w req O) k (s_users (w_st w)) with
      | Some (P0, ops) => if beqb P P0 then ops else []
      | None => []
      end
  | None => []
  end.
Proof.
  unfold lock_ops, serve_tgt, t_ops. cbn [e_cfg e_req env_of]. destruct (ckind_of cfg req); reflexivity.
Qed.

(* ... for instance a password login: one LFail on the named account when the password is wrong, what a
   login applies when it is right, nothing when the body does not parse or the account is unknown *)
Lemma lock_ops_login_lemma C cfg w req O P :
  q_route req = RLogin -> q_meth req = POST -> has_mod cfg MAuth = true ->
  let E := env_of C cfg w req O in
  let pid := aget (pid_field E) (values E) in
  lock_ops C cfg w (AReq req) O P =
  if readable E then
    match ulookup pid (s_users (w_st w)) with
    | Some u =>
        if beqb P pid then
          (if pwcheck C (u_password u) (aget f_password (values E))
           then ok_ops E (blocked E u || enrolled E u) else [LFail (o_now O)])
        else []
    | None => []
    end
  else [].
Proof.
  intros Hr Hm Ha E pid. rewrite lock_ops_request_lemma. unfold ckind_of. rewrite Hr, Hm, Ha.
  cbn [req_tgt]. unfold login_tgt. fold E. destruct (readable E); [|reflexivity]. fold pid.
  destruct (ulookup pid (s_users (w_st w))) as [u|]; [|reflexivity].
  destruct (beqb P pid); [|reflexivity]. unfold login_verdict.
  change (e_C E) with C. destruct (pwcheck C (u_password u) (aget f_password (values E))); reflexivity.
Qed.
