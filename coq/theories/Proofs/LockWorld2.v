(* C04, second half of the tie between the pure lock machine and the system: from the handlers
   (Proofs/LockWorld.v) to [step] and [run].

   Part A  a Hoare logic [lk U0 Q m] over the handler monad: "m keeps every lock triple" - under the
           invariant that every stored record and the context user carry the lock triple that the
           table U0 (the user table the request started from) holds for their pid, the invariant is
           kept, whatever the backend does (no no-fault hypothesis).  Proved for every primitive,
           every hook except the three lock hooks, every middleware, and every route handler that
           fires no lock hook.
   Part B  the route table: which requests can reach a lock hook ([ckind_of]), and the frame for all
           the others ([serve_keeps_triples]).
   Part C  the administrative actions of Step.v.
   Part D  the requests that do reach a lock hook, as functions of the start state ([req_ops]).
   Part E  [lock_ops], one step, histories. *)
From AB Require Import World.Step Proofs.EvLogic Proofs.Neutral Proofs.MonadInv Proofs.StoreLogic
  Proofs.SameView Proofs.SameView2 Proofs.NoPanic Proofs.Gate Proofs.TwoFactorProofs Proofs.StoreShape
  Proofs.Footprint Proofs.LockWorld.
Open Scope Z_scope.

(* ================================================================================================ *)
(* Part A: the logic                                                                                *)
(* ================================================================================================ *)
Section LK.
Variable U0 : list (bytes * user).              (* the user table the request started from *)

(* a record is good when it carries the triple U0 holds for its pid (any triple if U0 has none) *)
Definition lgood (u : user) : Prop := forall a, ulookup (u_pid u) U0 = Some a -> ltriple u = ltriple a.

Record linv (h : hst) : Prop := mkLinv {
  li_filed : filed (h_st h);
  li_mono : forall p, ulookup p U0 <> None -> ulookup p (s_users (h_st h)) <> None;
  li_users : forall k b, In (k, b) (s_users (h_st h)) -> lgood b;
  li_cuser : forall u, h_cuser h = Some u -> lgood u
}.

Lemma linv_same h h' : uc h' = uc h -> linv h -> linv h'.
Proof.
  unfold uc. intros Eq [I1 I2 I3 I4]. inversion Eq as [[A1 A2]].
  split; unfold filed in *; rewrite ?A1, ?A2; assumption.
Qed.

Definition lk {A} (Q : A -> Prop) (m : M A) : Prop :=
  forall h r h', linv h -> m h = (r, h') -> linv h' /\ forall a, r = Ok a -> Q a.

Lemma lk_post {A} (Q Q' : A -> Prop) (m : M A) : (forall a, Q a -> Q' a) -> lk Q m -> lk Q' m.
Proof.
  intros HQ Hm h r h' Hi Eq. destruct (Hm _ _ _ Hi Eq) as (I1 & R1). split; [exact I1|].
  intros a Ha. apply HQ. apply R1. exact Ha.
Qed.
Lemma lk_top {A} (Q : A -> Prop) (m : M A) : lk Q m -> lk anyq m.
Proof. apply lk_post. intros; exact I. Qed.

Lemma lk_pres {A} (m : M A) : pres uc m -> lk anyq m.
Proof.
  intros Hp h r h' Hi Eq. apply Hp in Eq. split; [exact (linv_same _ _ Eq Hi)|intros; exact I].
Qed.

Lemma lk_ret {A} (Q : A -> Prop) (a : A) : Q a -> lk Q (ret a).
Proof.
  intros HQ h r h' Hi Eq. inversion Eq; subst. split; [exact Hi|].
  intros a0 Ha. inversion Ha; subst. exact HQ.
Qed.
Lemma lk_fail {A} (Q : A -> Prop) e : lk Q (@fail A e).
Proof. intros h r h' Hi Eq. inversion Eq; subst. split; [exact Hi|intros a Ha; discriminate Ha]. Qed.
Lemma lk_panic {A} (Q : A -> Prop) : lk Q (@panic A).
Proof. intros h r h' Hi Eq. inversion Eq; subst. split; [exact Hi|intros a Ha; discriminate Ha]. Qed.

Lemma lk_bind {A B} (Q : A -> Prop) (Q' : B -> Prop) (m : M A) (f : A -> M B) :
  lk Q m -> (forall a, Q a -> lk Q' (f a)) -> lk Q' (bind m f).
Proof.
  intros Hm Hf h r h' Hi Eq. destruct (bind_inv _ _ _ _ _ Eq) as [(a & h1 & E1 & E2)|[(e & E1 & ->)|(E1 & ->)]].
  - destruct (Hm _ _ _ Hi E1) as (I1 & R1). exact (Hf a (R1 a eq_refl) _ _ _ I1 E2).
  - destruct (Hm _ _ _ Hi E1) as (I1 & _). split; [exact I1|intros a Ha; discriminate Ha].
  - destruct (Hm _ _ _ Hi E1) as (I1 & _). split; [exact I1|intros a Ha; discriminate Ha].
Qed.
Lemma lk_try {A B} (Q : A -> Prop) (Q' : B -> Prop) (m : M A) (f : res A -> M B) :
  lk Q m -> (forall a, Q a -> lk Q' (f (Ok a))) -> (forall e, lk Q' (f (Err e))) -> lk Q' (try m f).
Proof.
  intros Hm Hok Herr h r h' Hi Eq. destruct (try_inv _ _ _ _ _ Eq) as [(x & h1 & E1 & NP & E2)|(E1 & ->)].
  - destruct (Hm _ _ _ Hi E1) as (I1 & R1).
    destruct x as [a|e|]; [exact (Hok a (R1 a eq_refl) _ _ _ I1 E2)|exact (Herr e _ _ _ I1 E2)|congruence].
  - destruct (Hm _ _ _ Hi E1) as (I1 & _). split; [exact I1|intros a Ha; discriminate Ha].
Qed.

Lemma lk_get_h_bind {B} (Q : B -> Prop) (f : hst -> M B) :
  (forall h0, linv h0 -> lk Q (f h0)) -> lk Q (bind get_h f).
Proof. intros Hf h r h' Hi Eq. unfold bind, get_h in Eq. eapply Hf; eauto. Qed.

Lemma lk_backend O {A} (Q : A -> Prop) k (body : M A) : lk Q body -> lk Q (backend O k body).
Proof.
  intros Hb h r h' Hi Eq. unfold backend in Eq.
  destruct (fault_at (h_ncalls h) (o_faults O)) as [[|]|].
  - inversion Eq; subst. split; [apply (linv_same h); [reflexivity|exact Hi]|intros a Ha; discriminate Ha].
  - inversion Eq; subst. split; [apply (linv_same h); [reflexivity|exact Hi]|intros a Ha; discriminate Ha].
  - eapply Hb in Eq; [exact Eq|apply (linv_same h); [reflexivity|exact Hi]].
Qed.

Lemma lk_set_cuser (Q : unit -> Prop) u : lgood u -> Q tt -> lk Q (set_cuser u).
Proof.
  intros Hu HQ h r h' [I1 I2 I3 I4] Eq. inversion Eq; subst. split; [|intros [] _; exact HQ].
  split; try assumption. intros u0 H0. simpl in H0. inversion H0; subst. exact Hu.
Qed.

Lemma lk_st_load O pid : lk lgood (st_load O pid).
Proof.
  unfold st_load. apply lk_backend. intros h r h' Hi Eq.
  destruct (ulookup pid (s_users (h_st h))) as [u|] eqn:L; inversion Eq; subst.
  - split; [exact Hi|]. intros a Ha. inversion Ha; subst. apply ulookup_in in L. exact (li_users _ Hi _ _ L).
  - split; [exact Hi|intros a Ha; discriminate Ha].
Qed.
Lemma lk_st_load_by_csel O sel : lk lgood (st_load_by_csel O sel).
Proof.
  unfold st_load_by_csel. apply lk_backend. intros h r h' Hi Eq.
  destruct (ufind _ (s_users (h_st h))) as [u|] eqn:L; inversion Eq; subst.
  - split; [exact Hi|]. intros a Ha. inversion Ha; subst. apply ufind_in in L as (k & L). exact (li_users _ Hi _ _ L).
  - split; [exact Hi|intros a Ha; discriminate Ha].
Qed.
Lemma lk_st_load_by_rsel O sel : lk lgood (st_load_by_rsel O sel).
Proof.
  unfold st_load_by_rsel. apply lk_backend. intros h r h' Hi Eq.
  destruct (ufind _ (s_users (h_st h))) as [u|] eqn:L; inversion Eq; subst.
  - split; [exact Hi|]. intros a Ha. inversion Ha; subst. apply ufind_in in L as (k & L). exact (li_users _ Hi _ _ L).
  - split; [exact Hi|intros a Ha; discriminate Ha].
Qed.
Lemma lk_save_body (Q : unit -> Prop) u : lgood u -> Q tt ->
  lk Q (modify (fun h => h <| h_st := h_st h <| s_users := uput (u_pid u) u (s_users (h_st h)) |> |>)).
Proof.
  intros Hu HQ h r h' [I1 I2 I3 I4] Eq. inversion Eq; subst. split; [|intros [] _; exact HQ].
  split; cbn [h_st h_cuser set s_users s_rm]; simpl.
  - apply filedl_uput. exact I1.
  - intros p Hp. apply ulookup_uput_some. exact (I2 p Hp).
  - intros k v Hin. apply uput_in in Hin as [Hin|Hin]; [inversion Hin; subst; exact Hu|exact (I3 _ _ Hin)].
  - exact I4.
Qed.
Lemma lk_st_save O (Q : unit -> Prop) u : lgood u -> Q tt -> lk Q (st_save O u).
Proof. intros Hu HQ. unfold st_save. apply lk_backend. apply lk_save_body; assumption. Qed.

(* Create writes only under a pid that storage - hence U0 - does not hold: any triple is good there *)
Lemma lk_st_create O u : lk (fun _ => lgood u) (st_create O u).
Proof.
  unfold st_create. apply lk_backend. intros h r h' [I1 I2 I3 I4] Eq.
  destruct (ulookup (u_pid u) (s_users (h_st h))) eqn:L; inversion Eq; subst.
  - split; [split; assumption|intros a Ha; discriminate Ha].
  - assert (G : lgood u).
    { intros a Ha. exfalso. apply (I2 (u_pid u)); [rewrite Ha; discriminate|exact L]. }
    split; [|intros _ _; exact G]. split; simpl.
    + apply filedl_snoc; assumption.
    + intros p Hp. apply ulookup_snoc_keep. exact (I2 p Hp).
    + intros k v Hin. apply in_app_or in Hin as [Hin|[Hin|[]]]; [exact (I3 _ _ Hin)|inversion Hin; subst; exact G].
    + exact I4.
Qed.
End LK.

(* ---- syntax-directed prover (after StoreShape's) ------------------------------------------------ *)
Ltac lk_unfold :=
  unfold respond, render, redirect, ro_plain, ro_ok, ro_fail, ro_follow_redir, current_user_id,
         store_back, bcrypt_codes, invalid_confirm_token, invalid_recover_token,
         selector_of, verifier_of.

Ltac lk_cuser_fact Hd :=
  try match type of Hd with
      | h_cuser ?h = Some ?u =>
          match goal with Hx : linv _ h |- _ => pose proof (li_cuser _ _ Hx _ Hd) end
      end.

Ltac lgood_tac :=
  first
  [ assumption
  | match goal with H : lgood _ ?u |- lgood _ _ => exact H end ].

Ltac lk_side :=
  repeat match goal with
  | |- anyq _ => exact I
  | |- True => exact I
  | |- lgood _ _ => lgood_tac
  | |- lk _ _ _ => assumption
  | |- forall _, _ => intro
  end.

Ltac lk_prim :=
  match goal with
  | |- lk _ _ (ret _) => apply lk_ret
  | |- lk _ _ (fail _) => apply lk_fail
  | |- lk _ _ panic => apply lk_panic
  | |- lk _ _ (set_cuser _) => apply lk_set_cuser
  | |- lk _ _ (st_load _ _) => eapply lk_top; apply lk_st_load
  | |- lk _ _ (st_save _ _) => apply lk_st_save
  | |- lk _ _ (st_use_rm _ _ _) => apply lk_pres, pres_uc_st_use_rm
  | |- lk _ _ (modify (fun h => h <| h_st := h_st h <| s_users := uput _ _ _ |> |>)) => apply lk_save_body
  | |- lk _ _ (backend _ _ (fail _)) => apply lk_backend, lk_fail
  | |- lk _ _ _ => apply lk_pres; pres_go; fail
  end.

Ltac lk_step ext :=
  match goal with
  | |- lk _ _ (bind get_h _) =>
      let h0 := fresh "h0" in let Hx := fresh "Hx" in apply lk_get_h_bind; intros h0 Hx
  | |- lk _ _ (bind (ret ?v) _) =>
      eapply (lk_bind _ (fun x => x = v)); [apply lk_ret; reflexivity|intros ? ->]
  | |- lk _ _ (bind (backend _ KHash (ret ?v)) _) =>
      eapply (lk_bind _ (fun x => x = v)); [apply lk_backend, lk_ret; reflexivity|intros ? ->]
  | |- lk _ _ (bind (st_load _ _) _) =>
      let u := fresh "u" in let Hq := fresh "Hq" in
      eapply lk_bind; [apply lk_st_load | intros u Hq]
  | |- lk _ _ (try (st_load _ _) _) =>
      let u := fresh "u" in let Hq := fresh "Hq" in
      eapply lk_try; [apply lk_st_load | intros u Hq | intros ?]
  | |- lk _ _ (try (st_load_by_csel _ _) _) =>
      let u := fresh "u" in let Hq := fresh "Hq" in
      eapply lk_try; [apply lk_st_load_by_csel | intros u Hq | intros ?]
  | |- lk _ _ (try (st_load_by_rsel _ _) _) =>
      let u := fresh "u" in let Hq := fresh "Hq" in
      eapply lk_try; [apply lk_st_load_by_rsel | intros u Hq | intros ?]
  | |- lk _ _ (try (st_create _ _) _) =>
      let Hq := fresh "Hq" in
      eapply lk_try; [apply lk_st_create | intros ? Hq | intros ?]
  | |- _ => ext
  | |- lk _ _ (bind _ _) => eapply (lk_bind _ anyq); [|intros ? _]
  | |- lk _ _ (try _ _) => eapply (lk_try _ anyq); [|intros ? _|intros ?]
  | |- lk _ _ (if ?c then _ else _) => destruct c eqn:?
  | |- lk _ _ (match ?x with _ => _ end) => let Hd := fresh "Hd" in destruct x eqn:Hd; lk_cuser_fact Hd
  | |- lk _ _ (let '(_, _) := ?x in _) => destruct x eqn:?
  | |- _ => lk_prim
  end.

Ltac lk_noext := fail.
Ltac lk_go0 := repeat (lk_unfold; cbn beta iota zeta; lk_step lk_noext).

Section CU.
Variable E : env.
Variable U0 : list (bytes * user).
Notation LKK := (lk U0).
Notation Good := (lgood U0).

Lemma lk_current_user : LKK (fun p => Good (fst p)) (current_user E).
Proof. unfold current_user. lk_go0; lk_side. Qed.

Lemma lk_load_current_user : LKK Good (load_current_user E).
Proof. unfold load_current_user. lk_go0; lk_side. Qed.
End CU.

Ltac lk_ext1 :=
  idtac; match goal with
  | |- lk _ _ (bind (current_user _) _) =>
      let u := fresh "u" in let sh := fresh "sh" in let Hq := fresh "Hq" in
      eapply lk_bind; [apply lk_current_user | intros [u sh] Hq; cbn [fst] in Hq]
  | |- lk _ _ (try (current_user _) _) =>
      let u := fresh "u" in let sh := fresh "sh" in let Hq := fresh "Hq" in
      eapply lk_try; [apply lk_current_user | intros [u sh] Hq; cbn [fst] in Hq | intros ?]
  | |- lk _ _ (try (load_current_user _) _) =>
      let u := fresh "u" in let Hq := fresh "Hq" in
      eapply lk_try; [apply lk_load_current_user | intros u Hq | intros ?]
  end.
Ltac lk_go1 := repeat (lk_unfold; cbn beta iota zeta; lk_step lk_ext1).

(* ---- the hooks that are not the lock module's ----------------------------------------------------- *)
Definition nolock (hk : hook) : Prop := hk <> HLockBefore /\ hk <> HLockAfterOk /\ hk <> HLockAfterFail.

Section HK.
Variable E : env.
Variable U0 : list (bytes * user).
Notation LKK := (lk U0).

Lemma lk_hook hk rm hd : nolock hk -> LKK anyq (run_hook E hk rm hd).
Proof.
  intros (N1 & N2 & N3). destruct hk; try congruence; unfold run_hook, generate_token, rm_generate, send_mail;
    lk_go1; lk_side.
Qed.

Lemma lk_call hs : Forall nolock hs -> forall rm hd, LKK anyq (call E hs rm hd).
Proof.
  induction 1 as [|hk hs Hk _ IH]; intros rm hd; cbn [call].
  - apply lk_ret. exact I.
  - eapply lk_bind; [apply lk_hook; exact Hk|intros; apply IH].
Qed.

(* the events that no handler of the lock module listens to *)
Lemma hooks_nolock e :
  e <> EvBeforeAuth -> e <> EvBeforeOAuth2 -> e <> EvAfterAuth -> e <> EvAfterAuthFail ->
  Forall nolock (hooks E e).
Proof.
  intros N1 N2 N3 N4. unfold hooks. apply Forall_app. split.
  - induction (c_mods (e_cfg E)) as [|m l IH]; [constructor|]. cbn [flat_map]. apply Forall_app. split; [|exact IH].
    destruct m, e; simpl; try congruence; repeat constructor; discriminate.
  - destruct e; try constructor; try congruence.
    destruct (c_sms_first (e_cfg E)), (c_totp (e_cfg E)), (c_sms (e_cfg E)); simpl; repeat constructor; discriminate.
Qed.

Lemma lk_fire_register rm : LKK anyq (fire E EvAfterRegister rm).
Proof. unfold fire. apply lk_call. apply hooks_nolock; discriminate. Qed.
End HK.

Ltac lk_ext2 :=
  idtac; match goal with
  | |- lk _ _ (fire _ EvAfterRegister _) => apply lk_fire_register
  | |- _ => lk_ext1
  end.
Ltac lk_go2 := repeat (lk_unfold; cbn beta iota zeta; lk_step lk_ext2).

(* ---- middlewares ------------------------------------------------------------------------------ *)
Section MW.
Variable E : env.
Variable U0 : list (bytes * user).
Notation LKK := (lk U0).

Lemma lk_auth_middleware mp full tf fr : LKK anyq (auth_middleware E mp full tf fr).
Proof. unfold auth_middleware, mw_fail. lk_go2; lk_side. Qed.
Lemma lk_lock_mw : LKK anyq (lock_mw E).
Proof. unfold lock_mw. lk_go2; lk_side. Qed.
Lemma lk_confirm_mw : LKK anyq (confirm_mw E).
Proof. unfold confirm_mw. lk_go2; lk_side. Qed.
Lemma lk_remember_mw : LKK anyq (remember_mw E).
Proof. unfold remember_mw, remember_authenticate, rm_generate. lk_go2; lk_side. Qed.
Lemma lk_app_handler : LKK anyq (app_handler E).
Proof. unfold app_handler. lk_go2; lk_side. Qed.
Lemma lk_email_verify_wrap k : LKK anyq (email_verify_wrap E k).
Proof. unfold email_verify_wrap. lk_go2; lk_side. Qed.
End MW.

(* ---- route handlers that fire no lock hook ----------------------------------------------------- *)
Section HD.
Variable E : env.
Variable U0 : list (bytes * user).
Notation LKK := (lk U0).
Notation Good := (lgood U0).

Lemma lk_totp_validate : LKK (fun r => Good (fst (fst r))) (totp_validate E).
Proof.
  unfold totp_validate. eapply (lk_bind _ (fun p => Good (fst p))).
  - lk_go2; cbn beta; cbn [fst]; lk_side.
  - intros [u sh] Hq. cbn [fst] in Hq. lk_go2; cbn beta; cbn [fst]; lk_side.
Qed.

Lemma lk_sms_send_code p u : LKK anyq (sms_send_code E p u).
Proof. unfold sms_send_code. destruct p; lk_go2; lk_side. Qed.

Ltac lk_ext3 :=
  idtac; match goal with
  | |- lk _ _ (bind (totp_validate _) _) =>
      let u := fresh "u" in let sh := fresh "sh" in let st := fresh "st" in let Hq := fresh "Hq" in
      eapply lk_bind; [apply lk_totp_validate | intros [[u sh] st] Hq; cbn [fst] in Hq]
  | |- lk _ _ (sms_send_code _ _ _) => apply lk_sms_send_code
  | |- _ => lk_ext2
  end.
Ltac go := repeat (lk_unfold; cbn beta iota zeta; lk_step lk_ext3); cbn beta; lk_side.

Lemma lk_login_get : LKK anyq (login_get E). Proof. unfold login_get. go. Qed.
Lemma lk_otp_login_get : LKK anyq (otp_login_get E). Proof. unfold otp_login_get. go. Qed.
Lemma lk_otp_show pg : LKK anyq (otp_show E pg). Proof. unfold otp_show. go. Qed.
Lemma lk_otp_add_post : LKK anyq (otp_add_post E). Proof. unfold otp_add_post. go. Qed.
Lemma lk_otp_clear_post : LKK anyq (otp_clear_post E). Proof. unfold otp_clear_post. go. Qed.
Lemma lk_resp0 pg : LKK anyq (resp0 E pg). Proof. unfold resp0. go. Qed.
Lemma lk_register_post : LKK anyq (register_post E). Proof. unfold register_post. go. Qed.
Lemma lk_confirm_get : LKK anyq (confirm_get E). Proof. unfold confirm_get. go. Qed.
Lemma lk_recover_start_post : LKK anyq (recover_start_post E).
Proof. unfold recover_start_post, generate_token, send_mail. go. Qed.
Lemma lk_recover_end_get : LKK anyq (recover_end_get E). Proof. unfold recover_end_get. go. Qed.
Lemma lk_logout : LKK anyq (logout E). Proof. unfold logout. go. Qed.

Lemma lk_recovery_regen_get : LKK anyq (recovery_regen_get E). Proof. unfold recovery_regen_get. go. Qed.
Lemma lk_recovery_regen_post : LKK anyq (recovery_regen_post E).
Proof. unfold recovery_regen_post, generate_recovery_codes. go. Qed.
Lemma lk_email_verify_get k : LKK anyq (email_verify_get E k). Proof. unfold email_verify_get. go. Qed.
Lemma lk_email_verify_post k : LKK anyq (email_verify_post E k). Proof. unfold email_verify_post, send_mail. go. Qed.
Lemma lk_email_verify_end k : LKK anyq (email_verify_end E k). Proof. unfold email_verify_end. go. Qed.

Lemma lk_totp_setup_get : LKK anyq (totp_setup_get E). Proof. unfold totp_setup_get. go. Qed.
Lemma lk_totp_setup_post : LKK anyq (totp_setup_post E). Proof. unfold totp_setup_post. go. Qed.
Lemma lk_totp_confirm_get : LKK anyq (totp_confirm_get E). Proof. unfold totp_confirm_get. go. Qed.
Lemma lk_totp_confirm_post : LKK anyq (totp_confirm_post E).
Proof. unfold totp_confirm_post, generate_recovery_codes. go. Qed.
Lemma lk_totp_remove_post : LKK anyq (totp_remove_post E). Proof. unfold totp_remove_post. go. Qed.
Lemma lk_totp_qr : LKK anyq (totp_qr E). Proof. unfold totp_qr. go. Qed.

Lemma lk_sms_setup_get : LKK anyq (sms_setup_get E). Proof. unfold sms_setup_get. go. Qed.
Lemma lk_sms_setup_post : LKK anyq (sms_setup_post E). Proof. unfold sms_setup_post. go. Qed.
Lemma lk_oauth2_start prov : LKK anyq (oauth2_start E prov). Proof. unfold oauth2_start. go. Qed.

(* wrappers *)
Lemma lk_behind full hd : LKK anyq hd -> LKK anyq (behind E full hd).
Proof.
  intros Hh. unfold behind. eapply (lk_bind _ anyq); [apply lk_auth_middleware|].
  intros ok _. destruct ok; [exact Hh|apply lk_ret; exact I].
Qed.
Lemma lk_verified k hd : LKK anyq hd -> LKK anyq (verified E k hd).
Proof.
  intros Hh. unfold verified. apply lk_behind. eapply (lk_bind _ anyq); [apply lk_email_verify_wrap|].
  intros ok _. destruct ok; [exact Hh|apply lk_ret; exact I].
Qed.
Lemma lk_with_error_handler hd : LKK anyq hd -> LKK anyq (with_error_handler E hd).
Proof. intros Hh. unfold with_error_handler. go. Qed.

Lemma lk_app_stack full tf fr l c r e : LKK anyq (app_stack E full tf fr l c r e).
Proof.
  unfold app_stack. eapply (lk_bind _ anyq).
  { destruct e; [unfold expire_mw|]; go. }
  intros sess _. cbv zeta.
  eapply (lk_bind _ anyq).
  { destruct r; [|apply lk_ret; exact I]. eapply (lk_bind _ anyq); [apply (lk_remember_mw (with_sess E sess))|].
    intros _ _. unfold remembered_view. apply lk_get_h_bind. intros h0 _. destruct (h_cpid h0); apply lk_ret; exact I. }
  intros sess2 _. eapply (lk_bind _ anyq). { apply (lk_auth_middleware (with_sess E sess2)). }
  intros ok _. destruct ok; [|apply lk_ret; exact I]. cbn [negb].
  eapply (lk_bind _ anyq). { destruct l; [apply (lk_lock_mw (with_sess E sess2))|apply lk_ret; exact I]. }
  intros ok _. destruct ok; [|apply lk_ret; exact I]. cbn [negb].
  eapply (lk_bind _ anyq). { destruct c; [apply (lk_confirm_mw (with_sess E sess2))|apply lk_ret; exact I]. }
  intros ok _. destruct ok; [|apply lk_ret; exact I]. cbn [negb].
  apply (lk_app_handler (with_sess E sess2)).
Qed.
End HD.

(* ================================================================================================ *)
(* Part B: the route table                                                                          *)
(* ================================================================================================ *)
(* the requests whose handler can reach a lock hook.  Besides the six login paths these are the two
   SMS settings posts: sms2fa's validator reports a wrong code to the AuthFail event on the setup
   confirmation and on the removal page as well (sms.go validateCode), not only on the login step *)
Inductive ckind := CLogin | COtp | CTotp | CSms (p : smspage) | CRecover | COAuth (prov : bytes).

Definition ckind_of (cfg : config) (q : request) : option ckind :=
  match q_route q, q_meth q with
  | RLogin, POST => if has_mod cfg MAuth then Some CLogin else None
  | ROtpLogin, POST => if has_mod cfg MOtp then Some COtp else None
  | RRecoverEnd, POST => if has_mod cfg MRecover then Some CRecover else None
  | RTotpValidate, POST => if c_totp cfg then Some CTotp else None
  | RSmsValidate, POST => if c_sms cfg then Some (CSms SPValidate) else None
  | RSmsConfirm, POST => if c_sms cfg then Some (CSms SPConfirm) else None
  | RSmsRemove, POST => if c_sms cfg then Some (CSms SPRemove) else None
  | ROAuthCallback p, GET => if has_mod cfg MOAuth2 && bmem p (c_providers cfg) then Some (COAuth p) else None
  | _, _ => None
  end.

Definition chandler (E : env) (k : ckind) : M unit :=
  match k with
  | CLogin => login_post E
  | COtp => otp_login_post E
  | CTotp => totp_validate_post E
  | CSms SPValidate => sms_validator_post E SPValidate
  | CSms SPConfirm => verified E KSms (sms_validator_post E SPConfirm)
  | CSms SPRemove => behind E true (sms_validator_post E SPRemove)
  | CRecover => recover_end_post E
  | COAuth p => oauth2_end E p
  end.

Lemma route_cred E k : ckind_of (e_cfg E) (e_req E) = Some k -> route_table E = Handler (chandler E k).
Proof.
  unfold ckind_of, route_table, when, get_post, on_method.
  destruct (q_route (e_req E)) eqn:Hr; destruct (q_meth (e_req E)) eqn:Hm; cbn beta iota; cbn [meth_eqb];
    try discriminate;
    match goal with |- (if ?c then _ else _) = _ -> _ => destruct c end;
    intros CK; try discriminate CK; injection CK as <-; reflexivity.
Qed.

Lemma route_other E U0 hd :
  ckind_of (e_cfg E) (e_req E) = None -> route_table E = Handler hd -> lk U0 anyq hd.
Proof.
  unfold ckind_of, route_table, when, get_post, on_method.
  destruct (q_route (e_req E)) eqn:Hr; destruct (q_meth (e_req E)) eqn:Hm; cbn beta iota; cbn [meth_eqb];
    intros CK;
    repeat match goal with |- (if ?c then _ else _) = Handler _ -> _ => destruct c end;
    intros RT; try discriminate RT; try discriminate CK; injection RT as <-;
    repeat first
      [ apply lk_verified | apply lk_behind | apply lk_app_stack
      | apply lk_login_get | apply lk_otp_login_get
      | apply lk_otp_show | apply lk_otp_add_post | apply lk_otp_clear_post | apply lk_resp0
      | apply lk_register_post | apply lk_confirm_get | apply lk_recover_start_post | apply lk_recover_end_get
      | apply lk_logout | apply lk_recovery_regen_get | apply lk_recovery_regen_post
      | apply lk_email_verify_get | apply lk_email_verify_post | apply lk_email_verify_end
      | apply lk_totp_setup_get | apply lk_totp_setup_post | apply lk_totp_confirm_get
      | apply lk_totp_confirm_post | apply lk_totp_remove_post
      | apply lk_totp_qr | apply lk_sms_setup_get | apply lk_sms_setup_post
      | apply lk_oauth2_start ].
Qed.

(* ---- closed form ------------------------------------------------------------------------------ *)
(* every record that was there is still there, with the lock triple it had (other fields may have
   changed; new records may have appeared) *)
Definition keeps_triples (s s' : storage) : Prop :=
  forall p u, ulookup p (s_users s) = Some u ->
    exists u', ulookup p (s_users s') = Some u' /\ ltriple u' = ltriple u.

Lemma keeps_triples_refl s : keeps_triples s s.
Proof. intros p u H. eauto. Qed.
Lemma keeps_triples_trans s1 s2 s3 : keeps_triples s1 s2 -> keeps_triples s2 s3 -> keeps_triples s1 s3.
Proof.
  intros A B p u H. destruct (A p u H) as (u2 & H2 & T2). destruct (B p u2 H2) as (u3 & H3 & T3).
  exists u3. split; [exact H3|congruence].
Qed.

Lemma linv_start h : filed (h_st h) -> ctx_stored h -> linv (s_users (h_st h)) h.
Proof.
  intros F Cx. split.
  - exact F.
  - auto.
  - intros k b Hin a Ha. destruct F as [ND Ky]. rewrite (Ky _ _ Hin), (in_ulookup _ _ _ ND Hin) in Ha.
    inversion Ha; reflexivity.
  - intros u Hu a Ha. rewrite (Cx u Hu) in Ha. inversion Ha; reflexivity.
Qed.
Lemma linv_end U0 h : linv U0 h ->
  filed (h_st h) /\ forall p u, ulookup p U0 = Some u ->
    exists u', ulookup p (s_users (h_st h)) = Some u' /\ ltriple u' = ltriple u.
Proof.
  intros [I1 I2 I3 I4]. split; [exact I1|]. intros p u Hu.
  destruct (ulookup p (s_users (h_st h))) as [b|] eqn:L.
  - exists b. split; [reflexivity|]. pose proof (ulookup_in _ _ _ L) as Hin. destruct I1 as [_ Ky].
    apply (I3 _ _ Hin). rewrite (Ky _ _ Hin). exact Hu.
  - exfalso. apply (I2 p); [rewrite Hu; discriminate|exact L].
Qed.

Definition keeps_lock {A} (m : M A) : Prop :=
  forall h r h', filed (h_st h) -> ctx_stored h -> m h = (r, h') ->
    filed (h_st h') /\ keeps_triples (h_st h) (h_st h').

Lemma keeps_of_lk {A} (Q : A -> Prop) (m : M A) : (forall U0, lk U0 Q m) -> keeps_lock m.
Proof.
  intros H h r h' F Cx Eq. destruct (H _ h r h' (linv_start h F Cx) Eq) as [I' _].
  apply linv_end in I'. exact I'.
Qed.

(* 1. every request that is not one of the [ckind_of] ones - pages, register, confirm, recover
   start, logout, the other 2FA settings routes, the application stacks with every middleware,
   404 / 405, disabled modules, wrong methods - keeps every lock triple, faults or not *)
Theorem serve_keeps_triples_lemma E : ckind_of (e_cfg E) (e_req E) = None -> keeps_lock (serve E).
Proof.
  intros CK. apply (keeps_of_lk anyq). intros U0. unfold serve.
  destruct (route_table E) as [hd| |] eqn:RT.
  - apply lk_with_error_handler. eapply route_other; eassumption.
  - apply lk_pres. pres_go.
  - apply lk_pres. pres_go.
Qed.

(* ================================================================================================ *)
(* Part D: the requests that reach a lock hook, as functions of the start state                     *)
(* ================================================================================================ *)
Section Targets.
Variable E : env.
Hypothesis nofaults : o_faults (e_O E) = [].
Hypothesis ND : NoDup (c_mods (e_cfg E)).
Hypothesis HM : has_mod (e_cfg E) MLock = true.
Notation now := (o_now (e_O E)).
Notation cfg := (e_cfg E).
Notation lc := (lcfg_of E).
Notation vals := (values E).
Notation pid := (aget (pid_field E) (values E)).
Notation FAIL := (LFail (o_now (e_O E))).
Notation OKB := (LOkBefore (o_now (e_O E))).

(* the body reader succeeds (defaults/values.go): what the handlers below need to get at the credential *)
Definition readable : bool := match rv_res E with Ok _ => true | _ => false end.

Lemma readable_true : readable = true ->
  q_badbody (e_req E) = false /\ (c_api cfg = true -> q_meth (e_req E) <> GET).
Proof.
  unfold readable, rv_res. destruct (q_badbody (e_req E)); [discriminate|]. intros H. split; [reflexivity|].
  intros Ca. rewrite Ca in H. destruct (q_meth (e_req E)); try discriminate; discriminate H.
Qed.
Lemma readable_false : readable = false -> rv_res E = Err ErrOther.
Proof.
  unfold readable, rv_res. destruct (q_badbody (e_req E)); [reflexivity|].
  destruct (c_api cfg); [|discriminate]. destruct (q_meth (e_req E)); try discriminate; reflexivity.
Qed.
Lemma unreadable_bind {B} (k : amap -> M B) h : readable = false ->
  (v <- read_values E ;; k v) h = (Err ErrOther, h).
Proof. intros RF. unfold bind. rewrite read_values_const, (readable_false RF). reflexivity. Qed.

Definition verdict_ops (v : verdict) (parked : bool) : list lop :=
  match v with Rejected => [FAIL] | Accepted => ok_ops E parked | NotChecked => [] end.

(* a request writes the lock triple of at most one account: [Some (P0, ops)] = the machine ran ops on
   P0's triple, [None] = the user table is what it was *)
Definition target := option (bytes * list lop).
Definition target_spec (t : target) (h h' : hst) : Prop :=
  match t with
  | None => users h' = users h
  | Some (P0, ops) =>
      exists u0', (forall u0, ulookup P0 (users h) = Some u0 -> ltriple u0' = ltriple u0) /\
                  applied E P0 u0' ops h h'
  end.

Lemma tspec_same P0 u h h' : ulookup P0 (users h) = Some u -> users h' = users h ->
  target_spec (Some (P0, [])) h h'.
Proof.
  intros Lu Us. exists u. split; [intros u0 H; congruence|]. split.
  - rewrite Us. cbn [lrun fold_left]. rewrite set_ltriple_id. exact Lu.
  - intros p _. rewrite Us. reflexivity.
Qed.
Lemma tspec_applied P0 u u' ops h h' : ulookup P0 (users h) = Some u -> ltriple u' = ltriple u ->
  applied E P0 u' ops h h' -> target_spec (Some (P0, ops)) h h'.
Proof. intros Lu Lt A. exists u'. split; [intros u0 H; congruence|exact A]. Qed.

(* ---- /login, /otp/login ---------------------------------------------------------------------- *)
Definition login_tgt (us : list (bytes * user)) : target :=
  if readable then
    match ulookup pid us with
    | Some u => Some (pid, verdict_ops (login_verdict E u) (blocked E u || enrolled E u))
    | None => None
    end
  else None.

Lemma login_target h r h' : login_post E h = (r, h') -> keyed (h_st h) -> target_spec (login_tgt (users h)) h h'.
Proof.
  intros Eq Ky. unfold login_tgt. destruct readable eqn:Rd.
  - destruct (readable_true Rd) as (Bb & Api). destruct (ulookup pid (users h)) as [u|] eqn:Lu.
    + unfold login_verdict. destruct (pwcheck (e_C E) (u_password u) (aget f_password vals)) eqn:Pw; cbn [verdict_ops].
      * eapply tspec_applied; [exact Lu|reflexivity|]. eapply login_correct_lemma; eauto.
      * eapply tspec_applied; [exact Lu|reflexivity|]. eapply login_wrong_lemma; eauto.
    + cbn [target_spec]. unfold users. rewrite (login_unknown_lemma E h r h' Eq Lu). reflexivity.
  - unfold login_post in Eq. rewrite (unreadable_bind _ h Rd) in Eq. inversion Eq; reflexivity.
Qed.

Definition otp_tgt (us : list (bytes * user)) : target :=
  if readable then
    match ulookup pid us with
    | Some u => Some (pid, verdict_ops (otp_verdict3 E u) (blocked E u || enrolled E u))
    | None => None
    end
  else None.

Lemma otp_target h r h' : otp_login_post E h = (r, h') -> keyed (h_st h) -> target_spec (otp_tgt (users h)) h h'.
Proof.
  intros Eq Ky. unfold otp_tgt. destruct readable eqn:Rd.
  - destruct (readable_true Rd) as (Bb & Api). destruct (ulookup pid (users h)) as [u|] eqn:Lu.
    + unfold otp_verdict3. destruct (otp_verdict E u) as [[i|]|] eqn:Vd; cbn [verdict_ops].
      * eapply tspec_applied; [exact Lu| |eapply otp_correct_lemma; eauto]. reflexivity.
      * eapply tspec_applied; [exact Lu|reflexivity|]. eapply otp_wrong_lemma; eauto.
      * eapply tspec_same; [exact Lu|]. exact (otp_malformed_lemma E nofaults Bb Api _ _ _ _ Eq Lu Vd).
    + cbn [target_spec]. unfold users. rewrite (otp_unknown_lemma E h r h' Eq Lu). reflexivity.
  - unfold otp_login_post in Eq. rewrite (unreadable_bind _ h Rd) in Eq. inversion Eq; reflexivity.
Qed.

(* ---- /2fa/totp/validate, /2fa/sms/validate ---------------------------------------------------- *)
Definition totp_tgt (us : list (bytes * user)) : target :=
  if readable then
    match subject E k_totp_pending us with
    | Some (P, u) => Some (P, verdict_ops (totp_verdict E u) (blocked E u))
    | None => None
    end
  else None.

Lemma uc_users h1 h : uc h1 = uc h -> users h1 = users h.
Proof. unfold uc, users. intros H. inversion H; reflexivity. Qed.

Lemma totp_target h r h' :
  totp_validate_post E h = (r, h') -> h_cuser h = None -> h_cpid h = None -> keyed (h_st h) ->
  target_spec (totp_tgt (users h)) h h'.
Proof.
  intros Eq Hc Hp Ky. unfold totp_tgt.
  destruct (subject_load E nofaults k_totp_pending h Hc Hp) as (h0 & U0 & Ex).
  pose proof (uc_users _ _ U0) as Us0.
  destruct readable eqn:Rd.
  - destruct (readable_true Rd) as (Bb & Api).
    destruct (subject E k_totp_pending (users h)) as [[P u]|] eqn:Sub.
    + unfold totp_verdict. destruct (totp_check E u) as [u1 st] eqn:TC. cbn [snd].
      pose proof (totp_lemma E nofaults ND HM Bb Api _ _ _ _ _ _ _ Eq Hc Hp Ky Sub TC) as T.
      destruct (totp_check_facts _ _ _ _ TC) as (_ & Lt & _ & _).
      pose proof (subject_lookup _ _ _ _ _ Sub) as Lu.
      destruct st as [[| |]|]; cbn [verdict_ops].
      * eapply tspec_applied; [exact Lu|exact Lt|exact T].
      * eapply tspec_applied; [exact Lu|reflexivity|apply T].
      * eapply tspec_applied; [exact Lu|reflexivity|apply T].
      * eapply tspec_same; eassumption.
    + cbn [target_spec]. unfold totp_validate_post in Eq.
      apply bind_inv in Eq as [(x & h1 & E1 & E2)|[(e & E1 & ->)|(E1 & ->)]];
        unfold totp_validate in E1; unfold bind at 1 in E1; rewrite Ex in E1; inversion E1; subst.
      exact Us0.
  - cbn [target_spec]. unfold totp_validate_post in Eq.
    apply bind_inv in Eq as [(x & h1 & E1 & E2)|[(e & E1 & ->)|(E1 & ->)]];
      unfold totp_validate in E1; unfold bind at 1 in E1; rewrite Ex in E1;
      destruct (subject E k_totp_pending (users h)) as [[P u]|]; try (inversion E1; subst; exact Us0);
      cbn beta iota in E1;
      (destruct (bempty (u_totp u)); [|rewrite (unreadable_bind _ h0 Rd) in E1]); inversion E1; subst; try exact Us0.
    cbn beta iota in E2. eapply left_by_pres; [apply log_respond_pres|exact Us0|exact E2].
Qed.

Definition sms_tgt (us : list (bytes * user)) : target :=
  if readable then
    match subject E k_sms_pending us with
    | Some (P, u) => Some (P, verdict_ops (sms_verdict E u) (blocked E u))
    | None => None
    end
  else None.

Lemma sms_target h r h' :
  sms_validator_post E SPValidate h = (r, h') -> h_cuser h = None -> h_cpid h = None -> keyed (h_st h) ->
  target_spec (sms_tgt (users h)) h h'.
Proof.
  intros Eq Hc Hp Ky. unfold sms_tgt.
  destruct (subject_load E nofaults k_sms_pending h Hc Hp) as (h0 & U0 & Ex).
  pose proof (uc_users _ _ U0) as Us0.
  destruct readable eqn:Rd.
  - destruct (readable_true Rd) as (Bb & Api).
    destruct (subject E k_sms_pending (users h)) as [[P u]|] eqn:Sub.
    + unfold sms_verdict.
      pose proof (sms_lemma E nofaults ND HM Bb Api _ _ _ _ _ Eq Hc Hp Ky Sub) as T.
      pose proof (subject_lookup _ _ _ _ _ Sub) as Lu.
      destruct (sms_check E u) as [[b u1]|] eqn:SC.
      * destruct (sms_check_facts _ _ _ _ SC) as (_ & Lt & _ & _). destruct b; cbn [verdict_ops].
        -- eapply tspec_applied; [exact Lu|exact Lt|exact T].
        -- eapply tspec_applied; [exact Lu|reflexivity|apply T].
      * eapply tspec_same; eassumption.
    + cbn [target_spec]. unfold sms_validator_post in Eq. unfold bind at 1 in Eq. rewrite Ex in Eq.
      inversion Eq; subst. exact Us0.
  - cbn [target_spec]. unfold sms_validator_post in Eq. unfold bind at 1 in Eq. rewrite Ex in Eq.
    destruct (subject E k_sms_pending (users h)) as [[P u]|]; [|inversion Eq; subst; exact Us0].
    cbn beta iota in Eq. rewrite (unreadable_bind _ h0 Rd) in Eq. inversion Eq; subst. exact Us0.
Qed.

(* ---- /recover/end ------------------------------------------------------------------------------ *)
(* the record whose password the request resets, if its token, its body and the new password pass
   every check of recover.EndPost *)
Definition recover_check (us : list (bytes * user)) : option user :=
  if negb (valid [password_rule] pw_pairs vals) then None else
  match b64url_dec (aget f_token vals) with
  | None => None
  | Some raw =>
      if negb (Nat.eqb (length raw) 64) then None else
      match ufind (fun u => beqb (u_rsel u) (selector_of E raw)) us with
      | None => None
      | Some u =>
          if u_rexp u <? now then None else
          match b64std_dec (u_rver u) with
          | None => None
          | Some dbv =>
              if negb (beqb (sha (e_C E) (half2 raw)) dbv) then None else
              if (72 <? length (aget f_password vals))%nat then None else Some u
          end
      end
  end.

Definition recover_tgt (us : list (bytes * user)) : target :=
  if readable then
    match recover_check us with
    | Some u => Some (u_pid u, if c_recover_login cfg then ok_ops E (blocked E u || enrolled E u) else [])
    | None => None
    end
  else None.

Lemma recover_target h r h' :
  recover_end_post E h = (r, h') -> filed (h_st h) -> target_spec (recover_tgt (users h)) h h'.
Proof.
  intros Eq Fl. unfold recover_tgt. destruct readable eqn:Rd.
  2: { unfold recover_end_post in Eq. rewrite (unreadable_bind _ h Rd) in Eq. inversion Eq; reflexivity. }
  destruct (readable_true Rd) as (Bb & Api).
  unfold recover_check, users at 1. unfold recover_end_post, invalid_recover_token in Eq.
  unfold bind at 1 in Eq. rewrite (read_values_ok E h Bb Api) in Eq. cbv zeta in Eq.
  destruct (negb (valid [password_rule] pw_pairs vals)).
  { cbn [target_spec]. eapply left_by_pres; [apply log_respond_pres| |exact Eq]; reflexivity. }
  destruct (b64url_dec (aget f_token vals)) as [raw|].
  2: { cbn [target_spec]. eapply left_by_pres; [apply log_respond_pres| |exact Eq]; reflexivity. }
  destruct (negb (length raw =? 64)%nat).
  { cbn [target_spec]. eapply left_by_pres; [apply log_respond_pres| |exact Eq]; reflexivity. }
  unfold try, st_load_by_rsel in Eq. rewrite (backend_nofault E nofaults) in Eq.
  cbn [h_st set] in Eq.
  match type of Eq with context [ufind ?f ?l] => destruct (ufind f l) as [u|] eqn:Uf end.
  2: { cbn [target_spec]. eapply left_by_pres; [apply log_respond_pres| |exact Eq]; reflexivity. }
  destruct (u_rexp u <? now).
  { cbn [target_spec]. eapply left_by_pres; [apply log_respond_pres| |exact Eq]; reflexivity. }
  destruct (b64std_dec (u_rver u)) as [dbv|].
  2: { cbn [target_spec]. eapply left_by_pres; [apply log_respond_pres| |exact Eq]; reflexivity. }
  destruct (negb (beqb (sha (e_C E) (half2 raw)) dbv)).
  { cbn [target_spec]. eapply left_by_pres; [apply log_respond_pres| |exact Eq]; reflexivity. }
  unfold bind at 1, set_cuser at 1, modify at 1 in Eq.
  unfold bind at 1 in Eq.
  destruct (72 <? length (aget f_password vals))%nat.
  { rewrite (backend_nofault E nofaults) in Eq. cbn [target_spec]. inversion Eq; reflexivity. }
  unfold ret at 1 in Eq. unfold bind at 1 in Eq. rewrite (backend_nofault E nofaults) in Eq.
  unfold ret at 1 in Eq. cbv zeta in Eq.
  unfold bind at 1, set_cuser at 1, modify at 1 in Eq.
  unfold bind at 1 in Eq. rewrite (st_save_nofault E nofaults) in Eq.
  assert (Lu : ulookup (u_pid u) (users h) = Some u) by (eapply filedl_found; [exact Fl|exact Uf]).
  eapply (tspec_applied (u_pid u) u
            (u <| u_password := pwhash (e_C E) (aget f_password vals) |> <| u_rsel := [] |> <| u_rver := [] |> <| u_rexp := now |>));
    [exact Lu|reflexivity|].
  apply at_applied.
  match type of Eq with _ ?hS = _ =>
    assert (I : at_ (u_pid u) (u <| u_password := pwhash (e_C E) (aget f_password vals) |> <| u_rsel := [] |>
                                 <| u_rver := [] |> <| u_rexp := now |>) (users h) hS)
      by (apply at_after_save with (h := h); reflexivity) end.
  assert (N1 : EvAfterRecoverEnd <> EvAfterRegister) by discriminate.
  assert (N2 : EvAfterRecoverEnd <> EvBeforeHijack) by discriminate.
  destruct (fire_bind E nofaults ND HM EvAfterRecoverEnd false _ _ _ _ _ _ _ N1 N2 I Eq) as (b0 & h1 & I1 & Eq1).
  clear Eq. rename Eq1 into Eq.
  cbn [hooks_of_mod ops_of flat_map] in I1. rewrite lrunu_nil in I1.
  destruct (c_recover_login cfg).
  - apply (before_part E nofaults ND HM) with (1 := I1) in Eq as [(Bl & _ & I2)|(Bl & h2 & I2 & Eq)].
    + change (blocked E u = true) in Bl. rewrite Bl. cbn [orb ok_ops]. rewrite lrunu_one. exact I2.
    + change (blocked E u = false) in Bl. rewrite Bl. cbn [orb].
      apply (hijack_part E nofaults ND HM) with (1 := I2) in Eq as [(En & I3)|(En & h3 & I3 & Eq)].
      * change (enrolled E u = true) in En. rewrite En. cbn [ok_ops]. rewrite lrunu_one. exact I3.
      * change (enrolled E u = false) in En. rewrite En. cbn [ok_ops].
        skip_mod Eq. rewrite <- (two_ops E).
        eapply (after_part E nofaults ND HM); [| |exact Eq]; [apply pres_redirect; exact _|].
        eapply at_mod; [exact I3|reflexivity].
  - rewrite lrunu_nil. eapply at_pres; [|exact I1|exact Eq]. apply pres_redirect. exact _.
Qed.
End Targets.
