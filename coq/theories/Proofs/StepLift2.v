(* From handlers to whole requests, continued: logout (C10), the expire middleware (C09) and the
   access middleware as a gate in both directions (C08), stated on [step].

   The flush rule of [step] applies the events that had been recorded when the FIRST response
   write happened.  EvLogic's [evs_all] bounds the events a computation appends and says the
   flushed snapshot is a prefix of them; what it does not say is that a snapshot taken inside a
   computation EXTENDS the events recorded before the computation started.  The small logic
   [snap_all] below says exactly that, with the same combinators, so that a request can be cut
   in two: a head whose effect is known exactly (expire, the logging prefix of logout) and a
   tail of which only the event class is known. *)
From AB Require Import World.Step Base.TextProofs Proofs.EvLogic Proofs.Neutral Proofs.HandlerEvents Proofs.ServeEvents
  Proofs.StepUid Proofs.MonadInv Proofs.StoreLogic Proofs.Gate Proofs.Misc Proofs.LogoutProofs Proofs.ExpireProofs
  Proofs.StepGuard Proofs.OneTimeProofs.
Open Scope Z_scope.

(* ---- what would be flushed: the snapshot of the first write, else everything so far -------- *)
Definition snap_s (h : hst) : list csevent :=
  match h_out h with Some wr => w_sev wr | None => h_sev h end.
Definition snap_c (h : hst) : list csevent :=
  match h_out h with Some wr => w_cev wr | None => h_cev h end.

Section SN.
Variables (phi psi : csevent -> Prop).

Definition snap_all {A} (m : M A) : Prop :=
  forall h r h', m h = (r, h') ->
    exists l c, snap_s h' = snap_s h ++ l /\ snap_c h' = snap_c h ++ c /\ Forall phi l /\ Forall psi c.

Lemma snap_noop {A} (m : M A) :
  (forall h r h', m h = (r, h') -> h_sev h' = h_sev h /\ h_cev h' = h_cev h /\ h_out h' = h_out h) -> snap_all m.
Proof.
  intros H h r h' E. destruct (H _ _ _ E) as (E1 & E2 & E3).
  exists [], []. unfold snap_s, snap_c. rewrite E1, E2, E3, !app_nil_r. auto.
Qed.

Lemma snap_ret {A} (a : A) : snap_all (ret a).
Proof. apply snap_noop. intros h r h' E. inversion E; auto. Qed.
Lemma snap_fail {A} e : snap_all (@fail A e).
Proof. apply snap_noop. intros h r h' E. inversion E; auto. Qed.
Lemma snap_panic {A} : snap_all (@panic A).
Proof. apply snap_noop. intros h r h' E. inversion E; auto. Qed.
Lemma snap_get_h : snap_all get_h.
Proof. apply snap_noop. intros h r h' E. inversion E; subst; auto. Qed.

Lemma snap_bind {A B} (m : M A) (f : A -> M B) :
  snap_all m -> (forall a, snap_all (f a)) -> snap_all (bind m f).
Proof.
  intros Hm Hf h r h' E. apply bind_inv in E as [(a & h1 & E1 & E2)|[(e & E1 & ->)|(E1 & ->)]].
  - destruct (Hm _ _ _ E1) as (l1 & c1 & S1 & C1 & F1 & G1).
    destruct (Hf a _ _ _ E2) as (l2 & c2 & S2 & C2 & F2 & G2).
    exists (l1 ++ l2), (c1 ++ c2). rewrite S2, S1, C2, C1, !app_assoc.
    repeat split; auto; apply Forall_app; auto.
  - eapply Hm; eauto.
  - eapply Hm; eauto.
Qed.

Lemma snap_try {A B} (m : M A) (f : res A -> M B) :
  snap_all m -> (forall r, snap_all (f r)) -> snap_all (try m f).
Proof.
  intros Hm Hf h r h' E. apply try_inv in E as [(x & h1 & E1 & _ & E2)|(E1 & ->)].
  - destruct (Hm _ _ _ E1) as (l1 & c1 & S1 & C1 & F1 & G1).
    destruct (Hf x _ _ _ E2) as (l2 & c2 & S2 & C2 & F2 & G2).
    exists (l1 ++ l2), (c1 ++ c2). rewrite S2, S1, C2, C1, !app_assoc.
    repeat split; auto; apply Forall_app; auto.
  - eapply Hm; eauto.
Qed.

Lemma snap_modify f :
  (forall h, h_sev (f h) = h_sev h /\ h_cev (f h) = h_cev h /\ h_out (f h) = h_out h) -> snap_all (modify f).
Proof. intros H. apply snap_noop. intros h r h' E. inversion E; subst. apply H. Qed.

Lemma snap_sess_event e (m : M unit) :
  (forall h, m h = (Ok tt, h <| h_sev := h_sev h ++ [e] |>)) -> phi e -> snap_all m.
Proof.
  intros Hm P h r h' E. rewrite Hm in E. inversion E; subst. unfold snap_s, snap_c. cbn.
  destruct (h_out h).
  - exists [], []. rewrite !app_nil_r. auto.
  - exists [e], []. rewrite !app_nil_r. auto.
Qed.
Lemma snap_cook_event e (m : M unit) :
  (forall h, m h = (Ok tt, h <| h_cev := h_cev h ++ [e] |>)) -> psi e -> snap_all m.
Proof.
  intros Hm P h r h' E. rewrite Hm in E. inversion E; subst. unfold snap_s, snap_c. cbn.
  destruct (h_out h).
  - exists [], []. rewrite !app_nil_r. auto.
  - exists [], [e]. rewrite !app_nil_r. auto.
Qed.

Lemma snap_put_session k v : phi (Put k v) -> snap_all (put_session k v).
Proof. apply snap_sess_event. reflexivity. Qed.
Lemma snap_del_session k : phi (Del k) -> snap_all (del_session k).
Proof. apply snap_sess_event. reflexivity. Qed.
Lemma snap_delall_session wl : phi (DelAll (bjoin ","%byte wl)) -> snap_all (delall_session wl).
Proof. apply snap_sess_event. reflexivity. Qed.
Lemma snap_put_cookie k v : psi (Put k v) -> snap_all (put_cookie k v).
Proof. apply snap_cook_event. reflexivity. Qed.
Lemma snap_del_cookie k : psi (Del k) -> snap_all (del_cookie k).
Proof. apply snap_cook_event. reflexivity. Qed.

(* the first write takes the snapshot of everything recorded so far: nothing new *)
Lemma snap_write_resp r : snap_all (write_resp r).
Proof.
  intros h x h' E. unfold write_resp, modify in E. inversion E; subst. clear E.
  exists [], []. unfold snap_s, snap_c. destruct (h_out h) eqn:Ho; cbn; rewrite ?Ho, !app_nil_r; auto.
Qed.
Lemma snap_log a : snap_all (log a).
Proof. apply snap_modify. intros h. auto. Qed.
Lemma snap_fresh n : snap_all (fresh n).
Proof.
  apply snap_noop. intros h r h' E. unfold fresh in E.
  destruct (take_chunk n (h_fresh h)) as [[c t]|]; inversion E; subst; simpl; auto.
Qed.

Lemma snap_backend O {A} k (body : M A) : snap_all body -> snap_all (backend O k body).
Proof.
  intros Hb h r h' E. unfold backend in E.
  destruct (fault_at (h_ncalls h) (o_faults O)) as [[|]|].
  - inversion E; subst. exists [], []. unfold snap_s, snap_c. cbn. rewrite !app_nil_r. auto.
  - inversion E; subst. exists [], []. unfold snap_s, snap_c. cbn. rewrite !app_nil_r. auto.
  - destruct (Hb _ _ _ E) as (l & c & S & Cc & F & G). exists l, c. auto.
Qed.

Lemma snap_pure_state {A} (m : M A) :
  (forall h, h_sev (snd (m h)) = h_sev h /\ h_cev (snd (m h)) = h_cev h /\ h_out (snd (m h)) = h_out h) -> snap_all m.
Proof.
  intros H. apply snap_noop. intros h r h' E. specialize (H h). rewrite E in H. exact H.
Qed.

Variable O : oracle.
Ltac sprim := apply snap_backend; first
  [ apply snap_modify; intros; auto
  | apply snap_pure_state; intros h; simpl;
    repeat match goal with |- context [match ?x with _ => _ end] => destruct x end; auto ].

Lemma snap_st_load p : snap_all (st_load O p). Proof. unfold st_load. sprim. Qed.
Lemma snap_st_save u : snap_all (st_save O u). Proof. unfold st_save. sprim. Qed.
Lemma snap_st_add_rm p t : snap_all (st_add_rm O p t). Proof. unfold st_add_rm. sprim. Qed.
Lemma snap_st_use_rm p t : snap_all (st_use_rm O p t). Proof. unfold st_use_rm. sprim. Qed.
Lemma snap_st_del_rm p : snap_all (st_del_rm O p). Proof. unfold st_del_rm. sprim. Qed.
Lemma snap_set_cuser u : snap_all (set_cuser u). Proof. apply snap_modify; auto. Qed.
Lemma snap_set_cpid p : snap_all (set_cpid p). Proof. apply snap_modify; auto. Qed.
End SN.

Ltac snap_step :=
  match goal with
  | |- snap_all _ _ (bind _ _) => apply snap_bind; [|intros]
  | |- snap_all _ _ (try _ _) => apply snap_try; [|intros]
  | |- snap_all _ _ (ret _) => apply snap_ret
  | |- snap_all _ _ (fail _) => apply snap_fail
  | |- snap_all _ _ panic => apply snap_panic
  | |- snap_all _ _ get_h => apply snap_get_h
  | |- snap_all _ _ (put_session _ _) => apply snap_put_session
  | |- snap_all _ _ (del_session _) => apply snap_del_session
  | |- snap_all _ _ (delall_session _) => apply snap_delall_session
  | |- snap_all _ _ (put_cookie _ _) => apply snap_put_cookie
  | |- snap_all _ _ (del_cookie _) => apply snap_del_cookie
  | |- snap_all _ _ (write_resp _) => apply snap_write_resp
  | |- snap_all _ _ (log _) => apply snap_log
  | |- snap_all _ _ (fresh _) => apply snap_fresh
  | |- snap_all _ _ (st_load _ _) => apply snap_st_load
  | |- snap_all _ _ (st_save _ _) => apply snap_st_save
  | |- snap_all _ _ (st_add_rm _ _ _) => apply snap_st_add_rm
  | |- snap_all _ _ (st_use_rm _ _ _) => apply snap_st_use_rm
  | |- snap_all _ _ (st_del_rm _ _) => apply snap_st_del_rm
  | |- snap_all _ _ (set_cuser _) => apply snap_set_cuser
  | |- snap_all _ _ (set_cpid _) => apply snap_set_cpid
  | |- snap_all _ _ (backend _ _ _) => apply snap_backend
  | |- snap_all _ _ (modify _) => apply snap_modify; intros; simpl; auto
  | |- snap_all _ _ (if ?c then _ else _) => destruct c eqn:?
  | |- snap_all _ _ (match ?x with _ => _ end) => destruct x eqn:?
  | |- snap_all _ _ (let '(_, _) := ?x in _) => destruct x eqn:?
  end.
Ltac snap_go := repeat (unfold_derived; cbn beta iota; snap_step).

(* a computation started before any write: the snapshot of its first write extends what had
   been recorded when it started, by events of its class *)
Lemma snap_from phi psi {A} (m : M A) h r h' :
  snap_all phi psi m -> h_out h = None -> m h = (r, h') ->
  forall wr, h_out h' = Some wr ->
    exists l c, w_sev wr = h_sev h ++ l /\ w_cev wr = h_cev h ++ c /\ Forall phi l /\ Forall psi c.
Proof.
  intros Hm Ho Eq wr Hw. destruct (Hm _ _ _ Eq) as (l & c & S & Cc & F & G).
  unfold snap_s, snap_c in S, Cc. rewrite Ho, Hw in S, Cc. exists l, c. auto.
Qed.

(* ---- small exact specifications ---------------------------------------------------------- *)
Lemma write_resp_none r h x h' :
  h_out h = None -> write_resp r h = (x, h') ->
  x = Ok tt /\ h_out h' = Some (mkWritten r (h_sev h) (h_cev h)) /\
  h_sev h' = h_sev h /\ h_cev h' = h_cev h /\ h_st h' = h_st h /\ h_cuser h' = h_cuser h /\ h_cpid h' = h_cpid h.
Proof.
  intros Ho Eq. unfold write_resp, modify in Eq. rewrite Ho in Eq. inversion Eq; subst. cbn. auto 10.
Qed.

Lemma log_same a h x h' :
  log a h = (x, h') ->
  x = Ok tt /\ h_out h' = h_out h /\ h_sev h' = h_sev h /\ h_cev h' = h_cev h /\ h_st h' = h_st h /\
  h_cuser h' = h_cuser h /\ h_cpid h' = h_cpid h.
Proof. intros Eq. inversion Eq; subst. cbn. auto 10. Qed.

Definition no_ev (e : csevent) : Prop := False.

Section LG.
Variable E : env.
Notation cfg := (e_cfg E).

Lemma render_spec h r h' :
  render E h = (r, h') ->
  h_out h' = h_out h /\ h_sev h' = h_sev h /\ h_cev h' = h_cev h /\ h_st h' = h_st h /\
  h_cuser h' = h_cuser h /\ h_cpid h' = h_cpid h /\
  (r = Ok tt \/ (exists e, r = Err e) /\ exists n ek, fault_at n (o_faults (e_O E)) = Some ek).
Proof.
  unfold render, backend. intros Eq.
  destruct (fault_at (h_ncalls h) (o_faults (e_O E))) as [ek|] eqn:F.
  - assert (X : exists e, r = Err e /\ h' = h <| h_ncalls := S (h_ncalls h) |> <| h_calls := KRender :: h_calls h |>).
    { destruct ek; inversion Eq; subst; eauto. }
    destruct X as (e & -> & ->). cbn. repeat split; auto. right. split; eauto.
  - inversion Eq; subst. cbn. repeat split; auto.
Qed.

(* the redirect of a handler that has not written yet: either it writes, with everything
   recorded so far plus its own flash, or (API mode only) the renderer failed and nothing is
   written *)
Lemma redirect_unwritten ro h r h' :
  h_out h = None -> redirect E ro h = (r, h') ->
  let tail := if c_api cfg then [] else
              (if ro_success ro then [Put k_flash_ok v_flash] else []) ++
              (if ro_failure ro then [Put k_flash_err v_flash] else []) in
  let path := redirect_target (form_value E f_redir) (ro_path ro) (ro_follow ro) in
  h_st h' = h_st h /\ h_cev h' = h_cev h /\ h_cuser h' = h_cuser h /\ h_cpid h' = h_cpid h /\
  ((r = Ok tt /\ h_sev h' = h_sev h ++ tail /\
    h_out h' = Some (mkWritten (if c_api cfg then RespRedirectAPI 307 path (ro_failure ro) else RespRedirect302 path)
                               (h_sev h ++ tail) (h_cev h))) \/
   ((exists e, r = Err e) /\ c_api cfg = true /\ h_out h' = None /\ h_sev h' = h_sev h /\
    exists n ek, fault_at n (o_faults (e_O E)) = Some ek)).
Proof.
  intros Ho. unfold redirect. destruct (c_api cfg) eqn:Api; cbv zeta.
  - intros Eq. apply bind_inv in Eq as [(a & h1 & E1 & E2)|[(e & E1 & ->)|(E1 & ->)]].
    + apply render_spec in E1 as (R1 & R2 & R3 & R4 & R5 & R6 & _).
      apply write_resp_none in E2 as (-> & W1 & W2 & W3 & W4 & W5 & W6); [|congruence].
      rewrite app_nil_r. repeat split; try congruence. left. repeat split; congruence.
    + apply render_spec in E1 as (R1 & R2 & R3 & R4 & R5 & R6 & [Hx|(_ & Hf)]); [discriminate Hx|].
      repeat split; try congruence. right. repeat split; eauto; congruence.
    + apply render_spec in E1 as (_ & _ & _ & _ & _ & _ & [Hx|((e & Hx) & _)]); discriminate Hx.
  - intros Eq.
    assert (Pre : forall (b : bool) k (hh : hst),
              (if b then put_session k v_flash else ret tt) hh
              = (Ok tt, hh <| h_sev := h_sev hh ++ (if b then [Put k v_flash] else []) |>)).
    { intros [] k hh; cbn; [reflexivity|]. rewrite app_nil_r. destruct hh; reflexivity. }
    unfold bind at 1 in Eq. rewrite Pre in Eq. unfold bind at 1 in Eq. rewrite Pre in Eq.
    apply write_resp_none in Eq as (-> & W1 & W2 & W3 & W4 & W5 & W6); [|exact Ho].
    cbn in W1, W2, W3, W4, W5, W6. rewrite <- app_assoc in W1, W2.
    repeat split; auto; try (left; repeat split; auto; fail).
Qed.

(* CurrentUser reads: no event, no write, no storage change, no panic *)
Lemma current_user_reads h x h1 :
  current_user E h = (x, h1) ->
  x <> Panic /\ h_sev h1 = h_sev h /\ h_cev h1 = h_cev h /\ h_out h1 = h_out h /\ h_st h1 = h_st h.
Proof.
  unfold current_user, current_user_id. intros Eq.
  unfold bind at 1 in Eq. unfold get_h at 1 in Eq.
  destruct (h_cuser h) as [u|].
  - inversion Eq; subst. repeat split; auto. discriminate.
  - apply bind_inv in Eq as [(pid & h2 & E1 & E2)|[(e & E1 & ->)|(E1 & ->)]].
    + assert (h2 = h) as ->.
      { unfold bind, get_h in E1. destruct (h_cpid h); inversion E1; reflexivity. }
      destruct (bempty pid).
      * inversion E2; subst. repeat split; auto. discriminate.
      * apply bind_inv in E2 as [(u & h3 & L & R)|[(e & L & ->)|(L & ->)]].
        -- apply st_load_spec in L as (S1 & S2 & S3 & S4 & _). inversion R; subst.
           repeat split; auto. discriminate.
        -- apply st_load_spec in L as (S1 & S2 & S3 & S4 & _). repeat split; auto. discriminate.
        -- apply st_load_spec in L as (_ & _ & _ & _ & _ & _ & _ & N). congruence.
    + unfold bind, get_h in E1. destruct (h_cpid h); inversion E1.
    + unfold bind, get_h in E1. destruct (h_cpid h); inversion E1.
Qed.

Lemma logout_prefix_spec h r h1 :
  try (current_user E) (fun r => match r with
                                 | Panic => panic
                                 | Ok (u, _) => log [u_pid u]
                                 | Err _ => log []
                                 end) h = (r, h1) ->
  r = Ok tt /\ h_sev h1 = h_sev h /\ h_cev h1 = h_cev h /\ h_out h1 = h_out h /\ h_st h1 = h_st h.
Proof.
  intros Eq. apply try_inv in Eq as [(x & h0 & Cu & NP & K)|(Cu & _)].
  - apply current_user_reads in Cu as (_ & A & B & C0 & D).
    destruct x as [[u sh]|e|]; [| |congruence]; apply log_same in K as (-> & K1 & K2 & K3 & K4 & _);
      repeat split; congruence.
  - apply current_user_reads in Cu as (N & _). congruence.
Qed.

(* the whole logout route, from a state in which nothing has been written *)
Lemma logout_served h r h' :
  h_out h = None -> with_error_handler E (logout E) h = (r, h') ->
  h_st h' = h_st h /\
  (forall wr, h_out h' = Some wr ->
     exists tail, w_sev wr = h_sev h ++ logout_sev E ++ tail /\
                  tail = (if c_api cfg then [] else [Put k_flash_ok v_flash]) /\
                  w_cev wr = h_cev h ++ [Del k_rm]) /\
  (h_out h' = None -> c_api cfg = true /\ c_err_writes cfg = false /\
                      exists n ek, fault_at n (o_faults (e_O E)) = Some ek).
Proof.
  intros Ho Eq. unfold with_error_handler in Eq.
  apply try_inv in Eq as [(x & h2 & L & NP & K)|(L & _)]; [|exfalso; exact (np_logout E _ _ _ L eq_refl)].
  unfold logout in L.
  apply bind_inv in L as [(a & h1 & E1 & E2)|[(e & E1 & ->)|(E1 & ->)]];
    apply logout_prefix_spec in E1 as (Hr & P1 & P2 & P3 & P4); try discriminate Hr.
  unfold bind at 1 2 3 4 5 in E2.
  unfold delall_session, del_session, del_cookie, modify in E2.
  match type of E2 with redirect _ _ ?hh = _ => remember hh as hb eqn:Hb end.
  assert (B1 : h_sev hb = h_sev h ++ logout_sev E).
  { subst hb. cbn. rewrite P1. unfold logout_sev. rewrite <- !app_assoc. reflexivity. }
  assert (B2 : h_cev hb = h_cev h ++ [Del k_rm]) by (subst hb; cbn; rewrite P2; reflexivity).
  assert (B3 : h_out hb = None) by (subst hb; cbn; congruence).
  assert (B4 : h_st hb = h_st h) by (subst hb; cbn; congruence).
  clear Hb.
  apply redirect_unwritten in E2; [|exact B3].
  cbv zeta in E2. cbn [ro_ok ro_success ro_failure ro_path ro_follow] in E2.
  destruct E2 as (R1 & R2 & _ & _ & R).
  assert (TL : (if c_api cfg then [] else [Put k_flash_ok v_flash] ++ [])
               = (if c_api cfg then [] else [Put k_flash_ok v_flash])) by (destruct (c_api cfg); reflexivity).
  rewrite TL in R. clear TL.
  destruct R as [(-> & S2 & O2)|((e & ->) & Api & O2 & S2 & Hf)].
  - cbn in K. inversion K; subst h'. clear K.
    split; [congruence|split]; [|intros Hn; rewrite O2 in Hn; discriminate Hn].
    intros wr Hw. rewrite O2 in Hw. inversion Hw; subst wr. cbn [w_sev w_cev].
    exists (if c_api cfg then [] else [Put k_flash_ok v_flash]). rewrite B1, B2, <- app_assoc. auto.
  - apply bind_inv in K as [(a1 & k1 & K1 & K2)|[(e1 & K1 & _)|(K1 & _)]]; try (inversion K1; fail).
    apply log_same in K1 as (_ & L1 & L2 & L3 & L4 & _).
    apply bind_inv in K2 as [(a2 & k2 & K2 & K3)|[(e2 & K2 & _)|(K2 & _)]];
      [|destruct (c_err_writes cfg); inversion K2|destruct (c_err_writes cfg); inversion K2].
    inversion K3; subst h'. clear K3.
    destruct (c_err_writes cfg) eqn:EW.
    + apply write_resp_none in K2 as (_ & W1 & W2 & W3 & W4 & _); [|congruence].
      split; [congruence|split]; [|intros Hn; rewrite W1 in Hn; discriminate Hn].
      intros wr Hw. rewrite W1 in Hw. inversion Hw; subst wr. cbn [w_sev w_cev].
      exists []. rewrite Api. rewrite L2, L3, S2, R2, B1, B2, app_nil_r. auto.
    + inversion K2; subst k2. split; [congruence|split]; [|intros _; auto].
      intros wr Hw. rewrite L1, O2 in Hw. discriminate Hw.
Qed.
End LG.

(* ---- C10 on [step] ------------------------------------------------------------------------ *)
Lemma meth_eqb_refl m : meth_eqb m m = true.
Proof. destruct m; reflexivity. Qed.

Lemma serve_logout E :
  q_route (e_req E) = RLogout -> q_meth (e_req E) = c_logout_method (e_cfg E) -> q_meth (e_req E) <> PUT ->
  has_mod (e_cfg E) MLogout = true ->
  serve E = with_error_handler E (logout E).
Proof.
  intros R M NP HM. unfold serve, route_table. rewrite R.
  unfold when, on_method. rewrite HM, <- M, meth_eqb_refl.
  destruct (q_meth (e_req E)); try reflexivity. congruence.
Qed.

Lemma ahas_false_lookup k j : ahas k j = false -> alookup k j = None.
Proof. unfold ahas. destruct (alookup k j); [discriminate|reflexivity]. Qed.

Lemma obs_resp_none r h : ob_resp (obs_of r h) = None <-> h_out h = None.
Proof. unfold obs_of. cbn. destruct (h_out h); cbn; split; congruence. Qed.

Section LS.
Variable C : crypto.
Variable cfg : config.

(* a request that writes nothing changes no jar at all *)
Lemma step_silent_lemma w req O :
  ob_resp (snd (step C cfg w (AReq req) O)) = None ->
  w_sess (fst (step C cfg w (AReq req) O)) = w_sess w /\ w_cook (fst (step C cfg w (AReq req) O)) = w_cook w.
Proof.
  unfold step. destruct (serve _ _) as [r h] eqn:Es. cbn [fst snd]. intros Hn.
  apply obs_resp_none in Hn. rewrite Hn. cbn. auto.
Qed.

(* what [step] does with the outcome of [serve], once and for all *)
Lemma step_shape w req O r h :
  let b := q_browser req in
  serve (mkEnv C cfg O req (jar_get b (w_cook w)) (jar_get b (w_sess w))) (init_hst (w_st w) O) = (r, h) ->
  let w' := fst (step C cfg w (AReq req) O) in
  snd (step C cfg w (AReq req) O) = obs_of r h /\
  w_st w' = h_st h /\
  match h_out h with
  | Some wr => jar_get b (w_sess w') = apply_events (jar_get b (w_sess w)) (w_sev wr) /\
               jar_get b (w_cook w') = apply_events (jar_get b (w_cook w)) (w_cev wr)
  | None => w_sess w' = w_sess w /\ w_cook w' = w_cook w
  end.
Proof.
  intros b Es w'. subst w'. unfold step. fold b. rewrite Es. cbn [fst snd].
  split; [reflexivity|]. destruct (h_out h) as [wr|]; cbn.
  - rewrite !jar_get_set_eq. auto.
  - auto.
Qed.

Lemma step_logout_lemma w req O :
  q_route req = RLogout -> q_meth req = c_logout_method cfg -> q_meth req <> PUT ->
  has_mod cfg MLogout = true ->
  let b := q_browser req in
  let w' := fst (step C cfg w (AReq req) O) in
  let o := snd (step C cfg w (AReq req) O) in
  let W := bsplit ","%byte (bjoin ","%byte (c_whitelist cfg)) in
  let j := jar_get b (w_sess w) in
  let j' := jar_get b (w_sess w') in
  w_st w' = w_st w /\
  (ob_resp o <> None ->
     (forall k, ahas k j' = true ->
        (bmem k W = true /\ k <> k_uid /\ k <> k_halfauth /\ k <> k_last_action) \/ k = k_flash_ok) /\
     (forall k, bmem k W = true -> k <> k_uid -> k <> k_halfauth -> k <> k_last_action -> k <> k_flash_ok ->
        alookup k j' = alookup k j) /\
     alookup k_uid j' = None /\ alookup k_halfauth j' = None /\ alookup k_last_action j' = None /\
     (c_api cfg = false -> alookup k_flash_ok j' = Some v_flash) /\
     alookup k_rm (jar_get b (w_cook w')) = None /\
     (forall k, k <> k_rm -> alookup k (jar_get b (w_cook w')) = alookup k (jar_get b (w_cook w)))) /\
  (ob_resp o = None ->
     c_api cfg = true /\ c_err_writes cfg = false /\ (exists n ek, fault_at n (o_faults O) = Some ek) /\
     w_sess w' = w_sess w /\ w_cook w' = w_cook w) /\
  (forall b', b' <> b ->
     jar_get b' (w_sess w') = jar_get b' (w_sess w) /\ jar_get b' (w_cook w') = jar_get b' (w_cook w)).
Proof.
  intros R M NP HM b w' o W j j'.
  destruct (serve (mkEnv C cfg O req (jar_get b (w_cook w)) (jar_get b (w_sess w))) (init_hst (w_st w) O))
    as [r h] eqn:Es.
  destruct (step_shape w req O r h Es) as (Ob & St & Jr). fold b in Jr. fold w' in St, Jr. fold o in Ob.
  rewrite serve_logout in Es by assumption.
  destruct (logout_served _ (init_hst (w_st w) O) _ _ eq_refl Es) as (St' & Hw & Hno).
  cbn [e_cfg e_O] in Hno.
  split; [rewrite St; exact St'|]. split; [|split].
  3: { intros b' N. apply step_other_browsers_lemma. exact N. }
  2: { intros Hn. rewrite Ob in Hn. apply obs_resp_none in Hn. rewrite Hn in Jr.
       destruct (Hno Hn) as (A1 & A2 & A3). destruct Jr. auto 6. }
  intros Hsome. rewrite Ob in Hsome. destruct (h_out h) as [wr|] eqn:Ho.
  2:{ exfalso. apply Hsome. apply obs_resp_none. exact Ho. }
  destruct (Hw wr eq_refl) as (tail & S1 & Ht & C1). cbn [init_hst h_sev h_cev app e_cfg] in S1, C1. cbn [e_cfg] in Ht.
  destruct Jr as (Js & Jc). subst j'. rewrite Js, Jc, S1, C1. fold j.
  assert (Ht' : tail = [] \/ tail = [Put k_flash_ok v_flash]) by (subst tail; destruct (c_api cfg); auto).
  unfold logout_sev. cbn [e_cfg].
  destruct (logout_jar_lemma j (c_whitelist cfg) tail Ht') as (J1 & J2).
  cbv zeta in J1, J2. fold W in J1, J2.
  split; [exact J1|]. split; [exact J2|].
  assert (Gone : forall k, (k = k_uid \/ k = k_halfauth \/ k = k_last_action) -> k <> k_flash_ok ->
            alookup k (apply_events j
              ([DelAll (bjoin ","%byte (c_whitelist cfg)); Del k_uid; Del k_halfauth; Del k_last_action] ++ tail)) = None).
  { intros k Hk Nf. apply ahas_false_lookup.
    match goal with |- ?x = false => destruct x eqn:Hx; [|reflexivity] end.
    exfalso. destruct (J1 k Hx) as [(_ & N1 & N2 & N3)|Hf]; [|contradiction].
    destruct Hk as [Hk|[Hk|Hk]]; contradiction. }
  split; [apply Gone; [auto|neq_const]|].
  split; [apply Gone; [auto|neq_const]|].
  split; [apply Gone; [auto|neq_const]|].
  split.
  { intros Api. rewrite Api in Ht. subst tail. rewrite apply_events_app.
    unfold apply_events at 1. cbn [fold_left apply_event]. apply alookup_aput_eq. }
  unfold apply_events. cbn [fold_left apply_event].
  split; [apply alookup_aremove_eq|]. intros k Nk. apply alookup_aremove_neq. exact Nk.
Qed.
End LS.

(* ---- C08: the gate in both directions ------------------------------------------------------- *)
Section GT.
Variable E : env.
Notation cfg := (e_cfg E).
Notation sess := (e_sess E).
Notation O := (e_O E).

(* the response of a refusal, and the one session event that can accompany it *)
Definition refusal_response (mp : bool) (fr : failresp) : response :=
  match fr with
  | RespNotFound => RespStatus 404
  | RespUnauthorized => RespStatus 401
  | RespRedirect => if c_api cfg then RespRedirectAPI 307 (mw_redirect_target E mp) true
                    else RespRedirect302 (mw_redirect_target E mp)
  end.
Definition refusal_sev (fr : failresp) : list csevent :=
  match fr with
  | RespRedirect => if c_api cfg then [] else [Put k_flash_err v_flash]
  | _ => []
  end.

(* state after the Load call that the middleware makes for the session's uid *)
Definition after_load (h : hst) : hst :=
  h <| h_cpid := Some (aget k_uid sess) |> <| h_ncalls := S (h_ncalls h) |> <| h_calls := KLoad :: h_calls h |>.

Lemma load_cu_cached h u : h_cuser h = Some u -> load_current_user E h = (Ok u, h).
Proof. intros Hc. unfold load_current_user, bind, get_h. rewrite Hc. reflexivity. Qed.

Lemma load_cu_nouid h :
  h_cuser h = None -> h_cpid h = None -> bempty (aget k_uid sess) = true ->
  load_current_user E h = (Err ErrUserNotFound, h).
Proof.
  intros Hc Hp Hb. unfold load_current_user, current_user_id, bind, get_h. rewrite Hc, Hp.
  unfold ret. rewrite Hb. reflexivity.
Qed.

Opaque k_uid.
Lemma load_cu_load h :
  h_cuser h = None -> h_cpid h = None -> bempty (aget k_uid sess) = false ->
  load_current_user E h =
  match fault_at (h_ncalls h) (o_faults O) with
  | Some EGeneric => (Err ErrOther, after_load h)
  | Some ENotFound => (Err ErrUserNotFound, after_load h)
  | None => match ulookup (aget k_uid sess) (s_users (h_st h)) with
            | Some u => (Ok u, after_load h <| h_cuser := Some u |>)
            | None => (Err ErrUserNotFound, after_load h)
            end
  end.
Proof.
  intros Hc Hp Hb. unfold load_current_user, current_user_id, bind, get_h. rewrite Hc, Hp.
  unfold ret. rewrite Hb. unfold set_cpid, modify, st_load, backend, set_cuser, modify. cbn.
  destruct (fault_at (h_ncalls h) (o_faults O)) as [[|]|]; try reflexivity.
  destruct (ulookup (aget k_uid sess) (s_users (h_st h))); reflexivity.
Qed.
Transparent k_uid.

Lemma redirect_target_nofollow redir p : redirect_target redir p false = p.
Proof. unfold redirect_target. rewrite andb_false_r. reflexivity. Qed.

(* the refusal itself, from a state in which nothing has been written: one log line, the
   response of the configured refusal mode flushed with what had been recorded (plus the error
   flash in form mode), nothing else.  Only the API-mode redirect can fail to write, when the
   renderer's backend call is failed by the oracle; the middleware swallows that error. *)
Lemma mw_fail_spec mp fr h r h' :
  h_out h = None -> mw_fail E mp fr h = (r, h') ->
  r = Ok tt /\ h_st h' = h_st h /\ h_cev h' = h_cev h /\ h_cuser h' = h_cuser h /\ h_cpid h' = h_cpid h /\
  ((h_sev h' = h_sev h ++ refusal_sev fr /\
    h_out h' = Some (mkWritten (refusal_response mp fr) (h_sev h ++ refusal_sev fr) (h_cev h))) \/
   (fr = RespRedirect /\ c_api cfg = true /\ h_sev h' = h_sev h /\ h_out h' = None /\
    exists n ek, fault_at n (o_faults O) = Some ek)).
Proof.
  intros Ho Eq. unfold mw_fail in Eq.
  apply bind_inv in Eq as [(a & h1 & E1 & E2)|[(e & E1 & _)|(E1 & _)]]; try (inversion E1; fail).
  apply log_same in E1 as (_ & L1 & L2 & L3 & L4 & L5 & L6).
  destruct fr.
  - apply write_resp_none in E2 as (-> & W1 & W2 & W3 & W4 & W5 & W6); [|congruence].
    cbn [refusal_sev refusal_response]. rewrite app_nil_r.
    repeat split; try congruence. left. split; congruence.
  - apply try_inv in E2 as [(x & h2 & R & NP & K)|(R & _)].
    + apply redirect_unwritten in R; [|congruence]. cbv zeta in R.
      cbn [ro_fail ro_success ro_failure ro_path ro_follow] in R.
      rewrite redirect_target_nofollow in R.
      destruct R as (R1 & R2 & R3 & R4 & R).
      assert (X : r = Ok tt /\ h' = h2) by (destruct x; [inversion K; auto|inversion K; auto|congruence]).
      destruct X as (-> & ->).
      repeat split; try congruence.
      cbn [refusal_sev refusal_response].
      destruct R as [(_ & S2 & O2)|(_ & Api & O2 & S2 & Hf)].
      * left. rewrite S2, O2, L2, L3. destruct (c_api cfg); split; reflexivity.
      * right. repeat split; auto; congruence.
    + exfalso. apply redirect_unwritten in R; [|congruence]. cbv zeta in R.
      destruct R as (_ & _ & _ & _ & [(Hx & _)|((e & Hx) & _)]); discriminate Hx.
  - apply write_resp_none in E2 as (-> & W1 & W2 & W3 & W4 & W5 & W6); [|congruence].
    cbn [refusal_sev refusal_response]. rewrite app_nil_r.
    repeat split; try congruence. left. split; congruence.
Qed.

(* ---- which branch the middleware takes ---- *)
Lemma reqs_ok_false full tf :
  reqs_ok E full tf = false ->
  (full && ahas k_halfauth sess) || (tf && negb (ahas k_twofactor sess)) = true.
Proof.
  unfold reqs_ok. destruct (full && ahas k_halfauth sess), (tf && negb (ahas k_twofactor sess)); cbn; congruence.
Qed.
Lemma reqs_ok_true full tf :
  reqs_ok E full tf = true ->
  (full && ahas k_halfauth sess) || (tf && negb (ahas k_twofactor sess)) = false.
Proof.
  unfold reqs_ok. destruct (full && ahas k_halfauth sess), (tf && negb (ahas k_twofactor sess)); cbn; congruence.
Qed.

Definition refuse_now (mp : bool) (fr : failresp) : M bool := mw_fail E mp fr ;;; ret false.

Lemma gate_unmet mp full tf fr h :
  reqs_ok E full tf = false -> auth_middleware E mp full tf fr h = refuse_now mp fr h.
Proof. intros Rq. unfold auth_middleware. rewrite (reqs_ok_false _ _ Rq). reflexivity. Qed.

Lemma gate_cached mp full tf fr h u :
  reqs_ok E full tf = true -> h_cuser h = Some u -> auth_middleware E mp full tf fr h = (Ok true, h).
Proof.
  intros Rq Hc. unfold auth_middleware. rewrite (reqs_ok_true _ _ Rq). unfold try.
  rewrite (load_cu_cached _ _ Hc). reflexivity.
Qed.

Lemma gate_nouid mp full tf fr h :
  reqs_ok E full tf = true -> h_cuser h = None -> h_cpid h = None -> bempty (aget k_uid sess) = true ->
  auth_middleware E mp full tf fr h = refuse_now mp fr h.
Proof.
  intros Rq Hc Hp Hb. unfold auth_middleware. rewrite (reqs_ok_true _ _ Rq). unfold try.
  rewrite (load_cu_nouid _ Hc Hp Hb). reflexivity.
Qed.

(* with a user id in the session: one Load; its outcome decides *)
Lemma gate_load mp full tf fr h :
  reqs_ok E full tf = true -> h_cuser h = None -> h_cpid h = None -> bempty (aget k_uid sess) = false ->
  auth_middleware E mp full tf fr h =
  match fault_at (h_ncalls h) (o_faults O) with
  | Some EGeneric => (log [] ;;; write_resp (RespStatus 500) ;;; ret false) (after_load h)
  | Some ENotFound => refuse_now mp fr (after_load h)
  | None => match ulookup (aget k_uid sess) (s_users (h_st h)) with
            | Some u => (Ok true, after_load h <| h_cuser := Some u |>)
            | None => refuse_now mp fr (after_load h)
            end
  end.
Proof.
  intros Rq Hc Hp Hb. unfold auth_middleware. rewrite (reqs_ok_true _ _ Rq). unfold try.
  rewrite (load_cu_load _ Hc Hp Hb).
  destruct (fault_at (h_ncalls h) (o_faults O)) as [[|]|]; try reflexivity.
  destruct (ulookup (aget k_uid sess) (s_users (h_st h))); reflexivity.
Qed.

(* ---- the "if" direction ---- *)
Lemma gate_admits_if_lemma mp full tf fr h u :
  reqs_ok E full tf = true -> h_cuser h = None -> h_cpid h = None ->
  bempty (aget k_uid sess) = false -> ulookup (aget k_uid sess) (s_users (h_st h)) = Some u ->
  fault_at (h_ncalls h) (o_faults O) = None ->
  auth_middleware E mp full tf fr h = (Ok true, after_load h <| h_cuser := Some u |>).
Proof.
  intros Rq Hc Hp Hb Hu Hf. rewrite (gate_load _ _ _ _ _ Rq Hc Hp Hb), Hf, Hu. reflexivity.
Qed.

(* at the start of a request, with no fault on the Load: admitted iff the requirements are met
   and the session names a stored user *)
Lemma gate_iff_lemma mp full tf fr h :
  h_cuser h = None -> h_cpid h = None -> fault_at (h_ncalls h) (o_faults O) = None ->
  ((exists h', auth_middleware E mp full tf fr h = (Ok true, h')) <->
   (reqs_ok E full tf = true /\ bempty (aget k_uid sess) = false /\
    exists u, ulookup (aget k_uid sess) (s_users (h_st h)) = Some u)).
Proof.
  intros Hc Hp Hf. split.
  - intros (h' & Eq). destruct (auth_middleware_admits _ _ _ _ _ _ _ Eq) as (Rq & _ & Hx & _).
    destruct (Hx Hc Hp) as (Hb & u & Hu & _). eauto.
  - intros (Rq & Hb & u & Hu). eexists. apply gate_admits_if_lemma; eauto.
Qed.

(* ---- the refusal ---- *)
Definition gate_refuses (full tf : bool) (h : hst) : Prop :=
  reqs_ok E full tf = false \/ bempty (aget k_uid sess) = true \/
  ulookup (aget k_uid sess) (s_users (h_st h)) = None.

Lemma refuse_now_spec mp fr h0 :
  h_out h0 = None ->
  exists h', refuse_now mp fr h0 = (Ok false, h') /\
    h_st h' = h_st h0 /\ h_cuser h' = h_cuser h0 /\ h_cpid h' = h_cpid h0 /\ h_cev h' = h_cev h0 /\
    ((h_sev h' = h_sev h0 ++ refusal_sev fr /\
      h_out h' = Some (mkWritten (refusal_response mp fr) (h_sev h0 ++ refusal_sev fr) (h_cev h0))) \/
     (fr = RespRedirect /\ c_api cfg = true /\ h_sev h' = h_sev h0 /\ h_out h' = None /\
      exists n ek, fault_at n (o_faults O) = Some ek)).
Proof.
  intros O0. unfold refuse_now, bind.
  destruct (mw_fail E mp fr h0) as [x h1] eqn:Mf.
  destruct (mw_fail_spec _ _ _ _ _ O0 Mf) as (-> & A1 & A2 & A3 & A4 & A5).
  exists h1. split; [reflexivity|]. auto.
Qed.

(* no user id in the session, or a requirement unmet: refused without any storage access *)
Lemma gate_refusal_noload_lemma mp full tf fr h :
  h_cuser h = None -> h_cpid h = None -> h_out h = None ->
  reqs_ok E full tf = false \/ bempty (aget k_uid sess) = true ->
  exists h', auth_middleware E mp full tf fr h = (Ok false, h') /\
    h_st h' = h_st h /\ h_cuser h' = None /\ h_cpid h' = None /\ h_cev h' = h_cev h /\
    ((h_sev h' = h_sev h ++ refusal_sev fr /\
      h_out h' = Some (mkWritten (refusal_response mp fr) (h_sev h ++ refusal_sev fr) (h_cev h))) \/
     (fr = RespRedirect /\ c_api cfg = true /\ h_sev h' = h_sev h /\ h_out h' = None /\
      exists n ek, fault_at n (o_faults O) = Some ek)).
Proof.
  intros Hc Hp Ho Hr.
  assert (Eq : auth_middleware E mp full tf fr h = refuse_now mp fr h).
  { destruct (reqs_ok E full tf) eqn:Rq; [|apply gate_unmet; exact Rq].
    destruct Hr as [Hr|Hr]; [discriminate Hr|]. apply gate_nouid; assumption. }
  destruct (refuse_now_spec mp fr h Ho) as (h' & R & A1 & A2 & A3 & A4 & A5).
  exists h'. rewrite Eq. split; [exact R|]. repeat split; try congruence; try exact A5.
Qed.

Lemma gate_refusal_lemma mp full tf fr h :
  h_cuser h = None -> h_cpid h = None -> h_out h = None ->
  fault_at (h_ncalls h) (o_faults O) = None ->
  gate_refuses full tf h ->
  exists h', auth_middleware E mp full tf fr h = (Ok false, h') /\
    h_st h' = h_st h /\ h_cuser h' = None /\ h_cev h' = h_cev h /\
    ((h_sev h' = h_sev h ++ refusal_sev fr /\
      h_out h' = Some (mkWritten (refusal_response mp fr) (h_sev h ++ refusal_sev fr) (h_cev h))) \/
     (fr = RespRedirect /\ c_api cfg = true /\ h_sev h' = h_sev h /\ h_out h' = None /\
      exists n ek, fault_at n (o_faults O) = Some ek)).
Proof.
  intros Hc Hp Ho Hf Hr.
  destruct (reqs_ok E full tf) eqn:Rq.
  2:{ destruct (gate_refusal_noload_lemma mp full tf fr h Hc Hp Ho (or_introl Rq)) as (h' & A & B & C0 & _ & D).
      exists h'. auto. }
  destruct (bempty (aget k_uid sess)) eqn:Hb.
  { destruct (gate_refusal_noload_lemma mp full tf fr h Hc Hp Ho (or_intror Hb)) as (h' & A & B & C0 & _ & D).
    exists h'. auto. }
  destruct Hr as [Hr|[Hr|Hr]]; [congruence|congruence|].
  destruct (refuse_now_spec mp fr (after_load h) Ho) as (h' & R & A1 & A2 & A3 & A4 & A5).
  exists h'. rewrite (gate_load _ _ _ _ _ Rq Hc Hp Hb), Hf, Hr. split; [exact R|].
  repeat split; try exact A1; try exact A4; try exact A5; try (rewrite A2; exact Hc).
Qed.

(* a generic storage fault on the Load: 500, the wrapped handler does not run *)
Lemma gate_load_fault_lemma mp full tf fr h :
  reqs_ok E full tf = true -> h_cuser h = None -> h_cpid h = None -> h_out h = None ->
  bempty (aget k_uid sess) = false ->
  fault_at (h_ncalls h) (o_faults O) = Some EGeneric ->
  exists h', auth_middleware E mp full tf fr h = (Ok false, h') /\
    h_st h' = h_st h /\ h_cuser h' = None /\ h_sev h' = h_sev h /\ h_cev h' = h_cev h /\
    h_out h' = Some (mkWritten (RespStatus 500) (h_sev h) (h_cev h)).
Proof.
  intros Rq Hc Hp Ho Hb Hf. rewrite (gate_load _ _ _ _ _ Rq Hc Hp Hb), Hf.
  unfold bind, log, write_resp, modify, ret. cbn [h_out after_load]. 
  eexists. split; [reflexivity|]. cbn. rewrite Ho. cbn. auto 10.
Qed.

(* the wrapped handler runs exactly when the middleware says so, from the state it left *)
Lemma behind_admitted full inner h h' :
  auth_middleware E true full false (c_unauthed cfg) h = (Ok true, h') -> behind E full inner h = inner h'.
Proof. intros Eq. unfold behind, bind. rewrite Eq. reflexivity. Qed.
Lemma behind_refused full inner h h' :
  auth_middleware E true full false (c_unauthed cfg) h = (Ok false, h') -> behind E full inner h = (Ok tt, h').
Proof. intros Eq. unfold behind, bind. rewrite Eq. reflexivity. Qed.

(* the redirect target names the login page and carries the original path and raw query,
   escaped so that it decodes back exactly *)
Lemma mw_redirect_target_shape mp :
  let p0 := q_path (e_req E) in
  let p := if mp && negb (bempty (c_mount cfg)) then c_mount cfg ++ p0 else p0 in
  let orig := if bempty (q_rawquery (e_req E)) then p else p ++ "?"%byte :: q_rawquery (e_req E) in
  mw_redirect_target E mp = c_mount cfg ++ bs "/login?redir=" ++ query_escape orig /\
  query_unescape (S (length (query_escape orig))) (query_escape orig) = Some orig.
Proof. cbv zeta. split; [reflexivity|apply redirect_target_roundtrip]. Qed.
End GT.

(* nobody can be admitted from a session without a user id, whatever the storage and the oracle *)
Lemma gate_unauthenticated_lemma E mp full tf fr h h' :
  h_cuser h = None -> h_cpid h = None -> alookup k_uid (e_sess E) = None ->
  auth_middleware E mp full tf fr h <> (Ok true, h').
Proof.
  intros Hc Hp Hu Eq. destruct (auth_middleware_admits _ _ _ _ _ _ _ Eq) as (_ & _ & Hx & _).
  destruct (Hx Hc Hp) as (Hb & _). unfold aget in Hb. rewrite Hu in Hb. discriminate Hb.
Qed.

(* ---- the application stack, cut after the expire middleware --------------------------------- *)
Definition flash_err_only (e : csevent) : Prop := e = Put k_flash_err v_flash.

Ltac snap_go2 :=
  repeat (unfold_derived; cbn beta iota; cbn [ro_success ro_failure ro_path ro_follow]; cbn beta iota; snap_step);
  try reflexivity.

Section ST.
Variable E : env.
Notation cfg := (e_cfg E).

Lemma snap_auth_middleware mp full tf fr : snap_all flash_err_only no_ev (auth_middleware E mp full tf fr).
Proof. unfold auth_middleware, mw_fail. snap_go2. Qed.
Lemma snap_lock_mw : snap_all flash_err_only no_ev (lock_mw E).
Proof. unfold lock_mw. snap_go2. Qed.
Lemma snap_confirm_mw : snap_all flash_err_only no_ev (confirm_mw E).
Proof. unfold confirm_mw. snap_go2. Qed.
Lemma snap_app_handler : snap_all flash_err_only no_ev (app_handler E).
Proof. unfold app_handler. snap_go2. Qed.

Lemma snap_error_handler phi psi (hd : M unit) :
  snap_all phi psi hd -> snap_all phi psi (with_error_handler E hd).
Proof. intros Hh. unfold with_error_handler. repeat first [exact Hh | snap_step]. Qed.
End ST.

Lemma bind_ok {A B} (m : M A) (f : A -> M B) h a h1 : m h = (Ok a, h1) -> bind m f h = f a h1.
Proof. intros Eq. unfold bind. rewrite Eq. reflexivity. Qed.
Lemma try_congr {A B} (m m' : M A) (K : res A -> M B) h h1 : m h = m' h1 -> try m K h = try m' K h1.
Proof. intros Eq. unfold try. rewrite Eq. reflexivity. Qed.

(* everything behind expire and remember *)
Definition stack_core (E' : env) (full tf : bool) (fr : failresp) (lockmw confirmmw : bool) : M unit :=
  ok <- auth_middleware E' false full tf fr ;;
  if negb ok then ret tt else
  ok <- (if lockmw then lock_mw E' else ret true) ;;
  if negb ok then ret tt else
  ok <- (if confirmmw then confirm_mw E' else ret true) ;;
  if negb ok then ret tt else
  app_handler E'.
(* the remember stage: the middleware, then the view it hands on (overlaid with the identity it
   wrote when it logged the cookie's owner in, i.e. when it set the context pid) *)
Definition remember_stage (E : env) (remembermw : bool) (s : amap) : M amap :=
  if remembermw then remember_mw (with_sess E s) ;;; remembered_view s else ret s.
Definition stack_tail (E : env) (full tf : bool) (fr : failresp) (lockmw confirmmw remembermw : bool) (s : amap) : M unit :=
  s2 <- remember_stage E remembermw s ;; stack_core (with_sess E s2) full tf fr lockmw confirmmw.

Lemma app_stack_cut E full tf fr l c r e :
  app_stack E full tf fr l c r e = bind (if e then expire_mw E else ret (e_sess E)) (stack_tail E full tf fr l c r).
Proof. reflexivity. Qed.

Lemma snap_stack_core E' full tf fr l c : snap_all flash_err_only no_ev (stack_core E' full tf fr l c).
Proof.
  unfold stack_core.
  apply snap_bind; [apply snap_auth_middleware|intros ok]. destruct (negb ok); [apply snap_ret|].
  apply snap_bind; [destruct l; [apply snap_lock_mw|apply snap_ret]|intros ok2]. destruct (negb ok2); [apply snap_ret|].
  apply snap_bind; [destruct c; [apply snap_confirm_mw|apply snap_ret]|intros ok3]. destruct (negb ok3); [apply snap_ret|].
  apply snap_app_handler.
Qed.

(* the remember middleware does nothing when the session names a user, and nothing when there
   is no remember cookie *)
Lemma current_user_id_nocache E h : h_cpid h = None -> current_user_id E h = (Ok (aget k_uid (e_sess E)), h).
Proof. intros Hp. unfold current_user_id, bind, get_h. rewrite Hp. reflexivity. Qed.

Lemma remember_mw_hasid E h :
  h_cpid h = None -> bempty (aget k_uid (e_sess E)) = false -> remember_mw E h = (Ok tt, h).
Proof.
  intros Hp Hb. unfold remember_mw. unfold bind at 1. rewrite (current_user_id_nocache _ _ Hp), Hb. reflexivity.
Qed.
Lemma remember_mw_nocookie E h :
  h_cpid h = None -> alookup k_rm (e_cook E) = None -> remember_mw E h = (Ok tt, h).
Proof.
  intros Hp Hk. unfold remember_mw. unfold bind at 1. rewrite (current_user_id_nocache _ _ Hp).
  destruct (bempty (aget k_uid (e_sess E))); [|reflexivity].
  unfold try, remember_authenticate. rewrite Hk. reflexivity.
Qed.

(* when the middleware did nothing and no pid is cached, the view handed on is the view it got *)
Lemma remembered_view_nocache s h : h_cpid h = None -> remembered_view s h = (Ok s, h).
Proof. intros Hp. unfold remembered_view, bind, get_h. rewrite Hp. reflexivity. Qed.

Lemma remember_stage_idle E r s h :
  h_cpid h = None -> (r = false \/ remember_mw (with_sess E s) h = (Ok tt, h)) ->
  remember_stage E r s h = (Ok s, h).
Proof.
  intros Hp Hr. unfold remember_stage. destruct r; [|reflexivity].
  destruct Hr as [Hr|Hr]; [discriminate Hr|].
  unfold bind at 1. rewrite Hr. apply remembered_view_nocache. exact Hp.
Qed.

(* with no user id in the view and no way for the remember middleware to supply one, the rest
   of the stack is exactly the refusal: the application handler is not reached *)
Lemma stack_tail_refuses E full tf fr l c r s h :
  h_cuser h = None -> h_cpid h = None -> h_out h = None ->
  bempty (aget k_uid s) = true -> (r = false \/ alookup k_rm (e_cook E) = None) ->
  exists h', stack_tail E full tf fr l c r s h = (Ok tt, h') /\
    h_st h' = h_st h /\ h_cuser h' = None /\ h_cev h' = h_cev h /\
    ((h_sev h' = h_sev h ++ refusal_sev E fr /\
      h_out h' = Some (mkWritten (refusal_response E false fr) (h_sev h ++ refusal_sev E fr) (h_cev h))) \/
     (fr = RespRedirect /\ c_api (e_cfg E) = true /\ h_sev h' = h_sev h /\ h_out h' = None /\
      exists n ek, fault_at n (o_faults (e_O E)) = Some ek)).
Proof.
  intros Hc Hp Ho Hb Hr.
  assert (Rm : remember_stage E r s h = (Ok s, h)).
  { apply remember_stage_idle; [exact Hp|]. destruct Hr as [->|Hk]; [left; reflexivity|right].
    apply remember_mw_nocookie; assumption. }
  destruct (gate_refusal_noload_lemma (with_sess E s) false full tf fr h Hc Hp Ho (or_intror Hb))
    as (h' & A & B1 & B2 & B3 & B4 & B5).
  exists h'. split; [|auto].
  unfold stack_tail. rewrite (bind_ok _ _ _ _ _ Rm). unfold stack_core, bind. rewrite A. reflexivity.
Qed.

(* ---- C09 on [step] --------------------------------------------------------------------------- *)
(* the middleware's test, named: stamp + ExpireAfter <= now (a missing stamp: ExpireAfter <= 0) *)
Definition stamp_expired (cfg : config) (now : Z) (s : amap) : bool :=
  match alookup k_last_action s with
  | None => c_expire_after cfg <=? 0
  | Some ds => match zparse ds with
               | Some d => d + c_expire_after cfg <=? now
               | None => false
               end
  end.

Lemma stamp_expired_stamp cfg now s ds d :
  alookup k_last_action s = Some ds -> zparse ds = Some d ->
  stamp_expired cfg now s = (d + c_expire_after cfg <=? now).
Proof. intros Hl Hp. unfold stamp_expired. rewrite Hl, Hp. reflexivity. Qed.

Lemma expire_mw_expired_eq E h :
  ahas k_uid (e_sess E) = true -> stamp_expired (e_cfg E) (o_now (e_O E)) (e_sess E) = true ->
  expire_mw E h = (Ok (expired_view E), h <| h_sev := h_sev h ++ expire_sev E |>).
Proof.
  intros Hu Hx. unfold expire_mw. rewrite Hu. unfold stamp_expired in Hx. rewrite Hx.
  rewrite expire_branch_expired. f_equal. unfold expire_sev. destruct h. cbn. rewrite <- !app_assoc. reflexivity.
Qed.
Lemma expire_mw_alive_eq E h :
  ahas k_uid (e_sess E) = true -> stamp_expired (e_cfg E) (o_now (e_O E)) (e_sess E) = false ->
  expire_mw E h = (Ok (e_sess E), h <| h_sev := h_sev h ++ [Put k_last_action (zdec (o_now (e_O E)))] |>).
Proof.
  intros Hu Hx. unfold expire_mw. rewrite Hu. unfold stamp_expired in Hx. rewrite Hx.
  rewrite expire_branch_alive. reflexivity.
Qed.
Lemma expire_mw_nouser_eq E h : ahas k_uid (e_sess E) = false -> expire_mw E h = (Ok (e_sess E), h).
Proof. intros Hu. unfold expire_mw. rewrite Hu. reflexivity. Qed.

(* what the expire events, possibly followed by the refusal's error flash, do to any jar *)
Lemma expire_jar_lemma (j : amap) (wl : list bytes) (tail : list csevent) :
  (tail = [] \/ tail = [Put k_flash_err v_flash]) ->
  let W := bsplit ","%byte (bjoin ","%byte wl) in
  let j' := apply_events j ([DelAll (bjoin ","%byte wl); Del k_uid; Del k_last_action] ++ tail) in
  (forall k, ahas k j' = true -> (bmem k W = true /\ k <> k_uid /\ k <> k_last_action) \/ k = k_flash_err) /\
  (forall k, bmem k W = true -> k <> k_uid -> k <> k_last_action -> k <> k_flash_err -> alookup k j' = alookup k j) /\
  alookup k_uid j' = None /\ alookup k_last_action j' = None.
Proof.
  intros Ht W j'.
  set (j0 := aremove k_last_action (aremove k_uid (filter (fun kv => bmem (fst kv) W) j))).
  assert (Core1 : forall k v, alookup k j0 = Some v -> bmem k W = true /\ k <> k_uid /\ k <> k_last_action).
  { intros k v L. unfold j0 in L.
    destruct (bytes_dec k k_last_action) as [->|N1]; [rewrite alookup_aremove_eq in L; discriminate|].
    rewrite alookup_aremove_neq in L by exact N1.
    destruct (bytes_dec k k_uid) as [->|N3]; [rewrite alookup_aremove_eq in L; discriminate|].
    rewrite alookup_aremove_neq in L by exact N3.
    rewrite (alookup_filter_key (fun x => bmem x W)) in L.
    destruct (bmem k W); [auto|discriminate]. }
  assert (Core2 : forall k, bmem k W = true -> k <> k_uid -> k <> k_last_action -> alookup k j0 = alookup k j).
  { intros k Hw N3 N1. unfold j0. rewrite !alookup_aremove_neq by assumption.
    rewrite (alookup_filter_key (fun x => bmem x W)). rewrite Hw. reflexivity. }
  assert (G1 : alookup k_uid j0 = None).
  { unfold j0. rewrite alookup_aremove_neq by neq_const. apply alookup_aremove_eq. }
  assert (G2 : alookup k_last_action j0 = None) by (unfold j0; apply alookup_aremove_eq).
  destruct Ht as [->| ->].
  - assert (Ej : j' = j0) by reflexivity. rewrite Ej. repeat split; auto.
    intros k Hk. apply ahas_true_lookup in Hk as (v & L). left. eapply Core1; eauto.
  - assert (Ej : j' = aput k_flash_err v_flash j0) by reflexivity. rewrite Ej. repeat split.
    + intros k Hk. destruct (bytes_dec k k_flash_err) as [->|N]; [right; reflexivity|].
      apply ahas_true_lookup in Hk as (v & L). rewrite alookup_aput_neq in L by exact N.
      left. eapply Core1; eauto.
    + intros k Hw N3 N1 N0. rewrite alookup_aput_neq by exact N0. apply Core2; assumption.
    + rewrite alookup_aput_neq by neq_const. exact G1.
    + rewrite alookup_aput_neq by neq_const. exact G2.
Qed.

Lemma refusal_sev_cases E fr : refusal_sev E fr = [] \/ refusal_sev E fr = [Put k_flash_err v_flash].
Proof. unfold refusal_sev. destruct fr; auto. destruct (c_api (e_cfg E)); auto. Qed.

(* events of the flash-only class leave every other key alone *)
Lemma apply_events_flash_only l : forall j k, Forall flash_err_only l -> k <> k_flash_err ->
  alookup k (apply_events j l) = alookup k j.
Proof.
  unfold apply_events. induction l as [|e l IH]; intros j k F N; cbn [fold_left]; [reflexivity|].
  inversion F as [|? ? He Fl]; subst. rewrite IH by assumption. rewrite He. cbn [apply_event].
  apply alookup_aput_neq. exact N.
Qed.
Lemma apply_events_none l : forall j, Forall no_ev l -> apply_events j l = j.
Proof. intros j F. destruct l as [|e l]; [reflexivity|]. inversion F as [|? ? He _]. destruct He. Qed.

Lemma serve_app E full tf fr l c r e :
  q_route (e_req E) = RApp full tf fr l c r e -> serve E = with_error_handler E (app_stack E full tf fr l c r e).
Proof. intros R. unfold serve, route_table. rewrite R. reflexivity. Qed.

Lemma error_handler_ok E (hd : M unit) h h' : hd h = (Ok tt, h') -> with_error_handler E hd h = (Ok tt, h').
Proof. intros Eq. unfold with_error_handler, try. rewrite Eq. reflexivity. Qed.

Section XS.
Variable C : crypto.
Variable cfg : config.

(* an application route requested from a session without a user id (and without a remember
   cookie, or without the remember middleware): refused, nothing stored, still no user id *)
Lemma step_app_unauthenticated_lemma w req O full tf fr l c r e :
  q_route req = RApp full tf fr l c r e ->
  let b := q_browser req in
  let j := jar_get b (w_sess w) in
  let E := mkEnv C cfg O req (jar_get b (w_cook w)) j in
  alookup k_uid j = None -> (r = false \/ alookup k_rm (jar_get b (w_cook w)) = None) ->
  let w' := fst (step C cfg w (AReq req) O) in
  let o := snd (step C cfg w (AReq req) O) in
  let j' := jar_get b (w_sess w') in
  w_st w' = w_st w /\ ob_err o = false /\ ob_panic o = false /\
  (ob_resp o = Some (refusal_response E false fr) \/
   (ob_resp o = None /\ fr = RespRedirect /\ c_api cfg = true /\ exists n ek, fault_at n (o_faults O) = Some ek)) /\
  (forall k, k <> k_flash_err -> alookup k j' = alookup k j) /\
  alookup k_uid j' = None /\
  jar_get b (w_cook w') = jar_get b (w_cook w).
Proof.
  intros R b j E Hu Hr w' o j'.
  assert (Hb : bempty (aget k_uid j) = true) by (unfold aget; rewrite Hu; reflexivity).
  assert (Ha : ahas k_uid j = false) by (unfold ahas; rewrite Hu; reflexivity).
  set (h0 := init_hst (w_st w) O).
  destruct (stack_tail_refuses E full tf fr l c r j h0 eq_refl eq_refl eq_refl Hb Hr)
    as (h' & T & A1 & A2 & A3 & A4).
  assert (Es : serve E h0 = (Ok tt, h')).
  { rewrite (serve_app E _ _ _ _ _ _ _ R). apply error_handler_ok. rewrite app_stack_cut.
    unfold bind at 1. destruct e; [rewrite (expire_mw_nouser_eq E h0 Ha)|unfold ret]; exact T. }
  destruct (step_shape C cfg w req O _ _ Es) as (Ob & St & Jr). fold b in Jr. fold w' in St, Jr. fold o in Ob.
  assert (Uid : forall jj, alookup k_uid (apply_events jj (refusal_sev E fr)) = alookup k_uid jj /\
                           forall k, k <> k_flash_err -> alookup k (apply_events jj (refusal_sev E fr)) = alookup k jj).
  { intros jj. destruct (refusal_sev_cases E fr) as [-> | ->]; [split; reflexivity|].
    unfold apply_events. cbn [fold_left apply_event]. split; [apply alookup_aput_neq; neq_const|].
    intros k N. apply alookup_aput_neq. exact N. }
  split; [rewrite St; exact A1|]. rewrite Ob. split; [reflexivity|]. split; [reflexivity|].
  destruct A4 as [(S2 & O2)|(F1 & F2 & S2 & O2 & F3)].
  - rewrite O2 in Jr. cbn [w_sev w_cev] in Jr. destruct Jr as (Js & Jc). cbn [h_sev h_cev h0 init_hst app] in Js, Jc.
    split; [left; unfold obs_of; cbn [ob_resp]; rewrite O2; reflexivity|].
    subst j'. rewrite Js. fold j. split; [apply Uid|]. split; [rewrite (proj1 (Uid j)); exact Hu|exact Jc].
  - rewrite O2 in Jr. destruct Jr as (Js & Jc).
    split; [right; unfold obs_of; cbn [ob_resp]; rewrite O2; auto|].
    subst j'. rewrite Js, Jc. auto.
Qed.

(* the expire middleware in front, the session older than ExpireAfter, the user id not
   whitelisted, and no remember cookie to log the browser back in *)
Lemma step_expired_lemma w req O full tf fr l c r :
  q_route req = RApp full tf fr l c r true ->
  let b := q_browser req in
  let j := jar_get b (w_sess w) in
  let E := mkEnv C cfg O req (jar_get b (w_cook w)) j in
  ahas k_uid j = true -> stamp_expired cfg (o_now O) j = true ->
  bmem k_uid (c_whitelist cfg) = false ->
  (r = false \/ alookup k_rm (jar_get b (w_cook w)) = None) ->
  let w' := fst (step C cfg w (AReq req) O) in
  let o := snd (step C cfg w (AReq req) O) in
  let W := bsplit ","%byte (bjoin ","%byte (c_whitelist cfg)) in
  let j' := jar_get b (w_sess w') in
  w_st w' = w_st w /\ ob_err o = false /\ ob_panic o = false /\
  (ob_resp o = Some (refusal_response E false fr) \/
   (ob_resp o = None /\ fr = RespRedirect /\ c_api cfg = true /\ exists n ek, fault_at n (o_faults O) = Some ek)) /\
  (ob_resp o <> None ->
     j' = apply_events j ([DelAll (bjoin ","%byte (c_whitelist cfg)); Del k_uid; Del k_last_action] ++ refusal_sev E fr) /\
     (forall k, ahas k j' = true -> (bmem k W = true /\ k <> k_uid /\ k <> k_last_action) \/ k = k_flash_err) /\
     (forall k, bmem k W = true -> k <> k_uid -> k <> k_last_action -> k <> k_flash_err ->
        alookup k j' = alookup k j) /\
     alookup k_uid j' = None /\ alookup k_last_action j' = None /\
     jar_get b (w_cook w') = jar_get b (w_cook w)) /\
  (ob_resp o = None -> w_sess w' = w_sess w /\ w_cook w' = w_cook w).
Proof.
  intros R b j E Hu Hx Hwl Hr w' o W j'.
  set (h0 := init_hst (w_st w) O).
  set (h1 := h0 <| h_sev := h_sev h0 ++ expire_sev E |>).
  assert (Hb : bempty (aget k_uid (expired_view E)) = true).
  { unfold aget, expired_view. cbn [e_cfg e_sess E].
    rewrite (proj1 (expired_view_hides_lemma (c_whitelist cfg) j) _ Hwl). reflexivity. }
  destruct (stack_tail_refuses E full tf fr l c r (expired_view E) h1 eq_refl eq_refl eq_refl Hb Hr)
    as (h' & T & A1 & A2 & A3 & A4).
  assert (Es : serve E h0 = (Ok tt, h')).
  { rewrite (serve_app E _ _ _ _ _ _ _ R). apply error_handler_ok. rewrite app_stack_cut.
    unfold bind at 1. rewrite (expire_mw_expired_eq E h0 Hu Hx). exact T. }
  destruct (step_shape C cfg w req O _ _ Es) as (Ob & St & Jr). fold b in Jr. fold w' in St, Jr. fold o in Ob.
  split; [rewrite St; exact A1|]. rewrite Ob. split; [reflexivity|]. split; [reflexivity|].
  assert (S1 : h_sev h1 = [DelAll (bjoin ","%byte (c_whitelist cfg)); Del k_uid; Del k_last_action]) by reflexivity.
  assert (C1 : h_cev h1 = []) by reflexivity.
  destruct A4 as [(S2 & O2)|(F1 & F2 & S2 & O2 & F3)].
  - rewrite O2 in Jr. cbn [w_sev w_cev] in Jr. destruct Jr as (Js & Jc). rewrite S1 in Js. rewrite C1 in Jc.
    split; [left; unfold obs_of; cbn [ob_resp]; rewrite O2; reflexivity|].
    split; [|intros Hn; unfold obs_of in Hn; cbn [ob_resp] in Hn; rewrite O2 in Hn; discriminate Hn].
    intros _. subst j'. rewrite Js. fold j. split; [reflexivity|].
    destruct (expire_jar_lemma j (c_whitelist cfg) (refusal_sev E fr) (refusal_sev_cases E fr)) as (J1 & J2 & J3 & J4).
    cbv zeta in J1, J2, J3, J4. fold W in J1, J2. auto 6.
  - rewrite O2 in Jr. destruct Jr as (Js & Jc).
    split; [right; unfold obs_of; cbn [ob_resp]; rewrite O2; auto|].
    split; [|auto]. intros Hn. exfalso. apply Hn. unfold obs_of. cbn [ob_resp]. rewrite O2. reflexivity.
Qed.

(* the expire middleware in front, a session that names a user and is younger than ExpireAfter *)
Lemma step_fresh_lemma w req O full tf fr l c r :
  q_route req = RApp full tf fr l c r true ->
  let b := q_browser req in
  let j := jar_get b (w_sess w) in
  bempty (aget k_uid j) = false -> stamp_expired cfg (o_now O) j = false ->
  let w' := fst (step C cfg w (AReq req) O) in
  let o := snd (step C cfg w (AReq req) O) in
  let j' := jar_get b (w_sess w') in
  (ob_resp o <> None ->
     alookup k_last_action j' = Some (zdec (o_now O)) /\
     alookup k_uid j' = alookup k_uid j /\
     (forall k, k <> k_last_action -> k <> k_flash_err -> alookup k j' = alookup k j) /\
     (exists n, j' = apply_events j (Put k_last_action (zdec (o_now O)) :: repeat (Put k_flash_err v_flash) n)) /\
     jar_get b (w_cook w') = jar_get b (w_cook w)) /\
  (ob_resp o = None -> w_sess w' = w_sess w /\ w_cook w' = w_cook w).
Proof.
  intros R b j Hb Hx w' o j'.
  set (E := mkEnv C cfg O req (jar_get b (w_cook w)) j).
  set (h0 := init_hst (w_st w) O).
  set (h1 := h0 <| h_sev := h_sev h0 ++ [Put k_last_action (zdec (o_now O))] |>).
  assert (Hu : ahas k_uid j = true).
  { unfold ahas. unfold aget in Hb. destruct (alookup k_uid j); [reflexivity|discriminate Hb]. }
  destruct (serve E h0) as [x h'] eqn:Es.
  destruct (step_shape C cfg w req O _ _ Es) as (Ob & St & Jr). fold b in Jr. fold w' in St, Jr. fold o in Ob.
  rewrite Ob.
  split; [|intros Hn; apply obs_resp_none in Hn; rewrite Hn in Jr; exact Jr].
  intros Hs. destruct (h_out h') as [wr|] eqn:Ho; [|exfalso; apply Hs; apply obs_resp_none; exact Ho].
  (* the request = expire (known exactly), then a tail of the flash-only class *)
  rewrite (serve_app E _ _ _ _ _ _ _ R) in Es.
  assert (Tl : exists m : M unit, snap_all flash_err_only no_ev m /\ m h1 = (x, h')).
  { exists (with_error_handler E (stack_core (with_sess E j) full tf fr l c)).
    split; [apply snap_error_handler, snap_stack_core|].
    rewrite <- Es. unfold with_error_handler. apply try_congr. symmetry. rewrite app_stack_cut.
    rewrite (bind_ok _ _ _ _ _ (expire_mw_alive_eq E h0 Hu Hx)). fold h1. unfold stack_tail.
    assert (Rm : remember_stage E r j h1 = (Ok j, h1)).
    { apply remember_stage_idle; [reflexivity|]. right. apply remember_mw_hasid; [reflexivity|exact Hb]. }
    rewrite (bind_ok _ _ _ _ _ Rm). reflexivity. }
  destruct Tl as (m & Sm & Em).
  destruct (snap_from _ _ m h1 x h' Sm eq_refl Em wr Ho) as (ls & lc & S1 & C1 & F & G).
  destruct Jr as (Js & Jc). rewrite S1 in Js. rewrite C1 in Jc.
  change (h_sev h1) with ([] ++ [Put k_last_action (zdec (o_now O))]) in Js. cbn [app] in Js.
  change (h_cev h1) with (@nil csevent) in Jc. cbn [app] in Jc.
  rewrite (apply_events_none lc _ G) in Jc.
  assert (Jk : forall k, k <> k_flash_err -> alookup k j' = alookup k (aput k_last_action (zdec (o_now O)) j)).
  { intros k N. subst j'. rewrite Js. fold j.
    change (Put k_last_action (zdec (o_now O)) :: ls) with ([Put k_last_action (zdec (o_now O))] ++ ls).
    rewrite apply_events_app. rewrite (apply_events_flash_only ls _ k F N). reflexivity. }
  split; [rewrite Jk by neq_const; apply alookup_aput_eq|].
  split; [rewrite Jk by neq_const; apply alookup_aput_neq; neq_const|].
  split; [intros k N1 N2; rewrite (Jk k N2); apply alookup_aput_neq; exact N1|].
  split; [|exact Jc].
  exists (length ls). subst j'. rewrite Js. fold j. f_equal. f_equal.
  clear - F. induction F as [|e ls He _ IH]; [reflexivity|]. cbn [length repeat]. unfold flash_err_only in He. subst e. f_equal. exact IH.
Qed.
End XS.

(* ---- the stamp-based readings of the two C09 statements ---------------------------------------- *)
Section XS2.
Variable C : crypto.
Variable cfg : config.

Lemma step_expired_stamp_lemma w req O full tf fr l c r ds d :
  q_route req = RApp full tf fr l c r true ->
  let b := q_browser req in
  let j := jar_get b (w_sess w) in
  let E := mkEnv C cfg O req (jar_get b (w_cook w)) j in
  ahas k_uid j = true -> alookup k_last_action j = Some ds -> zparse ds = Some d ->
  d + c_expire_after cfg <= o_now O ->
  bmem k_uid (c_whitelist cfg) = false ->
  (r = false \/ alookup k_rm (jar_get b (w_cook w)) = None) ->
  let w' := fst (step C cfg w (AReq req) O) in
  let o := snd (step C cfg w (AReq req) O) in
  let W := bsplit ","%byte (bjoin ","%byte (c_whitelist cfg)) in
  let j' := jar_get b (w_sess w') in
  w_st w' = w_st w /\ ob_err o = false /\ ob_panic o = false /\
  (ob_resp o = Some (refusal_response E false fr) \/
   (ob_resp o = None /\ fr = RespRedirect /\ c_api cfg = true /\ exists n ek, fault_at n (o_faults O) = Some ek)) /\
  (ob_resp o <> None ->
     j' = apply_events j ([DelAll (bjoin ","%byte (c_whitelist cfg)); Del k_uid; Del k_last_action] ++ refusal_sev E fr) /\
     (forall k, ahas k j' = true -> (bmem k W = true /\ k <> k_uid /\ k <> k_last_action) \/ k = k_flash_err) /\
     (forall k, bmem k W = true -> k <> k_uid -> k <> k_last_action -> k <> k_flash_err ->
        alookup k j' = alookup k j) /\
     alookup k_uid j' = None /\ alookup k_last_action j' = None /\
     jar_get b (w_cook w') = jar_get b (w_cook w)) /\
  (ob_resp o = None -> w_sess w' = w_sess w /\ w_cook w' = w_cook w).
Proof.
  intros R b j E Hu Hl Hp Hle Hwl Hr.
  apply (step_expired_lemma C cfg w req O full tf fr l c r R Hu); [|exact Hwl|exact Hr].
  fold b. fold j. rewrite (stamp_expired_stamp cfg (o_now O) j ds d Hl Hp). apply Z.leb_le. exact Hle.
Qed.

Lemma step_fresh_stamp_lemma w req O full tf fr l c r ds d :
  q_route req = RApp full tf fr l c r true ->
  let b := q_browser req in
  let j := jar_get b (w_sess w) in
  bempty (aget k_uid j) = false -> alookup k_last_action j = Some ds -> zparse ds = Some d ->
  o_now O < d + c_expire_after cfg ->
  let w' := fst (step C cfg w (AReq req) O) in
  let o := snd (step C cfg w (AReq req) O) in
  let j' := jar_get b (w_sess w') in
  (ob_resp o <> None ->
     alookup k_last_action j' = Some (zdec (o_now O)) /\
     alookup k_uid j' = alookup k_uid j /\
     (forall k, k <> k_last_action -> k <> k_flash_err -> alookup k j' = alookup k j) /\
     (exists n, j' = apply_events j (Put k_last_action (zdec (o_now O)) :: repeat (Put k_flash_err v_flash) n)) /\
     jar_get b (w_cook w') = jar_get b (w_cook w)) /\
  (ob_resp o = None -> w_sess w' = w_sess w /\ w_cook w' = w_cook w).
Proof.
  intros R b j Hb Hl Hp Hlt.
  apply (step_fresh_lemma C cfg w req O full tf fr l c r R Hb).
  fold b. fold j. rewrite (stamp_expired_stamp cfg (o_now O) j ds d Hl Hp). apply Z.leb_gt. exact Hlt.
Qed.

(* ---- C10: the wrong method, and the request after a logout ------------------------------------- *)
Lemma step_logout_wrong_method_lemma w req O :
  q_route req = RLogout -> meth_eqb (q_meth req) (c_logout_method cfg) = false ->
  let w' := fst (step C cfg w (AReq req) O) in
  let o := snd (step C cfg w (AReq req) O) in
  w_st w' = w_st w /\
  (forall b', jar_get b' (w_sess w') = jar_get b' (w_sess w) /\ jar_get b' (w_cook w') = jar_get b' (w_cook w)) /\
  (ob_resp o = Some (RespStatus 404) \/ ob_resp o = Some (RespStatus 405)).
Proof.
  intros R Hm w' o.
  set (b := q_browser req).
  set (E := mkEnv C cfg O req (jar_get b (w_cook w)) (jar_get b (w_sess w))).
  set (h0 := init_hst (w_st w) O).
  assert (Es : exists st, (st = 404 \/ st = 405) /\
                 serve E h0 = (Ok tt, h0 <| h_out := Some (mkWritten (RespStatus st) [] []) |>)).
  { unfold serve, route_table. cbn [e_req e_cfg E]. rewrite R. unfold when, on_method. cbn [e_req e_cfg E]. rewrite Hm.
    destruct (q_meth req); [exists 404|exists 404|exists 404|exists 405];
      (split; [auto|]); destruct (has_mod cfg MLogout); reflexivity. }
  destruct Es as (st & Hst & Es).
  destruct (step_shape C cfg w req O _ _ Es) as (Ob & St & Jr). fold b in Jr. fold w' in St, Jr. fold o in Ob.
  cbn [h_out set] in Jr. cbn [w_sev w_cev] in Jr. destruct Jr as (Js & Jc).
  split; [exact St|]. split.
  - intros b'. destruct (bytes_dec b' b) as [->|N].
    + rewrite Js, Jc. split; reflexivity.
    + apply step_other_browsers_lemma. exact N.
  - rewrite Ob. unfold obs_of. cbn [ob_resp h_out set option_map w_resp].
    destruct Hst as [-> | ->]; auto.
Qed.

(* logout, then any request of the same browser to an application route: refused *)
Lemma step_logout_then_app_lemma w req O req2 O2 full tf fr l c r e :
  q_route req = RLogout -> q_meth req = c_logout_method cfg -> q_meth req <> PUT ->
  has_mod cfg MLogout = true ->
  ob_resp (snd (step C cfg w (AReq req) O)) <> None ->
  q_browser req2 = q_browser req -> q_route req2 = RApp full tf fr l c r e ->
  let b := q_browser req in
  let w1 := fst (step C cfg w (AReq req) O) in
  let w2 := fst (step C cfg w1 (AReq req2) O2) in
  let o2 := snd (step C cfg w1 (AReq req2) O2) in
  w_st w2 = w_st w /\ ob_err o2 = false /\ ob_panic o2 = false /\
  (ob_resp o2 = Some (refusal_response (mkEnv C cfg O2 req2 [] []) false fr) \/
   (ob_resp o2 = None /\ fr = RespRedirect /\ c_api cfg = true /\ exists n ek, fault_at n (o_faults O2) = Some ek)) /\
  alookup k_uid (jar_get b (w_sess w2)) = None /\
  alookup k_rm (jar_get b (w_cook w2)) = None.
Proof.
  intros R M NP HM Hs Hb2 R2 b w1 w2 o2.
  destruct (step_logout_lemma C cfg w req O R M NP HM) as (St1 & Hw & _). fold b in Hw. fold w1 in St1, Hw.
  destruct (Hw Hs) as (_ & _ & U1 & _ & _ & _ & K1 & _).
  assert (U1' : alookup k_uid (jar_get (q_browser req2) (w_sess w1)) = None) by (rewrite Hb2; exact U1).
  assert (K1' : alookup k_rm (jar_get (q_browser req2) (w_cook w1)) = None) by (rewrite Hb2; exact K1).
  destruct (step_app_unauthenticated_lemma C cfg w1 req2 O2 full tf fr l c r e R2 U1' (or_intror K1'))
    as (St2 & A1 & A2 & A3 & _ & A5 & A6).
  fold w2 in St2, A5, A6. fold o2 in A1, A2, A3. rewrite Hb2 in A5, A6. fold b in A5, A6.
  split; [congruence|]. split; [exact A1|]. split; [exact A2|]. split; [exact A3|].
  split; [exact A5|]. rewrite A6. exact K1.
Qed.
End XS2.

(* how the reference store reads the whitelist it is handed: the same list, provided it is
   not empty and no key contains a comma; an empty whitelist reads as "the empty key" *)
Lemma store_whitelist_reading (wl : list bytes) :
  wl <> [] -> Forall (fun k => bmem_byte ","%byte k = false) wl -> bsplit ","%byte (bjoin ","%byte wl) = wl.
Proof. intros N F. apply bsplit_bjoin; assumption. Qed.
Lemma store_whitelist_reading_empty : bsplit ","%byte (bjoin ","%byte []) = [[]].
Proof. reflexivity. Qed.

(* ---- the module routes behind the gate: the wrapped handler, as a function of the gate ---------- *)
Lemma behind_runs_lemma E full inner h u :
  reqs_ok E full false = true -> h_cuser h = None -> h_cpid h = None ->
  bempty (aget k_uid (e_sess E)) = false -> ulookup (aget k_uid (e_sess E)) (s_users (h_st h)) = Some u ->
  fault_at (h_ncalls h) (o_faults (e_O E)) = None ->
  behind E full inner h = inner (after_load E h <| h_cuser := Some u |>).
Proof.
  intros Rq Hc Hp Hb Hu Hf. apply behind_admitted. apply gate_admits_if_lemma; assumption.
Qed.

Lemma behind_refusal_lemma E full h :
  h_cuser h = None -> h_cpid h = None -> h_out h = None ->
  fault_at (h_ncalls h) (o_faults (e_O E)) = None ->
  gate_refuses E full false h ->
  exists h', (forall inner, behind E full inner h = (Ok tt, h')) /\
    h_st h' = h_st h /\ h_cuser h' = None /\ h_cev h' = h_cev h /\
    ((h_sev h' = h_sev h ++ refusal_sev E (c_unauthed (e_cfg E)) /\
      h_out h' = Some (mkWritten (refusal_response E true (c_unauthed (e_cfg E)))
                                 (h_sev h ++ refusal_sev E (c_unauthed (e_cfg E))) (h_cev h))) \/
     (c_unauthed (e_cfg E) = RespRedirect /\ c_api (e_cfg E) = true /\ h_sev h' = h_sev h /\ h_out h' = None /\
      exists n ek, fault_at n (o_faults (e_O E)) = Some ek)).
Proof.
  intros Hc Hp Ho Hf Hr.
  destruct (gate_refusal_lemma E true full false (c_unauthed (e_cfg E)) h Hc Hp Ho Hf Hr) as (h' & A & B).
  exists h'. split; [|exact B]. intros inner. apply behind_refused. exact A.
Qed.

(* ---- the hypothesis "a response was written" of the logout statement cannot be dropped: in API
   mode with the silent error handler, a failed renderer call means nothing is written, so the
   recorded deletions never reach the browser ---------------------------------------------------- *)
Definition wit_crypto : crypto := mkCrypto (fun x => x) (fun x => x) (fun _ _ => true).
Definition wit_cfg : config :=
  mkConfig [MLogout] false false false false false false 3 300 300 3600 3600 [] true false false DELETE GET false
           [] RespNotFound [] [] false false false.
Definition wit_world : world := mkWorld (mkStorage [] []) [(bs "b", [(k_uid, bs "a")])] [(bs "b", [(k_rm, bs "t")])].
Definition wit_req : request := mkRequest (bs "b") DELETE RLogout (bs "/logout") [] [] [] false.
Definition wit_oracle : oracle := mkOracle 0 [] [] [(0%nat, EGeneric); (1%nat, EGeneric)] (mkPA false false [] [] [] [] 0).

Lemma logout_unwritten_witness :
  q_route wit_req = RLogout /\ q_meth wit_req = c_logout_method wit_cfg /\ has_mod wit_cfg MLogout = true /\
  let w' := fst (step wit_crypto wit_cfg wit_world (AReq wit_req) wit_oracle) in
  ob_resp (snd (step wit_crypto wit_cfg wit_world (AReq wit_req) wit_oracle)) = None /\
  alookup k_uid (jar_get (bs "b") (w_sess w')) = Some (bs "a") /\
  alookup k_rm (jar_get (bs "b") (w_cook w')) = Some (bs "t").
Proof. vm_compute. repeat split; reflexivity. Qed.
