(* The wrapped deployment ([serve_top] / [wstep]), continued: identity removal (C01), the refused /
   supplied redirect value (C15), the gate of the module routes behind the wrapper (C08), and the
   application-route statements of C09 / C03 (for which [wstep] is [step]). *)
From AB Require Import World.Step Base.TextProofs Proofs.EvLogic Proofs.Neutral Proofs.HandlerEvents Proofs.ServeEvents
  Proofs.Guards Proofs.Guards2 Proofs.Guards3 Proofs.StepGuard Proofs.MonadInv Proofs.Misc
  Proofs.Gate Proofs.LogoutProofs Proofs.StepLift2 Proofs.MwProofs Proofs.ExpireProofs
  Proofs.StepUid Proofs.Footprint Model.Redirect Spec.Browser Proofs.RedirectProofs Proofs.StepAll Proofs.Wrapped.
Open Scope Z_scope.

(* ---- application routes: [wstep] is [step] --------------------------------------------------- *)
Lemma wstep_app C cfg w req O full tf fr l c r e :
  q_route req = RApp full tf fr l c r e -> wstep C cfg w (AReq req) O = step C cfg w (AReq req) O.
Proof.
  intros R. apply wstep_plain. unfold wrapped_route. cbn [e_req e_cfg]. rewrite R. cbn [is_app negb].
  apply Bool.andb_false_r.
Qed.

(* ---- C01: who can take an identity out of a session, under the wrapper ----------------------- *)
(* the flush rule for any computation started at the beginning of a request *)
Lemma flushed_class_gen phi psi {A} (m : M A) st0 O r h :
  evs_all phi psi m -> m (init_hst st0 O) = (r, h) ->
  match h_out h with
  | Some wr => Forall phi (w_sev wr) /\ Forall psi (w_cev wr)
  | None => True
  end.
Proof.
  intros Hs Eq. destruct (Hs _ _ _ Eq) as [(ls & lc & S & Cc & F & G) P].
  destruct (h_out h) as [wr|] eqn:Ho; [|exact I].
  assert (P0 : pref (init_hst st0 O)) by (intros wr0 Hw; discriminate Hw).
  destruct (P P0 wr Ho) as (l & c & E1 & E2).
  simpl in S, Cc. rewrite E1 in S. rewrite E2 in Cc. subst ls lc.
  apply Forall_app in F. apply Forall_app in G. tauto.
Qed.

(* the wrapper only ever Puts; so the wrapped router drops no identity when the route behind it
   does not *)
Lemma nodrop_serve_top E :
  wrapped_route E = true ->
  (forall s2, routed_evs sess_nodrop any_ev (route_table (with_sess E s2))) ->
  evs_all sess_nodrop any_ev (serve_top E).
Proof.
  intros W HR. rewrite (serve_top_wrapped _ W).
  apply evs_bind; [apply nodrop_remember_mw|intros _].
  apply evs_bind; [apply evs_remembered_view|intros s2].
  apply serve_evs. apply HR.
Qed.

(* the routing decision of the logout route does not look at the session *)
Lemma logout_table_with_sess E s2 :
  q_route (e_req E) = RLogout -> (forall hd, route_table E <> Handler hd) ->
  route_table (with_sess E s2) = route_table E.
Proof.
  intros R. unfold route_table. cbn [with_sess e_req e_cfg]. rewrite R.
  destruct (q_meth (e_req E)); try reflexivity;
    unfold when, on_method; cbn [with_sess e_req e_cfg];
    destruct (has_mod (e_cfg E) MLogout); try reflexivity;
    destruct (meth_eqb _ (c_logout_method (e_cfg E))); try reflexivity;
    intros NH; exfalso; eapply NH; reflexivity.
Qed.

Section WX.
Variable C : crypto.
Variable cfg : config.
Notation ENV w O req := (mkEnv C cfg O req (jar_get (q_browser req) (w_cook w)) (jar_get (q_browser req) (w_sess w))).

Lemma wstep_uid_kept_class w req O :
  evs_all sess_nodrop any_ev (serve_top (ENV w O req)) ->
  ahas k_uid (jar_get (q_browser req) (w_sess w)) = true ->
  ahas k_uid (jar_get (q_browser req) (w_sess (fst (wstep C cfg w (AReq req) O)))) = true.
Proof.
  intros Hs Hj. unfold wstep.
  destruct (serve_top _ _) as [r h] eqn:Es.
  pose proof (flushed_class_gen _ _ _ _ _ _ _ Hs Es) as Hf.
  destruct (h_out h) as [wr|]; simpl.
  - rewrite jar_get_set_eq. apply apply_events_nodrop; [tauto|exact Hj].
  - exact Hj.
Qed.

Lemma c01x_identity_removed_lemma w a O b :
  let w' := fst (wstep C cfg w a O) in
  ahas k_uid (jar_get b (w_sess w)) = true -> ahas k_uid (jar_get b (w_sess w')) = false ->
  (exists req, a = AReq req /\ q_browser req = b /\
     ((q_route req = RLogout /\ q_meth req = c_logout_method cfg /\ q_meth req <> PUT /\ has_mod cfg MLogout = true) \/
      (exists full tf fr l c r, q_route req = RApp full tf fr l c r true)))  \/
  (exists j, a = ASetJar false b j /\ ahas k_uid j = false).
Proof.
  intros w' H0 H1. subst w'.
  destruct a as [req|p|p|p pw|p|u rm|b' k v|ck b' j].
  2-8: exact (c01_identity_removed_lemma C cfg w _ O b H0 H1).
  destruct (wrapped_route (ENV w O req)) eqn:W.
  2:{ rewrite (wstep_plain C cfg w req O W) in H1. exact (c01_identity_removed_lemma C cfg w (AReq req) O b H0 H1). }
  left. exists req. split; [reflexivity|].
  destruct (bytes_dec b (q_browser req)) as [->|N].
  2:{ exfalso. destruct (wstep_other_browsers_lemma C cfg w req O b N) as [Eq _]. rewrite Eq in H1. congruence. }
  split; [reflexivity|].
  assert (Kept : (forall s2, routed_evs sess_nodrop any_ev (route_table (with_sess (ENV w O req) s2))) -> False).
  { intros HR. rewrite (wstep_uid_kept_class w req O (nodrop_serve_top _ W HR) H0) in H1. discriminate H1. }
  destruct (may_drop req) eqn:MD.
  2:{ exfalso. apply Kept. intros s2. apply nodrop_routes. exact MD. }
  unfold may_drop in MD.
  destruct (q_route req) as [| | | | | | | |pv|pv| | | | | | | | | | |k|k| |full tf fr lk cf remembermw expiremw|] eqn:R;
    try discriminate MD.
  - left. split; [reflexivity|].
    destruct (route_table (ENV w O req)) as [hd| |] eqn:RT.
    + exact (logout_handler_inv (ENV w O req) hd R RT).
    + exfalso. apply Kept. intros s2. rewrite logout_table_with_sess; [rewrite RT; exact I|exact R|].
      intros hd; rewrite RT; discriminate.
    + exfalso. apply Kept. intros s2. rewrite logout_table_with_sess; [rewrite RT; exact I|exact R|].
      intros hd; rewrite RT; discriminate.
  - right. destruct expiremw; [|discriminate MD]. exists full, tf, fr, lk, cf, remembermw. reflexivity.
Qed.

(* ---- C15 ------------------------------------------------------------------------------------ *)
Lemma c15_wstep_refused_value_ignored_lemma w req O loc :
  is_local_redirect (supplied_redir cfg req) = false ->
  redirects_to (snd (wstep C cfg w (AReq req) O)) loc ->
  In loc (fixed_targets cfg req) \/ route_extra cfg req (jar_get (q_browser req) (w_sess w)) loc.
Proof.
  intros Hn Hr. destruct (c15_wstep_redirects_local_lemma C cfg w req O loc Hr) as [H|[(_ & -> & Hl)|H]]; auto.
  rewrite Hl in Hn. discriminate Hn.
Qed.

Lemma c15_wstep_supplied_value_safe_lemma w req O loc :
  redirects_to (snd (wstep C cfg w (AReq req) O)) loc ->
  ~ In loc (fixed_targets cfg req) -> ~ route_extra cfg req (jar_get (q_browser req) (w_sess w)) loc ->
  honours_redir req = true /\ loc = supplied_redir cfg req /\ is_local_redirect loc = true /\
  same_site loc = true /\ same_site (hex_escape_non_ascii loc) = true /\ same_site (http_redirect_rewrite loc) = true.
Proof.
  intros Hr. apply c15_supplied_value_safe_lemma. exact (c15_wstep_redirects_local_lemma C cfg w req O loc Hr).
Qed.

(* every action: a redirect that is none of the configured targets *)
Lemma c15_wstep_any_action_supplied_value_safe_lemma w a O loc :
  redirects_to (snd (wstep C cfg w a O)) loc ->
  exists req, a = AReq req /\
    (In loc (fixed_targets cfg req) \/ route_extra cfg req (jar_get (q_browser req) (w_sess w)) loc \/
     (honours_redir req = true /\ loc = supplied_redir cfg req /\ is_local_redirect loc = true /\
      same_site loc = true /\ same_site (hex_escape_non_ascii loc) = true /\ same_site (http_redirect_rewrite loc) = true)).
Proof.
  intros Hr. destruct (c15_only_requests_redirect_w_lemma C cfg w a O loc Hr) as (req & -> & Ha).
  exists req. split; [reflexivity|]. destruct Ha as [H|[(Hh & He & Hl)|H]]; auto.
  right; right. repeat split; auto; apply (c15_safe_lemma loc Hl).
Qed.
End WX.

(* ---- C09 / C03 on application routes: immediate corollaries of [wstep_app] ------------------- *)
Section WAPP.
Variable C : crypto.
Variable cfg : config.

Lemma wstep_expired_stamp_lemma w req O full tf fr l c r ds d :
  q_route req = RApp full tf fr l c r true ->
  let b := q_browser req in
  let j := jar_get b (w_sess w) in
  let E := mkEnv C cfg O req (jar_get b (w_cook w)) j in
  ahas k_uid j = true -> alookup k_last_action j = Some ds -> zparse ds = Some d ->
  d + c_expire_after cfg <= o_now O ->
  bmem k_uid (c_whitelist cfg) = false ->
  (r = false \/ alookup k_rm (jar_get b (w_cook w)) = None) ->
  let w' := fst (wstep C cfg w (AReq req) O) in
  let o := snd (wstep C cfg w (AReq req) O) in
  let W := bsplit ","%byte (bjoin ","%byte (c_whitelist cfg)) in
  let j' := jar_get b (w_sess w') in
  w_st w' = w_st w /\ ob_err o = false /\ ob_panic o = false /\
  (ob_resp o = Some (refusal_response E false fr) \/
   (ob_resp o = None /\ fr = RespRedirect /\ c_api cfg = true /\ exists n ek, fault_at n (o_faults O) = Some ek)) /\
  (ob_resp o <> None ->
     j' = apply_events j ([DelAll (bjoin ","%byte (c_whitelist cfg)); Del k_uid; Del k_last_action] ++ refusal_sev E fr) /\
     (forall k, ahas k j' = true -> (bmem k W = true /\ k <> k_uid /\ k <> k_last_action) \/ k = k_flash_err) /\
     (forall k, bmem k W = true -> k <> k_uid -> k <> k_last_action -> k <> k_flash_err ->
        alookup k j' = alookup k j) /\
     alookup k_uid j' = None /\ alookup k_last_action j' = None /\
     jar_get b (w_cook w') = jar_get b (w_cook w)) /\
  (ob_resp o = None -> w_sess w' = w_sess w /\ w_cook w' = w_cook w).
Proof.
  intros R. rewrite (wstep_app C cfg w req O _ _ _ _ _ _ _ R).
  exact (step_expired_stamp_lemma C cfg w req O full tf fr l c r ds d R).
Qed.

Lemma wstep_fresh_stamp_lemma w req O full tf fr l c r ds d :
  q_route req = RApp full tf fr l c r true ->
  let b := q_browser req in
  let j := jar_get b (w_sess w) in
  bempty (aget k_uid j) = false -> alookup k_last_action j = Some ds -> zparse ds = Some d ->
  o_now O < d + c_expire_after cfg ->
  let w' := fst (wstep C cfg w (AReq req) O) in
  let o := snd (wstep C cfg w (AReq req) O) in
  let j' := jar_get b (w_sess w') in
  (ob_resp o <> None ->
     alookup k_last_action j' = Some (zdec (o_now O)) /\
     alookup k_uid j' = alookup k_uid j /\
     (forall k, k <> k_last_action -> k <> k_flash_err -> alookup k j' = alookup k j) /\
     (exists n, j' = apply_events j (Put k_last_action (zdec (o_now O)) :: repeat (Put k_flash_err v_flash) n)) /\
     jar_get b (w_cook w') = jar_get b (w_cook w)) /\
  (ob_resp o = None -> w_sess w' = w_sess w /\ w_cook w' = w_cook w).
Proof.
  intros R. rewrite (wstep_app C cfg w req O _ _ _ _ _ _ _ R).
  exact (step_fresh_stamp_lemma C cfg w req O full tf fr l c r ds d R).
Qed.

Lemma wstep_blocks_locked_lemma w req O full tf fr c r e :
  q_route req = RApp full tf fr true c r e ->
  let b := q_browser req in
  let E := mkEnv C cfg O req (jar_get b (w_cook w)) (jar_get b (w_sess w)) in
  let w' := fst (wstep C cfg w (AReq req) O) in
  let o := snd (wstep C cfg w (AReq req) O) in
  (exists d, ob_resp o = Some (RespPage 200 (bs "app") d)) ->
  exists pid u, stack_names E r pid /\
    ulookup pid (s_users (w_st w)) = Some u /\ ulookup pid (s_users (w_st w')) = Some u /\
    u_locked u <= o_now O.
Proof.
  intros R. rewrite (wstep_app C cfg w req O _ _ _ _ _ _ _ R).
  exact (step_blocks_locked_lemma C cfg w req O full tf fr c r e R).
Qed.

Lemma wstep_blocks_unconfirmed_lemma w req O full tf fr l r e :
  q_route req = RApp full tf fr l true r e ->
  let b := q_browser req in
  let E := mkEnv C cfg O req (jar_get b (w_cook w)) (jar_get b (w_sess w)) in
  let w' := fst (wstep C cfg w (AReq req) O) in
  let o := snd (wstep C cfg w (AReq req) O) in
  (exists d, ob_resp o = Some (RespPage 200 (bs "app") d)) ->
  exists pid u, stack_names E r pid /\
    ulookup pid (s_users (w_st w)) = Some u /\ ulookup pid (s_users (w_st w')) = Some u /\
    u_confirmed u = true.
Proof.
  intros R. rewrite (wstep_app C cfg w req O _ _ _ _ _ _ _ R).
  exact (step_blocks_unconfirmed_lemma C cfg w req O full tf fr l r e R).
Qed.

(* [step_refused] with the router as mounted *)
Definition wstep_refused (w : world) (req : request) (O : oracle) (p : bytes) : Prop :=
  let w' := fst (wstep C cfg w (AReq req) O) in
  let o := snd (wstep C cfg w (AReq req) O) in
  w_st w' = w_st w /\ ob_err o = false /\ ob_panic o = false /\
  (ob_resp o = Some (if c_api cfg then RespRedirectAPI 307 p true else RespRedirect302 p) \/
   (ob_resp o = None /\ c_api cfg = true /\ exists n ek, fault_at n (o_faults O) = Some ek)) /\
  (c_api cfg = false -> ob_resp o <> None ->
     alookup k_flash_err (jar_get (q_browser req) (w_sess w')) = Some v_flash).

Lemma wstep_refused_of_step w req O p full tf fr l c r e :
  q_route req = RApp full tf fr l c r e -> step_refused C cfg w req O p -> wstep_refused w req O p.
Proof. intros R H. unfold wstep_refused. rewrite (wstep_app C cfg w req O _ _ _ _ _ _ _ R). exact H. Qed.

Lemma wstep_lock_mw_refuses_lemma w req O full tf fr c r e u :
  q_route req = RApp full tf fr true c r e ->
  let b := q_browser req in
  let j := jar_get b (w_sess w) in
  let E := mkEnv C cfg O req (jar_get b (w_cook w)) j in
  bempty (aget k_uid j) = false -> (e = true -> stamp_expired cfg (o_now O) j = false) ->
  reqs_ok E full tf = true -> fault_at 0 (o_faults O) = None ->
  ulookup (aget k_uid j) (s_users (w_st w)) = Some u -> o_now O < u_locked u ->
  wstep_refused w req O (p_lock_notok_of cfg).
Proof.
  intros R b j E H1 H2 H3 H4 H5 H6. apply (wstep_refused_of_step w req O _ _ _ _ _ _ _ _ R).
  exact (step_lock_mw_refuses_lemma C cfg w req O full tf fr c r e u R H1 H2 H3 H4 H5 H6).
Qed.

Lemma wstep_confirm_mw_refuses_lemma w req O full tf fr l r e u :
  q_route req = RApp full tf fr l true r e ->
  let b := q_browser req in
  let j := jar_get b (w_sess w) in
  let E := mkEnv C cfg O req (jar_get b (w_cook w)) j in
  bempty (aget k_uid j) = false -> (e = true -> stamp_expired cfg (o_now O) j = false) ->
  reqs_ok E full tf = true -> fault_at 0 (o_faults O) = None ->
  ulookup (aget k_uid j) (s_users (w_st w)) = Some u ->
  (l = true -> u_locked u <= o_now O) -> u_confirmed u = false ->
  wstep_refused w req O (p_confirm_notok_of cfg).
Proof.
  intros R b j E H1 H2 H3 H4 H5 H6 H7. apply (wstep_refused_of_step w req O _ _ _ _ _ _ _ _ R).
  exact (step_confirm_mw_refuses_lemma C cfg w req O full tf fr l r e u R H1 H2 H3 H4 H5 H6 H7).
Qed.
End WAPP.

Lemma wstep_refused_reading C cfg w req O p :
  wstep_refused C cfg w req O p <->
  (let w' := fst (wstep C cfg w (AReq req) O) in
   let o := snd (wstep C cfg w (AReq req) O) in
   w_st w' = w_st w /\ ob_err o = false /\ ob_panic o = false /\
   (ob_resp o = Some (if c_api cfg then RespRedirectAPI 307 p true else RespRedirect302 p) \/
    (ob_resp o = None /\ c_api cfg = true /\ exists n ek, fault_at n (o_faults O) = Some ek)) /\
   (c_api cfg = false -> ob_resp o <> None ->
      alookup k_flash_err (jar_get (q_browser req) (w_sess w')) = Some v_flash)).
Proof. reflexivity. Qed.

(* ---- C08: the gate of a module route, reached through the wrapper ----------------------------- *)
(* the gate with a pid possibly cached in the context - as the wrapper leaves it: the cached pid is
   the view's uid *)
Section GW.
Variable E : env.
Notation cfg := (e_cfg E).
Notation sess := (e_sess E).
Notation O := (e_O E).

Lemma load_cu_nouid_gen h :
  h_cuser h = None -> cur_pid E h = aget k_uid sess -> bempty (aget k_uid sess) = true ->
  load_current_user E h = (Err ErrUserNotFound, h).
Proof.
  intros Hc Hp Hb. unfold load_current_user, current_user_id, bind, get_h. rewrite Hc.
  unfold cur_pid in Hp. destruct (h_cpid h) as [p|]; [subst p|]; unfold ret; rewrite Hb; reflexivity.
Qed.

Opaque k_uid.
Lemma load_cu_load_gen h :
  h_cuser h = None -> cur_pid E h = aget k_uid sess -> bempty (aget k_uid sess) = false ->
  load_current_user E h =
  match fault_at (h_ncalls h) (o_faults O) with
  | Some EGeneric => (Err ErrOther, after_load E h)
  | Some ENotFound => (Err ErrUserNotFound, after_load E h)
  | None => match ulookup (aget k_uid sess) (s_users (h_st h)) with
            | Some u => (Ok u, after_load E h <| h_cuser := Some u |>)
            | None => (Err ErrUserNotFound, after_load E h)
            end
  end.
Proof.
  intros Hc Hp Hb. unfold load_current_user, current_user_id, bind, get_h. rewrite Hc.
  unfold cur_pid in Hp. destruct (h_cpid h) as [p|] eqn:Hq; [subst p|].
  - unfold ret. rewrite Hb. unfold set_cpid, modify, st_load, backend, set_cuser, modify. cbn.
    destruct (fault_at (h_ncalls h) (o_faults O)) as [[|]|]; try reflexivity.
    destruct (ulookup (aget k_uid sess) (s_users (h_st h))); reflexivity.
  - unfold ret. rewrite Hb. unfold set_cpid, modify, st_load, backend, set_cuser, modify. cbn.
    destruct (fault_at (h_ncalls h) (o_faults O)) as [[|]|]; try reflexivity.
    destruct (ulookup (aget k_uid sess) (s_users (h_st h))); reflexivity.
Qed.
Transparent k_uid.

(* the whole decision as one equation *)
Lemma gate_decision_gen mp full tf fr h :
  h_cuser h = None -> cur_pid E h = aget k_uid sess ->
  auth_middleware E mp full tf fr h =
  if reqs_ok E full tf && negb (bempty (aget k_uid sess)) then
    match fault_at (h_ncalls h) (o_faults O) with
    | Some EGeneric => (log [] ;;; write_resp (RespStatus 500) ;;; ret false) (after_load E h)
    | Some ENotFound => refuse_now E mp fr (after_load E h)
    | None => match ulookup (aget k_uid sess) (s_users (h_st h)) with
              | Some u => (Ok true, after_load E h <| h_cuser := Some u |>)
              | None => refuse_now E mp fr (after_load E h)
              end
    end
  else refuse_now E mp fr h.
Proof.
  intros Hc Hp. destruct (reqs_ok E full tf) eqn:Rq; cbn [andb].
  2:{ apply gate_unmet. exact Rq. }
  unfold auth_middleware. rewrite (reqs_ok_true _ _ _ Rq). unfold try.
  destruct (bempty (aget k_uid sess)) eqn:Hb; cbn [negb].
  - rewrite (load_cu_nouid_gen _ Hc Hp Hb). reflexivity.
  - rewrite (load_cu_load_gen _ Hc Hp Hb).
    destruct (fault_at (h_ncalls h) (o_faults O)) as [[|]|]; try reflexivity.
    destruct (ulookup (aget k_uid sess) (s_users (h_st h))); reflexivity.
Qed.

Lemma gate_iff_gen mp full tf fr h :
  h_cuser h = None -> cur_pid E h = aget k_uid sess -> h_out h = None ->
  fault_at (h_ncalls h) (o_faults O) = None ->
  ((exists h', auth_middleware E mp full tf fr h = (Ok true, h')) <->
   (reqs_ok E full tf = true /\ bempty (aget k_uid sess) = false /\
    exists u, ulookup (aget k_uid sess) (s_users (h_st h)) = Some u)).
Proof.
  intros Hc Hp Ho Hf. rewrite (gate_decision_gen mp full tf fr h Hc Hp), Hf.
  assert (Ho' : h_out (after_load E h) = None) by exact Ho.
  split.
  - intros (h' & Eq).
    destruct (reqs_ok E full tf); cbn [andb] in Eq.
    2:{ destruct (refuse_now_spec E mp fr h Ho) as (k & Rk & _). rewrite Rk in Eq. discriminate Eq. }
    destruct (bempty (aget k_uid sess)); cbn [negb] in Eq.
    { destruct (refuse_now_spec E mp fr h Ho) as (k & Rk & _). rewrite Rk in Eq. discriminate Eq. }
    destruct (ulookup (aget k_uid sess) (s_users (h_st h))) as [u|].
    + split; [reflexivity|]. split; [reflexivity|]. exists u. reflexivity.
    + destruct (refuse_now_spec E mp fr (after_load E h) Ho') as (k & Rk & _). rewrite Rk in Eq. discriminate Eq.
  - intros (Rq & Hb & u & Hu). rewrite Rq, Hb, Hu. cbn [andb negb]. eexists. reflexivity.
Qed.

Lemma gate_refusal_gen mp full tf fr h :
  h_cuser h = None -> cur_pid E h = aget k_uid sess -> h_out h = None ->
  fault_at (h_ncalls h) (o_faults O) = None ->
  gate_refuses E full tf h ->
  exists h', auth_middleware E mp full tf fr h = (Ok false, h') /\
    h_st h' = h_st h /\ h_cuser h' = None /\ h_cev h' = h_cev h /\
    ((h_sev h' = h_sev h ++ refusal_sev E fr /\
      h_out h' = Some (mkWritten (refusal_response E mp fr) (h_sev h ++ refusal_sev E fr) (h_cev h))) \/
     (fr = RespRedirect /\ c_api cfg = true /\ h_sev h' = h_sev h /\ h_out h' = None /\
      exists n ek, fault_at n (o_faults O) = Some ek)).
Proof.
  intros Hc Hp Ho Hf Hr. rewrite (gate_decision_gen mp full tf fr h Hc Hp), Hf.
  assert (Ho' : h_out (after_load E h) = None) by exact Ho.
  assert (Direct : exists h', refuse_now E mp fr h = (Ok false, h') /\
    h_st h' = h_st h /\ h_cuser h' = None /\ h_cev h' = h_cev h /\
    ((h_sev h' = h_sev h ++ refusal_sev E fr /\
      h_out h' = Some (mkWritten (refusal_response E mp fr) (h_sev h ++ refusal_sev E fr) (h_cev h))) \/
     (fr = RespRedirect /\ c_api cfg = true /\ h_sev h' = h_sev h /\ h_out h' = None /\
      exists n ek, fault_at n (o_faults O) = Some ek))).
  { destruct (refuse_now_spec E mp fr h Ho) as (h' & R & A1 & A2 & A3 & A4 & A5).
    exists h'. split; [exact R|]. split; [exact A1|]. split; [rewrite A2; exact Hc|]. split; [exact A4|exact A5]. }
  destruct (reqs_ok E full tf) eqn:Rq; cbn [andb]; [|exact Direct].
  destruct (bempty (aget k_uid sess)) eqn:Hb; cbn [negb]; [exact Direct|].
  destruct Hr as [Hr|[Hr|Hr]]; [congruence|congruence|]. rewrite Hr.
  destruct (refuse_now_spec E mp fr (after_load E h) Ho') as (h' & R & A1 & A2 & A3 & A4 & A5).
  exists h'. split; [exact R|]. split; [exact A1|]. split; [rewrite A2; exact Hc|]. split; [exact A4|exact A5].
Qed.

Lemma behind_runs_gen full inner h u :
  reqs_ok E full false = true -> h_cuser h = None -> cur_pid E h = aget k_uid sess ->
  bempty (aget k_uid sess) = false -> ulookup (aget k_uid sess) (s_users (h_st h)) = Some u ->
  fault_at (h_ncalls h) (o_faults O) = None ->
  behind E full inner h = inner (after_load E h <| h_cuser := Some u |>).
Proof.
  intros Rq Hc Hp Hb Hu Hf. apply behind_admitted.
  rewrite (gate_decision_gen true full false (c_unauthed cfg) h Hc Hp), Rq, Hb, Hf, Hu. reflexivity.
Qed.

Lemma behind_refusal_gen full h :
  h_cuser h = None -> cur_pid E h = aget k_uid sess -> h_out h = None ->
  fault_at (h_ncalls h) (o_faults O) = None ->
  gate_refuses E full false h ->
  exists h', (forall inner, behind E full inner h = (Ok tt, h')) /\
    h_st h' = h_st h /\ h_cuser h' = None /\ h_cev h' = h_cev h /\
    ((h_sev h' = h_sev h ++ refusal_sev E (c_unauthed cfg) /\
      h_out h' = Some (mkWritten (refusal_response E true (c_unauthed cfg))
                                 (h_sev h ++ refusal_sev E (c_unauthed cfg)) (h_cev h))) \/
     (c_unauthed cfg = RespRedirect /\ c_api cfg = true /\ h_sev h' = h_sev h /\ h_out h' = None /\
      exists n ek, fault_at n (o_faults O) = Some ek)).
Proof.
  intros Hc Hp Ho Hf Hr.
  destruct (gate_refusal_gen true full false (c_unauthed cfg) h Hc Hp Ho Hf Hr) as (h' & A & B).
  exists h'. split; [|exact B]. intros inner. apply behind_refused. exact A.
Qed.
End GW.

(* what the wrapper leaves for the gate: no context user, nothing written, the user table as the
   request found it, and CurrentUserID = the uid of the view *)
Lemma wrapper_for_gate E st O h1 s2 :
  remember_mw E (init_hst st O) = (Ok tt, h1) -> remembered_view (e_sess E) h1 = (Ok s2, h1) ->
  h_cuser h1 = None /\ h_out h1 = None /\ s_users (h_st h1) = s_users st /\
  cur_pid (with_sess E s2) h1 = aget k_uid s2.
Proof.
  intros RM RV. destruct (wrapper_result E st O h1 s2 RM RV) as (Ku & Kc & Ko & [[Hp ->]|(pid & Hp & -> & _)]).
  - split; [exact Kc|]. split; [exact Ko|]. split; [exact Ku|]. unfold cur_pid. rewrite Hp. reflexivity.
  - split; [exact Kc|]. split; [exact Ko|]. split; [exact Ku|]. unfold cur_pid. rewrite Hp.
    symmetry. apply aget_uid_overlay.
Qed.

Section GW2.
Variable E : env.        (* the request as it arrived *)
Variable st : storage.
Variable orc : oracle.
Variables (h1 : hst) (s2 : amap).
Hypothesis RM : remember_mw E (init_hst st orc) = (Ok tt, h1).
Hypothesis RV : remembered_view (e_sess E) h1 = (Ok s2, h1).
Notation V := (with_sess E s2).

Lemma c08w_gate_decision_lemma mp full tf fr :
  auth_middleware V mp full tf fr h1 =
  if reqs_ok V full tf && negb (bempty (aget k_uid s2)) then
    match fault_at (h_ncalls h1) (o_faults (e_O E)) with
    | Some EGeneric => (log [] ;;; write_resp (RespStatus 500) ;;; ret false) (after_load V h1)
    | Some ENotFound => refuse_now V mp fr (after_load V h1)
    | None => match ulookup (aget k_uid s2) (s_users st) with
              | Some u => (Ok true, after_load V h1 <| h_cuser := Some u |>)
              | None => refuse_now V mp fr (after_load V h1)
              end
    end
  else refuse_now V mp fr h1.
Proof.
  destruct (wrapper_for_gate E st orc h1 s2 RM RV) as (Hc & Ho & Hu & Hp).
  rewrite (gate_decision_gen V mp full tf fr h1 Hc Hp). cbn [with_sess e_sess e_O]. rewrite Hu. reflexivity.
Qed.

Lemma c08w_gate_iff_lemma mp full tf fr :
  fault_at (h_ncalls h1) (o_faults (e_O E)) = None ->
  ((exists h2, auth_middleware V mp full tf fr h1 = (Ok true, h2)) <->
   (reqs_ok V full tf = true /\ bempty (aget k_uid s2) = false /\
    exists u, ulookup (aget k_uid s2) (s_users st) = Some u)).
Proof.
  intros Hf. destruct (wrapper_for_gate E st orc h1 s2 RM RV) as (Hc & Ho & Hu & Hp).
  pose proof (gate_iff_gen V mp full tf fr h1 Hc Hp Ho Hf) as K. cbn [with_sess e_sess] in K. rewrite Hu in K. exact K.
Qed.

(* the view is the session as it arrived, or the half-authenticated overlay of a session that named
   nobody; so a session without identity never passes a full-auth requirement, whatever its cookie,
   the storage and the oracle *)
Lemma c08w_no_identity_never_full_lemma mp tf fr h2 :
  bempty (aget k_uid (e_sess E)) = true -> auth_middleware V mp true tf fr h1 <> (Ok true, h2).
Proof.
  intros Hb Eq. destruct (auth_middleware_admits _ _ _ _ _ _ _ Eq) as (Rq & _ & Hx & _).
  destruct (wrapper_result E st orc h1 s2 RM RV) as (_ & Kc & _ & [[Hp S2]|(pid & _ & S2 & _)]).
  - destruct (Hx Kc Hp) as (Hb' & _). cbn [with_sess e_sess] in Hb'. rewrite S2 in Hb'. congruence.
  - unfold reqs_ok in Rq. cbn [with_sess e_sess] in Rq. rewrite S2, ahas_halfauth_view in Rq. discriminate Rq.
Qed.

Lemma c08w_view_halfauth_lemma :
  h_cpid h1 <> None ->
  ahas k_halfauth s2 = true /\ bempty (aget k_uid (e_sess E)) = true /\ (forall tf, reqs_ok V true tf = false).
Proof.
  intros Hn. destruct (wrapper_result E st orc h1 s2 RM RV) as (_ & _ & _ & [[Hp _]|(pid & _ & S2 & Hb & _)]); [congruence|].
  assert (Hh : ahas k_halfauth s2 = true) by (rewrite S2; apply ahas_halfauth_view).
  split; [exact Hh|]. split; [exact Hb|]. intros tf. unfold reqs_ok. cbn [with_sess e_sess]. rewrite Hh. reflexivity.
Qed.

Hypothesis W : wrapped_route E = true.

Lemma serve_top_cut_eq : serve_top E (init_hst st orc) = serve V h1.
Proof.
  rewrite (serve_top_wrapped _ W). unfold bind at 1. rewrite RM. unfold bind. rewrite RV. reflexivity.
Qed.

(* the handler behind the gate runs, from exactly the state the gate hands on *)
Lemma c08w_serve_top_runs_lemma full inner u :
  route_table V = Handler (behind V full inner) ->
  reqs_ok V full false = true -> bempty (aget k_uid s2) = false ->
  ulookup (aget k_uid s2) (s_users st) = Some u ->
  fault_at (h_ncalls h1) (o_faults (e_O E)) = None ->
  serve_top E (init_hst st orc) = with_error_handler V inner (after_load V h1 <| h_cuser := Some u |>).
Proof.
  intros RT Rq Hb Hu Hf. destruct (wrapper_for_gate E st orc h1 s2 RM RV) as (Hc & Ho & Ku & Hp).
  rewrite serve_top_cut_eq. unfold serve. rewrite RT. unfold with_error_handler. apply try_congr.
  apply (behind_runs_gen V full inner h1 u Rq Hc Hp Hb); [|exact Hf].
  cbn [with_sess e_sess]. rewrite Ku. exact Hu.
Qed.

(* refused: the result of the whole request does not depend on the handler behind the gate *)
Lemma c08w_serve_top_not_run_lemma full :
  fault_at (h_ncalls h1) (o_faults (e_O E)) = None ->
  reqs_ok V full false = false \/ bempty (aget k_uid s2) = true \/ ulookup (aget k_uid s2) (s_users st) = None ->
  exists h', (forall inner, route_table V = Handler (behind V full inner) -> serve_top E (init_hst st orc) = (Ok tt, h')) /\
    h_st h' = h_st h1 /\ s_users (h_st h') = s_users st /\ h_cuser h' = None /\ h_cev h' = h_cev h1 /\
    ((h_sev h' = h_sev h1 ++ refusal_sev V (c_unauthed (e_cfg E)) /\
      h_out h' = Some (mkWritten (refusal_response V true (c_unauthed (e_cfg E)))
                                 (h_sev h1 ++ refusal_sev V (c_unauthed (e_cfg E))) (h_cev h1))) \/
     (c_unauthed (e_cfg E) = RespRedirect /\ c_api (e_cfg E) = true /\ h_sev h' = h_sev h1 /\ h_out h' = None /\
      exists n ek, fault_at n (o_faults (e_O E)) = Some ek)).
Proof.
  intros Hf Hr. destruct (wrapper_for_gate E st orc h1 s2 RM RV) as (Hc & Ho & Ku & Hp).
  assert (Hr' : gate_refuses V full false h1).
  { unfold gate_refuses. cbn [with_sess e_sess]. rewrite Ku. exact Hr. }
  destruct (behind_refusal_gen V full h1 Hc Hp Ho Hf Hr') as (h' & A & B1 & B2 & B3 & B4).
  exists h'. split.
  - intros inner RT. rewrite serve_top_cut_eq. unfold serve. rewrite RT. apply error_handler_ok. apply A.
  - split; [exact B1|]. split; [rewrite B1; exact Ku|]. split; [exact B2|]. split; [exact B3|exact B4].
Qed.
End GW2.

(* the OTP add / clear routes sit behind the gate without the full-auth requirement *)
Definition otp_settings_route (r : route) : bool :=
  match r with ROtpAdd | ROtpClear => true | _ => false end.

Lemma otp_settings_route_table E :
  otp_settings_route (q_route (e_req E)) = true ->
  (exists inner, route_table E = Handler (behind E false inner)) \/
  route_table E = NotFound \/ route_table E = MethodNotAllowed.
Proof.
  intros S. unfold route_table.
  destruct (q_route (e_req E)) eqn:R; try discriminate S; clear S;
    destruct (q_meth (e_req E)) eqn:M; unfold when, get_post, on_method; rewrite ?M;
    repeat match goal with |- context [if ?c then _ else _] => destruct c end;
    eauto.
Qed.

(* a gated route that is not mounted / wrong method: 404 / 405, after the wrapper *)
Lemma gated_route_reading r :
  (settings_route r = true \/ otp_settings_route r = true) <->
  r = ROtpAdd \/ r = ROtpClear \/
  r = RTotpSetup \/ r = RTotpQR \/ r = RTotpConfirm \/ r = RTotpRemove \/ r = RSmsSetup \/ r = RSmsConfirm \/
  r = RSmsRemove \/ (exists k, r = REmailVerify k) \/ (exists k, r = REmailVerifyEnd k) \/ r = RRecoveryRegen.
Proof.
  split.
  - intros [H|H]; destruct r; try discriminate H; eauto 14.
  - intros [->|[->|[->|[->|[->|[->|[->|[->|[->|[(k & ->)|[(k & ->)| ->]]]]]]]]]]]; cbn; auto.
Qed.

(* readings used by the Props files *)
Lemma reqs_ok_view_reading E s2 full tf :
  reqs_ok (with_sess E s2) full tf =
  negb (full && ahas k_halfauth s2) && negb (tf && negb (ahas k_twofactor s2)).
Proof. reflexivity. Qed.

Lemma settings_route_table_view E s2 :
  settings_route (q_route (e_req E)) = true ->
  (exists inner, route_table (with_sess E s2) = Handler (behind (with_sess E s2) true inner)) \/
  route_table (with_sess E s2) = NotFound \/ route_table (with_sess E s2) = MethodNotAllowed.
Proof. exact (settings_route_table (with_sess E s2)). Qed.

Lemma sess_nodrop_reading e :
  sess_nodrop e <-> match e with Put _ _ => True | Del k => k <> k_uid | DelAll _ => False end.
Proof. reflexivity. Qed.
