(* The wrapped deployment ([serve_top] / [wstep]), continued: identity removal (C01), the refused /
   supplied redirect value (C15), the gate of the module routes behind the wrapper (C08), and the
   application-route statements of C09 / C03 (for which [wstep] is [step]). *)
From AB Require Import World.Step Base.TextProofs Proofs.EvLogic Proofs.Neutral Proofs.HandlerEvents Proofs.ServeEvents
  Proofs.Guards Proofs.Guards2 Proofs.Guards3 Proofs.StepGuard Proofs.MonadInv Proofs.Misc
  Proofs.Gate Proofs.LogoutProofs Proofs.StepLift2 Proofs.MwProofs Proofs.ExpireProofs
  Proofs.StepUid Proofs.Footprint Model.Redirect Spec.Browser Proofs.RedirectProofs Proofs.StepAll Proofs.Wrapped.
Open Scope Z_scope.

(* ---- application routes: [wstep] is [step] --------------------------------------------------- *)
Lemma wstep_app C cfg w req O full tf fr l c r e :
  q_route req = RApp full tf fr l c r e -> wstep C cfg w (AReq req) O = step C cfg w (AReq req) O.
Proof.
  intros R. apply wstep_plain. unfold wrapped_route. cbn [e_req e_cfg]. rewrite R. cbn [is_app negb].
  apply Bool.andb_false_r.
Qed.

(* ---- C01: who can take an identity out of a session, under the wrapper ----------------------- *)
(* the flush rule for any computation started at the beginning of a request *)
Lemma flushed_class_gen phi psi {A} (m : M A) st0 O r h :
  evs_all phi psi m -> m (init_hst st0 O) = (r, h) ->
  match h_out h with
  | Some wr => Forall phi (w_sev wr) /\ Forall psi (w_cev wr)
  | None => True
  end.
Proof.
  intros Hs Eq. destruct (Hs _ _ _ Eq) as [(ls & lc & S & Cc & F & G) P].
  destruct (h_out h) as [wr|] eqn:Ho; [|exact I].
  assert (P0 : pref (init_hst st0 O)) by (intros wr0 Hw; discriminate Hw).
  destruct (P P0 wr Ho) as (l & c & E1 & E2).
  simpl in S, Cc. rewrite E1 in S. rewrite E2 in Cc. subst ls lc.
  apply Forall_app in F. apply Forall_app in G. tauto.
Qed.

(* the wrapper only ever Puts; so the wrapped router drops no identity when the route behind it
   does not *)
Lemma nodrop_serve_top E :
  wrapped_route E = true ->
  (forall s2, routed_evs sess_nodrop any_ev (route_table (with_sess E s2))) ->
  evs_all sess_nodrop any_ev (serve_top E).
Proof.
  intros W HR. rewrite (serve_top_wrapped _ W).
  apply evs_bind; [apply nodrop_remember_mw|intros _].
  apply evs_bind; [apply evs_remembered_view|intros s2].
  apply serve_evs. apply HR.
Qed.

(* the routing decision of the logout route does not look at the session *)
Lemma logout_table_with_sess E s2 :
  q_route (e_req E) = RLogout -> (forall hd, route_table E <> Handler hd) ->
  route_table (with_sess E s2) = route_table E.
Proof.
  intros R. unfold route_table. cbn [with_sess e_req e_cfg]. rewrite R.
  destruct (q_meth (e_req E)); try reflexivity;
    unfold when, on_method; cbn [with_sess e_req e_cfg];
    destruct (has_mod (e_cfg E) MLogout); try reflexivity;
    destruct (meth_eqb _ (c_logout_method (e_cfg E))); try reflexivity;
    intros NH; exfalso; eapply NH; reflexivity.
Qed.

Section WX.
Variable C : crypto.
Variable cfg : config.
Notation ENV w O req := (mkEnv C cfg O req (jar_get (q_browser req) (w_cook w)) (jar_get (q_browser req) (w_sess w))).

Lemma wstep_uid_kept_class w req O :
  evs_all sess_nodrop any_ev (serve_top (ENV w O req)) ->
  ahas k_uid (jar_get (q_browser req) (w_sess w)) = true ->
  ahas k_uid (jar_get (q_browser req) (w_sess (fst (wstep C cfg w (AReq req) O)))) = true.
Proof.
  intros Hs Hj. unfold wstep.
  destruct (serve_top _ _) as [r h] eqn:Es.
  pose proof (flushed_class_gen _ _ _ _ _ _ _ Hs Es) as Hf.
  destruct (h_out h) as [wr|]; simpl.
  - rewrite jar_get_set_eq. apply apply_events_nodrop; [tauto|exact Hj].
  - exact Hj.
Qed.

Lemma c01x_identity_removed_lemma w a O b :
  let w' := fst (wstep C cfg w a O) in
  ahas k_uid (jar_get b (w_sess w)) = true -> ahas k_uid (jar_get b (w_sess w')) = false ->
  (exists req, a = AReq req /\ q_browser req = b /\
     ((q_route req = RLogout /\ q_meth req = c_logout_method cfg /\ q_meth req <> PUT /\ has_mod cfg MLogout = true) \/
      (exists full tf fr l c r, q_route req = RApp full tf fr l c r true)))  \/
  (exists j, a = ASetJar false b j /\ ahas k_uid j = false).
Proof.
  intros w' H0 H1. subst w'.
  destruct a as [req|p|p|p pw|p|u rm|b' k v|ck b' j].
  2-8: exact (c01_identity_removed_lemma C cfg w _ O b H0 H1).
  destruct (wrapped_route (ENV w O req)) eqn:W.
  2:{ rewrite (wstep_plain C cfg w req O W) in H1. exact (c01_identity_removed_lemma C cfg w (AReq req) O b H0 H1). }
  left. exists req. split; [reflexivity|].
  destruct (bytes_dec b (q_browser req)) as [->|N].
  2:{ exfalso. destruct (wstep_other_browsers_lemma C cfg w req O b N) as [Eq _]. rewrite Eq in H1. congruence. }
  split; [reflexivity|].
  assert (Kept : (forall s2, routed_evs sess_nodrop any_ev (route_table (with_sess (ENV w O req) s2))) -> False).
  { intros HR. rewrite (wstep_uid_kept_class w req O (nodrop_serve_top _ W HR) H0) in H1. discriminate H1. }
  destruct (may_drop req) eqn:MD.
  2:{ exfalso. apply Kept. intros s2. apply nodrop_routes. exact MD. }
  unfold may_drop in MD.
  destruct (q_route req) as [| | | | | | | |pv|pv| | | | | | | | | | |k|k| |full tf fr lk cf remembermw expiremw|] eqn:R;
    try discriminate MD.
  - left. split; [reflexivity|].
    destruct (route_table (ENV w O req)) as [hd| |] eqn:RT.
    + exact (logout_handler_inv (ENV w O req) hd R RT).
    + exfalso. apply Kept. intros s2. rewrite logout_table_with_sess; [rewrite RT; exact I|exact R|].
      intros hd; rewrite RT; discriminate.
    + exfalso. apply Kept. intros s2. rewrite logout_table_with_sess; [rewrite RT; exact I|exact R|].
      intros hd; rewrite RT; discriminate.
  - right. destruct expiremw; [|discriminate MD]. exists full, tf, fr, lk, cf, remembermw. reflexivity.
Qed.

(* ---- C15 ------------------------------------------------------------------------------------ *)
Lemma c15_wstep_refused_value_ignored_lemma w req O loc :
  is_local_redirect (supplied_redir cfg req) = false ->
  redirects_to (snd (wstep C cfg w (AReq req) O)) loc ->
  In loc (fixed_targets cfg req) \/ route_extra cfg req (jar_get (q_browser req) (w_sess w)) loc.
Proof.
  intros Hn Hr. destruct (c15_wstep_redirects_local_lemma C cfg w req O loc Hr) as [H|[(_ & -> & Hl)|H]]; auto.
  rewrite Hl in Hn. discriminate Hn.
Qed.

Lemma c15_wstep_supplied_value_safe_lemma w req O loc :
  redirects_to (snd (wstep C cfg w (AReq req) O)) loc ->
  ~ In loc (fixed_targets cfg req) -> ~ route_extra cfg req (jar_get (q_browser req) (w_sess w)) loc ->
  honours_redir req = true /\ loc = supplied_redir cfg req /\ is_local_redirect loc = true /\
  same_site loc = true /\ same_site (hex_escape_non_ascii loc) = true /\ same_site (http_redirect_rewrite loc) = true.
Proof.
  intros Hr. apply c15_supplied_value_safe_lemma. exact (c15_wstep_redirects_local_lemma C cfg w req O loc Hr).
Qed.

(* every action: a redirect that is none of the configured targets *)
Lemma c15_wstep_any_action_supplied_value_safe_lemma w a O loc :
  redirects_to (snd (wstep C cfg w a O)) loc ->
  exists req, a = AReq req /\
    (In loc (fixed_targets cfg req) \/ route_extra cfg req (jar_get (q_browser req) (w_sess w)) loc \/
     (honours_redir req = true /\ loc = supplied_redir cfg req /\ is_local_redirect loc = true /\
      same_site loc = true /\ same_site (hex_escape_non_ascii loc) = true /\ same_site (http_redirect_rewrite loc) = true)).
Proof.
  intros Hr. destruct (c15_only_requests_redirect_w_lemma C cfg w a O loc Hr) as (req & -> & Ha).
  exists req. split; [reflexivity|]. destruct Ha as [H|[(Hh & He & Hl)|H]]; auto.
  right; right. repeat split; auto; apply (c15_safe_lemma loc Hl).
Qed.
End WX.
