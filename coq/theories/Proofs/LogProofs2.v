(* C17, log half, for the whole router.

   [lx P Q m]: a Hoare logic over the handler monad.  Under the invariant [xinv P] - the
   identifying fields (pid, e-mail, SMS number) of the context user and of EVERY stored record
   satisfy P - every argument of every line m logs satisfies P, the invariant is kept, and a
   successful result satisfies Q.  Proved for every primitive, every hook (hence Events.call over
   any hook list), every route handler, every middleware, the error handler and [serve].

   The final statement instantiates P with [allowed E h], a finite disjunction naming what a log
   line of the request may carry, for the state h the request started from. *)
From AB Require Import World.Handlers Proofs.EvLogic Proofs.Neutral Proofs.MonadInv Proofs.StoreLogic Proofs.LogProofs.
Open Scope Z_scope.

(* ---- finite-map facts ------------------------------------------------------------------ *)
Lemma ulookup_in2 k u l : ulookup k l = Some u -> In (k, u) l.
Proof.
  induction l as [|[k' u'] l IH]; simpl; [discriminate|]. destruct (beqb k k') eqn:Eb.
  - apply beqb_eq in Eb. subst. intros H; inversion H; subst. left; reflexivity.
  - intros H. right. auto.
Qed.
Lemma ufind_in2 f u l : ufind f l = Some u -> exists k, In (k, u) l.
Proof.
  induction l as [|[k' u'] l IH]; simpl; [discriminate|]. destruct (f u').
  - intros H; inversion H; subst. exists k'. left; reflexivity.
  - intros H. destruct (IH H) as (k & Hk). exists k. right. exact Hk.
Qed.
Lemma uput_in2 k u k' u' l : In (k', u') (uput k u l) -> (k', u') = (k, u) \/ In (k', u') l.
Proof.
  induction l as [|[k2 u2] l IH]; simpl.
  - intros [H|[]]. left. symmetry. exact H.
  - destruct (beqb k k2); simpl.
    + intros [H|H]; [left; symmetry; exact H|right; right; exact H].
    + intros [H|H]; [right; left; exact H|]. destruct (IH H); auto.
Qed.

Definition anyv {A} (a : A) : Prop := True.

Section LX.
Variable P : bytes -> Prop.

(* the fields of a user record that hooks and handlers log *)
Definition Qu (u : user) : Prop := P (u_pid u) /\ P (u_email u) /\ P (u_sms u).
Definition xinv (h : hst) : Prop :=
  (forall u, h_cuser h = Some u -> Qu u) /\ (forall k u, In (k, u) (s_users (h_st h)) -> Qu u).

Definition lx {A} (Q : A -> Prop) (m : M A) : Prop :=
  forall h r h', xinv h -> m h = (r, h') ->
    xinv h' /\ (forall a, r = Ok a -> Q a) /\ exists l, h_logs h' = h_logs h ++ l /\ lines_ok P l.

Lemma xinv_same h h' :
  h_cuser h' = h_cuser h -> s_users (h_st h') = s_users (h_st h) -> xinv h -> xinv h'.
Proof. intros A1 A2 [I1 I2]. split; [rewrite A1; exact I1|rewrite A2; exact I2]. Qed.

Lemma lx_post {A} (Q Q' : A -> Prop) (m : M A) : (forall a, Q a -> Q' a) -> lx Q m -> lx Q' m.
Proof.
  intros HQ Hm h r h' Hi Eq. destruct (Hm _ _ _ Hi Eq) as (I1 & R1 & L1). split; [exact I1|]. split; [|exact L1].
  intros a Ha. apply HQ. apply R1. exact Ha.
Qed.

Lemma lx_noop {A} (Q : A -> Prop) (m : M A) :
  (forall h r h', m h = (r, h') ->
     h_cuser h' = h_cuser h /\ s_users (h_st h') = s_users (h_st h) /\ h_logs h' = h_logs h) ->
  (forall a, Q a) -> lx Q m.
Proof.
  intros H HQ h r h' Hi Eq. destruct (H _ _ _ Eq) as (A1 & A2 & A3). split; [exact (xinv_same _ _ A1 A2 Hi)|].
  split; [intros a _; apply HQ|]. exists []. rewrite app_nil_r. split; [exact A3|constructor].
Qed.

Lemma lx_ret {A} (Q : A -> Prop) (a : A) : Q a -> lx Q (ret a).
Proof.
  intros HQ h r h' Hi Eq. inversion Eq; subst. split; [exact Hi|]. split.
  - intros a0 Ha. inversion Ha; subst. exact HQ.
  - exists []. rewrite app_nil_r. split; [reflexivity|constructor].
Qed.
Lemma lx_fail {A} (Q : A -> Prop) e : lx Q (@fail A e).
Proof.
  intros h r h' Hi Eq. inversion Eq; subst. split; [exact Hi|]. split; [intros a Ha; discriminate Ha|].
  exists []. rewrite app_nil_r. split; [reflexivity|constructor].
Qed.
Lemma lx_panic {A} (Q : A -> Prop) : lx Q (@panic A).
Proof.
  intros h r h' Hi Eq. inversion Eq; subst. split; [exact Hi|]. split; [intros a Ha; discriminate Ha|].
  exists []. rewrite app_nil_r. split; [reflexivity|constructor].
Qed.

Lemma lx_bind {A B} (Q : A -> Prop) (Q' : B -> Prop) (m : M A) (f : A -> M B) :
  lx Q m -> (forall a, Q a -> lx Q' (f a)) -> lx Q' (bind m f).
Proof.
  intros Hm Hf h r h' Hi Eq. destruct (bind_inv _ _ _ _ _ Eq) as [(a & h1 & E1 & E2)|[(e & E1 & ->)|(E1 & ->)]].
  - destruct (Hm _ _ _ Hi E1) as (I1 & R1 & l1 & L1 & F1).
    destruct (Hf a (R1 a eq_refl) _ _ _ I1 E2) as (I2 & R2 & l2 & L2 & F2).
    split; [exact I2|]. split; [exact R2|]. exists (l1 ++ l2). rewrite L2, L1, app_assoc.
    split; [reflexivity|apply Forall_app; auto].
  - destruct (Hm _ _ _ Hi E1) as (I1 & R1 & L1). split; [exact I1|]. split; [intros a Ha; discriminate Ha|exact L1].
  - destruct (Hm _ _ _ Hi E1) as (I1 & R1 & L1). split; [exact I1|]. split; [intros a Ha; discriminate Ha|exact L1].
Qed.

Lemma lx_try {A B} (Q : A -> Prop) (Q' : B -> Prop) (m : M A) (f : res A -> M B) :
  lx Q m -> (forall a, Q a -> lx Q' (f (Ok a))) -> (forall e, lx Q' (f (Err e))) -> lx Q' (try m f).
Proof.
  intros Hm Hok Herr h r h' Hi Eq. destruct (try_inv _ _ _ _ _ Eq) as [(x & h1 & E1 & NP & E2)|(E1 & ->)].
  - destruct (Hm _ _ _ Hi E1) as (I1 & R1 & l1 & L1 & F1).
    assert (Hx : lx Q' (f x)).
    { destruct x as [a|e|]; [apply Hok; apply R1; reflexivity|apply Herr|congruence]. }
    destruct (Hx _ _ _ I1 E2) as (I2 & R2 & l2 & L2 & F2).
    split; [exact I2|]. split; [exact R2|]. exists (l1 ++ l2). rewrite L2, L1, app_assoc.
    split; [reflexivity|apply Forall_app; auto].
  - destruct (Hm _ _ _ Hi E1) as (I1 & R1 & L1). split; [exact I1|]. split; [intros a Ha; discriminate Ha|exact L1].
Qed.

(* reading the state: the continuation may use the invariant on what it read *)
Lemma lx_get_h_bind {B} (Q : B -> Prop) (f : hst -> M B) :
  (forall h0, xinv h0 -> lx Q (f h0)) -> lx Q (bind get_h f).
Proof. intros Hf h r h' Hi Eq. unfold bind, get_h in Eq. eapply Hf; eauto. Qed.
Lemma lx_get_h (Q : hst -> Prop) : (forall h, Q h) -> lx Q get_h.
Proof. intros HQ. apply lx_noop; [|exact HQ]. intros h r h' Eq. inversion Eq; auto. Qed.

Lemma lx_state {A} (Q : A -> Prop) (m : M A) :
  (forall h, h_cuser (snd (m h)) = h_cuser h /\ s_users (h_st (snd (m h))) = s_users (h_st h) /\
             h_logs (snd (m h)) = h_logs h) ->
  (forall a, Q a) -> lx Q m.
Proof. intros H HQ. apply lx_noop; [|exact HQ]. intros h r h' Eq. specialize (H h). rewrite Eq in H. exact H. Qed.
Lemma lx_modify (Q : unit -> Prop) f :
  (forall h, h_cuser (f h) = h_cuser h /\ s_users (h_st (f h)) = s_users (h_st h) /\ h_logs (f h) = h_logs h) ->
  Q tt -> lx Q (modify f).
Proof. intros H HQ. apply lx_state; [|intros []; exact HQ]. intros h. simpl. apply H. Qed.
Lemma lx_write_resp (Q : unit -> Prop) x : Q tt -> lx Q (write_resp x).
Proof. intros HQ. apply lx_modify; [|exact HQ]. intros h. destruct (h_out h); auto. Qed.
Lemma lx_fresh (Q : bytes -> Prop) n : (forall b, Q b) -> lx Q (fresh n).
Proof. intros HQ. apply lx_state; [|exact HQ]. intros h. unfold fresh. destruct (take_chunk n (h_fresh h)) as [[c t]|]; auto. Qed.

Lemma lx_backend O {A} (Q : A -> Prop) k (body : M A) : lx Q body -> lx Q (backend O k body).
Proof.
  intros Hb h r h' Hi Eq. unfold backend in Eq.
  destruct (fault_at (h_ncalls h) (o_faults O)) as [[|]|].
  - inversion Eq; subst. split; [apply (xinv_same h); auto|]. split; [intros a Ha; discriminate Ha|].
    exists []. rewrite app_nil_r. split; [reflexivity|constructor].
  - inversion Eq; subst. split; [apply (xinv_same h); auto|]. split; [intros a Ha; discriminate Ha|].
    exists []. rewrite app_nil_r. split; [reflexivity|constructor].
  - eapply Hb in Eq; [|apply (xinv_same h); auto]. exact Eq.
Qed.

(* the primitives that matter *)
Lemma lx_log (Q : unit -> Prop) args : Forall P args -> Q tt -> lx Q (log args).
Proof.
  intros Ha HQ h r h' Hi Eq. inversion Eq; subst. split; [apply (xinv_same h); auto|].
  split; [intros [] _; exact HQ|]. exists [args]. split; [reflexivity|]. constructor; [exact Ha|constructor].
Qed.
Lemma lx_set_cuser (Q : unit -> Prop) u : Qu u -> Q tt -> lx Q (set_cuser u).
Proof.
  intros Hu HQ h r h' [I1 I2] Eq. inversion Eq; subst. split.
  - split; [|exact I2]. intros u0 H0. simpl in H0. inversion H0; subst. exact Hu.
  - split; [intros [] _; exact HQ|]. exists []. rewrite app_nil_r. split; [reflexivity|constructor].
Qed.

(* storage *)
Lemma lx_st_load O pid : lx Qu (st_load O pid).
Proof.
  unfold st_load. apply lx_backend. intros h r h' Hi Eq.
  destruct (ulookup pid (s_users (h_st h))) as [u|] eqn:L; inversion Eq; subst.
  - split; [exact Hi|]. split.
    + intros a Ha. inversion Ha; subst. apply ulookup_in2 in L. exact (proj2 Hi _ _ L).
    + exists []. rewrite app_nil_r. split; [reflexivity|constructor].
  - split; [exact Hi|]. split; [intros a Ha; discriminate Ha|].
    exists []. rewrite app_nil_r. split; [reflexivity|constructor].
Qed.
Lemma lx_save_body (Q : unit -> Prop) u : Qu u -> Q tt ->
  lx Q (modify (fun h => h <| h_st := h_st h <| s_users := uput (u_pid u) u (s_users (h_st h)) |> |>)).
Proof.
  intros Hu HQ h r h' [I1 I2] Eq. inversion Eq; subst. split.
  - split; [exact I1|]. intros k v Hin. simpl in Hin. apply uput_in2 in Hin as [Hin|Hin].
    + inversion Hin; subst. exact Hu.
    + exact (I2 _ _ Hin).
  - split; [intros [] _; exact HQ|]. exists []. rewrite app_nil_r. split; [reflexivity|constructor].
Qed.
Lemma lx_st_save O (Q : unit -> Prop) u : Qu u -> Q tt -> lx Q (st_save O u).
Proof. intros Hu HQ. unfold st_save. apply lx_backend. apply lx_save_body; assumption. Qed.
Lemma lx_st_create O (Q : unit -> Prop) u : Qu u -> Q tt -> lx Q (st_create O u).
Proof.
  intros Hu HQ. unfold st_create. apply lx_backend. intros h r h' [I1 I2] Eq.
  destruct (ulookup (u_pid u) (s_users (h_st h))); inversion Eq; subst.
  - split; [split; assumption|]. split; [intros a Ha; discriminate Ha|].
    exists []. rewrite app_nil_r. split; [reflexivity|constructor].
  - split.
    + split; [exact I1|]. intros k v Hin. simpl in Hin. apply in_app_or in Hin as [Hin|[Hin|[]]].
      * exact (I2 _ _ Hin).
      * inversion Hin; subst. exact Hu.
    + split; [intros [] _; exact HQ|]. exists []. rewrite app_nil_r. split; [reflexivity|constructor].
Qed.
Lemma lx_st_add_rm O (Q : unit -> Prop) p t : Q tt -> lx Q (st_add_rm O p t).
Proof. intros HQ. unfold st_add_rm. apply lx_backend. apply lx_modify; [|exact HQ]. intros h. auto. Qed.
Lemma lx_st_del_rm O (Q : unit -> Prop) p : Q tt -> lx Q (st_del_rm O p).
Proof. intros HQ. unfold st_del_rm. apply lx_backend. apply lx_modify; [|exact HQ]. intros h. auto. Qed.
Lemma lx_st_use_rm O (Q : unit -> Prop) p t : Q tt -> lx Q (st_use_rm O p t).
Proof.
  intros HQ. unfold st_use_rm. apply lx_backend. apply lx_state; [|intros []; exact HQ].
  intros h. cbv zeta. destruct (bmem t (rmlookup p (s_rm (h_st h)))); auto.
Qed.
(* NewFromOAuth2-style lookup: the stored record, or a default *)
Lemma lx_lookup_or pid d : Qu d ->
  lx Qu (fun h => match ulookup pid (s_users (h_st h)) with Some u => (Ok u, h) | None => (Ok d, h) end).
Proof.
  intros Hd h r h' Hi Eq. destruct (ulookup pid (s_users (h_st h))) as [u|] eqn:L; inversion Eq; subst.
  - split; [exact Hi|]. split.
    + intros a Ha. inversion Ha; subst. apply ulookup_in2 in L. exact (proj2 Hi _ _ L).
    + exists []. rewrite app_nil_r. split; [reflexivity|constructor].
  - split; [exact Hi|]. split; [intros a Ha; inversion Ha; subst; exact Hd|].
    exists []. rewrite app_nil_r. split; [reflexivity|constructor].
Qed.
End LX.

(* ---- syntax-directed prover --------------------------------------------------------------- *)
(* derived operations, down to primitives; [current_user], [load_current_user], [send_code_to_user],
   [fire] and the validators are used through their lemmas *)
Ltac unfold_derived2 :=
  unfold respond, render, redirect, ro_plain, ro_ok, ro_fail, ro_follow_redir, current_user_id,
         store_back, generate_token, send_mail, rm_generate,
         bcrypt_codes, generate_recovery_codes.

Ltac lx_cuser_fact Hd :=
  try match type of Hd with
      | h_cuser ?h = Some ?u =>
          match goal with Hx : xinv _ h |- _ => pose proof (proj1 Hx _ Hd) end
      end.

Ltac lx_prim :=
  match goal with
  | |- lx _ _ (ret _) => apply lx_ret
  | |- lx _ _ (fail _) => apply lx_fail
  | |- lx _ _ panic => apply lx_panic
  | |- lx _ _ (log _) => apply lx_log
  | |- lx _ _ (set_cuser _) => apply lx_set_cuser
  | |- lx _ _ (write_resp _) => apply lx_write_resp
  | |- lx _ _ (fresh _) => apply lx_fresh
  | |- lx _ _ (st_load _ _) => apply lx_st_load
  | |- lx _ _ (st_save _ _) => apply lx_st_save
  | |- lx _ _ (st_create _ _) => apply lx_st_create
  | |- lx _ _ (st_add_rm _ _ _) => apply lx_st_add_rm
  | |- lx _ _ (st_del_rm _ _) => apply lx_st_del_rm
  | |- lx _ _ (st_use_rm _ _ _) => apply lx_st_use_rm
  | |- lx _ _ (backend _ _ _) => apply lx_backend
  | |- lx _ _ (put_session _ _) => apply lx_modify; [intros; auto|]
  | |- lx _ _ (del_session _) => apply lx_modify; [intros; auto|]
  | |- lx _ _ (delall_session _) => apply lx_modify; [intros; auto|]
  | |- lx _ _ (put_cookie _ _) => apply lx_modify; [intros; auto|]
  | |- lx _ _ (del_cookie _) => apply lx_modify; [intros; auto|]
  | |- lx _ _ (set_cpid _) => apply lx_modify; [intros; auto|]
  | |- lx _ _ (modify _) => apply lx_modify; [intros; simpl; auto|]
  end.

Ltac lx_side :=
  repeat match goal with H : Qu _ _ |- _ => destruct H as (? & ? & ?) end;
  repeat match goal with
  | |- Forall _ [] => apply Forall_nil
  | |- Forall _ (_ :: _) => apply Forall_cons
  | |- Qu _ _ => split; [|split]
  | |- anyv _ => exact I
  | |- True => exact I
  | |- forall _, _ => intro
  end; try assumption.

Lemma lx_read_values_bind P E {B} (Q : B -> Prop) (f : amap -> M B) :
  lx P Q (f (values E)) -> lx P Q (bind (read_values E) f).
Proof.
  intros Hf h r h' Hi Eq. destruct (bind_inv _ _ _ _ _ Eq) as [(a & h1 & E1 & E2)|[(e & E1 & ->)|(E1 & ->)]].
  - apply read_values_spec in E1 as [-> [Hv|Hv]]; [|discriminate Hv]. inversion Hv; subst a. exact (Hf _ _ _ Hi E2).
  - apply read_values_spec in E1 as [-> _]. split; [exact Hi|]. split; [intros a Ha; discriminate Ha|].
    exists []. rewrite app_nil_r. split; [reflexivity|constructor].
  - apply read_values_spec in E1 as [-> _]. split; [exact Hi|]. split; [intros a Ha; discriminate Ha|].
    exists []. rewrite app_nil_r. split; [reflexivity|constructor].
Qed.

(* structural steps; [ext] handles the computations known by a lemma *)
Ltac lx_step ext :=
  match goal with
  | |- lx _ _ (bind get_h _) =>
      let h0 := fresh "h0" in let Hx := fresh "Hx" in apply lx_get_h_bind; intros h0 Hx
  | |- lx _ _ (bind (read_values _) _) => apply lx_read_values_bind
  | |- lx _ _ (bind (st_load _ _) _) =>
      let u := fresh "u" in let Hq := fresh "Hq" in
      eapply lx_bind; [apply lx_st_load | intros u Hq]
  | |- lx _ _ (try (st_load _ _) _) =>
      let u := fresh "u" in let Hq := fresh "Hq" in
      eapply lx_try; [apply lx_st_load | intros u Hq | intros ?]
  | |- _ => ext
  | |- lx _ _ (bind _ _) => eapply (lx_bind _ anyv); [|intros ? _]
  | |- lx _ _ (try _ _) => eapply (lx_try _ anyv); [|intros ? _|intros ?]
  | |- lx _ _ (if ?c then _ else _) => destruct c eqn:?
  | |- lx _ _ (match ?x with _ => _ end) => let Hd := fresh "Hd" in destruct x eqn:Hd; lx_cuser_fact Hd
  | |- lx _ _ (let '(_, _) := ?x in _) => destruct x eqn:?
  | |- _ => lx_prim
  end.

Ltac lx_noext := fail.
Ltac lx_go0 := repeat (unfold_derived2; cbn beta iota zeta; lx_step lx_noext).

Section CU.
Variable P : bytes -> Prop.
Variable E : env.

Lemma lx_current_user : lx P (fun p => Qu P (fst p)) (current_user E).
Proof. unfold current_user. lx_go0; lx_side. Qed.

Lemma lx_load_current_user : lx P (Qu P) (load_current_user E).
Proof. unfold load_current_user. lx_go0; lx_side. Qed.

Lemma lx_send_code pid number : P pid -> P number -> lx P anyv (send_code_to_user E pid number).
Proof. intros Hp Hn. unfold send_code_to_user. lx_go0; lx_side. Qed.
End CU.

Ltac lx_ext1 :=
  idtac; match goal with
  | |- lx _ _ (bind (current_user _) _) =>
      let u := fresh "u" in let sh := fresh "sh" in let Hq := fresh "Hq" in
      eapply lx_bind; [apply lx_current_user | intros [u sh] Hq; cbn [fst] in Hq]
  | |- lx _ _ (try (current_user _) _) =>
      let u := fresh "u" in let sh := fresh "sh" in let Hq := fresh "Hq" in
      eapply lx_try; [apply lx_current_user | intros [u sh] Hq; cbn [fst] in Hq | intros ?]
  | |- lx _ _ (try (load_current_user _) _) =>
      let u := fresh "u" in let Hq := fresh "Hq" in
      eapply lx_try; [apply lx_load_current_user | intros u Hq | intros ?]
  | |- lx _ _ (send_code_to_user _ _ _) => apply lx_send_code
  end.

Ltac lx_go1 := repeat (unfold_derived2; cbn beta iota zeta; lx_step lx_ext1).

Section HK.
Variable P : bytes -> Prop.
Variable E : env.

Lemma lx_hook hk rm hd : lx P anyv (run_hook E hk rm hd).
Proof. destruct hk; unfold run_hook, update_locked_state; lx_go1; lx_side. Qed.

Lemma lx_call hs : forall rm hd, lx P anyv (call E hs rm hd).
Proof.
  induction hs as [|hk hs IH]; intros rm hd; simpl.
  - apply lx_ret. exact I.
  - eapply lx_bind; [apply lx_hook|intros; apply IH].
Qed.
Lemma lx_fire e rm : lx P anyv (fire E e rm).
Proof. unfold fire. apply lx_call. Qed.
End HK.

Ltac lx_ext2 :=
  idtac; match goal with
  | |- lx _ _ (fire _ _ _) => apply lx_fire
  | |- _ => lx_ext1
  end.
Ltac lx_go2 := repeat (unfold_derived2; cbn beta iota zeta; lx_step lx_ext2).

(* the registration whitelist keeps a submitted value or nothing *)
Lemma aget_filter_map k wl (g : bytes -> bytes) ks :
  aget k (filter (fun kv : bytes * bytes => bmem (fst kv) wl) (map (fun k => (k, g k)) ks)) = g k \/
  aget k (filter (fun kv : bytes * bytes => bmem (fst kv) wl) (map (fun k => (k, g k)) ks)) = [].
Proof.
  induction ks as [|a ks IH]; [right; reflexivity|]. cbn [map filter fst].
  destruct (bmem a wl); [|exact IH]. unfold aget in *. cbn [alookup].
  destruct (beqb k a) eqn:Eb; [|exact IH]. apply beqb_eq in Eb. subst a. left. reflexivity.
Qed.
Lemma aget_arbitrary k vals : aget k (arbitrary_of vals) = aget k vals \/ aget k (arbitrary_of vals) = [].
Proof. unfold arbitrary_of. apply (aget_filter_map k whitelist_register (fun k => aget k vals)). Qed.

(* what the handlers of a request need of P *)
Record pok (E : env) (P : bytes -> Prop) : Prop := mkPok {
  pok_nil : P [];
  pok_path : P (q_path (e_req E));
  pok_pid : P (aget (pid_field E) (values E));
  pok_email : P (aget f_email (values E));
  pok_phone : P (aget f_phone (values E));
  pok_smsnum : forall n, alookup k_sms_number (e_sess E) = Some n -> P n
}.

(* ---- middlewares: only the path ---------------------------------------------------------- *)
Section MW.
Variable P : bytes -> Prop.
Variable E : env.
Hypothesis P_path : P (q_path (e_req E)).

Lemma lx_mw_fail mp fr : lx P anyv (mw_fail E mp fr).
Proof. unfold mw_fail. lx_go2; lx_side. Qed.
Lemma lx_auth_middleware mp full tf fr : lx P anyv (auth_middleware E mp full tf fr).
Proof. unfold auth_middleware, mw_fail. lx_go2; lx_side. Qed.
Lemma lx_lock_mw : lx P anyv (lock_mw E).
Proof. unfold lock_mw. lx_go2; lx_side. Qed.
Lemma lx_confirm_mw : lx P anyv (confirm_mw E).
Proof. unfold confirm_mw. lx_go2; lx_side. Qed.
Lemma lx_remember_mw : lx P anyv (remember_mw E).
Proof. unfold remember_mw, remember_authenticate. lx_go2; lx_side. Qed.
Lemma lx_app_handler : lx P anyv (app_handler E).
Proof. unfold app_handler. lx_go2; lx_side. Qed.
Lemma lx_email_verify_wrap k : lx P anyv (email_verify_wrap E k).
Proof. unfold email_verify_wrap. lx_go2; lx_side. Qed.
End MW.

(* ---- route handlers ---------------------------------------------------------------------- *)
Section HD.
Variable P : bytes -> Prop.
Variable E : env.
Hypothesis PK : pok E P.

Let P_nil : P [] := pok_nil _ _ PK.
Let P_path : P (q_path (e_req E)) := pok_path _ _ PK.
Let P_pid : P (aget (pid_field E) (values E)) := pok_pid _ _ PK.
Let P_email : P (aget f_email (values E)) := pok_email _ _ PK.
Let P_phone : P (aget f_phone (values E)) := pok_phone _ _ PK.

Ltac side := lx_side; try (apply (pok_smsnum _ _ PK); assumption).

Lemma lx_totp_validate : lx P (fun r => Qu P (fst (fst r))) (totp_validate E).
Proof.
  unfold totp_validate. eapply (lx_bind _ (fun p => Qu P (fst p))).
  - lx_go2; cbn beta; side.
  - intros [u sh] Hq. cbn [fst] in Hq. lx_go2; cbn beta; side.
Qed.

Lemma lx_sms_send_code p u : Qu P u -> lx P anyv (sms_send_code E p u).
Proof.
  intros Hq. unfold sms_send_code. eapply (lx_bind _ P).
  - destruct p; lx_go2; cbn beta; side.
  - intros phone Hp. lx_go2; side.
Qed.

Lemma lx_sms_validate_code p u sh input rc : Qu P u -> lx P anyv (sms_validate_code E p u sh input rc).
Proof.
  intros Hq. unfold sms_validate_code. eapply (lx_bind _ (fun vu => Qu P (snd vu))).
  - lx_go2; cbn beta; side.
  - intros [verified u'] Hq'. cbn [snd] in Hq'. lx_go2; side.
Qed.

Ltac lx_ext3 :=
  idtac; match goal with
  | |- lx _ _ (bind (totp_validate _) _) =>
      let u := fresh "u" in let sh := fresh "sh" in let st := fresh "st" in let Hq := fresh "Hq" in
      eapply lx_bind; [apply lx_totp_validate | intros [[u sh] st] Hq; cbn [fst] in Hq]
  | |- lx _ _ (sms_send_code _ _ _) => apply lx_sms_send_code
  | |- lx _ _ (sms_validate_code _ _ _ _ _ _) => apply lx_sms_validate_code
  | |- lx ?P0 _ (bind (try (backend _ KNewOAuth2 _) _) _) =>
      let u := fresh "u" in let Hq := fresh "Hq" in let u0 := fresh "u0" in let Hq0 := fresh "Hq0" in
      eapply (lx_bind _ (Qu P0));
      [eapply lx_try; [apply lx_backend; apply lx_lookup_or | intros u Hq | intros ?] | intros u0 Hq0]
  | |- lx _ _ (modify _) => apply lx_save_body
  | |- _ => lx_ext2
  end.
Ltac go := repeat (unfold_derived2; cbn beta iota zeta; lx_step lx_ext3); cbn beta; side.

Lemma lx_login_get : lx P anyv (login_get E). Proof. unfold login_get. go. Qed.
Lemma lx_login_post : lx P anyv (login_post E). Proof. unfold login_post. go. Qed.
Lemma lx_otp_login_get : lx P anyv (otp_login_get E). Proof. unfold otp_login_get. go. Qed.
Lemma lx_otp_login_post : lx P anyv (otp_login_post E). Proof. unfold otp_login_post. go. Qed.
Lemma lx_otp_show pg : lx P anyv (otp_show E pg). Proof. unfold otp_show. go. Qed.
Lemma lx_otp_add_post : lx P anyv (otp_add_post E). Proof. unfold otp_add_post. go. Qed.
Lemma lx_otp_clear_post : lx P anyv (otp_clear_post E). Proof. unfold otp_clear_post. go. Qed.
Lemma lx_resp0 pg : lx P anyv (resp0 E pg). Proof. unfold resp0. go. Qed.

Lemma lx_register_post : lx P anyv (register_post E).
Proof.
  assert (He : P (if c_username (e_cfg E) then aget f_email (arbitrary_of (values E))
                  else aget (pid_field E) (values E))).
  { destruct (c_username (e_cfg E)); [|exact P_pid].
    destruct (aget_arbitrary f_email (values E)) as [-> | ->]; assumption. }
  unfold register_post. go.
Qed.

Lemma lx_recover_start_post : lx P anyv (recover_start_post E). Proof. unfold recover_start_post. go. Qed.
Lemma lx_recover_end_get : lx P anyv (recover_end_get E). Proof. unfold recover_end_get. go. Qed.
Lemma lx_logout : lx P anyv (logout E). Proof. unfold logout. go. Qed.

Lemma lx_recovery_regen_get : lx P anyv (recovery_regen_get E). Proof. unfold recovery_regen_get. go. Qed.
Lemma lx_recovery_regen_post : lx P anyv (recovery_regen_post E). Proof. unfold recovery_regen_post. go. Qed.
Lemma lx_email_verify_get k : lx P anyv (email_verify_get E k). Proof. unfold email_verify_get. go. Qed.
Lemma lx_email_verify_post k : lx P anyv (email_verify_post E k). Proof. unfold email_verify_post. go. Qed.
Lemma lx_email_verify_end k : lx P anyv (email_verify_end E k). Proof. unfold email_verify_end. go. Qed.

Lemma lx_totp_setup_get : lx P anyv (totp_setup_get E). Proof. unfold totp_setup_get. go. Qed.
Lemma lx_totp_setup_post : lx P anyv (totp_setup_post E). Proof. unfold totp_setup_post. go. Qed.
Lemma lx_totp_confirm_get : lx P anyv (totp_confirm_get E). Proof. unfold totp_confirm_get. go. Qed.
Lemma lx_totp_confirm_post : lx P anyv (totp_confirm_post E). Proof. unfold totp_confirm_post. go. Qed.
Lemma lx_totp_remove_post : lx P anyv (totp_remove_post E). Proof. unfold totp_remove_post. go. Qed.
Lemma lx_totp_validate_post : lx P anyv (totp_validate_post E). Proof. unfold totp_validate_post. go. Qed.
Lemma lx_totp_qr : lx P anyv (totp_qr E). Proof. unfold totp_qr. go. Qed.

Lemma lx_sms_setup_get : lx P anyv (sms_setup_get E). Proof. unfold sms_setup_get. go. Qed.
Lemma lx_sms_setup_post : lx P anyv (sms_setup_post E). Proof. unfold sms_setup_post. go. Qed.
Lemma lx_sms_validator_post p : lx P anyv (sms_validator_post E p).
Proof.
  unfold sms_validator_post. eapply (lx_bind _ (fun p => Qu P (fst p))).
  - go.
  - intros [u sh] Hq. cbn [fst] in Hq. go.
Qed.

Lemma lx_oauth2_start prov : P prov -> lx P anyv (oauth2_start E prov).
Proof. intros Hp. unfold oauth2_start. go. Qed.
Lemma lx_oauth2_end prov :
  P prov -> P (form_value E f_error) -> P (form_value E f_error_reason) ->
  P (make_oauth2_pid prov (pa_uid (o_provider (e_O E)))) -> P (pa_email (o_provider (e_O E))) ->
  lx P anyv (oauth2_end E prov).
Proof. intros Hp He1 He2 Hpid Hem. unfold oauth2_end. go. Qed.

(* wrappers *)
Lemma lx_behind full hd : lx P anyv hd -> lx P anyv (behind E full hd).
Proof.
  intros Hh. unfold behind. eapply (lx_bind _ anyv); [apply lx_auth_middleware; exact P_path|].
  intros ok _. destruct ok; [exact Hh|apply lx_ret; exact I].
Qed.
Lemma lx_verified k hd : lx P anyv hd -> lx P anyv (verified E k hd).
Proof.
  intros Hh. unfold verified. apply lx_behind. eapply (lx_bind _ anyv); [apply lx_email_verify_wrap|].
  intros ok _. destruct ok; [exact Hh|apply lx_ret; exact I].
Qed.
Lemma lx_with_error_handler hd : lx P anyv hd -> lx P anyv (with_error_handler E hd).
Proof. intros Hh. unfold with_error_handler. go. Qed.

Lemma lx_app_stack full tf fr l c r e : lx P anyv (app_stack E full tf fr l c r e).
Proof.
  unfold app_stack. eapply (lx_bind _ anyv).
  { destruct e; [unfold expire_mw|]; go. }
  intros sess _. cbv zeta.
  eapply (lx_bind _ anyv).
  { destruct r; [|apply lx_ret; exact I]. eapply (lx_bind _ anyv); [apply lx_remember_mw|].
    intros _ _. unfold remembered_view. apply lx_get_h_bind. intros h0 _. destruct (h_cpid h0); apply lx_ret; exact I. }
  intros sess2 _. eapply (lx_bind _ anyv). { apply lx_auth_middleware. exact P_path. }
  intros ok _. destruct ok; [|apply lx_ret; exact I]. cbn [negb].
  eapply (lx_bind _ anyv). { destruct l; [apply lx_lock_mw; exact P_path|apply lx_ret; exact I]. }
  intros ok _. destruct ok; [|apply lx_ret; exact I]. cbn [negb].
  eapply (lx_bind _ anyv). { destruct c; [apply lx_confirm_mw; exact P_path|apply lx_ret; exact I]. }
  intros ok _. destruct ok; [|apply lx_ret; exact I]. cbn [negb].
  apply lx_app_handler.
Qed.
End HD.

(* ---- what a log line of one request may carry -------------------------------------------- *)
(* a record the request could see when it started: the context user or any stored record *)
Definition known_user (h : hst) (u : user) : Prop :=
  h_cuser h = Some u \/ exists k, In (k, u) (s_users (h_st h)).

Definition allowed (E : env) (h : hst) (a : bytes) : Prop :=
  (* the empty string *)
  a = [] \/
  (* the request line: URL path (no query string), OAuth2 provider name of the route *)
  a = q_path (e_req E) \/
  q_route (e_req E) = ROAuthStart a \/
  q_route (e_req E) = ROAuthCallback a \/
  (* submitted identifiers: account id, e-mail address, phone number to enrol *)
  a = aget (pid_field E) (values E) \/
  a = aget f_email (values E) \/
  a = aget f_phone (values E) \/
  (* the phone number pending enrolment in the session *)
  alookup k_sms_number (e_sess E) = Some a \/
  (* OAuth2 callback: the provider's error / error_reason parameters, the account id made of
     provider name and provider-side uid, the e-mail address the provider reports *)
  a = form_value E f_error \/
  a = form_value E f_error_reason \/
  (exists p, q_route (e_req E) = ROAuthCallback p /\ a = make_oauth2_pid p (pa_uid (o_provider (e_O E)))) \/
  a = pa_email (o_provider (e_O E)) \/
  (* the selector HASH computed from a submitted confirmation token *)
  (exists raw, b64url_dec (aget f_cnf (values E)) = Some raw /\ a = selector_of E raw) \/
  (* of a record known when the request started: pid, e-mail, SMS number, and the stored
     confirm / recover verifier HASHES *)
  (exists u, known_user h u /\
             (a = u_pid u \/ a = u_email u \/ a = u_sms u \/ a = u_cver u \/ a = u_rver u)).

Section SV.
Variable E : env.
Variable h : hst.
Notation P := (allowed E h).

Lemma allowed_known u f : known_user h u ->
  (f = u_pid u \/ f = u_email u \/ f = u_sms u \/ f = u_cver u \/ f = u_rver u) -> P f.
Proof. intros K Hf. unfold allowed. do 13 right. exists u. split; assumption. Qed.

Lemma allowed_prov_start p : q_route (e_req E) = ROAuthStart p -> P p.
Proof. intros H. unfold allowed. do 2 right. left. exact H. Qed.
Lemma allowed_prov_cb p : q_route (e_req E) = ROAuthCallback p -> P p.
Proof. intros H. unfold allowed. do 3 right. left. exact H. Qed.
Lemma allowed_err : P (form_value E f_error).
Proof. unfold allowed. do 8 right. left. reflexivity. Qed.
Lemma allowed_err_reason : P (form_value E f_error_reason).
Proof. unfold allowed. do 9 right. left. reflexivity. Qed.
Lemma allowed_opid p : q_route (e_req E) = ROAuthCallback p -> P (make_oauth2_pid p (pa_uid (o_provider (e_O E)))).
Proof. intros H. unfold allowed. do 10 right. left. exists p. split; [exact H|reflexivity]. Qed.
Lemma allowed_oemail : P (pa_email (o_provider (e_O E))).
Proof. unfold allowed. do 11 right. left. reflexivity. Qed.

Lemma allowed_pok : pok E P.
Proof.
  constructor; unfold allowed.
  - left. reflexivity.
  - do 1 right. left. reflexivity.
  - do 4 right. left. reflexivity.
  - do 5 right. left. reflexivity.
  - do 6 right. left. reflexivity.
  - intros n Hn. do 7 right. left. exact Hn.
Qed.

Lemma xinv_start : xinv P h.
Proof.
  split.
  - intros u Hu. assert (K : known_user h u) by (left; exact Hu).
    repeat split; apply (allowed_known u _ K); auto.
  - intros k u Hu. assert (K : known_user h u) by (right; exists k; exact Hu).
    repeat split; apply (allowed_known u _ K); auto.
Qed.

Lemma p_confirm_allowed a : p_confirm E (h_st h) a -> P a.
Proof.
  intros (raw & Dc & [->|(u & Fu & Hf)]).
  - unfold allowed. do 12 right. left. exists raw. split; [exact Dc|reflexivity].
  - apply ufind_in2 in Fu. apply (allowed_known u); [right; exact Fu|]. destruct Hf as [->| ->]; auto.
Qed.
Lemma p_recover_allowed a : p_recover E (h_st h) a -> P a.
Proof.
  intros (raw & u & Dc & Fu & Hf). apply ufind_in2 in Fu. apply (allowed_known u); [right; exact Fu|].
  destruct Hf as [->|[->|[->| ->]]]; auto.
Qed.

Lemma logged_weaken (P1 P2 : bytes -> Prop) {A} (m : M A) :
  (forall a, P1 a -> P2 a) -> logged P1 m h -> logged P2 m h.
Proof.
  intros HP Hm r h' Eq. destruct (Hm _ _ Eq) as (l & L & F). exists l. split; [exact L|].
  eapply Forall_impl; [|exact F]. intros x Hx. eapply Forall_impl; [|exact Hx]. exact HP.
Qed.

Lemma lx_logged {A} (Q : A -> Prop) (m : M A) : lx P Q m -> logged P m h.
Proof. intros Hm r h' Eq. destruct (Hm _ _ _ xinv_start Eq) as (_ & _ & L). exact L. Qed.

(* the error handler around a handler known only through its log lines *)
Lemma logged_with_error_handler hd : logged P hd h -> logged P (with_error_handler E hd) h.
Proof.
  intros Hh r h' Eq. unfold with_error_handler in Eq.
  destruct (try_inv _ _ _ _ _ Eq) as [(x & h1 & E1 & NP & E2)|(E1 & ->)].
  - destruct (Hh _ _ E1) as (l1 & L1 & F1).
    assert (Hk : lg IT P (match x with
                          | Ok a => ret a
                          | Err e => log [q_path (e_req E)] ;;;
                                     (if c_err_writes (e_cfg E) then write_resp (RespStatus 500) else ret tt) ;;; fail e
                          | Panic => panic end)).
    { pose proof (pok_path _ _ allowed_pok) as Pp. destruct x; lg_go; nil_side. }
    destruct (Hk _ _ _ Logic.I E2) as (_ & l2 & L2 & F2).
    exists (l1 ++ l2). rewrite L2, L1, app_assoc. split; [reflexivity|apply Forall_app; auto].
  - exact (Hh _ _ E1).
Qed.

Lemma route_logged hd : route_table E = Handler hd -> logged P hd h.
Proof.
  pose proof allowed_pok as PK.
  unfold route_table, when, get_post, on_method.
  destruct (q_route (e_req E)) eqn:Hr; destruct (q_meth (e_req E)) eqn:Hm; cbn beta iota;
    repeat match goal with |- (if ?c then _ else _) = Handler _ -> _ => destruct c end;
    intros RT; try discriminate RT; injection RT as <-;
    first
    [ apply (logged_weaken (p_confirm E (h_st h))); [exact p_confirm_allowed|apply confirm_get_logs]
    | apply (logged_weaken (p_recover E (h_st h))); [exact p_recover_allowed|apply recover_end_post_logs]
    | apply (lx_logged anyv);
      repeat first
        [ apply lx_verified | apply lx_behind | apply lx_app_stack
        | apply lx_login_get | apply lx_login_post | apply lx_otp_login_get | apply lx_otp_login_post
        | apply lx_otp_show | apply lx_otp_add_post | apply lx_otp_clear_post | apply lx_resp0
        | apply lx_register_post | apply lx_recover_start_post | apply lx_recover_end_get
        | apply lx_logout | apply lx_recovery_regen_get | apply lx_recovery_regen_post
        | apply lx_email_verify_get | apply lx_email_verify_post | apply lx_email_verify_end
        | apply lx_totp_setup_get | apply lx_totp_setup_post | apply lx_totp_confirm_get
        | apply lx_totp_confirm_post | apply lx_totp_remove_post | apply lx_totp_validate_post
        | apply lx_totp_qr | apply lx_sms_setup_get | apply lx_sms_setup_post | apply lx_sms_validator_post
        | apply lx_oauth2_start | apply lx_oauth2_end ];
      first [ exact PK
            | exact (allowed_prov_start _ Hr) | exact (allowed_prov_cb _ Hr)
            | exact allowed_err | exact allowed_err_reason
            | exact (allowed_opid _ Hr) | exact allowed_oemail ] ].
Qed.

Lemma serve_logged : logged P (serve E) h.
Proof.
  unfold serve. destruct (route_table E) as [hd| |] eqn:RT.
  - apply logged_with_error_handler. apply route_logged. exact RT.
  - apply (lx_logged anyv). apply lx_write_resp. exact I.
  - apply (lx_logged anyv). apply lx_write_resp. exact I.
Qed.
End SV.

(* ---- the statements ------------------------------------------------------------------------ *)
Lemma serve_logs_allowed : forall E h r h',
  serve E h = (r, h') ->
  exists l, h_logs h' = h_logs h ++ l /\ Forall (Forall (allowed E h)) l.
Proof. intros E h r h' Eq. exact (serve_logged E h r h' Eq). Qed.

(* a value that is not one of the allowed atoms is on no line the request logs *)
Lemma serve_secret_not_logged : forall E h r h' (s : bytes),
  ~ allowed E h s ->
  serve E h = (r, h') ->
  exists l, h_logs h' = h_logs h ++ l /\ forall line, In line l -> ~ In s line.
Proof.
  intros E h r h' s Ns Eq. destruct (serve_logs_allowed _ _ _ _ Eq) as (l & L & F).
  exists l. split; [exact L|]. intros line Hl Hs.
  rewrite Forall_forall in F. specialize (F _ Hl). rewrite Forall_forall in F. exact (Ns (F _ Hs)).
Qed.
