(* From single steps to whole histories: the step-level theorems of C01 (who can put a user
   identity into a stored session, who can take it out) and C10 (logout) lifted over [run] and
   [wrun] by induction on the history.

   Everything is proved once for an arbitrary step function [stp] (Section Generic) and then
   instantiated with [step C cfg] and [wstep C cfg]. *)
From AB Require Import World.Step World.Exec Proofs.EvLogic Proofs.Neutral Proofs.HandlerEvents Proofs.ServeEvents
  Proofs.StepUid Proofs.MonadInv Proofs.Guards Proofs.Guards2 Proofs.Guards3 Proofs.StepGuard Proofs.StepAll Proofs.StepLift2
  Proofs.Wrapped.
Open Scope Z_scope.

(* browser b's stored session names the user U *)
Definition names (b U : bytes) (w : world) : Prop := alookup k_uid (jar_get b (w_sess w)) = Some U.

Lemma names_dec b U w : {names b U w} + {~ names b U w}.
Proof.
  unfold names. destruct (alookup k_uid (jar_get b (w_sess w))) as [v|].
  - destruct (bytes_dec v U) as [->|N]; [left; reflexivity|right; congruence].
  - right. discriminate.
Qed.

(* ---- lists: the prefixes of l ++ [x] --------------------------------------------------------- *)
Lemma snoc_split {A} (l : list A) x l1 l2 :
  l ++ [x] = l1 ++ l2 -> (l2 = [] /\ l1 = l ++ [x]) \/ (exists l2', l2 = l2' ++ [x] /\ l = l1 ++ l2').
Proof.
  destruct l2 as [|y l2] using rev_ind.
  - rewrite app_nil_r. intros <-. left. auto.
  - clear IHl2. rewrite app_assoc. intros H. apply app_inj_tail in H as [H1 H2]. subst y.
    right. exists l2. auto.
Qed.

(* ================================================================================================ *)
Section Generic.
Variable stp : world -> action -> oracle -> world * obs.

(* the world after a history *)
Fixpoint grun (w : world) (l : list (action * oracle)) : world :=
  match l with [] => w | (a, orc) :: r => grun (fst (stp w a orc)) r end.

Lemma grun_app l1 : forall w l2, grun w (l1 ++ l2) = grun (grun w l1) l2.
Proof. induction l1 as [|[a O] l1 IH]; intros w l2; cbn [grun app]; [reflexivity|apply IH]. Qed.

Lemma grun_snoc l w a O : grun w (l ++ [(a, O)]) = fst (stp (grun w l) a O).
Proof. rewrite grun_app. reflexivity. Qed.

Lemma grun_mid l1 a O l2 w : grun w (l1 ++ (a, O) :: l2) = grun (fst (stp (grun w l1) a O)) l2.
Proof. rewrite grun_app. reflexivity. Qed.

(* ---- the last step at which a property of the world appeared ---------------------------------- *)
Section Last.
Variable P : world -> Prop.
Hypothesis P_dec : forall w, {P w} + {~ P w}.

Lemma last_appearance : forall l w0,
  P (grun w0 l) ->
  (forall l1 l2, l = l1 ++ l2 -> P (grun w0 l1)) \/
  (exists l1 a O l2, l = l1 ++ (a, O) :: l2 /\
     ~ P (grun w0 l1) /\ P (fst (stp (grun w0 l1) a O)) /\
     forall l2a l2b, l2 = l2a ++ l2b -> P (grun w0 (l1 ++ (a, O) :: l2a))).
Proof.
  induction l as [|[a O] l IH] using rev_ind; intros w0 H.
  - left. intros l1 l2 E. symmetry in E. apply app_eq_nil in E as [-> _]. exact H.
  - rewrite grun_snoc in H. destruct (P_dec (grun w0 l)) as [Y|N].
    + destruct (IH w0 Y) as [A|(l1 & a1 & O1 & l2 & E & N1 & Y1 & K)].
      * left. intros l1 l2 E. apply snoc_split in E as [[_ ->]|(l2' & _ & E)].
        -- rewrite grun_snoc. exact H.
        -- exact (A _ _ E).
      * right. exists l1, a1, O1, (l2 ++ [(a, O)]). split; [rewrite E, <- app_assoc; reflexivity|].
        split; [exact N1|]. split; [exact Y1|].
        intros l2a l2b E2. apply snoc_split in E2 as [[_ ->]|(l2' & _ & E2)].
        -- rewrite app_comm_cons, app_assoc, <- E, grun_snoc. exact H.
        -- exact (K _ _ E2).
    + right. exists l, a, O, []. split; [reflexivity|]. split; [exact N|]. split; [exact H|].
      intros l2a l2b E2. symmetry in E2. apply app_eq_nil in E2 as [-> _]. rewrite grun_snoc. exact H.
Qed.
End Last.

(* ---- invariants along a history ---------------------------------------------------------------- *)
(* a property that every step outside a class [bad] of actions preserves survives every history
   without such actions *)
Lemma grun_invariant (P : world -> Prop) (bad : action -> Prop) :
  (forall w a O, P w -> ~ bad a -> P (fst (stp w a O))) ->
  forall l w, P w -> Forall (fun ao => ~ bad (fst ao)) l -> P (grun w l).
Proof.
  intros HS. induction l as [|[a O] l IH]; intros w Hw F; cbn [grun]; [exact Hw|].
  inversion F; subst. apply IH; [|assumption]. apply HS; assumption.
Qed.

(* the same with a class of steps that may look at the world the step starts from *)
Lemma grun_invariant_sem (P : world -> Prop) (bad : world -> action -> oracle -> Prop) :
  (forall w a O, P w -> ~ bad w a O -> P (fst (stp w a O))) ->
  forall l w, P w ->
    (forall p a O s, l = p ++ (a, O) :: s -> ~ bad (grun w p) a O) -> P (grun w l).
Proof.
  intros HS. induction l as [|[a O] l IH]; intros w Hw F; cbn [grun]; [exact Hw|].
  apply IH.
  - apply HS; [exact Hw|]. exact (F [] a O l eq_refl).
  - intros p a' O' s E. exact (F ((a, O) :: p) a' O' s (f_equal (cons (a, O)) E)).
Qed.
End Generic.

(* [run] and [wrun] are [grun] of [step] and [wstep] *)
Lemma run_grun C cfg : forall l w, fst (run C cfg w l) = grun (step C cfg) w l.
Proof.
  induction l as [|[a O] l IH]; intros w; cbn [run grun]; [reflexivity|].
  destruct (step C cfg w a O) as [w1 o1]. specialize (IH w1). destruct (run C cfg w1 l) as [w2 os]. exact IH.
Qed.
Lemma wrun_grun C cfg : forall l w, fst (wrun C cfg w l) = grun (wstep C cfg) w l.
Proof.
  induction l as [|[a O] l IH]; intros w; cbn [wrun grun]; [reflexivity|].
  destruct (wstep C cfg w a O) as [w1 o1]. specialize (IH w1). destruct (wrun C cfg w1 l) as [w2 os]. exact IH.
Qed.

Lemma run_app_fst C cfg l1 l2 w : fst (run C cfg w (l1 ++ l2)) = fst (run C cfg (fst (run C cfg w l1)) l2).
Proof. rewrite !run_grun. apply grun_app. Qed.
Lemma wrun_app_fst C cfg l1 l2 w : fst (wrun C cfg w (l1 ++ l2)) = fst (wrun C cfg (fst (wrun C cfg w l1)) l2).
Proof. rewrite !wrun_grun. apply grun_app. Qed.

(* ================================================================================================ *)
(* C01, part 1: provenance of an identity                                                           *)
(* ================================================================================================ *)

(* the step (a, O) taken from world w can have put the identity U into browser b's session: the
   conclusion of the step theorem c01_session_only_against_credential *)
Definition issued_at (C : crypto) (cfg : config) (w : world) (a : action) (O : oracle) (b U : bytes) : Prop :=
  (exists req, a = AReq req /\ q_browser req = b /\ credential_shown C cfg w O req U) \/
  a = APlant b k_uid U \/
  (exists j, a = ASetJar false b j /\ alookup k_uid j = Some U).

(* the same for the router behind the global remember wrapper: the conclusion of
   c01w_session_only_against_credential *)
Definition wissued_at (C : crypto) (cfg : config) (w : world) (a : action) (O : oracle) (b U : bytes) : Prop :=
  (exists req, a = AReq req /\ q_browser req = b /\
     let ENV := mkEnv C cfg O req (jar_get (q_browser req) (w_cook w)) (jar_get (q_browser req) (w_sess w)) in
     ((c_wrap_remember cfg && negb (is_app (q_route req)) = false /\ credential_shown C cfg w O req U) \/
      (c_wrap_remember cfg = true /\ is_app (q_route req) = false /\
       (g_remember ENV (w_st w) U \/
        module_credential ENV (init_hst (w_st w) O) U \/
        (exists pid, bempty (aget k_uid (e_sess ENV)) = true /\ g_remember ENV (w_st w) pid /\
                     module_credential (with_sess ENV (half_view pid (e_sess ENV))) (init_hst (w_st w) O) U))))) \/
  a = APlant b k_uid U \/
  (exists j, a = ASetJar false b j /\ alookup k_uid j = Some U).

Lemma issued_at_reading C cfg w a O b U :
  issued_at C cfg w a O b U <->
  (exists req, a = AReq req /\ q_browser req = b /\ credential_shown C cfg w O req U) \/
  a = APlant b k_uid U \/
  (exists j, a = ASetJar false b j /\ alookup k_uid j = Some U).
Proof. reflexivity. Qed.

Lemma wissued_at_reading C cfg w a O b U :
  wissued_at C cfg w a O b U <->
  (exists req, a = AReq req /\ q_browser req = b /\
     let ENV := mkEnv C cfg O req (jar_get (q_browser req) (w_cook w)) (jar_get (q_browser req) (w_sess w)) in
     ((c_wrap_remember cfg && negb (is_app (q_route req)) = false /\ credential_shown C cfg w O req U) \/
      (c_wrap_remember cfg = true /\ is_app (q_route req) = false /\
       (g_remember ENV (w_st w) U \/
        module_credential ENV (init_hst (w_st w) O) U \/
        (exists pid, bempty (aget k_uid (e_sess ENV)) = true /\ g_remember ENV (w_st w) pid /\
                     module_credential (with_sess ENV (half_view pid (e_sess ENV))) (init_hst (w_st w) O) U))))) \/
  a = APlant b k_uid U \/
  (exists j, a = ASetJar false b j /\ alookup k_uid j = Some U).
Proof. reflexivity. Qed.

Lemma step_issued C cfg w a O U b :
  alookup k_uid (jar_get b (w_sess (fst (step C cfg w a O)))) = Some U ->
  alookup k_uid (jar_get b (w_sess w)) <> Some U -> issued_at C cfg w a O b U.
Proof. exact (c01_session_only_against_credential_lemma C cfg w a O U b). Qed.

Lemma wstep_issued C cfg w a O U b :
  alookup k_uid (jar_get b (w_sess (fst (wstep C cfg w a O)))) = Some U ->
  alookup k_uid (jar_get b (w_sess w)) <> Some U -> wissued_at C cfg w a O b U.
Proof. exact (c01w_session_only_against_credential_lemma C cfg w a O U b). Qed.

(* without the wrapper the two notions coincide *)
Lemma wissued_unwrapped C cfg w a O b U :
  c_wrap_remember cfg = false -> (wissued_at C cfg w a O b U <-> issued_at C cfg w a O b U).
Proof.
  intros Wf. unfold wissued_at, issued_at. cbv zeta. rewrite Wf. cbn [andb]. split.
  - intros [(req & A & B & [[_ Cs]|(X & _)])|R]; [left; eauto| discriminate X | right; exact R].
  - intros [(req & A & B & Cs)|R]; [left; exists req; auto | right; exact R].
Qed.

(* The history theorem.  If at the end of a history browser b's session names U, then either it
   did so at the start and after every prefix (the identity was never absent), or there is a LAST
   step at which the identity appeared: the world before that step did not name U, the world after
   it does, that step satisfies the step theorem's conclusion in the world it started from, and
   after every longer prefix the session still names U. *)
Lemma history_provenance_lemma C cfg w0 l w' os b U :
  run C cfg w0 l = (w', os) -> alookup k_uid (jar_get b (w_sess w')) = Some U ->
  (alookup k_uid (jar_get b (w_sess w0)) = Some U /\
   forall l1 l2, l = l1 ++ l2 -> alookup k_uid (jar_get b (w_sess (fst (run C cfg w0 l1)))) = Some U) \/
  (exists l1 a O l2 w1, l = l1 ++ (a, O) :: l2 /\ fst (run C cfg w0 l1) = w1 /\
     alookup k_uid (jar_get b (w_sess w1)) <> Some U /\
     alookup k_uid (jar_get b (w_sess (fst (step C cfg w1 a O)))) = Some U /\
     issued_at C cfg w1 a O b U /\
     forall l2a l2b, l2 = l2a ++ l2b ->
       alookup k_uid (jar_get b (w_sess (fst (run C cfg w0 (l1 ++ (a, O) :: l2a))))) = Some U).
Proof.
  intros Rn H. assert (H' : names b U (grun (step C cfg) w0 l)).
  { unfold names. rewrite <- run_grun, Rn. exact H. }
  destruct (last_appearance (step C cfg) (names b U) (names_dec b U) l w0 H')
    as [A|(l1 & a & O & l2 & E & N1 & Y1 & K)].
  - left. split.
    + exact (A [] l eq_refl).
    + intros l1 l2 E. rewrite run_grun. exact (A l1 l2 E).
  - right. exists l1, a, O, l2, (fst (run C cfg w0 l1)). split; [exact E|]. split; [reflexivity|].
    rewrite run_grun. split; [exact N1|]. split; [exact Y1|]. split.
    + exact (step_issued C cfg _ a O U b Y1 N1).
    + intros l2a l2b E2. rewrite run_grun. exact (K l2a l2b E2).
Qed.

Lemma whistory_provenance_lemma C cfg w0 l w' os b U :
  wrun C cfg w0 l = (w', os) -> alookup k_uid (jar_get b (w_sess w')) = Some U ->
  (alookup k_uid (jar_get b (w_sess w0)) = Some U /\
   forall l1 l2, l = l1 ++ l2 -> alookup k_uid (jar_get b (w_sess (fst (wrun C cfg w0 l1)))) = Some U) \/
  (exists l1 a O l2 w1, l = l1 ++ (a, O) :: l2 /\ fst (wrun C cfg w0 l1) = w1 /\
     alookup k_uid (jar_get b (w_sess w1)) <> Some U /\
     alookup k_uid (jar_get b (w_sess (fst (wstep C cfg w1 a O)))) = Some U /\
     wissued_at C cfg w1 a O b U /\
     forall l2a l2b, l2 = l2a ++ l2b ->
       alookup k_uid (jar_get b (w_sess (fst (wrun C cfg w0 (l1 ++ (a, O) :: l2a))))) = Some U).
Proof.
  intros Rn H. assert (H' : names b U (grun (wstep C cfg) w0 l)).
  { unfold names. rewrite <- wrun_grun, Rn. exact H. }
  destruct (last_appearance (wstep C cfg) (names b U) (names_dec b U) l w0 H')
    as [A|(l1 & a & O & l2 & E & N1 & Y1 & K)].
  - left. split.
    + exact (A [] l eq_refl).
    + intros l1 l2 E. rewrite wrun_grun. exact (A l1 l2 E).
  - right. exists l1, a, O, l2, (fst (wrun C cfg w0 l1)). split; [exact E|]. split; [reflexivity|].
    rewrite wrun_grun. split; [exact N1|]. split; [exact Y1|]. split.
    + exact (wstep_issued C cfg _ a O U b Y1 N1).
    + intros l2a l2b E2. rewrite wrun_grun. exact (K l2a l2b E2).
Qed.

(* histories without the two harness actions that write a session jar directly *)
Definition library_action (a : action) : Prop :=
  match a with APlant _ _ _ | ASetJar _ _ _ => False | _ => True end.
Definition library_history (l : list (action * oracle)) : Prop := Forall (fun ao => library_action (fst ao)) l.

Lemma library_history_mid l1 a O l2 : library_history (l1 ++ (a, O) :: l2) -> library_action a.
Proof. intros F. apply Forall_app in F as [_ F]. inversion F; subst. assumption. Qed.

(* from the empty world, with library actions only: every identity in every jar at the end was
   issued by a credential request of that browser *)
Lemma history_from_empty_lemma C cfg l w' os b U :
  run C cfg empty_world l = (w', os) -> library_history l ->
  alookup k_uid (jar_get b (w_sess w')) = Some U ->
  exists l1 req O l2 w1, l = l1 ++ (AReq req, O) :: l2 /\ fst (run C cfg empty_world l1) = w1 /\
    q_browser req = b /\ credential_shown C cfg w1 O req U /\
    alookup k_uid (jar_get b (w_sess w1)) <> Some U /\
    alookup k_uid (jar_get b (w_sess (fst (step C cfg w1 (AReq req) O)))) = Some U /\
    forall l2a l2b, l2 = l2a ++ l2b ->
      alookup k_uid (jar_get b (w_sess (fst (run C cfg empty_world (l1 ++ (AReq req, O) :: l2a))))) = Some U.
Proof.
  intros Rn Lib H.
  destruct (history_provenance_lemma C cfg empty_world l w' os b U Rn H)
    as [[A _]|(l1 & a & O & l2 & w1 & E & W1 & N1 & Y1 & Is & K)].
  - discriminate A.
  - subst l. pose proof (library_history_mid _ _ _ _ Lib) as La.
    destruct Is as [(req & -> & Bq & Cs)|[->|(j & -> & _)]]; [|destruct La|destruct La].
    exists l1, req, O, l2, w1. auto 8.
Qed.

Lemma whistory_from_empty_lemma C cfg l w' os b U :
  wrun C cfg empty_world l = (w', os) -> library_history l ->
  alookup k_uid (jar_get b (w_sess w')) = Some U ->
  exists l1 req O l2 w1, l = l1 ++ (AReq req, O) :: l2 /\ fst (wrun C cfg empty_world l1) = w1 /\
    q_browser req = b /\ wissued_at C cfg w1 (AReq req) O b U /\
    alookup k_uid (jar_get b (w_sess w1)) <> Some U /\
    alookup k_uid (jar_get b (w_sess (fst (wstep C cfg w1 (AReq req) O)))) = Some U /\
    forall l2a l2b, l2 = l2a ++ l2b ->
      alookup k_uid (jar_get b (w_sess (fst (wrun C cfg empty_world (l1 ++ (AReq req, O) :: l2a))))) = Some U.
Proof.
  intros Rn Lib H.
  destruct (whistory_provenance_lemma C cfg empty_world l w' os b U Rn H)
    as [[A _]|(l1 & a & O & l2 & w1 & E & W1 & N1 & Y1 & Is & K)].
  - discriminate A.
  - subst l. pose proof (library_history_mid _ _ _ _ Lib) as La.
    pose proof Is as Is0.
    destruct Is as [(req & -> & Bq & Cs)|[->|(j & -> & _)]]; [|destruct La|destruct La].
    exists l1, req, O, l2, w1. auto 8.
Qed.

(* ================================================================================================ *)
(* C01, part 2: an identity is kept                                                                 *)
(* ================================================================================================ *)

(* the actions that can take the identity out of browser b's session: the conclusion of
   c01_identity_removed_only_by_logout_or_expiry *)
Definition may_remove_identity (cfg : config) (b : bytes) (a : action) : Prop :=
  (exists req, a = AReq req /\ q_browser req = b /\
     ((q_route req = RLogout /\ q_meth req = c_logout_method cfg /\ q_meth req <> PUT /\ has_mod cfg MLogout = true) \/
      (exists full tf fr l c r, q_route req = RApp full tf fr l c r true))) \/
  (exists j, a = ASetJar false b j /\ ahas k_uid j = false).

Lemma may_remove_identity_reading cfg b a :
  may_remove_identity cfg b a <->
  (exists req, a = AReq req /\ q_browser req = b /\
     ((q_route req = RLogout /\ q_meth req = c_logout_method cfg /\ q_meth req <> PUT /\ has_mod cfg MLogout = true) \/
      (exists full tf fr l c r, q_route req = RApp full tf fr l c r true))) \/
  (exists j, a = ASetJar false b j /\ ahas k_uid j = false).
Proof. reflexivity. Qed.

Lemma step_keeps_identity C cfg b w a O :
  ahas k_uid (jar_get b (w_sess w)) = true -> ~ may_remove_identity cfg b a ->
  ahas k_uid (jar_get b (w_sess (fst (step C cfg w a O)))) = true.
Proof.
  intros H N. destruct (ahas k_uid (jar_get b (w_sess (fst (step C cfg w a O))))) eqn:E; [reflexivity|].
  exfalso. apply N. exact (c01_identity_removed_lemma C cfg w a O b H E).
Qed.

Lemma routed_nothandler phi psi r : (forall hd, r <> Handler hd) -> routed_evs phi psi r.
Proof. intros N. destruct r as [hd| |]; [destruct (N hd eq_refl)|exact I|exact I]. Qed.

(* whether the logout route reaches a handler does not depend on the session view *)
Lemma logout_route_nothandler E s2 :
  q_route (e_req E) = RLogout -> (forall hd, route_table E <> Handler hd) ->
  forall hd, route_table (with_sess E s2) <> Handler hd.
Proof.
  intros R. unfold route_table, when, on_method. cbn [with_sess e_req e_cfg]. rewrite R.
  destruct (q_meth (e_req E)); destruct (has_mod (e_cfg E) MLogout); destruct (c_logout_method (e_cfg E));
    cbn [meth_eqb]; intros H hd; first [discriminate | exfalso; eapply H; reflexivity].
Qed.

(* the wrapped router: the same class of actions.  Under the wrapper a request first passes
   remember_mw (which only ever PUTS uid / halfauth) and then [serve] on the wrapper's view. *)
Lemma wstep_identity_removed_lemma C cfg w a O b :
  ahas k_uid (jar_get b (w_sess w)) = true -> ahas k_uid (jar_get b (w_sess (fst (wstep C cfg w a O)))) = false ->
  may_remove_identity cfg b a.
Proof.
  intros H0 H1.
  destruct a as [req|p|p|p pw|p|u rm|b' k v|ck b' j];
    try exact (c01_identity_removed_lemma C cfg w _ O b H0 H1).
  set (E := mkEnv C cfg O req (jar_get (q_browser req) (w_cook w)) (jar_get (q_browser req) (w_sess w))).
  destruct (wrapped_route E) eqn:Wr.
  2:{ rewrite (wstep_plain C cfg w req O Wr) in H1. exact (c01_identity_removed_lemma C cfg w _ O b H0 H1). }
  left. exists req. split; [reflexivity|].
  destruct (bytes_dec b (q_browser req)) as [->|N].
  2:{ exfalso. destruct (wstep_other_browsers_lemma C cfg w req O b N) as [Eq _]. rewrite Eq in H1. congruence. }
  split; [reflexivity|].
  assert (NA : is_app (q_route req) = false).
  { unfold wrapped_route in Wr. apply Bool.andb_true_iff in Wr as [_ Wr]. apply Bool.negb_true_iff in Wr. exact Wr. }
  (* if the route's handler (on any session view) records no drop of uid, the identity stays *)
  assert (Keep : (forall s2, routed_evs sess_nodrop any_ev (route_table (with_sess E s2))) -> False).
  { intros HR.
    assert (Ev : evs_all sess_nodrop any_ev (serve_top E)).
    { rewrite (serve_top_wrapped _ Wr).
      apply evs_bind; [apply nodrop_remember_mw|intros _].
      apply evs_bind; [apply evs_remembered_view|intros s2]. apply serve_evs. apply HR. }
    revert H1. unfold wstep. cbv zeta. fold E.
    destruct (serve_top E (init_hst (w_st w) O)) as [r h] eqn:Es.
    destruct (Ev _ _ _ Es) as [(ls & lc & S & _ & F & _) Pf].
    assert (P0 : pref (init_hst (w_st w) O)) by (intros wr0 Hw; discriminate Hw).
    destruct (h_out h) as [wr|] eqn:Ho; simpl; intros H1.
    - destruct (Pf P0 wr Ho) as (l & c & E1 & _). simpl in S. rewrite E1 in S. subst ls.
      apply Forall_app in F as [F _].
      rewrite jar_get_set_eq in H1. rewrite (apply_events_nodrop _ _ F H0) in H1. discriminate H1.
    - congruence. }
  destruct (may_drop req) eqn:MD.
  2:{ exfalso. apply Keep. intros s2. apply nodrop_routes. exact MD. }
  unfold may_drop in MD.
  destruct (q_route req) as [| | | | | | | |pv|pv| | | | | | | | | | |k|k| |full tf fr lk cf remembermw expiremw|] eqn:R;
    try discriminate MD; try discriminate NA.
  left. split; [reflexivity|].
  destruct (route_table E) as [hd| |] eqn:RT.
  - exact (logout_handler_inv E hd R RT).
  - exfalso. apply Keep. intros s2. apply routed_nothandler.
    apply logout_route_nothandler; [exact R|]. rewrite RT. discriminate.
  - exfalso. apply Keep. intros s2. apply routed_nothandler.
    apply logout_route_nothandler; [exact R|]. rewrite RT. discriminate.
Qed.

Lemma wstep_keeps_identity C cfg b w a O :
  ahas k_uid (jar_get b (w_sess w)) = true -> ~ may_remove_identity cfg b a ->
  ahas k_uid (jar_get b (w_sess (fst (wstep C cfg w a O)))) = true.
Proof.
  intros H N. destruct (ahas k_uid (jar_get b (w_sess (fst (wstep C cfg w a O))))) eqn:E; [reflexivity|].
  exfalso. apply N. exact (wstep_identity_removed_lemma C cfg w a O b H E).
Qed.

Lemma history_identity_kept_lemma C cfg w0 l1 l2 b :
  ahas k_uid (jar_get b (w_sess (fst (run C cfg w0 l1)))) = true ->
  Forall (fun ao => ~ may_remove_identity cfg b (fst ao)) l2 ->
  ahas k_uid (jar_get b (w_sess (fst (run C cfg w0 (l1 ++ l2))))) = true.
Proof.
  intros H F. rewrite run_app_fst, (run_grun C cfg l2).
  apply (grun_invariant (step C cfg) (fun w => ahas k_uid (jar_get b (w_sess w)) = true) (may_remove_identity cfg b));
    [|exact H|exact F].
  intros w a O. apply step_keeps_identity.
Qed.

Lemma whistory_identity_kept_lemma C cfg w0 l1 l2 b :
  ahas k_uid (jar_get b (w_sess (fst (wrun C cfg w0 l1)))) = true ->
  Forall (fun ao => ~ may_remove_identity cfg b (fst ao)) l2 ->
  ahas k_uid (jar_get b (w_sess (fst (wrun C cfg w0 (l1 ++ l2))))) = true.
Proof.
  intros H F. rewrite wrun_app_fst, (wrun_grun C cfg l2).
  apply (grun_invariant (wstep C cfg) (fun w => ahas k_uid (jar_get b (w_sess w)) = true) (may_remove_identity cfg b));
    [|exact H|exact F].
  intros w a O. apply wstep_keeps_identity.
Qed.

(* ================================================================================================ *)
(* C10: after a logout the browser stays logged out until it shows a credential again               *)
(* ================================================================================================ *)

(* a session without identity keeps none over every step that is not an issuing step *)
Lemma step_stays_anonymous C cfg b w a O :
  alookup k_uid (jar_get b (w_sess w)) = None -> ~ (exists U, issued_at C cfg w a O b U) ->
  alookup k_uid (jar_get b (w_sess (fst (step C cfg w a O)))) = None.
Proof.
  intros H N. destruct (alookup k_uid (jar_get b (w_sess (fst (step C cfg w a O))))) as [U|] eqn:E; [|reflexivity].
  exfalso. apply N. exists U. apply step_issued; [exact E|]. rewrite H. discriminate.
Qed.
Lemma wstep_stays_anonymous C cfg b w a O :
  alookup k_uid (jar_get b (w_sess w)) = None -> ~ (exists U, wissued_at C cfg w a O b U) ->
  alookup k_uid (jar_get b (w_sess (fst (wstep C cfg w a O)))) = None.
Proof.
  intros H N. destruct (alookup k_uid (jar_get b (w_sess (fst (wstep C cfg w a O))))) as [U|] eqn:E; [|reflexivity].
  exfalso. apply N. exists U. apply wstep_issued; [exact E|]. rewrite H. discriminate.
Qed.

(* anonymous sessions along a history, from any world *)
Lemma history_stays_anonymous_lemma C cfg w l b :
  alookup k_uid (jar_get b (w_sess w)) = None ->
  (forall p a O s, l = p ++ (a, O) :: s -> ~ exists U, issued_at C cfg (fst (run C cfg w p)) a O b U) ->
  alookup k_uid (jar_get b (w_sess (fst (run C cfg w l)))) = None.
Proof.
  intros H F. rewrite run_grun.
  apply (grun_invariant_sem (step C cfg) (fun w => alookup k_uid (jar_get b (w_sess w)) = None)
           (fun w a O => exists U, issued_at C cfg w a O b U)); [|exact H|].
  - intros w1 a O. apply step_stays_anonymous.
  - intros p a O s E. rewrite <- run_grun. exact (F p a O s E).
Qed.
Lemma whistory_stays_anonymous_lemma C cfg w l b :
  alookup k_uid (jar_get b (w_sess w)) = None ->
  (forall p a O s, l = p ++ (a, O) :: s -> ~ exists U, wissued_at C cfg (fst (wrun C cfg w p)) a O b U) ->
  alookup k_uid (jar_get b (w_sess (fst (wrun C cfg w l)))) = None.
Proof.
  intros H F. rewrite wrun_grun.
  apply (grun_invariant_sem (wstep C cfg) (fun w => alookup k_uid (jar_get b (w_sess w)) = None)
           (fun w a O => exists U, wissued_at C cfg w a O b U)); [|exact H|].
  - intros w1 a O. apply wstep_stays_anonymous.
  - intros p a O s E. rewrite <- wrun_grun. exact (F p a O s E).
Qed.

(* position i = length l1 is a logout of browser b whose response was written; l2 is what follows
   up to position j; no step of l2 is an issuing step for b in the world it starts from *)
Lemma history_stays_logged_out_lemma C cfg w0 l1 req O l2 :
  q_route req = RLogout -> q_meth req = c_logout_method cfg -> q_meth req <> PUT -> has_mod cfg MLogout = true ->
  let b := q_browser req in
  ob_resp (snd (step C cfg (fst (run C cfg w0 l1)) (AReq req) O)) <> None ->
  (forall p a O' s, l2 = p ++ (a, O') :: s ->
     ~ exists U, issued_at C cfg (fst (run C cfg w0 (l1 ++ (AReq req, O) :: p))) a O' b U) ->
  alookup k_uid (jar_get b (w_sess (fst (run C cfg w0 (l1 ++ (AReq req, O) :: l2))))) = None.
Proof.
  intros R M NP HM b Wr F.
  destruct (step_logout_lemma C cfg (fst (run C cfg w0 l1)) req O R M NP HM) as (_ & A & _).
  destruct (A Wr) as (_ & _ & Hu & _). fold b in Hu.
  assert (Ec : forall p, fst (run C cfg w0 (l1 ++ (AReq req, O) :: p)) =
                         fst (run C cfg (fst (step C cfg (fst (run C cfg w0 l1)) (AReq req) O)) p)).
  { intros p. rewrite !run_grun. apply grun_mid. }
  rewrite Ec. apply history_stays_anonymous_lemma; [exact Hu|].
  intros p a O' s E. rewrite <- Ec. exact (F p a O' s E).
Qed.

Lemma whistory_stays_logged_out_lemma C cfg w0 l1 req O l2 :
  q_route req = RLogout -> q_meth req = c_logout_method cfg -> q_meth req <> PUT -> has_mod cfg MLogout = true ->
  let b := q_browser req in
  ob_resp (snd (wstep C cfg (fst (wrun C cfg w0 l1)) (AReq req) O)) <> None ->
  (forall p a O' s, l2 = p ++ (a, O') :: s ->
     ~ exists U, wissued_at C cfg (fst (wrun C cfg w0 (l1 ++ (AReq req, O) :: p))) a O' b U) ->
  alookup k_uid (jar_get b (w_sess (fst (wrun C cfg w0 (l1 ++ (AReq req, O) :: l2))))) = None.
Proof.
  intros R M NP HM b Wr F.
  destruct (wstep_logout_lemma C cfg (fst (wrun C cfg w0 l1)) req O R M NP HM) as (_ & _ & A & _).
  destruct (A Wr) as (_ & _ & Hu & _). fold b in Hu.
  assert (Ec : forall p, fst (wrun C cfg w0 (l1 ++ (AReq req, O) :: p)) =
                         fst (wrun C cfg (fst (wstep C cfg (fst (wrun C cfg w0 l1)) (AReq req) O)) p)).
  { intros p. rewrite !wrun_grun. apply grun_mid. }
  rewrite Ec. apply whistory_stays_anonymous_lemma; [exact Hu|].
  intros p a O' s E. rewrite <- Ec. exact (F p a O' s E).
Qed.

(* the same with a class of actions that can be read off the request alone: a request of b on one
   of the eight login paths (route and method; for the application routes: a stack with the remember
   middleware), or a harness action on b's session jar *)
Definition may_issue_identity (b : bytes) (a : action) : Prop :=
  (exists req, a = AReq req /\ q_browser req = b /\ can_login req = true) \/
  (exists v, a = APlant b k_uid v) \/
  (exists j, a = ASetJar false b j).

(* under the wrapper every module route can also log in by cookie *)
Definition wmay_issue_identity (cfg : config) (b : bytes) (a : action) : Prop :=
  (exists req, a = AReq req /\ q_browser req = b /\
     (can_login req = true \/ (c_wrap_remember cfg = true /\ is_app (q_route req) = false))) \/
  (exists v, a = APlant b k_uid v) \/
  (exists j, a = ASetJar false b j).

Lemma credential_shown_can_login C cfg w O req U : credential_shown C cfg w O req U -> can_login req = true.
Proof.
  unfold credential_shown, can_login. cbv zeta.
  intros [(R & M & _)|[(R & M & _)|[(R & M & _)|[(R & M & _)|[(pv & R & M & _)|[(R & M & _)|[(R & M & _)|
          (full & tf & fr & l & c & e & R & _)]]]]]]]; rewrite R; try (rewrite M; reflexivity).
  destruct (q_meth req); reflexivity.
Qed.

Lemma issued_may_issue C cfg w a O b U : issued_at C cfg w a O b U -> may_issue_identity b a.
Proof.
  intros [(req & A & B & Cs)|[->|(j & -> & _)]].
  - left. exists req. split; [exact A|]. split; [exact B|]. exact (credential_shown_can_login _ _ _ _ _ _ Cs).
  - right; left. exists U. reflexivity.
  - right; right. exists j. reflexivity.
Qed.

Lemma wissued_may_issue C cfg w a O b U : wissued_at C cfg w a O b U -> wmay_issue_identity cfg b a.
Proof.
  intros [(req & A & B & Cs)|[->|(j & -> & _)]].
  - left. exists req. split; [exact A|]. split; [exact B|]. cbv zeta in Cs.
    destruct Cs as [(_ & Cs)|(W & NA & _)].
    + left. exact (credential_shown_can_login _ _ _ _ _ _ Cs).
    + right. auto.
  - right; left. exists U. reflexivity.
  - right; right. exists j. reflexivity.
Qed.

Lemma Forall_mid {A} (P : A -> Prop) p x s : Forall P (p ++ x :: s) -> P x.
Proof. intros F. apply Forall_app in F as [_ F]. inversion F; subst. assumption. Qed.

Lemma history_stays_logged_out_routes_lemma C cfg w0 l1 req O l2 :
  q_route req = RLogout -> q_meth req = c_logout_method cfg -> q_meth req <> PUT -> has_mod cfg MLogout = true ->
  let b := q_browser req in
  ob_resp (snd (step C cfg (fst (run C cfg w0 l1)) (AReq req) O)) <> None ->
  Forall (fun ao => ~ may_issue_identity b (fst ao)) l2 ->
  alookup k_uid (jar_get b (w_sess (fst (run C cfg w0 (l1 ++ (AReq req, O) :: l2))))) = None.
Proof.
  intros R M NP HM b Wr F. apply history_stays_logged_out_lemma; try assumption.
  intros p a O' s E [U Is]. subst l2. apply (Forall_mid _ _ _ _ F). exact (issued_may_issue _ _ _ _ _ _ _ Is).
Qed.

Lemma whistory_stays_logged_out_routes_lemma C cfg w0 l1 req O l2 :
  q_route req = RLogout -> q_meth req = c_logout_method cfg -> q_meth req <> PUT -> has_mod cfg MLogout = true ->
  let b := q_browser req in
  ob_resp (snd (wstep C cfg (fst (wrun C cfg w0 l1)) (AReq req) O)) <> None ->
  Forall (fun ao => ~ wmay_issue_identity cfg b (fst ao)) l2 ->
  alookup k_uid (jar_get b (w_sess (fst (wrun C cfg w0 (l1 ++ (AReq req, O) :: l2))))) = None.
Proof.
  intros R M NP HM b Wr F. apply whistory_stays_logged_out_lemma; try assumption.
  intros p a O' s E [U Is]. subst l2. apply (Forall_mid _ _ _ _ F). exact (wissued_may_issue _ _ _ _ _ _ _ Is).
Qed.

(* ================================================================================================ *)
(* Non-vacuity: a concrete history (executable crypto instance)                                     *)
(* ================================================================================================ *)
Definition hx_cfg (wrap : bool) : config :=
  mkConfig [MAuth; MLogout] false false false false false false 3 300 3600 600 3600 (bs "/auth")
           false false false DELETE GET false [] RespNotFound [] [] true false wrap.
Definition hx_pid := bs "a@x.io".
Definition hx_user : user :=
  blank_user <| u_pid := hx_pid |> <| u_email := hx_pid |> <| u_password := exec_pwhash (bs "password1") |>
             <| u_confirmed := true |>.
Definition hx_oracle : oracle := mkOracle 1000 [] [] [] (mkPA false false [] [] [] [] 0).
Definition hx_login : request :=
  mkRequest (bs "b1") POST RLogin (bs "/login") [] [] [(f_email, hx_pid); (f_password, bs "password1")] false.
Definition hx_page : request := mkRequest (bs "b1") GET RLogin (bs "/login") [] [] [] false.
Definition hx_logout : request := mkRequest (bs "b1") DELETE RLogout (bs "/logout") [] [] [] false.
(* seed the account, log in, look at a page, lock the account *)
Definition hx_prefix : list (action * oracle) := [(ASeed hx_user [], hx_oracle); (AReq hx_login, hx_oracle)].
Definition hx_rest : list (action * oracle) := [(AReq hx_page, hx_oracle); (ALock hx_pid, hx_oracle)].
Definition hx_history := hx_prefix ++ hx_rest.

Lemma hx_library : library_history hx_history.
Proof. repeat constructor. Qed.

Lemma hx_run_names wrap :
  alookup k_uid (jar_get (bs "b1") (w_sess (fst (run XC (hx_cfg wrap) empty_world hx_history)))) = Some hx_pid.
Proof. destruct wrap; vm_compute; reflexivity. Qed.
Lemma hx_wrun_names wrap :
  alookup k_uid (jar_get (bs "b1") (w_sess (fst (wrun XC (hx_cfg wrap) empty_world hx_history)))) = Some hx_pid.
Proof. destruct wrap; vm_compute; reflexivity. Qed.

Lemma hx_prefix_has wrap :
  ahas k_uid (jar_get (bs "b1") (w_sess (fst (run XC (hx_cfg wrap) empty_world hx_prefix)))) = true /\
  ahas k_uid (jar_get (bs "b1") (w_sess (fst (wrun XC (hx_cfg wrap) empty_world hx_prefix)))) = true.
Proof. destruct wrap; vm_compute; auto. Qed.

Lemma hx_rest_keeps cfg : Forall (fun ao => ~ may_remove_identity cfg (bs "b1") (fst ao)) hx_rest.
Proof.
  repeat constructor; cbn [fst].
  - intros [(req & Ha & _ & [(R & _)|(full & tf & fr & l & c & r & R)])|(j & Ha & _)];
      try discriminate Ha; inversion Ha; subst req; discriminate R.
  - intros [(req & Ha & _)|(j & Ha & _)]; discriminate Ha.
Qed.

Lemma hx_logout_written wrap :
  q_route hx_logout = RLogout /\ q_meth hx_logout = c_logout_method (hx_cfg wrap) /\ q_meth hx_logout <> PUT /\
  has_mod (hx_cfg wrap) MLogout = true /\
  ob_resp (snd (step XC (hx_cfg wrap) (fst (run XC (hx_cfg wrap) empty_world hx_prefix)) (AReq hx_logout) hx_oracle)) <> None /\
  ob_resp (snd (wstep XC (hx_cfg wrap) (fst (wrun XC (hx_cfg wrap) empty_world hx_prefix)) (AReq hx_logout) hx_oracle)) <> None.
Proof. destruct wrap; vm_compute; repeat split; discriminate. Qed.

Lemma hx_rest_no_issue : Forall (fun ao => ~ may_issue_identity (bs "b1") (fst ao)) hx_rest.
Proof.
  repeat constructor; cbn [fst].
  - intros [(req & Ha & _ & CL)|[(v & Ha)|(j & Ha)]]; try discriminate Ha. inversion Ha; subst req. discriminate CL.
  - intros [(req & Ha & _)|[(v & Ha)|(j & Ha)]]; discriminate Ha.
Qed.
(* without the wrapper the wrapped class is the plain one *)
Lemma hx_rest_no_wissue : Forall (fun ao => ~ wmay_issue_identity (hx_cfg false) (bs "b1") (fst ao)) hx_rest.
Proof.
  repeat constructor; cbn [fst].
  - intros [(req & Ha & _ & [CL|(W & _)])|[(v & Ha)|(j & Ha)]]; try discriminate Ha; try discriminate W.
    inversion Ha; subst req. discriminate CL.
  - intros [(req & Ha & _)|[(v & Ha)|(j & Ha)]]; discriminate Ha.
Qed.
(* with the wrapper: only administrative actions are outside the class *)
Lemma hx_admin_no_wissue cfg :
  Forall (fun ao => ~ wmay_issue_identity cfg (bs "b1") (fst ao)) [(ALock hx_pid, hx_oracle)].
Proof.
  repeat constructor; cbn [fst]. intros [(req & Ha & _)|[(v & Ha)|(j & Ha)]]; discriminate Ha.
Qed.

(* the hypotheses of the history theorems, packaged *)
Lemma hx_provenance_witness :
  exists C cfg l w' os b U,
    run C cfg empty_world l = (w', os) /\ library_history l /\ alookup k_uid (jar_get b (w_sess w')) = Some U.
Proof.
  exists XC, (hx_cfg false), hx_history, (fst (run XC (hx_cfg false) empty_world hx_history)),
         (snd (run XC (hx_cfg false) empty_world hx_history)), (bs "b1"), hx_pid.
  split; [apply surjective_pairing|]. split; [exact hx_library|exact (hx_run_names false)].
Qed.
Lemma hx_wprovenance_witness :
  exists C cfg l w' os b U,
    c_wrap_remember cfg = true /\
    wrun C cfg empty_world l = (w', os) /\ library_history l /\ alookup k_uid (jar_get b (w_sess w')) = Some U.
Proof.
  exists XC, (hx_cfg true), hx_history, (fst (wrun XC (hx_cfg true) empty_world hx_history)),
         (snd (wrun XC (hx_cfg true) empty_world hx_history)), (bs "b1"), hx_pid.
  split; [reflexivity|]. split; [apply surjective_pairing|]. split; [exact hx_library|exact (hx_wrun_names true)].
Qed.
Lemma hx_kept_witness :
  exists C cfg w0 l1 (l2 : list (action * oracle)) b,
    l2 <> [] /\ ahas k_uid (jar_get b (w_sess (fst (run C cfg w0 l1)))) = true /\
    Forall (fun ao => ~ may_remove_identity cfg b (fst ao)) l2.
Proof.
  exists XC, (hx_cfg false), empty_world, hx_prefix, hx_rest, (bs "b1").
  split; [discriminate|]. split; [exact (proj1 (hx_prefix_has false))|apply hx_rest_keeps].
Qed.
Lemma hx_wkept_witness :
  exists C cfg w0 l1 (l2 : list (action * oracle)) b,
    c_wrap_remember cfg = true /\
    l2 <> [] /\ ahas k_uid (jar_get b (w_sess (fst (wrun C cfg w0 l1)))) = true /\
    Forall (fun ao => ~ may_remove_identity cfg b (fst ao)) l2.
Proof.
  exists XC, (hx_cfg true), empty_world, hx_prefix, hx_rest, (bs "b1").
  split; [reflexivity|]. split; [discriminate|]. split; [exact (proj2 (hx_prefix_has true))|apply hx_rest_keeps].
Qed.
Lemma hx_logged_out_witness :
  exists C cfg w0 l1 req O (l2 : list (action * oracle)),
    l2 <> [] /\
    q_route req = RLogout /\ q_meth req = c_logout_method cfg /\ q_meth req <> PUT /\ has_mod cfg MLogout = true /\
    alookup k_uid (jar_get (q_browser req) (w_sess (fst (run C cfg w0 l1)))) <> None /\
    ob_resp (snd (step C cfg (fst (run C cfg w0 l1)) (AReq req) O)) <> None /\
    Forall (fun ao => ~ may_issue_identity (q_browser req) (fst ao)) l2.
Proof.
  exists XC, (hx_cfg false), empty_world, hx_prefix, hx_logout, hx_oracle, hx_rest.
  destruct (hx_logout_written false) as (R & M & NP & HM & W1 & _).
  split; [discriminate|]. do 4 (split; [assumption|]). split; [vm_compute; discriminate|].
  split; [exact W1|exact hx_rest_no_issue].
Qed.
Lemma hx_wlogged_out_witness :
  exists C cfg w0 l1 req O (l2 : list (action * oracle)),
    c_wrap_remember cfg = true /\ l2 <> [] /\
    q_route req = RLogout /\ q_meth req = c_logout_method cfg /\ q_meth req <> PUT /\ has_mod cfg MLogout = true /\
    alookup k_uid (jar_get (q_browser req) (w_sess (fst (wrun C cfg w0 l1)))) <> None /\
    ob_resp (snd (wstep C cfg (fst (wrun C cfg w0 l1)) (AReq req) O)) <> None /\
    Forall (fun ao => ~ wmay_issue_identity cfg (q_browser req) (fst ao)) l2.
Proof.
  exists XC, (hx_cfg true), empty_world, hx_prefix, hx_logout, hx_oracle, [(ALock hx_pid, hx_oracle)].
  destruct (hx_logout_written true) as (R & M & NP & HM & _ & W1).
  split; [reflexivity|]. split; [discriminate|]. do 4 (split; [assumption|]). split; [vm_compute; discriminate|].
  split; [exact W1|apply hx_admin_no_wissue].
Qed.
