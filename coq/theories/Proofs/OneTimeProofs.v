(* One-time passwords (C12), at handler level:
   - removing the matched entry really removes it (pure list facts about otp_remove/otp_match);
   - /otp/login writes the session's user identity only after the Save that removed the
     matched one-time password succeeded, and that removal is still in storage when the
     request ends, whatever event hooks ran in between;
   - /otp/add never stores a sixth one-time password. *)
From AB Require Import World.Handlers Base.Base64Proofs
  Proofs.EvLogic Proofs.Neutral Proofs.HandlerEvents Proofs.MonadInv Proofs.Guards Proofs.StoreLogic.
Open Scope Z_scope.

(* ---- O2: pure list facts ------------------------------------------------------------------- *)
Lemma otp_remove_snoc (init : list bytes) lastv i :
  otp_remove (init ++ [lastv]) i =
  if Nat.eqb i (length init) then init else firstn i init ++ lastv :: skipn (S i) init.
Proof. unfold otp_remove. rewrite rev_app_distr. simpl. rewrite rev_involutive. reflexivity. Qed.

Lemma nth_split_eq {A} (d : A) : forall (l : list A) i,
  (i < length l)%nat -> l = firstn i l ++ nth i l d :: skipn (S i) l.
Proof.
  induction l as [|x l IH]; intros i Hi; simpl in Hi; [lia|].
  destruct i as [|i]; simpl; [reflexivity|]. f_equal. apply IH. lia.
Qed.

Lemma otp_remove_length (l : list bytes) i :
  (i < length l)%nat -> length (otp_remove l i) = pred (length l).
Proof.
  destruct l as [|x l] using rev_ind; [simpl; lia|]. clear IHl.
  rewrite otp_remove_snoc, app_length. cbn [length]. intros Hi.
  destruct (Nat.eqb i (length l)) eqn:Eq; [lia|]. apply Nat.eqb_neq in Eq.
  rewrite app_length, firstn_length. cbn [length]. rewrite skipn_length. lia.
Qed.

Lemma otp_remove_incl (l : list bytes) i y : In y (otp_remove l i) -> In y l.
Proof.
  destruct l as [|x l] using rev_ind; [simpl; tauto|]. clear IHl.
  rewrite otp_remove_snoc. destruct (Nat.eqb i (length l)); intros H.
  - apply in_or_app. left. exact H.
  - apply in_app_or in H as [H|[H|H]]; apply in_or_app.
    + left. rewrite <- (firstn_skipn i l). apply in_or_app. left. exact H.
    + right. left. exact H.
    + left. rewrite <- (firstn_skipn (S i) l). apply in_or_app. right. exact H.
Qed.

Lemma otp_remove_gone (l : list bytes) i d :
  (i < length l)%nat -> NoDup l -> ~ In (nth i l d) (otp_remove l i).
Proof.
  destruct l as [|x l] using rev_ind; [simpl; lia|]. clear IHl.
  rewrite otp_remove_snoc, app_length. cbn [length]. intros Hi ND.
  destruct (Nat.eqb i (length l)) eqn:Eq.
  - apply Nat.eqb_eq in Eq. subst i. rewrite app_nth2, Nat.sub_diag by lia. simpl.
    apply NoDup_remove_2 in ND. rewrite app_nil_r in ND. exact ND.
  - apply Nat.eqb_neq in Eq. assert (Hl : (i < length l)%nat) by lia.
    rewrite app_nth1 by exact Hl.
    pose proof (nth_split_eq d l i Hl) as Hd.
    set (A := firstn i l) in *. set (B := skipn (S i) l) in *. set (y := nth i l d) in *.
    rewrite Hd, <- app_assoc in ND. simpl in ND. apply NoDup_remove_2 in ND.
    intros H. apply ND. apply in_app_or in H as [H|[H|H]]; apply in_or_app.
    + left. exact H.
    + right. apply in_or_app. right. left. exact H.
    + right. apply in_or_app. left. exact H.
Qed.

Lemma otp_remove_spec_lemma (l : list bytes) i :
  ((i < length l)%nat -> length (otp_remove l i) = pred (length l)) /\
  (forall y, In y (otp_remove l i) -> In y l) /\
  (forall d, (i < length l)%nat -> NoDup l -> ~ In (nth i l d) (otp_remove l i)).
Proof.
  split; [apply otp_remove_length|]. split; [intros y; apply otp_remove_incl|intros d; apply otp_remove_gone].
Qed.

(* the index found is in range and that entry is the encoding of the submitted hash *)
Lemma otp_match_spec_gen inp l : forall k i,
  otp_match inp l k = Some (Some i) ->
  (k <= i)%nat /\ (i - k < length l)%nat /\ b64std_dec (nth (i - k) l []) = Some inp.
Proof.
  induction l as [|p l IH]; intros k i H; simpl in H; [discriminate|].
  destruct (b64std_dec p) as [d|] eqn:Dp; [|discriminate].
  destruct (beqb inp d) eqn:Eb.
  - inversion H; subst i. apply beqb_eq in Eb. subst d. rewrite Nat.sub_diag. simpl. repeat split; auto; lia.
  - apply IH in H as (H1 & H2 & H3). replace (i - k)%nat with (S (i - S k)) by lia. simpl. repeat split; auto; lia.
Qed.
Lemma otp_match_spec_lemma inp l i :
  otp_match inp l 0%nat = Some (Some i) -> (i < length l)%nat /\ b64std_dec (nth i l []) = Some inp.
Proof. intros H. apply otp_match_spec_gen in H as (_ & H2 & H3). rewrite Nat.sub_0_r in *. auto. Qed.

(* ---- split / join ---------------------------------------------------------------------------- *)
Definition nosep (sep : byte) (p : bytes) : Prop := bmem_byte sep p = false.

Lemma byte_eqb_sym a b : Byte.eqb a b = Byte.eqb b a.
Proof.
  destruct (Byte.eqb a b) eqn:E1, (Byte.eqb b a) eqn:E2; auto.
  - apply Byte.byte_dec_bl in E1. subst. rewrite (Byte.byte_dec_lb eq_refl) in E2. discriminate.
  - apply Byte.byte_dec_bl in E2. subst. rewrite (Byte.byte_dec_lb eq_refl) in E1. discriminate.
Qed.

Lemma bsplit_nosep sep x : nosep sep x -> bsplit sep x = [x].
Proof.
  unfold nosep, bmem_byte. induction x as [|c x IH]; simpl; intros H; [reflexivity|].
  apply orb_false_iff in H as [H1 H2]. rewrite byte_eqb_sym, H1, (IH H2). reflexivity.
Qed.
Lemma bsplit_app_sep sep x t : nosep sep x -> bsplit sep (x ++ sep :: t) = x :: bsplit sep t.
Proof.
  unfold nosep, bmem_byte. induction x as [|c x IH]; simpl; intros H.
  - rewrite (Byte.byte_dec_lb eq_refl). reflexivity.
  - apply orb_false_iff in H as [H1 H2]. rewrite byte_eqb_sym, H1, (IH H2). reflexivity.
Qed.
Lemma bsplit_bjoin sep l : l <> [] -> Forall (nosep sep) l -> bsplit sep (bjoin sep l) = l.
Proof.
  induction l as [|x l IH]; intros N F; [contradiction|]. inversion F; subst.
  destruct l as [|y r]; [simpl; apply bsplit_nosep; assumption|].
  change (bjoin sep (x :: y :: r)) with (x ++ sep :: bjoin sep (y :: r)).
  rewrite bsplit_app_sep by assumption. f_equal. apply IH; [discriminate|assumption].
Qed.
Lemma bsplit_all_nosep sep s : Forall (nosep sep) (bsplit sep s).
Proof.
  induction s as [|c s IH]; simpl; [repeat constructor|].
  destruct (Byte.eqb c sep) eqn:Ec; [constructor; [reflexivity|exact IH]|].
  destruct (bsplit sep s) as [|hd tl]; [repeat constructor; unfold nosep; simpl; rewrite byte_eqb_sym, Ec; reflexivity|].
  inversion IH; subst. constructor; [|assumption]. unfold nosep in *. simpl. rewrite byte_eqb_sym, Ec. assumption.
Qed.
Lemma split_otps_nosep s : Forall (nosep ","%byte) (split_otps s).
Proof. unfold split_otps. destruct (bempty s); [constructor|apply bsplit_all_nosep]. Qed.

Lemma bjoin_snoc_nonempty sep (l : list bytes) x : x <> [] -> bjoin sep (l ++ [x]) <> [].
Proof.
  intros Nx. induction l as [|c l IH]; [exact Nx|].
  change ((c :: l) ++ [x]) with (c :: (l ++ [x])).
  destruct (l ++ [x]) as [|y r] eqn:El; [destruct l; discriminate El|].
  change (bjoin sep (c :: y :: r)) with (c ++ sep :: bjoin sep (y :: r)). destruct c; discriminate.
Qed.

(* what is read back after appending one comma-free entry to a list that was itself read *)
Lemma split_join_snoc s x :
  nosep ","%byte x ->
  let l := split_otps s ++ [x] in
  (length (split_otps (join_otps l)) <= length l)%nat /\
  (x <> [] -> split_otps (join_otps l) = l).
Proof.
  intros Nx l.
  assert (R : bsplit ","%byte (bjoin ","%byte l) = l).
  { apply bsplit_bjoin; [subst l; destruct (split_otps s); discriminate|].
    apply Forall_app. split; [apply split_otps_nosep|repeat constructor; exact Nx]. }
  unfold split_otps at 1 2, join_otps. split.
  - destruct (bempty (bjoin ","%byte l)); [simpl; lia|rewrite R; lia].
  - intros Hx. assert (Ne : bjoin ","%byte l <> []) by (apply bjoin_snoc_nonempty; exact Hx).
    destruct (bempty (bjoin ","%byte l)) eqn:Be; [|exact R].
    destruct (bjoin ","%byte l); [congruence|discriminate Be].
Qed.

Section OT.
Variable E : env.
Notation C := (e_C E).
Notation vals := (values E).

(* ---- O3: the cap of five --------------------------------------------------------------------- *)
Lemma otp_cap_lemma h u r h' :
  h_cuser h = Some u -> otp_add_post E h = (r, h') ->
  let cur := split_otps (u_otps u) in
  ((5 <= length cur)%nat -> h_st h' = h_st h) /\
  ((length cur < 5)%nat ->
     h_st h' = h_st h \/
     exists secret,
       let x := b64std_enc (sha C (otp_format secret)) in
       let u' := u <| u_otps := join_otps (cur ++ [x]) |> in
       h_st h' = h_st h <| s_users := uput (u_pid u) u' (s_users (h_st h)) |> /\
       (length (split_otps (u_otps u')) <= S (length cur))%nat /\
       (sha C (otp_format secret) <> [] -> split_otps (u_otps u') = cur ++ [x])).
Proof.
  intros Hc Eq cur. unfold otp_add_post, current_user in Eq.
  unfold bind at 1 in Eq. unfold bind at 1 in Eq. unfold get_h in Eq. rewrite Hc in Eq.
  unfold ret at 1 in Eq. cbn beta iota zeta in Eq. fold cur in Eq.
  destruct (5 <=? length cur)%nat eqn:Cap.
  - apply Nat.leb_le in Cap. split; [intros _|lia]. eapply (pres_respond E h_st); eauto.
  - apply Nat.leb_gt in Cap. split; [lia|intros _].
    apply bind_pres_inv in Eq as [(a & h1 & _ & S1 & K)|K]; [|left; exact K|apply pres_log; exact _].
    apply bind_pres_inv in K as [(secret & h2 & _ & S2 & K)|K]; [|left; congruence|apply pres_fresh; exact _].
    unfold store_back in K.
    apply bind_pres_inv in K as [(a2 & h3 & _ & S3 & K)|K]; [|left; congruence|apply pres_st_set_cuser].
    apply bind_inv in K as [(a3 & h4 & K1 & K)|[(e & K1 & ->)|(K1 & ->)]];
      apply st_save_spec in K1 as (_ & _ & _ & _ & [(e' & Hr & St)|(Hr & St)]); try discriminate Hr;
      try (left; congruence).
    right. exists secret. cbn zeta. split.
    + apply (pres_respond E h_st) in K. rewrite K, St, S3, S2, S1. reflexivity.
    + pose proof (split_join_snoc (u_otps u) (b64std_enc (sha C (otp_format secret)))
                    (b64std_enc_no_comma _)) as [L1 L2].
      fold cur in L1, L2. rewrite app_length in L1. simpl in L1. split.
      * simpl. lia.
      * intros Ns. apply L2. intros Hx. apply Ns.
        apply b64std_enc_inj. rewrite Hx. reflexivity.
Qed.

(* ---- O1: consumed before the session is written ------------------------------------------- *)
Lemma neutral_left {A} (m : M A) h2 h r h' :
  h_sev h2 = h_sev h -> evs_all sess_neutral any_ev m -> m h2 = (r, h') ->
  exists ls, h_sev h' = h_sev h ++ ls /\ Forall sess_neutral ls.
Proof.
  intros S Hm Eq. destruct (Hm _ _ _ Eq) as [(ls & lc & A1 & _ & F & _) _]. exists ls. rewrite <- S. auto.
Qed.

Ltac ntail := repeat (unfold_derived; cbn beta iota; first [apply neutral_fire | evs_step]); try side.

Definition otp_consumed (u : user) (i : nat) : user :=
  u <| u_otps := join_otps (otp_remove (split_otps (u_otps u)) i) |>.

(* Either the request appended only uid-neutral session events, or the Save that removed the
   matched one-time password succeeded, and at the END of the request (after all event hooks)
   the record stored under that user's pid is the consumed one up to the lock triple, and
   nobody else's record changed. *)
Lemma otp_login_cases h r h' :
  otp_login_post E h = (r, h') ->
  (exists ls, h_sev h' = h_sev h ++ ls /\ Forall sess_neutral ls) \/
  (exists u i,
     ulookup (aget (pid_field E) vals) (s_users (h_st h)) = Some u /\
     otp_match (sha C (aget f_password vals)) (split_otps (u_otps u)) 0%nat = Some (Some i) /\
     (exists su, ulookup (u_pid u) (s_users (h_st h')) = Some su /\ upto_lock (otp_consumed u i) su) /\
     (forall p, p <> u_pid u -> ulookup p (s_users (h_st h')) = ulookup p (s_users (h_st h)))).
Proof.
  intros Eq. unfold otp_login_post in Eq.
  assert (NIL : forall h0, h_sev h0 = h_sev h -> exists ls, h_sev h0 = h_sev h ++ ls /\ Forall sess_neutral ls)
    by (intros h0 S0; exists []; rewrite app_nil_r; auto).
  apply bind_inv in Eq as [(v & h1 & E1 & E2)|[(e & E1 & ->)|(E1 & ->)]];
    apply read_values_spec in E1 as [-> [Hv|Hv]]; try discriminate Hv; try (left; apply NIL; reflexivity).
  inversion Hv; subst v; clear Hv. cbn beta zeta in E2.
  apply try_inv in E2 as [(x & h2 & L & NP & K)|(L & ->)].
  2:{ apply st_load_spec in L. destruct L as (_ & _ & _ & _ & _ & _ & _ & N). congruence. }
  pose proof (st_load_spec _ _ _ _ _ L) as (S1 & _ & _ & S4 & _ & _ & Hu & _).
  destruct x as [u|e|]; [|destruct e|congruence];
    try (left; revert K; apply neutral_left; [exact S1|ntail]; fail).
  specialize (Hu u eq_refl). cbn beta zeta in K.
  destruct (otp_match (sha C (aget f_password vals)) (split_otps (u_otps u)) 0%nat) as [[i|]|] eqn:OM;
    try (left; revert K; apply neutral_left; [exact S1|ntail]; fail).
  apply bind_inv in K as [(a & h3 & K1 & K)|[(e & K1 & ->)|(K1 & ->)]]; try (inversion K1; fail).
  inversion K1; subst a h3; clear K1.
  apply bind_inv in K as [(a & h3 & K1 & K)|[(e & K1 & ->)|(K1 & ->)]]; try (inversion K1; fail).
  inversion K1; subst a h3; clear K1.
  change (u <| u_otps := join_otps (otp_remove (split_otps (u_otps u)) i) |>) with (otp_consumed u i) in K.
  set (u' := otp_consumed u i) in *.
  apply bind_inv in K as [(a & h3 & K1 & K)|[(e & K1 & ->)|(K1 & ->)]]; try (inversion K1; fail).
  inversion K1; subst a h3; clear K1.
  apply bind_inv in K as [(a & h3 & K1 & K)|[(e & K1 & ->)|(K1 & ->)]];
    apply st_save_spec in K1 as (Sv & _ & _ & Cu & [(e' & Hr & St)|(Hr & St)]); try discriminate Hr;
    try (left; apply NIL; rewrite Sv; simpl; exact S1; fail).
  simpl in St, Cu. right. exists u, i. split; [exact Hu|]. split; [exact OM|].
  assert (I3 : hinv (u_pid u) (upto_lock u') (s_users (h_st h)) h3).
  { split; [exists u'; rewrite Cu; repeat split; auto; apply upto_lock_refl|].
    rewrite St. simpl. change (u_pid u') with (u_pid u). rewrite S4. split.
    - exists u'. rewrite ulookup_uput_eq. split; [reflexivity|apply upto_lock_refl].
    - intros p Np. apply ulookup_uput_neq. exact Np. }
  assert (I' : hinv (u_pid u) (upto_lock u') (s_users (h_st h)) h').
  { revert I3 K. generalize h3 r h'.
    match goal with |- forall h3 r h', _ -> ?m h3 = _ -> _ =>
      change (keeps_inv (u_pid u) (upto_lock u') (s_users (h_st h)) m) end.
    pose proof (upto_lock_lock u') as QL.
    assert (KP : forall {A} (m : M A), pres uc m -> keeps_inv (u_pid u) (upto_lock u') (s_users (h_st h)) m)
      by (intros; apply keeps_of_pres; assumption).
    apply keeps_bind; [apply keeps_fire; [exact QL|discriminate]|intros hd1].
    destruct hd1; [apply KP, pres_ret|].
    apply keeps_bind; [apply keeps_fire; [exact QL|discriminate]|intros hd2].
    destruct hd2; [apply KP, pres_ret|].
    apply keeps_bind; [apply KP, pres_log; exact _|intros _].
    apply keeps_bind; [apply KP, pres_put_session; exact _|intros _].
    apply keeps_bind; [apply KP, pres_del_session; exact _|intros _].
    apply keeps_bind; [apply keeps_fire; [exact QL|discriminate]|intros hd3].
    destruct hd3; [apply KP, pres_ret|apply KP, pres_redirect; exact _]. }
  destruct I' as (_ & Su & Fr). split; [exact Su|exact Fr].
Qed.

Lemma upto_lock_consumed u i su :
  upto_lock (otp_consumed u i) su ->
  u_pid su = u_pid u /\ u_otps su = join_otps (otp_remove (split_otps (u_otps u)) i) /\
  u_password su = u_password u /\ u_confirmed su = u_confirmed u.
Proof. intros [s ->]. repeat split. Qed.

Lemma otp_consumed_before_session_lemma h r h' ls U :
  keyed (h_st h) ->
  otp_login_post E h = (r, h') -> h_sev h' = h_sev h ++ ls -> In (Put k_uid U) ls ->
  U = aget (pid_field E) vals /\
  exists u i,
    ulookup U (s_users (h_st h)) = Some u /\
    otp_match (sha C (aget f_password vals)) (split_otps (u_otps u)) 0%nat = Some (Some i) /\
    (exists u', ulookup U (s_users (h_st h')) = Some u' /\
                u_otps u' = join_otps (otp_remove (split_otps (u_otps u)) i)) /\
    (forall p, p <> U -> ulookup p (s_users (h_st h')) = ulookup p (s_users (h_st h))).
Proof.
  intros Kd Eq Sv Hin.
  assert (HU : U = aget (pid_field E) vals).
  { destruct (otp_login_post_guard E h _ _ Eq) as (ls1 & lc & A1 & _ & F).
    rewrite Sv in A1. apply app_inv_head in A1. subst ls1.
    rewrite Forall_forall in F. destruct (F _ Hin) as [N|(U' & EqU & G)].
    - exfalso. apply N. reflexivity.
    - inversion EqU; subst U'. destruct G as [G _]. exact G. }
  split; [exact HU|].
  destruct (otp_login_cases _ _ _ Eq) as [(ls0 & A1 & F)|(u & i & Hu & OM & (su & B1 & B2) & Fr)].
  - rewrite Sv in A1. apply app_inv_head in A1. subst ls0.
    rewrite Forall_forall in F. exfalso. apply (F _ Hin). reflexivity.
  - rewrite <- HU in Hu. pose proof (Kd _ _ Hu) as Pu. rewrite Pu in *.
    apply upto_lock_consumed in B2 as (_ & P2 & _).
    exists u, i. repeat split; auto. exists su. auto.
Qed.
End OT.
